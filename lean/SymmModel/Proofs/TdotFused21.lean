/-
  SymmModel.Proofs.TdotFused21 — the fused strategy with NO contracted axes (`mode = fused` on an
  outer product), both operands of rank ≥ 1: each operand is fused into a vector, the outer
  product of the two vectors is formed and both legs are unfused again.
  Namespace `SymmModel.TdotP`.
-/
import SymmModel.Proofs.TdotFused20

namespace SymmModel
namespace TdotP
variable {R : Type}

theorem freeAxes_1_nil : freeAxes 1 [] = [0] := by decide
theorem freeAxes_0_nil : freeAxes 0 [] = [] := by decide

theorem solo_all {A : Arr R} (hne : freeAxes A.ndim [] ≠ []) : SoloOk A (freeAxes A.ndim []) := by
  refine ⟨hne, ?_⟩
  rw [freeAxes_nil]

/-- the outer product of the two fused vectors -/
def cfO [Zero R] [Add R] [Mul R] (A B : Arr R) : Arr R :=
  tensordotBlockwise (FuseP.fusedArrM A [freeAxes A.ndim []]) (FuseP.fusedArrM B [freeAxes B.ndim []])
    [0] [] [] [0]

/-- the whole-array decoder is the identity on sectors of full length -/
theorem solo_all_elem [Zero R] [Neg R] {A : Arr R} (hv : FuseP.ValidArr A) (hph : A.phases = [])
    (hne : freeAxes A.ndim [] ≠ []) {c : Charge} {i d : Nat} {S : Sector} {O : List Nat}
    (h1 : decAx A [freeAxes A.ndim []] 0 c i = some (S, O))
    (hz : (FuseP.ixM A [freeAxes A.ndim []] 0).sizeOf? c = some d) (hi : i < d) :
    (FuseP.fusedArrM A [freeAxes A.ndim []]).elem [c] [i] = A.elem S O
    ∧ ∃ shp, Arr.blockShape? A.indices S = some shp ∧ inBox shp O = true := by
  have hp := solo_all hne
  have g0 : ([freeAxes A.ndim []] : List (List Nat))[0]? = some (freeAxes A.ndim []) := rfl
  obtain ⟨shp, hshp, hbox⟩ := decAx_facts hv hp.groupsOk g0 h1 hz hi
  have ean : A.indices.length = A.ndim := rfl
  have hpi : permuted A.indices (freeAxes A.ndim []) = A.indices := by
    rw [freeAxes_nil, ← ean, permuted_range]
  rw [hpi] at hshp
  have hSl : S.length = A.ndim := (blockShape?_length hshp).1
  have hOl : O.length = A.ndim := (inBox_length hbox).trans (blockShape?_length hshp).2
  refine ⟨solo_elem hv hph hp h1 hz hi hSl hOl ?_ ?_, shp, hshp, hbox⟩
  · rw [freeAxes_nil, ← hSl, permuted_range]
  · rw [freeAxes_nil, ← hOl, permuted_range]

/-- **no contracted axes, both operands of rank ≥ 1, aligned operands.** -/
theorem Ctx0.outer [AddCommMonoid R] [Mul R] [Neg R]
    (hz1 : ∀ x : R, 0 * x = 0) (hz2 : ∀ x : R, x * 0 = 0) {A B : Arr R}
    (h : Ctx0 A B [] []) (hneL : freeAxes A.ndim [] ≠ []) (hneR : freeAxes B.ndim [] ≠ []) :
    ∃ c, unfuseTail (cfO A B) ((freeAxes A.ndim []).length != 1) ((freeAxes B.ndim []).length != 1) = .ok c
      ∧ c.validB = true
      ∧ c.sym = A.sym ∧ c.fermi = false ∧ c.charge = A.sym.combine [A.charge, B.charge]
      ∧ c.phases = [] ∧ c.oddpos = A.oddpos
      ∧ c.indices.length = (freeAxes A.ndim []).length + (freeAxes B.ndim []).length
      ∧ (∀ K V, alookup c.blocks K = some V → ∀ J, inBox V.shape J = true →
          V.get J = (tensordotBlockwise A B (freeAxes A.ndim []) [] [] (freeAxes B.ndim [])).elem K J)
      ∧ (∀ s ∈ (tensordotBlockwise A B (freeAxes A.ndim []) [] [] (freeAxes B.ndim [])).sectors,
          s ∈ c.sectors)
      ∧ List.Forall₂ SizeLe c.indices (permuted A.indices (freeAxes A.ndim [])
            ++ permuted B.indices (freeAxes B.ndim [])) := by
  have hpA := solo_all hneL
  have hpB := solo_all hneR
  have hokA := hpA.groupsOk
  have hokB := hpB.groupsOk
  have gA0 : ([freeAxes A.ndim []] : List (List Nat))[0]? = some (freeAxes A.ndim []) := rfl
  have gB0 : ([freeAxes B.ndim []] : List (List Nat))[0]? = some (freeAxes B.ndim []) := rfl
  have hvaf := fused_solo_validB h.vA h.fA hpA
  have hvbf := fused_solo_validB h.vB h.fB hpB
  have iA : (FuseP.fusedArrM A [freeAxes A.ndim []]).indices = [FuseP.ixM A [freeAxes A.ndim []] 0] :=
    solo_newIdx hpA
  have iB : (FuseP.fusedArrM B [freeAxes B.ndim []]).indices = [FuseP.ixM B [freeAxes B.ndim []] 0] :=
    solo_newIdx hpB
  have e1 : (FuseP.fusedArrM A [freeAxes A.ndim []]).ndim = 1 := by
    show (FuseP.fusedArrM A [freeAxes A.ndim []]).indices.length = 1; rw [iA]; rfl
  have e2 : (FuseP.fusedArrM B [freeAxes B.ndim []]).ndim = 1 := by
    show (FuseP.fusedArrM B [freeAxes B.ndim []]).indices.length = 1; rw [iB]; rfl
  have ean : A.indices.length = A.ndim := rfl
  have ebn : B.indices.length = B.ndim := rfl
  have hvcf : (cfO A B).validB = true := by
    have := ValidP.tensordotBlockwise_valid (FuseP.fusedArrM A [freeAxes A.ndim []])
      (FuseP.fusedArrM B [freeAxes B.ndim []]) [] []
      ((ValidP.validB_iff _).mp hvaf) ((ValidP.validB_iff _).mp hvbf) h.sym h.fA
      (by unfold ValidP.oppositeDualsB; simp) (by simp) (by simp) (by simp) (by simp)
    rw [e1, e2, without_range, freeAxes_1_nil] at this
    exact (ValidP.validB_iff _).mpr this
  obtain ⟨t1, t2, t3, t4, t5⟩ := tensordotBlockwise_fields
    (FuseP.fusedArrM A [freeAxes A.ndim []]) (FuseP.fusedArrM B [freeAxes B.ndim []]) [0] [] [] [0]
  obtain ⟨u1, u2, u3, u4, u5⟩ := fusedArrM_fields A [freeAxes A.ndim []]
  obtain ⟨_, _, w3, _, _⟩ := fusedArrM_fields B [freeAxes B.ndim []]
  have k1 : (cfO A B).sym = A.sym := t1.trans u1
  have k3 : (cfO A B).charge = A.sym.combine [A.charge, B.charge] := by
    unfold cfO; rw [t3, u1, u3, w3]
  have k5 : (cfO A B).oddpos = A.oddpos := t5.trans u5
  have hfcf : (cfO A B).fermi = false := (t2.trans u2).trans h.fA
  have hpcf : (cfO A B).phases = [] := (t4.trans u4).trans h.phA
  have hdcf : allDistinct (cfO A B).sectors = true := Arr.allDistinct_of_validB hvcf
  have hidx : (cfO A B).indices =
      [dropTo (FuseP.ixM A [freeAxes A.ndim []] 0) ((cfO A B).sectors.filterMap (fun s => s[0]?)),
       dropTo (FuseP.ixM B [freeAxes B.ndim []] 0) ((cfO A B).sectors.filterMap (fun s => s[1]?))] := by
    unfold cfO
    rw [tensordotBlockwise_indices, without_nil, without_nil, iA, iB]
    rfl
  have hblock : ∀ {ns : Sector} {Bx : Blk R}, (ns, Bx) ∈ (cfO A B).blocks →
      ∃ cL cR dL dR, ns = [cL, cR]
        ∧ cL ∈ (cfO A B).sectors.filterMap (fun s => s[0]?)
        ∧ cR ∈ (cfO A B).sectors.filterMap (fun s => s[1]?)
        ∧ (FuseP.ixM A [freeAxes A.ndim []] 0).sizeOf? cL = some dL
        ∧ (FuseP.ixM B [freeAxes B.ndim []] 0).sizeOf? cR = some dR
        ∧ Bx.shape = [dL, dR] := by
    intro ns Bx hm
    have hsh := Arr.shapesOk_of_validB hvcf (ns, Bx) hm
    have hsec : ns ∈ (cfO A B).sectors := List.mem_map.mpr ⟨_, hm, rfl⟩
    rw [hidx] at hsh
    obtain ⟨hl, _⟩ := blockShape?_length hsh
    match ns, hl with
    | [cL, cR], _ =>
      have hcL : cL ∈ (cfO A B).sectors.filterMap (fun s => s[0]?) :=
        List.mem_filterMap.mpr ⟨_, hsec, rfl⟩
      have hcR : cR ∈ (cfO A B).sectors.filterMap (fun s => s[1]?) :=
        List.mem_filterMap.mpr ⟨_, hsec, rfl⟩
      simp only [Arr.blockShape?_cons, Arr.blockShape?_nil_nil, dropTo_sizeOf? _ _ hcL,
        dropTo_sizeOf? _ _ hcR] at hsh
      cases hzL : (FuseP.ixM A [freeAxes A.ndim []] 0).sizeOf? cL with
      | none => simp [hzL] at hsh
      | some dL =>
        cases hzR : (FuseP.ixM B [freeAxes B.ndim []] 0).sizeOf? cR with
        | none => simp [hzL, hzR] at hsh
        | some dR =>
          simp only [hzL, hzR, Option.bind_some, Option.map_some, Option.some.injEq] at hsh
          exact ⟨cL, cR, dL, dR, rfl, hcL, hcR, hzL, hzR, hsh.symm⟩
  -- the core
  have hcore : ∀ {cL cR : Charge} {iL iR dL dR : Nat} {Ls Rs : Sector} {oL oR : List Nat},
      decAx A [freeAxes A.ndim []] 0 cL iL = some (Ls, oL) →
      decAx B [freeAxes B.ndim []] 0 cR iR = some (Rs, oR) →
      (FuseP.ixM A [freeAxes A.ndim []] 0).sizeOf? cL = some dL → iL < dL →
      (FuseP.ixM B [freeAxes B.ndim []] 0).sizeOf? cR = some dR → iR < dR →
      (cfO A B).elem [cL, cR] [iL, iR] =
        (tensordotBlockwise A B (freeAxes A.ndim []) [] [] (freeAxes B.ndim [])).elem (Ls ++ Rs) (oL ++ oR) := by
    intro cL cR iL iR dL dR Ls Rs oL oR hdL hdR hzL hiL hzR hiR
    obtain ⟨eA, shpL, hshpL, hboxL⟩ := solo_all_elem h.vaA h.phA hneL hdL hzL hiL
    obtain ⟨eB, shpR, hshpR, hboxR⟩ := solo_all_elem h.vaB h.phB hneR hdR hzR hiR
    have hLl : Ls.length = A.ndim := (blockShape?_length hshpL).1
    have hRl : Rs.length = B.ndim := (blockShape?_length hshpR).1
    have hoLl : oL.length = A.ndim := (inBox_length hboxL).trans (blockShape?_length hshpL).2
    have hoRl : oR.length = B.ndim := (inBox_length hboxR).trans (blockShape?_length hshpR).2
    rw [tensordot_outer' hz1 hz2 A B h.phA h.phB (Arr.allDistinct_of_validB h.vA)
      (Arr.allDistinct_of_validB h.vB) (Arr.shapesOk_of_validB h.vA) (Arr.shapesOk_of_validB h.vB)
      Ls Rs oL oR hLl hRl hoLl hoRl (by
        rw [Arr.blockShapeD, blockShape?_append hshpL hshpR]
        simp only [Option.getD_some]
        rw [inBox_append (inBox_length hboxL), hboxL, hboxR]; rfl)]
    rw [← eA, ← eB]
    have := tensordot_outer' hz1 hz2 (FuseP.fusedArrM A [freeAxes A.ndim []])
      (FuseP.fusedArrM B [freeAxes B.ndim []]) h.phA h.phB (Arr.allDistinct_of_validB hvaf)
      (Arr.allDistinct_of_validB hvbf) (Arr.shapesOk_of_validB hvaf) (Arr.shapesOk_of_validB hvbf)
      [cL] [cR] [iL] [iR] (by rw [e1]; rfl) (by rw [e2]; rfl) (by rw [e1]; rfl) (by rw [e2]; rfl) (by
        rw [iA, iB]
        simp only [List.cons_append, List.nil_append, Arr.blockShapeD, Arr.blockShape?_cons,
          Arr.blockShape?_nil_nil, hzL, hzR, Option.bind_some, Option.map_some, Option.getD_some, inBox,
          hiL, hiR, decide_true, Bool.and_self])
    rw [e1, e2, freeAxes_1_nil] at this
    exact this
  -- the two stages
  generalize hS0 : (cfO A B).sectors.filterMap (fun s => s[0]?) = S0 at hidx hblock
  generalize hS1 : (cfO A B).sectors.filterMap (fun s => s[1]?) = S1 at hidx hblock
  have hix1 : (cfO A B).indices[1]? = some (dropTo (FuseP.ixM B [freeAxes B.ndim []] 0) S1) := by
    rw [hidx]; rfl
  have hm1 : ((freeAxes B.ndim []).length != 1) = true →
      (dropTo (FuseP.ixM B [freeAxes B.ndim []] 0) S1).sub.isSome = true := by
    intro hm
    rw [dropTo_sub _ _ (FuseP.ixM_sub hokB gB0 (by simpa using hm))]; rfl
  obtain ⟨y, hy_ok, hyv, hyf, hy1, hy2, hy3, hy4, hyidx, hback1, hfwd1⟩ :=
    stage (cfO A B) 1 ((freeAxes B.ndim []).length != 1) _ hvcf hfcf hix1 hm1
  have hix0 : y.indices[0]? = some (dropTo (FuseP.ixM A [freeAxes A.ndim []] 0) S0) := by
    rw [hyidx, hidx]
    simp only [List.take_succ_cons, List.take_zero, List.cons_append, List.nil_append,
      List.getElem?_cons_zero]
  have hm0 : ((freeAxes A.ndim []).length != 1) = true →
      (dropTo (FuseP.ixM A [freeAxes A.ndim []] 0) S0).sub.isSome = true := by
    intro hm
    rw [dropTo_sub _ _ (FuseP.ixM_sub hokA gA0 (by simpa using hm))]; rfl
  obtain ⟨c, hc_ok, hcv, hcf, hc1, hc2, hc3, hc4, hcidx, hback2, hfwd2⟩ :=
    stage y 0 ((freeAxes A.ndim []).length != 1) _ hyv hyf hix0 hm0
  have hdy : allDistinct y.sectors = true := Arr.allDistinct_of_validB hyv
  have hci : c.indices =
      (if ((freeAxes A.ndim []).length != 1) = true then
          ((dropTo (FuseP.ixM A [freeAxes A.ndim []] 0) S0).sub.map (·.1)).getD []
        else [dropTo (FuseP.ixM A [freeAxes A.ndim []] 0) S0]) ++
      (if ((freeAxes B.ndim []).length != 1) = true then
          ((dropTo (FuseP.ixM B [freeAxes B.ndim []] 0) S1).sub.map (·.1)).getD []
        else [dropTo (FuseP.ixM B [freeAxes B.ndim []] 0) S1]) := by
    rw [hcidx, hyidx, hidx]
    simp only [List.take_succ_cons, List.take_zero, List.drop_succ_cons, List.drop_zero, List.drop_nil,
      List.nil_append, List.append_nil, List.cons_append]
  have hlegA := leg_sizeLe hokA gA0 S0
  have hlegB := leg_sizeLe hokB gB0 S1
  refine ⟨c, ?_, hcv, by rw [hc1, hy1]; exact k1, hcf, by rw [hc2, hy2]; exact k3,
    by rw [hc3, hy3]; exact hpcf, by rw [hc4, hy4]; exact k5, ?_, ?_, ?_, ?_⟩
  · unfold unfuseTail
    rw [hy_ok]
    exact hc_ok
  · rw [hci, List.length_append, hlegA.length_eq, hlegB.length_eq,
      permuted_length _ _ (by simpa [ean] using mem_freeAxes_lt),
      permuted_length _ _ (by simpa [ebn] using mem_freeAxes_lt)]
  · -- values
    intro K2 V2 hl2 J2 hJ2
    obtain ⟨ns', By, segL, nL, hmem', hK2, hsegL, _, hget2⟩ := hback2 K2 V2 hl2
    have hly : alookup y.blocks ns' = some By := alookup_of_mem hdy hmem'
    obtain ⟨ns, Bx, segR, nR, hmem, hns', hsegR, _, hget1⟩ := hback1 ns' By hly
    obtain ⟨cL, cR, dL, dR, rfl, hcL, hcR, hzL, hzR, hBxs⟩ := hblock hmem
    simp only [List.take_succ_cons, List.take_zero, List.drop_succ_cons, List.drop_nil,
      List.append_nil, List.singleton_append] at hns'
    subst hns'
    simp only [List.take_zero, List.nil_append, List.drop_succ_cons, List.drop_zero] at hK2
    subst hK2
    obtain ⟨iL, hdecL, hg2, hbox2⟩ := hget2 J2 hJ2
    simp only [List.take_zero, List.nil_append, Nat.zero_add, List.drop_zero, List.getD_cons_zero,
      List.singleton_append] at hdecL hg2 hbox2
    obtain ⟨iR, hdecR, hg1, hbox1⟩ := hget1 _ hbox2
    simp only [List.take_succ_cons, List.take_zero, List.drop_succ_cons, List.drop_zero,
      List.getD_cons_succ, List.getD_cons_zero, List.cons_append,
      List.nil_append] at hdecR hg1 hbox1
    have edrop : List.drop (1 + nR) (iL :: List.drop nL J2) = (J2.drop nL).drop nR := by
      rw [Nat.add_comm, List.drop_succ_cons]
    rw [edrop] at hbox1 hg1
    rw [hBxs] at hbox1
    have hl := inBox_length hbox1
    simp only [List.length_cons, List.length_nil] at hl
    have hrest : (J2.drop nL).drop nR = [] := by
      apply List.eq_nil_of_length_eq_zero; omega
    rw [hrest] at hbox1 hg1
    simp only [inBox, Bool.and_eq_true, decide_eq_true_eq, and_true] at hbox1
    have hoR : (J2.drop nL).take nR = J2.drop nL := by
      have := List.take_append_drop nR (J2.drop nL)
      rw [hrest, List.append_nil] at this; exact this
    rw [hoR] at hdecR
    rw [decIx_dropTo gA0 S0 hcL] at hdecL
    rw [decIx_dropTo gB0 S1 hcR] at hdecR
    have hcr := hcore hdecL hdecR hzL hbox1.1 hzR hbox1.2
    rw [List.take_append_drop] at hcr
    rw [hg2, hg1, ← hcr]
    exact (Arr.elem_of_mem hdcf hpcf hmem [iL, iR]).symm
  · -- stored sectors
    intro s hs
    rw [tensordotBlockwise_sectors_eq, List.mem_eraseDups, mem_tdKeys] at hs
    obtain ⟨x, hx, y', hy', _, rfl⟩ := hs
    obtain ⟨sa, hsa, rfl⟩ := List.mem_map.mp hx
    obtain ⟨sb, hsb, rfl⟩ := List.mem_map.mp hy'
    have hsec : [FuseP.cM (a := A) (groups := [freeAxes A.ndim []]) sa 0,
        FuseP.cM (a := B) (groups := [freeAxes B.ndim []]) sb 0] ∈ (cfO A B).sectors := by
      unfold cfO
      rw [tensordotBlockwise_sectors_eq, List.mem_eraseDups, mem_tdKeys]
      obtain ⟨Ba, hBa, _⟩ := FuseP.fusedBlockM_exists h.vaA hokA hsa
      obtain ⟨Bb, hBb, _⟩ := FuseP.fusedBlockM_exists h.vaB hokB hsb
      rw [solo_newSector hpA] at hBa
      rw [solo_newSector hpB] at hBb
      exact ⟨_, List.mem_map.mpr ⟨_, alookup_mem hBa, rfl⟩, _, List.mem_map.mpr ⟨_, alookup_mem hBb, rfl⟩,
        rfl, by simp [permuted]⟩
    obtain ⟨⟨ns, Bx⟩, hmem, hnse⟩ := List.mem_map.mp hsec
    simp only at hnse
    subst hnse
    have hcL : FuseP.cM (a := A) (groups := [freeAxes A.ndim []]) sa 0 ∈ S0 := by
      rw [← hS0]; exact List.mem_filterMap.mpr ⟨_, hsec, rfl⟩
    have hcR : FuseP.cM (a := B) (groups := [freeAxes B.ndim []]) sb 0 ∈ S1 := by
      rw [← hS1]; exact List.mem_filterMap.mpr ⟨_, hsec, rfl⟩
    have h1 := hfwd1 _ Bx hmem (permuted sb.1 (freeAxes B.ndim []))
      (by simpa using segOf_stored h.vaB hokB gB0 hsb S1 hcR)
    simp only [List.take_succ_cons, List.take_zero, List.drop_succ_cons, List.drop_nil,
      List.append_nil, List.singleton_append] at h1
    obtain ⟨⟨ns', By⟩, hmem', hns'⟩ := List.mem_map.mp h1
    simp only at hns'
    subst hns'
    have h2 := hfwd2 _ By hmem' (permuted sa.1 (freeAxes A.ndim []))
      (by simpa using segOf_stored h.vaA hokA gA0 hsa S0 hcL)
    simpa using h2
  · -- index tables
    rw [hci]
    exact forall₂_append hlegA hlegB

end TdotP
end SymmModel
