/-
  SymmModel.Proofs.Reshape6d — the squeeze phase and the fuse phase SUCCEED (flat conditions on the
  label list: labels are "o", "s" or f"g{k}" with `k` a key of `fuse_sizes`; not all labels are "s";
  group sizes are positive).
-/
import SymmModel.Proofs.Reshape6c
namespace SymmModel.Reshape5
open SymmModel SymmModel.Reshape SymmModel.C07 SymmModel.Reshape3

/-- labels are "o", "s" or a group label with a key of `fs` -/
def LblOk (fs : List Nat) (term : List Lbl) : Prop :=
  ∀ l ∈ term, l.isS = true ∨ l = Lbl.o ∨ ∃ k, l = Lbl.g k ∧ k < fs.length

/-- no "s" before position `i` -/
def NonS (term : List Lbl) (i : Nat) : Prop := ∀ p l, p < i → term[p]? = some l → l.isS = false

theorem bump_succ : ∀ (fs : List Nat) (k : Nat), k < fs.length → ∃ fs', bump fs k = .ok fs' ∧ fs'.length = fs.length := by
  intro fs
  induction fs with
  | nil => intro k h; simp at h
  | cons x xs ih =>
    intro k h
    cases k with
    | zero => exact ⟨_, rfl, by simp⟩
    | succ k =>
      obtain ⟨r, hr, hl⟩ := ih k (by simpa using h)
      exact ⟨x :: r, by simp [bump, hr, pure, Except.pure], by simp [hl]⟩

theorem lblOk_set {fs : List Nat} {term : List Lbl} (h : LblOk fs term) (i gk : Nat) (hk : gk < fs.length) :
    LblOk fs (term.set i (Lbl.g gk)) := by
  intro l hl
  rcases List.mem_or_eq_of_mem_set hl with hl | rfl
  · exact h l hl
  · exact Or.inr (Or.inr ⟨gk, rfl, hk⟩)

theorem lblOk_len {fs fs' : List Nat} {term : List Lbl} (h : LblOk fs term) (hl : fs.length ≤ fs'.length) :
    LblOk fs' term := by
  intro l hm
  rcases h l hm with h1 | h1 | ⟨k, h1, h2⟩
  · exact Or.inl h1
  · exact Or.inr (Or.inl h1)
  · exact Or.inr (Or.inr ⟨k, h1, by omega⟩)

/-- `absorb` succeeds and leaves no "s" up to and including the position it returns -/
theorem absorb_succ (gk : Nat) : ∀ (fuel i : Nat) (term : List Lbl) (fs : List Nat), gk < fs.length →
    i < term.length → term.length ≤ fuel + i → LblOk fs term → NonS term i →
    ∃ i' t' fs', absorb (some gk) fuel i term fs = .ok (i', t', fs') ∧ fs'.length = fs.length
      ∧ t'.length = term.length ∧ LblOk fs' t' ∧ NonS t' (i' + 1) ∧ i < i' ∧ i' ≤ term.length := by
  intro fuel
  induction fuel with
  | zero => intro i term fs _ h1 h2 _ _; omega
  | succ fuel ih =>
    intro i term fs hk hi hf hl hn
    obtain ⟨fs1, hb, hl1⟩ := bump_succ fs gk hk
    have hl' : LblOk fs1 (term.set i (Lbl.g gk)) := lblOk_len (lblOk_set hl i gk hk) (by omega)
    have hn' : NonS (term.set i (Lbl.g gk)) (i + 1) := by
      intro p l hp hpl
      rw [List.getElem?_set] at hpl
      by_cases hip : i = p
      · subst hip; simp only [if_true, hi] at hpl; injection hpl with hpl; subst hpl; rfl
      · simp only [hip, if_false] at hpl
        exact hn p l (by omega) hpl
    simp only [absorb, useG, pure, Except.pure, hb]
    cases hnx : (term.set i (Lbl.g gk))[i + 1]? with
    | none =>
      refine ⟨i + 1, _, fs1, rfl, hl1, by simp, hl', ?_, by omega, by omega⟩
      intro p l hp hpl
      by_cases hp' : p < i + 1
      · exact hn' p l hp' hpl
      · have : p = i + 1 := by omega
        subst this; rw [hnx] at hpl; cases hpl
    | some l0 =>
      simp only []
      by_cases hs : l0.isS = true
      · simp only [hs, if_true]
        have hi1 : i + 1 < (term.set i (Lbl.g gk)).length := (List.getElem?_eq_some_iff.mp hnx).1
        obtain ⟨i', t', fs', h1, h2, h3, h4, h5, h6, h7⟩ := ih (i + 1) _ fs1 (by omega) hi1
          (by simp at hi1 ⊢; omega) hl' hn'
        exact ⟨i', t', fs', h1, by omega, by simpa using h3, h4, h5, by omega, by simpa using h7⟩
      · simp only [hs, Bool.false_eq_true, if_false]
        refine ⟨i + 1, _, fs1, rfl, hl1, by simp, hl', ?_, by omega, by omega⟩
        intro p l hp hpl
        by_cases hp' : p < i + 1
        · exact hn' p l hp' hpl
        · have : p = i + 1 := by omega
          subst this; rw [hnx] at hpl; injection hpl with hpl; subst hpl
          simpa using hs

/-- `sqLoop` succeeds -/
theorem sqLoop_succ : ∀ (fuel i : Nat) (term : List Lbl) (fs : List Nat) (g : Option Nat),
    term.length + 2 ≤ fuel + i → 1 ≤ i → i ≤ term.length + 1 → LblOk fs term → NonS term i →
    ∃ r, sqLoop fuel i term fs g = .ok r := by
  intro fuel
  induction fuel with
  | zero =>
    intro i term fs g hf hi hiu _ _
    omega
  | succ fuel ih =>
    intro i term fs g hf hi hiu hl hn
    simp only [sqLoop]
    cases hti : term[i]? with
    | none => exact ⟨_, rfl⟩
    | some label =>
      simp only []
      have hil : i < term.length := (List.getElem?_eq_some_iff.mp hti).1
      by_cases hs : label.isS = true
      · simp only [hs, if_true]
        have hleft : ∃ left, term[i - 1]? = some left := ⟨term[i - 1], List.getElem?_eq_getElem (by omega)⟩
        obtain ⟨left, hlf⟩ := hleft
        have hlns : left.isS = false := hn (i - 1) left (by omega) hlf
        have hlm : left ∈ term := List.mem_of_getElem? hlf
        rw [hlf]
        simp only []
        rcases hl left hlm with h1 | h1 | ⟨k, h1, hk⟩
        · rw [hlns] at h1; cases h1
        · subst h1
          simp only []
          have hl2 : LblOk (fs ++ [1]) (term.set (i - 1) (Lbl.g fs.length)) :=
            lblOk_set (lblOk_len hl (by simp)) _ _ (by simp)
          have hn2 : NonS (term.set (i - 1) (Lbl.g fs.length)) i := by
            intro p l hp hpl
            rw [List.getElem?_set] at hpl
            by_cases hip : i - 1 = p
            · subst hip
              have : i - 1 < term.length := by omega
              simp only [if_true, this] at hpl; injection hpl with hpl; subst hpl; rfl
            · simp only [hip, if_false] at hpl; exact hn p l hp hpl
          obtain ⟨i', t', fs', h1, h2, h3, h4, h5, h6, h7⟩ := absorb_succ fs.length
            ((term.set (i - 1) (Lbl.g fs.length)).length + 1) i _ (fs ++ [1]) (by simp) (by simpa using hil)
            (by omega) hl2 hn2
          rw [h1]
          simp only []
          exact ih (i' + 1) t' fs' _ (by simp at h3; omega) (by omega) (by simp at h3 h7; omega) h4 h5
        · subst h1
          simp only []
          obtain ⟨i', t', fs', h1, h2, h3, h4, h5, h6, h7⟩ := absorb_succ k (term.length + 1) i term fs hk hil
            (by omega) hl hn
          rw [h1]
          simp only []
          exact ih (i' + 1) t' fs' _ (by omega) (by omega) (by omega) h4 h5
      · simp only [hs, Bool.false_eq_true, if_false]
        refine ih (i + 1) term fs g (by omega) (by omega) (by omega) hl ?_
        intro p l hp hpl
        by_cases hp' : p < i
        · exact hn p l hp' hpl
        · have : p = i := by omega
          subst this; rw [hti] at hpl; injection hpl with hpl; subst hpl; simpa using hs

theorem skipS_succ (term : List Lbl) : ∀ (fuel i0 : Nat),
    (∃ q l, i0 < q ∧ term[q]? = some l ∧ l.isS = false) → term.length ≤ fuel + i0 →
    ∃ i l, skipS term fuel i0 = .ok (i, l) ∧ i0 < i ∧ term[i]? = some l ∧ l.isS = false := by
  intro fuel
  induction fuel with
  | zero =>
    intro i0 ⟨q, l, hq, hl, _⟩ hf
    have := (List.getElem?_eq_some_iff.mp hl).1
    omega
  | succ fuel ih =>
    intro i0 ⟨q, l, hq, hl, hs⟩ hf
    have hql := (List.getElem?_eq_some_iff.mp hl).1
    simp only [skipS]
    cases hn : term[i0 + 1]? with
    | none =>
      have : term.length ≤ i0 + 1 := by
        rcases Nat.lt_or_ge (i0 + 1) term.length with h | h
        · rw [List.getElem?_eq_getElem h] at hn; cases hn
        · exact h
      omega
    | some l1 =>
      simp only []
      by_cases h1 : l1.isS = true
      · simp only [h1, if_true]
        have hq1 : q ≠ i0 + 1 := by
          intro hc; subst hc; rw [hn] at hl; injection hl with hl; subst hl; rw [h1] at hs; cases hs
        obtain ⟨i, l', h2, h3, h4, h5⟩ := ih (i0 + 1) ⟨q, l, by omega, hl, hs⟩ (by omega)
        exact ⟨i, l', h2, by omega, h4, h5⟩
      · simp only [h1, Bool.false_eq_true, if_false, pure, Except.pure]
        exact ⟨i0 + 1, l1, rfl, by omega, hn, by simpa using h1⟩

theorem markLeft_succ (gk : Nat) : ∀ (n j : Nat) (term : List Lbl) (fs : List Nat), gk < fs.length →
    ∃ t fs', markLeft gk n j term fs = .ok (t, fs') ∧ fs'.length = fs.length ∧ t.length = term.length
      ∧ ∀ p, t[p]? = if j ≤ p ∧ p < j + n then (term[p]?).map (fun _ => Lbl.g gk) else term[p]? := by
  intro n
  induction n with
  | zero =>
    intro j term fs _
    refine ⟨term, fs, rfl, rfl, rfl, fun p => ?_⟩
    have : ¬ (j ≤ p ∧ p < j + 0) := by omega
    simp
  | succ n ih =>
    intro j term fs hk
    obtain ⟨fs1, hb, hl1⟩ := bump_succ fs gk hk
    obtain ⟨t, fs', h1, h2, h3, h4⟩ := ih (j + 1) (term.set j (Lbl.g gk)) fs1 (by omega)
    refine ⟨t, fs', by simp only [markLeft, hb]; exact h1, by omega, by simpa using h3, fun p => ?_⟩
    rw [h4 p, List.getElem?_set]
    by_cases hjp : j = p
    · subst hjp
      have c1 : ¬ (j + 1 ≤ j ∧ j < j + 1 + n) := by omega
      have c2 : j ≤ j ∧ j < j + (n + 1) := by omega
      simp only [c1, c2, if_false, if_true]
      by_cases hjl : j < term.length
      · simp [hjl]
      · simp [hjl]
    · simp only [hjp, if_false]
      by_cases c : j + 1 ≤ p ∧ p < j + 1 + n
      · have c2 : j ≤ p ∧ p < j + (n + 1) := by omega
        simp [c, c2]
      · have c2 : ¬ (j ≤ p ∧ p < j + (n + 1)) := by omega
        simp [c, c2]

/-- **the squeeze phase succeeds** -/
theorem squeezePhase_succ (term : List Lbl) (fs : List Nat) (hl : LblOk fs term)
    (hq : ∃ (q : Nat) (l : Lbl), term[q]? = some l ∧ l.isS = false) : ∃ r, squeezePhase term fs = .ok r := by
  obtain ⟨q, lq, hlq, hsq⟩ := hq
  have hne : 0 < term.length := by
    have := (List.getElem?_eq_some_iff.mp hlq).1; omega
  simp only [squeezePhase, List.getElem?_eq_getElem hne]
  by_cases h0 : (term[0]).isS = true
  · simp only [h0, if_true]
    have hq0 : 0 < q := by
      rcases Nat.eq_zero_or_pos q with h | h
      · subst h
        rw [List.getElem?_eq_getElem hne] at hlq; injection hlq with hlq
        rw [hlq] at h0; rw [h0] at hsq; cases hsq
      · exact h
    obtain ⟨i, l, h1, h2, h3, h4⟩ := skipS_succ term (term.length + 1) 0 ⟨q, lq, hq0, hlq, hsq⟩ (by omega)
    rw [h1]
    simp only []
    have hil := (List.getElem?_eq_some_iff.mp h3).1
    rcases hl l (List.mem_of_getElem? h3) with c | c | ⟨k, c, hk⟩
    · rw [h4] at c; cases c
    · subst c
      simp only [useG, pure, Except.pure]
      obtain ⟨t, fs', m1, m2, m3, m4⟩ := markLeft_succ fs.length i 0 (term.set i (Lbl.g fs.length)) (fs ++ [1])
        (by simp)
      rw [m1]
      simp only []
      have hl2 : LblOk fs' t := by
        intro l' hl'
        obtain ⟨p, hp⟩ := List.getElem?_of_mem hl'
        rw [m4 p] at hp
        by_cases c : 0 ≤ p ∧ p < 0 + i
        · simp only [c, and_self, if_true] at hp
          cases hx : (term.set i (Lbl.g fs.length))[p]? with
          | none => rw [hx] at hp; cases hp
          | some x =>
            rw [hx] at hp; simp only [Option.map_some, Option.some.injEq] at hp
            exact Or.inr (Or.inr ⟨fs.length, hp.symm, by rw [m2]; simp⟩)
        · simp only [c, if_false] at hp
          exact lblOk_len (lblOk_set (lblOk_len hl (by simp : fs.length ≤ (fs ++ [1]).length)) i _ (by simp))
            (by omega) l' (List.mem_of_getElem? hp)
      refine sqLoop_succ _ (i + 1) t fs' _ (by omega) (by omega) (by simp at m3; omega) hl2 ?_
      intro p l' hp hpl
      rw [m4 p] at hpl
      by_cases c : 0 ≤ p ∧ p < 0 + i
      · simp only [c, and_self, if_true] at hpl
        cases hx : (term.set i (Lbl.g fs.length))[p]? with
        | none => rw [hx] at hpl; cases hpl
        | some x => rw [hx] at hpl; simp only [Option.map_some, Option.some.injEq] at hpl; rw [← hpl]; rfl
      · simp only [c, if_false] at hpl
        have : p = i := by omega
        subst this
        rw [List.getElem?_set] at hpl
        simp only [if_true, hil] at hpl
        injection hpl with hpl; rw [← hpl]; rfl
    · subst c
      simp only [useG, pure, Except.pure]
      obtain ⟨t, fs', m1, m2, m3, m4⟩ := markLeft_succ k i 0 term fs hk
      rw [m1]
      simp only []
      have hl2 : LblOk fs' t := by
        intro l' hl'
        obtain ⟨p, hp⟩ := List.getElem?_of_mem hl'
        rw [m4 p] at hp
        by_cases c : 0 ≤ p ∧ p < 0 + i
        · simp only [c, and_self, if_true] at hp
          cases hx : term[p]? with
          | none => rw [hx] at hp; cases hp
          | some x =>
            rw [hx] at hp; simp only [Option.map_some, Option.some.injEq] at hp
            exact Or.inr (Or.inr ⟨k, hp.symm, by omega⟩)
        · simp only [c, if_false] at hp
          exact lblOk_len hl (by omega) l' (List.mem_of_getElem? hp)
      refine sqLoop_succ _ (i + 1) t fs' _ (by omega) (by omega) (by omega) hl2 ?_
      intro p l' hp hpl
      rw [m4 p] at hpl
      by_cases c : 0 ≤ p ∧ p < 0 + i
      · simp only [c, and_self, if_true] at hpl
        cases hx : term[p]? with
        | none => rw [hx] at hpl; cases hpl
        | some x => rw [hx] at hpl; simp only [Option.map_some, Option.some.injEq] at hpl; rw [← hpl]; rfl
      · simp only [c, if_false] at hpl
        have : p = i := by omega
        subst this
        rw [h3] at hpl; injection hpl with hpl; rw [← hpl]; rfl
  · simp only [h0, Bool.false_eq_true, if_false]
    refine sqLoop_succ _ 1 term fs none (by omega) (Nat.le_refl _) (by omega) hl ?_
    intro p l hp hpl
    have : p = 0 := by omega
    subst this
    rw [List.getElem?_eq_getElem hne] at hpl; injection hpl with hpl
    rw [← hpl]; simpa using h0

/-- **the fuse phase succeeds** -/
theorem fuseLoop_succ (fs : List Nat) (hfs : ∀ v ∈ fs, 1 ≤ v) : ∀ (fuel i : Nat) (term : List Lbl)
    (cur : List (List Nat)) (acc : List (List (List Nat))),
    2 * (term.length - i) + (if cur.isEmpty then 0 else 1) < fuel →
    ∃ r, fuseLoop fs fuel i term cur acc = .ok r := by
  intro fuel
  induction fuel with
  | zero => intro i term cur acc h; omega
  | succ fuel ih =>
    intro i term cur acc h
    simp only [fuseLoop]
    cases hti : term[i]? with
    | none => exact ⟨_, rfl⟩
    | some label =>
      have hil : i < term.length := (List.getElem?_eq_some_iff.mp hti).1
      simp only []
      split
      · cases hc : cur.isEmpty with
        | true =>
          simp only [Bool.not_true, Bool.false_eq_true, if_false]
          refine ih _ _ _ _ ?_
          simp only [hc, if_true] at h ⊢; omega
        | false =>
          simp only [Bool.not_false, if_true]
          refine ih _ _ _ _ ?_
          simp only [hc, Bool.false_eq_true, if_false, List.isEmpty_nil, if_true, List.length_append,
            List.length_take, List.length_replicate, List.length_drop] at h ⊢
          omega
      · rename_i s hsz
        have hs1 : 1 ≤ s := by
          cases label with
          | g k => simp only [] at hsz; exact hfs s (List.mem_of_getElem? hsz)
          | o => simp at hsz
          | s => simp at hsz
          | u k => simp at hsz
        refine ih _ _ _ _ ?_
        have : (cur ++ [List.range' i s]).isEmpty = false := by simp
        rw [this]
        simp only [Bool.false_eq_true, if_false]
        split at h <;> omega

end SymmModel.Reshape5
