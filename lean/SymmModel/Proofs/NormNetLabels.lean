/-
  SymmModel.Proofs.NormNetLabels — label LISTS in the norm: nested conjugate pairs.
  Namespace `SymmModel.NormNet`.  Nothing here changes a model definition.
    * (L1) `resolveScan_nested`: the scan of `oddposDag w ++ w` annihilates every pair, innermost
      first, and leaves the sign `nestSign w` (one `-1` per DUAL entry of `w`);
    * (L2) `resolve_nested`: `resolveCombinedOddpos` on operands with labels `oddposDag w`, `w`;
    * (L3) `norm_left_labels`, `norm_right_labels`: `Norm.norm_left/right` for a sorted list of
      non-dual labels with pairwise distinct names.
-/
import SymmModel.Proofs.NormLemmas
import SymmModel.Proofs.Oddpos
namespace SymmModel.NormNet
open SymmModel SymmModel.Lazy SymmModel.Norm
set_option linter.unusedSectionVars false

/-! ## (L1) nested conjugate pairs -/

/-- the conjugate label: same name, other dualness -/
def bar (a : Int × Bool) : Int × Bool := (a.1, !a.2)

/-- product over the entries of `w` of `-1` for a dual entry, `+1` for a non-dual one -/
def nestSign (w : List (Int × Bool)) : Int :=
  (w.map (fun a => if a.2 then (-1 : Int) else 1)).foldr (· * ·) 1

@[simp] theorem nestSign_nil : nestSign [] = 1 := rfl

theorem nestSign_cons (a : Int × Bool) (w : List (Int × Bool)) :
    nestSign (a :: w) = (if a.2 then -1 else 1) * nestSign w := rfl

theorem nestSign_pm (w : List (Int × Bool)) : nestSign w = 1 ∨ nestSign w = -1 := by
  induction w with
  | nil => exact Or.inl rfl
  | cons a w ih =>
    rw [nestSign_cons]
    rcases ih with h | h <;> rw [h] <;> cases a.2 <;> simp

/-- no dual entry: no sign -/
theorem nestSign_nondual (w : List (Int × Bool)) (h : ∀ a ∈ w, a.2 = false) : nestSign w = 1 := by
  induction w with
  | nil => rfl
  | cons a w ih =>
    rw [nestSign_cons, ih (fun b hb => h b (List.mem_cons_of_mem _ hb)),
      h a List.mem_cons_self]
    rfl

/-- all entries dual: `(-1)^|w|` -/
theorem nestSign_dual (w : List (Int × Bool)) (h : ∀ a ∈ w, a.2 = true) :
    nestSign w = if w.length % 2 = 1 then -1 else 1 := by
  induction w with
  | nil => rfl
  | cons a w ih =>
    rw [nestSign_cons, ih (fun b hb => h b (List.mem_cons_of_mem _ hb)),
      h a List.mem_cons_self, List.length_cons]
    rcases Nat.mod_two_eq_zero_or_one w.length with e | e <;>
      simp [e, Nat.add_mod]

theorem nestSign_dual_pow (w : List (Int × Bool)) (h : ∀ a ∈ w, a.2 = true) :
    nestSign w = (-1 : Int) ^ w.length := by
  induction w with
  | nil => rfl
  | cons a w ih =>
    rw [nestSign_cons, ih (fun b hb => h b (List.mem_cons_of_mem _ hb)),
      h a List.mem_cons_self, List.length_cons, Int.pow_succ, Int.mul_comm]
    rfl

theorem oddposDag_eq_bar (w : List (Int × Bool)) : Arr.oddposDag w = w.reverse.map bar := rfl

theorem oddposDag_cons (a : Int × Bool) (t : List (Int × Bool)) :
    Arr.oddposDag (a :: t) = Arr.oddposDag t ++ [bar a] := by
  simp [Arr.oddposDag, bar]

/-- the cascade: cursor on `ā` followed by `a`, everything before the cursor being the conjugates
    of what follows, innermost next to the cursor.  Each step removes a pair and steps back. -/
theorem resolveScan_cascade : ∀ (t : List (Int × Bool)) (a : Int × Bool) (f : Nat) (ph : Int),
    resolveScan (f + t.length + 2) (t.map bar) (bar a :: a :: t) ph
      = .ok ([], ph * nestSign (a :: t)) := by
  intro t
  induction t with
  | nil =>
    intro a f ph
    rw [show f + ([] : List (Int × Bool)).length + 2 = (f + 1) + 1 from rfl, List.map_nil,
      OddposP.resolveScan_annihilate (f + 1) [] (bar a) a [] ph (by simp [bar])
        (by cases h : a.2 <;> simp [bar, h])]
    rw [nestSign_cons, nestSign_nil]
    show Except.ok _ = _
    cases a.2 <;> simp
  | cons b t ih =>
    intro a f ph
    rw [show f + (b :: t).length + 2 = (f + t.length + 2) + 1 from by simp; omega,
      OddposP.resolveScan_annihilate (f + t.length + 2) ((b :: t).map bar) (bar a) a (b :: t) ph
        (by simp [bar]) (by cases h : a.2 <;> simp [bar, h])]
    show resolveScan (f + t.length + 2) (t.map bar) (bar b :: b :: t) _ = _
    rw [ih b f, nestSign_cons a]
    cases a.2 <;> simp

/-- **(L1)** nested conjugate pairs `w̄ₙ … w̄₁ w₁ … wₙ` annihilate completely; the sign is `-1` per
    dual entry of `w` -/
theorem resolveScan_nested (w : List (Int × Bool))
    (hs : (Arr.oddposDag w).Pairwise (fun a b => oddLt a b = true))
    (hd : w.Pairwise (fun a b => a.1 ≠ b.1)) (ph : Int) (N : Nat) (hN : 2 * w.length + 2 ≤ N) :
    resolveScan N [] (Arr.oddposDag w ++ w) ph = .ok ([], ph * nestSign w) := by
  cases w with
  | nil =>
    obtain ⟨f, rfl⟩ := Nat.exists_eq_add_of_le hN
    simp only [List.length_nil, Nat.mul_zero, Nat.zero_add]
    rw [show 2 + f = (f + 1) + 1 from by omega]
    show Except.ok _ = _
    simp
  | cons a t =>
    obtain ⟨f, rfl⟩ := Nat.exists_eq_add_of_le hN
    have hdd : ((Arr.oddposDag t) ++ [bar a]).Pairwise (fun x y => x.1 ≠ y.1) := by
      rw [← oddposDag_cons, oddposDag_eq_bar, List.pairwise_map, List.pairwise_reverse]
      exact hd.imp (fun h => by simpa [bar] using Ne.symm h)
    rw [oddposDag_cons] at hs
    rw [oddposDag_cons, List.append_assoc, List.singleton_append,
      show 2 * (a :: t).length + 2 + f = (f + t.length + 4) + (Arr.oddposDag t).length from by
        simp [Arr.oddposDag]; omega,
      OddposP.resolveScan_walk (Arr.oddposDag t) (f + t.length + 4) [] (bar a) (a :: t) ph hs hdd,
      List.append_nil]
    have e : (Arr.oddposDag t).reverse = t.map bar := by
      simp [Arr.oddposDag, bar, List.map_reverse]
    rw [e]
    rw [show f + t.length + 4 = (f + 2) + t.length + 2 from by omega]
    exact resolveScan_cascade t a (f + 2) ph

example : resolveScan 8 [] (Arr.oddposDag [(2, false), (5, false), (9, false)]
      ++ [(2, false), (5, false), (9, false)]) 1 = .ok ([], 1)
    ∧ nestSign [(2, false), (5, false), (9, false)] = 1 := by decide
example : resolveScan 8 [] (Arr.oddposDag [(9, true), (5, true), (2, true)]
      ++ [(9, true), (5, true), (2, true)]) 1 = .ok ([], -1)
    ∧ nestSign [(9, true), (5, true), (2, true)] = -1 := by decide
example : (Arr.oddposDag [((2 : Int), false), (5, false), (9, false)]).Pairwise
      (fun a b => oddLt a b = true)
    ∧ [((2 : Int), false), (5, false), (9, false)].Pairwise (fun a b => a.1 ≠ b.1) := by decide

/-! ## (L2) `resolveCombinedOddpos` on nested label lists -/
section labels
variable {R : Type}

/-- **(L2)** operands whose labels are `oddposDag w` and `w`: all labels annihilate; the result is
    negated iff `(-1)^(parity(L)·|w|) · nestSign w = -1` -/
theorem resolve_nested (L Rr T : Arr R) (w : List (Int × Bool))
    (hL : L.oddpos = Arr.oddposDag w) (hR : Rr.oddpos = w)
    (hs : (Arr.oddposDag w).Pairwise (fun a b => oddLt a b = true))
    (hd : w.Pairwise (fun a b => a.1 ≠ b.1)) :
    resolveCombinedOddpos L Rr T
      = .ok { (if (if L.parity && w.length % 2 == 1 then (-1 : Int) else 1) * nestSign w = -1
                then T.phaseGlobal else T) with oddpos := [] } := by
  rw [OddposP.resolveCombinedOddpos_eq, hL, hR]
  unfold OddposP.mergeOddpos
  rw [resolveScan_nested w hs hd _ _ (by
    simp only [List.length_append, oddposDag_length]
    generalize w.length = n
    have : n ≤ (n + n) * (n + n) := by
      calc n ≤ n + n := by omega
        _ ≤ (n + n) * (n + n) := Nat.le_mul_self _
    omega)]
  simp only [Except.map, beq_iff_eq]

end labels

/-! ## (L3) the norm with a list of labels -/

/-- non-dual sorted labels: the conjugated (reversed, dual) list is sorted too -/
theorem oddposDag_sorted_of_nondual (o : List (Int × Bool)) (hk : ∀ a ∈ o, a.2 = false)
    (hs : o.Pairwise (fun a b => oddLt a b = true)) :
    (Arr.oddposDag o).Pairwise (fun a b => oddLt a b = true) := by
  rw [oddposDag_eq_bar, List.pairwise_map, List.pairwise_reverse]
  refine (List.Pairwise.and_mem.mp hs).imp ?_
  rintro a b ⟨ha, hb, hab⟩
  have ea := hk a ha
  have eb := hk b hb
  unfold oddLt at hab ⊢
  simp only [ea, eb, Bool.false_eq_true, if_false] at hab
  simp only [bar, ea, eb, Bool.not_false, if_true]
  simpa using hab

theorem oddposDag_distinct (o : List (Int × Bool)) (hd : o.Pairwise (fun a b => a.1 ≠ b.1)) :
    (Arr.oddposDag o).Pairwise (fun a b => a.1 ≠ b.1) := by
  rw [oddposDag_eq_bar, List.pairwise_map, List.pairwise_reverse]
  exact hd.imp (fun h => by simpa [bar] using Ne.symm h)

theorem oddposDag_all_dual (o : List (Int × Bool)) (hk : ∀ a ∈ o, a.2 = false) :
    ∀ a ∈ Arr.oddposDag o, a.2 = true := by
  intro a ha
  rw [oddposDag_eq_bar] at ha
  obtain ⟨b, hb, rfl⟩ := List.mem_map.mp ha
  simp [bar, hk b (List.mem_reverse.mp hb)]

section compose
variable {R : Type} [AddMonoid R] [Mul R] [Neg R] [Conj R]

/-- the scalar left by the label resolution for nested label lists -/
theorem resolve_value_labels [NormLaws R] {L Rr : Arr R} {n : Nat} (hL : L.ndim = n)
    (hR : Rr.ndim = n) (hp : L.phases = []) (w : List (Int × Bool))
    (hLo : L.oddpos = Arr.oddposDag w) (hRo : Rr.oddpos = w)
    (hs : (Arr.oddposDag w).Pairwise (fun a b => oddLt a b = true))
    (hd : w.Pairwise (fun a b => a.1 ≠ b.1)) :
    ∃ r, resolveCombinedOddpos L Rr (fullT L Rr n) = .ok r ∧ r.ndim = 0 ∧ r.oddpos = []
      ∧ r.elem [] []
        = sgnI ((if L.parity && w.length % 2 == 1 then (-1 : Int) else 1) * nestSign w)
            ((fullT L Rr n).elem [] []) := by
  have hi := fullT_indices hL hR
  refine ⟨_, resolve_nested L Rr _ w hLo hRo hs hd, ?_, rfl, ?_⟩
  · show (if _ then (fullT L Rr n).phaseGlobal else fullT L Rr n).indices.length = 0
    generalize (if L.parity && w.length % 2 == 1 then (-1 : Int) else 1) * nestSign w = σ
    split
    · show (fullT L Rr n).indices.length = 0
      rw [hi]; rfl
    · rw [hi]; rfl
  · show (if _ then (fullT L Rr n).phaseGlobal else fullT L Rr n).elem [] [] = _
    unfold sgnI
    generalize (if L.parity && w.length % 2 == 1 then (-1 : Int) else 1) * nestSign w = σ
    split
    · exact phaseGlobal_elem _ (fullT_signOk hp) [] []
    · rfl

theorem conjGlob_labels {x : Arr R} (h : NormOk x) : conjGlob x true = x.parity := by
  unfold conjGlob
  rw [C17.parity_sign, oddposDag_length, h.labels]
  show (true && x.parity && x.parity) = x.parity
  cases x.parity <;> rfl

/-- **norm, order `(conj x, x)`**, any sorted list of non-dual labels with distinct names -/
theorem norm_left_labels [NormLaws R] {x : Arr R} (h : NormOk x) (pd : Bool)
    (hd : pd = true ∨ ∀ ix ∈ x.indices, ix.dual = false)
    (hk : ∀ a ∈ x.oddpos, a.2 = false)
    (hs : x.oddpos.Pairwise (fun a b => oddLt a b = true))
    (hdl : x.oddpos.Pairwise (fun a b => a.1 ≠ b.1)) :
    ∃ r, (x.conjF true pd).tensordotF x (allAxes x.ndim) .blockwise = .ok r ∧ r.ndim = 0
      ∧ r.oddpos = [] ∧ r.elem [] [] = normSq x := by
  have e := tensordotF_full (a := x.conjF true pd) (b := x) (Full.conjF' h.full true pd)
    (ShapeLen.conjF' h.shapeLen true pd) h.full h.shapeLen (conjF_ndim x true pd).symm
    (by rw [conjF_size])
  rw [conjF_ndim] at e
  change _ = resolveCombinedOddpos _ _ (fullT (prepL (x.conjF true pd)) (prepR x) x.ndim) at e
  have hval : (fullT (prepL (x.conjF true pd)) (prepR x) x.ndim).elem [] []
      = sgnI (if conjGlob x true then -1 else 1) (normSq x) :=
    norm_abelian_left pd h.full h.shapes hd
  have hLo : (prepL (x.conjF true pd)).oddpos = Arr.oddposDag x.oddpos := by
    rw [prepL_oddpos, (conjF_frame x true pd).2.2.2.2.1]
  obtain ⟨r, h1, h2, h3, h4⟩ := resolve_value_labels (L := prepL (x.conjF true pd))
    (Rr := prepR x) (n := x.ndim) (by rw [prepL_ndim, conjF_ndim]) rfl rfl x.oddpos hLo rfl
    (oddposDag_sorted_of_nondual _ hk hs) hdl
  refine ⟨r, e.trans h1, h2, h3, ?_⟩
  rw [h4, hval, conjGlob_labels h, prepL_parity, conjF_parity, nestSign_nondual _ hk, h.labels]
  cases x.parity <;> simp [sgnI, LawfulNeg.neg_neg]

/-- **norm, order `(x, conj x)`**, any sorted list of non-dual labels with distinct names -/
theorem norm_right_labels [NormLaws R] {x : Arr R} (h : NormOk x) (pd : Bool)
    (hd : pd = true ∨ ∀ ix ∈ x.indices, ix.dual = false)
    (hk : ∀ a ∈ x.oddpos, a.2 = false)
    (hs : x.oddpos.Pairwise (fun a b => oddLt a b = true))
    (hdl : x.oddpos.Pairwise (fun a b => a.1 ≠ b.1)) :
    ∃ r, x.tensordotF (x.conjF true pd) (allAxes x.ndim) .blockwise = .ok r ∧ r.ndim = 0
      ∧ r.oddpos = [] ∧ r.elem [] [] = normSq' x := by
  have e := tensordotF_full (a := x) (b := x.conjF true pd) h.full h.shapeLen
    (Full.conjF' h.full true pd) (ShapeLen.conjF' h.shapeLen true pd) (conjF_ndim x true pd)
    (by rw [conjF_size])
  change _ = resolveCombinedOddpos _ _ (fullT (prepL x) (prepR (x.conjF true pd)) x.ndim) at e
  have hval : (fullT (prepL x) (prepR (x.conjF true pd)) x.ndim).elem [] []
      = sgnI ((if x.parity then -1 else 1) * (if conjGlob x true then -1 else 1)) (normSq' x) :=
    norm_abelian_right pd h.full h.secValid h.shapes hd
  have hRo : (prepR (x.conjF true pd)).oddpos = Arr.oddposDag x.oddpos :=
    (conjF_frame x true pd).2.2.2.2.1
  obtain ⟨r, h1, h2, h3, h4⟩ := resolve_value_labels (L := prepL x)
    (Rr := prepR (x.conjF true pd)) (n := x.ndim) (prepL_ndim x)
    (by rw [prepR_ndim, conjF_ndim]) rfl (Arr.oddposDag x.oddpos)
    (by rw [prepL_oddpos, oddposDag_involutive]) hRo
    (by rw [oddposDag_involutive]; exact hs) (oddposDag_distinct _ hdl)
  refine ⟨r, e.trans h1, h2, h3, ?_⟩
  rw [h4, hval, conjGlob_labels h, prepL_parity,
    nestSign_dual _ (oddposDag_all_dual _ hk), oddposDag_length]
  have hl := h.labels
  rcases Nat.mod_two_eq_zero_or_one x.oddpos.length with e2 | e2 <;> rw [e2] at hl ⊢ <;>
    rw [← hl] <;> simp [sgnI]

end compose

/-! ## non-vacuity -/

/-- even parity, TWO non-dual labels, rank 3, mixed dualness, a pending sign -/
def exE2 : Arr Int :=
  { sym := .Z2, fermi := true, charge := (0, 0),
    indices := [Index.mk [((0, 0), 1), ((1, 0), 1)] false none,
                Index.mk [((0, 0), 1), ((1, 0), 2)] true none,
                Index.mk [((0, 0), 1), ((1, 0), 1)] true none],
    blocks := [([(1, 0), (1, 0), (0, 0)], ⟨[1, 2, 1], #[2, -3]⟩),
               ([(1, 0), (0, 0), (1, 0)], ⟨[1, 1, 1], #[5]⟩),
               ([(0, 0), (1, 0), (1, 0)], ⟨[1, 2, 1], #[1, 1]⟩)],
    phases := [([(1, 0), (1, 0), (0, 0)], -1)], oddpos := [(2, false), (5, false)] }

/-- odd parity, THREE non-dual labels, rank 2 -/
def exO3 : Arr Int :=
  { sym := .Z2, fermi := true, charge := (1, 0),
    indices := [Index.mk [((0, 0), 1), ((1, 0), 2)] false none,
                Index.mk [((0, 0), 2), ((1, 0), 1)] true none],
    blocks := [([(0, 0), (1, 0)], ⟨[1, 1], #[3]⟩), ([(1, 0), (0, 0)], ⟨[2, 2], #[1, 2, -4, 5]⟩)],
    phases := [([(1, 0), (0, 0)], -1)],
    oddpos := [(2, false), (5, false), (9, false)] }

example : exE2.validB = true ∧ exE2.fermi = true ∧ exE2.parity = false
    ∧ exO3.validB = true ∧ exO3.fermi = true ∧ exO3.parity = true := by decide

example : ∃ r, (exE2.conjF true true).tensordotF exE2 (allAxes exE2.ndim) .blockwise = .ok r
    ∧ r.ndim = 0 ∧ r.oddpos = [] ∧ r.elem [] [] = normSq exE2 :=
  norm_left_labels (NormOk.of_valid (by decide) rfl) true (Or.inl rfl) (by decide) (by decide)
    (by decide)

example : ∃ r, exE2.tensordotF (exE2.conjF true true) (allAxes exE2.ndim) .blockwise = .ok r
    ∧ r.ndim = 0 ∧ r.oddpos = [] ∧ r.elem [] [] = normSq' exE2 :=
  norm_right_labels (NormOk.of_valid (by decide) rfl) true (Or.inl rfl) (by decide) (by decide)
    (by decide)

example : ∃ r, (exO3.conjF true true).tensordotF exO3 (allAxes exO3.ndim) .blockwise = .ok r
    ∧ r.ndim = 0 ∧ r.oddpos = [] ∧ r.elem [] [] = normSq exO3 :=
  norm_left_labels (NormOk.of_valid (by decide) rfl) true (Or.inl rfl) (by decide) (by decide)
    (by decide)

example : ∃ r, exO3.tensordotF (exO3.conjF true true) (allAxes exO3.ndim) .blockwise = .ok r
    ∧ r.ndim = 0 ∧ r.oddpos = [] ∧ r.elem [] [] = normSq' exO3 :=
  norm_right_labels (NormOk.of_valid (by decide) rfl) true (Or.inl rfl) (by decide) (by decide)
    (by decide)

/-- the same on the concrete values, both orders -/
example : normSq exE2 = 40 ∧ normSq' exE2 = 40 ∧ normSq exO3 = 55 ∧ normSq' exO3 = 55
    ∧ (match (exE2.conjF true true).tensordotF exE2 (allAxes 3) .blockwise with
      | .ok r => (r.elem [] [], r.oddpos) | .error _ => (0, [(0, true)])) = (40, [])
    ∧ (match exE2.tensordotF (exE2.conjF true true) (allAxes 3) .blockwise with
      | .ok r => (r.elem [] [], r.oddpos) | .error _ => (0, [(0, true)])) = (40, [])
    ∧ (match (exO3.conjF true true).tensordotF exO3 (allAxes 2) .blockwise with
      | .ok r => (r.elem [] [], r.oddpos) | .error _ => (0, [(0, true)])) = (55, [])
    ∧ (match exO3.tensordotF (exO3.conjF true true) (allAxes 2) .blockwise with
      | .ok r => (r.elem [] [], r.oddpos) | .error _ => (0, [(0, true)])) = (55, []) := by
  decide +kernel

end SymmModel.NormNet
