/-
  SymmModel.Proofs.Recon3Core — `tensordot_fermionic(A, B, ([1],[0]))` for ANY pair of arrays
  aligned with a list of items of the fermionic matrix `x` (`Pair`): the svd factors, the truncated
  factors of `svd_truncated`, and either of them with the singular values absorbed.
  Item-list version of Proofs/Recon2Core.lean (same route: `RoutesP.tensordotF_eq_core`,
  `coreT_frame`, evaluation of the graded contraction).  Nothing here changes a model definition.
-/
import SymmModel.Proofs.Recon2Modes
import SymmModel.Props.C06d

namespace SymmModel
namespace Recon3P
set_option linter.unusedSectionVars false
open LinalgLemmas ReconP Recon2P TdotP GradedP RoutesP OddposP
open Lazy (sgnI)

variable {R : Type}

/-! ### sector pairs for a list `S` of rank-2 sectors with distinct column charges -/

section pairs
variable {S : List Sector}

theorem partnersS (hlen : ∀ s ∈ S, s.length = 2) (hcols : (S.map colOf).Nodup)
    (s sa : Sector) (hsa : sa ∈ S) :
    (S.map diagOf).filter (fun sb => permuted sb [0] == permuted sa [1]
        && permuted sa [0] ++ permuted sb [1] == s)
      = if sa = s then [diagOf sa] else [] := by
  obtain ⟨r, c, rfl⟩ := length_two (hlen sa hsa)
  rw [List.filter_map]
  by_cases e : [r, c] = s
  · subst e
    rw [if_pos rfl]
    have hf : S.filter ((fun sb => permuted sb [0] == permuted [r, c] [1]
        && permuted [r, c] [0] ++ permuted sb [1] == [r, c]) ∘ diagOf) = [[r, c]] := by
      apply filter_key_eq_singleton S colOf hcols hsa
      intro q _
      simp only [Function.comp, diagOf]
      show ([colOf q] == [c] && [r, colOf q] == [r, c]) = true ↔ colOf q = colOf [r, c]
      have : colOf [r, c] = c := rfl
      rw [this]
      constructor
      · intro h
        simp only [Bool.and_eq_true, beq_iff_eq] at h
        exact (List.cons.inj h.1).1
      · intro h; rw [h]; simp
    rw [hf]; rfl
  · rw [if_neg e]
    rw [List.map_eq_nil_iff, List.filter_eq_nil_iff]
    intro q _
    simp only [Function.comp, diagOf]
    show ¬ (([colOf q] == [c] && [r, colOf q] == s) = true)
    intro h
    simp only [Bool.and_eq_true, beq_iff_eq] at h
    have hc : colOf q = c := (List.cons.inj h.1).1
    rw [hc] at h
    exact e h.2

theorem tdKeysS (hlen : ∀ s ∈ S, s.length = 2) (hcols : (S.map colOf).Nodup) :
    tdKeys S (S.map diagOf) [0] [1] [0] [1] = S := by
  unfold tdKeys
  conv => rhs; rw [← List.flatMap_singleton' S]
  apply List.flatMap_congr
  intro sa hsa
  have hp := partnersS hlen hcols sa sa hsa
  obtain ⟨r, c, rfl⟩ := length_two (hlen sa hsa)
  have hf : (S.map diagOf).filter (fun t => permuted t [0] == permuted [r, c] [1])
      = [diagOf [r, c]] := by
    simp only [if_true] at hp
    rw [← hp]
    apply List.filter_congr
    intro t ht
    obtain ⟨q, _, rfl⟩ := List.mem_map.mp ht
    by_cases hq : (permuted (diagOf q) [0] == permuted [r, c] [1]) = true
    · rw [hq, Bool.true_and]
      have : colOf q = c := by
        have h' : ([colOf q] == [c]) = true := hq
        exact (List.cons.inj (eq_of_beq h')).1
      show true = ([r] ++ [colOf q] == [r, c])
      rw [this]; simp
    · simp [hq]
  rw [hf]
  rfl

theorem storedPairsS {a b : Arr R} (hlen : ∀ s ∈ S, s.length = 2) (hnd : S.Nodup)
    (hcols : (S.map colOf).Nodup) (ha : a.sectors = S) (hb : b.sectors = S.map diagOf)
    (s : Sector) :
    storedPairs a b [0] [1] [0] [1] s = if s ∈ S then [(s, diagOf s)] else [] := by
  unfold storedPairs
  rw [ha, hb]
  have hstep : S.flatMap (fun sa =>
      ((S.map diagOf).filter (fun sb => permuted sb [0] == permuted sa [1]
        && permuted sa [0] ++ permuted sb [1] == s)).map (fun sb => (sa, sb)))
      = S.flatMap (fun sa => if sa = s then [(sa, diagOf sa)] else []) := by
    apply List.flatMap_congr
    intro sa hsa
    rw [partnersS hlen hcols s sa hsa]
    split <;> rfl
  rw [hstep]
  by_cases hs : s ∈ S
  · rw [if_pos hs, flatMap_pick S s (fun sa => (sa, diagOf sa)) hnd hs]
  · rw [if_neg hs, flatMap_miss S s (fun sa => (sa, diagOf sa)) hs]

end pairs

/-! ### an aligned pair of factors -/

/-- `A`, `B` are a (left, right) pair of factors of the fermionic matrix `x` restricted to the items
    `l`: `A` stores `fA p` (shape `[m, k]`) at `sec p`, keeps `x`'s row index, pending signs and
    labels; `B` stores `fB p` (shape `[k, n]`) at the diagonal sector of the column charge of
    `sec p`, keeps `x`'s column index and is a `RightOf x` (no labels, the sign table
    `qr_fermionic`/`svd_fermionic` write); the two bond indices carry the same charge table and
    opposite directions, the one on `A` the direction of `x`'s column index. -/
structure Pair (x : Arr R) {α : Type} (l : List α) (sec : α → Sector) (fA fB : α → Blk R)
    (dims : α → Nat × Nat × Nat) (A B : Arr R) : Prop where
  va : A.validB = true
  vb : B.validB = true
  fa : A.fermi = true
  fb : B.fermi = true
  sa : A.sym = x.sym
  ro : RightOf x B
  idx : ∃ J j0, A.indices = [x.indices.getD 0 default, J]
    ∧ B.indices = [j0, x.indices.getD 1 default]
    ∧ J.cm = j0.cm ∧ J.dual = (x.indices.getD 1 default).dual
  pa : A.phases = x.phases
  oa : A.oddpos = x.oddpos
  ba : A.blocks = l.map (fun p => (sec p, fA p))
  bb : B.blocks = l.map (fun p => (diagOf (sec p), fB p))
  hin : ∀ p ∈ l, sec p ∈ x.sectors
  hsec : (l.map sec).Nodup
  hcol : (l.map (fun p => colOf (sec p))).Nodup
  hsh : ∀ p ∈ l, (fA p).shape = [(dims p).1, (dims p).2.1]
    ∧ (fB p).shape = [(dims p).2.1, (dims p).2.2]

section pair
variable {x : Arr R} {α : Type} {l : List α} {sec : α → Sector} {fA fB : α → Blk R}
  {dims : α → Nat × Nat × Nat} {A B : Arr R}

theorem Pair.ndimA (P : Pair x l sec fA fB dims A B) : A.ndim = 2 := by
  obtain ⟨J, j0, h1, _⟩ := P.idx
  simp [Arr.ndim, h1]

theorem Pair.ndimB (P : Pair x l sec fA fB dims A B) : B.ndim = 2 := by
  obtain ⟨J, j0, _, h2, _⟩ := P.idx
  simp [Arr.ndim, h2]

theorem Pair.secA (P : Pair x l sec fA fB dims A B) : A.sectors = l.map sec := by
  simp [Arr.sectors, P.ba, List.map_map, Function.comp_def]

theorem Pair.secB (P : Pair x l sec fA fB dims A B) : B.sectors = (l.map sec).map diagOf := by
  simp [Arr.sectors, P.bb, List.map_map, Function.comp_def]

theorem Pair.len2 (P : Pair x l sec fA fB dims A B) (hv : x.validB = true) (h2 : x.ndim = 2) :
    ∀ s ∈ l.map sec, s.length = 2 := by
  intro s hs
  obtain ⟨p, hp, rfl⟩ := List.mem_map.mp hs
  obtain ⟨⟨_, b⟩, hm, e⟩ := List.mem_map.mp (P.hin p hp)
  have := (((validB_iff x).mp hv).2.2.2.1 _ b hm).1
  rw [← e, this, h2]

theorem Pair.cols (P : Pair x l sec fA fB dims A B) : ((l.map sec).map colOf).Nodup := by
  rw [List.map_map]; exact P.hcol

theorem Pair.adm (P : Pair x l sec fA fB dims A B) : Adm A B [1] [0] := by
  obtain ⟨J, j0, h1, h2, h3, h4⟩ := P.idx
  obtain ⟨j0', j1', hB, hd⟩ := P.ro.hidx
  have hj : j0' = j0 := by rw [h2] at hB; exact (List.cons.inj hB).1.symm
  subst hj
  refine ⟨P.va, P.vb, P.fa, P.fb, P.sa.trans P.ro.hsym.symm, ?_, by decide, by decide, ?_, ?_⟩
  · unfold ValidP.contractibleB
    rw [h1, h2]
    simp [h3, h4, hd]
  · intro a ha; simp at ha; subst ha; rw [P.ndimA]; decide
  · intro a ha; simp at ha; subst ha; rw [P.ndimB]; decide

theorem Pair.gradedSign (P : Pair x l sec fA fB dims A B) (r c : Charge) :
    gradedSign A B [1] [0] [r, c] [c, c] = bondSign x c := by
  obtain ⟨J, j0, h1, _, _, h4⟩ := P.idx
  unfold GradedP.gradedSign
  rw [P.ndimA, P.ndimB]
  have f1 : freeAxes 2 [1] = [0] := by decide
  have f2 : freeAxes 2 [0] = [1] := by decide
  rw [f1, f2]
  have e01 : ([0] ++ [1] : List Nat) = List.range 2 := rfl
  rw [e01, KoszulP.koszul_id', KoszulP.koszul_id']
  have hoc : oddContracted A [1] [r, c] * (oddContracted A [1] [r, c] - 1) / 2 = 0 := by
    unfold oddContracted
    show (([c].filter A.sym.parity).length * (([c].filter A.sym.parity).length - 1)) / 2 = 0
    cases hp : A.sym.parity c <;> simp [List.filter_cons, hp]
  rw [hoc]
  have hd : (A.indices.getD 1 default).dual = (x.indices.getD 1 default).dual := by
    rw [h1]; exact h4
  unfold ketOdd bondSign
  simp only [List.filter_cons, List.filter_nil, hd]
  rw [P.sa]
  show (1 : Int) * 1 * (-1) ^ 0 * (-1) ^ _ = _
  cases (x.indices.getD 1 default).dual <;> cases hp : x.sym.parity c <;> simp [hp]

variable [AddMonoid R] [Mul R] [Neg R] [SignRing R]

theorem Pair.elemA (P : Pair x l sec fA fB dims A B) {p : α} (hp : p ∈ l) (off : List Nat) :
    A.elem (sec p) off
      = sgnI (if alookup x.phases (sec p) == some (-1) then -1 else 1) ((fA p).get off) := by
  have hnd : A.sectors.Nodup := by rw [P.secA]; exact P.hsec
  have hm' : (sec p, fA p) ∈ A.blocks := by rw [P.ba]; exact List.mem_map.mpr ⟨p, hp, rfl⟩
  rw [elem_of_mem hnd hm' off, P.pa]
  unfold sgnI
  split <;> simp

theorem Pair.elemB (P : Pair x l sec fA fB dims A B) (_hf : x.fermi = true) {p : α} (hp : p ∈ l)
    (off : List Nat) :
    B.elem (diagOf (sec p)) off = sgnI (bondSign x (colOf (sec p))) ((fB p).get off) := by
  have hnd : B.sectors.Nodup := by
    rw [P.secB]
    have h' := nodup_map_of_inj _ (fun c : Charge => [c, c]) P.cols
      (fun a _ b _ e => (List.cons.inj e).1)
    simpa [List.map_map, Function.comp_def] using h'
  have hm' : (diagOf (sec p), fB p) ∈ B.blocks := by
    rw [P.bb]; exact List.mem_map.mpr ⟨p, hp, rfl⟩
  have hmem : diagOf (sec p) ∈ x.sectors.map diagOf := List.mem_map.mpr ⟨sec p, P.hin p hp, rfl⟩
  rw [elem_of_mem hnd hm' off, P.ro.hph]
  unfold bondSign sgnI
  cases hd : (x.indices.getD 1 default).dual
  · simp only [Bool.true_and, Bool.not_false, if_true]
    have := alookup_flagged (x.sectors.map diagOf)
      (fun s => x.sym.parity (s.getD 0 (0, 0))) (diagOf (sec p))
    rw [this]
    simp only [hmem, decide_true, Bool.true_and, diagOf, List.getD_cons_zero]
    cases x.sym.parity (colOf (sec p)) <;> simp
  · simp [alookup]

/-- **the fermionic contraction of an aligned pair, blockwise.** -/
theorem tdotF_pair (hv : x.validB = true) (h2 : x.ndim = 2) (hf : x.fermi = true)
    (hlab : SortedLabels x.oddpos) (P : Pair x l sec fA fB dims A B) :
    ∃ c, A.tensordotF B (.pair [1] [0]) .blockwise = .ok c
      ∧ c.phases = [] ∧ c.oddpos = x.oddpos ∧ c.sectors = l.map sec
      ∧ c.sym = x.sym ∧ c.fermi = true
      ∧ (∀ q ∈ c.blocks, q.2.shape = Arr.blockShapeD x.indices q.1)
      ∧ ∀ p ∈ l, ∀ i j, i < (dims p).1 → j < (dims p).2.2 →
          c.elem (sec p) [i, j]
            = sgnI (if alookup x.phases (sec p) == some (-1) then -1 else 1)
                ((List.range (dims p).2.1).foldl
                  (fun acc t => acc + (fA p).get [i, t] * (fB p).get [t, j]) 0) := by
  obtain ⟨i0, i1, hi⟩ := ndim_two h2
  obtain ⟨J, j0, hA1, hB1, hcm, hJd⟩ := P.idx
  have hAdm := P.adm
  have hcore := tensordotF_eq_core A B [1] [0] hAdm
  have hF := coreT_frame A B [1] [0] hAdm
  have hmerge : mergeOddpos A.parity A.oddpos B.oddpos = .ok (x.oddpos, 1) := by
    rw [P.ro.hodd, P.oa]
    exact merge_left_sorted _ _ hlab
  rw [hmerge] at hcore
  have hidx : without A.indices [1] ++ without B.indices [0] = x.indices := by
    rw [hA1, hB1, hi]; rfl
  have f1 : freeAxes A.ndim [1] = [0] := by rw [P.ndimA]; decide
  have f2 : freeAxes B.ndim [0] = [1] := by rw [P.ndimB]; decide
  generalize coreT A B [1] [0] = T at hF hcore
  have hsec : T.sectors = l.map sec := by
    rw [hF.sectors, f1, f2, P.secA, P.secB, tdKeysS (P.len2 hv h2) P.cols,
      eraseDups_of_nodup _ P.hsec]
  have hfin : finish T (x.oddpos, 1) = { T with oddpos := x.oddpos } := by
    unfold finish
    simp only [show ((1 : Int) == -1) = false from rfl, Bool.false_eq_true, if_false]
  have hcore' : A.tensordotF B (.pair [1] [0]) .blockwise = .ok { T with oddpos := x.oddpos } := by
    rw [← hfin]; exact hcore
  refine ⟨_, hcore', hF.phases, rfl, hsec, hF.sym.trans P.sa, hF.fermi.trans P.fa, ?_, ?_⟩
  · intro q hq
    have := hF.shape q hq
    rw [hidx] at this
    exact this
  · intro p hp i j hi' hj'
    obtain ⟨s1, s3⟩ := P.hsh p hp
    obtain ⟨r, c, hrc⟩ := length_two (P.len2 hv h2 (sec p) (List.mem_map.mpr ⟨p, hp, rfl⟩))
    -- the table box of the result at `sec p`
    have hAsh : Arr.blockShape? A.indices (sec p) = some (fA p).shape :=
      (((validB_iff A).mp P.va).2.2.2.1 (sec p) (fA p)
        (by rw [P.ba]; exact List.mem_map.mpr ⟨p, hp, rfl⟩)).2.2.1
    have hBsh : Arr.blockShape? B.indices (diagOf (sec p)) = some (fB p).shape :=
      (((validB_iff B).mp P.vb).2.2.2.1 _ (fB p)
        (by rw [P.bb]; exact List.mem_map.mpr ⟨p, hp, rfl⟩)).2.2.1
    have hdg : diagOf (sec p) = [c, c] := by simp [diagOf, colOf, hrc]
    have hcs : colOf (sec p) = c := by simp [colOf, hrc]
    rw [hA1, hrc, s1] at hAsh
    rw [hB1, hdg, s3] at hBsh
    obtain ⟨m', k', e1, _, e3⟩ := (blockShape?_pair _ _ r c _).mp hAsh
    obtain ⟨k'', n', _, e5, e6⟩ := (blockShape?_pair _ _ c c _).mp hBsh
    have hm' : m' = (dims p).1 := (List.cons.inj e3).1.symm
    have hn' : n' = (dims p).2.2 := (List.cons.inj (List.cons.inj e6).2).1.symm
    have htab : Arr.blockShapeD x.indices (sec p) = [(dims p).1, (dims p).2.2] := by
      unfold Arr.blockShapeD
      have hi0 : x.indices.getD 0 default = i0 := by simp [hi]
      have hi1 : x.indices.getD 1 default = i1 := by simp [hi]
      rw [hi0] at e1; rw [hi1] at e5
      rw [hi, hrc, (blockShape?_pair i0 i1 r c [m', n']).mpr ⟨m', n', e1, e5, rfl⟩, hm', hn']
      rfl
    have hbox : inBox (Arr.blockShapeD (without A.indices [1] ++ without B.indices [0]) (sec p))
        ([i] ++ [j]) = true := by
      rw [hidx, htab]
      exact (inBox_pair _ _ i j).mpr ⟨hi', hj'⟩
    have he := hF.elem (sec p) [i] [j] (by rw [f1]; rfl) hbox
    show T.elem (sec p) ([i] ++ [j]) = _
    rw [he]
    unfold gradedContract
    have hsx : sec p ∈ l.map sec := List.mem_map.mpr ⟨p, hp, rfl⟩
    rw [f1, f2, storedPairsS (P.len2 hv h2) P.hsec P.cols P.secA P.secB (sec p), if_pos hsx]
    simp only [List.map_cons, List.map_nil, List.sum_cons, List.sum_nil, add_zero]
    have hgs : GradedP.gradedSign A B [1] [0] (sec p) (diagOf (sec p)) = bondSign x c := by
      rw [hdg, hrc]; exact P.gradedSign r c
    rw [hgs]
    have hAshape : Arr.blockShapeD A.indices (sec p) = [(dims p).1, (dims p).2.1] := by
      unfold Arr.blockShapeD
      rw [hA1, hrc, hAsh]; rfl
    have hcp : contractPair A B [1] [0] [i] [j] (sec p, diagOf (sec p))
        = sgnI ((if alookup x.phases (sec p) == some (-1) then -1 else 1) * bondSign x c)
            ((List.range (dims p).2.1).foldl
              (fun acc t => acc + (fA p).get [i, t] * (fB p).get [t, j]) 0) := by
      unfold contractPair
      simp only [hAshape]
      show ((allIdx [(dims p).2.1]).map _).sum = _
      rw [Recon2P.allIdx_single, List.map_map, ← sum_map_eq_foldl,
        ← sgnI_sum ((if alookup x.phases (sec p) == some (-1) then -1 else 1) * bondSign x c)]
      congr 1
      apply List.map_congr_left
      intro t _
      simp only [Function.comp, contractTerm]
      rw [f1, f2, P.ndimA, P.ndimB]
      show A.elem (sec p) [i, t] * B.elem (diagOf (sec p)) [t, j] = _
      rw [P.elemA hp, P.elemB hf hp, hcs,
        sgnI_mul_mul (by split <;> simp) (bondSign_pm x c)]
    rw [hcp, sgnI_comp (bondSign_pm x c)
      (Lazy.mul_pm (by split <;> simp) (bondSign_pm x c))]
    congr 1
    rw [Int.mul_comm (bondSign x c), Int.mul_assoc, bondSign_sq, Int.mul_one]

end pair

end Recon3P
end SymmModel
