/-
  SymmModel.Proofs.TdotFusedW1 — the aligned operands under the WEAK guard
  `AssocP.contractibleCommonB` (matched legs: opposite directions, charge tables that agree on the
  charges both list — what holds for the pruned tables of an intermediate contraction result):
  after `dropMisaligned` the matched legs have EQUAL charge tables, so the aligned operands
  satisfy `Ctx0`.  Namespace `SymmModel.TdotP`.
-/
import SymmModel.Proofs.TdotFusedAll

namespace SymmModel
namespace TdotP
variable {R : Type}

/-- two strictly sorted charge tables that agree on common charges coincide after filtering to a
    set of charges that both list -/
theorem filter_eq_of_agree {cA cB : List (Charge × Nat)}
    (hA : isSortedStrict Charge.lt (cA.map (·.1)) = true)
    (hB : isSortedStrict Charge.lt (cB.map (·.1)) = true)
    (hag : AssocP.cmAgree cA cB = true) (f : Charge → Bool)
    (hin : ∀ c, f c = true → (∃ d, alookup cA c = some d) ∧ (∃ d, alookup cB c = some d)) :
    cA.filter (fun p => f p.1) = cB.filter (fun p => f p.1) := by
  have ndA : (cA.map (·.1)).Nodup := ValidP.sortedCharges_nodup hA
  have ndB : (cB.map (·.1)).Nodup := ValidP.sortedCharges_nodup hB
  have pwA : cA.Pairwise (fun p q => Charge.lt p.1 q.1 = true) := by
    have := (ValidP.sortedCharges_iff _).mp hA
    rwa [List.pairwise_map] at this
  have pwB : cB.Pairwise (fun p q => Charge.lt p.1 q.1 = true) := by
    have := (ValidP.sortedCharges_iff _).mp hB
    rwa [List.pairwise_map] at this
  have hasym : ∀ p q : Charge × Nat, Charge.lt p.1 q.1 = true → Charge.lt q.1 p.1 = true → False := by
    intro p q h1 h2
    have := ValidP.Charge.lt_trans' h1 h2
    rw [ValidP.Charge.lt_irrefl'] at this; cases this
  apply eq_of_perm_of_pairwise hasym (pwA.filter _) (pwB.filter _)
  rw [List.perm_ext_iff_of_nodup ((List.Nodup.of_map _ ndA).filter _) ((List.Nodup.of_map _ ndB).filter _)]
  rintro ⟨c, d⟩
  simp only [List.mem_filter]
  constructor
  · rintro ⟨hm, hf⟩
    obtain ⟨_, ⟨d', hd'⟩⟩ := hin c hf
    have h1 := alookup_of_mem_nodup ndA hm
    have := AssocP.cmAgree_lookup hag h1 hd'
    subst this
    exact ⟨alookup_mem hd', hf⟩
  · rintro ⟨hm, hf⟩
    obtain ⟨⟨d', hd'⟩, _⟩ := hin c hf
    have h2 := alookup_of_mem_nodup ndB hm
    have := AssocP.cmAgree_lookup hag hd' h2
    subst this
    exact ⟨alookup_mem hd', hf⟩

/-- the charge of a stored sector on an axis is listed in that axis' table -/
theorem charge_in_table {a : Arr R} (hs : a.shapesOk) {s : Sector} (hmem : s ∈ a.sectors) {i : Nat}
    (hi : i < a.indices.length) {c : Charge} (hc : s[i]? = some c) :
    ∃ d, alookup (a.indices.getD i default).cm c = some d := by
  obtain ⟨p, hp, rfl⟩ := List.mem_map.mp hmem
  have hsh := hs p hp
  obtain ⟨d, _, hd⟩ := blockShape?_getElem hsh (List.getElem?_eq_getElem hi) hc
  refine ⟨d, ?_⟩
  rw [List.getD_eq_getElem?_getD, List.getElem?_eq_getElem hi]
  exact hd

/-- **after aligning, matched contracted legs have equal charge tables and opposite directions —
    under the weak guard** -/
theorem aligned_cm_dual_w (a b : Arr R) (xa xb : List Nat)
    (ha : a.validB = true) (hb : b.validB = true)
    (hxa' : ∀ x ∈ xa, x < a.ndim) (hxb' : ∀ x ∈ xb, x < b.ndim)
    (hc : AssocP.contractibleCommonB a b xa xb = true) :
    (xa.map (fun ax => (dropMisaligned a b xa xb).1.indices.getD ax default)).map Index.cm
      = (xb.map (fun ax => (dropMisaligned a b xa xb).2.indices.getD ax default)).map Index.cm
    ∧ (xb.map (fun ax => (dropMisaligned a b xa xb).2.indices.getD ax default)).map Index.dual
      = (xa.map (fun ax => (dropMisaligned a b xa xb).1.indices.getD ax default)).map
          (fun ix => !ix.dual) := by
  have hsa := Arr.shapesOk_of_validB ha
  have hsb := Arr.shapesOk_of_validB hb
  have hla : ∀ s ∈ a.sectors, s.length = a.ndim := fun s hs => Arr.sector_length hsa hs
  have hlb : ∀ s ∈ b.sectors, s.length = b.ndim := fun s hs => Arr.sector_length hsb hs
  unfold AssocP.contractibleCommonB at hc
  simp only [Bool.and_eq_true, beq_iff_eq, List.all_eq_true, bne_iff_ne, ne_eq] at hc
  obtain ⟨hlen, hzip⟩ := hc
  obtain ⟨hsubA, hsubB⟩ := sectors_dropMisaligned_sub a b xa xb
  rw [dropMisaligned_fst_indices, dropMisaligned_snd_indices]
  simp only [List.map_map]
  constructor
  · apply map_eq_map_of_zip _ _ xa xb hlen
    intro p hp
    obtain ⟨t, ht1, ht2⟩ := mem_zip_getElem? hp
    have hi : p.1 < a.indices.length := hxa' _ (List.mem_of_getElem? ht1)
    have hj : p.2 < b.indices.length := hxb' _ (List.mem_of_getElem? ht2)
    simp only [Function.comp]
    rw [dropUnused_getD _ _ hi, dropUnused_getD _ _ hj, dropTo_cm, dropTo_cm]
    -- the two sets of kept charges coincide
    have hiff : ∀ q : Charge,
        (q ∈ (dropMisaligned a b xa xb).1.sectors.filterMap (fun s => s[p.1]?)) ↔
        (q ∈ (dropMisaligned a b xa xb).2.sectors.filterMap (fun s => s[p.2]?)) := by
      intro q
      simp only [List.mem_filterMap]
      constructor
      · rintro ⟨s, hs, hsc⟩
        have hK : permuted s xa ∈ subKeys (dropMisaligned a b xa xb).1 xa := List.mem_map.mpr ⟨s, hs, rfl⟩
        obtain ⟨s', hs', hk⟩ := List.mem_map.mp ((aligned_keys a b xa xb _).mp hK)
        refine ⟨s', hs', ?_⟩
        have e1 := permuted_getElem?_of s (by rw [hla s (hsubA s hs)]; exact hxa') ht1
        have e2 := permuted_getElem?_of s' (by rw [hlb s' (hsubB s' hs')]; exact hxb') ht2
        rw [← e2, hk, e1]; exact hsc
      · rintro ⟨s', hs', hsc⟩
        have hK : permuted s' xb ∈ subKeys (dropMisaligned a b xa xb).2 xb := List.mem_map.mpr ⟨s', hs', rfl⟩
        obtain ⟨s, hs, hk⟩ := List.mem_map.mp ((aligned_keys a b xa xb _).mpr hK)
        refine ⟨s, hs, ?_⟩
        have e1 := permuted_getElem?_of s (by rw [hla s (hsubA s hs)]; exact hxa') ht1
        have e2 := permuted_getElem?_of s' (by rw [hlb s' (hsubB s' hs')]; exact hxb') ht2
        rw [← e1, hk, e2]; exact hsc
    have hR : (b.indices.getD p.2 default).cm.filter (fun q =>
          ((dropMisaligned a b xa xb).2.sectors.filterMap (fun s => s[p.2]?)).contains q.1)
        = (b.indices.getD p.2 default).cm.filter (fun q =>
          ((dropMisaligned a b xa xb).1.sectors.filterMap (fun s => s[p.1]?)).contains q.1) := by
      apply List.filter_congr
      intro q _
      rw [Bool.eq_iff_iff]
      simp only [List.contains_eq_mem, decide_eq_true_eq]
      exact (hiff q.1).symm
    rw [hR]
    have wfA : Index.wfB a.sym (a.indices.getD p.1 default) = true :=
      index_getD_wf (FuseP.validArr_of_validB ha) hi
    have wfB : Index.wfB b.sym (b.indices.getD p.2 default) = true :=
      index_getD_wf (FuseP.validArr_of_validB hb) hj
    refine filter_eq_of_agree (ValidP.wfB_cmOk wfA).1 (ValidP.wfB_cmOk wfB).1 (hzip p hp).1
      (fun c => ((dropMisaligned a b xa xb).1.sectors.filterMap (fun s => s[p.1]?)).contains c) ?_
    intro c hcS
    simp only [List.contains_eq_mem, decide_eq_true_eq] at hcS
    have hcS' := (hiff c).mp hcS
    obtain ⟨s, hs, hsc⟩ := List.mem_filterMap.mp hcS
    obtain ⟨s', hs', hsc'⟩ := List.mem_filterMap.mp hcS'
    exact ⟨charge_in_table hsa (hsubA s hs) hi hsc, charge_in_table hsb (hsubB s' hs') hj hsc'⟩
  · apply map_eq_map_of_zip _ _ xb xa hlen.symm
    intro p hp
    have hp' : (p.2, p.1) ∈ xa.zip xb := by
      obtain ⟨t, ht1, ht2⟩ := mem_zip_getElem? hp
      exact (List.mem_iff_getElem?.mpr ⟨t, List.getElem?_zip_eq_some.mpr ⟨ht2, ht1⟩⟩)
    obtain ⟨t, ht1, ht2⟩ := mem_zip_getElem? hp
    have hj : p.1 < b.indices.length := hxb' _ (List.mem_of_getElem? ht1)
    have hi : p.2 < a.indices.length := hxa' _ (List.mem_of_getElem? ht2)
    simp only [Function.comp]
    rw [dropUnused_getD _ _ hi, dropUnused_getD _ _ hj, dropTo_dual, dropTo_dual]
    have := (hzip _ hp').2
    simp only at this
    cases h1 : (a.indices.getD p.2 default).dual <;> cases h2 : (b.indices.getD p.1 default).dual <;>
      simp_all

/-- the aligned operands of a pair satisfying the weak guard satisfy `Ctx0` -/
theorem ctx0_of_dropMisaligned_w (a b : Arr R) (xa xb : List Nat)
    (ha : a.validB = true) (hb : b.validB = true) (hfa : a.fermi = false) (hfb : b.fermi = false)
    (hsym : a.sym = b.sym) (hc : AssocP.contractibleCommonB a b xa xb = true)
    (hnA : xa.Nodup) (hnB : xb.Nodup) (hA : ∀ x ∈ xa, x < a.ndim) (hB : ∀ x ∈ xb, x < b.ndim) :
    Ctx0 (dropMisaligned a b xa xb).1 (dropMisaligned a b xa xb).2 xa xb := by
  obtain ⟨n1, n2⟩ := dropMisaligned_ndim a b xa xb
  obtain ⟨v1, v2⟩ := ValidP.dropMisaligned_valid a b xa xb ((ValidP.validB_iff a).mp ha)
    ((ValidP.validB_iff b).mp hb)
  have hla : ∀ s ∈ a.sectors, s.length = a.ndim := fun s hs =>
    Arr.sector_length (Arr.shapesOk_of_validB ha) hs
  have hlb : ∀ s ∈ b.sectors, s.length = b.ndim := fun s hs =>
    Arr.sector_length (Arr.shapesOk_of_validB hb) hs
  obtain ⟨hcm, hdual⟩ := aligned_cm_dual_w a b xa xb ha hb hA hB hc
  obtain ⟨hsubA, hsubB⟩ := sectors_dropMisaligned_sub a b xa xb
  have hlen : xa.length = xb.length := AssocP.commonB_len hc
  refine ⟨(ValidP.validB_iff _).mpr v1, (ValidP.validB_iff _).mpr v2, hfa, hfb, hsym, hnA, hnB,
    by rw [n1]; exact hA, by rw [n2]; exact hB, hlen, hcm, hdual, ?_⟩
  intro K
  have eA : (dropMisaligned a b xa xb).1.blocks.map (fun sb => xa.map (fun ax => sb.1.getD ax (0, 0)))
      = subKeys (dropMisaligned a b xa xb).1 xa := by
    simp only [subKeys, Arr.sectors, List.map_map]
    apply List.map_congr_left
    intro sb hsb
    have hl : sb.1.length = a.ndim := hla _ (hsubA _ (List.mem_map.mpr ⟨sb, hsb, rfl⟩))
    exact (permuted_eq_map _ _ (by rw [hl]; exact hA) (0, 0)).symm
  have eB : (dropMisaligned a b xa xb).2.blocks.map (fun sb => xb.map (fun ax => sb.1.getD ax (0, 0)))
      = subKeys (dropMisaligned a b xa xb).2 xb := by
    simp only [subKeys, Arr.sectors, List.map_map]
    apply List.map_congr_left
    intro sb hsb
    have hl : sb.1.length = b.ndim := hlb _ (hsubB _ (List.mem_map.mpr ⟨sb, hsb, rfl⟩))
    exact (permuted_eq_map _ _ (by rw [hl]; exact hB) (0, 0)).symm
  rw [eA, eB]
  exact aligned_keys a b xa xb K

end TdotP
end SymmModel
