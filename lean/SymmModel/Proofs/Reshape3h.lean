/-
  SymmModel.Proofs.Reshape3h — C07 for FERMIONIC arrays: the fermionic fuse / unfuse and every
  certified reshape plan keep the content up to signs.

  `SameAbs a b`: every additive statistic `Σ g(entry)` with `g 0 = 0` and `g (-x) = g x` agrees on
  the stored entries of `a` and `b` — the squared norm and the multiset of magnitudes are such
  statistics.  (Stored entries, i.e. without the pending lazy signs, which are signs as well.)
-/
import SymmModel.Proofs.ReshapeMore
import SymmModel.Proofs.ValidMore2Cert
import SymmModel.Props.C05c

namespace SymmModel
namespace ReshapeP
open DenseP

variable {R : Type} {M : Type} [AddCommMonoid M]

/-- same content up to signs -/
def SameAbs [Zero R] [Neg R] (a b : Arr R) : Prop :=
  ∀ (M : Type) [AddCommMonoid M] (g : R → M), g 0 = 0 → (∀ x, g (-x) = g x) → entrySum g a = entrySum g b

theorem SameAbs.refl [Zero R] [Neg R] (a : Arr R) : SameAbs a a := fun _ _ _ _ _ => rfl
theorem SameAbs.trans [Zero R] [Neg R] {a b c : Arr R} (h1 : SameAbs a b) (h2 : SameAbs b c) :
    SameAbs a c := fun M _ g h0 he => (h1 M g h0 he).trans (h2 M g h0 he)
theorem SameContent.abs [Zero R] [Neg R] {a b : Arr R} (h : SameContent a b) : SameAbs a b :=
  fun M _ g h0 _ => h M g h0

theorem sameAbs_of_blocks [Zero R] [Neg R] {a b : Arr R} (h : a.blocks = b.blocks) : SameAbs a b := by
  intro M _ g _ _
  simp only [entrySum, h]

theorem blkSum_negK [Neg R] (g : R → M) (he : ∀ x, g (-x) = g x) (b : Blk R) :
    blkSum g b.negK = blkSum g b := by
  simp only [blkSum, Blk.negK, Blk.map, Array.toList_map, List.map_map]
  congr 1
  apply List.map_congr_left
  intro x _
  exact he x

/-- synchronising the pending signs negates whole blocks -/
theorem phaseSync_sameAbs [Zero R] [Neg R] (a : Arr R) : SameAbs a a.phaseSync := by
  intro M _ g _ he
  simp only [entrySum, Lazy.phaseSync_blocks_eq, List.map_map]
  congr 1
  apply List.map_congr_left
  intro p _
  simp only [Function.comp, Lazy.syncBlk]
  split
  · exact (blkSum_negK g he _).symm
  · rfl

/-! ### unfuse from the fermi-agnostic part of validity -/

theorem unfuseA_sameContentC [Zero R] (x y : Arr R) (axis : Nat) (hc : ValidP.Core x)
    (h : unfuseA x axis = .ok y) : SameContent x y := by
  have hva := FuseP.validArr_of_core hc
  cases hix : x.indices[axis]? with
  | none =>
    simp [unfuseA, hix, bind, Except.bind, throw, throwThe, MonadExceptOf.throw] at h
  | some ix =>
    cases hsub : ix.sub with
    | none =>
      simp [unfuseA, hix, hsub, bind, Except.bind, pure, Except.pure, throw, throwThe,
        MonadExceptOf.throw] at h
    | some se =>
      obtain ⟨subs, exts⟩ := se
      have hy := FuseP.unfuseA_eq x axis ix subs exts hix hsub (by
        intro sb hsb
        obtain ⟨_, _, _, e, he, hok⟩ := FuseP.block_at_axis hva hix hsub hsb
        refine ⟨e, he, ?_⟩
        intro q hq
        obtain ⟨_, ⟨shp, hshp, _⟩, _⟩ := hok.entry q.1 q.2 hq
        exact ⟨shp, hshp⟩)
      rw [hy] at h
      injection h with h
      have hbl : y.blocks = x.blocks.flatMap (FuseP.piecesOf subs exts axis) := by
        rw [← h]; exact adict_of_nodup _ (pieces_keys_nodup hva hix hsub)
      intro M _ g _
      simp only [entrySum]
      rw [hbl, sum_map_flatMap]
      symm
      apply sum_map_congr
      intro n hn
      obtain ⟨hp, hl1, hl2, e, he, hok⟩ := FuseP.block_at_axis hva hix hsub hn
      simp only [FuseP.piecesOf, he, Option.getD_some, List.map_map, Function.comp_def]
      exact blkSum_pieces g n.2 (hva.blk n hn).2.2 axis (by omega) e hok.total
        (fun q => replaceWithSeq n.2.shape axis ((Arr.blockShape? subs q.1).getD []))

theorem unfuseGroups_sameContentC [Zero R] (groups : List (List Nat)) (pos : Nat) (L : List Nat)
    (x y : Arr R) (hc : ValidP.Core x)
    (h : L.foldlM (fun x g => if FuseP.multiB groups g then unfuseA x (pos + g) else pure x) x = .ok y) :
    SameContent x y ∧ ValidP.Core y := by
  induction L generalizing x with
  | nil =>
    simp only [List.foldlM_nil, pure, Except.pure] at h
    injection h with h; subst h
    exact ⟨SameContent.refl _, hc⟩
  | cons g L ih =>
    rw [List.foldlM_cons] at h
    by_cases hm : FuseP.multiB groups g = true
    · simp only [hm, if_true, bind, Except.bind] at h
      cases hu : unfuseA x (pos + g) with
      | error e => rw [hu] at h; cases h
      | ok x1 =>
        rw [hu] at h
        have hc1 := ValidP.unfuseA_core x x1 (pos + g) hc hu
        obtain ⟨h1, h2⟩ := ih x1 hc1 h
        exact ⟨(unfuseA_sameContentC x x1 _ hc hu).trans h1, h2⟩
    · simp only [hm, Bool.false_eq_true, if_false, bind, Except.bind, pure, Except.pure] at h
      exact ih x hc h

/-- **`_fuse_core` keeps the content**, for abelian and fermionic operands alike (`hcx`: the fused
    array satisfies the fermi-agnostic part of validity) -/
theorem fuseCore_sameContentC [Zero R] (a x : Arr R) (groups : List (List Nat))
    (hv : a.validB = true) (hg : FuseP.groupsOkB groups a.ndim = true)
    (h : fuseCore a groups .insert = .ok x) (hcx : ValidP.Core x) : SameContent a x := by
  classical
  obtain ⟨x', y, hx', hy, _, hstored, hother⟩ := C05.unfuse_fuse_blocks a groups hv hg
  rw [h] at hx'; injection hx' with hx'; subst hx'
  obtain ⟨hxy, hcy⟩ := unfuseGroups_sameContentC groups _ _ x y hcx hy
  refine SameContent.trans ?_ hxy.symm
  intro M _ g hg0
  have hva := FuseP.validArr_of_validB hv
  have hnda : a.sectors.Nodup := hva.nodup
  have hndy : y.sectors.Nodup := (FuseP.validArr_of_core hcy).nodup
  obtain ⟨_, _, hperm, _⟩ := C05.calcFuseGroupInfo_perm groups a.duals (by rw [FuseP.duals_length]; exact hg)
  rw [FuseP.duals_length] at hperm
  have hI : (a.sectors.map (fun s => permuted s (calcFuseGroupInfo groups a.duals).perm)).Nodup :=
    List.Nodup.map_on (fun s hs t ht hst => by
      obtain ⟨⟨s', b⟩, hm, rfl⟩ := List.mem_map.mp hs
      obtain ⟨⟨t', b'⟩, hm', rfl⟩ := List.mem_map.mp ht
      exact permuted_inj hperm (hva.blk _ hm).1 (hva.blk _ hm').1 hst) hnda
  symm
  rw [entrySum_eq_sectors g y hndy]
  rw [sum_eq_sum_of_support hndy hI (fun K hK => by
      obtain ⟨s, hs, rfl⟩ := List.mem_map.mp hK
      obtain ⟨⟨s', b⟩, hm, rfl⟩ := List.mem_map.mp hs
      exact alookup_isSome_iff.mp (by rw [hstored s' b hm]; rfl)) _
    (fun K hK hKI => by
      obtain ⟨V, hV⟩ := Option.isSome_iff_exists.mp (alookup_isSome_iff.mpr hK)
      simp only [hV]
      rcases hother K V hV with ⟨s, b, hm, rfl⟩ | hz
      · exact absurd (List.mem_map.mpr ⟨s, List.mem_map.mpr ⟨(s, b), hm, rfl⟩, rfl⟩) hKI
      · exact blkSum_allZero g hg0 V hz)]
  simp only [entrySum, Arr.sectors, List.map_map]
  apply sum_map_congr
  intro p hp
  simp only [Function.comp]
  rw [hstored p.1 p.2 hp]
  have hb := hva.blk p hp
  exact blkSum_transposeK g p.2 hb.2.2 _ (by
    rw [Arr.blockShape?_shape_length hb.2.1]; exact hperm)

/-! ### the fermionic unfuse and fuse -/

/-- **`FermionicArray.unfuse` keeps the content up to signs** -/
theorem unfuseF_sameAbs [Zero R] [Neg R] (a y : Arr R) (axis : Nat) (hv : a.validB = true)
    (h : Arr.unfuseF a axis = .ok y) : SameAbs a y := by
  have hvs : a.phaseSync.validB = true := LinalgLemmas.phaseSync_valid a hv
  unfold Arr.unfuseF at h
  dsimp only at h
  split at h
  case h_2 => cases h
  rename_i ix _
  simp only [pure_bind] at h
  obtain ⟨new, hnew, h⟩ := ValidP.bind_ok h
  have h1 : SameAbs a new :=
    (phaseSync_sameAbs a).trans (unfuseA_sameContent a.phaseSync new axis hvs hnew).abs
  split at h
  · split at h
    case h_2 => cases h
    rename_i subs _ _
    simp only [pure, Except.pure, Except.ok.injEq] at h
    subst h
    exact h1.trans (sameAbs_of_blocks (Lazy.phaseFlip_blocks _ _).symm)
  · simp only [pure, Except.pure, Except.ok.injEq] at h
    subst h; exact h1

/-- the sign-adjusted operand of the fermionic fuse: transposed blocks, some of them negated -/
theorem signAdj_sameAbs [Zero R] [Neg R] (a : Arr R) (groups : List (List Nat)) (hv : a.validB = true)
    (hf : a.fermi = true) (hg : FuseP.groupsOkB groups a.ndim = true) :
    SameAbs a (FuseP.signAdj a groups) := by
  obtain ⟨_, _, hperm, _⟩ := C05.calcFuseGroupInfo_perm groups a.duals (by rw [FuseP.duals_length]; exact hg)
  rw [FuseP.duals_length] at hperm
  have hfull := Lazy.Full.of_valid hv hf
  have htr := hfull.trOk hperm
  have hva := FuseP.validArr_of_validB hv
  have key : ∀ y : Arr R, y.blocks = (a.transposeF (calcFuseGroupInfo groups a.duals).perm).blocks →
      SameAbs a y.phaseSync := by
    intro y hy
    refine SameAbs.trans ?_ (phaseSync_sameAbs y)
    intro M _ g _ _
    simp only [entrySum, hy, Lazy.transposeF_blocks htr, List.map_map]
    congr 1
    apply List.map_congr_left
    intro p hp
    simp only [Function.comp]
    have hb := hva.blk p hp
    exact (blkSum_transposeK g p.2 hb.2.2 _ (by
      rw [Arr.blockShape?_shape_length hb.2.1]; exact hperm)).symm
  unfold FuseP.signAdj
  split
  · exact key _ (Lazy.phaseFlip_blocks _ _)
  · exact key _ (Lazy.phaseFlip_blocks _ _)

/-- **`FermionicArray.fuse` keeps the content up to signs** (any admissible list of groups) -/
theorem fuseF_sameAbs [Zero R] [Neg R] (a x : Arr R) (groups : List (List Nat)) (e : Bool)
    (hv : a.validB = true) (hf : a.fermi = true) (hg : FuseP.groupsOkB groups a.ndim = true)
    (h : Arr.fuseF a groups .insert e = .ok x) : SameAbs a x := by
  obtain ⟨hs1, hs2, _, _, hs5, _, _⟩ := C05.fuseF_struct a groups .insert e hv hf hg
  have hvx : x.validB = true :=
    C01.fuseF_valid a x groups e hv hf (fuseAdmissible_of_groupsOk hg) h
  rw [hs1] at h
  exact (signAdj_sameAbs a groups hv hf hg).trans
    (fuseCore_sameContentC (FuseP.signAdj a groups) x _ hs2 hs5 h ((ValidP.validB_iff x).1 hvx).core).abs

end ReshapeP
end SymmModel
