/-
  SymmModel.Proofs.Fuse4Sign2 — the sign of the fermionic fuse as a product over the dual groups.
-/
import SymmModel.Proofs.Fuse4Sign
namespace SymmModel
namespace FuseP
set_option linter.unusedSectionVars false
open SymmModel.KoszulP SymmModel.Lazy

variable {R : Type} [Zero R] [Neg R]

/-- "the first axis of the (transposed) group is dual" -/
def dualSel (a : Arr R) (groups : List (List Nat)) (g : List Nat) : Bool :=
  ((a.transposeF (calcFuseGroupInfo groups a.duals).perm).indices.getD (g.headD 0) default).dual

theorem dualGroupsF_eq (a : Arr R) (groups : List (List Nat)) :
    dualGroupsF a groups = (newGroupsF groups a.duals).filter (dualSel a groups) := rfl

theorem vpermF_eq (a : Arr R) (groups : List (List Nat)) (hok : GroupsOk groups a.ndim) :
    vpermF a groups = (List.range a.ndim).map (vfun (dualGroupsF a groups)) := by
  have hn : ((a.transposeF (calcFuseGroupInfo groups a.duals).perm).phaseFlip (axesFlipF a groups)).ndim
      = a.ndim := by
    show ((a.transposeF (calcFuseGroupInfo groups a.duals).perm).phaseFlip (axesFlipF a groups)).indices.length = _
    rw [(ValidP.phaseFlip_fields _ _).1]
    exact permutedM_length hok a.indices rfl
  unfold vpermF
  rw [hn]
  rfl

/-- `0 … n-1` as front ++ (the consecutive new groups) ++ back -/
theorem range_blocks {groups : List (List Nat)} {duals : List Bool} (hok : GroupsOk groups duals.length) :
    List.range duals.length
      = List.range (calcFuseGroupInfo groups duals).position ++ (newGroupsF groups duals).flatten
        ++ (List.range (calcFuseGroupInfo groups duals).axesAfter.length).map
            (fun j => (calcFuseGroupInfo groups duals).position + groups.flatten.length + j) := by
  rw [newGroupsF_flatten hok, ← flatten_le hok, List.range_add, List.range_add]

/-- **the reversal part factorises**: Koszul sign of `vpermF` = product of the reversal signs of
    the dual groups -/
theorem koszul_vpermF (a : Arr R) (groups : List (List Nat)) (hok : GroupsOk groups a.ndim) (par : List Bool) :
    koszul par (some (vpermF a groups)) = revProd par (dualSel a groups) (newGroupsF groups a.duals) := by
  have hok' := hokD hok
  have hnd : (newGroupsF groups a.duals).flatten.Nodup := (newGroupsF_ok hok').nodup
  have hrange := range_blocks hok'
  rw [duals_length] at hrange
  rw [vpermF_eq a groups hok, dualGroupsF_eq]
  have hfl := newGroupsF_flatten hok'
  have hmap := map_vfun_blocks hnd (dualSel a groups) (List.range (calcFuseGroupInfo groups a.duals).position)
    ((List.range (calcFuseGroupInfo groups a.duals).axesAfter.length).map
      (fun j => (calcFuseGroupInfo groups a.duals).position + groups.flatten.length + j))
    (by
      intro x hx hm
      rw [hfl] at hm
      simp only [List.mem_range] at hx
      simp only [List.mem_map, List.mem_range] at hm
      obtain ⟨t, _, rfl⟩ := hm; omega)
    (by
      intro y hy hm
      rw [hfl] at hm
      simp only [List.mem_map, List.mem_range] at hy hm
      obtain ⟨j, _, rfl⟩ := hy
      obtain ⟨t, ht, he⟩ := hm; omega)
  rw [hrange, hmap, koszul_reverse_blocks par (dualSel a groups) _ _ _ a.ndim (by rw [← hrange]),
    ← hrange, koszul_id', Int.one_mul]

/-- the sign factor of one dual group on the transposed sector `S`: flip of the group's non-dual
    legs times the reversal sign of the group's odd charges -/
def groupSign (a : Arr R) (groups : List (List Nat)) (S : Sector) (g : List Nat) : Int :=
  flipSign a.sym (g.filter (fun ax =>
      !((a.transposeF (calcFuseGroupInfo groups a.duals).perm).indices.getD ax default).dual)) S
    * revSign (S.map a.sym.parity) g

theorem revProd_eq_foldr (par : List Bool) (sel : List Nat → Bool) (L : List (List Nat)) :
    revProd par sel L = ((L.filter sel).map (revSign par)).foldr (· * ·) 1 := by
  induction L with
  | nil => rfl
  | cons g rest ih =>
    simp only [revProd, List.filter_cons]
    split
    · simp [ih]
    · simp [ih]

theorem foldr_mul_zip (l : List (List Nat)) (f h : List Nat → Int) :
    (l.map f).foldr (· * ·) 1 * (l.map h).foldr (· * ·) 1 = (l.map (fun g => f g * h g)).foldr (· * ·) 1 := by
  induction l with
  | nil => rfl
  | cons g rest ih =>
    simp only [List.map_cons, List.foldr_cons]
    rw [← ih]
    ring

/-- **per-group factorisation of the fermionic fuse sign** (transposed sector) -/
theorem fuseSignT_groups (a : Arr R) (groups : List (List Nat)) (hok : GroupsOk groups a.ndim) (S : Sector) :
    fuseSignT a groups S
      = ((dualGroupsF a groups).map (groupSign a groups S)).foldr (· * ·) 1 := by
  unfold fuseSignT
  rw [fuseSignT_flip]
  by_cases he : (dualGroupsF a groups).isEmpty = true
  · have : dualGroupsF a groups = [] := by simpa using he
    simp [this]
  · simp only [he, Bool.false_eq_true, if_false]
    rw [koszul_vpermF a groups hok, revProd_eq_foldr, ← dualGroupsF_eq, foldr_mul_zip]
    rfl

/-- … and for the original sector `s`: transposition sign times one factor per dual group -/
theorem fuseSignF_groups (a : Arr R) (groups : List (List Nat)) (hok : GroupsOk groups a.ndim) (s : Sector) :
    fuseSignF a groups s
      = ((dualGroupsF a groups).map
            (groupSign a groups (permuted s (calcFuseGroupInfo groups a.duals).perm))).foldr (· * ·) 1
        * koszul (a.parities s) (some (calcFuseGroupInfo groups a.duals).perm) := by
  unfold fuseSignF
  rw [fuseSignT_groups a groups hok]

end FuseP
end SymmModel
