/-
  SymmModel.Proofs.TdotFuseC3 — fusing the leading free legs of the LEFT operand commutes with the
  contraction (abelian, no alignment needed): geometry of the shifted axes and the entry-wise
  statement.  Namespace `SymmModel.TdotP`.
-/
import SymmModel.Proofs.TdotFuseC2

namespace SymmModel
namespace TdotP
variable {R : Type}

/-- the position of original axis `j ≥ k` after the axes `0 … k-1` have been fused into one -/
def sh (k j : Nat) : Nat := j + 1 - k

/-- the free legs `≥ k` -/
def freeTail (n k : Nat) (xa : List Nat) : List Nat :=
  ((List.range n).drop k).filter (fun ax => !xa.contains ax)

theorem permuted_cons_drop_shift {α : Type} (c : α) (M : List α) (k : Nat) (hk : 1 ≤ k) (l : List Nat)
    (hl : ∀ x ∈ l, k ≤ x) : permuted (c :: M.drop k) (l.map (sh k)) = permuted M l := by
  unfold permuted
  rw [List.filterMap_map]
  apply List.filterMap_congr
  intro x hx
  have hkx := hl x hx
  simp only [Function.comp, sh]
  have e : x + 1 - k = (x - k) + 1 := by omega
  rw [e, List.getElem?_cons_succ, List.getElem?_drop]
  congr 1; omega

theorem freeAxes_lead (n k : Nat) (xa : List Nat) (hk : k ≤ n) (hxa : ∀ x ∈ xa, k ≤ x) :
    freeAxes n xa = List.range k ++ freeTail n k xa := by
  unfold freeAxes freeTail
  have e : List.range n = List.range k ++ (List.range n).drop k := by
    conv_lhs => rw [← List.take_append_drop k (List.range n)]
    rw [List.take_range, Nat.min_eq_left hk]
  conv_lhs => rw [e]
  rw [List.filter_append]
  congr 1
  rw [List.filter_eq_self]
  intro a ha
  have := List.mem_range.mp ha
  simp only [Bool.not_eq_true', List.contains_eq_mem, decide_eq_false_iff_not]
  intro h; have := hxa a h; omega

theorem mem_freeTail {n k : Nat} {xa : List Nat} {x : Nat} (h : x ∈ freeTail n k xa) :
    k ≤ x ∧ x < n ∧ x ∉ xa := by
  unfold freeTail at h
  obtain ⟨h1, h2⟩ := List.mem_filter.mp h
  obtain ⟨i, hi, rfl⟩ := List.mem_iff_getElem.mp h1
  simp only [List.length_drop, List.length_range] at hi
  simp only [List.getElem_drop, List.getElem_range]
  refine ⟨by omega, by omega, ?_⟩
  simpa using h2

theorem freeAxes_shift (n k : Nat) (xa : List Nat) (hk1 : 1 ≤ k) (hk : k ≤ n) (hxa : ∀ x ∈ xa, k ≤ x) :
    freeAxes (1 + (n - k)) (xa.map (sh k)) = 0 :: (freeTail n k xa).map (sh k) := by
  unfold freeAxes freeTail
  have e1 : List.range (1 + (n - k)) = 0 :: (List.range (n - k)).map (· + 1) := by
    rw [Nat.add_comm, List.range_succ_eq_map]
  have e2 : (List.range n).drop k = (List.range (n - k)).map (· + k) := by
    apply List.ext_getElem
    · simp
    · intro i h1 h2; simp; omega
  rw [e1, e2, List.filter_cons]
  have h0 : (!(xa.map (sh k)).contains 0) = true := by
    simp only [Bool.not_eq_true', List.contains_eq_mem, decide_eq_false_iff_not, List.mem_map, not_exists,
      not_and]
    intro x hx; have := hxa x hx; unfold sh; omega
  rw [if_pos h0]
  congr 1
  rw [List.filter_map, List.filter_map, List.map_map]
  have hp : ∀ j, ((fun ax => !(xa.map (sh k)).contains ax) ∘ (· + 1)) j
      = ((fun ax => !xa.contains ax) ∘ (· + k)) j := by
    intro j
    simp only [Function.comp]
    congr 1
    rw [Bool.eq_iff_iff]
    simp only [List.contains_eq_mem, decide_eq_true_eq, List.mem_map]
    constructor
    · rintro ⟨x, hx, he⟩
      have := hxa x hx
      have : x = j + k := by unfold sh at he; omega
      rw [← this]; exact hx
    · intro h
      exact ⟨j + k, h, by unfold sh; omega⟩
  rw [List.filter_congr (fun j _ => hp j)]
  apply List.map_congr_left
  intro j _
  simp only [Function.comp, sh]; omega

theorem permuted_zero_cons {α : Type} (c : α) (l : List α) (p : List Nat) :
    permuted (c :: l) (0 :: p) = c :: permuted (c :: l) p := by
  simp [permuted]

/-- merging with the leading free block `Sv` of length `k`, before and after fusing the leading
    `k` axes (`c` stands for the fused entry) -/
theorem merge_lead {α : Type} (d0 : α) (n k : Nat) (xa : List Nat) (hk1 : 1 ≤ k) (hk : k ≤ n)
    (hn : xa.Nodup) (hr : ∀ x ∈ xa, x < n) (hxa : ∀ x ∈ xa, k ≤ x)
    (kv : List α) (hkv : kv.length = xa.length) (c : α) (Sv Lv : List α) (hS : Sv.length = k)
    (hLv : Lv.length = (freeTail n k xa).length) :
    mergeIdx d0 n xa (freeAxes n xa) kv (Sv ++ Lv)
        = Sv ++ (mergeIdx d0 n xa (freeAxes n xa) kv (Sv ++ Lv)).drop k
    ∧ mergeIdx d0 (1 + (n - k)) (xa.map (sh k)) (freeAxes (1 + (n - k)) (xa.map (sh k))) kv (c :: Lv)
        = c :: (mergeIdx d0 n xa (freeAxes n xa) kv (Sv ++ Lv)).drop k
    ∧ permuted (mergeIdx d0 n xa (freeAxes n xa) kv (Sv ++ Lv)) (freeTail n k xa) = Lv := by
  generalize hM : mergeIdx d0 n xa (freeAxes n xa) kv (Sv ++ Lv) = M
  have hMl : M.length = n := by rw [← hM]; exact mergeIdx_length _ _ _ _ _ _
  have pA : permuted M xa = kv := by rw [← hM]; exact permuted_mergeIdx_axes d0 hn hr hkv
  have hFl : (Sv ++ Lv).length = (freeAxes n xa).length := by
    rw [freeAxes_lead n k xa hk hxa, List.length_append, List.length_append, hS, hLv, List.length_range]
  have pF : permuted M (freeAxes n xa) = Sv ++ Lv := by
    rw [← hM]
    exact permuted_mergeIdx_free d0 (freeAxes_nodup _ _) mem_freeAxes_lt
      (fun _ hx => (mem_freeAxes.mp hx).2) hFl
  rw [freeAxes_lead n k xa hk hxa, ValidP.permuted_append, ValidP.permuted_range_take] at pF
  have htl : (M.take k).length = Sv.length := by rw [List.length_take, hMl, hS]; omega
  obtain ⟨e1, e2⟩ := List.append_inj pF htl
  have e3 : M = Sv ++ M.drop k := by
    conv_lhs => rw [← List.take_append_drop k M]
    rw [e1]
  refine ⟨e3, ?_, e2⟩
  have hxl : (c :: M.drop k).length = 1 + (n - k) := by
    rw [List.length_cons, List.length_drop, hMl]; omega
  have hra : ∀ y ∈ xa.map (sh k), y < 1 + (n - k) := by
    intro y hy
    obtain ⟨x, hx, rfl⟩ := List.mem_map.mp hy
    have := hr x hx; have := hxa x hx
    unfold sh; omega
  have := mergeIdx_permuted d0 (x := c :: M.drop k) (n := 1 + (n - k)) (axes := xa.map (sh k))
    (free := freeAxes (1 + (n - k)) (xa.map (sh k))) hxl hra mem_freeAxes_lt
    (by
      intro y hy
      by_cases hm : y ∈ xa.map (sh k)
      · exact Or.inl hm
      · exact Or.inr (mem_freeAxes.mpr ⟨hy, hm⟩))
  rw [permuted_cons_drop_shift c M k hk1 xa hxa, pA, freeAxes_shift n k xa hk1 hk hxa,
    permuted_zero_cons, permuted_cons_drop_shift c M k hk1 _ (fun x hx => (mem_freeTail hx).1), e2] at this
  rw [freeAxes_shift n k xa hk1 hk hxa]
  exact this

theorem fused_lead_validB [Zero R] {A : Arr R} {k : Nat} (hv : A.validB = true)
    (hf : A.fermi = false) (h1 : 1 ≤ k) (h2 : k ≤ A.ndim) :
    (FuseP.fusedArrM A [List.range k]).validB = true := by
  have hok := lead_groupsOk (X := A) h1 h2
  refine ValidP.fuseCore_insert_validB A _ [List.range k] hv hf ?_
    (FuseP.fuseCore_multi_eq (FuseP.validArr_of_validB hv) hok)
  simp only [ValidP.fuseAdmissibleB, Bool.and_eq_true, List.all_eq_true, decide_eq_true_eq]
  exact ⟨allDistinct_iff_nodup.mpr hok.nodup, hok.lt⟩

/-- **fusing the leading free legs of the left operand commutes with the contraction** (abelian;
    no alignment, no guard on the contracted legs beyond equal numbers).  `a`'s axes `0 … k-1` are
    free (every contracted axis is `≥ k`).  The contraction of `fuse(a, [0 … k-1])` with `b`, at the
    address `(c0 :: Lr ++ Rs, i0 :: oLr ++ oR)`, is the plain contraction at
    `(S ++ Lr ++ Rs, O ++ oLr ++ oR)`, where `(S, O)` is what the fused index's own table decodes
    `(c0, i0)` to. -/
theorem lead_commute [AddCommMonoid R] [Mul R] [Neg R]
    (hz1 : ∀ x : R, 0 * x = 0) (hz2 : ∀ x : R, x * 0 = 0) (a b : Arr R) (xa xb : List Nat) (k : Nat)
    (ha : a.validB = true) (hb : b.validB = true) (hpa : a.phases = []) (hpb : b.phases = [])
    (hvF : (FuseP.fusedArrM a [List.range k]).validB = true)
    (hnA : xa.Nodup) (hnB : xb.Nodup) (hA : ∀ x ∈ xa, x < a.ndim) (hB : ∀ x ∈ xb, x < b.ndim)
    (hlen : xa.length = xb.length) (hk1 : 1 ≤ k) (hk : k ≤ a.ndim) (hxa : ∀ x ∈ xa, k ≤ x)
    {c0 : Charge} {i0 d : Nat} {S : Sector} {O : List Nat}
    (hdec : decAx a [List.range k] 0 c0 i0 = some (S, O))
    (hz : (FuseP.ixM a [List.range k] 0).sizeOf? c0 = some d) (hi : i0 < d)
    {Lr Rs : Sector} {oLr oR shpLr shpR : List Nat}
    (hLr : Arr.blockShape? (permuted a.indices (freeTail a.ndim k xa)) Lr = some shpLr)
    (hbLr : inBox shpLr oLr = true)
    (hR : Arr.blockShape? (permuted b.indices (freeAxes b.ndim xb)) Rs = some shpR)
    (hbR : inBox shpR oR = true) :
    (tensordotBlockwise (FuseP.fusedArrM a [List.range k]) b
        (freeAxes (1 + (a.ndim - k)) (xa.map (sh k))) (xa.map (sh k)) xb (freeAxes b.ndim xb)).elem
        ((c0 :: Lr) ++ Rs) ((i0 :: oLr) ++ oR)
      = (tensordotBlockwise a b (freeAxes a.ndim xa) xa xb (freeAxes b.ndim xb)).elem
        ((S ++ Lr) ++ Rs) ((O ++ oLr) ++ oR) := by
  have hva := FuseP.validArr_of_validB ha
  have hok := lead_groupsOk (X := a) hk1 hk
  have e0 : ([List.range k] : List (List Nat))[0]? = some (List.range k) := rfl
  have ean : a.indices.length = a.ndim := rfl
  have ebn : b.indices.length = b.ndim := rfl
  have hsa := Arr.shapesOk_of_validB ha
  have hsb := Arr.shapesOk_of_validB hb
  have hsF := Arr.shapesOk_of_validB hvF
  have iF : (FuseP.fusedArrM a [List.range k]).indices
      = FuseP.ixM a [List.range k] 0 :: a.indices.drop k := lead_newIdx hk1 hk
  have nF : (FuseP.fusedArrM a [List.range k]).ndim = 1 + (a.ndim - k) := by
    show (FuseP.fusedArrM a [List.range k]).indices.length = _
    rw [iF, List.length_cons, List.length_drop, ean]; omega
  have hpF : (FuseP.fusedArrM a [List.range k]).phases = [] := hpa
  -- the shifted contracted axes
  have hnA' : (xa.map (sh k)).Nodup := by
    refine hnA.map_on ?_
    intro x hx y hy e
    have := hxa x hx; have := hxa y hy
    unfold sh at e; omega
  have hA' : ∀ x ∈ xa.map (sh k), x < (FuseP.fusedArrM a [List.range k]).ndim := by
    intro y hy
    obtain ⟨x, hx, rfl⟩ := List.mem_map.mp hy
    have := hA x hx; have := hxa x hx
    rw [nF]; unfold sh; omega
  have hlen' : (xa.map (sh k)).length = xb.length := by rw [List.length_map]; exact hlen
  -- the decoded leading block
  obtain ⟨shpS, hshpS, hboxS⟩ := decAx_facts hva hok e0 hdec hz hi
  have hpk : (permuted a.indices (List.range k)).length = k := by
    rw [ValidP.permuted_range_take, List.length_take, ean]; omega
  have hSl : S.length = k := by rw [(blockShape?_length hshpS).1, hpk]
  have hOl : O.length = k := by rw [inBox_length hboxS, (blockShape?_length hshpS).2, hpk]
  have hFTlt : ∀ x ∈ freeTail a.ndim k xa, x < a.indices.length := fun x hx => (mem_freeTail hx).2.1
  have hLrl : Lr.length = (freeTail a.ndim k xa).length := by
    rw [(blockShape?_length hLr).1, permuted_length _ _ hFTlt]
  have hoLrl : oLr.length = (freeTail a.ndim k xa).length := by
    rw [inBox_length hbLr, (blockShape?_length hLr).2, permuted_length _ _ hFTlt]
  have hRl : Rs.length = (freeAxes b.ndim xb).length := by
    rw [(blockShape?_length hR).1, permuted_length _ _ (by simpa [ebn] using mem_freeAxes_lt)]
  -- shapes of the two left free parts
  have hLshape : Arr.blockShape? (permuted a.indices (freeAxes a.ndim xa)) (S ++ Lr) = some (shpS ++ shpLr) := by
    rw [freeAxes_lead a.ndim k xa hk hxa, ValidP.permuted_append]
    exact blockShape?_append hshpS hLr
  have hFidx : permuted (FuseP.fusedArrM a [List.range k]).indices
      (freeAxes (FuseP.fusedArrM a [List.range k]).ndim (xa.map (sh k)))
      = FuseP.ixM a [List.range k] 0 :: permuted a.indices (freeTail a.ndim k xa) := by
    rw [nF, freeAxes_shift a.ndim k xa hk1 hk hxa, iF, permuted_zero_cons,
      permuted_cons_drop_shift _ a.indices k hk1 _ (fun x hx => (mem_freeTail hx).1)]
  have hLfshape : Arr.blockShape? (permuted (FuseP.fusedArrM a [List.range k]).indices
      (freeAxes (FuseP.fusedArrM a [List.range k]).ndim (xa.map (sh k)))) (c0 :: Lr) = some (d :: shpLr) := by
    rw [hFidx, Arr.blockShape?_cons, hz, hLr]; rfl
  have hKidx : permuted (FuseP.fusedArrM a [List.range k]).indices (xa.map (sh k)) = permuted a.indices xa := by
    rw [iF, permuted_cons_drop_shift _ a.indices k hk1 xa hxa]
  -- the common list of contracted sub-sectors
  let Ks : List Sector := (a.sectors.map (fun s => permuted s xa)).eraseDups
  have hKn : Ks.Nodup := nodup_eraseDups _
  have hKl : ∀ K ∈ Ks, K.length = xa.length := by
    intro K hK
    obtain ⟨s, hs, rfl⟩ := List.mem_map.mp (List.mem_eraseDups.mp hK)
    exact permuted_length _ _ (by rw [Arr.sector_length hsa hs]; exact hA)
  have hKc : ∀ sa ∈ a.sectors, permuted sa xa ∈ Ks := fun sa hs =>
    List.mem_eraseDups.mpr (List.mem_map.mpr ⟨sa, hs, rfl⟩)
  have hKcF : ∀ sF ∈ (FuseP.fusedArrM a [List.range k]).sectors, permuted sF (xa.map (sh k)) ∈ Ks := by
    intro sF hsF'
    obtain ⟨p, hp, rfl⟩ := List.mem_map.mp hsF'
    have hl : alookup (FuseP.fusedBlocksM a [List.range k]) p.1 = some p.2 :=
      alookup_of_mem (Arr.allDistinct_of_validB hvF) hp
    obtain ⟨sb0, hsb0, hns0, _⟩ := FuseP.fusedBlockM_info hva hok hl
    have hsl0 : sb0.1.length = a.ndim := (hva.blk sb0 hsb0).1
    rw [← hns0, lead_newSector hk1 hk sb0 hsl0, permuted_cons_drop_shift _ sb0.1 k hk1 xa hxa]
    exact hKc _ (List.mem_map.mpr ⟨sb0, hsb0, rfl⟩)
  -- boxes
  have hboxA : inBox (Arr.blockShapeD (without a.indices xa ++ without b.indices xb) ((S ++ Lr) ++ Rs))
      ((O ++ oLr) ++ oR) = true := by
    rw [without_eq_permuted_freeAxes, without_eq_permuted_freeAxes, Arr.blockShapeD, ean, ebn,
      blockShape?_append hLshape hR]
    simp only [Option.getD_some]
    rw [inBox_append (by rw [List.length_append, List.length_append, inBox_length hboxS, inBox_length hbLr]),
      inBox_append (inBox_length hboxS), hboxS, hbLr, hbR]
    rfl
  have hboxF : inBox (Arr.blockShapeD (without (FuseP.fusedArrM a [List.range k]).indices (xa.map (sh k))
      ++ without b.indices xb) ((c0 :: Lr) ++ Rs)) ((i0 :: oLr) ++ oR) = true := by
    have eF : (FuseP.fusedArrM a [List.range k]).indices.length = (FuseP.fusedArrM a [List.range k]).ndim := rfl
    rw [without_eq_permuted_freeAxes, without_eq_permuted_freeAxes, Arr.blockShapeD, ebn, eF,
      blockShape?_append hLfshape hR]
    simp only [Option.getD_some]
    rw [inBox_append (by simp [inBox_length hbLr]), hbR]
    simp [inBox, hi, hbLr]
  have hLfl : (c0 :: Lr).length = (freeAxes (FuseP.fusedArrM a [List.range k]).ndim (xa.map (sh k))).length := by
    rw [nF, freeAxes_shift a.ndim k xa hk1 hk hxa, List.length_cons, List.length_cons, List.length_map, hLrl]
  have hoLfl : (i0 :: oLr).length = (freeAxes (FuseP.fusedArrM a [List.range k]).ndim (xa.map (sh k))).length := by
    rw [nF, freeAxes_shift a.ndim k xa hk1 hk hxa, List.length_cons, List.length_cons, List.length_map, hoLrl]
  have hLl : (S ++ Lr).length = (freeAxes a.ndim xa).length := by
    rw [freeAxes_lead a.ndim k xa hk hxa, List.length_append, List.length_append, hSl, hLrl, List.length_range]
  have hoLl : (O ++ oLr).length = (freeAxes a.ndim xa).length := by
    rw [freeAxes_lead a.ndim k xa hk hxa, List.length_append, List.length_append, hOl, hoLrl, List.length_range]
  rw [← nF]
  rw [tensordotBlockwise_elem_dense' hz1 hz2 (FuseP.fusedArrM a [List.range k]) b (xa.map (sh k)) xb hpF hpb
      (Arr.allDistinct_of_validB hvF) (Arr.allDistinct_of_validB hb) hsF hsb hnA' hA' hnB hB hlen' Ks hKn
      (fun K hK => by rw [List.length_map]; exact hKl K hK) hKcF (c0 :: Lr) Rs hLfl hRl _ hboxF,
    tensordotBlockwise_elem_dense' hz1 hz2 a b xa xb hpa hpb (Arr.allDistinct_of_validB ha)
      (Arr.allDistinct_of_validB hb) hsa hsb hnA hA hnB hB hlen Ks hKn hKl hKc (S ++ Lr) Rs hLl hRl _ hboxA]
  have etF : ((i0 :: oLr) ++ oR).take (freeAxes (FuseP.fusedArrM a [List.range k]).ndim (xa.map (sh k))).length
      = i0 :: oLr := by rw [← hoLfl]; simp
  have edF : ((i0 :: oLr) ++ oR).drop (freeAxes (FuseP.fusedArrM a [List.range k]).ndim (xa.map (sh k))).length
      = oR := by rw [← hoLfl]; simp
  have etA : ((O ++ oLr) ++ oR).take (freeAxes a.ndim xa).length = O ++ oLr := by
    rw [← hoLl]; exact List.take_left' rfl
  have edA : ((O ++ oLr) ++ oR).drop (freeAxes a.ndim xa).length = oR := by
    rw [← hoLl]; exact List.drop_left' rfl
  rw [etF, edF, etA, edA]
  apply sum_map_congr
  intro K hK
  obtain ⟨sa, hsa', rfl⟩ := List.mem_map.mp (List.mem_eraseDups.mp hK)
  obtain ⟨shpA, hA1, _, hA3, hA4⟩ := GradedP.shape_of_mem hsa hsa'
  have hKshape : Arr.blockShape? (permuted a.indices xa) (permuted sa xa) = some (permuted shpA xa) :=
    blockShape?_permuted hA1 xa (by simpa [ean] using hA)
  have hKlen := hKl _ hK
  simp only [contractPair]
  rw [contracted_box (A := FuseP.fusedArrM a [List.range k]) hnA' hA' (by rw [hKidx]; exact hKshape) hLfshape,
    contracted_box (A := a) hnA hA hKshape hLshape]
  apply sum_map_congr
  intro kk hkk
  have hkbox : inBox (permuted shpA xa) kk = true := mem_allIdx_iff.mp hkk
  have hkkl : kk.length = xa.length := by
    rw [inBox_length hkbox, permuted_length _ _ (by intro x hx; rw [hA3]; exact hA x hx)]
  obtain ⟨m1, m2, _⟩ := merge_lead ((0, 0) : Charge) a.ndim k xa hk1 hk hnA hA hxa (permuted sa xa) hKlen
    c0 S Lr hSl hLrl
  obtain ⟨o1, o2, _⟩ := merge_lead (0 : Nat) a.ndim k xa hk1 hk hnA hA hxa kk hkkl i0 O oLr hOl hoLrl
  -- the merged sector has a block shape; its tail lies in the tail box
  have pA : permuted (mergeSec a.ndim xa (permuted sa xa) (S ++ Lr)) xa = permuted sa xa :=
    permuted_mergeSec_axes hnA hA hKlen
  have pF : permuted (mergeSec a.ndim xa (permuted sa xa) (S ++ Lr)) (freeAxes a.ndim xa) = S ++ Lr :=
    permuted_mergeSec_free hLl
  have hSch : List.Forall₂ (fun c (ix : Index) => c ∈ ix.charges)
      (mergeSec a.ndim xa (permuted sa xa) (S ++ Lr)) a.indices := by
    apply forall₂_of_parts (n := a.ndim) (xa := xa) (l := freeAxes a.ndim xa)
      (mergeSec_length _ _ _ _) ean hA mem_freeAxes_lt
    · intro y hy
      by_cases hm : y ∈ xa
      · exact Or.inl hm
      · exact Or.inr (mem_freeAxes.mpr ⟨hy, hm⟩)
    · rw [pA]; exact charges_of_blockShape? hKshape
    · rw [pF]; exact charges_of_blockShape? hLshape
  obtain ⟨shpM, hshpM⟩ := blockShape?_of_charges hSch
  have hMl : shpM.length = a.ndim := (blockShape?_length hshpM).2
  have hMk : permuted shpM xa = permuted shpA xa := by
    have := blockShape?_permuted hshpM xa (by simpa [ean] using hA)
    rw [pA, hKshape] at this
    exact (Option.some.inj this).symm
  have hMf : permuted shpM (freeAxes a.ndim xa) = shpS ++ shpLr := by
    have := blockShape?_permuted hshpM (freeAxes a.ndim xa) (by simpa [ean] using mem_freeAxes_lt)
    rw [pF, hLshape] at this
    exact (Option.some.inj this).symm
  have hMbox : inBox shpM (mergeIdx 0 a.ndim xa (freeAxes a.ndim xa) kk (O ++ oLr)) = true := by
    have := inBox_mergeIdx (shape := shpM) (axes := xa) (k := kk) (f := O ++ oLr)
      (by intro x hx; rw [hMl]; exact hA x hx) (by rw [hMk]; exact hkbox)
      (by rw [hMl, hMf, inBox_append (inBox_length hboxS), hboxS, hbLr]; rfl)
    rwa [hMl] at this
  have hsplit : Arr.blockShape? (a.indices.take k ++ a.indices.drop k)
      (S ++ (mergeSec a.ndim xa (permuted sa xa) (S ++ Lr)).drop k) = some shpM := by
    rw [List.take_append_drop]
    have : S ++ (mergeSec a.ndim xa (permuted sa xa) (S ++ Lr)).drop k
        = mergeSec a.ndim xa (permuted sa xa) (S ++ Lr) := m1.symm
    rw [this]; exact hshpM
  obtain ⟨p, q, rfl, hp1, hq1⟩ := blockShape?_split (by rw [hSl, List.length_take, ean]; omega) hsplit
  have hpl : p.length = k := by rw [(blockShape?_length hp1).2, List.length_take, ean]; omega
  have hqbox : inBox q ((mergeIdx 0 a.ndim xa (freeAxes a.ndim xa) kk (O ++ oLr)).drop k) = true := by
    rw [o1, inBox_append (by rw [hOl, hpl])] at hMbox
    simp only [Bool.and_eq_true] at hMbox
    exact hMbox.2
  unfold contractTerm
  congr 1
  rw [nF]
  show (FuseP.fusedArrM a [List.range k]).elem
      (mergeIdx ((0, 0) : Charge) (1 + (a.ndim - k)) (xa.map (sh k)) (freeAxes (1 + (a.ndim - k)) (xa.map (sh k)))
        (permuted sa xa) (c0 :: Lr))
      (mergeIdx 0 (1 + (a.ndim - k)) (xa.map (sh k)) (freeAxes (1 + (a.ndim - k)) (xa.map (sh k))) kk (i0 :: oLr))
    = a.elem (mergeIdx ((0, 0) : Charge) a.ndim xa (freeAxes a.ndim xa) (permuted sa xa) (S ++ Lr))
      (mergeIdx 0 a.ndim xa (freeAxes a.ndim xa) kk (O ++ oLr))
  rw [m2, o2]
  conv_rhs => rw [m1, o1]
  exact lead_elem hva hpa hk1 hk hdec hz hi hq1 hqbox

theorem forall₂_drop {α β : Type} {r : α → β → Prop} {l : List α} {m : List β}
    (h : List.Forall₂ r l m) (k : Nat) : List.Forall₂ r (l.drop k) (m.drop k) := by
  induction h generalizing k with
  | nil => simp
  | cons hx _ ih =>
    cases k with
    | zero => exact .cons hx (by simpa using ih 0)
    | succ k => simpa using ih k

/-- **fusing the leading free legs of the left operand BEFORE the contraction = fusing the leading
    legs of the result AFTERWARDS**, at decoded addresses (abelian, unaligned operands). -/
theorem lead_commute_result [AddCommMonoid R] [Mul R] [Neg R]
    (hz1 : ∀ x : R, 0 * x = 0) (hz2 : ∀ x : R, x * 0 = 0) (a b : Arr R) (xa xb : List Nat) (k : Nat)
    (ha : a.validB = true) (hb : b.validB = true) (hfa : a.fermi = false) (hfb : b.fermi = false)
    (hsym : a.sym = b.sym) (hopp : ValidP.oppositeDualsB a b xa xb = true)
    (hnA : xa.Nodup) (hnB : xb.Nodup) (hA : ∀ x ∈ xa, x < a.ndim) (hB : ∀ x ∈ xb, x < b.ndim)
    (hk1 : 1 ≤ k) (hk : k ≤ a.ndim) (hxa : ∀ x ∈ xa, k ≤ x) :
    (cPlain a b xa xb).validB = true ∧ k ≤ (cPlain a b xa xb).ndim
    ∧ ∀ (c0 c2 : Charge) (i0 d0 i2 d2 : Nat) (S rest : Sector) (O orest shp : List Nat),
        decAx a [List.range k] 0 c0 i0 = some (S, O) →
        (FuseP.ixM a [List.range k] 0).sizeOf? c0 = some d0 → i0 < d0 →
        decAx (cPlain a b xa xb) [List.range k] 0 c2 i2 = some (S, O) →
        (FuseP.ixM (cPlain a b xa xb) [List.range k] 0).sizeOf? c2 = some d2 → i2 < d2 →
        Arr.blockShape? ((cPlain a b xa xb).indices.drop k) rest = some shp → inBox shp orest = true →
        (tensordotBlockwise (FuseP.fusedArrM a [List.range k]) b
            (freeAxes (1 + (a.ndim - k)) (xa.map (sh k))) (xa.map (sh k)) xb (freeAxes b.ndim xb)).elem
            (c0 :: rest) (i0 :: orest)
          = (cPlain a b xa xb).elem (S ++ rest) (O ++ orest)
        ∧ (FuseP.fusedArrM (cPlain a b xa xb) [List.range k]).elem (c2 :: rest) (i2 :: orest)
          = (cPlain a b xa xb).elem (S ++ rest) (O ++ orest) := by
  have ean : a.indices.length = a.ndim := rfl
  have ebn : b.indices.length = b.ndim := rfl
  have hlen : xa.length = xb.length := by
    unfold ValidP.oppositeDualsB at hopp
    simp only [Bool.and_eq_true, beq_iff_eq] at hopp
    exact hopp.1
  have hvc : (cPlain a b xa xb).validB = true := by
    have := ValidP.tensordotBlockwise_valid a b xa xb ((ValidP.validB_iff _).mp ha)
      ((ValidP.validB_iff _).mp hb) hsym hfa hopp hnA hnB hA hB
    rw [without_range, without_range] at this
    exact (ValidP.validB_iff _).mpr this
  have hfc : (cPlain a b xa xb).fermi = false := (tensordotBlockwise_fields a b _ xa xb _).2.1.trans hfa
  have hpc : (cPlain a b xa xb).phases = [] := phases_nil_of_validB hvc hfc
  have hcn : (cPlain a b xa xb).ndim = (freeAxes a.ndim xa).length + (freeAxes b.ndim xb).length :=
    tensordotBlockwise_rank a b xa xb
  have hFl : (freeAxes a.ndim xa).length = k + (freeTail a.ndim k xa).length := by
    rw [freeAxes_lead a.ndim k xa hk hxa, List.length_append, List.length_range]
  have hkc : k ≤ (cPlain a b xa xb).ndim := by rw [hcn, hFl]; omega
  refine ⟨hvc, hkc, ?_⟩
  intro c0 c2 i0 d0 i2 d2 S rest O orest shp hdec hz hi hdec2 hz2' hi2 hshp hbox
  refine ⟨?_, lead_elem (FuseP.validArr_of_validB hvc) hpc hk1 hkc hdec2 hz2' hi2 hshp hbox⟩
  -- the tail of the result's (pruned) tables is a pruning of the operands' tail tables
  have hpk : (permuted a.indices (List.range k)).length = k := by
    rw [ValidP.permuted_range_take, List.length_take, ean]; omega
  have hT : (without a.indices xa ++ without b.indices xb).drop k
      = permuted a.indices (freeTail a.ndim k xa) ++ permuted b.indices (freeAxes b.ndim xb) := by
    rw [without_eq_permuted_freeAxes, without_eq_permuted_freeAxes, ean, ebn,
      freeAxes_lead a.ndim k xa hk hxa, ValidP.permuted_append, List.append_assoc]
    exact List.drop_left' hpk
  have hfr : List.Forall₂ SizeLe ((cPlain a b xa xb).indices.drop k)
      (permuted a.indices (freeTail a.ndim k xa) ++ permuted b.indices (freeAxes b.ndim xb)) := by
    rw [← hT]
    have : (cPlain a b xa xb).indices
        = dropUnused (without a.indices xa ++ without b.indices xb) (cPlain a b xa xb).sectors :=
      tensordotBlockwise_indices a b _ xa xb _
    rw [this]
    exact forall₂_drop (dropUnused_sizeLe _ _) k
  have hw := blockShape?_weaken hfr rest shp hshp
  have hFTlt : ∀ x ∈ freeTail a.ndim k xa, x < a.indices.length := fun x hx => (mem_freeTail hx).2.1
  have hrl : rest.length = (freeTail a.ndim k xa).length + (freeAxes b.ndim xb).length := by
    rw [(blockShape?_length hw).1, List.length_append, permuted_length _ _ hFTlt,
      permuted_length _ _ (by simpa [ebn] using mem_freeAxes_lt)]
  have hrs : rest = rest.take (freeTail a.ndim k xa).length ++ rest.drop (freeTail a.ndim k xa).length :=
    (List.take_append_drop _ _).symm
  rw [hrs] at hw
  obtain ⟨shpLr, shpR, rfl, hLr, hR⟩ := blockShape?_split (by
    rw [List.length_take, permuted_length _ _ hFTlt]; omega) hw
  have hol : orest.length = shpLr.length + shpR.length := by rw [inBox_length hbox, List.length_append]
  have hLrl : shpLr.length = (freeTail a.ndim k xa).length := by
    rw [(blockShape?_length hLr).2, permuted_length _ _ hFTlt]
  have hos : orest = orest.take shpLr.length ++ orest.drop shpLr.length := (List.take_append_drop _ _).symm
  have hbox' := hbox
  rw [hos, inBox_append (by rw [List.length_take]; omega)] at hbox'
  simp only [Bool.and_eq_true] at hbox'
  have := lead_commute hz1 hz2 a b xa xb k ha hb (phases_nil_of_validB ha hfa) (phases_nil_of_validB hb hfb)
    (fused_lead_validB ha hfa hk1 hk) hnA hnB hA hB hlen hk1 hk hxa hdec hz hi hLr hbox'.1 hR hbox'.2
  rw [List.cons_append, List.cons_append, List.append_assoc, List.append_assoc, List.take_append_drop,
    List.take_append_drop] at this
  exact this

end TdotP
end SymmModel
