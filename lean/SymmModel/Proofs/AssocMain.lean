/-
  SymmModel.Proofs.AssocMain — S7 of property C04 for a chain `A–B–C` (no `A–C` legs): both routes
  visit the same stored sector triples, the second calls satisfy the weak guard, the label signs
  agree (`oddpos_assoc'`), hence the two results agree.  Namespace `SymmModel.AssocP`.
-/
import SymmModel.Proofs.AssocIdx

namespace SymmModel
namespace AssocP
open TdotP GradedP RoutesP KoszulP
open Lazy (sgnI)
set_option linter.unusedSectionVars false

variable {R : Type}

/-! ### the stored sector triples -/

/-- `t = (sa, sb, sc)` is a stored, aligned sector triple with free parts `s` -/
def IsTriple (A B C : Arr R) (xa xb1 xb2 xc : List Nat) (s : Sector)
    (t : Sector × Sector × Sector) : Prop :=
  t.1 ∈ A.sectors ∧ t.2.1 ∈ B.sectors ∧ t.2.2 ∈ C.sectors
    ∧ permuted t.2.1 xb1 = permuted t.1 xa ∧ permuted t.2.2 xc = permuted t.2.1 xb2
    ∧ permuted t.1 (freeAxes A.ndim xa) ++ permuted t.2.1 (freeAxes B.ndim (xb1 ++ xb2))
        ++ permuted t.2.2 (freeAxes C.ndim xc) = s

section triples
variable [AddMonoid R] [Mul R] [Neg R]
variable {A B C AB BC : Arr R} {xa xb1 xb2 xc : List Nat} {ph : Int}

theorem mem_triplesL (I : Inter A B xa xb1 AB ph) (hsa : A.shapesOk) (hsb : B.shapesOk)
    (h : Mid B.ndim xb1 xb2) {s : Sector} {t : Sector × Sector × Sector} :
    t ∈ triplesL A B C AB xa xb1 xb2 xc s ↔ IsTriple A B C xa xb1 xb2 xc s t := by
  have hl : ∀ sa ∈ A.sectors, (permuted sa (freeAxes A.ndim xa)).length = (freeAxes A.ndim xa).length :=
    fun sa hA => permuted_length _ _ (by
      intro x hx; rw [Arr.sector_length hsa hA]; exact (mem_freeAxes.mp hx).1)
  unfold triplesL IsTriple
  simp only [List.mem_flatMap, List.mem_map]
  constructor
  · rintro ⟨⟨sab, sc⟩, hp, ⟨sa, sb⟩, hq, rfl⟩
    obtain ⟨_, hC, h2, h3⟩ := mem_storedPairs.mp hp
    obtain ⟨hA, hB, h1, hsab⟩ := mem_storedPairs.mp hq
    simp only at hsab h2 h3 ⊢
    subst hsab
    rw [readAB_ax h _ sb (hl sa hA) (Arr.sector_length hsb hB)] at h2
    rw [I.ndim, readAB_free h _ sb (hl sa hA) (Arr.sector_length hsb hB)] at h3
    exact ⟨hA, hB, hC, h1, h2, h3⟩
  · obtain ⟨sa, sb, sc⟩ := t
    rintro ⟨hA, hB, hC, h1, h2, h3⟩
    simp only at hA hB hC h1 h2 h3
    refine ⟨(permuted sa (freeAxes A.ndim xa) ++ permuted sb (freeAxes B.ndim xb1), sc),
      mem_storedPairs.mpr ⟨I.mem_sectors.mpr ⟨sa, hA, sb, hB, h1, rfl⟩, hC, ?_, ?_⟩,
      (sa, sb), mem_storedPairs.mpr ⟨hA, hB, h1, rfl⟩, rfl⟩
    · rw [readAB_ax h _ sb (hl sa hA) (Arr.sector_length hsb hB)]; exact h2
    · rw [I.ndim, readAB_free h _ sb (hl sa hA) (Arr.sector_length hsb hB)]; exact h3

theorem mem_triplesR (I : Inter B C xb2 xc BC ph) (hsb : B.shapesOk) (hsc : C.shapesOk)
    (h : Mid B.ndim xb1 xb2) {s : Sector} {t : Sector × Sector × Sector} :
    t ∈ triplesR A B C BC xa xb1 xb2 xc s ↔ IsTriple A B C xa xb1 xb2 xc s t := by
  have hl : ∀ sc ∈ C.sectors, (permuted sc (freeAxes C.ndim xc)).length = (freeAxes C.ndim xc).length :=
    fun sc hC => permuted_length _ _ (by
      intro x hx; rw [Arr.sector_length hsc hC]; exact (mem_freeAxes.mp hx).1)
  unfold triplesR IsTriple
  simp only [List.mem_flatMap, List.mem_map]
  constructor
  · rintro ⟨⟨sa, sbc⟩, hp, ⟨sb, sc⟩, hq, rfl⟩
    obtain ⟨hA, _, h1, h3⟩ := mem_storedPairs.mp hp
    obtain ⟨hB, hC, h2, hsbc⟩ := mem_storedPairs.mp hq
    simp only at hsbc h1 h3 ⊢
    subst hsbc
    rw [readBC_ax h sb _ (Arr.sector_length hsb hB)] at h1
    have := readBC_free h sb (permuted sc (freeAxes C.ndim xc)) (Arr.sector_length hsb hB)
    rw [hl sc hC] at this
    rw [I.ndim, this, ← List.append_assoc] at h3
    exact ⟨hA, hB, hC, h1, h2, h3⟩
  · obtain ⟨sa, sb, sc⟩ := t
    rintro ⟨hA, hB, hC, h1, h2, h3⟩
    simp only at hA hB hC h1 h2 h3
    have := readBC_free h sb (permuted sc (freeAxes C.ndim xc)) (Arr.sector_length hsb hB)
    rw [hl sc hC] at this
    refine ⟨(sa, permuted sb (freeAxes B.ndim xb2) ++ permuted sc (freeAxes C.ndim xc)),
      mem_storedPairs.mpr ⟨hA, I.mem_sectors.mpr ⟨sb, hB, sc, hC, h2, rfl⟩, ?_, ?_⟩,
      (sb, sc), mem_storedPairs.mpr ⟨hB, hC, h2, rfl⟩, rfl⟩
    · rw [readBC_ax h sb _ (Arr.sector_length hsb hB)]; exact h1
    · rw [I.ndim, this, ← List.append_assoc]; exact h3

theorem triplesL_nodup (hdAB : AB.sectors.Nodup) (hdA : A.sectors.Nodup) (hdB : B.sectors.Nodup)
    (hdC : C.sectors.Nodup) (s : Sector) : (triplesL A B C AB xa xb1 xb2 xc s).Nodup := by
  unfold triplesL
  rw [List.nodup_flatMap]
  constructor
  · intro p _
    refine (storedPairs_nodup _ _ _ _ _ hdA hdB).map ?_
    intro x y hxy
    simp only [Prod.mk.injEq] at hxy
    exact Prod.ext hxy.1 hxy.2.1
  · refine List.Pairwise.imp ?_ (storedPairs_nodup _ _ _ _ _ hdAB hdC)
    intro p p' hne
    simp only [Function.onFun, List.disjoint_left, List.mem_map, not_exists, not_and]
    rintro t ⟨q, hq, rfl⟩ q' hq' heq
    apply hne
    obtain ⟨_, _, _, e1⟩ := mem_storedPairs.mp hq
    obtain ⟨_, _, _, e2⟩ := mem_storedPairs.mp hq'
    simp only [Prod.mk.injEq] at heq
    apply Prod.ext
    · rw [← e1, ← e2, heq.1, heq.2.1]
    · exact heq.2.2.symm

theorem triplesR_nodup (hdBC : BC.sectors.Nodup) (hdA : A.sectors.Nodup) (hdB : B.sectors.Nodup)
    (hdC : C.sectors.Nodup) (s : Sector) : (triplesR A B C BC xa xb1 xb2 xc s).Nodup := by
  unfold triplesR
  rw [List.nodup_flatMap]
  constructor
  · intro p _
    refine (storedPairs_nodup _ _ _ _ _ hdB hdC).map ?_
    intro x y hxy
    simp only [Prod.mk.injEq] at hxy
    exact Prod.ext hxy.2.1 hxy.2.2
  · refine List.Pairwise.imp ?_ (storedPairs_nodup _ _ _ _ _ hdA hdBC)
    intro p p' hne
    simp only [Function.onFun, List.disjoint_left, List.mem_map, not_exists, not_and]
    rintro t ⟨q, hq, rfl⟩ q' hq' heq
    apply hne
    obtain ⟨_, _, _, e1⟩ := mem_storedPairs.mp hq
    obtain ⟨_, _, _, e2⟩ := mem_storedPairs.mp hq'
    simp only [Prod.mk.injEq] at heq
    apply Prod.ext
    · exact heq.1.symm
    · rw [← e1, ← e2, heq.2.1, heq.2.2]

end triples

/-! ### the second calls satisfy the weak guard -/

section adm
variable [AddMonoid R] [Mul R] [Neg R] [SignRing R]
variable {A B C AB BC : Arr R} {xa xb1 xb2 xc : List Nat} {ph : Int}

theorem admW_left (I : Inter A B xa xb1 AB ph) (hAB : Adm A B xa xb1) (hBC : Adm B C xb2 xc)
    (h : Mid B.ndim xb1 xb2) : AdmW AB C (axesAB A.ndim B.ndim xa xb1 xb2) xc := by
  refine ⟨I.valid, hBC.vb, I.fermi, hBC.fb, by rw [I.sym, hAB.sym, hBC.sym], ?_, axesAB_nodup h,
    hBC.nB, ?_, hBC.ltB⟩
  · refine commonB_prune_left (a := B) (xa := xb2) (axesAB_len h) ?_
      (commonB_of_contractibleB hBC.va hBC.ltA hBC.con)
    intro j hj
    obtain ⟨e1, e2, e3⟩ := axesAB_getD (nA := A.ndim) (xa := xa) h j hj
    have := I.leg_right _ e2
    rw [e3, ← e1] at this
    exact this
  · rw [I.ndim]; exact axesAB_lt h

theorem admW_right (I : Inter B C xb2 xc BC ph) (hAB : Adm A B xa xb1)
    (h : Mid B.ndim xb1 xb2) : AdmW A BC xa (axesBC B.ndim xb1 xb2) := by
  refine ⟨hAB.va, I.valid, hAB.fa, I.fermi, by rw [I.sym]; exact hAB.sym, ?_, hAB.nA,
    h.symm.pos_nodup, hAB.ltA, ?_⟩
  · refine commonB_prune_right (b := B) (xb := xb1) h.symm.pos_len ?_
      (commonB_of_contractibleB hAB.va hAB.ltA hAB.con)
    intro j hj
    have hjp : j < (positions (freeAxes B.ndim xb2) xb1).length := by rw [h.symm.pos_len]; exact hj
    have e2 : (positions (freeAxes B.ndim xb2) xb1).getD j 0 < (freeAxes B.ndim xb2).length := by
      rw [List.getD_eq_getElem?_getD, List.getElem?_eq_getElem hjp]
      exact h.symm.pos_lt _ (List.getElem_mem hjp)
    have e3 : (freeAxes B.ndim xb2).getD ((positions (freeAxes B.ndim xb2) xb1).getD j 0) 0
        = xb1.getD j 0 := by
      rw [← getD_permuted_ax (freeAxes B.ndim xb2) _ h.symm.pos_lt j hjp 0, h.symm.pos_spec]
    have := I.leg_left _ e2
    rw [e3] at this
    exact this
  · intro i hi
    rw [I.ndim]
    have := h.symm.pos_lt i hi
    omega

end adm

/-! ### sectors of the two final results -/

section sectors
variable [AddMonoid R] [Mul R] [Neg R]
variable {A B C AB BC : Arr R} {xa xb1 xb2 xc : List Nat} {ph : Int}

theorem mem_keys_iff (a b : Arr R) (l xa xb r : List Nat) (s : Sector) :
    s ∈ (tdKeys a.sectors b.sectors l xa xb r).eraseDups ↔ ∃ p, p ∈ storedPairs a b l xa xb r s := by
  rw [List.mem_eraseDups, mem_tdKeys]
  constructor
  · rintro ⟨x, hx, y, hy, h1, h2⟩
    exact ⟨(x, y), mem_storedPairs.mpr ⟨hx, hy, h1.symm, h2.symm⟩⟩
  · rintro ⟨⟨x, y⟩, hp⟩
    obtain ⟨hx, hy, h1, h2⟩ := mem_storedPairs.mp hp
    exact ⟨x, hx, y, hy, h1.symm, h2.symm⟩

theorem keysL_iff (I : Inter A B xa xb1 AB ph) (hsa : A.shapesOk) (hsb : B.shapesOk)
    (h : Mid B.ndim xb1 xb2) (s : Sector) :
    s ∈ (tdKeys AB.sectors C.sectors (freeAxes AB.ndim (axesAB A.ndim B.ndim xa xb1 xb2))
        (axesAB A.ndim B.ndim xa xb1 xb2) xc (freeAxes C.ndim xc)).eraseDups
      ↔ ∃ t, IsTriple A B C xa xb1 xb2 xc s t := by
  rw [mem_keys_iff]
  constructor
  · rintro ⟨⟨sab, sc⟩, hp⟩
    obtain ⟨hsab, _, _, _⟩ := mem_storedPairs.mp hp
    obtain ⟨sa, hA, sb, hB, h1, e⟩ := I.mem_sectors.mp hsab
    refine ⟨(sa, sb, sc), (mem_triplesL I hsa hsb h).mp ?_⟩
    unfold triplesL
    exact List.mem_flatMap.mpr ⟨(sab, sc), hp, List.mem_map.mpr
      ⟨(sa, sb), mem_storedPairs.mpr ⟨hA, hB, h1, e.symm⟩, rfl⟩⟩
  · rintro ⟨t, ht⟩
    have := (mem_triplesL (C := C) (xc := xc) I hsa hsb h).mpr ht
    unfold triplesL at this
    obtain ⟨p, hp, _⟩ := List.mem_flatMap.mp this
    exact ⟨p, hp⟩

theorem keysR_iff (I : Inter B C xb2 xc BC ph) (hsb : B.shapesOk) (hsc : C.shapesOk)
    (h : Mid B.ndim xb1 xb2) (s : Sector) :
    s ∈ (tdKeys A.sectors BC.sectors (freeAxes A.ndim xa) xa (axesBC B.ndim xb1 xb2)
        (freeAxes BC.ndim (axesBC B.ndim xb1 xb2))).eraseDups
      ↔ ∃ t, IsTriple A B C xa xb1 xb2 xc s t := by
  rw [mem_keys_iff]
  constructor
  · rintro ⟨⟨sa, sbc⟩, hp⟩
    obtain ⟨_, hsbc, _, _⟩ := mem_storedPairs.mp hp
    obtain ⟨sb, hB, sc, hC, h1, e⟩ := I.mem_sectors.mp hsbc
    refine ⟨(sa, sb, sc), (mem_triplesR I hsb hsc h).mp ?_⟩
    unfold triplesR
    exact List.mem_flatMap.mpr ⟨(sa, sbc), hp, List.mem_map.mpr
      ⟨(sb, sc), mem_storedPairs.mpr ⟨hB, hC, h1, e.symm⟩, rfl⟩⟩
  · rintro ⟨t, ht⟩
    have := (mem_triplesR (A := A) (xa := xa) I hsb hsc h).mpr ht
    unfold triplesR at this
    obtain ⟨p, hp, _⟩ := List.mem_flatMap.mp this
    exact ⟨p, hp⟩

end sectors

/-! ### the boxes of the final address in the two (pruned) result frames -/

section boxes
variable [AddMonoid R] [Mul R] [Neg R]
variable {A B C AB BC : Arr R} {xa xb1 xb2 xc : List Nat} {ph : Int}

/-- the three parts of a free address, given a witness triple -/
theorem FreeAddr.parts {LA LM LC : Sector} {oA oM oC : List Nat}
    (fa : FreeAddr A B C xa xb1 xb2 xc LA LM LC oA oM oC)
    (hsa : A.shapesOk) (hsb : B.shapesOk) (hsc : C.shapesOk)
    {t : Sector × Sector × Sector} (ht : IsTriple A B C xa xb1 xb2 xc (LA ++ LM ++ LC) t) :
    permuted t.1 (freeAxes A.ndim xa) = LA ∧ permuted t.2.1 (freeAxes B.ndim (xb1 ++ xb2)) = LM
      ∧ permuted t.2.2 (freeAxes C.ndim xc) = LC
      ∧ inBox (permuted (Arr.blockShapeD A.indices t.1) (freeAxes A.ndim xa)) oA = true
      ∧ inBox (permuted (Arr.blockShapeD B.indices t.2.1) (freeAxes B.ndim (xb1 ++ xb2))) oM = true
      ∧ inBox (permuted (Arr.blockShapeD C.indices t.2.2) (freeAxes C.ndim xc)) oC = true := by
  obtain ⟨hA, hB, hC, _, _, h3⟩ := ht
  have hlA : (permuted t.1 (freeAxes A.ndim xa)).length = (freeAxes A.ndim xa).length :=
    permuted_length _ _ (by
      intro x hx; rw [Arr.sector_length hsa hA]; exact (mem_freeAxes.mp hx).1)
  have hlM : (permuted t.2.1 (freeAxes B.ndim (xb1 ++ xb2))).length
      = (freeAxes B.ndim (xb1 ++ xb2)).length :=
    permuted_length _ _ (by
      intro x hx; rw [Arr.sector_length hsb hB]; exact (mem_freeAxes.mp hx).1)
  obtain ⟨e1, e2⟩ := List.append_inj h3 (by
    rw [List.length_append, List.length_append, hlA, hlM, fa.lA, fa.lM])
  obtain ⟨e3, e4⟩ := List.append_inj e1 (by rw [hlA, fa.lA])
  refine ⟨e3, e4, e2, ?_, ?_, ?_⟩
  · have := fa.bA
    rw [← e3, without_eq_permuted_freeAxes] at this
    have e5 : A.indices.length = A.ndim := rfl
    rw [e5, shapeD_free hsa hA _ (fun x hx => (mem_freeAxes.mp hx).1)] at this
    exact this
  · have := fa.bM
    rw [← e4, shapeD_free hsb hB _ (fun x hx => (mem_freeAxes.mp hx).1)] at this
    exact this
  · have := fa.bC
    rw [← e2, without_eq_permuted_freeAxes] at this
    have e5 : C.indices.length = C.ndim := rfl
    rw [e5, shapeD_free hsc hC _ (fun x hx => (mem_freeAxes.mp hx).1)] at this
    exact this

theorem freeAB_len (I : Inter A B xa xb1 AB ph) (h : Mid B.ndim xb1 xb2) :
    (freeAxes AB.ndim (axesAB A.ndim B.ndim xa xb1 xb2)).length
      = (freeAxes A.ndim xa).length + (freeAxes B.ndim (xb1 ++ xb2)).length := by
  rw [I.ndim, freeAB, List.length_append, List.length_range, List.length_map, h.free_len]

/-- the final address lies in the box the first route's refinement theorem asks for -/
theorem boxL (I : Inter A B xa xb1 AB ph) (hsa : A.shapesOk) (hsb : B.shapesOk) (hsc : C.shapesOk)
    (h : Mid B.ndim xb1 xb2) {LA LM LC : Sector} {oA oM oC : List Nat}
    (fa : FreeAddr A B C xa xb1 xb2 xc LA LM LC oA oM oC)
    {t : Sector × Sector × Sector} (ht : IsTriple A B C xa xb1 xb2 xc (LA ++ LM ++ LC) t) :
    inBox (Arr.blockShapeD (without AB.indices (axesAB A.ndim B.ndim xa xb1 xb2)
      ++ without C.indices xc) (LA ++ LM ++ LC)) ((oA ++ oM) ++ oC) = true := by
  obtain ⟨p1, p2, p3, b1, b2, b3⟩ := fa.parts hsa hsb hsc ht
  obtain ⟨sa, sb, sc⟩ := t
  obtain ⟨hA, hB, hC, h1, _, _⟩ := ht
  simp only at hA hB hC h1 p1 p2 p3 b1 b2 b3
  obtain ⟨shpA, hA1, hA2, hA3, hA4⟩ := shape_of_mem hsa hA
  obtain ⟨shpB, hB1, hB2, hB3, hB4⟩ := shape_of_mem hsb hB
  obtain ⟨shpC, hC1, hC2, hC3, hC4⟩ := shape_of_mem hsc hC
  have hlsA : (permuted (Arr.blockShapeD A.indices sa) (freeAxes A.ndim xa)).length
      = (freeAxes A.ndim xa).length :=
    permuted_length _ _ (by intro x hx; rw [hA2, hA3]; exact (mem_freeAxes.mp hx).1)
  have hlA : (permuted sa (freeAxes A.ndim xa)).length = (freeAxes A.ndim xa).length :=
    permuted_length _ _ (by intro x hx; rw [hA4]; exact (mem_freeAxes.mp hx).1)
  have hAB := blockShape?_permuted (I.shape hsa hsb hA hB h1)
    (freeAxes AB.ndim (axesAB A.ndim B.ndim xa xb1 xb2)) (fun x hx => (mem_freeAxes.mp hx).1)
  rw [I.ndim, readAB_free h _ sb hlA hB4, readAB_free h _ _ hlsA (by rw [hB2, hB3]), ← I.ndim] at hAB
  have hCC := blockShape?_permuted hC1 (freeAxes C.ndim xc) (fun x hx => (mem_freeAxes.mp hx).1)
  have e5 : AB.indices.length = AB.ndim := rfl
  have e6 : C.indices.length = C.ndim := rfl
  rw [without_eq_permuted_freeAxes, without_eq_permuted_freeAxes, e5, e6, Arr.blockShapeD,
    ← p1, ← p2, ← p3, blockShape?_append hAB hCC]
  show inBox ((permuted (Arr.blockShapeD A.indices sa) (freeAxes A.ndim xa)
    ++ permuted (Arr.blockShapeD B.indices sb) (freeAxes B.ndim (xb1 ++ xb2))) ++ permuted shpC _) _ = true
  have hlsM : (permuted (Arr.blockShapeD B.indices sb) (freeAxes B.ndim (xb1 ++ xb2))).length
      = (freeAxes B.ndim (xb1 ++ xb2)).length :=
    permuted_length _ _ (by intro x hx; rw [hB2, hB3]; exact (mem_freeAxes.mp hx).1)
  rw [inBox_append (by rw [List.length_append, List.length_append, hlsA, hlsM, fa.loA, fa.loM]),
    inBox_append (by rw [hlsA, fa.loA]), b1, b2]
  rw [hC2] at b3
  rw [b3]; rfl

/-- … and in the box the second route's refinement theorem asks for -/
theorem boxR (I : Inter B C xb2 xc BC ph) (hsa : A.shapesOk) (hsb : B.shapesOk) (hsc : C.shapesOk)
    (h : Mid B.ndim xb1 xb2) {LA LM LC : Sector} {oA oM oC : List Nat}
    (fa : FreeAddr A B C xa xb1 xb2 xc LA LM LC oA oM oC)
    {t : Sector × Sector × Sector} (ht : IsTriple A B C xa xb1 xb2 xc (LA ++ LM ++ LC) t) :
    inBox (Arr.blockShapeD (without A.indices xa
      ++ without BC.indices (axesBC B.ndim xb1 xb2)) (LA ++ LM ++ LC)) (oA ++ (oM ++ oC)) = true := by
  obtain ⟨p1, p2, p3, b1, b2, b3⟩ := fa.parts hsa hsb hsc ht
  obtain ⟨sa, sb, sc⟩ := t
  obtain ⟨hA, hB, hC, _, h2, _⟩ := ht
  simp only at hA hB hC h2 p1 p2 p3 b1 b2 b3
  obtain ⟨shpA, hA1, hA2, hA3, hA4⟩ := shape_of_mem hsa hA
  obtain ⟨shpB, hB1, hB2, hB3, hB4⟩ := shape_of_mem hsb hB
  obtain ⟨shpC, hC1, hC2, hC3, hC4⟩ := shape_of_mem hsc hC
  have hlsC : (permuted (Arr.blockShapeD C.indices sc) (freeAxes C.ndim xc)).length
      = (freeAxes C.ndim xc).length :=
    permuted_length _ _ (by intro x hx; rw [hC2, hC3]; exact (mem_freeAxes.mp hx).1)
  have hlC : (permuted sc (freeAxes C.ndim xc)).length = (freeAxes C.ndim xc).length :=
    permuted_length _ _ (by intro x hx; rw [hC4]; exact (mem_freeAxes.mp hx).1)
  have hBC := blockShape?_permuted (I.shape hsb hsc hB hC h2)
    (freeAxes BC.ndim (axesBC B.ndim xb1 xb2)) (fun x hx => (mem_freeAxes.mp hx).1)
  have r1 := readBC_free h sb (permuted sc (freeAxes C.ndim xc)) hB4
  have r2 := readBC_free h (Arr.blockShapeD B.indices sb)
    (permuted (Arr.blockShapeD C.indices sc) (freeAxes C.ndim xc)) (by rw [hB2, hB3])
  rw [hlC] at r1
  rw [hlsC] at r2
  rw [I.ndim, r1, r2, ← I.ndim] at hBC
  have hAA := blockShape?_permuted hA1 (freeAxes A.ndim xa) (fun x hx => (mem_freeAxes.mp hx).1)
  have e5 : BC.indices.length = BC.ndim := rfl
  have e6 : A.indices.length = A.ndim := rfl
  rw [without_eq_permuted_freeAxes, without_eq_permuted_freeAxes, e5, e6, Arr.blockShapeD,
    List.append_assoc LA LM LC, ← p1, ← p2, ← p3, blockShape?_append hAA hBC]
  show inBox (permuted shpA _ ++ (permuted (Arr.blockShapeD B.indices sb) (freeAxes B.ndim (xb1 ++ xb2))
    ++ permuted (Arr.blockShapeD C.indices sc) (freeAxes C.ndim xc))) _ = true
  have hlsA : (permuted shpA (freeAxes A.ndim xa)).length = (freeAxes A.ndim xa).length :=
    permuted_length _ _ (by intro x hx; rw [hA3]; exact (mem_freeAxes.mp hx).1)
  have hlsM : (permuted (Arr.blockShapeD B.indices sb) (freeAxes B.ndim (xb1 ++ xb2))).length
      = (freeAxes B.ndim (xb1 ++ xb2)).length :=
    permuted_length _ _ (by intro x hx; rw [hB2, hB3]; exact (mem_freeAxes.mp hx).1)
  rw [hA2] at b1
  rw [inBox_append (by rw [hlsA, fa.loA]), inBox_append (by rw [hlsM, fa.loM]), b1, b2, b3]
  rfl

end boxes

/-! ### S7 for a chain -/

section final
variable [AddCommMonoid R] [Mul R] [Neg R] [SignRing R] [AssocLaws R]

/-- **associativity of `tensordotF` for a chain `A–B–C`** (see `Props/C04c.lean`) -/
theorem tdotF_assoc_chain (A B C : Arr R) (xa xb1 xb2 xc : List Nat)
    (hA : A.validB = true) (hB : B.validB = true) (hC : C.validB = true)
    (hfA : A.fermi = true) (hfB : B.fermi = true) (hfC : C.fermi = true)
    (h1 : ValidP.tdotAdmissibleB A B xa xb1 = true) (h2 : ValidP.tdotAdmissibleB B C xb2 xc = true)
    (hn : (xb1 ++ xb2).Nodup)
    (hd : (A.oddpos ++ B.oddpos ++ C.oddpos).Pairwise (fun x y => x.1 ≠ y.1)) :
    ∃ AB BC c1 c2 : Arr R,
      A.tensordotF B (.pair (xa.map Int.ofNat) (xb1.map Int.ofNat)) .blockwise = .ok AB
      ∧ AB.tensordotF C (.pair ((axesAB A.ndim B.ndim xa xb1 xb2).map Int.ofNat) (xc.map Int.ofNat))
          .blockwise = .ok c1
      ∧ B.tensordotF C (.pair (xb2.map Int.ofNat) (xc.map Int.ofNat)) .blockwise = .ok BC
      ∧ A.tensordotF BC (.pair (xa.map Int.ofNat) ((axesBC B.ndim xb1 xb2).map Int.ofNat))
          .blockwise = .ok c2
      ∧ c2.oddpos = c1.oddpos ∧ c2.charge = c1.charge ∧ c2.sym = c1.sym ∧ c2.fermi = c1.fermi
      ∧ (∀ s, s ∈ c1.sectors ↔ ∃ t, IsTriple A B C xa xb1 xb2 xc s t)
      ∧ (∀ s, s ∈ c2.sectors ↔ s ∈ c1.sectors)
      ∧ c2.indices = c1.indices
      ∧ c1.indices = dropUnused (without A.indices xa
          ++ (permuted B.indices (freeAxes B.ndim (xb1 ++ xb2)) ++ without C.indices xc)) c1.sectors
      ∧ ∀ (LA LM LC : Sector) (oA oM oC : List Nat),
          FreeAddr A B C xa xb1 xb2 xc LA LM LC oA oM oC →
          c2.elem (LA ++ LM ++ LC) (oA ++ oM ++ oC) = c1.elem (LA ++ LM ++ LC) (oA ++ oM ++ oC) := by
  have hAB := Adm.of hA hB hfA hfB h1
  have hBC := Adm.of hB hC hfB hfC h2
  have hmid : Mid B.ndim xb1 xb2 := Mid.of hn (by
    intro i hi
    rcases List.mem_append.mp hi with h | h
    · exact hAB.ltB i h
    · exact hBC.ltA i h)
  have hsa := Arr.shapesOk_of_validB hA
  have hsb := Arr.shapesOk_of_validB hB
  have hsc := Arr.shapesOk_of_validB hC
  -- the four label sorts
  have hd_ab : OddposP.LabelsDistinct (A.oddpos ++ B.oddpos) := (List.pairwise_append.1 hd).1
  have hd' : OddposP.LabelsDistinct (A.oddpos ++ (B.oddpos ++ C.oddpos)) := by
    rw [← List.append_assoc]; exact hd
  have hd_bc : OddposP.LabelsDistinct (B.oddpos ++ C.oddpos) := (List.pairwise_append.1 hd').2.1
  obtain ⟨lab, p1, _, m1⟩ := OddposP.mergeOddpos_spec A.parity A.oddpos B.oddpos hd_ab
  have hd_abc : OddposP.LabelsDistinct (lab ++ C.oddpos) :=
    OddposP.LabelsDistinct.perm hd (List.Perm.append_right _ p1.symm)
  obtain ⟨out1, _, _, m2⟩ := OddposP.mergeOddpos_spec (xor A.parity B.parity) lab C.oddpos hd_abc
  obtain ⟨lbc, p3, _, m3⟩ := OddposP.mergeOddpos_spec B.parity B.oddpos C.oddpos hd_bc
  have hd_a_bc : OddposP.LabelsDistinct (A.oddpos ++ lbc) :=
    OddposP.LabelsDistinct.perm hd' (List.Perm.append_left _ p3.symm)
  obtain ⟨out2, _, _, m4⟩ := OddposP.mergeOddpos_spec A.parity A.oddpos lbc hd_a_bc
  obtain ⟨lab', sab, lbc', sbc, out, s1, s2, n1, n2, n3, n4, hs⟩ :=
    OddposP.oddpos_assoc' A.parity B.parity A.oddpos B.oddpos C.oddpos hd
  rw [m1] at n1
  simp only [Except.ok.injEq, Prod.mk.injEq] at n1
  obtain ⟨rfl, rfl⟩ := n1
  rw [m2] at n2
  simp only [Except.ok.injEq, Prod.mk.injEq] at n2
  obtain ⟨rfl, rfl⟩ := n2
  rw [m3] at n3
  simp only [Except.ok.injEq, Prod.mk.injEq] at n3
  obtain ⟨rfl, rfl⟩ := n3
  rw [m4] at n4
  simp only [Except.ok.injEq, Prod.mk.injEq] at n4
  obtain ⟨rfl, rfl⟩ := n4
  -- first calls
  obtain ⟨call1, I1, o1⟩ := inter_of_call A B xa xb1 hA hB hfA hfB h1 _ m1 (sgn_cases _)
  obtain ⟨call3, I2, o2⟩ := inter_of_call B C xb2 xc hB hC hfB hfC h2 _ m3 (sgn_cases _)
  generalize hABdef : finish (coreT A B xa xb1) _ = AB at call1 I1 o1
  generalize hBCdef : finish (coreT B C xb2 xc) _ = BC at call3 I2 o2
  simp only at o1 o2 I1 I2
  have W1 := admW_left I1 hAB hBC hmid
  have W2 := admW_right I2 hAB hmid
  have hparAB : AB.parity = xor A.parity B.parity := by
    unfold Arr.parity
    rw [I1.sym, I1.charge, ValidP.parity_combine_pair', hAB.sym]
  -- second calls
  have call2 := tensordotF_eq_core_w AB C _ xc W1
  rw [hparAB, o1, m2] at call2
  have call4 := tensordotF_eq_core_w A BC xa _ W2
  rw [o2, m4] at call4
  have F1 := coreT_frame_w AB C _ xc W1
  have F2 := coreT_frame_w A BC xa _ W2
  obtain ⟨f1, f2, f3, f4, f5, f6⟩ := finish_fields (coreT AB C (axesAB A.ndim B.ndim xa xb1 xb2) xc)
    (out2, sgn ((xor A.parity B.parity).toNat * C.oddpos.length
      + invR OddposP.oddR (lab ++ C.oddpos)))
  obtain ⟨g1, g2, g3, g4, g5, g6⟩ := finish_fields (coreT A BC xa (axesBC B.ndim xb1 xb2))
    (out2, sgn (A.parity.toNat * lbc.length + invR OddposP.oddR (A.oddpos ++ lbc)))
  have hsec1 : ∀ s, s ∈ (finish (coreT AB C (axesAB A.ndim B.ndim xa xb1 xb2) xc)
      (out2, sgn ((xor A.parity B.parity).toNat * C.oddpos.length
        + invR OddposP.oddR (lab ++ C.oddpos)))).sectors
      ↔ ∃ t, IsTriple A B C xa xb1 xb2 xc s t := by
    intro s
    rw [f5, F1.sectors]
    exact keysL_iff I1 hsa hsb hmid s
  have hsec2 : ∀ s, s ∈ (finish (coreT A BC xa (axesBC B.ndim xb1 xb2))
      (out2, sgn (A.parity.toNat * lbc.length + invR OddposP.oddR (A.oddpos ++ lbc)))).sectors
      ↔ ∃ t, IsTriple A B C xa xb1 xb2 xc s t := by
    intro s
    rw [g5, F2.sectors]
    exact keysR_iff I2 hsb hsc hmid s
  refine ⟨AB, BC, _, _, call1, call2, call3, call4, by rw [f6, g6], ?_, ?_, ?_, hsec1,
    fun s => (hsec2 s).trans (hsec1 s).symm, ?_, ?_, ?_⟩
  · rw [g1, f1, F1.charge, F2.charge, I1.sym, I1.charge, I2.charge, ← hAB.sym]
    exact (C17.combine_assoc A.sym A.charge B.charge C.charge ((ValidP.validB_iff A).mp hA).chg
      (by rw [hAB.sym, hBC.sym]; exact ((ValidP.validB_iff C).mp hC).chg)).symm
  · rw [g2, f2, F1.sym, F2.sym, I1.sym]
  · rw [g3, f3, F1.fermi, F2.fermi, I1.fermi, hfA]
  · rw [g4, f4, idxL I1 hmid _ F1, idxR I2 hsa hmid _ F2, ← f5, ← g5]
    exact dropUnused_congr_mem _ (fun s => (hsec2 s).trans (hsec1 s).symm)
  · rw [f4, idxL I1 hmid _ F1, ← f5]
  · intro LA LM LC oA oM oC fa
    by_cases hex : ∃ t, IsTriple A B C xa xb1 xb2 xc (LA ++ LM ++ LC) t
    · obtain ⟨t, ht⟩ := hex
      rw [finish_elem _ _ (coreFrame_signOk F1), finish_elem _ _ (coreFrame_signOk F2),
        F1.elem _ (oA ++ oM) oC (by
          rw [freeAB_len I1 hmid, List.length_append, fa.loA, fa.loM])
          (boxL I1 hsa hsb hsc hmid fa ht),
        route_left I1 hAB hmid fa]
      rw [List.append_assoc oA oM oC, F2.elem _ oA (oM ++ oC) fa.loA (boxR I2 hsa hsb hsc hmid fa ht),
        route_right I2 hAB hBC hmid fa]
      simp only []
      rw [sgnI_comp (sgn_cases _) (sgn_cases _), sgnI_comp (sgn_cases _) (sgn_cases _)]
      have hperm : (triplesR A B C BC xa xb1 xb2 xc (LA ++ LM ++ LC)).Perm
          (triplesL A B C AB xa xb1 xb2 xc (LA ++ LM ++ LC)) := by
        rw [List.perm_ext_iff_of_nodup
          (triplesR_nodup (allDistinct_iff_nodup.mp (Arr.allDistinct_of_validB I2.valid))
            (allDistinct_iff_nodup.mp (Arr.allDistinct_of_validB hA))
            (allDistinct_iff_nodup.mp (Arr.allDistinct_of_validB hB))
            (allDistinct_iff_nodup.mp (Arr.allDistinct_of_validB hC)) _)
          (triplesL_nodup (allDistinct_iff_nodup.mp (Arr.allDistinct_of_validB I1.valid))
            (allDistinct_iff_nodup.mp (Arr.allDistinct_of_validB hA))
            (allDistinct_iff_nodup.mp (Arr.allDistinct_of_validB hB))
            (allDistinct_iff_nodup.mp (Arr.allDistinct_of_validB hC)) _)]
        intro t'
        exact (mem_triplesR I2 hsb hsc hmid).trans (mem_triplesL I1 hsa hsb hmid).symm
      rw [(hperm.map _).sum_eq]
      congr 1
      rw [Int.mul_comm, ← hs, Int.mul_comm]
    · rw [Arr.elem_of_not_mem (fun hm => hex ((hsec1 _).mp hm)),
        Arr.elem_of_not_mem (fun hm => hex ((hsec2 _).mp hm))]

end final

/-! ### the value clause, sector by sector in the result's own (pruned) frame -/

section atsector

theorem inBox_split3 {s1 s2 s3 o : List Nat} (h : inBox (s1 ++ (s2 ++ s3)) o = true) :
    ∃ o1 o2 o3, o = o1 ++ o2 ++ o3 ∧ o1.length = s1.length ∧ o2.length = s2.length
      ∧ o3.length = s3.length
      ∧ inBox s1 o1 = true ∧ inBox s2 o2 = true ∧ inBox s3 o3 = true := by
  have hl := inBox_length h
  simp only [List.length_append] at hl
  have e1 : o = o.take s1.length ++ o.drop s1.length := (List.take_append_drop _ _).symm
  have l1 : (o.take s1.length).length = s1.length := by rw [List.length_take]; omega
  rw [e1, inBox_append l1, Bool.and_eq_true] at h
  obtain ⟨b1, h⟩ := h
  have e2 : o.drop s1.length = (o.drop s1.length).take s2.length ++ (o.drop s1.length).drop s2.length :=
    (List.take_append_drop _ _).symm
  have l2 : ((o.drop s1.length).take s2.length).length = s2.length := by
    rw [List.length_take, List.length_drop]; omega
  rw [e2, inBox_append l2, Bool.and_eq_true] at h
  obtain ⟨b2, b3⟩ := h
  refine ⟨_, _, _, ?_, l1, l2, ?_, b1, b2, b3⟩
  · rw [List.append_assoc, ← e2, ← e1]
  · rw [List.length_drop, List.length_drop]; omega

variable [Zero R] [Neg R]

/-- from the address-by-address clause to "for every stored sector and every offset in its
    block" (and `0 = 0` elsewhere) -/
theorem elem_eq_of_sector (A B C c1 c2 : Arr R) (xa xb1 xb2 xc : List Nat)
    (hsa : A.shapesOk) (hsb : B.shapesOk) (hsc : C.shapesOk)
    (hidx : c1.indices = dropUnused (without A.indices xa
      ++ (permuted B.indices (freeAxes B.ndim (xb1 ++ xb2)) ++ without C.indices xc)) c1.sectors)
    (hsec1 : ∀ s, s ∈ c1.sectors ↔ ∃ t, IsTriple A B C xa xb1 xb2 xc s t)
    (hsec2 : ∀ s, s ∈ c2.sectors ↔ s ∈ c1.sectors)
    (helem : ∀ (LA LM LC : Sector) (oA oM oC : List Nat),
      FreeAddr A B C xa xb1 xb2 xc LA LM LC oA oM oC →
      c2.elem (LA ++ LM ++ LC) (oA ++ oM ++ oC) = c1.elem (LA ++ LM ++ LC) (oA ++ oM ++ oC))
    (s : Sector) (o : List Nat)
    (ho : s ∈ c1.sectors → inBox (Arr.blockShapeD c1.indices s) o = true) :
    c2.elem s o = c1.elem s o := by
  by_cases hs : s ∈ c1.sectors
  · have hbox := ho hs
    obtain ⟨⟨sa, sb, sc⟩, hA, hB, hC, _, _, h3⟩ := (hsec1 s).mp hs
    simp only at hA hB hC h3
    obtain ⟨shpA, hA1, hA2, hA3, hA4⟩ := shape_of_mem hsa hA
    obtain ⟨shpB, hB1, hB2, hB3, hB4⟩ := shape_of_mem hsb hB
    obtain ⟨shpC, hC1, hC2, hC3, hC4⟩ := shape_of_mem hsc hC
    have qA := blockShape?_permuted hA1 (freeAxes A.ndim xa) (fun x hx => (mem_freeAxes.mp hx).1)
    have qB := blockShape?_permuted hB1 (freeAxes B.ndim (xb1 ++ xb2))
      (fun x hx => (mem_freeAxes.mp hx).1)
    have qC := blockShape?_permuted hC1 (freeAxes C.ndim xc) (fun x hx => (mem_freeAxes.mp hx).1)
    have eA : A.indices.length = A.ndim := rfl
    have eC : C.indices.length = C.ndim := rfl
    have wA : without A.indices xa = permuted A.indices (freeAxes A.ndim xa) := by
      rw [without_eq_permuted_freeAxes, eA]
    have wC : without C.indices xc = permuted C.indices (freeAxes C.ndim xc) := by
      rw [without_eq_permuted_freeAxes, eC]
    rw [hidx, Arr.blockShapeD, ValidP.dropUnused_blockShape _ _ _ hs, ← h3, List.append_assoc,
      wA, wC, blockShape?_append qA (blockShape?_append qB qC)] at hbox
    obtain ⟨oA, oM, oC, rfl, l1, l2, l3, b1, b2, b3⟩ := inBox_split3 hbox
    have pl : ∀ {z : List Nat} {n : Nat} (hz : z.length = n) (F : List Nat),
        (∀ x ∈ F, x < n) → (permuted z F).length = F.length := by
      intro z n hz F hF
      exact permuted_length _ _ (by rw [hz]; exact hF)
    have plS : ∀ {z : Sector} {n : Nat} (hz : z.length = n) (F : List Nat),
        (∀ x ∈ F, x < n) → (permuted z F).length = F.length := by
      intro z n hz F hF
      exact permuted_length _ _ (by rw [hz]; exact hF)
    rw [← h3]
    apply helem
    refine ⟨plS hA4 _ (fun x hx => (mem_freeAxes.mp hx).1), plS hB4 _ (fun x hx => (mem_freeAxes.mp hx).1),
      by rw [l1, pl hA3 _ (fun x hx => (mem_freeAxes.mp hx).1)],
      by rw [l2, pl hB3 _ (fun x hx => (mem_freeAxes.mp hx).1)],
      by rw [l3, pl hC3 _ (fun x hx => (mem_freeAxes.mp hx).1)], ?_, ?_, ?_⟩
    · rw [wA, Arr.blockShapeD, qA]; exact b1
    · rw [Arr.blockShapeD, qB]; exact b2
    · rw [wC, Arr.blockShapeD, qC]; exact b3
  · rw [Arr.elem_of_not_mem hs, Arr.elem_of_not_mem (fun h => hs ((hsec2 s).mp h))]

end atsector

/-! ### dense form -/

section dense
variable [Zero R] [Neg R] [Lazy.LawfulNeg R]

/-- equal index tables (with distinct charges) and equal values on every block give the same
    `to_dense` -/
theorem toDenseF_eq_of (c1 c2 : Arr R) (hidx : c2.indices = c1.indices)
    (hnd : ∀ ix ∈ c1.indices, (ix.cm.map (·.1)).Nodup)
    (h : ∀ (s : Sector) (o : List Nat),
      (s ∈ c1.sectors → inBox (Arr.blockShapeD c1.indices s) o = true) → c2.elem s o = c1.elem s o) :
    c2.toDenseF = c1.toDenseF := by
  unfold Arr.toDenseF Arr.toDenseA
  have i1 : c1.phaseSync.indices = c1.indices := rfl
  have i2 : c2.phaseSync.indices = c1.indices := hidx
  have s1 : c1.phaseSync.shape = c1.shape := rfl
  have s2 : c2.phaseSync.shape = c1.shape := by unfold Arr.shape; rw [i2]
  rw [i1, i2, s1, s2]
  split
  · rfl
  · congr 1
    apply Blk.ofFn_congr
    intro p hp
    have hpl : p.length = c1.indices.length := by
      have := inBox_length hp
      unfold Arr.shape at this
      simpa using this
    cases hloc : Arr.locateAll c1.indices p with
    | none => rfl
    | some so =>
      obtain ⟨sec, off⟩ := so
      simp only [Bool.false_eq_true, if_false]
      rw [Lazy.phaseSync_elem, Lazy.phaseSync_elem]
      apply h
      intro _
      obtain ⟨shp, hshp⟩ := blockShape?_of_locateAll hpl hloc
      rw [Arr.blockShapeD, hshp]
      exact Arr.locateAll_inBox hnd hpl hloc hshp

end dense

end AssocP
end SymmModel
