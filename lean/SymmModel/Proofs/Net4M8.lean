/-
  SymmModel.Proofs.Net4M8 — the five bracketings of a four-tensor network (K4 bonds) with, at every
  one of the three calls, BOTH an operand-order flag (`callS`, C04h) and a contraction mode:
  `routeSM1 … routeSM5`.  Every route succeeds; its result is a zero-padded copy (`PadA`) of the
  blockwise route with the same flags, which is `Eqv` to the plain blockwise left-nested result.
  Namespace `SymmModel.Net4P`.
-/
import SymmModel.Proofs.Net4M7

namespace SymmModel
namespace Net4P
open TdotP GradedP RoutesP KoszulP AssocP Assoc2P Assoc3P Assoc4P Assoc5P
set_option linter.unusedSectionVars false

variable {R : Type}

section routes
variable [Zero R] [Add R] [Mul R] [Neg R]
variable (A B C D : Arr R) (ab ac ad ba bc bd ca cb cd da db dc : List Nat)

/-- `((A·B)·C)·D`, call `i` with flag `fi` and mode `mi` -/
def routeSM1 (f1 f2 f3 : Bool) (m1 m2 m3 : TdotMode) : Except Err (Arr R) :=
  (callSM m1 f1 A B ab ba).bind fun AB =>
  (callSM m2 f2 AB C (Assoc2P.axesAB A.ndim B.ndim ab ac ba bc) (ca ++ cb)).bind fun ABC =>
  callSM m3 f3 ABC D (axesABC_D A B C ab ac ad ba bc bd ca cb cd) ((da ++ db) ++ dc)

/-- `(A·(B·C))·D` -/
def routeSM2 (f1 f2 f3 : Bool) (m1 m2 m3 : TdotMode) : Except Err (Arr R) :=
  (callSM m1 f1 B C bc cb).bind fun BC =>
  (callSM m2 f2 A BC (ab ++ ac) (Assoc2P.axesBC B.ndim C.ndim ba bc cb ca)).bind fun ABC =>
  callSM m3 f3 ABC D (axesABC_D A B C ab ac ad ba bc bd ca cb cd) ((da ++ db) ++ dc)

/-- `(A·B)·(C·D)` -/
def routeSM3 (f1 f2 f3 : Bool) (m1 m2 m3 : TdotMode) : Except Err (Arr R) :=
  (callSM m1 f1 A B ab ba).bind fun AB =>
  (callSM m2 f2 C D cd dc).bind fun CD =>
  callSM m3 f3 AB CD
    (Assoc2P.axesAB A.ndim B.ndim ab ac ba bc ++ Assoc2P.axesAB A.ndim B.ndim ab ad ba bd)
    (Assoc2P.axesBC C.ndim D.ndim (ca ++ cb) cd dc (da ++ db))

/-- `A·((B·C)·D)` -/
def routeSM4 (f1 f2 f3 : Bool) (m1 m2 m3 : TdotMode) : Except Err (Arr R) :=
  (callSM m1 f1 B C bc cb).bind fun BC =>
  (callSM m2 f2 BC D (Assoc2P.axesAB B.ndim C.ndim bc bd cb cd) (db ++ dc)).bind fun BCD =>
  callSM m3 f3 A BCD (ab ++ (ac ++ ad)) (axesBCD_A B C D ba bc bd ca cb cd da db dc)

/-- `A·(B·(C·D))` -/
def routeSM5 (f1 f2 f3 : Bool) (m1 m2 m3 : TdotMode) : Except Err (Arr R) :=
  (callSM m1 f1 C D cd dc).bind fun CD =>
  (callSM m2 f2 B CD (bc ++ bd) (Assoc2P.axesBC C.ndim D.ndim cb cd dc db)).bind fun BCD =>
  callSM m3 f3 A BCD (ab ++ (ac ++ ad)) (axesBCD_A B C D ba bc bd ca cb cd da db dc)

/-- without flags these are the routes of `Net4M2` -/
theorem routeSM_unflagged (m1 m2 m3 : TdotMode) :
    routeSM1 A B C D ab ac ad ba bc bd ca cb cd da db dc false false false m1 m2 m3
      = routeM1 A B C D ab ac ad ba bc bd ca cb cd da db dc m1 m2 m3
    ∧ routeSM2 A B C D ab ac ad ba bc bd ca cb cd da db dc false false false m1 m2 m3
      = routeM2 A B C D ab ac ad ba bc bd ca cb cd da db dc m1 m2 m3
    ∧ routeSM3 A B C D ab ac ad ba bc bd ca cb cd da db dc false false false m1 m2 m3
      = routeM3 A B C D ab ac ad ba bc bd ca cb cd da db dc m1 m2 m3
    ∧ routeSM4 A B C D ab ac ad ba bc bd ca cb cd da db dc false false false m1 m2 m3
      = routeM4 A B C D ab ac ad ba bc bd ca cb cd da db dc m1 m2 m3
    ∧ routeSM5 A B C D ab ac ad ba bc bd ca cb cd da db dc false false false m1 m2 m3
      = routeM5 A B C D ab ac ad ba bc bd ca cb cd da db dc m1 m2 m3 :=
  ⟨rfl, rfl, rfl, rfl, rfl⟩

end routes

section
variable [AddCommMonoid R] [Mul R] [Neg R] [SignRing R] [AssocLaws R]
variable {A B C D : Arr R} {ab ac ad ba bc bd ca cb cd da db dc : List Nat}

/-- everything `k4x` gives, with the label-distinctness facts of all calls -/
structure K4Data (A B C D : Arr R) (ab ac ad ba bc bd ca cb cd da db dc : List Nat)
    (AB BC CD ABC1 ABC2 BCD1 BCD2 T1 T2 T3 T4 T5 : Arr R) : Prop where
  eAB : tdF A B ab ba = .ok AB
  eBC : tdF B C bc cb = .ok BC
  eCD : tdF C D cd dc = .ok CD
  eABC1 : tdF AB C (Assoc2P.axesAB A.ndim B.ndim ab ac ba bc) (ca ++ cb) = .ok ABC1
  eABC2 : tdF A BC (ab ++ ac) (Assoc2P.axesBC B.ndim C.ndim ba bc cb ca) = .ok ABC2
  eBCD1 : tdF BC D (Assoc2P.axesAB B.ndim C.ndim bc bd cb cd) (db ++ dc) = .ok BCD1
  eBCD2 : tdF B CD (bc ++ bd) (Assoc2P.axesBC C.ndim D.ndim cb cd dc db) = .ok BCD2
  eT1 : tdF ABC1 D (axesABC_D A B C ab ac ad ba bc bd ca cb cd) ((da ++ db) ++ dc) = .ok T1
  eT2 : tdF ABC2 D (axesABC_D A B C ab ac ad ba bc bd ca cb cd) ((da ++ db) ++ dc) = .ok T2
  eT3 : tdF AB CD (Assoc2P.axesAB A.ndim B.ndim ab ac ba bc ++ Assoc2P.axesAB A.ndim B.ndim ab ad ba bd)
    (Assoc2P.axesBC C.ndim D.ndim (ca ++ cb) cd dc (da ++ db)) = .ok T3
  eT4 : tdF A BCD1 (ab ++ (ac ++ ad)) (axesBCD_A B C D ba bc bd ca cb cd da db dc) = .ok T4
  eT5 : tdF A BCD2 (ab ++ (ac ++ ad)) (axesBCD_A B C D ba bc bd ca cb cd da db dc) = .ok T5
  q2 : Eqv T2 T1
  q3 : Eqv T3 T1
  q4 : Eqv T4 T1
  q5 : Eqv T5 T1
  hv : T1.validB = true
  X : K4Extra A B C D AB BC CD ABC1 ABC2 BCD1 BCD2 ab ac ad ba bc bd ca cb cd da db dc
  h_ab : OddposP.LabelsDistinct (A.oddpos ++ B.oddpos)
  h_bc : OddposP.LabelsDistinct (B.oddpos ++ C.oddpos)
  h_cd : OddposP.LabelsDistinct (C.oddpos ++ D.oddpos)
  h_ABc : OddposP.LabelsDistinct (AB.oddpos ++ C.oddpos)
  h_aBC : OddposP.LabelsDistinct (A.oddpos ++ BC.oddpos)
  h_BCd : OddposP.LabelsDistinct (BC.oddpos ++ D.oddpos)
  h_bCD : OddposP.LabelsDistinct (B.oddpos ++ CD.oddpos)
  h_T1 : OddposP.LabelsDistinct (ABC1.oddpos ++ D.oddpos)
  h_T2 : OddposP.LabelsDistinct (ABC2.oddpos ++ D.oddpos)
  h_T3 : OddposP.LabelsDistinct (AB.oddpos ++ CD.oddpos)
  h_T4 : OddposP.LabelsDistinct (A.oddpos ++ BCD1.oddpos)
  h_T5 : OddposP.LabelsDistinct (A.oddpos ++ BCD2.oddpos)

theorem k4data (H : K4H A B C D ab ac ad ba bc bd ca cb cd da db dc) :
    ∃ AB BC CD ABC1 ABC2 BCD1 BCD2 T1 T2 T3 T4 T5 : Arr R,
      K4Data A B C D ab ac ad ba bc bd ca cb cd da db dc AB BC CD ABC1 ABC2 BCD1 BCD2 T1 T2 T3 T4 T5 := by
  obtain ⟨AB, BC, CD, ABC1, ABC2, BCD1, BCD2, T1, T2, T3, T4, T5, eAB, eBC, eCD, eABC1, eABC2, eBCD1,
    eBCD2, eT1, eT2, eT3, eT4, eT5, q2, q3, q4, q5, hv, X⟩ :=
    k4x A B C D ab ac ad ba bc bd ca cb cd da db dc H.WAB H.WAC H.WAD H.WBC H.WBD H.WCD
      H.hnA H.hnB H.hnC H.hnD H.hd
  have LD : ∀ {M : List (Int × Bool)} (l : List (Int × Bool)), M.Perm l →
      l.Sublist (A.oddpos ++ (B.oddpos ++ (C.oddpos ++ D.oddpos))) → OddposP.LabelsDistinct M := by
    intro M l hp hs
    have hd' : OddposP.LabelsDistinct (A.oddpos ++ (B.oddpos ++ (C.oddpos ++ D.oddpos))) := by
      simpa only [List.append_assoc] using H.hd
    exact dist_of hd' l hp.symm hs
  have sAB : (A.oddpos ++ B.oddpos).Sublist (A.oddpos ++ (B.oddpos ++ (C.oddpos ++ D.oddpos))) :=
    (List.Sublist.refl _).append (List.sublist_append_left _ _)
  have sBC : (B.oddpos ++ C.oddpos).Sublist (A.oddpos ++ (B.oddpos ++ (C.oddpos ++ D.oddpos))) :=
    (((List.Sublist.refl _).append (List.sublist_append_left _ _))).trans
      (List.sublist_append_right _ _)
  have sCD : (C.oddpos ++ D.oddpos).Sublist (A.oddpos ++ (B.oddpos ++ (C.oddpos ++ D.oddpos))) :=
    (List.sublist_append_right _ _).trans (List.sublist_append_right _ _)
  have sABC : (A.oddpos ++ (B.oddpos ++ C.oddpos)).Sublist
      (A.oddpos ++ (B.oddpos ++ (C.oddpos ++ D.oddpos))) :=
    (List.Sublist.refl _).append ((List.Sublist.refl _).append (List.sublist_append_left _ _))
  have sBCD : (B.oddpos ++ (C.oddpos ++ D.oddpos)).Sublist
      (A.oddpos ++ (B.oddpos ++ (C.oddpos ++ D.oddpos))) := List.sublist_append_right _ _
  exact ⟨AB, BC, CD, ABC1, ABC2, BCD1, BCD2, T1, T2, T3, T4, T5, eAB, eBC, eCD, eABC1, eABC2, eBCD1,
    eBCD2, eT1, eT2, eT3, eT4, eT5, q2, q3, q4, q5, hv, X,
    LD _ (List.Perm.refl (A.oddpos ++ B.oddpos)) sAB,
    LD _ (List.Perm.refl (B.oddpos ++ C.oddpos)) sBC,
    LD _ (List.Perm.refl (C.oddpos ++ D.oddpos)) sCD,
    LD _ (by simpa only [List.append_assoc] using X.pAB.append_right C.oddpos) sABC,
    LD _ (X.pBC.append_left A.oddpos) sABC,
    LD _ (by simpa only [List.append_assoc] using X.pBC.append_right D.oddpos) sBCD,
    LD _ (X.pCD.append_left B.oddpos) sBCD,
    LD _ (by simpa only [List.append_assoc] using
      ((X.pABC1.trans (X.pAB.append_right _)).append_right D.oddpos)) (List.Sublist.refl _),
    LD _ (by simpa only [List.append_assoc] using
      ((X.pABC2.trans (X.pBC.append_left _)).append_right D.oddpos)) (List.Sublist.refl _),
    LD _ (by simpa only [List.append_assoc] using
      ((X.pAB.append_right _).trans (X.pCD.append_left _))) (List.Sublist.refl _),
    LD _ (by simpa only [List.append_assoc] using
      ((X.pBCD1.trans (X.pBC.append_right _)).append_left A.oddpos)) (List.Sublist.refl _),
    LD _ ((X.pBCD2.trans (X.pCD.append_left _)).append_left A.oddpos) (List.Sublist.refl _)⟩

end

end Net4P
end SymmModel
