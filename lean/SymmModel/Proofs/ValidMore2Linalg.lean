/-
  SymmModel.Proofs.ValidMore2Linalg — `solve`, `svd_truncated` (= `svd` followed by the
  truncation step `applyCounts`) and `align_axes` as validity-preserving calls, wrapping the
  theorems of Props/C11.lean (`solveA_valid`, `applyCounts_valid`) and `dropMisaligned_valid`.
-/
import SymmModel.Props.C11
import SymmModel.Proofs.ValidMore

namespace SymmModel
namespace ValidP

variable {R : Type}

/-- guard of `solve(a, b)` with the matrix `a` as the current array: same symmetry and kind, the
    vector's index has the direction of `a`'s row index, and (fermionic) `a` is even — the
    known finding "solve-odd-matrix" is excluded -/
def solveAdmissibleB (a b : Arr R) : Bool :=
  b.validB && decide (a.sym = b.sym) && (a.fermi == b.fermi)
  && ((b.indices.getD 0 default).dual == (a.indices.getD 0 default).dual)
  && (!a.fermi || !a.parity)

theorem solve_valid [Neg R] (K : Kernels R) (hK : K.ShapeOk) (a b x : Arr R)
    (hv : a.validB = true) (hadm : solveAdmissibleB a b = true) (h : solveA K a b = .ok x) :
    x.validB = true := by
  unfold solveAdmissibleB at hadm
  simp only [Bool.and_eq_true, decide_eq_true_eq, beq_iff_eq, Bool.or_eq_true,
    Bool.not_eq_true'] at hadm
  obtain ⟨⟨⟨⟨hb, hsym⟩, hfer⟩, hdir⟩, hev⟩ := hadm
  refine (C11.solveA_valid K hK a b hv hb hsym hfer hdir ?_ x h).2.2.1
  intro hf
  rcases hev with h1 | h1
  · rw [hf] at h1; cases h1
  · exact h1

/-- guard of the truncation step: a matrix, `counts` aligned with the sectors of `U` and at
    most the bond sizes (evaluated on the factors `svd` returns) -/
def svdTruncAdmissibleB (K : Kernels R) (x : Arr R) (counts : List Nat) : Bool :=
  x.ndim == 2 &&
  match svdA K x with
  | .ok (u, _, _) =>
    counts.length == u.sectors.length
    && (u.blocks.zip counts).all (fun p => decide (p.2 ≤ p.1.2.shape.getD 1 0))
  | .error _ => true

/-- `svd_truncated`: both truncated factors are valid, for ANY admissible counts -/
theorem svdTrunc_valid [Zero R] (K : Kernels R) (hK : K.ShapeOk) (x u vh : Arr R) (s : BVec R)
    (counts : List Nat) (hv : x.validB = true) (hadm : svdTruncAdmissibleB K x counts = true)
    (h : svdA K x = .ok (u, s, vh)) :
    (applyCounts u s vh counts).1.validB = true ∧ (applyCounts u s vh counts).2.2.validB = true := by
  unfold svdTruncAdmissibleB at hadm
  rw [h] at hadm
  simp only [Bool.and_eq_true, beq_iff_eq, List.all_eq_true, decide_eq_true_eq] at hadm
  obtain ⟨h2, hlen, hle⟩ := hadm
  obtain ⟨u', s', vh', T, heq, hu', hvh', _⟩ :=
    C11.applyCounts_valid K hK x hv h2 u s vh h counts hlen hle
  rw [heq]
  exact ⟨hu', hvh'⟩

end ValidP
end SymmModel
