/-
  SymmModel.Proofs.Dense3d — the dense form of a fused array on the stored part (property C08,
  third part): every stored entry of the original sits, in the dense form of the fused array, at
  the position whose address the fused indices' own tables (`splitAddr`) send back to it.

  Composition of `fused_ontoM` / `fused_getM` (Proofs/FuseMulti6-7.lean), the validity of the fused
  array (Proofs/ValidFuse2.lean) and the bridge `toDenseA_get` / `locateAll_surj`.
-/
import SymmModel.Proofs.FuseMultiAll
import SymmModel.Proofs.ValidFuse2
import SymmModel.Proofs.Dense3b

namespace SymmModel
namespace Dense3
open FuseP DenseP

variable {R : Type}

theorem fuse_dense_stored_main [Zero R] [Neg R] (a : Arr R) (groups : List (List Nat))
    (hv : a.validB = true) (hg : groupsOkB groups a.ndim = true) (hnf : a.fermi = false)
    (hne : a.indices.any (fun ix => ix.cm.isEmpty) = false)
    (x : Arr R) (hx : fuseCore a groups .insert = .ok x)
    (hnex : x.indices.any (fun ix => ix.cm.isEmpty) = false) :
    let gi := calcFuseGroupInfo groups a.duals
    ∃ dA dX, Arr.toDenseA a = .ok dA ∧ Arr.toDenseA x = .ok dX ∧ dA.shape = a.shape
      ∧ dX.shape = x.shape ∧
      ∀ p, inBox a.shape p = true → ∀ s offs, Arr.locateAll a.indices p = some (s, offs) →
        s ∈ a.sectors →
        ∃ P ns i, inBox x.shape P = true ∧ Arr.locateAll x.indices P = some (ns, i)
          ∧ ns ∈ x.sectors
          ∧ (∀ g gaxes, groups[g]? = some gaxes → gaxes.length ≠ 1 →
              splitAddr (x.indices.getD (gi.position + g) default) (ns.getD (gi.position + g) (0, 0))
                (i.getD (gi.position + g) 0)
                = some (gaxes.map (fun ax => s.getD ax (0, 0)), gaxes.map (fun ax => offs.getD ax 0)))
          ∧ (∀ g gaxes, groups[g]? = some gaxes → gaxes.length = 1 →
              [ns.getD (gi.position + g) (0, 0)] = gaxes.map (fun ax => s.getD ax (0, 0))
              ∧ [i.getD (gi.position + g) 0] = gaxes.map (fun ax => offs.getD ax 0))
          ∧ permuted s gi.perm = ns.take gi.position
              ++ (groups.map (fun gaxes => gaxes.map (fun ax => s.getD ax (0, 0)))).flatten
              ++ ns.drop (gi.position + groups.length)
          ∧ permuted offs gi.perm = i.take gi.position
              ++ (groups.map (fun gaxes => gaxes.map (fun ax => offs.getD ax 0))).flatten
              ++ i.drop (gi.position + groups.length)
          ∧ dX.get P = dA.get p := by
  intro gi
  have hva := validArr_of_validB hv
  have hok := groupsOk_iff.1 hg
  have hx' := fuseCore_multi_eq hva hok
  rw [hx] at hx'
  injection hx' with hx'
  subst hx'
  have hadm : ValidP.fuseAdmissibleB groups a.ndim = true := by
    simp only [groupsOkB, Bool.and_eq_true] at hg
    simp only [ValidP.fuseAdmissibleB, Bool.and_eq_true]
    exact ⟨hg.2, hg.1.2⟩
  have hxv : (fusedArrM a groups).validB = true :=
    ValidP.fuseCore_insert_validB a _ groups hv hnf hadm hx
  obtain ⟨hshx, hndx, _, _, _, hphx⟩ := validB_facts _ hxv
  obtain ⟨hsha, hnda, hlena, _, _, hpha⟩ := validB_facts a hv
  have hpa : a.phases = [] := hpha hnf
  have hpx : (fusedArrM a groups).phases = [] := hphx hnf
  obtain ⟨dA, hdA, hsA, hgA⟩ := Arr.toDenseA_get a hne
  obtain ⟨dX, hdX, hsX, hgX⟩ := Arr.toDenseA_get (fusedArrM a groups) hnex
  refine ⟨dA, dX, hdA, hdX, hsA, hsX, ?_⟩
  intro p hp s offs hl hs
  obtain ⟨b, hb⟩ := Option.isSome_iff_exists.mp (alookup_isSome_iff.mpr hs)
  have hsb : (s, b) ∈ a.blocks := alookup_eq_some_mem hb
  have ho : inBox b.shape offs = true := hsha.inBox hp hl hb
  have hslen : s.length = a.ndim := hlena s hs
  have holen : offs.length = a.ndim := by
    have := (Arr.locateAll_length hl (by simpa [Arr.shape] using inBox_length hp)).2
    simpa [Arr.ndim] using this
  obtain ⟨B, h1, h2, h3, h4, h5⟩ := fused_ontoM hva hok hsb ho
  have hB : alookup (fusedArrM a groups).blocks (planM a groups (s, b)).newSector = some B := h1
  obtain ⟨P, hP, hlP⟩ := locateAll_surj hshx.1 (hshx.2 _ B hB) h2
  have hP' : inBox (fusedArrM a groups).shape P = true := hP
  obtain ⟨sec', off', hl', hvX⟩ := hgX P hP'
  rw [hlP] at hl'
  simp only [Option.some.injEq, Prod.mk.injEq] at hl'
  obtain ⟨rfl, rfl⟩ := hl'
  obtain ⟨sec'', off'', hl'', hvA⟩ := hgA p hp
  rw [hl] at hl''
  simp only [Option.some.injEq, Prod.mk.injEq] at hl''
  obtain ⟨rfl, rfl⟩ := hl''
  obtain ⟨hs1, hget⟩ := fused_getM hva hok h1 h2
  have hval := (hget s offs hslen holen h4 h5).1
  rw [hb] at hval
  have hsegs1 : (List.range groups.length).map (fun g => (segM a groups (planM a groups (s, b)).newSector
      (joinI a groups (s, b) offs) g).1) = groups.map (fun gaxes => gaxes.map (fun ax => s.getD ax (0, 0))) := by
    rw [map_eq_range_map groups [] (fun gaxes => gaxes.map (fun ax => s.getD ax (0, 0)))]
    apply List.map_congr_left
    intro g hgm
    rw [h3 g (List.mem_range.1 hgm)]
  have hsegs2 : (List.range groups.length).map (fun g => (segM a groups (planM a groups (s, b)).newSector
      (joinI a groups (s, b) offs) g).2) = groups.map (fun gaxes => gaxes.map (fun ax => offs.getD ax 0)) := by
    rw [map_eq_range_map groups [] (fun gaxes => gaxes.map (fun ax => offs.getD ax 0))]
    apply List.map_congr_left
    intro g hgm
    rw [h3 g (List.mem_range.1 hgm)]
  refine ⟨P, _, _, hP', hlP, ?_, ?_, ?_, ?_, ?_, ?_⟩
  · rw [Arr.sectors, ← alookup_isSome_iff, hB]; rfl
  · intro g gaxes hgg hlen
    have hgl := getElem?_lt hgg
    have hm : multiB groups g = true := multiB_iff.2 ⟨_, hgg, hlen⟩
    have hgd : groups.getD g [] = gaxes := by simp [List.getD_eq_getElem?_getD, hgg]
    have := hs1 g hgl hm
    show splitAddr (ixM a groups g) _ _ = _
    rw [this, h3 g hgl, hgd]
  · intro g gaxes hgg hlen
    have hgl := getElem?_lt hgg
    have hm : multiB groups g = false := by simp [multiB, hgg, hlen]
    have hseg := h3 g hgl
    simp only [segM, hm, Bool.false_eq_true, if_false] at hseg
    have hgd : groups.getD g [] = gaxes := by simp [List.getD_eq_getElem?_getD, hgg]
    rw [hgd] at hseg
    simp only [Prod.mk.injEq] at hseg
    exact hseg
  · rw [h4]; simp only [expandK]; rw [hsegs1]
  · rw [h5]; simp only [expandJ]; rw [hsegs2]
  · rw [hvX, hvA, Arr.elem_abelian _ hpx, Arr.elem_abelian a hpa, hB, hb]
    exact hval

end Dense3
end SymmModel
