/-
  SymmModel.Proofs.NormNet7 — network form of the norm (property C10), part 7:
  geometry and admissibility for the tensor-by-tensor routes: the contracted half `X` (`K̄` or `K`)
  against the single tensors, when the index tables of `X` are not pruned.
-/
import SymmModel.Proofs.NormNet6
import SymmModel.Proofs.Assoc2Main
namespace SymmModel.NormNet
open SymmModel SymmModel.Lazy SymmModel.Norm SymmModel.TdotP SymmModel.GradedP SymmModel.RoutesP
set_option linter.unusedSectionVars false

/-! ## geometry -/
section geom

theorem positions_self (l : List Nat) (hn : l.Nodup) : positions l l = List.range l.length := by
  unfold positions
  have e : l.filterMap (fun y => indexOf? l y)
      = ((List.range l.length).map (fun j => l.getD j 0)).filterMap (fun y => indexOf? l y) := by
    rw [← list_eq_map_getD l]
  rw [e, List.filterMap_map]
  have : ∀ i ∈ List.range l.length, ((fun y => indexOf? l y) ∘ fun j => l.getD j 0) i = some i := by
    intro i hi
    have hi' := List.mem_range.mp hi
    simp only [Function.comp, List.getD_eq_getElem?_getD, List.getElem?_eq_getElem hi',
      Option.getD_some]
    exact indexOf?_getElem hn hi'
  rw [List.filterMap_congr this]
  simp

theorem freeAxes_prefix (m k : Nat) : freeAxes (m + k) (List.range m) = (List.range k).map (m + ·) := by
  rw [freeAxes_range (m + k) m (Nat.le_add_right _ _), drop_range_eq_map (m + k) m (Nat.le_add_right _ _),
    Nat.add_sub_cancel_left]

theorem freeAxes_all (n : Nat) (l : List Nat) (h : ∀ i, i < n → i ∈ l) : freeAxes n l = [] := by
  apply List.eq_nil_iff_forall_not_mem.mpr
  intro x hx
  obtain ⟨h1, h2⟩ := mem_freeAxes.mp hx
  exact h2 (h x h1)

theorem range_split (m k : Nat) : List.range m ++ (List.range k).map (m + ·) = List.range (m + k) :=
  List.range_add.symm

/-- with `B`'s legs split as (dangling `fA`, bond `xa`) and `C`'s as (bond `xb`, dangling `fB`), the
    axes of `B·C` that meet the contracted other half are all axes, in order -/
theorem axesBC_all (nB nC : Nat) (xa xb : List Nat) :
    Assoc2P.axesBC nB nC (freeAxes nB xa) xa xb (freeAxes nC xb)
      = List.range ((freeAxes nB xa).length + (freeAxes nC xb).length) := by
  unfold Assoc2P.axesBC
  rw [positions_self _ (freeAxes_nodup nB xa), positions_self _ (freeAxes_nodup nC xb), range_split]

end geom

/-! ## the contracted half against a single tensor -/
section adm
variable {R : Type}

theorem getD_append_map_left (fA fB : List Nat) (f g : Nat → Index) (i : Nat) (hi : i < fA.length) :
    (fA.map f ++ fB.map g).getD i default = f (fA.getD i 0) := by
  simp only [List.getD_eq_getElem?_getD]
  rw [List.getElem?_append_left (by rw [List.length_map]; exact hi), List.getElem?_map,
    List.getElem?_eq_getElem hi]
  simp

theorem getD_append_map_right (fA fB : List Nat) (f g : Nat → Index) (i : Nat) (hi : i < fB.length) :
    (fA.map f ++ fB.map g).getD (fA.length + i) default = g (fB.getD i 0) := by
  simp only [List.getD_eq_getElem?_getD]
  have : (fA.map f).length = fA.length := List.length_map _
  rw [← this, List.getElem?_append_right (Nat.le_add_right _ _), Nat.add_sub_cancel_left,
    List.getElem?_map, List.getElem?_eq_getElem hi]
  simp

/-- the un-pruned frame of the result of `a·b` -/
theorem frame_eq (a b : Arr R) (xa xb : List Nat) :
    without a.indices xa ++ without b.indices xb
      = (freeAxes a.ndim xa).map (fun x => a.indices.getD x default)
        ++ (freeAxes b.ndim xb).map (fun x => b.indices.getD x default) := by
  rw [without_eq_permuted_freeAxes, without_eq_permuted_freeAxes,
    permuted_eq_map _ _ (fun x hx => mem_freeAxes_lt x hx) default,
    permuted_eq_map _ _ (fun x hx => mem_freeAxes_lt x hx) default]
  rfl

theorem mem_zip_range {l : List Nat} {p : Nat × Nat} (hp : p ∈ (List.range l.length).zip l) :
    p.1 < l.length ∧ p.2 = l.getD p.1 0 := by
  obtain ⟨i, hi, rfl⟩ := List.mem_iff_getElem.mp hp
  simp only [List.length_zip, List.length_range, Nat.min_self] at hi
  simp [List.getD_eq_getElem?_getD, List.getElem?_eq_getElem hi, hi]

theorem mem_zip_shift {l : List Nat} {m : Nat} {p : Nat × Nat}
    (hp : p ∈ ((List.range l.length).map (m + ·)).zip l) :
    ∃ i, i < l.length ∧ p.1 = m + i ∧ p.2 = l.getD i 0 := by
  obtain ⟨i, hi, rfl⟩ := List.mem_iff_getElem.mp hp
  simp only [List.length_zip, List.length_map, List.length_range, Nat.min_self] at hi
  exact ⟨i, hi, by simp, by simp [List.getD_eq_getElem?_getD, List.getElem?_eq_getElem hi]⟩

/-- `X` carries the conjugated (`cj = true`) or the plain un-pruned frame of `a·b`: it is
    contractible with `a` along `a`'s dangling legs … -/
theorem con_half_left (X a b : Arr R) (xa xb : List Nat) (F : Index → Index)
    (hF : ∀ i, (F i).cm = i.cm ∧ (F i).dual = !i.dual)
    (hX : X.indices = (without a.indices xa ++ without b.indices xb).map F) :
    ValidP.contractibleB X a (List.range (freeAxes a.ndim xa).length) (freeAxes a.ndim xa) = true := by
  unfold ValidP.contractibleB
  simp only [Bool.and_eq_true, beq_iff_eq, List.all_eq_true, List.length_range, true_and]
  intro p hp
  obtain ⟨h1, h2⟩ := mem_zip_range hp
  rw [hX, frame_eq, List.map_append, List.map_map, List.map_map,
    getD_append_map_left _ _ _ _ _ h1, h2]
  simp only [Function.comp, (hF _).1, (hF _).2, true_and]
  cases (a.indices.getD ((freeAxes a.ndim xa).getD p.1 0) default).dual <;> rfl

/-- … and with `b` along `b`'s dangling legs -/
theorem con_half_right (X a b : Arr R) (xa xb : List Nat) (F : Index → Index)
    (hF : ∀ i, (F i).cm = i.cm ∧ (F i).dual = !i.dual)
    (hX : X.indices = (without a.indices xa ++ without b.indices xb).map F) :
    ValidP.contractibleB X b
      ((List.range (freeAxes b.ndim xb).length).map ((freeAxes a.ndim xa).length + ·))
      (freeAxes b.ndim xb) = true := by
  unfold ValidP.contractibleB
  simp only [Bool.and_eq_true, beq_iff_eq, List.all_eq_true, List.length_range, List.length_map,
    true_and]
  intro p hp
  obtain ⟨i, h1, h2, h3⟩ := mem_zip_shift hp
  rw [hX, frame_eq, List.map_append, List.map_map, List.map_map, h2,
    getD_append_map_right _ _ _ _ _ h1, h3]
  simp only [Function.comp, (hF _).1, (hF _).2, true_and]
  cases (b.indices.getD ((freeAxes b.ndim xb).getD i 0) default).dual <;> rfl

theorem conj_F : ∀ i : Index, i.conj.cm = i.cm ∧ i.conj.dual = !i.dual :=
  fun i => ⟨Index.conj_cm i, Lazy.Index.conj_dual i⟩

theorem half_ndim (X a b : Arr R) (xa xb : List Nat) (F : Index → Index)
    (hX : X.indices = (without a.indices xa ++ without b.indices xb).map F) :
    X.ndim = (freeAxes a.ndim xa).length + (freeAxes b.ndim xb).length := by
  unfold Arr.ndim
  rw [hX, frame_eq, List.length_map, List.length_append, List.length_map, List.length_map]
  rfl

/-- the admissibility of the first-level call `X·a` -/
theorem adm_half_left (X a b : Arr R) (xa xb : List Nat) (F : Index → Index)
    (hF : ∀ i, (F i).cm = i.cm ∧ (F i).dual = !i.dual)
    (hX : X.indices = (without a.indices xa ++ without b.indices xb).map F) (hs : X.sym = a.sym) :
    ValidP.tdotAdmissibleB X a (List.range (freeAxes a.ndim xa).length) (freeAxes a.ndim xa) = true := by
  unfold ValidP.tdotAdmissibleB
  simp only [Bool.and_eq_true, decide_eq_true_eq, ValidP.allDistinct_iff, List.all_eq_true]
  refine ⟨⟨⟨⟨⟨hs, con_half_left X a b xa xb F hF hX⟩, List.nodup_range⟩, freeAxes_nodup _ _⟩, ?_⟩, ?_⟩
  · intro i hi
    rw [half_ndim X a b xa xb F hX]
    have := List.mem_range.mp hi
    omega
  · intro i hi; exact mem_freeAxes_lt i hi

end adm

end SymmModel.NormNet
