/-
  SymmModel.Proofs.Fuse8Dec — the levels of the groups fit the fused shape; the choices and the
  in-piece address that an address of the fused block makes, coordinate by coordinate.
-/
import SymmModel.Proofs.Fuse7Concat
namespace SymmModel
namespace FuseP
set_option linter.unusedSectionVars false

variable {R : Type} [Zero R]

section
variable {a : Arr R} {groups : List (List Nat)}

theorem getD_set_ne (l : List Nat) {p q : Nat} (v : Nat) (h : p ≠ q) : (l.set p v).getD q 0 = l.getD q 0 := by
  simp only [List.getD_eq_getElem?_getD, List.getElem?_set]
  simp [h]

/-- the levels fit a shape whose multi-axis group entries are the sums of the extents -/
theorem lvOk_lvFrom (ns : Sector) (N : Nat) : ∀ (fuel g : Nat) (b : List Nat), b.length = N →
    (giM a groups).position + g + fuel ≤ N →
    (∀ g', g ≤ g' → g' < g + fuel → multiB groups g' = true →
      b.getD ((giM a groups).position + g') 0 = sumN ((extM a groups ns g').map (·.2)) ∧ extM a groups ns g' ≠ []) →
    LvOk (lvFrom a groups ns g fuel) b := by
  intro fuel
  induction fuel with
  | zero => intro g b _ _ _; exact trivial
  | succ f ih =>
    intro g b hb hN h
    simp only [lvFrom, lvlM]
    split
    · rename_i hm
      obtain ⟨h1, h2⟩ := h g (Nat.le_refl g) (by omega) hm
      refine ⟨by omega, h1, h2, fun d => ?_⟩
      apply ih (g + 1) _ (by simp [hb]) (by omega)
      intro g' hg1 hg2 hm'
      rw [getD_set_ne _ _ (by omega)]
      exact h g' (by omega) (by omega) hm'
    · exact ih (g + 1) b hb (by omega) (fun g' hg1 hg2 hm' => h g' (by omega) (by omega) hm')

/-- **the decode, coordinate by coordinate** -/
theorem dec_lvFrom (ns : Sector) : ∀ (fuel g : Nat) (i : List Nat),
    (giM a groups).position + g + fuel ≤ i.length →
    (∀ t, t < fuel → multiB groups (g + t) = true →
      i.getD ((giM a groups).position + (g + t)) 0 < sumN ((extM a groups ns (g + t)).map (·.2))) →
    (decQ (lvFrom a groups ns g fuel) i).length = fuel
    ∧ (decOff (lvFrom a groups ns g fuel) i).length = i.length
    ∧ (∀ t, t < fuel →
        (multiB groups (g + t) = true →
          ∃ k o q, Blk.locatePiece ((extM a groups ns (g + t)).map (·.2)) (i.getD ((giM a groups).position + (g + t)) 0)
              = some (k, o)
            ∧ (extM a groups ns (g + t))[k]? = some q
            ∧ (decQ (lvFrom a groups ns g fuel) i).getD t ([], 0) = q
            ∧ (decOff (lvFrom a groups ns g fuel) i).getD ((giM a groups).position + (g + t)) 0 = o)
        ∧ (multiB groups (g + t) = false →
            ((decQ (lvFrom a groups ns g fuel) i).getD t ([], 0)).1
              = [ns.getD ((giM a groups).position + (g + t)) (0, 0)]))
    ∧ (∀ ax, (∀ t, t < fuel → multiB groups (g + t) = true → ax ≠ (giM a groups).position + (g + t)) →
        (decOff (lvFrom a groups ns g fuel) i).getD ax 0 = i.getD ax 0) := by
  intro fuel
  induction fuel with
  | zero =>
    intro g i _ _
    exact ⟨rfl, rfl, fun t ht => absurd ht (Nat.not_lt_zero t), fun _ _ => rfl⟩
  | succ f ih =>
    intro g i hil hlt
    cases hm : multiB groups g with
    | false =>
      have hl : lvFrom a groups ns g (f + 1)
          = .single [ns.getD ((giM a groups).position + g) (0, 0)] :: lvFrom a groups ns (g + 1) f := by
        simp only [lvFrom, lvlM, hm, Bool.false_eq_true, if_false]
      obtain ⟨c1, c2, c3, c4⟩ := ih (g + 1) i (by omega) (fun t ht hmt => by
        have := hlt (t + 1) (by omega) (by rw [show g + (t + 1) = g + 1 + t by omega]; exact hmt)
        rw [show g + (t + 1) = g + 1 + t by omega] at this; exact this)
      rw [hl]
      simp only [decQ, decOff, List.length_cons]
      refine ⟨by rw [c1], c2, ?_, ?_⟩
      · intro t ht
        cases t with
        | zero =>
          refine ⟨fun h => ?_, fun _ => rfl⟩
          rw [Nat.add_zero, hm] at h; cases h
        | succ t =>
          have := c3 t (by omega)
          rw [show g + 1 + t = g + (t + 1) by omega] at this
          simpa using this
      · intro ax hax
        apply c4 ax
        intro t ht hmt
        have := hax (t + 1) (by omega) (by rw [show g + (t + 1) = g + 1 + t by omega]; exact hmt)
        rw [show g + (t + 1) = g + 1 + t by omega] at this; exact this
    | true =>
      have hl : lvFrom a groups ns g (f + 1)
          = .multi ((giM a groups).position + g) (extM a groups ns g) :: lvFrom a groups ns (g + 1) f := by
        simp only [lvFrom, lvlM, hm, if_true]
      have h0 := hlt 0 (by omega) (by rw [Nat.add_zero]; exact hm)
      rw [Nat.add_zero] at h0
      obtain ⟨k, o, hloc⟩ := locatePiece_some h0
      obtain ⟨d, hd, hod⟩ := locatePiece_spec hloc
      rw [List.getElem?_map] at hd
      cases hq : (extM a groups ns g)[k]? with
      | none => rw [hq] at hd; cases hd
      | some q =>
        obtain ⟨c1, c2, c3, c4⟩ := ih (g + 1) (i.set ((giM a groups).position + g) o) (by rw [List.length_set]; omega) (fun t ht hmt => by
          have := hlt (t + 1) (by omega) (by rw [show g + (t + 1) = g + 1 + t by omega]; exact hmt)
          rw [show g + (t + 1) = g + 1 + t by omega] at this
          rw [getD_set_ne _ _ (by omega)]; exact this)
        rw [hl]
        simp only [decQ, decOff, hloc, hq, List.length_cons]
        refine ⟨by rw [c1], by rw [c2, List.length_set], ?_, ?_⟩
        · intro t ht
          cases t with
          | zero =>
            refine ⟨fun _ => ⟨k, o, q, by rw [Nat.add_zero]; exact hloc, by rw [Nat.add_zero]; exact hq, rfl, ?_⟩,
              fun h => by rw [Nat.add_zero, hm] at h; cases h⟩
            rw [Nat.add_zero, c4 _ (fun t _ _ => by omega)]
            exact getD_set_self i _ o (by omega)
          | succ t =>
            obtain ⟨d1, d2⟩ := c3 t (by omega)
            rw [show g + 1 + t = g + (t + 1) by omega] at d1 d2
            refine ⟨fun hmt => ?_, fun hmt => by simpa using d2 hmt⟩
            obtain ⟨k', o', q', e1, e2, e3, e4⟩ := d1 hmt
            rw [getD_set_ne _ _ (by omega)] at e1
            exact ⟨k', o', q', e1, e2, by simpa using e3, e4⟩
        · intro ax hax
          rw [c4 ax (fun t ht hmt => by
            have := hax (t + 1) (by omega) (by rw [show g + (t + 1) = g + 1 + t by omega]; exact hmt)
            rw [show g + (t + 1) = g + 1 + t by omega] at this; exact this)]
          have := hax 0 (by omega) (by rw [Nat.add_zero]; exact hm)
          rw [Nat.add_zero] at this
          exact getD_set_ne _ _ (Ne.symm this)

end

end FuseP
end SymmModel
