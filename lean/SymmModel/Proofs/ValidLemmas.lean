/-
  SymmModel.Proofs.ValidLemmas — base layer for property C01 (validity is closed).

  L0  association lists (`alookup/ainsert/aerase/adict`), `allDistinct`, `isSortedStrict`,
      `permuted`, `without`
  L1  kernels: `allIdx_length`, `Blk.ofFn` is well formed, shapes of the kernels
  L2  index tables: unfolding of `Index.wfB`, `Index.conj`, `Index.dropCharges`, `dropUnused`
  L3  `Arr.validB` as a `Prop` structure (`Arr.Valid`), sector-charge / block-shape relations
      and how they transform under re-keying of sectors

  Nothing here changes a model definition.
-/
import SymmModel.Model.Valid
import SymmModel.Model.Linalg
import SymmModel.Proofs.SymLemmas
import Mathlib.Data.List.Perm.Subperm
import Mathlib.Data.List.Perm.Lattice
import Mathlib.Data.List.Range

namespace SymmModel
namespace ValidP
open Sym

/-! ## L0 — lists -/

section Lists
variable {α β κ : Type}

theorem allDistinct_iff [BEq α] [LawfulBEq α] (l : List α) : allDistinct l = true ↔ l.Nodup := by
  induction l with
  | nil => simp [allDistinct]
  | cons a as ih =>
    simp only [allDistinct, Bool.and_eq_true, Bool.not_eq_true', List.nodup_cons, ih]
    constructor
    · rintro ⟨h1, h2⟩
      refine ⟨?_, h2⟩
      intro hm
      have : as.contains a = true := List.contains_iff_mem.mpr hm
      rw [this] at h1; cases h1
    · rintro ⟨h1, h2⟩
      refine ⟨?_, h2⟩
      cases h : as.contains a with
      | false => rfl
      | true => exact absurd (List.contains_iff_mem.mp h) h1

/-! ### alookup -/

variable [BEq κ] [LawfulBEq κ]

theorem alookup_some_mem {l : List (κ × β)} {k : κ} {v : β} (h : alookup l k = some v) :
    (k, v) ∈ l := by
  induction l with
  | nil => simp [alookup] at h
  | cons p rest ih =>
    obtain ⟨k', v'⟩ := p
    simp only [alookup] at h
    split at h
    · rename_i hk
      have := eq_of_beq hk
      subst this
      cases h; simp
    · exact List.mem_cons_of_mem _ (ih h)

theorem alookup_isSome_iff {l : List (κ × β)} {k : κ} :
    (alookup l k).isSome = true ↔ k ∈ l.map (·.1) := by
  induction l with
  | nil => simp [alookup]
  | cons p rest ih =>
    obtain ⟨k', v'⟩ := p
    simp only [alookup, List.map_cons, List.mem_cons]
    by_cases hk : (k' == k) = true
    · simp [hk, (eq_of_beq hk).symm]
    · have hne : k ≠ k' := fun h => hk (by simp [h])
      simp [hk, ih, hne]

theorem alookup_eq_none_iff {l : List (κ × β)} {k : κ} :
    alookup l k = none ↔ k ∉ l.map (·.1) := by
  rw [← alookup_isSome_iff]
  cases alookup l k <;> simp

theorem alookup_of_mem_nodup {l : List (κ × β)} {k : κ} {v : β}
    (hn : (l.map (·.1)).Nodup) (h : (k, v) ∈ l) : alookup l k = some v := by
  induction l with
  | nil => cases h
  | cons p rest ih =>
    obtain ⟨k', v'⟩ := p
    simp only [List.map_cons, List.nodup_cons] at hn
    simp only [alookup]
    rcases List.mem_cons.mp h with h | h
    · cases h; simp
    · have hne : ¬ (k' == k) = true := by
        intro hk
        have := eq_of_beq hk
        subst this
        exact hn.1 (List.mem_map.mpr ⟨(k', v), h, rfl⟩)
      simp only [hne, if_false]
      exact ih hn.2 h

theorem alookup_filter_key {l : List (κ × β)} {k : κ} (p : κ → Bool) (hp : p k = true) :
    alookup (l.filter (fun x => p x.1)) k = alookup l k := by
  induction l with
  | nil => rfl
  | cons q rest ih =>
    obtain ⟨k', v'⟩ := q
    by_cases hq : p k' = true
    · simp only [List.filter_cons, hq, if_true, alookup, ih]
    · have hne : ¬ (k' == k) = true := by
        intro hk
        have := eq_of_beq hk
        subst this
        exact hq hp
      simp only [List.filter_cons, hq, alookup, hne]
      simpa using ih

/-! ### ainsert / aerase / adict -/

theorem mem_ainsert {l : List (κ × β)} {k : κ} {v : β} {p : κ × β} (h : p ∈ ainsert l k v) :
    p = (k, v) ∨ p ∈ l := by
  induction l with
  | nil => simp [ainsert] at h; exact Or.inl h
  | cons q rest ih =>
    obtain ⟨k', v'⟩ := q
    simp only [ainsert] at h
    split at h
    · rename_i hk
      have := eq_of_beq hk
      subst this
      rcases List.mem_cons.mp h with h | h
      · exact Or.inl h
      · exact Or.inr (List.mem_cons_of_mem _ h)
    · rcases List.mem_cons.mp h with h | h
      · exact Or.inr (by simp [h])
      · rcases ih h with h | h
        · exact Or.inl h
        · exact Or.inr (List.mem_cons_of_mem _ h)

theorem ainsert_keys (l : List (κ × β)) (k : κ) (v : β) :
    (ainsert l k v).map (·.1) = if k ∈ l.map (·.1) then l.map (·.1) else l.map (·.1) ++ [k] := by
  induction l with
  | nil => simp [ainsert]
  | cons q rest ih =>
    obtain ⟨k', v'⟩ := q
    simp only [ainsert]
    by_cases hk : (k' == k) = true
    · have := eq_of_beq hk
      subst this
      simp
    · have hne : k ≠ k' := fun h => hk (by simp [h])
      simp only [hk, Bool.false_eq_true, ↓reduceIte, List.map_cons, ih, List.mem_cons, hne, false_or]
      by_cases hm : k ∈ List.map (fun x => x.1) rest
      · simp only [hm, if_true]
      · simp only [hm, if_false]; rfl

theorem ainsert_keys_nodup {l : List (κ × β)} (k : κ) (v : β) (h : (l.map (·.1)).Nodup) :
    ((ainsert l k v).map (·.1)).Nodup := by
  rw [ainsert_keys]
  split
  · exact h
  · rename_i hk
    exact List.nodup_append.mpr ⟨h, by simp, by
      intro a ha b hb
      simp only [List.mem_singleton] at hb
      subst hb
      intro hab; subst hab; exact hk ha⟩

theorem aerase_sublist (l : List (κ × β)) (k : κ) : (aerase l k).Sublist l := by
  induction l with
  | nil => exact List.Sublist.refl _
  | cons q rest ih =>
    obtain ⟨k', v'⟩ := q
    simp only [aerase]
    split
    · exact List.sublist_cons_self _ _
    · exact ih.cons₂ _

theorem aerase_keys_nodup {l : List (κ × β)} (k : κ) (h : (l.map (·.1)).Nodup) :
    ((aerase l k).map (·.1)).Nodup :=
  List.Nodup.sublist ((aerase_sublist l k).map _) h

theorem mem_aerase {l : List (κ × β)} {k : κ} {p : κ × β} (h : p ∈ aerase l k) : p ∈ l :=
  (aerase_sublist l k).subset h

/-- invariant reasoning for a left fold of `ainsert` -/
theorem foldl_ainsert_inv {γ : Type} (f : γ → κ × β) (ps : List γ) (acc : List (κ × β))
    (P : κ × β → Prop) (hacc : ∀ p ∈ acc, P p) (hps : ∀ x ∈ ps, P (f x))
    (hn : (acc.map (·.1)).Nodup) :
    (∀ p ∈ ps.foldl (fun acc x => ainsert acc (f x).1 (f x).2) acc, P p)
    ∧ ((ps.foldl (fun acc x => ainsert acc (f x).1 (f x).2) acc).map (·.1)).Nodup := by
  induction ps generalizing acc with
  | nil => exact ⟨hacc, hn⟩
  | cons x xs ih =>
    simp only [List.foldl_cons]
    apply ih
    · intro p hp
      rcases mem_ainsert hp with h | h
      · rw [h]; exact hps x (by simp)
      · exact hacc p h
    · intro y hy; exact hps y (by simp [hy])
    · exact ainsert_keys_nodup _ _ hn

theorem adict_keys_nodup (ps : List (κ × β)) : ((adict ps).map (·.1)).Nodup :=
  (foldl_ainsert_inv (fun p => p) ps [] (fun _ => True) (by simp) (by simp) (by simp)).2

theorem mem_adict {ps : List (κ × β)} {p : κ × β} (h : p ∈ adict ps) : p ∈ ps :=
  (foldl_ainsert_inv (fun p => p) ps [] (fun p => p ∈ ps) (by simp) (fun x hx => hx) (by simp)).1 p h

/-- an association list with distinct keys is a fixed point of `dict(...)` -/
theorem adict_of_nodup_aux (ps acc : List (κ × β)) (h : ((acc ++ ps).map (·.1)).Nodup) :
    ps.foldl (fun acc p => ainsert acc p.1 p.2) acc = acc ++ ps := by
  induction ps generalizing acc with
  | nil => simp
  | cons p ps ih =>
    simp only [List.foldl_cons]
    have hk : p.1 ∉ acc.map (·.1) := by
      intro hm
      rw [List.map_append, List.map_cons] at h
      have := (List.nodup_append.mp h).2.2 _ hm p.1 (by simp)
      exact this rfl
    have h1 : ainsert acc p.1 p.2 = acc ++ [p] := by
      clear ih h
      induction acc with
      | nil => simp [ainsert]
      | cons q rest ih2 =>
        obtain ⟨k', v'⟩ := q
        simp only [List.map_cons, List.mem_cons, not_or] at hk
        have hne : ¬ (k' == p.1) = true := fun hb => hk.1 (eq_of_beq hb).symm
        simp only [ainsert, hne, Bool.false_eq_true, ↓reduceIte, ih2 hk.2, List.cons_append]
    rw [h1, ih (acc ++ [p]) (by simpa using h)]
    simp

theorem adict_of_nodup {ps : List (κ × β)} (h : (ps.map (·.1)).Nodup) : adict ps = ps := by
  simpa [adict] using adict_of_nodup_aux ps [] (by simpa using h)

end Lists

/-! ### permuted / without -/

section Perm
variable {α β : Type}

theorem permuted_map (f : α → β) (l : List α) (p : List Nat) :
    permuted (l.map f) p = (permuted l p).map f := by
  unfold permuted
  rw [List.map_filterMap]
  congr 1
  funext i
  simp

theorem permuted_append (l : List α) (p q : List Nat) :
    permuted l (p ++ q) = permuted l p ++ permuted l q := by
  unfold permuted; exact List.filterMap_append

theorem permuted_range (l : List α) : permuted l (List.range l.length) = l := by
  unfold permuted
  induction l using List.reverseRecOn with
  | nil => simp
  | append_singleton l a ih =>
    rw [List.length_append, List.length_singleton, List.range_succ, List.filterMap_append]
    have h1 : List.filterMap (fun p => (l ++ [a])[p]?) (List.range l.length) = l := by
      have : List.filterMap (fun p => (l ++ [a])[p]?) (List.range l.length)
          = List.filterMap (fun p => l[p]?) (List.range l.length) := by
        apply List.filterMap_congr
        intro x hx
        have := List.mem_range.mp hx
        rw [List.getElem?_append_left this]
      rw [this]
      exact ih
    rw [h1]
    simp

theorem permuted_perm {l : List α} {p : List Nat} (h : p.Perm (List.range l.length)) :
    (permuted l p).Perm l := by
  have := List.Perm.filterMap (fun i => l[i]?) h
  rw [show List.filterMap (fun i => l[i]?) (List.range l.length) = l from permuted_range l] at this
  exact this

theorem permuted_length {l : List α} {p : List Nat} (h : ∀ i ∈ p, i < l.length) :
    (permuted l p).length = p.length := by
  unfold permuted
  induction p with
  | nil => rfl
  | cons i p ih =>
    have hi : i < l.length := h i (by simp)
    rw [List.filterMap_cons]
    rw [List.getElem?_eq_getElem hi]
    simp only [List.length_cons]
    rw [ih (fun j hj => h j (by simp [hj]))]

theorem mem_permuted {l : List α} {p : List Nat} {x : α} (h : x ∈ permuted l p) : x ∈ l := by
  unfold permuted at h
  obtain ⟨i, _, hi⟩ := List.mem_filterMap.mp h
  exact List.mem_of_getElem? hi

theorem isPerm_perm {axes : List Nat} {n : Nat} (h : Arr.isPerm axes n = true) :
    axes.Perm (List.range n) := by
  unfold Arr.isPerm at h
  simp only [Bool.and_eq_true, beq_iff_eq, List.all_eq_true, List.mem_range,
    List.contains_iff_mem] at h
  obtain ⟨hlen, hall⟩ := h
  have hsub : List.range n ⊆ axes := fun i hi => hall i (List.mem_range.mp hi)
  have := List.subperm_of_subset (List.nodup_range (n := n)) hsub
  exact (this.perm_of_length_le (by simp [hlen])).symm

theorem isPerm_lt {axes : List Nat} {n : Nat} (h : Arr.isPerm axes n = true) :
    ∀ i ∈ axes, i < n := fun i hi =>
  List.mem_range.mp ((isPerm_perm h).subset hi)

theorem without_map (f : α → β) (l : List α) (r : List Nat) :
    without (l.map f) r = (without l r).map f := by
  unfold without
  rw [List.zipIdx_map, List.filter_map, List.map_map, List.map_map]
  congr 1

/-- `without` by positions: the positions kept are those of `range` not listed in `r` -/
theorem without_aux (r : List Nat) (l : List α) (k : Nat) :
    ((l.zipIdx k).filter (fun p => !r.contains p.2)).map (·.1)
      = ((List.range' k l.length).filter (fun i => !r.contains i)).filterMap (fun i => l[i - k]?) := by
  induction l generalizing k with
  | nil => simp
  | cons a l ih =>
    rw [List.zipIdx_cons, List.length_cons, List.range'_succ]
    have htail : List.filterMap (fun i => (a :: l)[i - k]?)
          (List.filter (fun i => !r.contains i) (List.range' (k + 1) l.length))
        = List.filterMap (fun i => l[i - (k + 1)]?)
          (List.filter (fun i => !r.contains i) (List.range' (k + 1) l.length)) := by
      apply List.filterMap_congr
      intro x hx
      have := (List.mem_range'_1.mp (List.mem_filter.mp hx).1).1
      have : x - k = (x - (k + 1)) + 1 := by omega
      rw [this, List.getElem?_cons_succ]
    by_cases hk : r.contains k = true
    · simp only [List.filter_cons, hk, Bool.not_true, Bool.false_eq_true, if_false]
      rw [ih (k + 1), htail]
    · simp only [List.filter_cons, hk, Bool.not_false, if_true, Bool.not_eq_true] at *
      simp only [hk, Bool.not_false, if_true, List.map_cons, List.filterMap_cons, Nat.sub_self,
        List.getElem?_cons_zero]
      rw [ih (k + 1), htail]

theorem without_eq_permuted (l : List α) (r : List Nat) :
    without l r = permuted l ((List.range l.length).filter (fun i => !r.contains i)) := by
  unfold without permuted
  rw [without_aux r l 0, List.range_eq_range']
  rfl

theorem permuted_range_id {n : Nat} {p : List Nat} (h : ∀ i ∈ p, i < n) :
    permuted (List.range n) p = p := by
  unfold permuted
  induction p with
  | nil => rfl
  | cons i p ih =>
    have hi := h i (by simp)
    rw [List.filterMap_cons, List.getElem?_range hi]
    simp only
    rw [ih (fun j hj => h j (by simp [hj]))]

theorem without_range (n : Nat) (r : List Nat) :
    without (List.range n) r = (List.range n).filter (fun i => !r.contains i) := by
  rw [without_eq_permuted, List.length_range]
  exact permuted_range_id (fun i hi => List.mem_range.mp (List.mem_filter.mp hi).1)

theorem without_eq_permuted' (l : List α) (r : List Nat) :
    without l r = permuted l (without (List.range l.length) r) := by
  rw [without_range, without_eq_permuted]

/-- free axes followed by the removed axes are a permutation of all axes -/
theorem without_append_perm {n : Nat} {r : List Nat} (hn : r.Nodup) (hlt : ∀ i ∈ r, i < n) :
    (without (List.range n) r ++ r).Perm (List.range n) := by
  rw [without_range]
  have h1 := List.filter_append_perm (fun i => !r.contains i) (List.range n)
  have h2 : (List.filter (fun x => !!r.contains x) (List.range n)).Perm r := by
    rw [List.perm_ext_iff_of_nodup (List.Nodup.filter _ List.nodup_range) hn]
    intro a
    simp only [Bool.not_not, List.mem_filter, List.mem_range, List.contains_iff_mem]
    exact ⟨fun h => h.2, fun h => ⟨hlt a h, h⟩⟩
  exact (List.Perm.append_left _ h2.symm).trans h1

theorem without_lt {n : Nat} {r : List Nat} : ∀ i ∈ without (List.range n) r, i < n := by
  intro i hi
  rw [without_range] at hi
  exact List.mem_range.mp (List.mem_filter.mp hi).1

theorem without_nodup (n : Nat) (r : List Nat) : (without (List.range n) r).Nodup := by
  rw [without_range]; exact List.Nodup.filter _ List.nodup_range

theorem mem_without {l : List α} {r : List Nat} {x : α} (h : x ∈ without l r) : x ∈ l := by
  rw [without_eq_permuted] at h; exact mem_permuted h

end Perm

/-! ### strict sortedness -/

theorem Charge.lt_trans' {a b c : Charge} (h1 : Charge.lt a b = true) (h2 : Charge.lt b c = true) :
    Charge.lt a c = true := by
  unfold Charge.lt at *
  simp only [Bool.or_eq_true, decide_eq_true_eq, Bool.and_eq_true, beq_iff_eq] at *
  omega

theorem Charge.lt_irrefl' (a : Charge) : Charge.lt a a = false := by
  unfold Charge.lt
  simp

theorem Charge.lt_total' (a b : Charge) : Charge.lt a b = true ∨ a = b ∨ Charge.lt b a = true := by
  obtain ⟨a1, a2⟩ := a
  obtain ⟨b1, b2⟩ := b
  unfold Charge.lt
  simp only [Bool.or_eq_true, decide_eq_true_eq, Bool.and_eq_true, beq_iff_eq, Prod.mk.injEq]
  omega

theorem isSortedStrict_iff {α : Type} (lt : α → α → Bool)
    (htr : ∀ a b c, lt a b = true → lt b c = true → lt a c = true) (l : List α) :
    isSortedStrict lt l = true ↔ l.Pairwise (fun a b => lt a b = true) := by
  induction l with
  | nil => simp [isSortedStrict]
  | cons a l ih =>
    cases l with
    | nil => simp [isSortedStrict]
    | cons b rest =>
      simp only [isSortedStrict, Bool.and_eq_true, ih, List.pairwise_cons (a := a)]
      constructor
      · rintro ⟨hab, hp⟩
        refine ⟨?_, hp⟩
        intro x hx
        rcases List.mem_cons.mp hx with rfl | hx
        · exact hab
        · exact htr _ _ _ hab ((List.pairwise_cons.mp hp).1 x hx)
      · rintro ⟨hall, hp⟩
        exact ⟨hall b (by simp), hp⟩

theorem sortedCharges_iff (l : List Charge) :
    isSortedStrict Charge.lt l = true ↔ l.Pairwise (fun a b => Charge.lt a b = true) :=
  isSortedStrict_iff Charge.lt (fun _ _ _ => Charge.lt_trans') l

theorem sortedCharges_nodup {l : List Charge} (h : isSortedStrict Charge.lt l = true) : l.Nodup := by
  rw [sortedCharges_iff] at h
  refine List.Pairwise.imp ?_ h
  intro a b hab heq
  subst heq
  rw [Charge.lt_irrefl'] at hab
  cases hab

/-! ## L1 — kernels -/

theorem allIdx_length (s : List Nat) : (allIdx s).length = prod s := by
  induction s with
  | nil => rfl
  | cons d ds ih =>
    simp only [allIdx, prod, List.length_flatMap, List.length_map, ih]
    simp

section Kernels
variable {R : Type}

theorem ofFn_wf (s : List Nat) (f : List Nat → R) : (Blk.ofFn s f).wf = true := by
  simp [Blk.ofFn, Blk.wf, allIdx_length]

@[simp] theorem ofFn_shape (s : List Nat) (f : List Nat → R) : (Blk.ofFn s f).shape = s := rfl

theorem map_wf {S : Type} (f : R → S) (b : Blk R) (h : b.wf = true) : (b.map f).wf = true := by
  simpa [Blk.map, Blk.wf] using h

theorem prod_append (xs ys : List Nat) : prod (xs ++ ys) = prod xs * prod ys := by
  induction xs with
  | nil => simp [prod]
  | cons x xs ih => simp [prod, ih, Nat.mul_assoc]

theorem prod_take_drop (s : List Nat) (k : Nat) : prod (s.take k ++ [1] ++ s.drop k) = prod s := by
  rw [prod_append, prod_append]
  simp only [prod, Nat.mul_one]
  rw [← prod_append, List.take_append_drop]

theorem expandK_wf (b : Blk R) (k : Nat) (h : b.wf = true) : (b.expandK k).wf = true := by
  simp only [Blk.wf, Blk.expandK, beq_iff_eq] at *
  rw [prod_take_drop]; exact h

end Kernels

/-! ## L2 — index tables -/

theorem wfListB_iff (sym : Sym) (l : List Index) :
    Index.wfListB sym l = true ↔ ∀ i ∈ l, Index.wfB sym i = true := by
  induction l with
  | nil => simp [Index.wfListB]
  | cons i is ih => simp [Index.wfListB, ih]

/-- chargemap part of `Index.wfB` -/
def CmOk (sym : Sym) (cm : List (Charge × Nat)) : Prop :=
  isSortedStrict Charge.lt (cm.map (·.1)) = true ∧ ∀ p ∈ cm, 0 < p.2 ∧ sym.valid p.1 = true

theorem wfB_none (sym : Sym) (cm : List (Charge × Nat)) (d : Bool) :
    Index.wfB sym (.mk cm d none) = true ↔ CmOk sym cm := by
  rw [Index.wfB.eq_1]
  simp only [CmOk, Bool.and_true, Bool.and_eq_true, List.all_eq_true, decide_eq_true_eq]

theorem wfB_some (sym : Sym) (cm : List (Charge × Nat)) (d : Bool) (subs : List Index)
    (exts : Extents) :
    Index.wfB sym (.mk cm d (some (subs, exts))) = true ↔
      CmOk sym cm ∧ Index.wfListB sym subs = true ∧ (exts.map (·.1)).Nodup
      ∧ (∀ p ∈ cm, ∃ ext, alookup exts p.1 = some ext ∧ extentOk sym d subs p.1 p.2 ext = true)
      ∧ (∀ e ∈ exts, (alookup cm e.1).isSome = true) := by
  rw [Index.wfB.eq_2]
  simp only [CmOk, Bool.and_eq_true, List.all_eq_true, decide_eq_true_eq,
    allDistinct_iff, and_assoc]
  constructor
  · rintro ⟨h1, h2, h3, h4, h5, h6⟩
    refine ⟨h1, h2, h3, h4, ?_, h6⟩
    rintro ⟨c, dd⟩ hp
    have := h5 (c, dd) hp
    simp only at this
    split at this
    · rename_i ext he; exact ⟨ext, he, this⟩
    · cases this
  · rintro ⟨h1, h2, h3, h4, h5, h6⟩
    refine ⟨h1, h2, h3, h4, ?_, h6⟩
    rintro ⟨c, dd⟩ hp
    obtain ⟨ext, he, hok⟩ := h5 (c, dd) hp
    simp only at he hok ⊢
    rw [he]; exact hok

theorem wfB_cmOk {sym : Sym} {i : Index} (h : Index.wfB sym i = true) : CmOk sym i.cm := by
  obtain ⟨cm, d, sub⟩ := i
  cases sub with
  | none => exact (wfB_none sym cm d).mp h
  | some se => obtain ⟨subs, exts⟩ := se; exact ((wfB_some sym cm d subs exts).mp h).1

/-- charges looked up in a well-formed table are valid and have positive size -/
theorem wfB_sizeOf {sym : Sym} {i : Index} (h : Index.wfB sym i = true) {c : Charge} {n : Nat}
    (hc : i.sizeOf? c = some n) : 0 < n ∧ sym.valid c = true :=
  (wfB_cmOk h).2 (c, n) (alookup_some_mem hc)

/-! ### `Index.conj` -/

theorem conjList_eq_map (l : List Index) : Index.conjList l = l.map Index.conj := by
  induction l with
  | nil => rfl
  | cons i is ih => simp [Index.conjList, ih]

@[simp] theorem conj_cm (i : Index) : i.conj.cm = i.cm := by
  obtain ⟨cm, d, sub⟩ := i
  cases sub with
  | none => rfl
  | some se => obtain ⟨subs, exts⟩ := se; rfl

@[simp] theorem conj_dual (i : Index) : i.conj.dual = !i.dual := by
  obtain ⟨cm, d, sub⟩ := i
  cases sub with
  | none => rfl
  | some se => obtain ⟨subs, exts⟩ := se; rfl

theorem blockShape?_congr {idx idx' : List Index} (h : idx.map Index.cm = idx'.map Index.cm)
    (s : Sector) : Arr.blockShape? idx s = Arr.blockShape? idx' s := by
  unfold Arr.blockShape?
  have hl : idx.length = idx'.length := by simpa using congrArg List.length h
  have hz : List.zipWith (fun (ix : Index) c => ix.sizeOf? c) idx s
      = List.zipWith (fun (ix : Index) c => ix.sizeOf? c) idx' s := by
    have e1 : List.zipWith (fun (ix : Index) c => ix.sizeOf? c) idx s
        = List.zipWith (fun m c => alookup m c) (idx.map Index.cm) s := by
      rw [List.zipWith_map_left]; rfl
    have e2 : List.zipWith (fun (ix : Index) c => ix.sizeOf? c) idx' s
        = List.zipWith (fun m c => alookup m c) (idx'.map Index.cm) s := by
      rw [List.zipWith_map_left]; rfl
    rw [e1, e2, h]
  rw [hl, hz]

theorem extentOk_conj (sym : Sym) (d : Bool) (subs : List Index) (c : Charge) (n : Nat)
    (ext : Extent) :
    extentOk sym (!d) (subs.map Index.conj) c n ext = extentOk sym d subs c n ext := by
  unfold extentOk
  have h1 : ∀ ss, Arr.blockShape? (subs.map Index.conj) ss = Arr.blockShape? subs ss := by
    intro ss
    apply blockShape?_congr
    simp [Function.comp_def]
  have h2 : ∀ ss : List Charge,
      List.zipWith (fun c' (sub : Index) => sym.sign c' ((!d) != sub.dual)) ss (subs.map Index.conj)
        = List.zipWith (fun c' (sub : Index) => sym.sign c' (d != sub.dual)) ss subs := by
    intro ss
    rw [List.zipWith_map_right]
    congr 1
    funext c' sub
    simp
  simp only [h1, h2, List.length_map]

mutual
  theorem conj_wfB (sym : Sym) : ∀ i : Index, Index.wfB sym i = true → Index.wfB sym i.conj = true
    | .mk cm d none, h => by
      rw [Index.conj.eq_1]
      exact (wfB_none sym cm (!d)).mpr ((wfB_none sym cm d).mp h)
    | .mk cm d (some (subs, exts)), h => by
      rw [Index.conj.eq_2]
      obtain ⟨h1, h2, h3, h4, h5⟩ := (wfB_some sym cm d subs exts).mp h
      refine (wfB_some sym cm (!d) _ exts).mpr ⟨h1, conjList_wfListB sym subs h2, h3, ?_, h5⟩
      intro p hp
      obtain ⟨ext, he, hok⟩ := h4 p hp
      refine ⟨ext, he, ?_⟩
      rw [conjList_eq_map, extentOk_conj]; exact hok
  theorem conjList_wfListB (sym : Sym) :
      ∀ l : List Index, Index.wfListB sym l = true → Index.wfListB sym (Index.conjList l) = true
    | [], _ => by simp [Index.conjList, Index.wfListB]
    | i :: is, h => by
      rw [Index.wfListB.eq_2, Bool.and_eq_true] at h
      rw [Index.conjList, Index.wfListB.eq_2, Bool.and_eq_true]
      exact ⟨conj_wfB sym i h.1, conjList_wfListB sym is h.2⟩
end

/-! ### `Index.dropCharges`, `dropUnused` -/

@[simp] theorem dropCharges_dual (i : Index) (cs : List Charge) : (i.dropCharges cs).dual = i.dual := by
  obtain ⟨cm, d, sub⟩ := i; rfl

theorem dropCharges_sizeOf (i : Index) (cs : List Charge) (c : Charge) (hc : c ∉ cs) :
    (i.dropCharges cs).sizeOf? c = i.sizeOf? c := by
  obtain ⟨cm, d, sub⟩ := i
  show alookup (cm.filter (fun p => !cs.contains p.1)) c = alookup cm c
  exact alookup_filter_key (fun k => !cs.contains k) (by simpa using hc)

theorem cmOk_filter {sym : Sym} {cm : List (Charge × Nat)} (p : Charge × Nat → Bool)
    (h : CmOk sym cm) : CmOk sym (cm.filter p) := by
  refine ⟨?_, fun q hq => h.2 q (List.mem_filter.mp hq).1⟩
  have := h.1
  rw [sortedCharges_iff] at this ⊢
  exact List.Pairwise.sublist (List.Sublist.map _ List.filter_sublist) this

theorem dropCharges_wfB {sym : Sym} {i : Index} (cs : List Charge) (h : Index.wfB sym i = true) :
    Index.wfB sym (i.dropCharges cs) = true := by
  obtain ⟨cm, d, sub⟩ := i
  cases sub with
  | none =>
    show Index.wfB sym (.mk _ d none) = true
    exact (wfB_none sym _ d).mpr (cmOk_filter _ ((wfB_none sym cm d).mp h))
  | some se =>
    obtain ⟨subs, exts⟩ := se
    obtain ⟨h1, h2, h3, h4, h5⟩ := (wfB_some sym cm d subs exts).mp h
    show Index.wfB sym (.mk _ d (some (subs, _))) = true
    refine (wfB_some sym _ d subs _).mpr ⟨cmOk_filter _ h1, h2, ?_, ?_, ?_⟩
    · exact List.Nodup.sublist (List.Sublist.map _ List.filter_sublist) h3
    · intro p hp
      obtain ⟨hp1, hp2⟩ := List.mem_filter.mp hp
      obtain ⟨ext, he, hok⟩ := h4 p hp1
      refine ⟨ext, ?_, hok⟩
      rw [alookup_filter_key (fun k => !cs.contains k) hp2]; exact he
    · intro e he
      obtain ⟨he1, he2⟩ := List.mem_filter.mp he
      rw [alookup_filter_key (fun k => !cs.contains k) he2]; exact h5 e he1

/-- what `dropUnused` / `syncCharges` do to one index, given the charges present on its axis -/
def dropFor (ix : Index) (present : List Charge) : Index :=
  let drop := ix.charges.filter (fun c => !present.contains c)
  if drop.isEmpty then ix else ix.dropCharges drop

theorem dropUnused_eq (indices : List Index) (sectors : List Sector) :
    dropUnused indices sectors
      = indices.zipIdx.map (fun p => dropFor p.1 (sectors.filterMap (fun s => s[p.2]?))) := rfl

@[simp] theorem dropFor_dual (ix : Index) (pr : List Charge) : (dropFor ix pr).dual = ix.dual := by
  unfold dropFor; simp only; split <;> simp

theorem dropFor_wfB {sym : Sym} {ix : Index} (pr : List Charge) (h : Index.wfB sym ix = true) :
    Index.wfB sym (dropFor ix pr) = true := by
  unfold dropFor; simp only; split
  · exact h
  · exact dropCharges_wfB _ h

theorem dropFor_sizeOf (ix : Index) (pr : List Charge) (c : Charge) (hc : c ∈ pr) :
    (dropFor ix pr).sizeOf? c = ix.sizeOf? c := by
  unfold dropFor; simp only; split
  · rfl
  · apply dropCharges_sizeOf
    intro hm
    have := (List.mem_filter.mp hm).2
    simp [hc] at this

@[simp] theorem dropUnused_length (indices : List Index) (sectors : List Sector) :
    (dropUnused indices sectors).length = indices.length := by
  simp [dropUnused_eq]

theorem dropUnused_duals (indices : List Index) (sectors : List Sector) :
    (dropUnused indices sectors).map Index.dual = indices.map Index.dual := by
  rw [dropUnused_eq, List.map_map]
  apply List.ext_getElem
  · simp
  · intro i h1 h2
    simp

theorem dropUnused_wf {sym : Sym} {indices : List Index} (sectors : List Sector)
    (h : ∀ i ∈ indices, Index.wfB sym i = true) :
    ∀ i ∈ dropUnused indices sectors, Index.wfB sym i = true := by
  intro i hi
  rw [dropUnused_eq] at hi
  obtain ⟨p, hp, rfl⟩ := List.mem_map.mp hi
  exact dropFor_wfB _ (h p.1 (by
    have := List.mem_zipIdx hp  -- p.1 = indices[p.2 - 0]
    obtain ⟨_, _, h3⟩ := this
    rw [h3]; exact List.getElem_mem _))

theorem dropUnused_blockShape (indices : List Index) (sectors : List Sector) (s : Sector)
    (hs : s ∈ sectors) :
    Arr.blockShape? (dropUnused indices sectors) s = Arr.blockShape? indices s := by
  unfold Arr.blockShape?
  rw [dropUnused_length]
  congr 2
  apply List.ext_getElem
  · simp
  · intro i h1 h2
    simp only [List.length_zipWith, dropUnused_length] at h1 h2
    simp only [List.getElem_zipWith, dropUnused_eq, List.getElem_map, List.getElem_zipIdx]
    apply dropFor_sizeOf
    simp only [Nat.zero_add]
    exact List.mem_filterMap.mpr ⟨s, hs, by rw [List.getElem?_eq_getElem]⟩

/-! ## L3 — validity as a `Prop`, sector charges and block shapes -/

section ValidDef
variable {R : Type}

/-- the sector has one charge per index and its signed combination is `ch` -/
def SecOk (sym : Sym) (idx : List Index) (ch : Charge) (s : Sector) : Prop :=
  s.length = idx.length ∧ Arr.sectorCharge sym (idx.map Index.dual) s = ch

def BlockOk (sym : Sym) (idx : List Index) (ch : Charge) (sb : Sector × Blk R) : Prop :=
  SecOk sym idx ch sb.1 ∧ Arr.blockShape? idx sb.1 = some sb.2.shape ∧ sb.2.wf = true

def PhaseOk (sym : Sym) (idx : List Index) (ch : Charge) (sp : Sector × Int) : Prop :=
  SecOk sym idx ch sp.1 ∧ (sp.2 = 1 ∨ sp.2 = -1)

/-- the pending-sign table: distinct charge-conserving keys, values ±1 -/
def PhasesOk (sym : Sym) (idx : List Index) (ch : Charge) (phases : List (Sector × Int)) : Prop :=
  (phases.map (·.1)).Nodup ∧ ∀ sp ∈ phases, PhaseOk sym idx ch sp

def SignsOk (sym : Sym) (fermi : Bool) (idx : List Index) (ch : Charge)
    (phases : List (Sector × Int)) (oddpos : List (Int × Bool)) : Prop :=
  if fermi = true then
    PhasesOk sym idx ch phases ∧ ((oddpos.length % 2 == 1) = sym.parity ch)
  else phases = [] ∧ oddpos = []

/-- `Arr.validB` clause by clause -/
structure Valid (a : Arr R) : Prop where
  idx : ∀ i ∈ a.indices, Index.wfB a.sym i = true
  chg : a.sym.valid a.charge = true
  nodup : (a.blocks.map (·.1)).Nodup
  blk : ∀ sb ∈ a.blocks, BlockOk a.sym a.indices a.charge sb
  sgn : SignsOk a.sym a.fermi a.indices a.charge a.phases a.oddpos

theorem validB_iff (a : Arr R) : a.validB = true ↔ Valid a := by
  unfold Arr.validB
  simp only [Bool.and_eq_true, wfListB_iff, allDistinct_iff, List.all_eq_true]
  constructor
  · rintro ⟨⟨⟨⟨h1, h2⟩, h3⟩, h4⟩, h5⟩
    refine ⟨h1, h2, h3, ?_, ?_⟩
    · rintro ⟨s, b⟩ hsb
      have := h4 (s, b) hsb
      simp only [Bool.and_eq_true, beq_iff_eq, Arr.isValidSector, Arr.ndim, Arr.duals] at this
      exact ⟨⟨this.1.1.1, this.1.1.2⟩, this.1.2, this.2⟩
    · unfold SignsOk PhasesOk
      split at h5
      · rename_i hf
        simp only [hf, if_true]
        simp only [Bool.and_eq_true, allDistinct_iff, List.all_eq_true, beq_iff_eq] at h5
        refine ⟨⟨h5.1.1, ?_⟩, ?_⟩
        · rintro ⟨s, p⟩ hsp
          have := h5.1.2 (s, p) hsp
          simp only [Bool.and_eq_true, beq_iff_eq, Bool.or_eq_true, Arr.isValidSector, Arr.ndim,
            Arr.duals] at this
          exact ⟨⟨this.1.1, this.1.2⟩, this.2⟩
        · exact h5.2
      · rename_i hf
        simp only [hf, if_false]
        simpa using h5
  · rintro ⟨h1, h2, h3, h4, h5⟩
    refine ⟨⟨⟨⟨h1, h2⟩, h3⟩, ?_⟩, ?_⟩
    · rintro ⟨s, b⟩ hsb
      obtain ⟨⟨a1, a2⟩, a3, a4⟩ := h4 (s, b) hsb
      simp only [Bool.and_eq_true, beq_iff_eq, Arr.isValidSector, Arr.ndim, Arr.duals]
      exact ⟨⟨⟨a1, a2⟩, a3⟩, a4⟩
    · unfold SignsOk PhasesOk at h5
      split
      · rename_i hf
        simp only [hf, if_true] at h5
        simp only [Bool.and_eq_true, allDistinct_iff, List.all_eq_true, beq_iff_eq]
        refine ⟨⟨h5.1.1, ?_⟩, h5.2⟩
        rintro ⟨s, p⟩ hsp
        obtain ⟨⟨a1, a2⟩, a3⟩ := h5.1.2 (s, p) hsp
        simp only [Bool.and_eq_true, beq_iff_eq, Bool.or_eq_true, Arr.isValidSector, Arr.ndim,
          Arr.duals]
        exact ⟨⟨a1, a2⟩, a3⟩
      · rename_i hf
        simp only [hf, if_false] at h5
        simpa using h5

end ValidDef

/-! ### joint lists: a sector together with the indices it lives on -/

/-- signed charges of a list of (index, charge) pairs -/
def sgn (sym : Sym) (P : List (Index × Charge)) : List Charge :=
  P.map (fun p => sym.sign p.2 p.1.dual)

theorem zipWith_map_map {α β γ δ : Type} (f : β → γ → δ) (g : α → β) (h : α → γ) (l : List α) :
    List.zipWith f (l.map g) (l.map h) = l.map (fun x => f (g x) (h x)) := by
  induction l with
  | nil => rfl
  | cons a l ih => simp [ih]

theorem sectorCharge_joint (sym : Sym) (P : List (Index × Charge)) :
    Arr.sectorCharge sym ((P.map (·.1)).map Index.dual) (P.map (·.2)) = sym.combine (sgn sym P) := by
  unfold Arr.sectorCharge sgn
  rw [List.map_map, zipWith_map_map]
  rfl

theorem secOk_iff {sym : Sym} {idx : List Index} {ch : Charge} {s : Sector} :
    SecOk sym idx ch s ↔
      ∃ P : List (Index × Charge), idx = P.map (·.1) ∧ s = P.map (·.2) ∧ sym.combine (sgn sym P) = ch := by
  constructor
  · rintro ⟨hl, hc⟩
    refine ⟨idx.zip s, ?_, ?_, ?_⟩
    · rw [List.map_fst_zip (by omega)]
    · rw [List.map_snd_zip (by omega)]
    · rw [← sectorCharge_joint, List.map_fst_zip (by omega), List.map_snd_zip (by omega)]; exact hc
  · rintro ⟨P, rfl, rfl, hc⟩
    exact ⟨by simp, by rw [sectorCharge_joint]; exact hc⟩

/-- (index, charge, size) triples -/
abbrev Trip := Index × Charge × Nat

def TOk (T : List Trip) : Prop := ∀ t ∈ T, t.1.sizeOf? t.2.1 = some t.2.2

theorem blockShape?_iff {idx : List Index} {s : Sector} {shp : List Nat} :
    Arr.blockShape? idx s = some shp ↔
      ∃ T : List Trip, TOk T ∧ idx = T.map (·.1) ∧ s = T.map (·.2.1) ∧ shp = T.map (·.2.2) := by
  unfold Arr.blockShape?
  induction idx generalizing s shp with
  | nil =>
    cases s with
    | nil =>
      simp only [List.length_nil, bne_self_eq_false, Bool.false_eq_true, if_false,
        List.zipWith_nil_left, List.mapM_nil, Option.pure_def, Option.some.injEq]
      constructor
      · rintro rfl; exact ⟨[], by simp [TOk], rfl, rfl, rfl⟩
      · rintro ⟨T, _, h1, _, h3⟩
        have : T = [] := by simpa using h1.symm
        subst this; simpa using h3.symm
    | cons c s =>
      simp only [List.length_nil, List.length_cons]
      constructor
      · intro h; simp at h
      · rintro ⟨T, _, h1, h2, _⟩
        have : T = [] := by simpa using h1.symm
        subst this; simp at h2
  | cons ix idx ih =>
    cases s with
    | nil =>
      constructor
      · intro h; simp at h
      · rintro ⟨T, _, h1, h2, _⟩
        have : T = [] := by simpa using h2.symm
        subst this; simp at h1
    | cons c s =>
      have ih' := @ih s
      by_cases hl : idx.length = s.length
      · simp only [hl, bne_self_eq_false, Bool.false_eq_true, if_false] at ih'
        simp only [List.length_cons, hl, bne_self_eq_false, Bool.false_eq_true, if_false,
          List.zipWith_cons_cons, List.mapM_cons, id_eq]
        constructor
        · intro h
          cases hsz : ix.sizeOf? c with
          | none => rw [hsz] at h; simp at h
          | some n =>
            rw [hsz] at h
            cases hrest : List.mapM id (List.zipWith (fun (ix : Index) c => ix.sizeOf? c) idx s) with
            | none => rw [hrest] at h; simp at h
            | some rest =>
              rw [hrest] at h
              simp only [Option.pure_def, Option.bind_eq_bind, Option.bind_some, Option.some.injEq] at h
              obtain ⟨T, hT, h1, h2, h3⟩ := ih'.mp hrest
              refine ⟨(ix, c, n) :: T, ?_, ?_, ?_, ?_⟩
              · intro t ht
                rcases List.mem_cons.mp ht with rfl | ht
                · exact hsz
                · exact hT t ht
              · simp [h1]
              · simp [h2]
              · simp [← h, h3]
        · rintro ⟨T, hT, h1, h2, h3⟩
          cases T with
          | nil => simp at h1
          | cons t T =>
            simp only [List.map_cons, List.cons.injEq] at h1 h2
            obtain ⟨rfl, h1⟩ := h1
            obtain ⟨rfl, h2⟩ := h2
            have hrest := (@ih' (T.map (·.2.2))).mpr ⟨T, fun t' ht' => hT t' (by simp [ht']), h1, h2, rfl⟩
            rw [hT t (by simp), hrest, h3]
            simp
      · have hne : ((ix :: idx).length != (c :: s).length) = true := by simp [hl]
        simp only [hne, if_true]
        constructor
        · intro h; cases h
        · rintro ⟨T, _, h1, h2, _⟩
          exfalso
          apply hl
          have e1 := congrArg List.length h1
          have e2 := congrArg List.length h2
          simp at e1 e2
          omega

theorem blockShape?_length {idx : List Index} {s : Sector} {shp : List Nat}
    (h : Arr.blockShape? idx s = some shp) : shp.length = idx.length ∧ s.length = idx.length := by
  obtain ⟨T, _, rfl, rfl, rfl⟩ := blockShape?_iff.mp h
  simp

/-! ### group facts in the form used below -/

theorem combine_cons (s : Sym) (x : Charge) (L : List Charge) :
    s.combine (x :: L) = s.combine [x, s.combine L] := by
  obtain ⟨x1, x2⟩ := x
  cases s <;> sym_arith

theorem combine_pair_comm (s : Sym) (x y : Charge) : s.combine [x, y] = s.combine [y, x] := by
  obtain ⟨x1, x2⟩ := x
  obtain ⟨y1, y2⟩ := y
  cases s <;> sym_arith

theorem combine_combine (s : Sym) (L : List Charge) : s.combine [s.combine L] = s.combine L := by
  cases s <;> sym_arith

theorem combine_zero_right' (s : Sym) (L : List Charge) :
    s.combine [s.combine L, s.zero] = s.combine L := by
  cases s <;> sym_arith

theorem combine_zero_left' (s : Sym) (L : List Charge) :
    s.combine [s.zero, s.combine L] = s.combine L := by
  cases s <;> sym_arith

theorem sign_zero (s : Sym) (d : Bool) : s.sign s.zero d = s.zero := by
  cases s <;> cases d <;> decide

theorem combine_sign_cancel' (s : Sym) (c : Charge) : s.combine [c, s.sign c true] = s.zero := by
  obtain ⟨c1, c2⟩ := c
  cases s <;> sym_arith

theorem sign_valid' (s : Sym) (c : Charge) (d : Bool) (h : s.valid c = true) :
    s.valid (s.sign c d) = true := by
  obtain ⟨c1, c2⟩ := c
  cases s <;> cases d <;> sym_arith

theorem parity_sign' (s : Sym) (c : Charge) (d : Bool) : s.parity (s.sign c d) = s.parity c := by
  obtain ⟨c1, c2⟩ := c
  cases s <;> cases d <;>
  simp only [Sym.sign, Sym.parity, if_true, if_false, Bool.false_eq_true] <;> congr 1 <;> omega

theorem parity_combine_pair' (s : Sym) (a b : Charge) :
    s.parity (s.combine [a, b]) = xor (s.parity a) (s.parity b) := by
  obtain ⟨a1, a2⟩ := a
  obtain ⟨b1, b2⟩ := b
  cases s <;>
  simp only [Sym.combine_Z2, Sym.combine_Z4, Sym.combine_U1, Sym.combine_U1U1, Sym.combine_Z2Z2,
    Sym.parity, Sym.sum1_cons, Sym.sum2_cons, Sym.sum1_nil, Sym.sum2_nil] <;>
  apply Sym.beq_one_xor <;> omega

theorem combine_perm' (s : Sym) {xs ys : List Charge} (h : xs.Perm ys) :
    s.combine xs = s.combine ys := by
  have h1 := Sym.sum1_perm h
  have h2 := Sym.sum2_perm h
  cases s <;> sym_arith

/-- flipping every direction negates the signed combination (every symmetry, every charge) -/
theorem combine_flip (s : Sym) (P : List (Index × Charge)) :
    s.combine (P.map (fun p => s.sign p.2 (!p.1.dual))) = s.sign (s.combine (sgn s P)) true := by
  unfold sgn
  induction P with
  | nil => cases s <;> decide
  | cons p P ih =>
    obtain ⟨ix, c1, c2⟩ := p
    simp only [List.map_cons]
    generalize List.map (fun p : Index × Charge => s.sign p.2 (!p.1.dual)) P = Y at *
    generalize List.map (fun p : Index × Charge => s.sign p.2 p.1.dual) P = X at *
    cases s <;> cases ix.dual <;> sym_arith

/-! ### natural list transformations (re-keying of sectors) -/

/-- a list transformation that commutes with `map` and only selects elements -/
structure NatT (F : ∀ {α : Type}, List α → List α) : Prop where
  map : ∀ {α β : Type} (f : α → β) (l : List α), F (l.map f) = (F l).map f
  mem : ∀ {α : Type} (l : List α) (x : α), x ∈ F l → x ∈ l

theorem natT_permuted (p : List Nat) : NatT (fun {α} (l : List α) => permuted l p) :=
  ⟨fun f l => permuted_map f l p, fun _ _ h => mem_permuted h⟩

theorem natT_without (r : List Nat) : NatT (fun {α} (l : List α) => without l r) :=
  ⟨fun f l => without_map f l r, fun _ _ h => mem_without h⟩

theorem natT_reverse : NatT (fun {α} (l : List α) => l.reverse) :=
  ⟨fun f l => by simp, fun _ _ h => by simpa using h⟩

theorem blockShape?_natT {F : ∀ {α : Type}, List α → List α} (hF : NatT F)
    {idx : List Index} {s : Sector} {shp : List Nat} (h : Arr.blockShape? idx s = some shp) :
    Arr.blockShape? (F idx) (F s) = some (F shp) := by
  obtain ⟨T, hT, rfl, rfl, rfl⟩ := blockShape?_iff.mp h
  exact blockShape?_iff.mpr ⟨F T, fun t ht => hT t (hF.mem _ _ ht), hF.map _ _, hF.map _ _, hF.map _ _⟩

theorem secOk_natT {F : ∀ {α : Type}, List α → List α} (hF : NatT F)
    {sym : Sym} {idx : List Index} {ch : Charge} {s : Sector}
    (hperm : ∀ l : List (Index × Charge), l.length = idx.length → (F l).Perm l)
    (h : SecOk sym idx ch s) : SecOk sym (F idx) ch (F s) := by
  obtain ⟨P, rfl, rfl, hc⟩ := secOk_iff.mp h
  refine secOk_iff.mpr ⟨F P, hF.map _ _, hF.map _ _, ?_⟩
  rw [← hc]
  apply combine_perm'
  exact List.Perm.map _ (hperm P (by simp))

theorem secOk_conj {sym : Sym} {idx : List Index} {ch : Charge} {s : Sector}
    (h : SecOk sym idx ch s) : SecOk sym (idx.map Index.conj) (sym.sign ch true) s := by
  obtain ⟨P, rfl, rfl, hc⟩ := secOk_iff.mp h
  refine secOk_iff.mpr ⟨P.map (fun p => (p.1.conj, p.2)), by simp [Function.comp_def],
    by simp [Function.comp_def], ?_⟩
  rw [← hc, ← combine_flip]
  unfold sgn
  simp [Function.comp_def]

theorem blockShape?_conj (idx : List Index) (s : Sector) :
    Arr.blockShape? (idx.map Index.conj) s = Arr.blockShape? idx s :=
  blockShape?_congr (by simp [Function.comp_def]) s

theorem secOk_dropUnused {sym : Sym} {idx : List Index} {ch : Charge} {s : Sector}
    (secs : List Sector) (h : SecOk sym idx ch s) : SecOk sym (dropUnused idx secs) ch s := by
  unfold SecOk at *
  rw [dropUnused_length, dropUnused_duals]; exact h

/-- inserting an index with charge `c` at position `k` -/
theorem secOk_insert {sym : Sym} {idx : List Index} {ch : Charge} {s : Sector}
    (k : Nat) (ix : Index) (c : Charge) (h : SecOk sym idx ch s) :
    SecOk sym (idx.take k ++ [ix] ++ idx.drop k) (sym.combine [ch, sym.sign c ix.dual])
      (s.take k ++ [c] ++ s.drop k) := by
  obtain ⟨P, rfl, rfl, hc⟩ := secOk_iff.mp h
  refine secOk_iff.mpr ⟨P.take k ++ [(ix, c)] ++ P.drop k, by simp [List.map_take, List.map_drop],
    by simp [List.map_take, List.map_drop], ?_⟩
  have hp : (P.take k ++ [(ix, c)] ++ P.drop k).Perm ((ix, c) :: P) := by
    have h1 : (P.take k ++ [(ix, c)] ++ P.drop k).Perm ([(ix, c)] ++ P.take k ++ P.drop k) :=
      List.Perm.append_right _ List.perm_append_comm
    simpa using h1
  have := combine_perm' sym (List.Perm.map (fun p : Index × Charge => sym.sign p.2 p.1.dual) hp)
  unfold sgn
  rw [this, List.map_cons, combine_cons, combine_pair_comm]
  unfold sgn at hc
  rw [hc]

theorem blockShape?_insert {idx : List Index} {s : Sector} {shp : List Nat}
    (k : Nat) (ix : Index) (c : Charge) (n : Nat) (hix : ix.sizeOf? c = some n)
    (h : Arr.blockShape? idx s = some shp) :
    Arr.blockShape? (idx.take k ++ [ix] ++ idx.drop k) (s.take k ++ [c] ++ s.drop k)
      = some (shp.take k ++ [n] ++ shp.drop k) := by
  obtain ⟨T, hT, rfl, rfl, rfl⟩ := blockShape?_iff.mp h
  refine blockShape?_iff.mpr ⟨T.take k ++ [(ix, c, n)] ++ T.drop k, ?_,
    by simp [List.map_take, List.map_drop], by simp [List.map_take, List.map_drop],
    by simp [List.map_take, List.map_drop]⟩
  intro t ht
  simp only [List.append_assoc, List.mem_append, List.mem_cons, List.not_mem_nil, or_false] at ht
  rcases ht with ht | rfl | ht
  · exact hT t (List.mem_of_mem_take ht)
  · exact hix
  · exact hT t (List.mem_of_mem_drop ht)

theorem blockShape?_append {idx₁ idx₂ : List Index} {s₁ s₂ : Sector} {shp₁ shp₂ : List Nat}
    (h₁ : Arr.blockShape? idx₁ s₁ = some shp₁) (h₂ : Arr.blockShape? idx₂ s₂ = some shp₂) :
    Arr.blockShape? (idx₁ ++ idx₂) (s₁ ++ s₂) = some (shp₁ ++ shp₂) := by
  obtain ⟨T₁, hT₁, rfl, rfl, rfl⟩ := blockShape?_iff.mp h₁
  obtain ⟨T₂, hT₂, rfl, rfl, rfl⟩ := blockShape?_iff.mp h₂
  refine blockShape?_iff.mpr ⟨T₁ ++ T₂, ?_, by simp, by simp, by simp⟩
  intro t ht
  rcases List.mem_append.mp ht with ht | ht
  · exact hT₁ t ht
  · exact hT₂ t ht

end ValidP
end SymmModel
