/-
  SymmModel.Proofs.Reshape6f — `reshape` there and back for merge / squeeze targets, unconditionally:
  the planner's success is a theorem (`planner_items_total`).
-/
import SymmModel.Proofs.Reshape6e
namespace SymmModel.Reshape5
open SymmModel SymmModel.Reshape SymmModel.C07 SymmModel.Reshape3 ReshapeP FuseP

theorem prod_items (items : List Item) : prod (shapeOf items) = prod (targetOf items) := by
  induction items with
  | nil => rfl
  | cons a r ih =>
    rw [shapeOf_cons, targetOf_cons, C07.prod_append, C07.prod_append, ih]
    cases a <;> simp [Item.shape, Item.target, prod]

variable {R : Type} [Zero R] [Neg R] [Lazy.LawfulNeg R]
variable {fuse : Arr R → List (List Nat) → Except Err (Arr R)}
  {unf : Arr R → Nat → Except Err (Arr R)} {Good : Arr R → Prop}
  {sg : Sym → Index → List Index → Sector → Int}

theorem reshape_roundtrip_items_generic (H : StepOK unf Good sg) (F : FuseOK fuse unf Good)
    (hind : ∀ x p y, unf x p = .ok y → ∃ ix subs exts, x.indices[p]? = some ix ∧ ix.sub = some (subs, exts))
    (hfd : ∀ x G, Good x → fuseDispatch x G = fuse x G)
    (hdisp : ∀ x p, Good x → unfuseDispatch x p = unf x p)
    (a : Arr R) (hg : Good a) (hnf : ∀ ix ∈ a.indices, ix.sub = none) (items : List Item)
    (hshape : a.shape = shapeOf items) (hok : ItemsOk items) (hne : targetOf items ≠ [])
    (hpos : ∀ d ∈ a.shape, 0 < d) :
    ∃ y z, reshapeArr a ((targetOf items).map Int.ofNat) = .ok y
      ∧ reshapeArr y (a.shape.map Int.ofNat) = .ok z ∧ Good z ∧ VEq z a := by
  obtain ⟨t, ht, hu, hexp⟩ := planner_items_total items hok hne
  have h3 : calcReshapeArgs a.shape (targetOf items) a.subsizes = .ok t := by
    rw [subsizes_nones a hnf, hshape]; exact ht
  have hprod : prod a.shape = prod (targetOf items) := by rw [hshape]; exact prod_items items
  have hwf := reshape_plan_certified a (targetOf items) t (denseB_unfused a hnf) hpos hprod h3
  have h3' := h3
  rw [subsizes_nones a hnf] at h3' hwf
  have hc := calls_of_planner a.shape (targetOf items) t h3' hwf
  have hteq : t = ([], t.2.1, []) := by
    obtain ⟨t1, t2, t3⟩ := t
    simp only at hu hexp; subst hu; subst hexp; rfl
  have hnd : a.shape.length = a.ndim := by simp [Arr.shape, Arr.ndim]
  rw [hnd] at hc
  obtain ⟨y, z, hy, hz, g, hv⟩ := roundtrip_generic' H F hind hfd hdisp a hg hnf t.2.1 hc
  refine ⟨y, z, ?_, hz, g, hv⟩
  rw [reshapeArr_eq a _ _ (targetOf items) t (findFullReshape_nat _ _) (mapM_toNat _) h3, hteq]
  exact hy

end SymmModel.Reshape5
