/-
  SymmModel.Proofs.Heap2Binary — content-level meaning of the effect programs with a second operand:
  `Prog.mutsK` (interleaved effects on the target array and on a temporary dict), `binaryK`
  (`BlockBase._binary_blockwise_op(…, inplace=True)`), `syncedK` (`if o.phases: o = o.phase_sync()`)
  and a version of `script_refines` that also returns the footprint of the script.
  Used for `inplace_same_value` of `__iadd__/__isub__/__imul__/__itruediv__/__ipow__` (property C14).
-/
import SymmModel.Proofs.HeapRefine
namespace SymmModel.Heap

/-! ### footprint of effects on one target array -/

/-- `h'` is `h` after in-place effects on the array `x`: only `x` was rebound, only dicts `x` pointed
    to (or dicts allocated meanwhile) were mutated, and `x` now points to old dicts of its own or to
    new ones -/
structure TStep (h h' : Heap) (x : ObjId) : Prop where
  step : Step (· = x) (· ∈ dictsOf h x) h h'
  dicts : ∀ d ∈ dictsOf h' x, d ∈ dictsOf h x ∨ h.size ≤ d

theorem TStep.refl (h : Heap) (x : ObjId) : TStep h h x := ⟨Step.refl _ _ _, fun _ hd => Or.inl hd⟩

theorem TStep.trans {h h1 h2 : Heap} {x : ObjId} (s1 : TStep h h1 x) (s2 : TStep h1 h2 x) : TStep h h2 x := by
  refine ⟨s1.step.trans s2.step (fun _ _ e => e) ?_, ?_⟩
  · intro i hi hd
    rcases s1.dicts i hd with h1' | h1'
    · exact h1'
    · exact absurd hi (Nat.not_lt.mpr h1')
  · intro d hd
    rcases s2.dicts d hd with h1' | h1'
    · exact s1.dicts d h1'
    · exact Or.inr (Nat.le_trans s1.step.size h1')

theorem runAct_tstep (a : Act) (h : Heap) (x : ObjId) : TStep h (runAct a h x) x :=
  ⟨(runAct_spec a h x).1, (runAct_spec a h x).2⟩

theorem acts_tstep (as : List Act) (h : Heap) (x : ObjId) :
    TStep h (as.foldl (fun h a => runAct a h x) h) x := by
  induction as generalizing h with
  | nil => exact TStep.refl _ _
  | cons a r ih => exact (runAct_tstep a h x).trans (ih _)

/-- the same, where additionally the dict objects in `E` (temporaries) may have been mutated -/
structure TStepE (E : ObjId → Prop) (h h' : Heap) (x : ObjId) : Prop where
  step : Step (· = x) (fun d => d ∈ dictsOf h x ∨ E d) h h'
  dicts : ∀ d ∈ dictsOf h' x, d ∈ dictsOf h x ∨ h.size ≤ d

theorem TStep.toE {h h' : Heap} {x : ObjId} (s : TStep h h' x) (E : ObjId → Prop) : TStepE E h h' x :=
  ⟨s.step.mono (fun _ e => e) (fun _ e => Or.inl e), s.dicts⟩

theorem TStepE.refl (E : ObjId → Prop) (h : Heap) (x : ObjId) : TStepE E h h x := (TStep.refl h x).toE E

theorem TStepE.trans {E : ObjId → Prop} {h h1 h2 : Heap} {x : ObjId} (s1 : TStepE E h h1 x)
    (s2 : TStepE E h1 h2 x) : TStepE E h h2 x := by
  refine ⟨s1.step.trans s2.step (fun _ _ e => e) ?_, ?_⟩
  · intro i hi hd
    rcases hd with hd | hd
    · rcases s1.dicts i hd with h1' | h1'
      · exact Or.inl h1'
      · exact absurd hi (Nat.not_lt.mpr h1')
    · exact Or.inr hd
  · intro d hd
    rcases s2.dicts d hd with h1' | h1'
    · exact s1.dicts d h1'
    · exact Or.inr (Nat.le_trans s1.step.size h1')

/-- temporaries allocated after `h` do not count -/
theorem TStep.transE {E : ObjId → Prop} {h h1 h2 : Heap} {x : ObjId} (s1 : TStep h h1 x)
    (s2 : TStepE E h1 h2 x) (hE : ∀ i, E i → h.size ≤ i) : TStep h h2 x := by
  refine ⟨s1.step.trans s2.step (fun _ _ e => e) ?_, ?_⟩
  · intro i hi hd
    rcases hd with hd | hd
    · rcases s1.dicts i hd with h1' | h1'
      · exact h1'
      · exact absurd hi (Nat.not_lt.mpr h1')
    · exact absurd hi (Nat.not_lt.mpr (hE i hd))
  · intro d hd
    rcases s2.dicts d hd with h1' | h1'
    · exact s1.dicts d h1'
    · exact Or.inr (Nat.le_trans s1.step.size h1')

/-- an array object far from the target survives the target's effects -/
theorem TStep.wf_other {h h' : Heap} {x y : ObjId} (s : TStep h h' x) {a : ArrObj} {bd : Dict}
    {pd : Option Dict} (w : WFArr h y a bd pd) (hne : y ≠ x) (hd : ∀ d ∈ dictsOf h y, d ∉ dictsOf h x) :
    WFArr h' y a bd pd := by
  have hdy : dictsOf h y = dictsOfArr a := dictsOf_of_get? w.arr
  refine wf_other_step s.step w hne (hd _ ?_) ?_
  · rw [hdy]; simp [dictsOfArr]
  · intro p hp
    exact hd _ (by rw [hdy]; simp [dictsOfArr, hp])

theorem TStep.dictsOf_other {h h' : Heap} {x y : ObjId} (s : TStep h h' x) (hy : y < h.size) (hne : y ≠ x) :
    dictsOf h' y = dictsOf h y := s.step.dictsOf_same hy hne

/-- `script_refines` together with the footprint -/
theorem script_refines2 (s : Script) (t : Nat) (k : Prog) :
    ∀ {h : Heap} {env : Env} {a : ArrObj} {bd : Dict} {pd : Option Dict}, t < env.length →
      WFArr h (envGet env t) a bd pd →
      ∃ h' a' bd' pd', (s.prog t [] k).run h env = k.run h' env ∧ WFArr h' (envGet env t) a' bd' pd' ∧
        (cont a' bd' pd', h'.bufs) = s.pure (cont a bd pd, h.bufs) ∧ TStep h h' (envGet env t) := by
  induction s with
  | nil => intro h env a bd pd _ w; exact ⟨h, a, bd, pd, rfl, w, rfl, TStep.refl _ _⟩
  | acts as s ih =>
    intro h env a bd pd ht w
    obtain ⟨a1, bd1, pd1, w1, e1⟩ := acts_refines as w
    obtain ⟨h2, a2, bd2, pd2, r2, w2, e2, t2⟩ := ih ht w1
    refine ⟨h2, a2, bd2, pd2, ?_, w2, ?_, (acts_tstep as h _).trans t2⟩
    · simp only [Script.prog, actsK_run]; exact r2
    · simp only [Script.pure]; rw [e2, e1]
  | read f ih =>
    intro h env a bd pd ht w
    simp only [Script.prog, Prog.run, List.map_nil, Script.pure]
    rw [view_at ht w]
    exact ih _ _ ht w

/-! ### interleaved effects on the target and on a temporary dict -/

/-- value-level meaning of a `Mut` on (target state, temporary dict); the variables are forgotten -/
def Mut.pure : Mut → PState × Dict → PState × Dict
  | .act _ a, s => (a.pure s.1, s.2)
  | .dmut _ f, s => (s.1, f s.2)

def Mut.exec (env : Env) (h : Heap) : Mut → Heap
  | .act t a => runAct a h (envGet env t)
  | .dmut t f => updDict h (envGet env t) f

theorem mutsK_run (l : List Mut) (k : Prog) (h : Heap) (env : Env) :
    (Prog.mutsK l k).run h env = k.run (l.foldl (Mut.exec env) h) env := by
  induction l generalizing h with
  | nil => rfl
  | cons m r ih =>
    cases m with
    | act t a => simp only [Prog.mutsK, Mut.cmd, Prog.run, runCmd, List.foldl_cons, Mut.exec]; exact ih _
    | dmut t f => simp only [Prog.mutsK, Mut.cmd, Prog.run, runCmd, List.foldl_cons, Mut.exec]; exact ih _

/-- the temporary dict `q` (holding `td`): a dict object the target `x` does not point to -/
structure TmpOK (h : Heap) (x : ObjId) (q : DictId) (td : Dict) : Prop where
  get : h.get? q = some (.dict td)
  nd : q ∉ dictsOf h x

theorem muts_refines (env : Env) (t tmp : Nat) (l : List Mut)
    (hl : ∀ m ∈ l, (∃ a, m = .act t a) ∨ (∃ f, m = .dmut tmp f)) :
    ∀ {h : Heap} {a : ArrObj} {bd : Dict} {pd : Option Dict} {td : Dict},
      WFArr h (envGet env t) a bd pd → TmpOK h (envGet env t) (envGet env tmp) td →
      ∃ a' bd' pd' td', WFArr (l.foldl (Mut.exec env) h) (envGet env t) a' bd' pd' ∧
        TmpOK (l.foldl (Mut.exec env) h) (envGet env t) (envGet env tmp) td' ∧
        ((cont a' bd' pd', (l.foldl (Mut.exec env) h).bufs), td') =
          l.foldl (fun s m => m.pure s) ((cont a bd pd, h.bufs), td) ∧
        TStepE (· = envGet env tmp) h (l.foldl (Mut.exec env) h) (envGet env t) := by
  induction l with
  | nil => intro h a bd pd td w q; exact ⟨a, bd, pd, td, w, q, rfl, TStepE.refl _ _ _⟩
  | cons m r ih =>
    intro h a bd pd td w q
    have hr : ∀ m' ∈ r, (∃ a, m' = .act t a) ∨ (∃ f, m' = .dmut tmp f) :=
      fun m' h' => hl m' (List.mem_cons_of_mem _ h')
    have hqx : envGet env tmp ≠ envGet env t := by
      intro e; have := q.get; rw [e, w.arr] at this; cases this
    rcases hl m (List.mem_cons_self ..) with ⟨act, rfl⟩ | ⟨f, rfl⟩
    · -- an effect on the target: the temporary dict is not touched
      obtain ⟨a1, bd1, pd1, w1, e1⟩ := runAct_refines act w
      have ts := runAct_tstep act h (envGet env t)
      have q1 : TmpOK (runAct act h (envGet env t)) (envGet env t) (envGet env tmp) td := by
        refine ⟨ts.step.same q.get hqx q.nd, ?_⟩
        intro hd
        rcases ts.dicts _ hd with h1 | h1
        · exact q.nd h1
        · exact absurd (get?_lt q.get) (Nat.not_lt.mpr h1)
      obtain ⟨a2, bd2, pd2, td2, w2, q2, e2, t2⟩ := ih hr w1 q1
      refine ⟨a2, bd2, pd2, td2, w2, q2, ?_, (ts.toE _).trans t2⟩
      simp only [List.foldl_cons, Mut.exec]
      rw [e2, e1]; rfl
    · -- an effect on the temporary dict: the target is not touched
      have hdx : dictsOf h (envGet env t) = dictsOfArr a := dictsOf_of_get? w.arr
      have hnb : envGet env tmp ≠ a.blocks := by
        intro e; apply q.nd; rw [hdx, e]; simp [dictsOfArr]
      have hnp : ∀ p, a.phases = some p → envGet env tmp ≠ p := by
        intro p hp e; apply q.nd; rw [hdx, e]; simp [dictsOfArr, hp]
      have w1 : WFArr (updDict h (envGet env tmp) f) (envGet env t) a bd pd := wf_updOther w hqx hnb hnp f
      have q1 : TmpOK (updDict h (envGet env tmp) f) (envGet env t) (envGet env tmp) (f td) := by
        refine ⟨get?_updDict_self q.get f, ?_⟩
        rw [dictsOf_of_get? w1.arr, ← hdx]; exact q.nd
      have ts : TStepE (· = envGet env tmp) h (updDict h (envGet env tmp) f) (envGet env t) := by
        refine ⟨(updDict_step h (envGet env tmp) f).mono (fun _ e => e.elim) (fun _ e => Or.inr e), ?_⟩
        intro d hd
        rw [dictsOf_of_get? w1.arr, ← hdx] at hd; exact Or.inl hd
      obtain ⟨a2, bd2, pd2, td2, w2, q2, e2, t2⟩ := ih hr w1 q1
      refine ⟨a2, bd2, pd2, td2, w2, q2, ?_, ts.trans t2⟩
      simp only [List.foldl_cons, Mut.exec]
      rw [e2, updDict_bufs]; rfl

/-! ### `_binary_blockwise_op(other, fn, missing, inplace=True)` -/

/-- the loop of `_binary_blockwise_op` as a list of effects (`xb` = the left blocks, `ob` = the copy of
    the right block dict, both as they are when the loop starts) -/
def binMuts (t tmp : Nat) (missing : Missing) (xb ob : Dict) : List Mut :=
  let both (e : Key × Val) : List Mut :=
    [.dmut tmp (fun d => d.pop e.1), .act t (.bKern e.1 tFn [e.2.toNat, (ob.getD e.1 0).toNat])]
  match missing with
  | .strict => (xb.takeWhile fun e => ob.has e.1).flatMap both
  | .outer => xb.flatMap fun e => if ob.has e.1 then both e else [.act t (.bPut e.1 e.2.toNat)]
  | .inner => xb.flatMap fun e => if ob.has e.1 then both e else [.act t (.bPop e.1)]

/-- what follows the loop: `xy_blocks.update(other_blocks)` for `missing="outer"` -/
def binTail (t tmp : Nat) (missing : Missing) (k : Prog) : Prog :=
  match missing with
  | .outer => .read fun v => .cmd (.act t (.bUpdate (v.dictAt tmp))) k
  | _ => k

theorem binaryK_eq (t o tmp : Nat) (missing : Missing) (k : Prog) :
    binaryK t o tmp missing k =
      .cmd (.dictCopy o) (.read fun v =>
        Prog.mutsK (binMuts t tmp missing (v.at t).blocks (v.dictAt tmp)) (binTail t tmp missing k)) := by
  unfold binaryK
  cases missing <;> rfl

theorem binMuts_tgt (t tmp : Nat) (missing : Missing) (xb ob : Dict) :
    ∀ m ∈ binMuts t tmp missing xb ob, (∃ a, m = .act t a) ∨ (∃ f, m = .dmut tmp f) := by
  intro m hm
  cases missing <;> simp only [binMuts, List.mem_flatMap] at hm <;> obtain ⟨e, _, hm⟩ := hm
  · simp only [List.mem_cons, List.not_mem_nil, or_false] at hm
    rcases hm with rfl | rfl
    · exact Or.inr ⟨_, rfl⟩
    · exact Or.inl ⟨_, rfl⟩
  all_goals
    split at hm
    · simp only [List.mem_cons, List.not_mem_nil, or_false] at hm
      rcases hm with rfl | rfl
      · exact Or.inr ⟨_, rfl⟩
      · exact Or.inl ⟨_, rfl⟩
    · simp only [List.mem_cons, List.not_mem_nil, or_false] at hm
      subst hm; exact Or.inl ⟨_, rfl⟩

/-- the value-level meaning does not depend on where the variables live -/
theorem binMuts_pure (t tmp t' tmp' : Nat) (missing : Missing) (xb ob : Dict) :
    (binMuts t tmp missing xb ob).map Mut.pure = (binMuts t' tmp' missing xb ob).map Mut.pure := by
  cases missing <;> simp only [binMuts, List.map_flatMap]
  · rfl
  all_goals
    congr 1; funext e; split <;> rfl

theorem foldl_pure_map (l : List Mut) (s : PState × Dict) :
    l.foldl (fun s m => m.pure s) s = (l.map Mut.pure).foldl (fun s f => f s) s := by
  rw [List.foldl_map]

/-- **value-level meaning of `_binary_blockwise_op`**: the new block dict of the left operand and the
    buffers created, as a function of the left operand's state and of the right operand's block dict -/
def binPure (missing : Missing) (s : PState) (ob : Dict) : PState :=
  let r := (binMuts 0 0 missing s.1.blocks ob).foldl (fun s m => m.pure s) (s, ob)
  match missing with
  | .outer => (Act.bUpdate r.2).pure r.1
  | _ => r.1

theorem envGet_append_lt {env : Env} {j : Nat} (e2 : Env) (hj : j < env.length) :
    envGet (env ++ e2) j = envGet env j := by
  simp [envGet, List.getD, List.getElem?_append_left hj]

theorem see_dict {h : Heap} {q : ObjId} {d : Dict} (hq : h.get? q = some (.dict d)) : see h q = .dict d := by
  simp [see, hq]

theorem view_dictAt {h : Heap} {env : Env} {j : Nat} (hj : j < env.length) {d : Dict}
    (hq : h.get? (envGet env j) = some (.dict d)) : View.dictAt (env.map (see h)) j = d := by
  have : (env.map (see h)).getD j Seen.none = see h (envGet env j) := by
    simp [List.getD, envGet, List.getElem?_map, List.getElem?_eq_getElem hj]
  unfold View.dictAt
  rw [this, see_dict hq]; rfl

/-- **`binaryK` computes `binPure`** of the target's content and of the block dict of `other` — whatever
    `other` is (the target itself in `x += x`, an array sharing dicts with it, …): the code works on a
    private copy of `other.blocks` taken before the first write -/
theorem binaryK_refines (t o : Nat) (missing : Missing) (k : Prog) {h : Heap} {env : Env} {a ao : ArrObj}
    {bd ob : Dict} {pd : Option Dict} (ht : t < env.length) (w : WFArr h (envGet env t) a bd pd)
    (ho : h.arrOf (envGet env o) = some ao) (hob : h.get? ao.blocks = some (.dict ob)) :
    ∃ h' a' bd' pd', (binaryK t o env.length missing k).run h env = k.run h' (env ++ [h.size]) ∧
      WFArr h' (envGet env t) a' bd' pd' ∧
      (cont a' bd' pd', h'.bufs) = binPure missing (cont a bd pd, h.bufs) ob ∧
      TStep h h' (envGet env t) := by
  -- `other_blocks = other.blocks.copy()`
  have hcopy : runCmd (.dictCopy o) h env = ((copyDict h ao.blocks).1, env ++ [h.size]) := by
    simp only [runCmd, ho]; rfl
  have cs := copyDict_spec h ao.blocks
  have hq1 : (copyDict h ao.blocks).1.get? h.size = some (.dict ob) := by
    have := alloc_get?_new h (.dict (h.dictOf ao.blocks))
    rw [dictOf_of_get? hob] at this
    simpa [copyDict, newDict, dictOf_of_get? hob] using this
  have w1 : WFArr (copyDict h ao.blocks).1 (envGet env t) a bd pd := wf_ext cs.1 w
  have ht1 : t < (env ++ [h.size]).length := by
    simp only [List.length_append, List.length_cons, List.length_nil]; omega
  have et : envGet (env ++ [h.size]) t = envGet env t := envGet_append_lt _ ht
  have etmp : envGet (env ++ [h.size]) env.length = h.size := envGet_append_len env h.size
  have hbufs1 : (copyDict h ao.blocks).1.bufs = h.bufs := rfl
  have q1 : TmpOK (copyDict h ao.blocks).1 (envGet env t) h.size ob := by
    refine ⟨hq1, ?_⟩
    rw [dictsOf_of_get? w1.arr]
    intro hd
    simp only [dictsOfArr, List.mem_cons, Option.mem_toList] at hd
    rcases hd with e | e
    · have := get?_lt w.blk
      rw [← e] at this; exact Nat.lt_irrefl _ this
    · obtain ⟨d, _, hd, _⟩ := w.ph _ e
      exact Nat.lt_irrefl _ (get?_lt hd)
  -- the loop
  have hv : View.at ((env ++ [h.size]).map (see (copyDict h ao.blocks).1)) t = cont a bd pd :=
    view_at ht1 (by rw [et]; exact w1)
  have hd : View.dictAt ((env ++ [h.size]).map (see (copyDict h ao.blocks).1)) env.length = ob :=
    view_dictAt (by simp) (by rw [etmp]; exact hq1)
  obtain ⟨a2, bd2, pd2, td2, w2, q2, e2, t2⟩ :=
    muts_refines (env ++ [h.size]) t env.length (binMuts t env.length missing bd ob)
      (binMuts_tgt _ _ _ _ _) (h := (copyDict h ao.blocks).1) (by rw [et]; exact w1) (by rw [et, etmp]; exact q1)
  rw [et] at w2 t2
  rw [et, etmp] at q2
  rw [hbufs1, foldl_pure_map, binMuts_pure t env.length 0 0, ← foldl_pure_map] at e2
  have tcopy : TStep h (copyDict h ao.blocks).1 (envGet env t) := by
    refine ⟨cs.1.step.mono (fun _ f => f.elim) (fun _ f => f.elim), ?_⟩
    intro d hd'
    rw [cs.1.step.dictsOf_same (get?_lt w.arr) (fun f => f)] at hd'
    exact Or.inl hd'
  have hrun : (binaryK t o env.length missing k).run h env =
      (binTail t env.length missing k).run
        ((binMuts t env.length missing bd ob).foldl (Mut.exec (env ++ [h.size])) (copyDict h ao.blocks).1)
        (env ++ [h.size]) := by
    rw [binaryK_eq]
    simp only [Prog.run, hcopy, hv, hd]
    rw [mutsK_run]; rfl
  generalize hh2 : (binMuts t env.length missing bd ob).foldl (Mut.exec (env ++ [h.size]))
    (copyDict h ao.blocks).1 = h2 at *
  cases missing with
  | outer =>
    -- `xy_blocks.update(other_blocks)`
    have hd2 : View.dictAt ((env ++ [h.size]).map (see h2)) env.length = td2 :=
      view_dictAt (by simp) (by rw [etmp]; exact q2.get)
    obtain ⟨a3, bd3, pd3, w3, e3⟩ := runAct_refines (.bUpdate td2) w2
    refine ⟨_, a3, bd3, pd3, ?_, w3, ?_, (tcopy.transE t2 (fun i e => by rw [e, etmp]; exact Nat.le_refl _)).trans (runAct_tstep _ _ _)⟩
    · rw [hrun]; simp only [binTail, Prog.run, hd2, runCmd, et]
    · rw [e3]; simp only [binPure]; rw [show (cont a bd pd, h.bufs).1.blocks = bd from rfl, ← e2]
  | strict =>
    refine ⟨h2, a2, bd2, pd2, ?_, w2, ?_, tcopy.transE t2 (fun i e => by rw [e, etmp]; exact Nat.le_refl _)⟩
    · rw [hrun]; rfl
    · simp only [binPure]; rw [show (cont a bd pd, h.bufs).1.blocks = bd from rfl, ← e2]
  | inner =>
    refine ⟨h2, a2, bd2, pd2, ?_, w2, ?_, tcopy.transE t2 (fun i e => by rw [e, etmp]; exact Nat.le_refl _)⟩
    · rw [hrun]; rfl
    · simp only [binPure]; rw [show (cont a bd pd, h.bufs).1.blocks = bd from rfl, ← e2]

/-! ### `if other.phases: other = other.phase_sync()` -/

theorem copyArr_refines {h : Heap} {x : ObjId} {a : ArrObj} {bd : Dict} {pd : Option Dict}
    (w : WFArr h x a bd pd) :
    ∃ a' bd' pd', WFArr (copyArr h x).1 (copyArr h x).2 a' bd' pd' ∧
      cont a' bd' pd' = cont a bd pd ∧ (copyArr h x).1.bufs = h.bufs := by
  obtain ⟨ac, bc, pc, wc, ec⟩ := copyWithArr_refines {} w
  rw [modifyP_empty, ← copyArr_eq] at ec
  rw [← copyArr_eq] at wc
  exact ⟨ac, bc, pc, wc, (Prod.mk.inj ec).1, (Prod.mk.inj ec).2⟩

/-- value-level meaning of `syncedK`: the block dict the following code sees as `other.blocks`, and the
    buffers created -/
def syncedPure (fermi : Bool) (co : Content) (bufs : Bufs) : Dict × Bufs :=
  if fermi && !(co.phases.getD []).isEmpty then
    ((S.phaseSync.pure (co, bufs)).1.blocks, (S.phaseSync.pure (co, bufs)).2)
  else (co.blocks, bufs)

/-- `syncedK src n fermi k`: afterwards variable `n` is an array whose block dict holds
    `(syncedPure …).1`; a well-formed array `x` that is not the synchronised copy is left as it is -/
theorem syncedK_refines (src : Nat) (fermi : Bool) (k : Prog) {h : Heap} {env : Env} {ao : ArrObj}
    {bo : Dict} {po : Option Dict} (hs : src < env.length) (wo : WFArr h (envGet env src) ao bo po)
    {x : ObjId} {a : ArrObj} {bd : Dict} {pd : Option Dict} (wx : WFArr h x a bd pd) :
    ∃ h' y ay, (syncedK src env.length fermi k).run h env = k.run h' (env ++ [y]) ∧
      h'.arrOf y = some ay ∧ h'.get? ay.blocks = some (.dict (syncedPure fermi (cont ao bo po) h.bufs).1) ∧
      h'.bufs = (syncedPure fermi (cont ao bo po) h.bufs).2 ∧ WFArr h' x a bd pd ∧
      Step Never Never h h' := by
  have hv : View.at (env.map (see h)) src = cont ao bo po := view_at hs wo
  unfold syncedK
  simp only [Prog.run, hv]
  by_cases hc : (fermi && !((cont ao bo po).phases.getD []).isEmpty) = true
  · rw [if_pos hc]
    simp only [Prog.run, runCmd]
    obtain ⟨ac, bc, pc, wc, ec, hb⟩ := copyArr_refines wo
    have cs := copyArr_spec h (envGet env src)
    have hlen : env.length < (env ++ [(copyArr h (envGet env src)).2]).length := by simp
    have ey : envGet (env ++ [(copyArr h (envGet env src)).2]) env.length = (copyArr h (envGet env src)).2 :=
      envGet_append_len _ _
    obtain ⟨h2, a2, bd2, pd2, r2, w2, e2, t2⟩ := script_refines2 S.phaseSync env.length k
      (h := (copyArr h (envGet env src)).1) (env := env ++ [(copyArr h (envGet env src)).2]) hlen
      (by rw [ey]; exact wc)
    rw [ey] at w2 t2
    rw [ec, hb] at e2
    have wx1 : WFArr (copyArr h (envGet env src)).1 x a bd pd := wf_ext cs.1 wx
    have hxlt : x < h.size := get?_lt wx.arr
    have wx2 : WFArr h2 x a bd pd := by
      refine t2.wf_other wx1 (Nat.ne_of_lt (Nat.lt_of_lt_of_le hxlt cs.2.ge)) ?_
      intro d hd hd'
      have h1 := cs.2.dicts d hd'
      rw [dictsOf_of_get? wx1.arr] at hd
      simp only [dictsOfArr, List.mem_cons, Option.mem_toList] at hd
      rcases hd with e | e
      · have := get?_lt wx.blk
        rw [← e] at this; exact absurd this (Nat.not_lt.mpr h1)
      · obtain ⟨d', _, hd'', _⟩ := wx.ph _ e
        exact absurd (get?_lt hd'') (Nat.not_lt.mpr h1)
    refine ⟨h2, _, a2, r2, arrOf_eq_some.mpr w2.arr, ?_, ?_, wx2, ?_⟩
    · simp only [syncedPure, hc, if_true]
      rw [← e2]; exact w2.blk
    · simp only [syncedPure, hc, if_true]
      rw [← e2]
    · -- only objects allocated by the copy are touched
      refine cs.1.step.trans t2.step ?_ ?_
      · intro i hi e
        have : i = (copyArr h (envGet env src)).2 := e
        have := cs.2.ge; omega
      · intro i hi e
        have := cs.2.dicts i e; omega
  · rw [if_neg hc]
    simp only [Prog.run, runCmd]
    refine ⟨h, _, ao, rfl, arrOf_eq_some.mpr wo.arr, ?_, ?_, wx, Step.refl _ _ _⟩
    · simp only [syncedPure, hc]; exact wo.blk
    · simp only [syncedPure, hc]; rfl

/-! ### the body of `FermionicArray._binary_blockwise_op` after `xy = self if inplace else self.copy()` -/

/-- `xy.phase_sync(inplace=True); if other.phases: other = other.phase_sync();
    BlockBase._binary_blockwise_op(xy, other, fn, inplace=True)`; `other` is variable 1 -/
def bodyF (t n : Nat) (missing : Missing) : Prog :=
  S.phaseSync.prog t [] <| syncedK 1 n true <| binaryK t n (n + 1) missing .done

/-- value of `bodyF`: `cx` = content of the target, `cy` = content of `other` as seen AFTER the
    target has been synchronised -/
def bodyFPure (missing : Missing) (cx cy : Content) (bufs : Bufs) : PState :=
  let s1 := S.phaseSync.pure (cx, bufs)
  let o := syncedPure true cy s1.2
  binPure missing (s1.1, o.2) o.1

theorem bodyF_refines (t : Nat) (missing : Missing) {h : Heap} {env : Env} {a : ArrObj} {bd : Dict}
    {pd : Option Dict} (ht : t < env.length) (h1n : 1 < env.length) (w : WFArr h (envGet env t) a bd pd)
    (cy : Content)
    (HY : ∀ h1 a1 b1 p1, WFArr h1 (envGet env t) a1 b1 p1 → TStep h h1 (envGet env t) →
      cont a1 b1 p1 = (S.phaseSync.pure (cont a bd pd, h.bufs)).1 →
      ∃ ay bo po, WFArr h1 (envGet env 1) ay bo po ∧ cont ay bo po = cy) :
    ∃ h' e2 a' bd' pd', (bodyF t env.length missing).run h env = (h', env ++ e2) ∧
      WFArr h' (envGet env t) a' bd' pd' ∧
      (cont a' bd' pd', h'.bufs) = bodyFPure missing (cont a bd pd) cy h.bufs := by
  unfold bodyF
  obtain ⟨h1, a1, b1, p1, r1, w1, e1, t1⟩ := script_refines2 S.phaseSync t
    (syncedK 1 env.length true (binaryK t env.length (env.length + 1) missing .done)) ht w
  obtain ⟨ay, bo, po, wy, ecy⟩ := HY h1 a1 b1 p1 w1 t1 (by rw [← e1])
  obtain ⟨h2, y', ay', r2, hy', hyb, hb2, wx2, _⟩ := syncedK_refines 1 true
    (binaryK t env.length (env.length + 1) missing .done) h1n wy w1
  have hlen : (env ++ [y']).length = env.length + 1 := by simp
  have ht2 : t < (env ++ [y']).length := by rw [hlen]; omega
  have et : envGet (env ++ [y']) t = envGet env t := envGet_append_lt _ ht
  have ey : envGet (env ++ [y']) env.length = y' := envGet_append_len _ _
  obtain ⟨h3, a3, b3, p3, r3, w3, e3, _⟩ := binaryK_refines t env.length missing .done
    (h := h2) (env := env ++ [y']) ht2 (by rw [et]; exact wx2) (by rw [ey]; exact hy') hyb
  rw [et] at w3
  refine ⟨h3, [y', h2.size], a3, b3, p3, ?_, w3, ?_⟩
  · rw [r1, r2, ← hlen, r3]
    simp [Prog.run]
  · rw [e3, hb2, ecy]
    simp only [bodyFPure]
    rw [← e1]

end SymmModel.Heap
