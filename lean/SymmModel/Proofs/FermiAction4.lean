/-
  SymmModel.Proofs.FermiAction4 — resolution of the identity over a complete basis and the
  product law of local operator arrays (property C18).
-/
import SymmModel.Proofs.FermiAction3
import Mathlib.Algebra.BigOperators.Ring.List

namespace SymmModel
namespace FermiActP
open FermiOpsP

/-! ### A. resolution of the identity on Fock space -/

/-- occupied modes after running a word are modes of the word -/
theorem applyWord_support (w : Word) :
    ∀ a s, applyWord w [] = some (a, s) → ∀ z ∈ s, ∃ o ∈ w, o.label = z := by
  induction w with
  | nil =>
    intro a s h
    simp only [applyWord, applyWordSt, List.foldr_nil, Option.some.injEq, Prod.mk.injEq] at h
    obtain ⟨rfl, rfl⟩ := h
    exact fun z hz => by cases hz
  | cons o w ih =>
    intro a s h
    have hsorted := FermiOpsP.applyWord_sorted w
    rw [applyWord_cons] at h
    match hst : applyWord w [] with
    | none => rw [hst] at h; cases h
    | some (a', s') =>
      rw [hst] at h hsorted
      have hs' : Sorted s' := hsorted
      have hsub := ih a' s' hst
      rw [bindOp_some] at h
      split at h
      · cases h
      · simp only [Option.some.injEq, Prod.mk.injEq] at h
        obtain ⟨rfl, rfl⟩ := h
        intro z hz
        by_cases hzo : z = o.label
        · exact ⟨o, List.mem_cons_self, hzo.symm⟩
        · rw [mem_flipOcc_ne hs' hzo] at hz
          obtain ⟨o', ho', e⟩ := hsub z hz
          exact ⟨o', List.mem_cons_of_mem _ ho', e⟩

theorem applyWord_amp (w : Word) (a : Int) (s : List Int) (h : applyWord w [] = some (a, s)) :
    a = 1 ∨ a = -1 := ((applyWord_runFlags w).2 a s h).1

/-- amplitudes factor out of a run -/
theorem vacAmp_scale (u : Word) (a : Int) (ha : a = 1 ∨ a = -1) (S : List Int) :
    vacAmp (applyWordSt u (some (a, S))) = a * vacAmp (applyWordSt u (some (1, S))) := by
  rcases ha with rfl | rfl
  · simp
  · have : (some (-1, S) : FState) = negSt (some (1, S)) := rfl
    rw [this, applyWordSt_negSt, vacAmp_negSt]; simp

theorem vev_append_state (u v : Word) (a : Int) (S : List Int)
    (h : applyWord v [] = some (a, S)) :
    vev (u ++ v) = a * vacAmp (applyWordSt u (some (1, S))) := by
  rw [vev_append, h, vacAmp_scale u a (applyWord_amp v a S h)]

theorem vev_append_none (u v : Word) (h : applyWord v [] = none) : vev (u ++ v) = 0 := by
  rw [vev_append, h]
  have : ∀ u : Word, applyWordSt u none = none := by
    intro u; induction u with
    | nil => rfl
    | cons o u ih => simp only [applyWordSt, List.foldr_cons] at ih ⊢; rw [ih]; rfl
  rw [this]; rfl

/-- `⟨0| K† |S⟩` for a ket `K|0⟩ = σ|S'⟩`: `σ` if `S' = S`, else `0` -/
theorem vacAmp_dag_ket (K : Word) (S : List Int) (hS : Sorted S) :
    (∀ σ, applyWord K [] = some (σ, S) → vacAmp (applyWord (dagWord K) S) = σ)
    ∧ ((∀ σ, applyWord K [] ≠ some (σ, S)) → vacAmp (applyWord (dagWord K) S) = 0) := by
  constructor
  · intro σ h
    rw [applyWord_adjoint K [] σ S sorted_nil h]; rfl
  · intro h
    match hst : applyWord (dagWord K) S with
    | none => rfl
    | some (a, []) =>
      have := applyWord_adjoint (dagWord K) S a [] hS hst
      rw [dagWord_dagWord] at this
      exact absurd this (h a)
    | some (a, _ :: _) => rfl

/-- the kets `K_0 … K_{n-1}` are a complete basis of the Fock space over the modes `M`:
    every occupation `S ⊆ M` is the state of exactly one ket -/
def CompleteKets (M : List Int) (kets : List Word) : Prop :=
  ∀ S : List Int, Sorted S → (∀ z ∈ S, z ∈ M) →
    ∃ k0, ∃ _ : k0 < kets.length, (∃ σ, applyWord kets[k0] [] = some (σ, S))
      ∧ ∀ k, ∀ _ : k < kets.length, k ≠ k0 → ∀ σ', applyWord kets[k] [] ≠ some (σ', S)

/-- **resolution of the identity**: for a word `v` over the modes `M` exactly one ket of a complete
    basis overlaps with `v|0⟩`, and inserting `|K⟩⟨K|` there reproduces the vev -/
theorem resolution (M : List Int) (kets : List Word) (hc : CompleteKets M kets) (u v : Word)
    (hv : ∀ o ∈ v, o.label ∈ M) :
    ∃ k0, ∃ _ : k0 < kets.length,
      (∀ k, ∀ _ : k < kets.length, k ≠ k0 → vev (dagWord kets[k] ++ v) = 0)
      ∧ vev (u ++ kets[k0]) * vev (dagWord kets[k0] ++ v) = vev (u ++ v) := by
  match hst : applyWord v [] with
  | none =>
    obtain ⟨k0, hk0, _, _⟩ := hc [] sorted_nil (fun z hz => by cases hz)
    refine ⟨k0, hk0, fun k hk _ => vev_append_none _ v hst, ?_⟩
    rw [vev_append_none _ v hst, vev_append_none _ v hst, Int.mul_zero]
  | some (a, S) =>
    have hS : Sorted S := by
      have := FermiOpsP.applyWord_sorted v; rw [hst] at this; exact this
    have hSM : ∀ z ∈ S, z ∈ M := by
      intro z hz
      obtain ⟨o, ho, rfl⟩ := applyWord_support v a S hst z hz
      exact hv o ho
    have ha := applyWord_amp v a S hst
    obtain ⟨k0, hk0, ⟨σ, hσ⟩, huniq⟩ := hc S hS hSM
    have hσ' := applyWord_amp _ σ S hσ
    refine ⟨k0, hk0, ?_, ?_⟩
    · intro k hk hne
      rw [vev_append_state _ v a S hst]
      have := (vacAmp_dag_ket kets[k] S hS).2 (huniq k hk hne)
      unfold applyWord at this
      rw [this, Int.mul_zero]
    · rw [vev_append_state _ v a S hst, vev_append_state _ v a S hst, vev_append_state _ _ σ S hσ]
      have := (vacAmp_dag_ket kets[k0] S hS).1 σ hσ
      unfold applyWord at this
      rw [this]
      have hsq : σ * σ = 1 := by rcases hσ' with rfl | rfl <;> rfl
      calc σ * vacAmp (applyWordSt u (some (1, S))) * (a * σ)
          = (σ * σ) * (a * vacAmp (applyWordSt u (some (1, S)))) := by ring
        _ = a * vacAmp (applyWordSt u (some (1, S))) := by rw [hsq, Int.one_mul]

/-! ### B. product of Fock matrices -/
section prod
variable {R : Type} [Ring R]

/-- the term list of the operator product `O₂ · O₁`: all concatenations, coefficients multiplied -/
def mulTerms (t2 t1 : List (R × Word)) : List (R × Word) :=
  t2.flatMap (fun c2 => t1.map (fun c1 => (c2.1 * c1.1, c2.2 ++ c1.2)))

theorem sumA_eq_sum (l : List R) : sumA l = l.sum := by
  induction l with
  | nil => rfl
  | cons a l ih => simp [sumA, ih]

theorem scaleInt_mul (x y : Int) (hx : x = 0 ∨ x = 1 ∨ x = -1) (hy : y = 0 ∨ y = 1 ∨ y = -1)
    (a b : R) : scaleInt x a * scaleInt y b = scaleInt (x * y) (a * b) := by
  rcases hx with rfl | rfl | rfl <;> rcases hy with rfl | rfl | rfl <;> simp [scaleInt]

theorem sum_single_index {β : Type} (l : List β) (f : β → R) (k0 : Nat) (hk0 : k0 < l.length)
    (hz : ∀ k, ∀ h : k < l.length, k ≠ k0 → f l[k] = 0) : (l.map f).sum = f l[k0] := by
  induction l generalizing k0 with
  | nil => simp at hk0
  | cons a l ih =>
    cases k0 with
    | zero =>
      rw [List.map_cons, List.sum_cons, sum_map_eq_zero l f, add_zero]; · rfl
      intro x hx
      obtain ⟨i, hi, rfl⟩ := List.mem_iff_getElem.mp hx
      have := hz (i + 1) (by simp; omega) (by omega)
      simpa using this
    | succ k0 =>
      have h0 : f a = 0 := by
        have := hz 0 (by simp) (by omega); simpa using this
      rw [List.map_cons, List.sum_cons, h0, zero_add, ih k0 (by simpa using hk0)]
      · rfl
      · intro k hk hne
        have := hz (k + 1) (by simp; omega) (by omega)
        simpa using this

theorem sum_swap {β γ : Type} (l : List β) (l' : List γ) (f : β → γ → R) :
    (l.map (fun x => (l'.map (fun y => f x y)).sum)).sum
      = (l'.map (fun y => (l.map (fun x => f x y)).sum)).sum := by
  induction l with
  | nil => simp
  | cons a l ih =>
    simp only [List.map_cons, List.sum_cons, ih]
    rw [← List.sum_map_add]

/-- **the Fock matrix of the product is the product of the Fock matrices**, summed over a
    complete family of intermediate kets `ks ↦ ketOf bases ks` -/
theorem fock_mul (M : List Int) (bases : List (List Word)) (ks : List (List Nat))
    (hc : CompleteKets M (ks.map (ketOf bases)))
    (t2 t1 : List (R × Word)) (ht1 : ∀ ct ∈ t1, ∀ o ∈ ct.2, o.label ∈ M)
    (is js : List Nat) (hj : ∀ o ∈ ketOf bases js, o.label ∈ M) :
    fockMatrixAt (mulTerms t2 t1) bases is js
      = (ks.map (fun k => fockMatrixAt t2 bases is k * fockMatrixAt t1 bases k js)).sum := by
  simp only [fockMatrixAt_eq, sumA_eq_sum]
  -- right-hand side: expand the products and swap the sums
  have hR : ∀ k : List Nat,
      (t2.map (fun ct => scaleInt (vev (dagWord (ketOf bases is) ++ ct.2 ++ ketOf bases k)) ct.1)).sum
        * (t1.map (fun ct => scaleInt (vev (dagWord (ketOf bases k) ++ ct.2 ++ ketOf bases js)) ct.1)).sum
      = (t2.map (fun c2 => (t1.map (fun c1 =>
          scaleInt (vev (dagWord (ketOf bases is) ++ c2.2 ++ ketOf bases k)) c2.1
          * scaleInt (vev (dagWord (ketOf bases k) ++ c1.2 ++ ketOf bases js)) c1.1)).sum)).sum := by
    intro k
    rw [← List.sum_map_mul_right]
    congr 1
    apply List.map_congr_left
    intro c2 _
    rw [← List.sum_map_mul_left]
  simp only [hR]
  rw [sum_swap ks t2]
  simp only [sum_swap ks t1]
  -- left-hand side
  unfold mulTerms
  rw [sum_flatMap_map]
  congr 1
  apply List.map_congr_left
  intro c2 _
  rw [List.map_map]
  congr 1
  apply List.map_congr_left
  intro c1 hc1
  simp only [Function.comp]
  -- one pair of terms: resolution of the identity
  obtain ⟨k0, hk0, hz, hmain⟩ := resolution M (ks.map (ketOf bases)) hc
    (dagWord (ketOf bases is) ++ c2.2) (c1.2 ++ ketOf bases js)
    (by
      intro o ho
      rcases List.mem_append.mp ho with h | h
      · exact ht1 c1 hc1 o h
      · exact hj o h)
  have hk0' : k0 < ks.length := by simpa using hk0
  have hsum := sum_single_index ks (fun k =>
      scaleInt (vev (dagWord (ketOf bases is) ++ c2.2 ++ ketOf bases k)) c2.1
      * scaleInt (vev (dagWord (ketOf bases k) ++ c1.2 ++ ketOf bases js)) c1.1) k0 hk0'
    (by
      intro k hk hne
      have := hz k (by simpa using hk) hne
      simp only [List.getElem_map] at this
      simp only [List.append_assoc]
      rw [this]; simp [scaleInt])
  rw [hsum, scaleInt_mul _ _ (vev_cases _) (vev_cases _)]
  simp only [List.getElem_map] at hmain
  simp only [List.append_assoc] at hmain ⊢
  rw [hmain]

end prod

/-! ### C. product law for one-site operator arrays -/
section law
variable {R : Type} [Ring R] [DecidableEq R]

theorem mulTerms_neutral (q : Int → Int) (t2 t1 : List (R × Word))
    (h2 : ∀ ct ∈ t2, wordCharge q ct.2 = 0) (h1 : ∀ ct ∈ t1, wordCharge q ct.2 = 0) :
    ∀ ct ∈ mulTerms t2 t1, wordCharge q ct.2 = 0 := by
  intro ct hct
  simp only [mulTerms, List.mem_flatMap, List.mem_map] at hct
  obtain ⟨c2, hc2, c1, hc1, rfl⟩ := hct
  rw [wordCharge_append, h2 c2 hc2, h1 c1 hc1]; rfl

/-- two operator arrays on the same basis and index map can be contracted bra-to-ket -/
theorem ops_admissible (t2 t1 : List (R × Word)) (b : List Word) (sym : Sym) (m : List Charge) :
    ValidP.tdotAdmissibleB (opArray t2 [b] sym [m]) (opArray t1 [b] sym [m]) [1] [0] = true := by
  unfold ValidP.tdotAdmissibleB ValidP.contractibleB
  simp only [opArray_indices_one]
  simp [opArray, Arr.ndim, fdIndices, opDuals, allDistinct, Index.plain, Index.cm, Index.dual]

/-- **product law** (one site, complete basis): contracting the array of `O₂` with the array of
    `O₁` over the inner bra/ket pair gives, address by address, the array of the product
    operator `O₂·O₁`; the result carries no label and no sign. -/
theorem product_law_one (t2 t1 : List (R × Word)) (b : List Word) (sym : Sym) (m : List Charge)
    (hm : m.length = b.length) (hv : ∀ c ∈ m, sym.valid c = true)
    (q1 q2 : Int → Int) (hcm : ChargeMaps sym q1 q2 [b] [m])
    (hn1 : ∀ ct ∈ t1, wordCharge q1 ct.2 = 0 ∧ wordCharge q2 ct.2 = 0)
    (hn2 : ∀ ct ∈ t2, wordCharge q1 ct.2 = 0 ∧ wordCharge q2 ct.2 = 0)
    (M : List Int) (hc : CompleteKets M ((List.range b.length).map (fun k => ketOf [b] [k])))
    (ht1 : ∀ ct ∈ t1, ∀ o ∈ ct.2, o.label ∈ M) (hb : ∀ w ∈ b, ∀ o ∈ w, o.label ∈ M)
    (c : Arr R)
    (h : (opArray t2 [b] sym [m]).tensordotF (opArray t1 [b] sym [m])
        (.pair ([1].map Int.ofNat) ([0].map Int.ofNat)) .blockwise = .ok c) :
    c.oddpos = [] ∧ c.charge = sym.combine [sym.zero, sym.zero]
    ∧ ∀ i j, i < b.length → j < b.length →
        c.elem [m.getD i (0, 0), m.getD j (0, 0)] [rankIn m i, rankIn m j]
          = (opArray (mulTerms t2 t1) [b] sym [m]).elem
              [m.getD i (0, 0), m.getD j (0, 0)] [rankIn m i, rankIn m j] := by
  have hmaps : [m].map List.length = [b].map List.length := by simp [hm]
  have hvv : ∀ m' ∈ [m], ∀ c ∈ m', sym.valid c = true := by
    intro m' hm'; simp only [List.mem_singleton] at hm'; subst hm'; exact hv
  have hG1 := opArray_valid t1 [b] sym [m] hmaps hvv
  obtain ⟨out, ph, h1, h2, h3, h4⟩ := action_one t2 b sym m hm hv (opArray t1 [b] sym [m]) c hG1 rfl
    (ops_admissible t2 t1 b sym m) h
  have hodd : (opArray t1 [b] sym [m]).oddpos = [] := rfl
  rw [hodd] at h1
  have hph : out = [] ∧ ph = 1 := by
    have : OddposP.mergeOddpos false [] [] = .ok ([], 1) := rfl
    rw [this] at h1
    simp only [Except.ok.injEq, Prod.mk.injEq] at h1
    exact ⟨h1.1.symm, h1.2.symm⟩
  obtain ⟨rfl, rfl⟩ := hph
  refine ⟨h2, h3, ?_⟩
  intro i j hi hj
  have hi' : i < m.length := by omega
  have hj' : j < m.length := by omega
  obtain ⟨li, hli, _, hri, hlii⟩ := group_of_pos m i hi'
  obtain ⟨lj, hlj, _, hrj, hljj⟩ := group_of_pos m j hj'
  have hshp : Arr.blockShape? ((opArray t1 [b] sym [m]).indices.drop 1) [m.getD j (0, 0)]
      = some [lj.length] := by
    show Arr.blockShape? [Index.plain (gsizes m) true] [m.getD j (0, 0)] = _
    rw [Arr.blockShape?_cons, sizeOf_plain_gsizes, hlj]; rfl
  rw [h4 i [m.getD j (0, 0)] [rankIn m j] [lj.length] hi hshp (by simp [inBox, hrj]), Lazy.sgnI_one]
  -- entries of the three arrays are Fock matrix elements
  have hn21 := mulTerms_neutral q1 t2 t1 (fun ct h => (hn2 ct h).1) (fun ct h => (hn1 ct h).1)
  have hn21' := mulTerms_neutral q2 t2 t1 (fun ct h => (hn2 ct h).2) (fun ct h => (hn1 ct h).2)
  rw [opArray_elem_one (mulTerms t2 t1) b sym m hm _ _ li lj hli hlj _ _ hri hrj, hlii, hljj,
    opEntry_one_eq_fock (mulTerms t2 t1) b sym m q1 q2 hcm hn21 hn21' i j hi hj]
  have hks : (List.range b.length).map (fun k => ketOf [b] [k])
      = ((List.range b.length).map (fun k => [k])).map (ketOf [b]) := by
    rw [List.map_map]; rfl
  rw [hks] at hc
  rw [fock_mul M [b] _ hc t2 t1 ht1 [i] [j] (by
    intro o ho
    have : ketOf [b] [j] = b.getD j [] := by simp [ketOf]
    rw [this] at ho
    rcases getD_mem_or_nil b j with e | e
    · rw [e] at ho; cases ho
    · exact hb _ e o ho), List.map_map]
  congr 1
  apply List.map_congr_left
  intro k hk
  have hk' : k < b.length := List.mem_range.mp hk
  have hk'' : k < m.length := by omega
  obtain ⟨lk, hlk, _, hrk, hlkk⟩ := group_of_pos m k hk''
  simp only [Function.comp]
  rw [opEntry_one_eq_fock t2 b sym m q1 q2 hcm (fun ct h => (hn2 ct h).1) (fun ct h => (hn2 ct h).2)
      i k hi hk',
    opArray_elem_one t1 b sym m hm _ _ lk lj hlk hlj _ _ hrk hrj, hlkk, hljj,
    opEntry_one_eq_fock t1 b sym m q1 q2 hcm (fun ct h => (hn1 ct h).1) (fun ct h => (hn1 ct h).2)
      k j hk' hj]

end law

end FermiActP
end SymmModel
