/-
  SymmModel.Proofs.SpectrumDense — the dense form of a rank-2 array as a matrix, its block
  structure w.r.t. the charge labelling of positions, and the resulting factorisation of the
  characteristic polynomial (C12b).
-/
import SymmModel.Proofs.SpectrumAxis
import SymmModel.Proofs.LinalgMore
import SymmModel.Proofs.LinalgDense

namespace SymmModel

variable {R : Type}

/-- matrix view of a rank-2 block -/
def Blk.toMatrix [Zero R] (d : Blk R) (m n : Nat) : Matrix (Fin m) (Fin n) R :=
  fun i j => d.get [i.1, j.1]

/-- the `m × n` matrix of the elements of the sector `[r, c]` (pending sign included; the zero
    matrix when the sector is not stored) -/
def Arr.sectorMatrix [Zero R] [Neg R] (a : Arr R) (r c : Charge) (m n : Nat) :
    Matrix (Fin m) (Fin n) R :=
  fun i j => a.elem [r, c] [i.1, j.1]

namespace Spectrum

open Arr Matrix LinalgLemmas

theorem total_sortCm (cm : List (Charge × Nat)) :
    total (Index.sortCm cm) = sumN (cm.map (·.2)) := sumN_sortCm cm

/-- entry of the dense form of a rank-2 array at `(p, q)`: the element at the located address -/
theorem dense_entry2 [Zero R] [Neg R] {a : Arr R} {i0 i1 : Index} (hi : a.indices = [i0, i1])
    {d : Blk R} (hd : a.toDenseA = .ok d) {p q : Nat} (hp : p < total (Index.sortCm i0.cm))
    (hq : q < total (Index.sortCm i1.cm)) :
    d.get [p, q]
      = a.elem [ofLex (chargeAt (Index.sortCm i0.cm) p), ofLex (chargeAt (Index.sortCm i1.cm) q)]
          [offsetAt (Index.sortCm i0.cm) p, offsetAt (Index.sortCm i1.cm) q] := by
  have hbox : inBox a.shape [p, q] = true := by
    simp only [Arr.shape, hi, List.map_cons, List.map_nil, Index.sizeTotal, inBox, Bool.and_true,
      Bool.and_eq_true, decide_eq_true_eq]
    rw [total_sortCm] at hp hq
    exact ⟨hp, hq⟩
  rw [(LinalgLemmas.toDenseA_get hd hbox).2]
  simp [Arr.locateAll, hi, locate_eq_of_lt hp, locate_eq_of_lt hq]

/-! ### Hermitian-structured matrices: charge zero, opposite directions, equal charge tables -/
section Herm
variable [CommRing R]

omit [CommRing R] in
theorem herm_tables {a : Arr R} (H : EighInput a) {i0 i1 : Index} (hi : a.indices = [i0, i1]) :
    Index.sortCm i1.cm = Index.sortCm i0.cm
    ∧ ((Index.sortCm i0.cm).map (·.1)).Nodup
    ∧ (∀ c d, (c, d) ∈ Index.sortCm i0.cm → 0 < d) := by
  have hcm : i0.cm = i1.cm := by simpa [hi] using H.hcm
  have hw := (indices_wf H.hv hi).1
  refine ⟨by rw [hcm], sortCm_keys_nodup _ (wfB_keys_nodup hw), ?_⟩
  intro c d hm
  exact ((wfB_cm hw).2 c d ((LinalgLemmas.sortCm_perm _).mem_iff.mp hm)).1

omit [CommRing R] in
theorem herm_nodup {a : Arr R} (H : EighInput a) {i0 i1 : Index} (hi : a.indices = [i0, i1]) :
    ((Index.sortCm i0.cm).map (·.1)).Nodup := (herm_tables H hi).2.1

/-- entries of the dense form, both axes located in the (common) table of the row index -/
theorem herm_entry {a : Arr R} (H : EighInput a) {i0 i1 : Index} (hi : a.indices = [i0, i1])
    {d : Blk R} (hd : a.toDenseA = .ok d) {p q : Nat} (hp : p < total (Index.sortCm i0.cm))
    (hq : q < total (Index.sortCm i0.cm)) :
    d.get [p, q]
      = a.elem [ofLex (chargeAt (Index.sortCm i0.cm) p), ofLex (chargeAt (Index.sortCm i0.cm) q)]
          [offsetAt (Index.sortCm i0.cm) p, offsetAt (Index.sortCm i0.cm) q] := by
  have h1 := (herm_tables H hi).1
  have := dense_entry2 hi hd hp (by rw [h1]; exact hq)
  rw [h1] at this
  exact this

/-- the dense form vanishes between positions of different charges -/
theorem herm_blockDiag {a : Arr R} (H : EighInput a) {i0 i1 : Index} (hi : a.indices = [i0, i1])
    {d : Blk R} (hd : a.toDenseA = .ok d)
    (p q : Fin (total (Index.sortCm i0.cm)))
    (hne : chargeAt (Index.sortCm i0.cm) p.1 ≠ chargeAt (Index.sortCm i0.cm) q.1) :
    d.toMatrix _ _ p q = 0 := by
  by_contra hnz
  have he := herm_entry H hi hd p.2 q.2
  have hnz' : a.elem [ofLex (chargeAt (Index.sortCm i0.cm) p.1), ofLex (chargeAt (Index.sortCm i0.cm) q.1)]
      [offsetAt (Index.sortCm i0.cm) p.1, offsetAt (Index.sortCm i0.cm) q.1] ≠ 0 := by
    rw [← he]; exact hnz
  have hs := elem_ne_zero_mem hnz'
  obtain ⟨⟨s, b⟩, hm, hse⟩ := List.mem_map.mp hs
  obtain ⟨c, m, hsc, _⟩ := eigh_block H (s := s) (b := b) hm
  have hse' : s = [ofLex (chargeAt (Index.sortCm i0.cm) p.1), ofLex (chargeAt (Index.sortCm i0.cm) q.1)] := hse
  rw [hsc] at hse'
  have e1 := (List.cons.inj hse').1
  have e2 := (List.cons.inj (List.cons.inj hse').2).1
  apply hne
  have : (ofLex (chargeAt (Index.sortCm i0.cm) p.1) : Int × Int)
      = ofLex (chargeAt (Index.sortCm i0.cm) q.1) := e1.symm.trans e2
  exact ofLex.injective this

theorem herm_block_entry {a : Arr R} (H : EighInput a) {i0 i1 : Index} (hi : a.indices = [i0, i1])
    {d : Blk R} (hd : a.toDenseA = .ok d) (c : Charge) (dc : Nat)
    (hm : (c, dc) ∈ Index.sortCm i0.cm)
    (P P' : {p : Fin (total (Index.sortCm i0.cm)) // chargeAt (Index.sortCm i0.cm) p.1 = toLex c}) :
    d.get [P.1.1, P'.1.1]
      = a.elem [c, c] [(axisEquiv _ (herm_nodup H hi) c dc hm P).1,
          (axisEquiv _ (herm_nodup H hi) c dc hm P').1] := by
  rw [herm_entry H hi hd P.1.2 P'.1.2, P.2, P'.2]
  rfl

/-- the diagonal block of the dense form at charge `c` is the sector matrix of `(c, c)` -/
theorem herm_block {a : Arr R} (H : EighInput a) {i0 i1 : Index} (hi : a.indices = [i0, i1])
    {d : Blk R} (hd : a.toDenseA = .ok d) (c : Charge) (dc : Nat)
    (hm : (c, dc) ∈ Index.sortCm i0.cm) :
    reindex (axisEquiv _ (herm_nodup H hi) c dc hm) (axisEquiv _ (herm_nodup H hi) c dc hm)
      ((d.toMatrix (total (Index.sortCm i0.cm)) (total (Index.sortCm i0.cm))).toSquareBlock
        (fun p => chargeAt (Index.sortCm i0.cm) p.1) (toLex c))
      = a.sectorMatrix c c dc dc := by
  ext o o'
  have := herm_block_entry H hi hd c dc hm ((axisEquiv _ (herm_nodup H hi) c dc hm).symm o)
    ((axisEquiv _ (herm_nodup H hi) c dc hm).symm o')
  simp only [Equiv.apply_symm_apply] at this
  exact this

/-- **charpoly of the dense form** = product over the charge table of the characteristic
    polynomials of the sector matrices `(c, c)` (zero matrix where the sector is not stored) -/
theorem herm_charpoly {a : Arr R} (H : EighInput a) {i0 i1 : Index} (hi : a.indices = [i0, i1])
    {d : Blk R} (hd : a.toDenseA = .ok d) :
    (d.toMatrix (total (Index.sortCm i0.cm)) (total (Index.sortCm i0.cm))).charpoly
      = ((Index.sortCm i0.cm).map (fun cd => (a.sectorMatrix cd.1 cd.1 cd.2 cd.2).charpoly)).prod := by
  obtain ⟨h1, hnd, hpos⟩ := herm_tables H hi
  rw [charpoly_of_blockDiag _ (fun p => chargeAt (Index.sortCm i0.cm) p.1)
    (fun p q hne => herm_blockDiag H hi hd p q hne), image_chargeAt _ hnd hpos,
    List.prod_toFinset _ (by
      have := hnd.map (f := fun c => (toLex c : Lex (Int × Int))) toLex.injective
      simpa [List.map_map, Function.comp_def] using this), List.map_map]
  congr 1
  apply List.map_congr_left
  intro cd hcd
  simp only [Function.comp]
  rw [← herm_block H hi hd cd.1 cd.2 hcd, charpoly_reindex]

end Herm

/-! ### the Gram matrix `Dᴴ D` of the dense form of any valid matrix -/
section Gram
variable [CommRing R]

/-- `Dᴴ D` with an arbitrary conjugation `conj` on the scalars -/
def gram (conj : R → R) {m n : Nat} (D : Matrix (Fin m) (Fin n) R) : Matrix (Fin n) (Fin n) R :=
  fun j j' => ∑ i, conj (D i j) * D i j'

/-- the Gram block of column charge `c` (size `n`) in terms of elements: the sum runs over all
    row charges of the row table and all their offsets (at most one row charge contributes) -/
def _root_.SymmModel.Arr.colGram (conj : R → R) (a : Arr R) (rows : List (Charge × Nat))
    (c : Charge) (n : Nat) : Matrix (Fin n) (Fin n) R :=
  fun o o' => (rows.map (fun rm =>
    ∑ u ∈ Finset.range rm.2, conj (a.elem [rm.1, c] [u, o.1]) * a.elem [rm.1, c] [u, o'.1])).sum

/-- summing a function of the located address over all positions of an axis = summing over the
    table and the offsets -/
theorem sum_locate (cm : List (Charge × Nat)) (F : Charge → Nat → R) :
    ∑ i ∈ Finset.range (total cm),
        F (ofLex (chargeAt cm i) : Int × Int) (offsetAt cm i)
      = (cm.map (fun rm => ∑ u ∈ Finset.range rm.2, F rm.1 u)).sum := by
  induction cm with
  | nil => simp [total, sumN]
  | cons kd rest ih =>
    obtain ⟨k, d⟩ := kd
    have ht : total ((k, d) :: rest) = d + total rest := rfl
    rw [ht, Finset.sum_range_add, List.map_cons, List.sum_cons, ← ih]
    congr 1
    · apply Finset.sum_congr rfl
      intro i hi
      have hi' := Finset.mem_range.mp hi
      simp [chargeAt, offsetAt, locate, hi']
    · apply Finset.sum_congr rfl
      intro i _
      have : ¬ (d + i < d) := by omega
      simp [chargeAt, offsetAt, locate, this]

variable {a : Arr R} {i0 i1 : Index}

omit [CommRing R] in
theorem mat_tables (hv : a.validB = true) (hi : a.indices = [i0, i1]) :
    ((Index.sortCm i1.cm).map (·.1)).Nodup
    ∧ (∀ c d, (c, d) ∈ Index.sortCm i1.cm → 0 < d) := by
  have hw := (indices_wf hv hi).2
  refine ⟨sortCm_keys_nodup _ (wfB_keys_nodup hw), ?_⟩
  intro c d hm
  exact ((wfB_cm hw).2 c d ((LinalgLemmas.sortCm_perm _).mem_iff.mp hm)).1

omit [CommRing R] in
theorem mat_nodup (hv : a.validB = true) (hi : a.indices = [i0, i1]) :
    ((Index.sortCm i1.cm).map (·.1)).Nodup := (mat_tables hv hi).1

/-- two entries of one row of the dense form in columns of different charges cannot both be
    non-zero (a row charge pairs with one column charge) -/
theorem row_disjoint (hv : a.validB = true) (h2 : a.ndim = 2) (hi : a.indices = [i0, i1])
    {d : Blk R} (hd : a.toDenseA = .ok d) (i : Fin (total (Index.sortCm i0.cm)))
    (j j' : Fin (total (Index.sortCm i1.cm)))
    (hne : chargeAt (Index.sortCm i1.cm) j.1 ≠ chargeAt (Index.sortCm i1.cm) j'.1) :
    d.get [i.1, j.1] = 0 ∨ d.get [i.1, j'.1] = 0 := by
  by_contra hcon
  rw [not_or] at hcon
  have e1 := dense_entry2 hi hd i.2 j.2
  have e2 := dense_entry2 hi hd i.2 j'.2
  have n1 := elem_ne_zero_mem (e1 ▸ hcon.1)
  have n2 := elem_ne_zero_mem (e2 ▸ hcon.2)
  have := (sector_inj hv h2 n1 n2).1 rfl
  have e := (List.cons.inj (List.cons.inj this).2).1
  exact hne (ofLex.injective e)

/-- **the Gram matrix is block diagonal w.r.t. the column charges** -/
theorem gram_blockDiag (conj : R → R) (hc0 : conj 0 = 0) (hv : a.validB = true) (h2 : a.ndim = 2)
    (hi : a.indices = [i0, i1]) {d : Blk R} (hd : a.toDenseA = .ok d)
    (j j' : Fin (total (Index.sortCm i1.cm)))
    (hne : chargeAt (Index.sortCm i1.cm) j.1 ≠ chargeAt (Index.sortCm i1.cm) j'.1) :
    gram conj (d.toMatrix (total (Index.sortCm i0.cm)) (total (Index.sortCm i1.cm))) j j' = 0 := by
  unfold gram
  apply Finset.sum_eq_zero
  intro i _
  rcases row_disjoint hv h2 hi hd i j j' hne with h | h
  · simp only [Blk.toMatrix, h, hc0, zero_mul]
  · simp only [Blk.toMatrix, h, mul_zero]

/-- entry of the Gram block of column charge `c` -/
theorem gram_block_entry (conj : R → R) (hv : a.validB = true) (hi : a.indices = [i0, i1])
    {d : Blk R} (hd : a.toDenseA = .ok d) (c : Charge) (n : Nat)
    (hm : (c, n) ∈ Index.sortCm i1.cm)
    (P P' : {p : Fin (total (Index.sortCm i1.cm)) // chargeAt (Index.sortCm i1.cm) p.1 = toLex c}) :
    gram conj (d.toMatrix (total (Index.sortCm i0.cm)) (total (Index.sortCm i1.cm))) P.1 P'.1
      = a.colGram conj (Index.sortCm i0.cm) c n (axisEquiv _ (mat_nodup hv hi) c n hm P)
          (axisEquiv _ (mat_nodup hv hi) c n hm P') := by
  unfold gram Arr.colGram
  rw [← sum_locate (Index.sortCm i0.cm) (fun r u =>
    conj (a.elem [r, c] [u, (axisEquiv _ (mat_nodup hv hi) c n hm P).1])
      * a.elem [r, c] [u, (axisEquiv _ (mat_nodup hv hi) c n hm P').1]),
    ← Fin.sum_univ_eq_sum_range (fun i =>
      conj (a.elem [ofLex (chargeAt (Index.sortCm i0.cm) i), c]
          [offsetAt (Index.sortCm i0.cm) i, (axisEquiv _ (mat_nodup hv hi) c n hm P).1])
        * a.elem [ofLex (chargeAt (Index.sortCm i0.cm) i), c]
          [offsetAt (Index.sortCm i0.cm) i, (axisEquiv _ (mat_nodup hv hi) c n hm P').1])]
  apply Finset.sum_congr rfl
  intro i _
  simp only [Blk.toMatrix]
  rw [dense_entry2 hi hd i.2 P.1.2, dense_entry2 hi hd i.2 P'.1.2, P.2, P'.2]
  rfl

theorem gram_block (conj : R → R) (hv : a.validB = true) (hi : a.indices = [i0, i1])
    {d : Blk R} (hd : a.toDenseA = .ok d) (c : Charge) (n : Nat)
    (hm : (c, n) ∈ Index.sortCm i1.cm) :
    reindex (axisEquiv _ (mat_nodup hv hi) c n hm) (axisEquiv _ (mat_nodup hv hi) c n hm)
      ((gram conj (d.toMatrix (total (Index.sortCm i0.cm)) (total (Index.sortCm i1.cm)))).toSquareBlock
        (fun p => chargeAt (Index.sortCm i1.cm) p.1) (toLex c))
      = a.colGram conj (Index.sortCm i0.cm) c n := by
  ext o o'
  have := gram_block_entry conj hv hi hd c n hm ((axisEquiv _ (mat_nodup hv hi) c n hm).symm o)
    ((axisEquiv _ (mat_nodup hv hi) c n hm).symm o')
  simp only [Equiv.apply_symm_apply] at this
  exact this

/-- **charpoly of the Gram matrix of the dense form** = product over the column charge table of
    the characteristic polynomials of the per-charge Gram blocks -/
theorem gram_charpoly (conj : R → R) (hc0 : conj 0 = 0) (hv : a.validB = true) (h2 : a.ndim = 2)
    (hi : a.indices = [i0, i1]) {d : Blk R} (hd : a.toDenseA = .ok d) :
    (gram conj (d.toMatrix (total (Index.sortCm i0.cm)) (total (Index.sortCm i1.cm)))).charpoly
      = ((Index.sortCm i1.cm).map
          (fun cd => (a.colGram conj (Index.sortCm i0.cm) cd.1 cd.2).charpoly)).prod := by
  obtain ⟨hnd, hpos⟩ := mat_tables hv hi
  rw [charpoly_of_blockDiag _ (fun p => chargeAt (Index.sortCm i1.cm) p.1)
    (fun p q hne => gram_blockDiag conj hc0 hv h2 hi hd p q hne), image_chargeAt _ hnd hpos,
    List.prod_toFinset _ (by
      have := hnd.map (f := fun c => (toLex c : Lex (Int × Int))) toLex.injective
      simpa [List.map_map, Function.comp_def] using this), List.map_map]
  congr 1
  apply List.map_congr_left
  intro cd hcd
  simp only [Function.comp]
  rw [← gram_block conj hv hi hd cd.1 cd.2 hcd, charpoly_reindex]

end Gram

end Spectrum
end SymmModel
