/-
  SymmModel.Proofs.FuseCommuteF6 — C06, first clause, FERMIONIC: `drop_misaligned_sectors` on
  fermionic operands.  The aligned operands of a pair satisfying the weak guard form an `FCtx`
  (`fctx_of_dropMisaligned`), and aligning first does not change the graded contraction
  (`gradedContract_dropMisaligned`).  Namespace `SymmModel.TdotP`.
-/
import SymmModel.Proofs.FuseCommuteF5

namespace SymmModel
namespace TdotP
open SymmModel.KoszulP SymmModel.Lazy SymmModel.GradedP SymmModel.RoutesP SymmModel.AssocP
variable {R : Type}
set_option linter.unusedSectionVars false

/-! ### aligning first does not change the graded contraction -/

theorem pairsAt_dropMisaligned (a b : Arr R) (l xa xb r : List Nat) (s : Sector) :
    pairsAt (dropMisaligned a b xa xb).1 (dropMisaligned a b xa xb).2 l xa xb r s
      = pairsAt a b l xa xb r s := by
  unfold pairsAt
  rw [dropMisaligned_fst_blocks, dropMisaligned_snd_blocks]
  rw [flatMap_filter_of_nil]
  · apply flatMap_congr_mem
    rintro ⟨sa, ba⟩ hpa
    simp only [List.filter_filter]
    congr 1
    apply List.filter_congr
    rintro ⟨sb, bb⟩ _
    by_cases hm : permuted sb xb = permuted sa xa
    · have := mem_subKeys_of_mem (axes := xa) hpa
      simp [hm, this]
    · simp [hm]
  · rintro ⟨sa, ba⟩ _ hnot
    simp only [List.map_eq_nil_iff, List.filter_eq_nil_iff, List.mem_filter, beq_iff_eq, and_imp,
      Prod.forall, Bool.and_eq_true, not_and]
    intro sb bb hpb _ hm
    have := mem_subKeys_of_mem (axes := xb) hpb
    simp only [hm] at this
    simp [this] at hnot

theorem storedPairs_dropMisaligned (a b : Arr R) (l xa xb r : List Nat) (s : Sector) :
    storedPairs (dropMisaligned a b xa xb).1 (dropMisaligned a b xa xb).2 l xa xb r s
      = storedPairs a b l xa xb r s := by
  rw [← map_pairsAt, ← map_pairsAt, pairsAt_dropMisaligned]

theorem elem_dropMisaligned_fst [Zero R] [Neg R] (a b : Arr R) (xa xb : List Nat) {s : Sector}
    (hs : s ∈ (dropMisaligned a b xa xb).1.sectors) (o : List Nat) :
    (dropMisaligned a b xa xb).1.elem s o = a.elem s o := by
  have hk : (subKeys b xb).contains (permuted s xa) = true := by
    rw [Arr.sectors, dropMisaligned_fst_blocks] at hs
    obtain ⟨p, hp, rfl⟩ := List.mem_map.mp hs
    exact (List.mem_filter.mp hp).2
  have hph : (dropMisaligned a b xa xb).1.phases = a.phases := rfl
  unfold Arr.elem
  rw [hph, dropMisaligned_fst_blocks,
    alookup_filter_key' a.blocks _ (fun k => (subKeys b xb).contains (permuted k xa)) (fun _ => rfl) s,
    if_pos hk]

theorem elem_dropMisaligned_snd [Zero R] [Neg R] (a b : Arr R) (xa xb : List Nat) {s : Sector}
    (hs : s ∈ (dropMisaligned a b xa xb).2.sectors) (o : List Nat) :
    (dropMisaligned a b xa xb).2.elem s o = b.elem s o := by
  have hk : (subKeys a xa).contains (permuted s xb) = true := by
    rw [Arr.sectors, dropMisaligned_snd_blocks] at hs
    obtain ⟨p, hp, rfl⟩ := List.mem_map.mp hs
    exact (List.mem_filter.mp hp).2
  have hph : (dropMisaligned a b xa xb).2.phases = b.phases := rfl
  unfold Arr.elem
  rw [hph, dropMisaligned_snd_blocks,
    alookup_filter_key' b.blocks _ (fun k => (subKeys a xa).contains (permuted k xb)) (fun _ => rfl) s,
    if_pos hk]

theorem dropUnused_dual (ixs : List Index) (S : List Sector) (i : Nat) :
    ((dropUnused ixs S).getD i default).dual = (ixs.getD i default).dual := by
  simp only [List.getD_eq_getElem?_getD, dropUnused_getElem?]
  cases ixs[i]? with
  | none => rfl
  | some ix => simp [dropTo_dual]

theorem gradedSign_dropMisaligned (a b : Arr R) (xa xb : List Nat) (sa sb : Sector) :
    gradedSign (dropMisaligned a b xa xb).1 (dropMisaligned a b xa xb).2 xa xb sa sb
      = gradedSign a b xa xb sa sb := by
  obtain ⟨n1, n2⟩ := dropMisaligned_ndim a b xa xb
  have hk : ketOdd (dropMisaligned a b xa xb).1 xa sa = ketOdd a xa sa := by
    unfold ketOdd
    have : xa.filter (fun ax => !((dropMisaligned a b xa xb).1.indices.getD ax default).dual)
        = xa.filter (fun ax => !(a.indices.getD ax default).dual) := by
      apply List.filter_congr
      intro ax _
      rw [dropMisaligned_fst_indices, dropUnused_dual]
    rw [this]; rfl
  unfold gradedSign
  rw [hk, n1, n2]
  rfl

theorem blockShapeD_dropMisaligned (a b : Arr R) (xa xb : List Nat) (ha : a.validB = true)
    (hb : b.validB = true) :
    (∀ s ∈ (dropMisaligned a b xa xb).1.sectors,
        Arr.blockShapeD (dropMisaligned a b xa xb).1.indices s = Arr.blockShapeD a.indices s)
    ∧ (∀ s ∈ (dropMisaligned a b xa xb).2.sectors,
        Arr.blockShapeD (dropMisaligned a b xa xb).2.indices s = Arr.blockShapeD b.indices s) := by
  obtain ⟨v1, v2⟩ := ValidP.dropMisaligned_valid a b xa xb ((ValidP.validB_iff a).mp ha)
    ((ValidP.validB_iff b).mp hb)
  have s1 := Arr.shapesOk_of_validB ((ValidP.validB_iff _).mpr v1)
  have s2 := Arr.shapesOk_of_validB ((ValidP.validB_iff _).mpr v2)
  have sa := Arr.shapesOk_of_validB ha
  have sb := Arr.shapesOk_of_validB hb
  constructor
  · intro s hs
    obtain ⟨p, hp, rfl⟩ := List.mem_map.mp hs
    have h1 := s1 p hp
    rw [dropMisaligned_fst_blocks] at hp
    have h2 := sa p (List.mem_filter.mp hp).1
    unfold Arr.blockShapeD; rw [h1, h2]
  · intro s hs
    obtain ⟨p, hp, rfl⟩ := List.mem_map.mp hs
    have h1 := s2 p hp
    rw [dropMisaligned_snd_blocks] at hp
    have h2 := sb p (List.mem_filter.mp hp).1
    unfold Arr.blockShapeD; rw [h1, h2]

/-- **aligning first does not change the graded contraction** -/
theorem gradedContract_dropMisaligned [AddCommMonoid R] [Mul R] [Neg R] (a b : Arr R) (xa xb : List Nat)
    (ha : a.validB = true) (hb : b.validB = true) (s : Sector) (oL oR : List Nat) :
    gradedContract (dropMisaligned a b xa xb).1 (dropMisaligned a b xa xb).2 xa xb s oL oR
      = gradedContract a b xa xb s oL oR := by
  obtain ⟨n1, n2⟩ := dropMisaligned_ndim a b xa xb
  obtain ⟨q1, q2⟩ := blockShapeD_dropMisaligned a b xa xb ha hb
  unfold gradedContract
  rw [n1, n2, storedPairs_dropMisaligned]
  apply sum_map_congr
  rintro ⟨sa, sb⟩ hp
  rw [← storedPairs_dropMisaligned, ← n1, ← n2] at hp
  obtain ⟨hA1, hB1, _, _⟩ := mem_storedPairs.mp hp
  rw [gradedSign_dropMisaligned]
  congr 1
  unfold contractPair
  simp only
  rw [q1 sa hA1]
  apply sum_map_congr
  intro kk _
  unfold contractTerm
  rw [elem_dropMisaligned_fst a b xa xb hA1, elem_dropMisaligned_snd a b xa xb hB1, n1, n2]

end TdotP
end SymmModel
