/-
  SymmModel.Proofs.Dense6a — the structural operations as equalities of dense BLOCKS (property
  C08, sixth part): `toDenseA (op a) = .ok (kernel (toDenseA a))` with numpy's kernels
  `transposeK`, `conjK`, `squeezeK`, `expandK` of Model/Blk.lean.

  New names live in `SymmModel.Dense6`.
-/
import SymmModel.Props.C08All4

namespace SymmModel
namespace Dense6
open Arr DenseP Dense3 Dense4

variable {R : Type}

/-! ## blocks are determined by their entries -/

theorem blk_eq_of_data {b c : Blk R} (hs : b.shape = c.shape) (hd : b.data.toList = c.data.toList) :
    b = c := by
  cases b with
  | mk s1 d1 =>
    cases c with
    | mk s2 d2 =>
      simp only at hs hd
      subst hs
      congr 1
      exact Array.toList_inj.mp hd

theorem blk_ext [Zero R] {b c : Blk R} (hb : b.wf = true) (hc : c.wf = true) (hs : b.shape = c.shape)
    (hg : ∀ p, inBox b.shape p = true → b.get p = c.get p) : b = c := by
  apply blk_eq_of_data hs
  rw [← allIdx_map_get b hb, ← allIdx_map_get c hc, ← hs]
  exact List.map_congr_left (fun p hp => hg p (mem_allIdx.mp hp))

theorem toDenseA_wf [Zero R] [Neg R] {a : Arr R} {d : Blk R} (h : toDenseA a = .ok d) : d.wf = true := by
  by_cases hne : a.indices.any (fun ix => ix.cm.isEmpty) = true
  · rw [toDenseA_error a false hne] at h; cases h
  · rw [toDenseA_eq a false (by simpa using hne)] at h
    injection h with h
    subst h
    exact Blk.wf_ofFn _ _

/-- a block whose entries are those of `d` read through a re-indexing `φ` of the box has the data
    of `d` -/
theorem data_of_reindex [Zero R] {d d' : Blk R} (hd : d.wf = true) (hd' : d'.wf = true)
    (φ : List Nat → List Nat) (hbox : allIdx d'.shape = (allIdx d.shape).map φ)
    (hg : ∀ p, inBox d.shape p = true → d'.get (φ p) = d.get p) :
    d'.data.toList = d.data.toList := by
  rw [← allIdx_map_get d' hd', ← allIdx_map_get d hd, hbox, List.map_map]
  exact List.map_congr_left (fun p hp => hg p (mem_allIdx.mp hp))

/-! ## the boxes of an expanded / squeezed shape -/

theorem allIdx_ins (axis : Nat) (shape : List Nat) (ha : axis ≤ shape.length) :
    allIdx (ins axis 1 shape) = (allIdx shape).map (ins axis 0) := by
  induction axis generalizing shape with
  | zero => simp [allIdx]
  | succ axis ih =>
    cases shape with
    | nil => simp at ha
    | cons d ds =>
      simp only [ins_succ_cons, allIdx, List.map_flatMap, List.map_map]
      rw [ih ds (by simpa using ha)]
      simp only [List.map_map]
      rfl

theorem allIdx_dropMask (m : List Bool) (shape : List Nat)
    (h : List.Forall₂ (fun (b : Bool) (d : Nat) => b = true → d = 1) m shape) :
    allIdx (dropMask m shape) = (allIdx shape).map (dropMask m) := by
  induction h with
  | nil => simp [allIdx]
  | @cons b d m shape hbd _ ih =>
    cases b with
    | true =>
      have hd : d = 1 := hbd rfl
      subst hd
      simp only [dropMask_cons_cons, if_true, allIdx, List.range_one, List.flatMap_cons,
        List.flatMap_nil, List.append_nil, List.map_map]
      rw [ih]
      rfl
    | false =>
      simp only [dropMask_cons_cons, Bool.false_eq_true, if_false, allIdx, List.map_flatMap,
        List.map_map]
      rw [ih]
      simp only [List.map_map]
      rfl

/-! ## the four structural operations -/

section ops
variable [Zero R] [Neg R]

/-- `transpose`: `to_dense(transpose(a)) = np.transpose(to_dense(a))` -/
theorem transposeA_dense (a : Arr R) (axes : List Nat) (hperm : isPerm axes a.ndim = true)
    (hv : a.validB = true) (hf : a.fermi = false) (hne : C08.NoEmpty a) (d : Blk R)
    (hd : toDenseA a = .ok d) : toDenseA (transposeA a axes) = .ok (d.transposeK axes) := by
  obtain ⟨h1, h2, h3, h4⟩ := C08.hypotheses_of_validB a hv
  obtain ⟨d0, d', e1, e2, s1, s2, hg⟩ := C08.transposeA_toDense a axes hperm (h4 hf) hne h1 h2 h3
  rw [hd] at e1; injection e1 with e1; subst e1
  rw [e2]
  congr 1
  have hdl : d.shape.length = a.ndim := by rw [s1]; simp [Arr.shape, Arr.ndim]
  have hperm' : isPerm axes d.shape.length = true := by rw [hdl]; exact hperm
  have hlt := isPerm_lt hperm'
  apply blk_ext (toDenseA_wf e2) (by unfold Blk.transposeK; exact Blk.wf_ofFn _ _)
  · rw [s2, ← s1]; rfl
  · intro q hq
    rw [s2, ← s1] at hq
    -- every position of the transposed box is a permuted position
    obtain ⟨p, _, hpq, hp⟩ := FuseP.exists_unpermute (n := d.shape.length)
      ((isPerm_perm hperm').nodup_iff.mp List.nodup_range) (isPerm_spec hperm').1 hlt
      (fun ax hax => (isPerm_spec hperm').2 ax hax) rfl hq
    subst hpq
    rw [hg p (by rw [← s1]; exact hp), Blk.get_transposeK d axes hperm' hp]

/-- `conj`: `to_dense(conj(a)) = np.conj(to_dense(a))` -/
theorem conjA_dense [Conj R] (h0 : Conj.conj (0 : R) = 0) (a : Arr R) (hv : a.validB = true)
    (hf : a.fermi = false) (hne : C08.NoEmpty a) (d : Blk R) (hd : toDenseA a = .ok d) :
    toDenseA (conjA a) = .ok d.conjK := by
  obtain ⟨_, _, _, h4⟩ := C08.hypotheses_of_validB a hv
  obtain ⟨d0, d', e1, e2, s1, s2, hg⟩ := C08.conj_toDense h0 a (h4 hf) hne
  rw [hd] at e1; injection e1 with e1; subst e1
  rw [e2]
  congr 1
  have hwd := toDenseA_wf hd
  apply blk_ext (toDenseA_wf e2) (by simpa [Blk.conjK, Blk.map, Blk.wf] using hwd)
  · rw [s2, ← s1]; rfl
  · intro q hq
    rw [s2] at hq
    rw [hg q hq]
    exact (get_map_inBox Conj.conj d hwd (by rw [s1]; exact hq)).symm

/-- `expand_dims` (any charge): the dense form is the dense form with a size-one axis inserted,
    `d[..., None, ...]` — the same flat data -/
theorem expandDims_dense (a : Arr R) (axis : Nat) (c : Option Charge) (dual : Option Bool)
    (ha : axis ≤ a.ndim) (hv : a.validB = true) (hf : a.fermi = false) (hne : C08.NoEmpty a)
    (d : Blk R) (hd : toDenseA a = .ok d) :
    toDenseA (a.expandDims axis c dual) = .ok (d.expandK axis) := by
  obtain ⟨h1, h2, h3, h4⟩ := C08.hypotheses_of_validB a hv
  obtain ⟨d0, d', e1, e2, s1, s2, hg⟩ := expandDims_toDense_any a axis c dual ha (h4 hf) h1 h2 h3 hne
  rw [hd] at e1; injection e1 with e1; subst e1
  rw [e2]
  congr 1
  have hal : axis ≤ d.shape.length := by rw [s1]; simpa [Arr.shape, Arr.ndim] using ha
  apply blk_eq_of_data
  · rw [s2, ← s1]; rfl
  · show d'.data.toList = d.data.toList
    apply data_of_reindex (toDenseA_wf hd) (toDenseA_wf e2) (ins axis 0)
    · rw [s2, ← s1]; exact allIdx_ins axis d.shape hal
    · intro p hp; exact hg p (by rw [← s1]; exact hp)

/-- `squeeze`: the dense form is the dense form with the removed size-one axes dropped,
    `np.squeeze` — the same flat data -/
theorem squeeze_dense (a : Arr R) (axis : Option (List Nat)) (a' : Arr R)
    (h : a.squeeze axis = .ok a') (hv : a.validB = true) (hf : a.fermi = false)
    (hne : C08.NoEmpty a) (d : Blk R) (hd : toDenseA a = .ok d) :
    ∃ m, squeezeMask a axis = .ok m ∧ toDenseA a' = .ok (d.squeezeK (keptAxes m 0)) := by
  obtain ⟨h1, h2, _, h4⟩ := C08.hypotheses_of_validB a hv
  obtain ⟨m, d0, d', hm, e1, e2, s1, s2, hg⟩ := C08.squeeze_toDense a axis a' h (h4 hf) h1 h2 hne
  rw [hd] at e1; injection e1 with e1; subst e1
  obtain ⟨m', hm', _, hml, _, _, hspec⟩ := C08.squeeze_mask_spec a axis a' h
  rw [hm] at hm'; injection hm' with hm'; subst hm'
  refine ⟨m, hm, ?_⟩
  rw [e2]
  congr 1
  have hsl : d.shape.length = m.length := by rw [s1, hml]; simp [Arr.shape, Arr.ndim]
  -- removed axes have size one
  have hone : List.Forall₂ (fun (b : Bool) (dd : Nat) => b = true → dd = 1) m d.shape := by
    rw [List.forall₂_iff_get]
    refine ⟨hsl.symm, fun i hi1 hi2 hb => ?_⟩
    simp only [List.get_eq_getElem] at hb ⊢
    have hi3 : i < a.indices.length := by rw [hml] at hi1; exact hi1
    obtain ⟨_, dd, hcm, hle⟩ := (hspec i a.indices[i] (List.getElem?_eq_getElem hi3)).1
      (by rw [List.getElem?_eq_getElem hi1, hb])
    have hpos := validB_pos a hv a.indices[i] (List.getElem_mem hi3) (a.sym.zero, dd)
      (by rw [hcm]; simp)
    have hdd : dd = 1 := by simp only at hpos; omega
    have : d.shape[i] = (a.indices[i]).sizeTotal := by
      simp [s1, Arr.shape]
    rw [this, Index.sizeTotal, hcm, hdd]
    rfl
  apply blk_eq_of_data
  · show d'.shape = permuted d.shape (keptAxes m 0)
    rw [s2, ← s1, permuted_keptAxes_zero m d.shape hsl]
  · show d'.data.toList = d.data.toList
    apply data_of_reindex (toDenseA_wf hd) (toDenseA_wf e2) (dropMask m)
    · rw [s2, ← s1]; exact allIdx_dropMask m d.shape hone
    · intro p hp; exact hg p (by rw [← s1]; exact hp)

end ops

end Dense6
end SymmModel
