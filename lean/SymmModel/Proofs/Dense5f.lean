/-
  SymmModel.Proofs.Dense5f — reshape at position level for plans with several fuse calls
  (property C08, fifth part): the position relations of `fuse_toDense` composed along the calls.

  New names live in `SymmModel.Dense5`.
-/
import SymmModel.Proofs.Dense5a
import SymmModel.Props.C08All3

namespace SymmModel
namespace Dense5
open FuseP DenseP Dense3 Dense4 Arr

variable {R : Type}

/-- the position relation of one fuse call (the relation of the backward half of
    `C08.fuse_toDense`; the forward half implies it): `p` is a position of a stored sector of `a`,
    `P` a position of a stored sector of `x`, and the address of `P`, expanded by the segments the
    fused indices' own tables give (`splitAddr`), is the permuted address of `p` -/
def PosRel (a x : Arr R) (groups : List (List Nat)) (p P : List Nat) : Prop :=
  let gi := calcFuseGroupInfo groups a.duals
  ∃ (s : Sector) (offs : List Nat) (ns : Sector) (i : List Nat) (segs : List (Sector × List Nat)),
    locateAll a.indices p = some (s, offs) ∧ s ∈ a.sectors
    ∧ locateAll x.indices P = some (ns, i) ∧ ns ∈ x.sectors
    ∧ segs.length = groups.length
    ∧ (∀ g gaxes, groups[g]? = some gaxes →
        (gaxes.length = 1 →
          segs[g]? = some ([ns.getD (gi.position + g) (0, 0)], [i.getD (gi.position + g) 0]))
        ∧ (gaxes.length ≠ 1 →
            splitAddr (x.indices.getD (gi.position + g) default)
              (ns.getD (gi.position + g) (0, 0)) (i.getD (gi.position + g) 0) = segs[g]?))
    ∧ permuted s gi.perm = ns.take gi.position ++ (segs.map (·.1)).flatten
        ++ ns.drop (gi.position + groups.length)
    ∧ permuted offs gi.perm = i.take gi.position ++ (segs.map (·.2)).flatten
        ++ i.drop (gi.position + groups.length)

/-- the forward relation (`FuseRel`) is an instance -/
theorem posRel_of_fuseRel {a x : Arr R} {groups : List (List Nat)} {p P : List Nat} {s : Sector}
    {offs : List Nat} {ns : Sector} {i : List Nat} (hp : locateAll a.indices p = some (s, offs))
    (hs : s ∈ a.sectors) (hP : locateAll x.indices P = some (ns, i)) (hns : ns ∈ x.sectors)
    (h : FuseRel a x groups s offs ns i) : PosRel a x groups p P := by
  obtain ⟨m, g1, k, j⟩ := h
  refine ⟨s, offs, ns, i,
    groups.map (fun gaxes => (gaxes.map (fun ax => s.getD ax (0, 0)), gaxes.map (fun ax => offs.getD ax 0))),
    hp, hs, hP, hns, by simp, ?_, ?_, ?_⟩
  · intro g gaxes hg
    have hseg : (groups.map (fun gaxes => (gaxes.map (fun ax => s.getD ax (0, 0)),
        gaxes.map (fun ax => offs.getD ax 0))))[g]?
        = some (gaxes.map (fun ax => s.getD ax (0, 0)), gaxes.map (fun ax => offs.getD ax 0)) := by
      simp [List.getElem?_map, hg]
    constructor
    · intro hlen
      obtain ⟨e1, e2⟩ := g1 g gaxes hg hlen
      rw [hseg, e1, e2]
    · intro hlen
      rw [hseg]; exact m g gaxes hg hlen
  · rw [k]; simp [List.map_map, Function.comp_def]
  · rw [j]; simp [List.map_map, Function.comp_def]

/-- every fuse call of the plan is admissible and produces an array without empty charge table -/
def CallsOk [Zero R] : List (List (List Nat)) → Arr R → Prop
  | [], _ => True
  | g :: rest, a => C05.groupsOkB g a.ndim = true
      ∧ ∀ x, fuseCore a g .insert = .ok x → C08.NoEmpty x ∧ CallsOk rest x

/-- the composed position relation along the calls -/
def PlanRel [Zero R] : List (List (List Nat)) → Arr R → List Nat → List Nat → Prop
  | [], _, p, P => p = P
  | g :: rest, a, p, P =>
    ∃ x P1, fuseCore a g .insert = .ok x ∧ PosRel a x g p P1 ∧ PlanRel rest x P1 P

/-- the calls executed one after the other -/
def runCalls [Zero R] (calls : List (List (List Nat))) (a : Arr R) : Except Err (Arr R) :=
  calls.foldlM (fun x g => fuseCore x g .insert) a

theorem fuseCore_keeps [Zero R] {a x : Arr R} {g : List (List Nat)} (hv : a.validB = true)
    (hf : a.fermi = false) (hg : C05.groupsOkB g a.ndim = true)
    (hx : fuseCore a g .insert = .ok x) : x.validB = true ∧ x.fermi = false := by
  have hadm : ValidP.fuseAdmissibleB g a.ndim = true := by
    have hg' : FuseP.groupsOkB g a.ndim = true := hg
    simp only [FuseP.groupsOkB, Bool.and_eq_true] at hg'
    simp only [ValidP.fuseAdmissibleB, Bool.and_eq_true]
    exact ⟨hg'.2, hg'.1.2⟩
  refine ⟨ValidP.fuseCore_insert_validB a x g hv hf hadm hx, ?_⟩
  have hx' := fuseCore_multi_eq (validArr_of_validB hv) (groupsOk_iff.1 hg)
  rw [hx] at hx'; injection hx' with hx'; subst hx'; exact hf

/-- **dense form along a plan of fuse calls.** -/
theorem calls_dense_main [Zero R] [Neg R] (calls : List (List (List Nat))) (a : Arr R)
    (hv : a.validB = true) (hf : a.fermi = false) (hne : C08.NoEmpty a) (hok : CallsOk calls a)
    (y : Arr R) (hy : runCalls calls a = .ok y) :
    ∃ dA dY, toDenseA a = .ok dA ∧ toDenseA y = .ok dY ∧ dA.shape = a.shape ∧ dY.shape = y.shape
      ∧ (∀ p, inBox a.shape p = true → ∀ s offs, locateAll a.indices p = some (s, offs) →
          s ∈ a.sectors →
          ∃ P ns i, inBox y.shape P = true ∧ locateAll y.indices P = some (ns, i) ∧ ns ∈ y.sectors
            ∧ PlanRel calls a p P ∧ dY.get P = dA.get p)
      ∧ (∀ P, inBox y.shape P = true → dY.get P = 0 ∨
          ∃ p s offs, inBox a.shape p = true ∧ locateAll a.indices p = some (s, offs)
            ∧ s ∈ a.sectors ∧ PlanRel calls a p P ∧ dY.get P = dA.get p) := by
  induction calls generalizing a with
  | nil =>
    simp only [runCalls, List.foldlM_nil, pure, Except.pure, Except.ok.injEq] at hy
    subst hy
    obtain ⟨dA, hdA, hsA, hgA⟩ := Arr.toDenseA_get a hne
    have hpa : a.phases = [] := (validB_facts a hv).2.2.2.2.2 hf
    refine ⟨dA, dA, hdA, hdA, hsA, hsA, ?_, ?_⟩
    · intro p hp s offs hl hs
      exact ⟨p, s, offs, hp, hl, hs, rfl, rfl⟩
    · intro P hP
      obtain ⟨s, offs, hl, hval⟩ := hgA P hP
      by_cases hs : s ∈ a.sectors
      · exact Or.inr ⟨P, s, offs, hP, hl, hs, rfl, rfl⟩
      · left
        rw [hval, Arr.elem_abelian a hpa, alookup_eq_none_iff.mpr hs]
  | cons g rest ih =>
    obtain ⟨hg, hrest⟩ := hok
    simp only [runCalls, List.foldlM_cons, bind, Except.bind] at hy
    cases hx : fuseCore a g .insert with
    | error e => rw [hx] at hy; cases hy
    | ok x =>
      rw [hx] at hy
      simp only at hy
      obtain ⟨hnex, hokx⟩ := hrest x hx
      obtain ⟨hxv, hxf⟩ := fuseCore_keeps hv hf hg hx
      obtain ⟨dA, dX, e1, e2, e3, e4, fwd, bwd⟩ := C08.fuse_toDense a g hv hg hf hne x hx hnex
      obtain ⟨dX', dY, f1, f2, f3, f4, fwd', bwd'⟩ := ih x hxv hxf hnex hokx hy
      rw [e2] at f1; injection f1 with f1; subst f1
      refine ⟨dA, dY, e1, f2, e3, f4, ?_, ?_⟩
      · intro p hp s offs hl hs
        obtain ⟨P1, ns1, i1, hP1, hlP1, hns1, r1, r2, r3, r4, hval1⟩ := fwd p hp s offs hl hs
        obtain ⟨P, ns, i, hP, hlP, hns, hrel, hval⟩ := fwd' P1 hP1 ns1 i1 hlP1 hns1
        refine ⟨P, ns, i, hP, hlP, hns, ⟨x, P1, hx, ?_, hrel⟩, by rw [hval, hval1]⟩
        exact posRel_of_fuseRel hl hs hlP1 hns1 ⟨r1, r2, r3, r4⟩
      · intro P hP
        rcases bwd' P hP with h0 | ⟨P1, ns1, i1, hP1, hlP1, hns1, hrel, hval⟩
        · exact Or.inl h0
        · rcases bwd P1 hP1 ns1 i1 hlP1 with h0 | ⟨p, s, offs, segs, hp, hl, hs, hnsx, q1, q2, q3, q4, hval1⟩
          · left; rw [hval, h0]
          · right
            refine ⟨p, s, offs, hp, hl, hs, ⟨x, P1, hx, ?_, hrel⟩, by rw [hval, hval1]⟩
            exact ⟨s, offs, ns1, i1, segs, hl, hs, hlP1, hnsx, q1, q2, q3, q4⟩

/-- for an abelian array the plan `([], calls, [])` of `reshape` runs the fuse calls -/
theorem applyPlan_calls [Zero R] [Neg R] (calls : List (List (List Nat))) (a : Arr R)
    (hv : a.validB = true) (hf : a.fermi = false) (hok : CallsOk calls a) :
    applyPlan a ([], calls, []) = runCalls calls a := by
  have key : ∀ (cs : List (List (List Nat))) (b : Arr R), b.validB = true → b.fermi = false →
      CallsOk cs b → cs.foldlM fuseDispatch b = runCalls cs b := by
    intro cs
    induction cs with
    | nil => intro b _ _ _; rfl
    | cons g rest ih =>
      intro b hbv hbf hbok
      obtain ⟨hg, hrest⟩ := hbok
      simp only [runCalls, List.foldlM_cons, bind, Except.bind, fuseDispatch, hbf,
        Bool.false_eq_true, if_false]
      rw [C05.fuseA_eq_fuseCore b g .insert true b.ndim hg]
      cases hx : fuseCore b g .insert with
      | error e => rfl
      | ok x =>
        simp only
        obtain ⟨hxv, hxf⟩ := fuseCore_keeps hbv hbf hg hx
        exact ih x hxv hxf (hrest x hx).2
  simp only [applyPlan, List.foldlM_nil, bind, Except.bind, pure, Except.pure]
  rw [key calls a hv hf hok]
  cases runCalls calls a <;> rfl


/-- `CallsOk` by running the calls (a decidable sufficient condition) -/
def callsOkB [Zero R] : List (List (List Nat)) → Arr R → Bool
  | [], _ => true
  | g :: rest, a => FuseP.groupsOkB g a.ndim
      && (match fuseCore a g .insert with
          | .ok x => !(x.indices.any (fun ix => ix.cm.isEmpty)) && callsOkB rest x
          | .error _ => true)

theorem callsOk_of_B [Zero R] (calls : List (List (List Nat))) (a : Arr R)
    (h : callsOkB calls a = true) : CallsOk calls a := by
  induction calls generalizing a with
  | nil => trivial
  | cons g rest ih =>
    simp only [callsOkB, Bool.and_eq_true] at h
    refine ⟨h.1, fun x hx => ?_⟩
    have h2 := h.2
    rw [hx] at h2
    simp only [Bool.and_eq_true, Bool.not_eq_true'] at h2
    exact ⟨h2.1, ih x h2.2⟩


end Dense5
end SymmModel
