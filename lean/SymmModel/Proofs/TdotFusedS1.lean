/-
  SymmModel.Proofs.TdotFusedS1 — towards S7 for fused / auto mode: the graded contraction does not
  see zero padding.  `Pad P Q`: `P` stores the sectors of `Q` (any order) plus all-zero blocks and
  has differently pruned tables with the same directions.  Then `gradedContract P C = gradedContract
  Q C` and `gradedContract A P = gradedContract A Q` at every address of the table box.
  Namespace `SymmModel.TdotP`.
-/
import SymmModel.Proofs.TdotFusedW2

namespace SymmModel
namespace TdotP
open GradedP
open Lazy (sgnI)
variable {R : Type}

/-- `P` is a zero-padded, re-ordered, differently pruned copy of `Q` -/
structure Pad [Zero R] [Neg R] (P Q : Arr R) : Prop where
  sym : P.sym = Q.sym
  ndim : P.ndim = Q.ndim
  dual : ∀ i, (P.indices.getD i default).dual = (Q.indices.getD i default).dual
  ndP : P.sectors.Nodup
  ndQ : Q.sectors.Nodup
  sub : ∀ s ∈ Q.sectors, s ∈ P.sectors
  shapeP : P.shapesOk
  shapeQ : Q.shapesOk
  shape : ∀ s ∈ Q.sectors, Arr.blockShapeD P.indices s = Arr.blockShapeD Q.indices s
  elem : ∀ s ∈ P.sectors, ∀ o, inBox (Arr.blockShapeD P.indices s) o = true → P.elem s o = Q.elem s o

theorem gradedSign_congr_left [Zero R] [Neg R] {P Q : Arr R} (hp : Pad P Q) (C : Arr R) (x y : List Nat) (sa sb : Sector) :
    gradedSign P C x y sa sb = gradedSign Q C x y sa sb := by
  unfold gradedSign oddContracted ketOdd Arr.parities
  rw [hp.sym, hp.ndim]
  simp only [hp.dual]

theorem gradedSign_congr_right [Zero R] [Neg R] {P Q : Arr R} (hp : Pad P Q) (A : Arr R) (x y : List Nat) (sa sb : Sector) :
    gradedSign A P x y sa sb = gradedSign A Q x y sa sb := by
  unfold gradedSign Arr.parities
  rw [hp.sym, hp.ndim]

section left
variable [AddCommMonoid R] [Mul R] [Neg R] [SignRing R]

/-- **zero padding of the LEFT operand is invisible to the graded contraction** -/
theorem gradedContract_congr_left (hz1 : ∀ x : R, 0 * x = 0) {P Q C : Arr R} (hp : Pad P Q)
    (hsc : C.shapesOk) (hdC : C.sectors.Nodup) (x y : List Nat) (hx : ∀ i ∈ x, i < P.ndim)
    (s : Sector) (oL oR : List Nat) (hoL : oL.length = (freeAxes P.ndim x).length)
    (ho : inBox (Arr.blockShapeD (without P.indices x ++ without C.indices y) s) (oL ++ oR) = true) :
    gradedContract P C x y s oL oR = gradedContract Q C x y s oL oR := by
  have hleftlt : ∀ z ∈ freeAxes P.ndim x, z < P.ndim := fun z hz => (mem_freeAxes.mp hz).1
  have hrightlt : ∀ z ∈ freeAxes C.ndim y, z < C.ndim := fun z hz => (mem_freeAxes.mp hz).1
  -- entries of `P` at merged addresses are entries of `Q`
  have hel : ∀ sa sb, (sa, sb) ∈ storedPairs P C (freeAxes P.ndim x) x y (freeAxes C.ndim y) s →
      ∀ k ∈ allIdx (permuted (Arr.blockShapeD P.indices sa) x),
        P.elem sa (mergeIdx 0 P.ndim x (freeAxes P.ndim x) k oL)
          = Q.elem sa (mergeIdx 0 P.ndim x (freeAxes P.ndim x) k oL) := by
    intro sa sb hmem k hk
    obtain ⟨hA, hB, _, hs⟩ := mem_storedPairs.mp hmem
    obtain ⟨shpA, hA1, hA2, hA3, hA4⟩ := shape_of_mem hp.shapeP hA
    obtain ⟨shpB, hB1, hB2, hB3, hB4⟩ := shape_of_mem hsc hB
    have hfree : inBox (permuted shpA (freeAxes P.ndim x)) oL = true := by
      have e : Arr.blockShapeD (without P.indices x ++ without C.indices y) s
          = permuted shpA (freeAxes P.ndim x) ++ permuted shpB (freeAxes C.ndim y) := by
        have ea : P.indices.length = P.ndim := rfl
        have eb : C.indices.length = C.ndim := rfl
        rw [← hs, without_eq_permuted_freeAxes, without_eq_permuted_freeAxes, ea, eb, Arr.blockShapeD,
          blockShape?_append (blockShape?_permuted hA1 _ hleftlt) (blockShape?_permuted hB1 _ hrightlt)]
        rfl
      rw [e, inBox_append (by
        rw [hoL, permuted_length _ _ (by intro z hz; rw [hA3]; exact hleftlt z hz)])] at ho
      simp only [Bool.and_eq_true] at ho
      exact ho.1
    apply hp.elem sa hA
    rw [hA2] at hk ⊢
    have hkbox : inBox (permuted shpA x) k = true := mem_allIdx_iff.mp hk
    have := inBox_mergeIdx (shape := shpA) (axes := x) (k := k) (f := oL)
      (by intro z hz; rw [hA3]; exact hx z hz) hkbox (by rw [hA3]; exact hfree)
    rwa [hA3] at this
  unfold gradedContract
  rw [hp.ndim] at hel ⊢
  -- drop the pairs whose left sector `Q` does not store: they contribute zero
  rw [← sum_filter_of_zero (fun p => Q.sectors.contains p.1) _ _ (by
    rintro ⟨sa, sb⟩ hmem hnot
    simp only [List.contains_eq_mem, decide_eq_false_iff_not] at hnot
    have hz : contractPair P C x y oL oR (sa, sb) = 0 := by
      unfold contractPair
      apply List.sum_eq_zero
      intro t ht
      obtain ⟨k, hk, rfl⟩ := List.mem_map.mp ht
      unfold contractTerm
      rw [hp.ndim, hel sa sb hmem k hk, Arr.elem_of_not_mem hnot, hz1]
    rw [hz, Lazy.sgnI_zero])]
  -- on the remaining pairs the terms agree
  have hterm : ∀ p ∈ (storedPairs P C (freeAxes Q.ndim x) x y (freeAxes C.ndim y) s).filter
        (fun p => Q.sectors.contains p.1),
      sgnI (gradedSign P C x y p.1 p.2) (contractPair P C x y oL oR p)
        = sgnI (gradedSign Q C x y p.1 p.2) (contractPair Q C x y oL oR p) := by
    rintro ⟨sa, sb⟩ hmem
    obtain ⟨hmem', hq⟩ := List.mem_filter.mp hmem
    simp only [List.contains_eq_mem, decide_eq_true_eq] at hq
    rw [gradedSign_congr_left hp]
    congr 1
    unfold contractPair
    simp only
    rw [← hp.shape sa hq]
    congr 1
    apply List.map_congr_left
    intro k hk
    unfold contractTerm
    rw [hp.ndim, hel sa sb hmem' k hk]
  rw [List.map_congr_left hterm]
  apply List.Perm.sum_eq
  apply List.Perm.map
  rw [List.perm_ext_iff_of_nodup
    ((storedPairs_nodup _ x y _ _ hp.ndP hdC).filter _) (storedPairs_nodup _ x y _ _ hp.ndQ hdC)]
  rintro ⟨sa, sb⟩
  rw [List.mem_filter, mem_storedPairs, mem_storedPairs]
  simp only [List.contains_eq_mem, decide_eq_true_eq]
  constructor
  · rintro ⟨⟨_, h2, h3, h4⟩, hq⟩; exact ⟨hq, h2, h3, h4⟩
  · rintro ⟨h1, h2, h3, h4⟩; exact ⟨⟨hp.sub _ h1, h2, h3, h4⟩, h1⟩

/-- **zero padding of the RIGHT operand is invisible to the graded contraction** (aligned sector
    pairs have equal contracted shapes: `hmatch`, e.g. `AssocP.shapes_match_w`) -/
theorem gradedContract_congr_right (hz2 : ∀ x : R, x * 0 = 0) {A P Q : Arr R} (hp : Pad P Q)
    (hsa : A.shapesOk) (hdA : A.sectors.Nodup) (x y : List Nat) (hy : ∀ i ∈ y, i < P.ndim)
    (hmatch : ∀ sa ∈ A.sectors, ∀ sb ∈ P.sectors, permuted sb y = permuted sa x →
      permuted (Arr.blockShapeD P.indices sb) y = permuted (Arr.blockShapeD A.indices sa) x)
    (s : Sector) (oL oR : List Nat) (hoL : oL.length = (freeAxes A.ndim x).length)
    (ho : inBox (Arr.blockShapeD (without A.indices x ++ without P.indices y) s) (oL ++ oR) = true) :
    gradedContract A P x y s oL oR = gradedContract A Q x y s oL oR := by
  have hleftlt : ∀ z ∈ freeAxes A.ndim x, z < A.ndim := fun z hz => (mem_freeAxes.mp hz).1
  have hrightlt : ∀ z ∈ freeAxes P.ndim y, z < P.ndim := fun z hz => (mem_freeAxes.mp hz).1
  have hel : ∀ sa sb, (sa, sb) ∈ storedPairs A P (freeAxes A.ndim x) x y (freeAxes P.ndim y) s →
      ∀ k ∈ allIdx (permuted (Arr.blockShapeD A.indices sa) x),
        P.elem sb (mergeIdx 0 P.ndim y (freeAxes P.ndim y) k oR)
          = Q.elem sb (mergeIdx 0 P.ndim y (freeAxes P.ndim y) k oR) := by
    intro sa sb hmem k hk
    obtain ⟨hA, hB, hal, hs⟩ := mem_storedPairs.mp hmem
    obtain ⟨shpA, hA1, hA2, hA3, hA4⟩ := shape_of_mem hsa hA
    obtain ⟨shpB, hB1, hB2, hB3, hB4⟩ := shape_of_mem hp.shapeP hB
    have hfree : inBox (permuted shpB (freeAxes P.ndim y)) oR = true := by
      have e : Arr.blockShapeD (without A.indices x ++ without P.indices y) s
          = permuted shpA (freeAxes A.ndim x) ++ permuted shpB (freeAxes P.ndim y) := by
        have ea : A.indices.length = A.ndim := rfl
        have eb : P.indices.length = P.ndim := rfl
        rw [← hs, without_eq_permuted_freeAxes, without_eq_permuted_freeAxes, ea, eb, Arr.blockShapeD,
          blockShape?_append (blockShape?_permuted hA1 _ hleftlt) (blockShape?_permuted hB1 _ hrightlt)]
        rfl
      rw [e, inBox_append (by
        rw [hoL, permuted_length _ _ (by intro z hz; rw [hA3]; exact hleftlt z hz)])] at ho
      simp only [Bool.and_eq_true] at ho
      exact ho.2
    apply hp.elem sb hB
    have hm := hmatch sa hA sb hB hal
    rw [hA2, hB2] at hm
    rw [hA2] at hk
    rw [hB2]
    have hkbox : inBox (permuted shpB y) k = true := by rw [hm]; exact mem_allIdx_iff.mp hk
    have := inBox_mergeIdx (shape := shpB) (axes := y) (k := k) (f := oR)
      (by intro z hz; rw [hB3]; exact hy z hz) hkbox (by rw [hB3]; exact hfree)
    rwa [hB3] at this
  unfold gradedContract
  rw [hp.ndim] at hel ⊢
  rw [← sum_filter_of_zero (fun p => Q.sectors.contains p.2) _ _ (by
    rintro ⟨sa, sb⟩ hmem hnot
    simp only [List.contains_eq_mem, decide_eq_false_iff_not] at hnot
    have hz : contractPair A P x y oL oR (sa, sb) = 0 := by
      unfold contractPair
      apply List.sum_eq_zero
      intro t ht
      obtain ⟨k, hk, rfl⟩ := List.mem_map.mp ht
      unfold contractTerm
      rw [hp.ndim, hel sa sb hmem k hk, Arr.elem_of_not_mem hnot, hz2]
    rw [hz, Lazy.sgnI_zero])]
  have hterm : ∀ p ∈ (storedPairs A P (freeAxes A.ndim x) x y (freeAxes Q.ndim y) s).filter
        (fun p => Q.sectors.contains p.2),
      sgnI (gradedSign A P x y p.1 p.2) (contractPair A P x y oL oR p)
        = sgnI (gradedSign A Q x y p.1 p.2) (contractPair A Q x y oL oR p) := by
    rintro ⟨sa, sb⟩ hmem
    obtain ⟨hmem', hq⟩ := List.mem_filter.mp hmem
    rw [gradedSign_congr_right hp]
    congr 1
    unfold contractPair
    simp only
    congr 1
    apply List.map_congr_left
    intro k hk
    unfold contractTerm
    rw [hp.ndim, hel sa sb hmem' k hk]
  rw [List.map_congr_left hterm]
  apply List.Perm.sum_eq
  apply List.Perm.map
  rw [List.perm_ext_iff_of_nodup
    ((storedPairs_nodup _ x y _ _ hdA hp.ndP).filter _) (storedPairs_nodup _ x y _ _ hdA hp.ndQ)]
  rintro ⟨sa, sb⟩
  rw [List.mem_filter, mem_storedPairs, mem_storedPairs]
  simp only [List.contains_eq_mem, decide_eq_true_eq]
  constructor
  · rintro ⟨⟨h1, _, h3, h4⟩, hq⟩; exact ⟨h1, hq, h3, h4⟩
  · rintro ⟨h1, h2, h3, h4⟩; exact ⟨⟨h1, hp.sub _ h2, h3, h4⟩, h2⟩

end left

end TdotP
end SymmModel
