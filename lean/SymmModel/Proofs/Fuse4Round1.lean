/-
  SymmModel.Proofs.Fuse4Round1 — towards `unfuseF_fuseF`: two arrays with the same indices and
  the same stored sectors / block shapes keep that relation under `unfuse`; the fermionic unfuse
  in certificate form together with its block shapes; the Koszul sign of the virtual reversal of
  `unfuseF` as a reversal sign.
-/
import SymmModel.Proofs.Fuse4Sign2
namespace SymmModel
namespace FuseP
set_option linter.unusedSectionVars false
open SymmModel.KoszulP SymmModel.Lazy

variable {R : Type}

/-- same indices, same stored sectors with the same block shapes -/
def ShapeEq (Z X : Arr R) : Prop :=
  Z.indices = X.indices ∧ ∀ K, (alookup Z.blocks K).map (·.shape) = (alookup X.blocks K).map (·.shape)

theorem ShapeEq.refl (X : Arr R) : ShapeEq X X := ⟨rfl, fun _ => rfl⟩

section U
variable [Zero R]

theorem pieceU_shape (B : Blk R) (p st d : Nat) (sub : List Nat) :
    (pieceU B p st d sub).shape = replaceWithSeq B.shape p sub := rfl

theorem ShapeEq.symm {Z X : Arr R} (h : ShapeEq Z X) : ShapeEq X Z := ⟨h.1.symm, fun K => (h.2 K).symm⟩

theorem unfuse_transfer {A B A' B' : Arr R} (h : ShapeEq A B) (hvA : ValidArr A) (hvB : ValidArr B) {p : Nat}
    {ix : Index} {subs : List Index} {exts : Extents} (hix : B.indices[p]? = some ix)
    (hsub : ix.sub = some (subs, exts)) (hA : unfuseA A p = .ok A') (hB : unfuseA B p = .ok B')
    {K : Sector} {V : Blk R} (hV : alookup A'.blocks K = some V) :
    ∃ W, alookup B'.blocks K = some W ∧ W.shape = V.shape := by
  have hixA : A.indices[p]? = some ix := by rw [h.1]; exact hix
  obtain ⟨z, hz, _, _, _, _, _, _, _, hBz⟩ := unfuseU hvA hixA hsub
  obtain ⟨x, hx, _, _, _, _, _, _, hAx, _⟩ := unfuseU hvB hix hsub
  rw [hA] at hz; rw [hB] at hx
  simp only [Except.ok.injEq] at hz hx
  subst hz; subst hx
  obtain ⟨nsB, hm, e, ss, st, d, he, hst, hK, rfl⟩ := hBz K V hV
  have hl : alookup A.blocks nsB.1 = some nsB.2 := alookup_of_mem_nodup hvA.nodup hm
  have hs := h.2 nsB.1
  rw [hl] at hs
  cases hb : alookup B.blocks nsB.1 with
  | none => rw [hb] at hs; simp at hs
  | some b' =>
    rw [hb] at hs
    simp only [Option.map_some, Option.some.injEq] at hs
    obtain ⟨subshape, h1, _, h3, _⟩ := hAx (nsB.1, b') (alookup_some_mem hb) e ss st d he hst
    refine ⟨_, by rw [hK]; exact h3, ?_⟩
    rw [pieceU_shape, pieceU_shape, h1, ← hs]
    rfl

/-- `unfuse` respects `ShapeEq` -/
theorem shapeEq_unfuse {Z X Z' X' : Arr R} (h : ShapeEq Z X) (hvZ : ValidArr Z) (hvX : ValidArr X) {p : Nat}
    {ix : Index} {subs : List Index} {exts : Extents} (hix : X.indices[p]? = some ix)
    (hsub : ix.sub = some (subs, exts)) (hZ : unfuseA Z p = .ok Z') (hX : unfuseA X p = .ok X') :
    ShapeEq Z' X' := by
  have hixZ : Z.indices[p]? = some ix := by rw [h.1]; exact hix
  obtain ⟨z, hz, hzi, _⟩ := unfuseU hvZ hixZ hsub
  obtain ⟨x, hx, hxi, _⟩ := unfuseU hvX hix hsub
  rw [hZ] at hz; rw [hX] at hx
  simp only [Except.ok.injEq] at hz hx
  subst hz; subst hx
  refine ⟨by rw [hzi, hxi, h.1], ?_⟩
  intro K
  cases hz : alookup Z'.blocks K with
  | some V =>
    obtain ⟨W, hW, hs⟩ := unfuse_transfer h hvZ hvX hix hsub hZ hX hz
    rw [hW]; simp [hs]
  | none =>
    cases hx : alookup X'.blocks K with
    | none => rfl
    | some W =>
      obtain ⟨V, hV, _⟩ := unfuse_transfer h.symm hvX hvZ hixZ hsub hX hZ hx
      rw [hz] at hV; cases hV

end U

end FuseP
end SymmModel
