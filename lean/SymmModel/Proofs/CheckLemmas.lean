/-
  SymmModel.Proofs.CheckLemmas — helper lemmas relating the model of symmray's own audit
  (Model/Check.lean) to the validity predicate of C01 (Model/Valid.lean).
  Nothing here changes a model definition.  Namespace `SymmModel.CheckP`.
-/
import SymmModel.Model.Check
import SymmModel.Proofs.ValidLemmas

namespace SymmModel
namespace CheckP
open Check ValidP

/-! ## loops and guards -/

theorem forE_ok_iff {α : Type} (f : α → Except Err Unit) (l : List α) :
    forE f l = .ok () ↔ ∀ x ∈ l, f x = .ok () := by
  induction l with
  | nil => simp [forE]
  | cons x xs ih =>
    simp only [forE, List.mem_cons, forall_eq_or_imp]
    cases h : f x with
    | ok u => cases u; simp [ih]
    | error e => simp

theorem guardE_ok_iff (c : Bool) (e : Err) : guardE c e = .ok () ↔ c = true := by
  unfold guardE; cases c <;> simp

/-! ## embedding into raw states -/

theorem indexListToRaw_eq_map (l : List Index) : indexListToRaw l = l.map indexToRaw := by
  induction l with
  | nil => simp [indexListToRaw]
  | cons i is ih => simp [indexListToRaw, ih]

theorem indexToRaw_cm (i : Index) : (indexToRaw i).cm = cmToRaw i.cm := by
  obtain ⟨cm, d, sub⟩ := i
  cases sub with
  | none => simp [indexToRaw, RIndex.cm, Index.cm]
  | some se => obtain ⟨subs, exts⟩ := se; simp [indexToRaw, RIndex.cm, Index.cm]

theorem indexToRaw_dual (i : Index) : (indexToRaw i).dual = i.dual := by
  obtain ⟨cm, d, sub⟩ := i
  cases sub with
  | none => simp [indexToRaw, RIndex.dual, Index.dual]
  | some se => obtain ⟨subs, exts⟩ := se; simp [indexToRaw, RIndex.dual, Index.dual]

theorem cmToRaw_keys (cm : List (Charge × Nat)) : (cmToRaw cm).map (·.1) = cm.map (·.1) := by
  simp [cmToRaw, List.map_map, Function.comp_def]

theorem alookup_cmToRaw (cm : List (Charge × Nat)) (c : Charge) :
    alookup (cmToRaw cm) c = (alookup cm c).map (fun (n : Nat) => (n : Int)) := by
  induction cm with
  | nil => simp [cmToRaw, alookup]
  | cons p rest ih =>
    obtain ⟨k, v⟩ := p
    simp only [cmToRaw, List.map_cons, alookup] at ih ⊢
    split
    · simp
    · exact ih

theorem arrToRaw_duals {R : Type} (a : Arr R) : (arrToRaw a).duals = a.duals := by
  simp [arrToRaw, RArr.duals, Arr.duals, indexListToRaw_eq_map, List.map_map, Function.comp_def,
    indexToRaw_dual]

theorem arrToRaw_isValidSector {R : Type} (a : Arr R) (s : Sector) :
    (arrToRaw a).isValidSector s = a.isValidSector s := by
  unfold RArr.isValidSector Arr.isValidSector
  rw [arrToRaw_duals]
  rfl

/-! ## sums -/

theorem sumZ_cast (l : List Nat) : sumZ (l.map (fun (n : Nat) => (n : Int))) = (sumN l : Int) := by
  induction l with
  | nil => simp [sumZ, sumN]
  | cons d ds ih => simp only [List.map_cons, sumZ, sumN, ih]; omega

/-- grand total of an extents table -/
def totalN (exts : Extents) : Nat := sumN (exts.flatMap (fun e => e.2.map (·.2)))

theorem sumN_append (a b : List Nat) : sumN (a ++ b) = sumN a + sumN b := by
  induction a with
  | nil => simp [sumN]
  | cons x xs ih => simp [sumN, ih, Nat.add_assoc]

theorem totalN_cons (e : Charge × Extent) (rest : Extents) :
    totalN (e :: rest) = sumN (e.2.map (·.2)) + totalN rest := by
  simp [totalN, List.flatMap_cons, sumN_append]

theorem cm_sizes_raw (cm : List (Charge × Nat)) :
    sumZ ((cmToRaw cm).map (·.2)) = (sumN (cm.map (·.2)) : Int) := by
  rw [← sumZ_cast]
  simp only [cmToRaw, List.map_map]
  rfl

theorem flat_raw (exts : Extents) :
    (exts.map (fun e => (e.1, e.2.map (fun q => (q.1, (q.2 : Int)))))).flatMap (fun e => e.2.map (·.2))
      = (exts.flatMap (fun e => e.2.map (·.2))).map (fun (n : Nat) => (n : Int)) := by
  induction exts with
  | nil => rfl
  | cons e rest ih =>
    rw [List.map_cons, List.flatMap_cons, List.flatMap_cons, List.map_append, ih]
    congr 1
    rw [List.map_map, List.map_map]
    rfl

theorem extentsTotal_raw (exts : Extents) : extentsTotal (extentsToRaw exts) = (totalN exts : Int) := by
  unfold extentsTotal totalN extentsToRaw
  rw [← sumZ_cast, flat_raw]

theorem totalN_aerase {exts : Extents} {c : Charge} {ext : Extent}
    (h : alookup exts c = some ext) :
    totalN exts = sumN (ext.map (·.2)) + totalN (aerase exts c) := by
  induction exts with
  | nil => simp [alookup] at h
  | cons e rest ih =>
    obtain ⟨k, v⟩ := e
    by_cases hk : (k == c) = true
    · rw [alookup, if_pos hk] at h
      cases h
      rw [aerase, if_pos hk, totalN_cons]
    · rw [alookup, if_neg hk] at h
      rw [aerase, if_neg hk, totalN_cons, totalN_cons, ih h]
      omega

theorem alookup_aerase_ne {β : Type} {l : List (Charge × β)} {k c : Charge} (h : k ≠ c) :
    alookup (aerase l c) k = alookup l k := by
  induction l with
  | nil => simp [aerase]
  | cons p rest ih =>
    obtain ⟨k', v'⟩ := p
    simp only [aerase]
    split
    · rename_i hk
      have hkc : k' = c := eq_of_beq hk
      have : ¬ (k' == k) = true := by
        intro hh; exact h ((eq_of_beq hh).symm.trans hkc)
      simp [alookup, this]
    · simp only [alookup, ih]

theorem not_mem_keys_aerase {β : Type} {l : List (Charge × β)} {c : Charge}
    (hn : (l.map (·.1)).Nodup) : c ∉ (aerase l c).map (·.1) := by
  induction l with
  | nil => simp [aerase]
  | cons p rest ih =>
    obtain ⟨k', v'⟩ := p
    simp only [List.map_cons, List.nodup_cons] at hn
    simp only [aerase]
    split
    · rename_i hk
      have hkc : k' = c := eq_of_beq hk
      subst hkc; exact hn.1
    · rename_i hk
      simp only [List.map_cons, List.mem_cons, not_or]
      refine ⟨?_, ih hn.2⟩
      intro hc; apply hk; simp [hc]

/-- the per-charge partition clauses of `Index.wfB` imply the single total the audit compares -/
theorem cm_total_eq (cm : List (Charge × Nat)) (exts : Extents)
    (hd : (cm.map (·.1)).Nodup) (he : (exts.map (·.1)).Nodup)
    (h1 : ∀ p ∈ cm, ∃ ext, alookup exts p.1 = some ext ∧ sumN (ext.map (·.2)) = p.2)
    (h2 : ∀ e ∈ exts, (alookup cm e.1).isSome = true) :
    sumN (cm.map (·.2)) = totalN exts := by
  induction cm generalizing exts with
  | nil =>
    cases exts with
    | nil => simp [sumN, totalN]
    | cons e rest => have := h2 e (by simp); simp [alookup] at this
  | cons p rest ih =>
    obtain ⟨c, d⟩ := p
    simp only [List.map_cons, List.nodup_cons] at hd
    obtain ⟨ext, hlk, hsum⟩ := h1 (c, d) (by simp)
    simp only at hlk hsum
    rw [totalN_aerase hlk, List.map_cons, sumN, hsum]
    congr 1
    apply ih (aerase exts c) hd.2 (aerase_keys_nodup c he)
    · intro q hq
      have hne : q.1 ≠ c := by
        intro hqc; apply hd.1; rw [← hqc]; exact List.mem_map.mpr ⟨q, hq, rfl⟩
      obtain ⟨ext', hl', hs'⟩ := h1 q (List.mem_cons_of_mem _ hq)
      exact ⟨ext', by rw [alookup_aerase_ne hne]; exact hl', hs'⟩
    · intro e hem
      have hne : e.1 ≠ c := by
        intro hec
        have hmem : e.1 ∈ (aerase exts c).map (·.1) := List.mem_map.mpr ⟨e, hem, rfl⟩
        rw [hec] at hmem
        exact not_mem_keys_aerase (c := c) he hmem
      have := h2 e (mem_aerase hem)
      simp only [alookup] at this
      have hcc : ¬ (c == e.1) = true := by intro hh; exact hne (eq_of_beq hh).symm
      simpa [hcc] using this

/-! ## sortedness -/

theorem Charge.lt_asymm' {a b : Charge} (h : Charge.lt a b = true) : Charge.lt b a = false := by
  cases hba : Charge.lt b a with
  | false => rfl
  | true =>
    exfalso
    obtain ⟨a1, a2⟩ := a
    obtain ⟨b1, b2⟩ := b
    unfold Charge.lt at h hba
    simp only [Bool.or_eq_true, decide_eq_true_eq, Bool.and_eq_true, beq_iff_eq] at h hba
    omega

/-- `sorted(keys) == list(keys)` holds for a strictly sorted key list -/
theorem isort_of_sorted {l : List Charge} (h : isSortedStrict Charge.lt l = true) :
    isort Charge.lt l = l := by
  induction l with
  | nil => rfl
  | cons a as ih =>
    cases as with
    | nil => rfl
    | cons b rest =>
      simp only [isSortedStrict, Bool.and_eq_true] at h
      rw [isort, ih h.2, insertSorted, Charge.lt_asymm' h.1]
      simp

theorem mem_insertSorted {α : Type} (lt : α → α → Bool) (a x : α) (l : List α) :
    x ∈ insertSorted lt a l ↔ x = a ∨ x ∈ l := by
  induction l with
  | nil => simp [insertSorted]
  | cons b bs ih =>
    simp only [insertSorted]
    split
    · simp only [List.mem_cons, ih]; tauto
    · simp only [List.mem_cons]

theorem insertSorted_pairwise (a : Charge) (l : List Charge)
    (h : l.Pairwise (fun x y => Charge.lt y x = false)) :
    (insertSorted Charge.lt a l).Pairwise (fun x y => Charge.lt y x = false) := by
  induction l with
  | nil => simp [insertSorted]
  | cons b bs ih =>
    simp only [insertSorted]
    rw [List.pairwise_cons] at h
    split
    · rename_i hba
      rw [List.pairwise_cons]
      refine ⟨?_, ih h.2⟩
      intro y hy
      rcases (mem_insertSorted _ _ _ _).mp hy with rfl | hy
      · exact Charge.lt_asymm' hba
      · exact h.1 y hy
    · rename_i hba
      have hba' : Charge.lt b a = false := by simpa using hba
      rw [List.pairwise_cons, List.pairwise_cons]
      refine ⟨?_, h.1, h.2⟩
      intro y hy
      rcases List.mem_cons.mp hy with rfl | hy
      · exact hba'
      · have hyb := h.1 y hy
        cases hya : Charge.lt y a with
        | false => rfl
        | true =>
          exfalso
          rcases Charge.lt_total' a y with h1 | h1 | h1
          · rw [Charge.lt_asymm' h1] at hya; cases hya
          · subst h1; rw [Charge.lt_irrefl'] at hya; cases hya
          · rcases Charge.lt_total' a b with h2 | h2 | h2
            · rw [Charge.lt_trans' hya h2] at hyb; cases hyb
            · subst h2; rw [hya] at hyb; cases hyb
            · rw [h2] at hba'; cases hba'

theorem isort_pairwise (l : List Charge) :
    (isort Charge.lt l).Pairwise (fun x y => Charge.lt y x = false) := by
  induction l with
  | nil => simp [isort]
  | cons a as ih => exact insertSorted_pairwise a _ ih

/-- the audit's `sorted(keys) == list(keys)` plus the dict invariant (distinct keys) is strict
    sortedness -/
theorem sorted_of_isort_fix {l : List Charge} (h : isort Charge.lt l = l) (hn : l.Nodup) :
    isSortedStrict Charge.lt l = true := by
  rw [sortedCharges_iff]
  have hp := isort_pairwise l
  rw [h] at hp
  refine List.Pairwise.imp₂ ?_ hp hn
  intro a b hba hne
  rcases Charge.lt_total' a b with h1 | h1 | h1
  · exact h1
  · exact absurd h1 hne
  · rw [h1] at hba; cases hba

/-! ## block shapes -/

theorem shapesAgree_cast (shp : List Nat) : shapesAgree shp (shp.map (fun (n : Nat) => (n : Int))) = true := by
  induction shp with
  | nil => rfl
  | cons d ds ih => simp [shapesAgree, ih]

theorem blockShapeE_of_trips (T : List Trip) (hT : TOk T) :
    blockShapeE ((T.map (·.1)).map indexToRaw) (T.map (·.2.1))
      = .ok ((T.map (·.2.2)).map (fun (n : Nat) => (n : Int))) := by
  induction T with
  | nil => rfl
  | cons t T ih =>
    have ht : t.1.sizeOf? t.2.1 = some t.2.2 := hT t (by simp)
    have ih' := ih (fun t' ht' => hT t' (by simp [ht']))
    simp only [List.map_cons, blockShapeE, indexToRaw_cm, alookup_cmToRaw]
    unfold Index.sizeOf? at ht
    rw [ht]
    simp only [Option.map_some]
    rw [ih']

theorem blockShapeE_of_blockShape? {idx : List Index} {s : Sector} {shp : List Nat}
    (h : Arr.blockShape? idx s = some shp) :
    blockShapeE (indexListToRaw idx) s = .ok (shp.map (fun (n : Nat) => (n : Int))) := by
  obtain ⟨T, hT, rfl, rfl, rfl⟩ := blockShape?_iff.mp h
  rw [indexListToRaw_eq_map]
  exact blockShapeE_of_trips T hT

/-- converse: what the audit's shape loop establishes when the ranks are right -/
theorem blockShape?_of_blockShapeE {idx : List Index} {s : Sector} {shp : List Nat} {exp : List Int}
    (hs : s.length = idx.length) (hr : shp.length = idx.length)
    (h : blockShapeE (idx.map indexToRaw) s = .ok exp) (ha : shapesAgree shp exp = true) :
    Arr.blockShape? idx s = some shp := by
  rw [blockShape?_iff]
  induction idx generalizing s shp exp with
  | nil =>
    cases s with
    | nil =>
      cases shp with
      | nil => exact ⟨[], by simp [TOk], rfl, rfl, rfl⟩
      | cons d ds => simp at hr
    | cons c cs => simp at hs
  | cons ix idx ih =>
    cases s with
    | nil => simp at hs
    | cons c cs =>
      cases shp with
      | nil => simp at hr
      | cons d ds =>
        simp only [List.map_cons, blockShapeE, indexToRaw_cm, alookup_cmToRaw] at h
        cases hlk : alookup ix.cm c with
        | none => rw [hlk] at h; simp at h
        | some n =>
          rw [hlk] at h
          simp only [Option.map_some] at h
          cases hrest : blockShapeE (idx.map indexToRaw) cs with
          | error e => rw [hrest] at h; cases h
          | ok r =>
            rw [hrest] at h
            cases h
            simp only [shapesAgree, Bool.and_eq_true, beq_iff_eq] at ha
            have hdn : d = n := by exact_mod_cast ha.1
            subst hdn
            obtain ⟨T, hT, h1, h2, h3⟩ :=
              ih (by simpa using hs) (by simpa using hr) hrest ha.2
            refine ⟨(ix, c, d) :: T, ?_, ?_, ?_, ?_⟩
            · intro t ht
              rcases List.mem_cons.mp ht with rfl | ht
              · exact hlk
              · exact hT t ht
            · simp [h1]
            · simp [h2]
            · simp [h3]

end CheckP
end SymmModel
