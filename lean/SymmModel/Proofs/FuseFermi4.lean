/-
  SymmModel.Proofs.FuseFermi4 — **fuseF_elem**: the value of the fermionic fused array at
  `(ns, i)` is the value of the transposed array at the expanded address times the sign the fuse
  applies to that sector; in terms of the original array: times the Koszul sign of the permutation.
-/
import SymmModel.Proofs.FuseFermi3
namespace SymmModel
namespace FuseP
set_option linter.unusedSectionVars false
open SymmModel.Lazy

variable {R : Type}

section Len
variable {a : Arr R} {groups : List (List Nat)} [Zero R]

/-- the segments have the lengths of their groups -/
theorem segM_length (hv : ValidArr a) (hok : GroupsOk groups a.ndim) {ns : Sector} {i : List Nat} {g : Nat}
    (hg : g < groups.length)
    (hsplit : multiB groups g = true →
      splitAddr (ixM a groups g) (ns.getD ((giM a groups).position + g) (0, 0))
        (i.getD ((giM a groups).position + g) 0) = some (segM a groups ns i g)) :
    (segM a groups ns i g).1.length = (groups.getD g []).length
      ∧ (segM a groups ns i g).2.length = (groups.getD g []).length := by
  have hgg : groups[g]? = some groups[g] := List.getElem?_eq_getElem hg
  have hgd : groups.getD g [] = groups[g] := by simp [List.getD_eq_getElem?_getD, hgg]
  by_cases hm : multiB groups g = true
  · obtain ⟨gaxes, hgg', hlen⟩ := multiB_iff.1 hm
    have hgd' : groups.getD g [] = gaxes := by simp [List.getD_eq_getElem?_getD, hgg']
    have hs' := hsplit hm
    cases hsg : segM a groups ns i g with
    | mk s1 s2 =>
      rw [hsg] at hs'
      obtain ⟨_, subs, exts, shp, hs, hb, hbox, _⟩ := joinAddr_splitAddr (ixM_wf hv hok hgg' hlen) hs'
      rw [ixM_sub hok hgg' hlen] at hs
      simp only [Option.some.injEq, Prod.mk.injEq] at hs
      obtain ⟨rfl, _⟩ := hs
      have hl := blockShape?_length hb
      have hl2 := inBox_length hbox
      rw [hgd']
      simp only [List.length_map] at hl
      exact ⟨hl.1.symm, by rw [hl2, hl.2]; exact hl.1.symm⟩
  · have hm' : multiB groups g = false := by simpa using hm
    have hlen : groups[g].length = 1 := by
      by_contra hne; exact hm (multiB_iff.2 ⟨_, hgg, hne⟩)
    rw [hgd, hlen]
    simp only [segM, hm', Bool.false_eq_true, if_false, List.length_cons, List.length_nil, Nat.zero_add,
      and_self]

theorem groups_sum_length (groups : List (List Nat)) :
    ((List.range groups.length).map (fun g => (groups.getD g []))).flatten.length = groups.flatten.length := by
  rw [← map_eq_range_map groups [] (fun g => g)]
  simp

theorem expandK_length (hv : ValidArr a) (hok : GroupsOk groups a.ndim) {ns : Sector} {i : List Nat}
    (hns : ns.length = ndimM a groups) (hil : i.length = ndimM a groups)
    (hsplit : ∀ g, g < groups.length → multiB groups g = true →
      splitAddr (ixM a groups g) (ns.getD ((giM a groups).position + g) (0, 0))
        (i.getD ((giM a groups).position + g) 0) = some (segM a groups ns i g)) :
    (expandK a groups ns i).length = a.ndim ∧ (expandJ a groups ns i).length = a.ndim := by
  have hfl := flatten_le (hokD hok)
  rw [duals_length] at hfl
  have h1 : ((List.range groups.length).map (fun g => (segM a groups ns i g).1)).flatten.length
      = groups.flatten.length := by
    rw [← groups_sum_length groups]
    apply flatten_map_length_eq
    intro g hg
    exact (segM_length hv hok (List.mem_range.1 hg) (hsplit g (List.mem_range.1 hg))).1
  have h2 : ((List.range groups.length).map (fun g => (segM a groups ns i g).2)).flatten.length
      = groups.flatten.length := by
    rw [← groups_sum_length groups]
    apply flatten_map_length_eq
    intro g hg
    exact (segM_length hv hok (List.mem_range.1 hg) (hsplit g (List.mem_range.1 hg))).2
  constructor
  · rw [expandK_parts ns i hns]
    simp only [List.length_append, List.length_map, List.length_range, h1]
    exact hfl
  · rw [expandJ_parts ns i hil]
    simp only [List.length_append, List.length_map, List.length_range, h2]
    exact hfl

end Len

section F
variable [Zero R] [Neg R] [LawfulNeg R]

theorem elem_of_synced (x : Arr R) (hph : x.phases = []) (S : Sector) (J : List Nat) :
    x.elem S J = (match alookup x.blocks S with
      | some b => b.get J
      | none => 0) := by
  simp only [Arr.elem, hph, alookup]
  cases alookup x.blocks S <;> simp

/-- **fuseF_elem, transposed form** -/
theorem fuseF_elemT (a : Arr R) (groups : List (List Nat)) (e : Bool) (hv : a.validB = true)
    (hf : a.fermi = true) (hok : GroupsOk groups a.ndim) :
    Arr.fuseF a groups .insert e = .ok (fusedArrM (signAdj a groups) (newGroupsF groups a.duals))
    ∧ ∀ ns B, alookup (fusedArrM (signAdj a groups) (newGroupsF groups a.duals)).blocks ns = some B →
      ∀ i, inBox B.shape i = true →
        (∀ g, g < groups.length → multiB groups g = true →
          splitAddr (ixM (signAdj a groups) (newGroupsF groups a.duals) g)
            (ns.getD ((calcFuseGroupInfo groups a.duals).position + g) (0, 0))
            (i.getD ((calcFuseGroupInfo groups a.duals).position + g) 0)
            = some (segM (signAdj a groups) (newGroupsF groups a.duals) ns i g))
        ∧ (expandK (signAdj a groups) (newGroupsF groups a.duals) ns i).length = a.ndim
        ∧ (expandJ (signAdj a groups) (newGroupsF groups a.duals) ns i).length = a.ndim
        ∧ (fusedArrM (signAdj a groups) (newGroupsF groups a.duals)).elem ns i
          = sgnI (fuseSignT a groups (expandK (signAdj a groups) (newGroupsF groups a.duals) ns i))
              ((a.transposeF (calcFuseGroupInfo groups a.duals).perm).elem
                (expandK (signAdj a groups) (newGroupsF groups a.duals) ns i)
                (expandJ (signAdj a groups) (newGroupsF groups a.duals) ns i))
        ∧ (∀ b4, alookup (signAdj a groups).blocks (expandK (signAdj a groups) (newGroupsF groups a.duals) ns i) = some b4 →
            inBox b4.shape (expandJ (signAdj a groups) (newGroupsF groups a.duals) ns i) = true) := by
  have hfld := signAdj_fields a groups
  have hva4 : ValidArr (signAdj a groups) := validArr_of_core (signAdj_valid a groups hv hf hok).core
  have hnd4 : (signAdj a groups).ndim = a.ndim := by
    show (signAdj a groups).indices.length = a.ndim
    rw [hfld.2.1]; exact permutedM_length hok a.indices rfl
  have hd4 : (signAdj a groups).duals.length = a.duals.length := by
    rw [duals_length, duals_length, hnd4]
  have hok4 : GroupsOk (newGroupsF groups a.duals) (signAdj a groups).ndim := by
    rw [hnd4, ← duals_length]; exact newGroupsF_ok (hokD hok)
  obtain ⟨hpos, hperm, _⟩ := newGroups_plan (hokD hok) hd4
  refine ⟨by rw [fuseF_eq a groups .insert e hok]; exact fuseCore_multi_eq hva4 hok4, ?_⟩
  intro ns B hB i hi
  have hB' : alookup (fusedBlocksM (signAdj a groups) (newGroupsF groups a.duals)) ns = some B := hB
  obtain ⟨h1, h2⟩ := fused_getM hva4 hok4 hB' hi
  obtain ⟨sb0, hsb0, hns0, hBs⟩ := fusedBlockM_info hva4 hok4 hB'
  have hnsl : ns.length = ndimM (signAdj a groups) (newGroupsF groups a.duals) := by
    rw [← hns0]; exact planM_newSector_length hok4 sb0
  have hil : i.length = ndimM (signAdj a groups) (newGroupsF groups a.duals) := by
    rw [inBox_length hi, hBs, BshM_length]
  have hlen : (newGroupsF groups a.duals).length = groups.length := newGroupsF_length _ _
  obtain ⟨hKl, hJl⟩ := expandK_length hva4 hok4 hnsl hil h1
  rw [hnd4] at hKl hJl
  have hpermK : permuted (expandK (signAdj a groups) (newGroupsF groups a.duals) ns i)
      (giM (signAdj a groups) (newGroupsF groups a.duals)).perm
      = expandK (signAdj a groups) (newGroupsF groups a.duals) ns i := by
    rw [hperm, ← duals_length a, ← hKl] at *
    exact Lazy.permuted_range _
  have hpermJ : permuted (expandJ (signAdj a groups) (newGroupsF groups a.duals) ns i)
      (giM (signAdj a groups) (newGroupsF groups a.duals)).perm
      = expandJ (signAdj a groups) (newGroupsF groups a.duals) ns i := by
    rw [hperm, duals_length a, ← hJl]
    exact Lazy.permuted_range _
  obtain ⟨hget, hbox⟩ := h2 _ _ (by rw [hnd4]; exact hKl) (by rw [hnd4]; exact hJl) hpermK hpermJ
  refine ⟨?_, hKl, hJl, ?_, ?_⟩
  · intro g hg hm
    have := h1 g (by rw [hlen]; exact hg) (by rw [multiB_newGroupsF]; exact hm)
    rw [hpos] at this
    exact this
  · rw [← signAdj_elem, elem_of_synced _ hfld.1,
      elem_of_synced (fusedArrM (signAdj a groups) (newGroupsF groups a.duals))
        (by show (signAdj a groups).phases = []; exact hfld.1)]
    simp only [fusedArrM, hB']
    rw [hget]
    cases alookup (signAdj a groups).blocks (expandK (signAdj a groups) (newGroupsF groups a.duals) ns i) <;> rfl
  · intro b4 hb4
    have := hbox b4 hb4
    have hb4l : b4.shape.length = a.duals.length := by
      have := (hva4.blk (_, b4) (alookup_some_mem hb4)).2.1
      have hl := blockShape?_length this
      rw [hl.2, duals_length]; exact hKl
    rw [hpermJ, hperm, ← hb4l, Lazy.permuted_range] at this
    exact this

end F

end FuseP
end SymmModel
