/-
  SymmModel.Proofs.NormNet21 — network form of the norm (property C10), part 21:
  `b·a` is the rotated transpose of `a·b` up to block order:
  `Eqv (q·p) ((p·q).transposeF rot)` (S5 of C04 as an equivalence of arrays), with the index tables
  (`dropUnused` commutes with the rotation).
-/
import SymmModel.Proofs.NormNet20
import SymmModel.Proofs.Assoc4Swap
namespace SymmModel.NormNet
open SymmModel SymmModel.Lazy SymmModel.Norm SymmModel.TdotP SymmModel.GradedP SymmModel.RoutesP
open SymmModel.AssocP SymmModel.Assoc3P
set_option linter.unusedSectionVars false

/-! ## rotation: lists, sectors, index tables -/
section rot
variable {α : Type}

theorem rotL_getElem? (m : Nat) (l : List α) (hm : m ≤ l.length) (i : Nat) :
    (rotL m l)[i]? = if i < l.length - m then l[m + i]? else
      if i < l.length then l[i - (l.length - m)]? else none := by
  unfold rotL
  by_cases h1 : i < l.length - m
  · rw [if_pos h1, List.getElem?_append_left (by rw [List.length_drop]; exact h1), List.getElem?_drop]
  · rw [if_neg h1, List.getElem?_append_right (by rw [List.length_drop]; omega), List.length_drop,
      List.getElem?_take]
    by_cases h2 : i < l.length
    · rw [if_pos h2, if_pos (by omega)]
    · rw [if_neg h2, if_neg (by omega)]

theorem rotL_length (m : Nat) (l : List α) (hm : m ≤ l.length) : (rotL m l).length = l.length := by
  unfold rotL; simp; omega

theorem permuted_rot_eq (m k : Nat) (s : List α) (hs : s.length = m + k) :
    permuted s (rotAx m k) = rotL m s := by
  have h1 : (s.take m).length = m := by rw [List.length_take]; omega
  have h2 : (s.drop m).length = k := by rw [List.length_drop]; omega
  have := permuted_rotAx (s.take m) (s.drop m)
  rw [h1, h2, List.take_append_drop] at this
  exact this

end rot

section droprot

theorem dropTo_congr (ix : Index) {S S' : List Charge} (h : ∀ c, c ∈ S ↔ c ∈ S') :
    dropTo ix S = dropTo ix S' := by
  rw [dropTo_eq_dropCharges, dropTo_eq_dropCharges]
  apply Index.dropCharges_congr
  intro c
  simp only [List.mem_filter, Bool.not_eq_true', List.contains_eq_mem, decide_eq_false_iff_not, h]

/-- `dropUnused` commutes with a rotation of the legs when the sector lists correspond -/
theorem dropUnused_rot (W : List Index) (S S' : List Sector) (m : Nat) (hm : m ≤ W.length)
    (hS : ∀ s ∈ S, s.length = W.length)
    (hmem : ∀ s', s' ∈ S' ↔ ∃ s ∈ S, rotL m s = s') :
    dropUnused (rotL m W) S' = rotL m (dropUnused W S) := by
  apply List.ext_getElem?
  intro i
  have hpres : ∀ (j : Nat), (if i < W.length - m then m + i else i - (W.length - m)) = j →
      i < W.length →
      ∀ c, c ∈ S'.filterMap (fun s => s[i]?) ↔ c ∈ S.filterMap (fun s => s[j]?) := by
    intro j hj hi c
    simp only [List.mem_filterMap]
    constructor
    · rintro ⟨s', hs', he⟩
      obtain ⟨s, hs, rfl⟩ := (hmem s').mp hs'
      refine ⟨s, hs, ?_⟩
      rw [rotL_getElem? m s (by rw [hS s hs]; exact hm), hS s hs] at he
      subst hj
      by_cases h1 : i < W.length - m
      · simp only [h1, if_true] at he ⊢; exact he
      · simp only [h1, hi, if_true, if_false] at he ⊢; exact he
    · rintro ⟨s, hs, he⟩
      refine ⟨rotL m s, (hmem _).mpr ⟨s, hs, rfl⟩, ?_⟩
      rw [rotL_getElem? m s (by rw [hS s hs]; exact hm), hS s hs]
      subst hj
      by_cases h1 : i < W.length - m
      · simp only [h1, if_true] at he ⊢; exact he
      · simp only [h1, hi, if_true, if_false] at he ⊢; exact he
  rw [dropUnused_getElem?, rotL_getElem? m W hm, rotL_getElem? m (dropUnused W S)
    (by rw [dropUnused_length]; exact hm), dropUnused_length]
  by_cases h1 : i < W.length - m
  · rw [if_pos h1, if_pos h1, dropUnused_getElem?]
    cases hW : W[m + i]? with
    | none => rfl
    | some ix =>
      simp only [Option.map_some]
      rw [dropTo_congr ix (hpres (m + i) (by rw [if_pos h1]) (by omega))]
  · rw [if_neg h1, if_neg h1]
    by_cases h2 : i < W.length
    · rw [if_pos h2, if_pos h2, dropUnused_getElem?]
      cases hW : W[i - (W.length - m)]? with
      | none => rfl
      | some ix =>
        simp only [Option.map_some]
        rw [dropTo_congr ix (hpres (i - (W.length - m)) (by rw [if_neg h1]) h2)]
    · rw [if_neg h2, if_neg h2]; rfl

end droprot

/-! ## `q·p` is the rotated transpose of `p·q` up to block order -/
section swapeqv
variable {R : Type} [AddCommMonoid R] [Mul R] [Neg R] [SignRing R]

theorem frame_rot (p q : Arr R) (xp xq : List Nat) :
    rotL (freeAxes p.ndim xp).length (without p.indices xp ++ without q.indices xq)
      = without q.indices xq ++ without p.indices xp := by
  have : (without p.indices xp).length = (freeAxes p.ndim xp).length := by
    rw [without_eq_permuted_freeAxes]
    exact permuted_length _ _ (fun x hx => (mem_freeAxes.mp hx).1)
  rw [← this, rotL_append]

/-- **S5 as an equivalence of arrays**: `P' = q·p` and `(p·q).transposeF rot`, `rot` the rotation
    that moves `p`'s dangling legs behind `q`'s, have the same frame, sector set and values -/
theorem swap_eqv (hmul : ∀ x y : R, x * y = y * x) (p q P P' : Arr R) (xp xq : List Nat)
    (h : Adm p q xp xq) (hd : (p.oddpos ++ q.oddpos).Pairwise (fun x y => x.1 ≠ y.1))
    (eP : p.tensordotF q (.pair (xp.map Int.ofNat) (xq.map Int.ofNat)) .blockwise = .ok P)
    (eP' : q.tensordotF p (.pair (xq.map Int.ofNat) (xp.map Int.ofNat)) .blockwise = .ok P')
    (hPv : P.validB = true) (hPf : P.fermi = true) :
    Eqv P' (P.transposeF (rotAx (freeAxes p.ndim xp).length (freeAxes q.ndim xq).length)) := by
  obtain ⟨c', e', so, sc, ss, sf, hel⟩ := RoutesP.tdotF_swap p q P xp xq hmul h hd eP
  obtain rfl : c' = P' := by rw [eP'] at e'; exact (Except.ok.inj e').symm
  have hsa := Arr.shapesOk_of_validB h.va
  have hsb := Arr.shapesOk_of_validB h.vb
  obtain ⟨hS, hI⟩ := tdot_sectors h eP
  obtain ⟨hS', hI'⟩ := tdot_sectors h.swap eP'
  obtain ⟨hPs, _, _⟩ := tdot_fields h eP
  have hmemK : ∀ s, s ∈ P.sectors ↔
      s ∈ tdKeys p.sectors q.sectors (freeAxes p.ndim xp) xp xq (freeAxes q.ndim xq) := by
    intro s; rw [hS]; exact List.mem_eraseDups
  have hmemK' : ∀ s, s ∈ c'.sectors ↔
      s ∈ tdKeys q.sectors p.sectors (freeAxes q.ndim xq) xq xp (freeAxes p.ndim xp) := by
    intro s; rw [hS']; exact List.mem_eraseDups
  have hlenK : ∀ s ∈ P.sectors,
      s.length = (freeAxes p.ndim xp).length + (freeAxes q.ndim xq).length := by
    intro s hs
    obtain ⟨x, _, y, _, _, rfl, l1, l2, _⟩ := key_split hsa hsb ((hmemK s).mp hs)
    rw [List.length_append, l1, l2]
  have hnd : P.ndim = (freeAxes p.ndim xp).length + (freeAxes q.ndim xq).length := by
    unfold Arr.ndim
    rw [hI, dropUnused_length, frame_eq, List.length_append, List.length_map, List.length_map]
    rfl
  have hTr : TrOk P (rotAx (freeAxes p.ndim xp).length (freeAxes q.ndim xq).length) :=
    ⟨SignOk.of_valid hPv hPf, SecLen.of_valid hPv,
      by rw [hnd]; exact ValidP.isPerm_of_perm (rotAx_perm _ _)⟩
  obtain ⟨t1, t2, t3, t4, t5⟩ := transposeF_frame P
    (rotAx (freeAxes p.ndim xp).length (freeAxes q.ndim xq).length)
  have hsecs : ∀ s, s ∈ c'.sectors ↔ s ∈ (P.transposeF
      (rotAx (freeAxes p.ndim xp).length (freeAxes q.ndim xq).length)).sectors := by
    intro s'
    rw [transposeF_sectors hTr, hmemK', keys_swap hsa hsb, List.mem_map]
    constructor
    · rintro ⟨s, hs, rfl⟩
      have hs2 := (hmemK s).mpr hs
      exact ⟨s, hs2, permuted_rot_eq _ _ s (hlenK s hs2)⟩
    · rintro ⟨s, hs, rfl⟩
      exact ⟨s, (hmemK s).mp hs, (permuted_rot_eq _ _ s (hlenK s hs)).symm⟩
  refine ⟨ss.trans t1.symm, sf.trans t2.symm, sc.trans t4.symm, so.trans t5.symm, ?_, hsecs, ?_⟩
  · -- index tables
    rw [t3, hI', permuted_rot_eq _ _ P.indices hnd, hI, ← frame_rot p q xp xq]
    apply dropUnused_rot
    · rw [frame_eq, List.length_append, List.length_map]; omega
    · intro s hs
      rw [hlenK s hs, frame_eq, List.length_append, List.length_map, List.length_map]
    · intro s'
      rw [hmemK', keys_swap hsa hsb]
      constructor
      · rintro ⟨s, hs, rfl⟩; exact ⟨s, (hmemK s).mpr hs, rfl⟩
      · rintro ⟨s, hs, rfl⟩; exact ⟨s, (hmemK s).mp hs, rfl⟩
  · -- values
    intro s' o ho
    by_cases hs' : s' ∈ c'.sectors
    · have hbox := ho hs'
      obtain ⟨y, hy, x, hx, hal, rfl, l2, l1, shB, shA, hB, hA, lB, lA⟩ :=
        key_split hsb hsa ((hmemK' s').mp hs')
      have hs : permuted x (freeAxes p.ndim xp) ++ permuted y (freeAxes q.ndim xq) ∈ P.sectors :=
        (hmemK _).mpr (mem_tdKeys.mpr ⟨x, hx, y, hy, hal.symm, rfl⟩)
      have shK' : Arr.blockShapeD c'.indices
          (permuted y (freeAxes q.ndim xq) ++ permuted x (freeAxes p.ndim xp)) = shB ++ shA := by
        unfold Arr.blockShapeD
        rw [hI', ValidP.dropUnused_blockShape _ _ _ hs', blockShape?_append hB hA]; rfl
      have shW : Arr.blockShapeD (without p.indices xp ++ without q.indices xq)
          (permuted x (freeAxes p.ndim xp) ++ permuted y (freeAxes q.ndim xq)) = shA ++ shB := by
        unfold Arr.blockShapeD; rw [blockShape?_append hA hB]; rfl
      have shK : Arr.blockShapeD P.indices
          (permuted x (freeAxes p.ndim xp) ++ permuted y (freeAxes q.ndim xq)) = shA ++ shB := by
        rw [← shW]; unfold Arr.blockShapeD; rw [hI, ValidP.dropUnused_blockShape _ _ _ hs]
      rw [shK'] at hbox
      have hol : o.length = shB.length + shA.length := by
        rw [inBox_length hbox, List.length_append]
      have hsplit : o = o.take shB.length ++ o.drop shB.length := (List.take_append_drop _ _).symm
      have htl : (o.take shB.length).length = shB.length := by rw [List.length_take]; omega
      have hdl : (o.drop shB.length).length = shA.length := by rw [List.length_drop]; omega
      -- the box of the un-swapped address
      have hbox2 : inBox (shA ++ shB) (o.drop shB.length ++ o.take shB.length) = true := by
        have := box_swap q p xq xp (permuted y (freeAxes q.ndim xq)) (permuted x (freeAxes p.ndim xp))
          l2 l1 (o.take shB.length) (o.drop shB.length) (by rw [htl, lB]) (by rw [hdl, lA])
          (by unfold Arr.blockShapeD; rw [blockShape?_append hB hA, ← hsplit]; exact hbox)
        rw [shW] at this
        exact this
      have hE := hel (permuted x (freeAxes p.ndim xp)) (permuted y (freeAxes q.ndim xq))
        (o.drop shB.length) (o.take shB.length) l1 l2 (by rw [hdl, lA]) (by rw [htl, lB])
        (by rw [shW]; exact hbox2)
      rw [← hsplit] at hE
      rw [hE]
      -- the transposed array at the same address
      obtain ⟨blk, hblk⟩ : ∃ blk, (permuted x (freeAxes p.ndim xp)
          ++ permuted y (freeAxes q.ndim xq), blk) ∈ P.blocks := by
        obtain ⟨pr, hpr, he⟩ := List.mem_map.mp hs
        exact ⟨pr.2, by rw [← he]; exact hpr⟩
      have hdist : allDistinct P.sectors = true := Arr.allDistinct_of_validB hPv
      have hlk : alookup P.blocks (permuted x (freeAxes p.ndim xp)
          ++ permuted y (freeAxes q.ndim xq)) = some blk := alookup_of_mem hdist hblk
      have hshape : blk.shape = shA ++ shB := by
        have := Arr.shapesOk_of_validB hPv _ hblk
        have e2 : Arr.blockShapeD P.indices (permuted x (freeAxes p.ndim xp)
            ++ permuted y (freeAxes q.ndim xq)) = blk.shape := by
          unfold Arr.blockShapeD; rw [this]; rfl
        rw [← e2, shK]
      have hT := KoszulP.transposeF_elem (R := R) SignRing.neg_neg P
        (rotAx (freeAxes p.ndim xp).length (freeAxes q.ndim xq).length) hdist
        (SecLen.of_valid hPv) hTr.perm _ blk hlk
        (by rw [hshape, List.length_append, lA, lB, hnd])
        ((KoszulP.valid_sign_hyps P hPv hPf).2.2.2 _)
        (o.drop shB.length ++ o.take shB.length) (by rw [hshape]; exact hbox2)
      have e1 : permuted (permuted x (freeAxes p.ndim xp) ++ permuted y (freeAxes q.ndim xq))
          (rotAx (freeAxes p.ndim xp).length (freeAxes q.ndim xq).length)
          = permuted y (freeAxes q.ndim xq) ++ permuted x (freeAxes p.ndim xp) := by
        have := permuted_rotAx (permuted x (freeAxes p.ndim xp)) (permuted y (freeAxes q.ndim xq))
        rw [l1, l2] at this
        exact this
      have e2 : permuted (o.drop shB.length ++ o.take shB.length)
          (rotAx (freeAxes p.ndim xp).length (freeAxes q.ndim xq).length) = o := by
        have := permuted_rotAx (o.drop shB.length) (o.take shB.length)
        have e : rotAx (o.drop shB.length).length (o.take shB.length).length
            = rotAx (freeAxes p.ndim xp).length (freeAxes q.ndim xq).length := by
          rw [hdl, htl, lA, lB]
        rw [e] at this
        rw [this]; exact hsplit.symm
      rw [e1, e2] at hT
      rw [hT]
      unfold Arr.parities KoszulP.applySign sgnI rotAx
      rw [hPs, l1, l2]
    · rw [Arr.elem_of_not_mem hs', Arr.elem_of_not_mem (fun hc => hs' ((hsecs s').mpr hc))]

end swapeqv

end SymmModel.NormNet
