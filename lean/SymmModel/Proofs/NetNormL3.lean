/-
  SymmModel.Proofs.NetNormL3 — network form of the norm (property C10), ket-bra-first bracketings,
  part 6: the whole hub.  With `X = ā·a`, `Y = b̄·b` the eight routes
        `(b̄·X)·b`, `(X·b̄)·b`, `X·Y`   and   `(ā·Y)·a`, `(Y·ā)·a`, `Y·X`
  give ONE scalar for every pair of sorted distinct ket label lists (`hub_all`; no label check), and this
  scalar is `Σ|K|²` as soon as `KetBraFirst` holds for `(a, b)` or for `(b, a)` (`ketbra_all`).
-/
import SymmModel.Proofs.NetNormL2

namespace SymmModel.NormNet
open SymmModel SymmModel.Lazy SymmModel.Norm SymmModel.TdotP SymmModel.GradedP SymmModel.RoutesP
open SymmModel.AssocP SymmModel.Assoc3P SymmModel.Assoc4P SymmModel.Assoc5P SymmModel.Net4P
open SymmModel.OddposP (mergeOddpos)
set_option linter.unusedSectionVars false

section main
variable {R : Type} [AddCommMonoid R] [Mul R] [Neg R] [Conj R] [NetLaws R] [AssocLaws R]

/-- both halves of the hub with the common value `v` -/
def KetBraHub (a b : Arr R) (xa xb : List Nat) (X Y : Arr R) (v : R) : Prop :=
  Piece a xa X ∧ Piece b xb Y ∧ HubHalf a b xa xb X Y v ∧ HubHalf b a xb xa Y X v

theorem kbP_free {n : Nat} {xa : List Nat} (hn : xa.Nodup) (hlt : ∀ i ∈ xa, i < n) :
    freeAxes (xa.length + xa.length) (kbP n xa) = [] :=
  freeAxes_all _ _ (fun _ hi => (kbP_perm hn hlt).mem_iff.mpr (List.mem_range.mpr hi))

/-- **the hub**: all routes through the label-free pieces give one scalar -/
theorem hub_all (hmul : ∀ x y : R, x * y = y * x) (a b : Arr R) (xa xb : List Nat)
    (h : Adm a b xa xb) (hoA : KetLabels a.oddpos) (hoB : KetLabels b.oddpos)
    (hdA : a.oddpos.Pairwise (fun x y => x.1 ≠ y.1))
    (hdB : b.oddpos.Pairwise (fun x y => x.1 ≠ y.1)) :
    ∃ X Y v, KetBraHub a b xa xb X Y v := by
  obtain ⟨X, PX⟩ := piece_of a xa h.va h.fa h.nA h.ltA hoA hdA
  obtain ⟨Y, PY⟩ := piece_of b xb h.vb h.fb h.nB h.ltB hoB hdB
  obtain ⟨v, H⟩ := hub_half hmul a b xa xb X Y h hoB hdB PX PY
  obtain ⟨v', H'⟩ := hub_half hmul b a xb xa Y X (adm_swap h) hoA hdA PY PX
  obtain ⟨c, ec, Sc⟩ := H.rXY
  obtain ⟨c', ec', Sc'⟩ := H'.rXY
  obtain ⟨c'', ec'', Sc''⟩ := scalar_swap hmul H.wXY (by rw [PX.odd, PY.odd]; exact List.Pairwise.nil)
    (by rw [PX.nd]; exact kbP_free h.nA h.ltA) (by rw [PY.nd]; exact kbP_free h.nB h.ltB) ec Sc
  obtain rfl : c' = c'' := by rw [ec'] at ec''; exact Except.ok.inj ec''
  obtain rfl : v' = v := Sc'.2.2.symm.trans Sc''.2.2
  exact ⟨X, Y, v', PX, PY, H, H'⟩

/-- the value of the hub from `KetBraFirst` -/
theorem hub_value {a b : Arr R} {xa xb : List Nat} {X Y : Arr R} {v : R}
    (H : HubHalf a b xa xb X Y v) (PX : Piece a xa X) (F : KetBraFirst a b xa xb) :
    ∃ K, a.tensordotF b (.pair (xa.map Int.ofNat) (xb.map Int.ofNat)) .blockwise = .ok K
      ∧ v = normSq K := by
  obtain ⟨K, Kb', T, X', BX, XB, eK, _, _, _, eX, _, eBX, ⟨c, ec, _, _, cv⟩, _, _⟩ := F
  obtain rfl : X = X' := by have := PX.call; rw [this] at eX; exact Except.ok.inj eX
  rw [kbX_eq] at eBX
  obtain ⟨BX2, c2, e1, e2, S⟩ := H.rBX
  obtain rfl : BX = BX2 := by unfold tdF at e1; rw [eBX] at e1; exact Except.ok.inj e1
  have W := H.wBX BX e1
  have hl : ((kbQ a.ndim xa).map ((freeAxes b.ndim xb).length + ·)).length = xb.length := by
    have := W.len
    simp only [List.length_append, List.length_map, List.length_range] at this ⊢
    omega
  have hc := tdotF_axes_comm_w BX b _ _ _ _ hl W
  rw [kbU_eq] at ec
  have ec' : tdF BX b (List.range (freeAxes b.ndim xb).length
      ++ (kbQ a.ndim xa).map ((freeAxes b.ndim xb).length + ·)) (freeAxes b.ndim xb ++ xb) = .ok c := ec
  rw [hc, e2] at ec'
  obtain rfl : c2 = c := Except.ok.inj ec'
  exact ⟨K, eK, S.2.2.symm.trans cv⟩

/-- all ket-bra-first routes (bra on the left) give `Σ|K|²` -/
def KetBraAll (a b : Arr R) (xa xb : List Nat) : Prop :=
  ∃ K X Y, a.tensordotF b (.pair (xa.map Int.ofNat) (xb.map Int.ofNat)) .blockwise = .ok K
    ∧ KetBraHub a b xa xb X Y (normSq K)

theorem ketbra_all (hmul : ∀ x y : R, x * y = y * x) (a b : Arr R) (xa xb : List Nat)
    (ha : a.validB = true) (hb : b.validB = true) (hfa : a.fermi = true) (hfb : b.fermi = true)
    (hadm : ValidP.tdotAdmissibleB a b xa xb = true)
    (hoA : KetLabels a.oddpos) (hoB : KetLabels b.oddpos)
    (hd : (a.oddpos ++ b.oddpos).Pairwise (fun x y => x.1 ≠ y.1))
    (hF : KetBraFirst a b xa xb ∨ KetBraFirst b a xb xa) : KetBraAll a b xa xb := by
  have h := Adm.of ha hb hfa hfb hadm
  have hdA : a.oddpos.Pairwise (fun x y => x.1 ≠ y.1) := (List.pairwise_append.1 hd).1
  have hdB : b.oddpos.Pairwise (fun x y => x.1 ≠ y.1) := (List.pairwise_append.1 hd).2.1
  obtain ⟨X, Y, v, PX, PY, H, H'⟩ := hub_all hmul a b xa xb h hoA hoB hdA hdB
  obtain ⟨K, _, K', _, TN, _⟩ := network_norm_mixed hmul a b xa xb ha hb hfa hfb hadm hoA hoB hd
  rcases hF with F | F
  · obtain ⟨K2, eK2, hv⟩ := hub_value H PX F
    obtain rfl : K = K2 := by have := TN.eK; rw [this] at eK2; exact Except.ok.inj eK2
    subst hv
    exact ⟨K, X, Y, TN.eK, PX, PY, H, H'⟩
  · obtain ⟨K2, eK2, hv⟩ := hub_value H' PY F
    obtain rfl : K' = K2 := by have := TN.eK'; rw [this] at eK2; exact Except.ok.inj eK2
    rw [TN.val] at hv
    subst hv
    exact ⟨K, X, Y, TN.eK, PX, PY, H, H'⟩

end main

end SymmModel.NormNet
