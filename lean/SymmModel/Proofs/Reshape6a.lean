/-
  SymmModel.Proofs.Reshape6a — the fuse calls `callsR runs 0 []` that the planner returns for a
  concatenation of runs always pass the check `callsOkB` of the round-trip theorems.
-/
import SymmModel.Proofs.Reshape5g
namespace SymmModel.Reshape5
open SymmModel SymmModel.Reshape SymmModel.C07

/-- consecutive ranges of the given lengths, the first starting at `P` -/
def curL : Nat → List Nat → List (List Nat)
  | _, [] => []
  | P, L :: ls => List.range' P L :: curL (P + L) ls

theorem curL_append : ∀ (ls : List Nat) (P L : Nat),
    curL P ls ++ [List.range' (P + sumN ls) L] = curL P (ls ++ [L]) := by
  intro ls
  induction ls with
  | nil => intro P L; simp [curL, sumN]
  | cons a ls ih =>
    intro P L
    simp only [curL, List.cons_append, sumN]
    rw [← ih (P + a) L]
    simp [Nat.add_assoc]

theorem curL_lengths : ∀ (ls : List Nat) (P : Nat), (curL P ls).map List.length = ls := by
  intro ls
  induction ls with
  | nil => intro P; rfl
  | cons a ls ih => intro P; simp [curL, ih]

theorem curL_length (ls : List Nat) (P : Nat) : (curL P ls).length = ls.length := by
  have := congrArg List.length (curL_lengths ls P)
  simpa using this

theorem curL_flatten : ∀ (ls : List Nat) (P : Nat), (curL P ls).flatten = List.range' P (sumN ls) := by
  intro ls
  induction ls with
  | nil => intro P; simp [curL, sumN]
  | cons a ls ih =>
    intro P
    simp only [curL, List.flatten_cons, ih, sumN]
    exact Reshape3.range'_append' _ _ _

theorem sumN_ge_two {ls : List Nat} (h : ∀ L ∈ ls, 2 ≤ L) (hne : ls ≠ []) : 2 ≤ sumN ls := by
  cases ls with
  | nil => exact (hne rfl).elim
  | cons a ls => have := h a (by simp); simp only [sumN]; omega

/-- one pending cluster passes the check of a call -/
theorem callOk_curL (P : Nat) (ls : List Nat) (h2 : ∀ L ∈ ls, 2 ≤ L) (hne : ls ≠ []) (lb nd : Nat)
    (hlb : lb ≤ P) (hle : P + sumN ls ≤ nd) (rest : List (List (List Nat)))
    (hrest : callsOkB rest (P + ls.length) (nd - sumN ls + ls.length) = true) :
    callsOkB (curL P ls :: rest) lb nd = true := by
  have hs := sumN_ge_two h2 hne
  have hflat := curL_flatten ls P
  have hhead : (curL P ls).flatten.headD 0 = P := by
    rw [hflat]
    obtain ⟨m, hm⟩ : ∃ m, sumN ls = m + 1 := ⟨sumN ls - 1, by omega⟩
    rw [hm, List.range'_succ]; rfl
  have hne' : (curL P ls).isEmpty = false := by
    cases ls with
    | nil => exact (hne rfl).elim
    | cons a ls => rfl
  have hall : (curL P ls).all (fun g => decide (2 ≤ g.length)) = true := by
    rw [List.all_eq_true]
    intro g hg
    have : g.length ∈ (curL P ls).map List.length := List.mem_map_of_mem hg
    rw [curL_lengths] at this
    simpa using h2 _ this
  simp only [callsOkB, hhead, hne', hall, Bool.not_false, Bool.true_and, Bool.and_eq_true,
    decide_eq_true_eq]
  rw [hflat, List.length_range', beqNats_refl, curL_length]
  exact ⟨⟨⟨rfl, hlb⟩, hle⟩, hrest⟩

theorem run_len_ge_two {r : List Nat} (h : RunOk r) (h1 : r.length ≠ 1) : 2 ≤ r.length := by
  have := List.length_pos_iff.mpr h.1
  omega

/-- **the calls of a concatenation of runs pass `callsOkB`** (general state of the clustering) -/
theorem callsOk_callsR : ∀ (rs : List (List Nat)) (i : Nat) (ls : List Nat) (P lb nd : Nat),
    (∀ r ∈ rs, RunOk r) → (∀ L ∈ ls, 2 ≤ L) → i = P + sumN ls → lb ≤ P → nd = i + rs.flatten.length →
    callsOkB (callsR rs i (curL P ls)) lb nd = true := by
  intro rs
  induction rs with
  | nil =>
    intro i ls P lb nd _ h2 hi hlb hnd
    cases ls with
    | nil => rfl
    | cons a ls =>
      simp only [callsR]
      have : (curL P (a :: ls)).isEmpty = false := rfl
      rw [this]
      simp only [Bool.false_eq_true, if_false]
      exact callOk_curL P (a :: ls) h2 (by simp) lb nd hlb (by simp at hnd; omega) [] rfl
  | cons r rs ih =>
    intro i ls P lb nd hok h2 hi hlb hnd
    have hokr : ∀ r' ∈ rs, RunOk r' := fun r' hr' => hok r' (by simp [hr'])
    by_cases h1 : r.length = 1
    · simp only [callsR, h1, if_true]
      cases ls with
      | nil =>
        have : (curL P []).isEmpty = true := rfl
        rw [this]
        simp only [if_true]
        simp only [sumN, Nat.add_zero] at hi
        have := ih (i + 1) [] (i + 1) lb nd hokr (by simp) (by simp [sumN]) (by omega)
          (by rw [hnd]; simp [h1]; omega)
        simpa [curL] using this
      | cons a ls =>
        have : (curL P (a :: ls)).isEmpty = false := rfl
        rw [this]
        simp only [Bool.false_eq_true, if_false]
        rw [curL_lengths, curL_length]
        refine callOk_curL P (a :: ls) h2 (by simp) lb nd hlb (by rw [hnd, hi]; omega) _ ?_
        have e : i - sumN (a :: ls) + (a :: ls).length + 1 = P + (a :: ls).length + 1 := by omega
        rw [e]
        have := ih (P + (a :: ls).length + 1) [] (P + (a :: ls).length + 1) (P + (a :: ls).length)
          (nd - sumN (a :: ls) + (a :: ls).length) hokr (by simp) (by simp [sumN]) (by omega)
          (by rw [hnd, hi]; simp only [List.flatten_cons, List.length_append, h1]; omega)
        simpa [curL] using this
    · have hr2 := run_len_ge_two (hok r (by simp)) h1
      simp only [callsR, h1, if_false]
      rw [hi, curL_append]
      exact ih (P + sumN ls + r.length) (ls ++ [r.length]) P lb nd hokr
        (by
          intro L hL
          rcases List.mem_append.mp hL with hL | hL
          · exact h2 L hL
          · rw [List.mem_singleton.mp hL]; exact hr2)
        (by rw [sumN_append]; simp [sumN]; omega) hlb
        (by rw [hnd, hi]; simp only [List.flatten_cons, List.length_append]; omega)

theorem callsOk_runs (runs : List (List Nat)) (hok : ∀ r ∈ runs, RunOk r) :
    callsOkB (callsR runs 0 []) 0 runs.flatten.length = true := by
  have := callsOk_callsR runs 0 [] 0 0 runs.flatten.length hok (by simp) (by simp [sumN])
    (Nat.le_refl _) (by simp)
  simpa [curL] using this

end SymmModel.Reshape5
