/-
  SymmModel.Proofs.NormNet5 — network form of the norm (property C10), part 5: assembly.
  `conj_tensordot`: the contraction of the two bra tensors is observationally
  `conj(phase_dual=True)` of the contraction of the two ket tensors.
-/
import SymmModel.Proofs.NormNet4
namespace SymmModel.NormNet
open SymmModel SymmModel.Lazy SymmModel.Norm SymmModel.TdotP SymmModel.GradedP SymmModel.RoutesP
set_option linter.unusedSectionVars false

/-! ## observational equality from agreement inside the boxes -/
section obs
variable {R : Type} [Zero R] [Neg R] [LawfulNeg R]

theorem obsEq_of_inBox {X Y : Arr R} (h1 : X.sym = Y.sym) (h2 : X.fermi = Y.fermi)
    (h3 : X.indices = Y.indices) (h4 : X.charge = Y.charge) (h5 : X.oddpos = Y.oddpos)
    (hsk : skel X = skel Y) (hn : X.sectors.Nodup) (hwX : BlocksWf X) (hwY : BlocksWf Y)
    (he : ∀ p ∈ X.blocks, ∀ off, inBox p.2.shape off = true → X.elem p.1 off = Y.elem p.1 off) :
    ObsEq X Y := by
  have hb : X.phaseSync.blocks = Y.phaseSync.blocks := by
    apply blocks_ext_inBox
    · exact (phaseSync_obsEq X).skel.trans (hsk.trans (phaseSync_obsEq Y).skel.symm)
    · show X.phaseSync.sectors.Nodup
      rw [phaseSync_sectors]; exact hn
    · exact hwX.phaseSync
    · exact hwY.phaseSync
    · intro p hp off hoff
      rw [← elem_eq_rawGet (a := X.phaseSync) rfl, ← elem_eq_rawGet (a := Y.phaseSync) rfl,
        phaseSync_elem, phaseSync_elem]
      have hm : (p.1, p.2.shape) ∈ skel X := by
        rw [← (phaseSync_obsEq X).skel]
        exact List.mem_map.mpr ⟨p, hp, rfl⟩
      obtain ⟨q, hq, hqe⟩ := List.mem_map.mp hm
      simp only [Prod.mk.injEq] at hqe
      rw [← hqe.1]
      apply he q hq
      rw [hqe.2]; exact hoff
  have : X.phaseSync = Y.phaseSync := arr_ext h1 h2 h3 h4 hb rfl h5
  exact (phaseSync_obsEq X).symm.trans (this ▸ phaseSync_obsEq Y)

end obs

section main
variable {R : Type} [AddMonoid R] [Mul R] [Neg R] [Conj R] [NetLaws R]

theorem admB_of_adm {a b : Arr R} {xa xb : List Nat} (h : Adm a b xa xb) :
    ValidP.tdotAdmissibleB a b xa xb = true := by
  unfold ValidP.tdotAdmissibleB
  simp only [Bool.and_eq_true, decide_eq_true_eq, ValidP.allDistinct_iff, List.all_eq_true]
  exact ⟨⟨⟨⟨⟨h.sym, h.con⟩, h.nA⟩, h.nB⟩, h.ltA⟩, h.ltB⟩

theorem skel_of_frame {a b T : Arr R} {xa xb : List Nat} (F : CoreFrame a b xa xb T) :
    skel T = T.sectors.map
      (fun s => (s, Arr.blockShapeD (without a.indices xa ++ without b.indices xb) s)) := by
  unfold skel Arr.sectors
  rw [List.map_map]
  apply List.map_congr_left
  intro p hp
  simp only [Function.comp, F.shape p hp]

/-- **`conj` is a homomorphism of the contraction.**  `a`, `b` valid fermionic, contractible
    along `xa`/`xb`, each carrying a sorted list of non-dual labels (`KetLabels`), all labels distinct.  Then the ket
    contraction `K = a·b` and the contraction `Kb` of the two bra tensors (each: `conj()`, then
    `phase_flip` of its dangling legs that were bra-like) both succeed, and `Kb` is observationally
    equal — symmetry, indices, charge, labels, stored sectors, every value — to
    `K.conj(phase_dual=True)`. -/
theorem conj_tensordot (a b : Arr R) (xa xb : List Nat)
    (ha : a.validB = true) (hb : b.validB = true) (hfa : a.fermi = true) (hfb : b.fermi = true)
    (hadm : ValidP.tdotAdmissibleB a b xa xb = true)
    (hoA : KetLabels a.oddpos) (hoB : KetLabels b.oddpos)
    (hd : (a.oddpos ++ b.oddpos).Pairwise (fun x y => x.1 ≠ y.1)) :
    ∃ K Kb, a.tensordotF b (.pair (xa.map Int.ofNat) (xb.map Int.ofNat)) .blockwise = .ok K
      ∧ (braOf a xa).tensordotF (braOf b xb) (.pair (xa.map Int.ofNat) (xb.map Int.ofNat)) .blockwise
          = .ok Kb
      ∧ ObsEq Kb (K.conjF true true)
      ∧ K.validB = true ∧ K.fermi = true ∧ Kb.validB = true ∧ Kb.fermi = true
      ∧ (∀ x ∈ K.oddpos, x.2 = false)
      ∧ K.oddpos.Pairwise (fun x y => oddLt x y = true)
      ∧ K.oddpos.Pairwise (fun x y => x.1 ≠ y.1) := by
  have h := Adm.of ha hb hfa hfb hadm
  have hB := braOf_adm h
  have hlabA := (NormOk.of_valid ha hfa).labels
  have hlabB := (NormOk.of_valid hb hfb).labels
  obtain ⟨out, ph, m1, m2, hph, hk, hs, hdl⟩ :=
    merge_bra_gen a.parity a.oddpos b.oddpos hoA hoB hd hlabA
  rw [hlabB] at m2
  have eK := tensordotF_eq_core a b xa xb h
  rw [m1] at eK
  have eKb := tensordotF_eq_core (braOf a xa) (braOf b xb) xa xb hB
  rw [braOf_parity, (braOf_frame a xa).2.2.2.2.1, (braOf_frame b xb).2.2.2.2.1, m2] at eKb
  have F := coreT_frame a b xa xb h
  have Fb := coreT_frame (braOf a xa) (braOf b xb) xa xb hB
  generalize coreT a b xa xb = T at eK F
  generalize coreT (braOf a xa) (braOf b xb) xa xb = Tb at eKb Fb
  have eK' : a.tensordotF b (.pair (xa.map Int.ofNat) (xb.map Int.ofNat)) .blockwise
      = .ok (finish T (out, ph)) := eK
  have eKb' : (braOf a xa).tensordotF (braOf b xb) (.pair (xa.map Int.ofNat) (xb.map Int.ofNat))
      .blockwise = .ok (finish Tb (Arr.oddposDag out, ph * sgB (a.parity && b.parity))) := eKb
  have hSTb : SignOk Tb := ⟨by rw [Fb.sectors]; exact nodup_eraseDups _, by
    rw [Fb.phases]; exact PhOk.nil⟩
  have hST : SignOk T := ⟨by rw [F.sectors]; exact nodup_eraseDups _, by
    rw [F.phases]; exact PhOk.nil⟩
  have hKe : ∀ s o, (finish T (out, ph)).elem s o = sgnI ph (T.elem s o) :=
    fun s o => finish_elem T (out, ph) hST s o
  have hKbe : ∀ s o, (finish Tb (Arr.oddposDag out, ph * sgB (a.parity && b.parity))).elem s o
      = sgnI (ph * sgB (a.parity && b.parity)) (Tb.elem s o) :=
    fun s o => finish_elem Tb _ hSTb s o
  obtain ⟨k1, k2, k3, k4, k5, k6⟩ := finish_frame T (out, ph)
  obtain ⟨b1, b2, b3, b4, b5, b6⟩ :=
    finish_frame Tb (Arr.oddposDag out, ph * sgB (a.parity && b.parity))
  generalize finish T (out, ph) = K at eK' k1 k2 k3 k4 k5 k6 hKe
  generalize finish Tb (Arr.oddposDag out, ph * sgB (a.parity && b.parity)) = Kb
    at eKb' b1 b2 b3 b4 b5 b6 hKbe
  -- validity
  have hKv : K.validB = true := (ValidP.validB_iff K).mpr
    (ValidP.tensordotF_blockwise_valid a b K xa xb ((ValidP.validB_iff a).mp ha)
      ((ValidP.validB_iff b).mp hb) hfa hfb hadm eK')
  have hKf : K.fermi = true := by rw [k2, F.fermi, hfa]
  have hKbv : Kb.validB = true := (ValidP.validB_iff Kb).mpr
    (ValidP.tensordotF_blockwise_valid _ _ Kb xa xb ((ValidP.validB_iff _).mp hB.va)
      ((ValidP.validB_iff _).mp hB.vb) hB.fa hB.fb (admB_of_adm hB) eKb')
  have hKbf : Kb.fermi = true := by rw [b2, Fb.fermi, hB.fa]
  refine ⟨K, Kb, eK', eKb', ?_, hKv, hKf, hKbv, hKbf, by rw [k6]; exact hk, by rw [k6]; exact hs,
    by rw [k6]; exact hdl⟩
  -- frames
  have hsec : Tb.sectors = T.sectors := by
    rw [Fb.sectors, F.sectors, braOf_sectors, braOf_sectors, braOf_ndim, braOf_ndim]
  have hwi : without (braOf a xa).indices xa ++ without (braOf b xb).indices xb
      = (without a.indices xa ++ without b.indices xb).map Index.conj := by
    rw [(braOf_frame a xa).2.2.1, (braOf_frame b xb).2.2.1, without_map, without_map,
      List.map_append]
  have hKs : K.sym = a.sym := by rw [k1, F.sym]
  have hKi : K.indices = dropUnused (without a.indices xa ++ without b.indices xb) T.sectors := by
    rw [k3, F.indices]
  have hKp : K.parity = xor a.parity b.parity := by
    unfold Arr.parity
    rw [k1, k4, F.sym, F.charge, ValidP.parity_combine_pair', h.sym]
  have hKl := (NormOk.of_valid hKv hKf).labels
  have hSK : SignOk K := SignOk.of_valid hKv hKf
  obtain ⟨c1, c2, c3, c4, c5, c6⟩ := conjF_frame K true true
  apply obsEq_of_inBox
  · rw [b1, Fb.sym, (braOf_frame a xa).1, c1, hKs]
  · rw [b2, Fb.fermi, (braOf_frame a xa).2.1, c2, k2, F.fermi]
  · rw [b3, Fb.indices, hsec, hwi, dropUnused_conj, c3, hKi]
  · rw [b4, Fb.charge, (braOf_frame a xa).1, (braOf_frame a xa).2.2.2.1,
      (braOf_frame b xb).2.2.2.1, c4, k1, k4, F.sym, F.charge, sign_combine_pair, h.sym]
  · rw [b6, c5, k6]
  · have e1 : skel Kb = skel Tb := by unfold skel; rw [b5]
    have e2 : skel K = skel T := by unfold skel; rw [k5]
    rw [e1, c6, e2, skel_of_frame Fb, skel_of_frame F, hsec, hwi]
    apply List.map_congr_left
    intro s _
    rw [blockShapeD_map_conj]
  · show Kb.sectors.Nodup
    have : Kb.sectors = Tb.sectors := by unfold Arr.sectors; rw [b5]
    rw [this]; exact hSTb.sectors
  · intro p hp; rw [b5] at hp; exact Fb.wf p hp
  · exact (Full.conjF' (Full.of_valid hKv hKf) true true).wf
  · intro p hp off hoff
    rw [b5] at hp
    have hshape := Fb.shape p hp
    rw [hwi, blockShapeD_map_conj] at hshape
    have hkey : p.1 ∈ tdKeys a.sectors b.sectors (freeAxes a.ndim xa) xa xb (freeAxes b.ndim xb) := by
      have : p.1 ∈ Tb.sectors := List.mem_map.mpr ⟨p, hp, rfl⟩
      rw [hsec, F.sectors] at this
      exact List.mem_eraseDups.mp this
    have hlen := key_shape_length (Arr.shapesOk_of_validB ha) (Arr.shapesOk_of_validB hb) hkey
    rw [hshape] at hoff
    have hol : off.length = (freeAxes a.ndim xa).length + (freeAxes b.ndim xb).length := by
      rw [Lazy.inBox_length hoff, hlen]
    have hsplit : off = off.take (freeAxes a.ndim xa).length ++ off.drop (freeAxes a.ndim xa).length :=
      (List.take_append_drop _ _).symm
    have htl : (off.take (freeAxes a.ndim xa).length).length = (freeAxes a.ndim xa).length := by
      rw [List.length_take]; omega
    rw [hKbe, conjF_elem K true true hSK, hKe, hsplit,
      Fb.elem p.1 _ _ (by rw [braOf_ndim]; exact htl)
        (by rw [← hsplit, hwi, blockShapeD_map_conj]; exact hoff),
      F.elem p.1 _ _ htl (by rw [← hsplit]; exact hoff)]
    exact gradedContract_bra h T.sectors hKs hKi hKp hKl ph _ hph rfl p.1 _ _

end main

end SymmModel.NormNet
