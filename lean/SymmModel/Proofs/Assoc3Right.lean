/-
  SymmModel.Proofs.Assoc3Right — S7 of property C04 with the WEAK guard (`contractibleCommonB`) on ALL
  calls: route `A·(B·C)`.
  The statements and proofs are those of `Assoc2Right` with `Tri` (guards `contractibleB`) replaced by
  `TriW`; definitions (`axesAB`, `S3`, `W3`, `triplesL/R`, `FreeAddr`, `IsTriple`, …) are shared.
  Namespace `SymmModel.Assoc3P`.
-/
import SymmModel.Proofs.Assoc3Left

namespace SymmModel
namespace Assoc3P
open TdotP GradedP RoutesP KoszulP AssocP Assoc2P
open Lazy (sgnI)
set_option linter.unusedSectionVars false

variable {R : Type}

section signR
variable [AddMonoid R] [Mul R] [Neg R] [SignRing R]
variable {A B C BC : Arr R} {xa1 xa3 xb1 xb2 xc2 xc3 : List Nat} {ph : Int}

/-- **sign of a triple, route `A·(B·C)`** -/
theorem sign_right_w (I : Inter B C xb2 xc2 BC ph) (T : TriW A B C xa1 xa3 xb1 xb2 xc2 xc3)
    (sa sb sc : Sector) (hsa : sa.length = A.ndim) (hsb : sb.length = B.ndim)
    (hsc : sc.length = C.ndim) (hal3 : permuted sc xc3 = permuted sa xa3) :
    gradedSign A BC (xa1 ++ xa3) (axesBC B.ndim C.ndim xb1 xb2 xc2 xc3) sa (permuted sb (freeAxes B.ndim xb2) ++ permuted sc (freeAxes C.ndim xc2)) * gradedSign B C xb2 xc2 sb sc
      = S3 A B C xa1 xa3 xb1 xb2 xc2 xc3 (sa, sb, sc) := by
  have hsym := T.hBC.sym
  have hparB : (B.parities sb).length = B.ndim := by unfold Arr.parities; rw [List.length_map, hsb]
  have hparC : (C.parities sc).length = C.ndim := by unfold Arr.parities; rw [List.length_map, hsc]
  have hpB : (permuted (B.parities sb) (freeAxes B.ndim xb2)).length = (freeAxes B.ndim xb2).length :=
    permuted_length _ _ (by rw [hparB]; exact T.mB.symm.flt)
  have hpC : (permuted (C.parities sc) (freeAxes C.ndim xc2)).length = (freeAxes C.ndim xc2).length :=
    permuted_length _ _ (by rw [hparC]; exact T.mC.flt)
  have k1 : koszul (BC.parities (permuted sb (freeAxes B.ndim xb2) ++ permuted sc (freeAxes C.ndim xc2))) (some ((axesBC B.ndim C.ndim xb1 xb2 xc2 xc3) ++ freeAxes BC.ndim (axesBC B.ndim C.ndim xb1 xb2 xc2 xc3)))
      = koszul (permuted (B.parities sb) (freeAxes B.ndim xb2)) (some ((positions (freeAxes B.ndim xb2) xb1) ++ (freeAxes (freeAxes B.ndim xb2).length (positions (freeAxes B.ndim xb2) xb1))))
        * koszul (permuted (C.parities sc) (freeAxes C.ndim xc2)) (some ((positions (freeAxes C.ndim xc2) xc3) ++ (freeAxes (freeAxes C.ndim xc2).length (positions (freeAxes C.ndim xc2) xc3))))
        * sgn (oddCount (B.parities sb) (freeAxes B.ndim (xb1 ++ xb2)) * oddCount (C.parities sc) xc3) := by
    rw [AssocP.parities_BC I hsym, I.ndim]
    unfold Assoc2P.axesBC
    rw [freeAxes_two _ _ _ _ T.mB.symm.pos_lt]
    have := koszul_two_cross (permuted (B.parities sb) (freeAxes B.ndim xb2)) (permuted (C.parities sc) (freeAxes C.ndim xc2))
      (positions (freeAxes B.ndim xb2) xb1) (freeAxes (freeAxes B.ndim xb2).length (positions (freeAxes B.ndim xb2) xb1)) (positions (freeAxes C.ndim xc2) xc3) (freeAxes (freeAxes C.ndim xc2).length (positions (freeAxes C.ndim xc2) xc3)) (hpB.symm ▸ perm_right T.mB.symm.pos_nodup T.mB.symm.pos_lt)
      (hpC.symm ▸ perm_right T.mC.pos_nodup T.mC.pos_lt)
    rw [hpB] at this
    rw [this, oddCount_permuted _ _ _ (by rw [hparB]; exact T.mB.symm.flt)
        (fun x hx => (mem_freeAxes.mp hx).1), T.mB.symm.free_spec, freeM_comm,
      oddCount_permuted _ _ _ (by rw [hparC]; exact T.mC.flt) T.mC.pos_lt, T.mC.pos_spec]
  have kB := T.mB.koszul_right (B.parities sb) hparB
  have kC := koszul_RR T.mC (C.parities sc) hparC
  have d3 : oddCount (C.parities sc) xc3 = oddCount (A.parities sa) xa3 := by
    rw [oddCount_par C sc xc3 (by rw [hsc]; exact T.mC.lt2),
      oddCount_par A sa xa3 (by rw [hsa]; exact T.mA.lt2)]
    unfold oddContracted; rw [hal3, ← T.hBC.sym, ← T.hAB.sym]
  rw [gradedSign_sgn, gradedSign_sgn, k1, oddContracted_append, ketOdd_append, d3]
  unfold Assoc2P.S3
  simp only []
  rw [← List.append_assoc]
  generalize oddContracted A xa1 sa = K1 at *
  generalize oddContracted A xa3 sa = K3 at *
  generalize oddContracted B xb2 sb = K2 at *
  generalize oddCount (B.parities sb) (freeAxes B.ndim (xb1 ++ xb2)) = m at *
  generalize oddCount (A.parities sa) xa3 = m3 at *
  generalize ketOdd A xa1 sa = e1 at *
  generalize ketOdd A xa3 sa = e3 at *
  generalize ketOdd B xb2 sb = e2 at *
  generalize koszul (B.parities sb) (some ((freeAxes B.ndim xb2) ++ xb2)) = b1 at *
  generalize koszul (permuted (B.parities sb) (freeAxes B.ndim xb2)) (some ((positions (freeAxes B.ndim xb2) xb1) ++ (freeAxes (freeAxes B.ndim xb2).length (positions (freeAxes B.ndim xb2) xb1)))) = b2 at *
  generalize koszul (C.parities sc) (some (xc2 ++ (freeAxes C.ndim xc2))) = c1 at *
  generalize koszul (permuted (C.parities sc) (freeAxes C.ndim xc2)) (some ((positions (freeAxes C.ndim xc2) xc3) ++ (freeAxes (freeAxes C.ndim xc2).length (positions (freeAxes C.ndim xc2) xc3)))) = c2 at *
  generalize koszul (A.parities sa) (some ((freeAxes A.ndim (xa1 ++ xa3)) ++ xa1 ++ xa3)) = A' at *
  generalize koszul (B.parities sb) (some (xb1 ++ (freeAxes B.ndim (xb1 ++ xb2)) ++ xb2)) = B' at *
  generalize koszul (C.parities sc) (some (xc2 ++ xc3 ++ (freeAxes C.ndim (xc2 ++ xc3)))) = C' at *
  rw [Nat.mul_comm m m3, ← kB, ← kC, sgn_add (e1 + e3) e2, sgn_add e1 e3]
  ring

end signR

section valueR
variable [AddCommMonoid R] [Mul R] [Neg R] [SignRing R] [AssocLaws R]
variable {A B C BC : Arr R} {xa1 xa3 xb1 xb2 xc2 xc3 : List Nat} {ph : Int}

theorem shapeBC_w (I : Inter B C xb2 xc2 BC ph) (T : TriW A B C xa1 xa3 xb1 xb2 xc2 xc3)
    {sb sc : Sector} (hB : sb ∈ B.sectors) (hC : sc ∈ C.sectors)
    (hal : permuted sc xc2 = permuted sb xb2) :
    permuted (Arr.blockShapeD BC.indices (permuted sb (freeAxes B.ndim xb2) ++ permuted sc (freeAxes C.ndim xc2))) (axesBC B.ndim C.ndim xb1 xb2 xc2 xc3)
        = permuted (Arr.blockShapeD B.indices sb) xb1 ++ permuted (Arr.blockShapeD C.indices sc) xc3
      ∧ permuted (Arr.blockShapeD (without B.indices xb2 ++ without C.indices xc2) (permuted sb (freeAxes B.ndim xb2) ++ permuted sc (freeAxes C.ndim xc2)))
          (freeAxes BC.ndim (axesBC B.ndim C.ndim xb1 xb2 xc2 xc3))
        = permuted (Arr.blockShapeD B.indices sb) (freeAxes B.ndim (xb1 ++ xb2)) ++ permuted (Arr.blockShapeD C.indices sc) (freeAxes C.ndim (xc2 ++ xc3))
      ∧ (Arr.blockShapeD (without B.indices xb2 ++ without C.indices xc2) (permuted sb (freeAxes B.ndim xb2) ++ permuted sc (freeAxes C.ndim xc2))).length = BC.ndim
      ∧ permuted (Arr.blockShapeD (without B.indices xb2 ++ without C.indices xc2) (permuted sb (freeAxes B.ndim xb2) ++ permuted sc (freeAxes C.ndim xc2))) (axesBC B.ndim C.ndim xb1 xb2 xc2 xc3)
        = permuted (Arr.blockShapeD B.indices sb) xb1 ++ permuted (Arr.blockShapeD C.indices sc) xc3 := by
  have hsb := Arr.shapesOk_of_validB T.hBC.va
  have hsc := Arr.shapesOk_of_validB T.hBC.vb
  obtain ⟨shpB, hB1, hB2, hB3, hB4⟩ := shape_of_mem hsb hB
  obtain ⟨shpC, hC1, hC2, hC3, hC4⟩ := shape_of_mem hsc hC
  have eBC : Arr.blockShapeD BC.indices (permuted sb (freeAxes B.ndim xb2) ++ permuted sc (freeAxes C.ndim xc2)) = permuted shpB (freeAxes B.ndim xb2) ++ permuted shpC (freeAxes C.ndim xc2) := by
    show (Arr.blockShape? BC.indices _).getD [] = _
    rw [I.shape hsb hsc hB hC hal, hB2, hC2]; rfl
  have eU : Arr.blockShapeD (without B.indices xb2 ++ without C.indices xc2) (permuted sb (freeAxes B.ndim xb2) ++ permuted sc (freeAxes C.ndim xc2))
      = permuted shpB (freeAxes B.ndim xb2) ++ permuted shpC (freeAxes C.ndim xc2) := by
    show (Arr.blockShape? _ _).getD [] = _
    rw [I.shapeU hsb hsc hB hC hal, hB2, hC2]; rfl
  rw [eBC, eU, hB2, hC2]
  refine ⟨readBC_ax T.mB T.mC shpB shpC hB3 hC3, ?_, ?_, readBC_ax T.mB T.mC shpB shpC hB3 hC3⟩
  · rw [I.ndim]; exact readBC_free T.mB T.mC shpB shpC hB3 hC3
  · rw [I.ndim, List.length_append, permuted_length _ _ (by rw [hB3]; exact T.mB.symm.flt),
      permuted_length _ _ (by rw [hC3]; exact T.mC.flt)]

/-- the value of `B·C` at the address the second call reads -/
theorem right_inner_w (I : Inter B C xb2 xc2 BC ph) (T : TriW A B C xa1 xa3 xb1 xb2 xc2 xc3)
    {LA LM LC : Sector} {oA oM oC : List Nat}
    (fa : FreeAddr A B C xa1 xa3 xb1 xb2 xc2 xc3 LA LM LC oA oM oC)
    {sb sc : Sector} (hB : sb ∈ B.sectors) (hC : sc ∈ C.sectors)
    (hal : permuted sc xc2 = permuted sb xb2)
    (hLM : permuted sb (freeAxes B.ndim (xb1 ++ xb2)) = LM) (hLC : permuted sc (freeAxes C.ndim (xc2 ++ xc3)) = LC)
    (k13 : List Nat)
    (hk : inBox (permuted (Arr.blockShapeD BC.indices (permuted sb (freeAxes B.ndim xb2) ++ permuted sc (freeAxes C.ndim xc2))) (axesBC B.ndim C.ndim xb1 xb2 xc2 xc3)) k13 = true) :
    BC.elem (permuted sb (freeAxes B.ndim xb2) ++ permuted sc (freeAxes C.ndim xc2)) (mergeIdx 0 BC.ndim (axesBC B.ndim C.ndim xb1 xb2 xc2 xc3) (freeAxes BC.ndim (axesBC B.ndim C.ndim xb1 xb2 xc2 xc3)) k13 (oM ++ oC))
      = sgnI ph (gradedContract B C xb2 xc2 (permuted sb (freeAxes B.ndim xb2) ++ permuted sc (freeAxes C.ndim xc2)) ((mergeIdx 0 BC.ndim (axesBC B.ndim C.ndim xb1 xb2 xc2 xc3) (freeAxes BC.ndim (axesBC B.ndim C.ndim xb1 xb2 xc2 xc3)) k13 (oM ++ oC)).take (freeAxes B.ndim xb2).length)
          ((mergeIdx 0 BC.ndim (axesBC B.ndim C.ndim xb1 xb2 xc2 xc3) (freeAxes BC.ndim (axesBC B.ndim C.ndim xb1 xb2 xc2 xc3)) k13 (oM ++ oC)).drop (freeAxes B.ndim xb2).length)) := by
  have hsb := Arr.shapesOk_of_validB T.hBC.va
  have hsc := Arr.shapesOk_of_validB T.hBC.vb
  obtain ⟨s1, s2, s3, s4⟩ := shapeBC_w I T hB hC hal
  obtain ⟨shpB, hB1, hB2, hB3, hB4⟩ := shape_of_mem hsb hB
  obtain ⟨shpC, hC1, hC2, hC3, hC4⟩ := shape_of_mem hsc hC
  have hlen : (mergeIdx 0 BC.ndim (axesBC B.ndim C.ndim xb1 xb2 xc2 xc3) (freeAxes BC.ndim (axesBC B.ndim C.ndim xb1 xb2 xc2 xc3)) k13 (oM ++ oC)).length = BC.ndim := mergeIdx_length _ _ _ _ _ _
  have hsplit : (mergeIdx 0 BC.ndim (axesBC B.ndim C.ndim xb1 xb2 xc2 xc3) (freeAxes BC.ndim (axesBC B.ndim C.ndim xb1 xb2 xc2 xc3)) k13 (oM ++ oC)) = (mergeIdx 0 BC.ndim (axesBC B.ndim C.ndim xb1 xb2 xc2 xc3) (freeAxes BC.ndim (axesBC B.ndim C.ndim xb1 xb2 xc2 xc3)) k13 (oM ++ oC)).take (freeAxes B.ndim xb2).length ++ (mergeIdx 0 BC.ndim (axesBC B.ndim C.ndim xb1 xb2 xc2 xc3) (freeAxes BC.ndim (axesBC B.ndim C.ndim xb1 xb2 xc2 xc3)) k13 (oM ++ oC)).drop (freeAxes B.ndim xb2).length :=
    (List.take_append_drop _ _).symm
  have htl : ((mergeIdx 0 BC.ndim (axesBC B.ndim C.ndim xb1 xb2 xc2 xc3) (freeAxes BC.ndim (axesBC B.ndim C.ndim xb1 xb2 xc2 xc3)) k13 (oM ++ oC)).take (freeAxes B.ndim xb2).length).length = (freeAxes B.ndim xb2).length := by
    rw [List.length_take, hlen, I.ndim]; omega
  conv => lhs; rw [hsplit]
  apply I.elem _ _ _ htl
  rw [← hsplit]
  have := inBox_mergeIdx
    (shape := Arr.blockShapeD (without B.indices xb2 ++ without C.indices xc2) (permuted sb (freeAxes B.ndim xb2) ++ permuted sc (freeAxes C.ndim xc2)))
    (axes := (axesBC B.ndim C.ndim xb1 xb2 xc2 xc3)) (k := k13) (f := oM ++ oC)
    (by rw [s3, I.ndim]; exact axesAB_lt T.mB.symm T.mC)
    (by rw [s4, ← s1]; exact hk)
    (by
      rw [s3, s2]
      have hlsM : (permuted (Arr.blockShapeD B.indices sb) (freeAxes B.ndim (xb1 ++ xb2))).length = (freeAxes B.ndim (xb1 ++ xb2)).length :=
        permuted_length _ _ (by intro x hx; rw [hB2, hB3]; exact (mem_freeAxes.mp hx).1)
      rw [inBox_append (by rw [fa.loM, hlsM]), Bool.and_eq_true]
      constructor
      · have := fa.bM
        rw [← hLM, shapeD_free hsb hB _ (fun x hx => (mem_freeAxes.mp hx).1)] at this
        exact this
      · have := fa.bC
        rw [← hLC, shapeD_free hsc hC _ (fun x hx => (mem_freeAxes.mp hx).1)] at this
        exact this)
  rw [s3] at this
  exact this

/-- **route `A·(B·C)`** for a triangle -/
theorem route_right_w (I : Inter B C xb2 xc2 BC ph) (T : TriW A B C xa1 xa3 xb1 xb2 xc2 xc3)
    {LA LM LC : Sector} {oA oM oC : List Nat}
    (fa : FreeAddr A B C xa1 xa3 xb1 xb2 xc2 xc3 LA LM LC oA oM oC) :
    gradedContract A BC (xa1 ++ xa3) (axesBC B.ndim C.ndim xb1 xb2 xc2 xc3) (LA ++ LM ++ LC) oA (oM ++ oC)
      = sgnI ph (((triplesR A B C BC xa1 xa3 xb1 xb2 xc2 xc3 (LA ++ LM ++ LC)).map
          (fun t => sgnI (S3 A B C xa1 xa3 xb1 xb2 xc2 xc3 t)
            (W3 A B C xa1 xa3 xb1 xb2 xc2 xc3 oA oM oC t))).sum) := by
  have hsa := Arr.shapesOk_of_validB T.hAB.va
  have hsb := Arr.shapesOk_of_validB T.hAB.vb
  have hsc := Arr.shapesOk_of_validB T.hBC.vb
  have hlenAC : xa3.length = xc3.length := commonB_len T.conAC
  let g : Sector × Sector → Sector × Sector → R := fun p q =>
    sgnI (gradedSign A BC (xa1 ++ xa3) (axesBC B.ndim C.ndim xb1 xb2 xc2 xc3) p.1 p.2 * gradedSign B C xb2 xc2 q.1 q.2)
      (((allIdx (permuted (Arr.blockShapeD A.indices p.1) (xa1 ++ xa3))).map
        (fun k13 => ((allIdx (permuted (Arr.blockShapeD B.indices q.1) xb2)).map (fun k2 =>
          A.elem p.1 (mergeIdx 0 A.ndim (xa1 ++ xa3) (freeAxes A.ndim (xa1 ++ xa3)) k13 oA)
            * (B.elem q.1 (mergeIdx 0 B.ndim xb2 (freeAxes B.ndim xb2) k2 ((mergeIdx 0 BC.ndim (axesBC B.ndim C.ndim xb1 xb2 xc2 xc3) (freeAxes BC.ndim (axesBC B.ndim C.ndim xb1 xb2 xc2 xc3)) k13 (oM ++ oC)).take (freeAxes B.ndim xb2).length))
              * C.elem q.2 (mergeIdx 0 C.ndim xc2 (freeAxes C.ndim xc2) k2 ((mergeIdx 0 BC.ndim (axesBC B.ndim C.ndim xb1 xb2 xc2 xc3) (freeAxes BC.ndim (axesBC B.ndim C.ndim xb1 xb2 xc2 xc3)) k13 (oM ++ oC)).drop (freeAxes B.ndim xb2).length))))).sum)).sum)
  have hlA : ∀ sa ∈ A.sectors, LA.length = (permuted sa (freeAxes A.ndim (xa1 ++ xa3))).length := by
    intro sa hA
    rw [fa.lA, permuted_length _ _ (by
      intro x hx; rw [Arr.sector_length hsa hA]; exact (mem_freeAxes.mp hx).1)]
  -- alignment facts of a stored pair of the second call
  have halign : ∀ {sa sb sc : Sector}, sa ∈ A.sectors → sb ∈ B.sectors → sc ∈ C.sectors →
      permuted (permuted sb (freeAxes B.ndim xb2) ++ permuted sc (freeAxes C.ndim xc2)) (axesBC B.ndim C.ndim xb1 xb2 xc2 xc3) = permuted sa (xa1 ++ xa3) →
      permuted sb xb1 = permuted sa xa1 ∧ permuted sc xc3 = permuted sa xa3 := by
    intro sa sb sc hA hB hC hal
    rw [readBC_ax T.mB T.mC sb sc (Arr.sector_length hsb hB) (Arr.sector_length hsc hC),
      ValidP.permuted_append] at hal
    exact List.append_inj hal (by
      rw [permuted_length _ _ (by rw [Arr.sector_length hsb hB]; exact T.mB.lt1),
        permuted_length _ _ (by rw [Arr.sector_length hsa hA]; exact T.mA.lt1), T.hAB.len])
  have hshape : ∀ {sa sb sc : Sector}, sa ∈ A.sectors → sb ∈ B.sectors → sc ∈ C.sectors →
      permuted sc xc2 = permuted sb xb2 →
      permuted sb xb1 = permuted sa xa1 → permuted sc xc3 = permuted sa xa3 →
      permuted (Arr.blockShapeD BC.indices (permuted sb (freeAxes B.ndim xb2) ++ permuted sc (freeAxes C.ndim xc2))) (axesBC B.ndim C.ndim xb1 xb2 xc2 xc3)
        = permuted (Arr.blockShapeD A.indices sa) (xa1 ++ xa3) := by
    intro sa sb sc hA hB hC hal2 hal1 hal3
    rw [(shapeBC_w I T hB hC hal2).1, ValidP.permuted_append,
      shapes_match_w hsa hsb T.hAB.con T.hAB.ltA T.hAB.ltB sa hA sb hB hal1,
      shapes_match_w hsa hsc T.conAC T.mA.lt2 T.mC.lt2 sa hA sc hC hal3]
  unfold gradedContract Assoc2P.triplesR
  refine Eq.trans ?_ (sum_flat _ _ (fun p q => (p.1, q.1, q.2)) ph g _ ?_)
  · congr 1
    apply List.map_congr_left
    rintro ⟨sa, sbc⟩ hp
    obtain ⟨hA, hsbcM, hal, hs⟩ := mem_storedPairs.mp hp
    obtain ⟨sb, hB, sc, hC, hal2, hsbc⟩ := I.mem_sectors.mp hsbcM
    simp only at hsbc hs hal ⊢
    subst hsbc
    obtain ⟨_, hLM, hLC⟩ := right_split I T.mB T.mC (hlA sa hA) fa.lM (Arr.sector_length hsb hB)
      (Arr.sector_length hsc hC) hs
    obtain ⟨hal1, hal3⟩ := halign hA hB hC hal
    have hbox := hshape hA hB hC hal2 hal1 hal3
    have hcp : contractPair A BC (xa1 ++ xa3) (axesBC B.ndim C.ndim xb1 xb2 xc2 xc3) oA (oM ++ oC) (sa, (permuted sb (freeAxes B.ndim xb2) ++ permuted sc (freeAxes C.ndim xc2)))
        = ((allIdx (permuted (Arr.blockShapeD A.indices sa) (xa1 ++ xa3))).map (fun k13 =>
            A.elem sa (mergeIdx 0 A.ndim (xa1 ++ xa3) (freeAxes A.ndim (xa1 ++ xa3)) k13 oA) *
            sgnI ph (((storedPairs B C (freeAxes B.ndim xb2) xb2 xc2 (freeAxes C.ndim xc2) (permuted sb (freeAxes B.ndim xb2) ++ permuted sc (freeAxes C.ndim xc2))).map (fun q =>
              sgnI (gradedSign B C xb2 xc2 q.1 q.2)
                (((allIdx (permuted (Arr.blockShapeD B.indices q.1) xb2)).map (fun k2 =>
                  B.elem q.1 (mergeIdx 0 B.ndim xb2 (freeAxes B.ndim xb2) k2 ((mergeIdx 0 BC.ndim (axesBC B.ndim C.ndim xb1 xb2 xc2 xc3) (freeAxes BC.ndim (axesBC B.ndim C.ndim xb1 xb2 xc2 xc3)) k13 (oM ++ oC)).take (freeAxes B.ndim xb2).length))
                    * C.elem q.2 (mergeIdx 0 C.ndim xc2 (freeAxes C.ndim xc2) k2
                        ((mergeIdx 0 BC.ndim (axesBC B.ndim C.ndim xb1 xb2 xc2 xc3) (freeAxes BC.ndim (axesBC B.ndim C.ndim xb1 xb2 xc2 xc3)) k13 (oM ++ oC)).drop (freeAxes B.ndim xb2).length)))).sum))).sum))).sum := by
      unfold contractPair
      congr 1
      apply List.map_congr_left
      intro k13 hk
      unfold contractTerm
      rw [right_inner_w I T fa hB hC hal2 hLM hLC k13 (by rw [hbox]; exact mem_allIdx_iff.mp hk)]
      rfl
    rw [hcp]
    exact expand_right' _ _ _ _ ph _ (gradedSign_pm _ _ _ _ _ _) I.pm
      (fun q => gradedSign_pm _ _ _ _ _ _) _ _
  · rintro ⟨sa, sbc⟩ hp ⟨sb, sc⟩ hq
    obtain ⟨hA, _, hal, hs⟩ := mem_storedPairs.mp hp
    obtain ⟨hB, hC, hal2, hsbc⟩ := mem_storedPairs.mp hq
    simp only at hsbc hs hal hA hB hC hal2 ⊢
    subst hsbc
    obtain ⟨hal1, hal3⟩ := halign hA hB hC hal
    have hlsa := Arr.sector_length hsa hA
    have hlsb := Arr.sector_length hsb hB
    have hlsc := Arr.sector_length hsc hC
    obtain ⟨shpA, hA1, hA2, hA3, hA4⟩ := shape_of_mem hsa hA
    obtain ⟨shpB, hB1, hB2, hB3, hB4⟩ := shape_of_mem hsb hB
    show sgnI _ _ = sgnI _ _
    rw [sign_right_w I T sa sb sc hlsa hlsb hlsc hal3]
    congr 1
    rw [ValidP.permuted_append, allIdx_append, List.map_map, sum_pairs]
    simp only [Function.comp]
    unfold Assoc2P.W3
    apply sum_map_congr
    intro k1 hk1
    rw [sum_swap]
    apply sum_map_congr
    intro k2 hk2
    apply sum_map_congr
    intro k3 hk3
    have hk1l : k1.length = xa1.length := by
      rw [inBox_length (mem_allIdx_iff.mp hk1), permuted_length _ _ (by rw [hA2, hA3]; exact T.mA.lt1)]
    have hk3l : k3.length = xa3.length := by
      rw [inBox_length (mem_allIdx_iff.mp hk3), permuted_length _ _ (by rw [hA2, hA3]; exact T.mA.lt2)]
    have hk2l : k2.length = xb2.length := by
      rw [inBox_length (mem_allIdx_iff.mp hk2), permuted_length _ _ (by rw [hB2, hB3]; exact T.mB.lt2)]
    have haddr : (mergeIdx 0 BC.ndim (axesBC B.ndim C.ndim xb1 xb2 xc2 xc3) (freeAxes BC.ndim (axesBC B.ndim C.ndim xb1 xb2 xc2 xc3)) (k1 ++ k3) (oM ++ oC))
        = mergeIdx 0 (freeAxes B.ndim xb2).length (positions (freeAxes B.ndim xb2) xb1) (freeAxes (freeAxes B.ndim xb2).length (positions (freeAxes B.ndim xb2) xb1)) k1 oM ++ mergeIdx 0 (freeAxes C.ndim xc2).length (positions (freeAxes C.ndim xc2) xc3) (freeAxes (freeAxes C.ndim xc2).length (positions (freeAxes C.ndim xc2) xc3)) k3 oC := by
      rw [I.ndim]
      unfold Assoc2P.axesBC
      exact mergeIdx_two 0 _ _ _ _ k1 k3 oM oC T.mB.symm.pos_nodup T.mB.symm.pos_lt T.mC.pos_nodup
        T.mC.pos_lt (by rw [hk1l, T.mB.symm.pos_len, T.hAB.len]) (by rw [hk3l, T.mC.pos_len, hlenAC])
        (by rw [fa.loM, T.mB.symm.free_len, freeM_comm]) (by rw [fa.loC, T.mC.free_len])
    rw [haddr, List.take_left' (mergeIdx_length _ _ _ _ _ _), List.drop_left' (mergeIdx_length _ _ _ _ _ _),
      T.mB.nest_right 0 k1 k2 oM (by rw [hk1l, T.hAB.len]) hk2l fa.loM,
      T.mC.nest_left 0 k2 k3 oC (by rw [hk2l, T.hBC.len]) (by rw [hk3l, hlenAC]) fa.loC]

end valueR

end Assoc3P
end SymmModel
