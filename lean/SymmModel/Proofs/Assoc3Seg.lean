/-
  SymmModel.Proofs.Assoc3Seg — towards chains of `n` tensors: a chain SEGMENT is an array together
  with the positions of its two open bonds; composition of segments is associative up to `Eqv`,
  with EQUAL open-bond positions.  (The induction over bracketing trees is not done.)
  Namespace `SymmModel.Assoc3P`.
-/
import SymmModel.Proofs.Assoc3Chain

namespace SymmModel
namespace Assoc3P
open TdotP GradedP RoutesP KoszulP AssocP
set_option linter.unusedSectionVars false

variable {R : Type}

/-! ### positions inside concatenated axis lists -/

theorem indexOf?_append_left (L G : List Nat) (x : Nat) (j : Nat) (h : indexOf? L x = some j) :
    indexOf? (L ++ G) x = some j := by
  induction L generalizing j with
  | nil => simp [indexOf?] at h
  | cons y ys ih =>
    simp only [List.cons_append, indexOf?] at h ⊢
    by_cases hy : (y == x) = true
    · simp only [hy, if_true] at h ⊢; exact h
    · simp only [hy, Bool.false_eq_true, if_false] at h ⊢
      cases h' : indexOf? ys x with
      | none => simp [h'] at h
      | some k =>
        rw [h'] at h
        rw [ih k h']
        exact h

theorem indexOf?_append_right (L G : List Nat) (x : Nat) (h : x ∉ L) :
    indexOf? (L ++ G) x = (indexOf? G x).map (L.length + ·) := by
  induction L with
  | nil => simp
  | cons y ys ih =>
    have hy : ¬ (y == x) = true := by
      intro e; exact h (by rw [beq_iff_eq.mp e]; simp)
    simp only [List.cons_append, indexOf?, hy, Bool.false_eq_true, if_false,
      ih (fun hx => h (List.mem_cons_of_mem _ hx)), List.length_cons, Option.map_map]
    congr 1
    funext k
    simp only [Function.comp]; omega

theorem indexOf?_range (a i : Nat) (h : i < a) : indexOf? (List.range a) i = some i := by
  have := indexOf?_getElem (l := List.range a) List.nodup_range (j := i) (by simpa using h)
  simpa using this

/-- positions of small entries in `range a ++ G` are the entries themselves -/
theorem positions_range_append (a : Nat) (G x : List Nat) (hx : ∀ i ∈ x, i < a) :
    positions (List.range a ++ G) x = x := by
  unfold positions
  induction x with
  | nil => rfl
  | cons y ys ih =>
    rw [List.filterMap_cons, indexOf?_append_left _ _ _ _ (indexOf?_range a y (hx y (by simp))),
      ih (fun i hi => hx i (by simp [hi]))]

/-- positions of shifted entries in `F ++ shifted list` -/
theorem positions_append_shift (F G q : List Nat) (b : Nat) (hF : ∀ i ∈ F, i < b) :
    positions (F ++ G.map (b + ·)) (q.map (b + ·)) = (positions G q).map (F.length + ·) := by
  unfold positions
  induction q with
  | nil => rfl
  | cons y ys ih =>
    have hy : b + y ∉ F := fun h => by have := hF _ h; omega
    have e : indexOf? (G.map (b + ·)) (b + y) = indexOf? G y := by
      clear ih hy
      induction G with
      | nil => rfl
      | cons g gs ihg =>
        simp only [List.map_cons, indexOf?, ihg]
        have : ((b + g) == (b + y)) = (g == y) := by
          rw [Bool.eq_iff_iff]; simp
        rw [this]
    rw [List.map_cons, List.filterMap_cons, List.filterMap_cons, indexOf?_append_right _ _ _ hy, e, ih]
    cases indexOf? G y <;> rfl

/-! ### segments -/

/-- a chain segment: the contracted array and the positions of the legs of its left and right
    open bonds -/
structure Seg (R : Type) where
  arr : Arr R
  l : List Nat
  r : List Nat

/-- composing two adjacent segments: contract the right bond of the first with the left bond of
    the second; the open bonds of the result -/
def Seg.comp [Zero R] [Add R] [Mul R] [Neg R] (S1 S2 : Seg R) : Except Err (Seg R) :=
  (tdF S1.arr S2.arr S1.r S2.l).map (fun z =>
    ⟨z, positions (freeAxes S1.arr.ndim S1.r) S1.l,
      AssocP.axesAB S1.arr.ndim S2.arr.ndim S1.r S2.l S2.r⟩)

section
variable [AddCommMonoid R] [Mul R] [Neg R] [SignRing R] [AssocLaws R]

/-- **composition of segments is associative** up to `Eqv` of the arrays, with equal positions of
    the open bonds -/
theorem seg_assoc (S1 S2 S3 : Seg R)
    (W12 : AdmW S1.arr S2.arr S1.r S2.l) (W23 : AdmW S2.arr S3.arr S2.r S3.l)
    (hn1 : (S1.l ++ S1.r).Nodup) (hl1 : ∀ i ∈ S1.l, i < S1.arr.ndim)
    (hn2 : (S2.l ++ S2.r).Nodup)
    (hn3 : (S3.l ++ S3.r).Nodup) (hr3 : ∀ i ∈ S3.r, i < S3.arr.ndim)
    (hd : OddposP.LabelsDistinct (S1.arr.oddpos ++ S2.arr.oddpos ++ S3.arr.oddpos)) :
    ∃ S12 S23 L Rr : Seg R, S1.comp S2 = .ok S12 ∧ S12.comp S3 = .ok L
      ∧ S2.comp S3 = .ok S23 ∧ S1.comp S23 = .ok Rr
      ∧ Eqv Rr.arr L.arr ∧ Rr.l = L.l ∧ Rr.r = L.r := by
  have mid2 : Mid S2.arr.ndim S2.l S2.r := Mid.of hn2 (by
    intro i hi
    rcases List.mem_append.mp hi with h | h
    · exact W12.ltB i h
    · exact W23.ltA i h)
  have mid1 : Mid S1.arr.ndim S1.r S1.l := (Mid.of hn1 (by
    intro i hi
    rcases List.mem_append.mp hi with h | h
    · exact hl1 i h
    · exact W12.ltA i h)).symm
  have mid3 : Mid S3.arr.ndim S3.l S3.r := Mid.of hn3 (by
    intro i hi
    rcases List.mem_append.mp hi with h | h
    · exact W23.ltB i h
    · exact hr3 i h)
  obtain ⟨AB, BC, c1, c2, d1, d2, d3, d4, he⟩ := chain_eqv_w S1.arr S2.arr S3.arr S1.r S2.l S2.r S3.l
    W12 W23 hn2 (Assoc2P.labelRoutes_of_distinct _ _ _ _ _ hd)
  have h_ab : OddposP.LabelsDistinct (S1.arr.oddpos ++ S2.arr.oddpos) :=
    dist_of hd _ (List.Perm.refl _) (List.sublist_append_left _ _)
  have h_bc : OddposP.LabelsDistinct (S2.arr.oddpos ++ S3.arr.oddpos) :=
    dist_of hd _ (List.Perm.refl _) (by rw [List.append_assoc]; exact List.sublist_append_right _ _)
  obtain ⟨AB', _, eAB, IAB, _⟩ := call_pack S1.arr S2.arr S1.r S2.l W12 h_ab
  obtain ⟨BC', _, eBC, IBC, _⟩ := call_pack S2.arr S3.arr S2.r S3.l W23 h_bc
  rw [eAB] at d1
  obtain rfl := Except.ok.inj d1
  rw [eBC] at d3
  obtain rfl := Except.ok.inj d3
  refine ⟨⟨AB', positions (freeAxes S1.arr.ndim S1.r) S1.l,
      AssocP.axesAB S1.arr.ndim S2.arr.ndim S1.r S2.l S2.r⟩,
    ⟨BC', positions (freeAxes S2.arr.ndim S2.r) S2.l,
      AssocP.axesAB S2.arr.ndim S3.arr.ndim S2.r S3.l S3.r⟩,
    ⟨c1, positions (freeAxes AB'.ndim (AssocP.axesAB S1.arr.ndim S2.arr.ndim S1.r S2.l S2.r))
        (positions (freeAxes S1.arr.ndim S1.r) S1.l),
      AssocP.axesAB AB'.ndim S3.arr.ndim (AssocP.axesAB S1.arr.ndim S2.arr.ndim S1.r S2.l S2.r)
        S3.l S3.r⟩,
    ⟨c2, positions (freeAxes S1.arr.ndim S1.r) S1.l,
      AssocP.axesAB S1.arr.ndim BC'.ndim S1.r (positions (freeAxes S2.arr.ndim S2.r) S2.l)
        (AssocP.axesAB S2.arr.ndim S3.arr.ndim S2.r S3.l S3.r)⟩, ?_, ?_, ?_, ?_, he, ?_, ?_⟩
  · unfold Seg.comp tdF; rw [eAB]; rfl
  · unfold Seg.comp tdF; simp only []; rw [d2]; rfl
  · unfold Seg.comp tdF; rw [eBC]; rfl
  · unfold Seg.comp tdF; simp only []
    have : AssocP.axesBC S2.arr.ndim S2.l S2.r = positions (freeAxes S2.arr.ndim S2.r) S2.l := rfl
    rw [← this, d4]; rfl
  · -- left open bond
    simp only []
    rw [IAB.ndim]
    unfold AssocP.axesAB
    rw [freeAxes_shift, positions_range_append _ _ _ mid1.pos_lt]
  · -- right open bond
    simp only []
    rw [IAB.ndim, IBC.ndim]
    unfold AssocP.axesAB
    have hq : ∀ i ∈ positions (freeAxes S3.arr.ndim S3.l) S3.r, i < (freeAxes S3.arr.ndim S3.l).length :=
      mid3.pos_lt
    have e0 : positions (List.range (freeAxes S3.arr.ndim S3.l).length)
        (positions (freeAxes S3.arr.ndim S3.l) S3.r) = positions (freeAxes S3.arr.ndim S3.l) S3.r := by
      have := positions_range_append (freeAxes S3.arr.ndim S3.l).length []
        (positions (freeAxes S3.arr.ndim S3.l) S3.r) hq
      rwa [List.append_nil] at this
    rw [freeAxes_shift, List.length_append, List.length_range, List.length_map, mid2.free_len,
      freeAxes_low _ _ _ mid2.symm.pos_lt,
      positions_append_shift _ _ _ _ (fun i hi => (mem_freeAxes.mp hi).1), e0, List.map_map,
      mid2.symm.free_len, freeM_comm]
    apply List.map_congr_left
    intro x _
    simp only [Function.comp]
    omega

end

end Assoc3P
end SymmModel
