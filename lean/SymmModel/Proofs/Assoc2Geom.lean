/-
  SymmModel.Proofs.Assoc2Geom — S7 of property C04 with `A–C` legs (triangles): two-block list
  geometry (contracted axes in BOTH parts of an intermediate result), two-block Koszul signs with
  their cross term, and the remaining Koszul identities for the outer operands.
  Namespace `SymmModel.Assoc2P`.
-/
import SymmModel.Proofs.AssocMain

namespace SymmModel
namespace Assoc2P
open TdotP GradedP RoutesP KoszulP AssocP
set_option linter.unusedSectionVars false

section lists
variable {α : Type}

/-- free axes when the contracted axes are `p` in the first block and `q` in the second -/
theorem freeAxes_two (l m : Nat) (p q : List Nat) (hp : ∀ i ∈ p, i < l) :
    freeAxes (l + m) (p ++ q.map (l + ·)) = freeAxes l p ++ (freeAxes m q).map (l + ·) := by
  unfold freeAxes
  rw [List.range_add, List.filter_append, List.filter_map]
  congr 1
  · apply List.filter_congr
    intro x hx
    have := List.mem_range.mp hx
    have : ¬ ∃ a, a ∈ q ∧ l + a = x := by rintro ⟨a, _, e⟩; omega
    simp [this]
  · congr 1
    apply List.filter_congr
    intro x _
    have : l + x ∉ p := fun h => by have := hp _ h; omega
    simp [this]

theorem permuted_two (u v : List α) (p q : List Nat) (hp : ∀ i ∈ p, i < u.length) :
    permuted (u ++ v) (p ++ q.map (u.length + ·)) = permuted u p ++ permuted v q := by
  rw [ValidP.permuted_append, permuted_append_of_lt u v p hp, permuted_append_map_add]

theorem permuted_two_free (u v : List α) (p q : List Nat) (hp : ∀ i ∈ p, i < u.length) :
    permuted (u ++ v) (freeAxes (u.length + v.length) (p ++ q.map (u.length + ·)))
      = permuted u (freeAxes u.length p) ++ permuted v (freeAxes v.length q) := by
  rw [freeAxes_two _ _ _ _ hp, permuted_two u v _ _ (fun x hx => (mem_freeAxes.mp hx).1)]

/-- merging block by block -/
theorem mergeIdx_two (d : α) (l m : Nat) (p q : List Nat) (k k' f f' : List α)
    (hp : p.Nodup) (hpl : ∀ i ∈ p, i < l) (hq : q.Nodup) (hql : ∀ i ∈ q, i < m)
    (hk : k.length = p.length) (hk' : k'.length = q.length)
    (hf : f.length = (freeAxes l p).length) (hf' : f'.length = (freeAxes m q).length) :
    mergeIdx d (l + m) (p ++ q.map (l + ·)) (freeAxes (l + m) (p ++ q.map (l + ·))) (k ++ k') (f ++ f')
      = mergeIdx d l p (freeAxes l p) k f ++ mergeIdx d m q (freeAxes m q) k' f' := by
  symm
  have h1 : (mergeIdx d l p (freeAxes l p) k f).length = l := mergeIdx_length _ _ _ _ _ _
  have h2 : (mergeIdx d m q (freeAxes m q) k' f').length = m := mergeIdx_length _ _ _ _ _ _
  apply eq_mergeIdx_of_parts
  · rw [List.length_append, h1, h2]
  · intro y hy
    rcases List.mem_append.mp hy with hy | hy
    · have := hpl y hy; omega
    · obtain ⟨z, hz, rfl⟩ := List.mem_map.mp hy
      have := hql z hz; omega
  · have := permuted_two (mergeIdx d l p (freeAxes l p) k f) (mergeIdx d m q (freeAxes m q) k' f') p q
      (by rw [h1]; exact hpl)
    rw [h1] at this
    rw [this, permuted_mergeIdx_axes d hp hpl hk, permuted_mergeIdx_axes d hq hql hk']
  · have := permuted_two_free (mergeIdx d l p (freeAxes l p) k f)
      (mergeIdx d m q (freeAxes m q) k' f') p q (by rw [h1]; exact hpl)
    rw [h1, h2] at this
    rw [this, permuted_mergeIdx_free d (freeAxes_nodup _ _) (fun x hx => (mem_freeAxes.mp hx).1)
        (fun x hx => (mem_freeAxes.mp hx).2) hf,
      permuted_mergeIdx_free d (freeAxes_nodup _ _) (fun x hx => (mem_freeAxes.mp hx).1)
        (fun x hx => (mem_freeAxes.mp hx).2) hf']

/-- listing two disjoint contracted axis sets in the other order -/
theorem mergeIdx_comm {n : Nat} {ax1 ax2 : List Nat} (h : Mid n ax1 ax2) (d : α) (k1 k2 o : List α)
    (hk1 : k1.length = ax1.length) (hk2 : k2.length = ax2.length)
    (ho : o.length = (freeAxes n (ax1 ++ ax2)).length) :
    mergeIdx d n (ax2 ++ ax1) (freeAxes n (ax2 ++ ax1)) (k2 ++ k1) o
      = mergeIdx d n (ax1 ++ ax2) (freeAxes n (ax1 ++ ax2)) (k1 ++ k2) o := by
  rw [freeM_comm]
  have hl : (mergeIdx d n (ax2 ++ ax1) (freeAxes n (ax1 ++ ax2)) (k2 ++ k1) o).length = n :=
    mergeIdx_length _ _ _ _ _ _
  have hnd : (ax2 ++ ax1).Nodup :=
    List.nodup_append.mpr ⟨h.n2, h.n1, fun x hx y hy e => h.disj y hy (e ▸ hx)⟩
  have hlt : ∀ y ∈ ax2 ++ ax1, y < n := by
    intro y hy
    rcases List.mem_append.mp hy with hy | hy
    · exact h.lt2 y hy
    · exact h.lt1 y hy
  have p1 := permuted_mergeIdx_axes d (free := freeAxes n (ax1 ++ ax2)) (k := k2 ++ k1) (f := o)
    hnd hlt (by rw [List.length_append, List.length_append, hk1, hk2])
  rw [ValidP.permuted_append] at p1
  obtain ⟨e2, e1⟩ := List.append_inj p1 (by
    rw [permuted_length _ _ (by rw [hl]; exact h.lt2), hk2])
  have p3 := permuted_mergeIdx_free d (axes := ax2 ++ ax1) (k := k2 ++ k1) (f := o)
    (freeAxes_nodup n (ax1 ++ ax2)) (fun x hx => (mem_freeAxes.mp hx).1)
    (fun x hx hx' => (mem_freeAxes.mp hx).2 (by
      rcases List.mem_append.mp hx' with h' | h'
      · exact List.mem_append_right _ h'
      · exact List.mem_append_left _ h')) ho
  exact eq_merge3 h d hl e1 e2 p3

end lists

/-! ### Koszul signs of two-block permutations -/

section koszul2

theorem permuted_range_self (m : Nat) (π : List Nat) (h : ∀ i ∈ π, i < m) :
    permuted (List.range m) π = π := by
  rw [permuted_eq_map _ _ (by simpa using h) 0]
  conv => rhs; rw [← List.map_id π]
  apply List.map_congr_left
  intro x hx
  have := h x hx
  simp [List.getD_eq_getElem?_getD, List.getElem?_range this]

theorem tri_add (a b : Nat) : tri (a + b) = tri a + tri b + a * b := by
  induction b with
  | zero => simp [tri]
  | succ b ih =>
    rw [← Nat.add_assoc]
    show tri (a + b) + (a + b) = tri a + (tri b + b) + a * (b + 1)
    rw [ih, Nat.mul_succ]; omega

/-- a permutation acting inside two consecutive blocks -/
theorem koszul_block_diag (P Q : List Bool) (πP πQ : List Nat) (hP : πP.Perm (List.range P.length))
    (hQ : πQ.Perm (List.range Q.length)) :
    koszul (P ++ Q) (some (πP ++ πQ.map (P.length + ·))) = koszul P (some πP) * koszul Q (some πQ) := by
  have hlP : πP.length = P.length := by simpa using hP.length_eq
  have hp1 : (πP ++ (List.range Q.length).map (P.length + ·)).Perm (List.range (P.length + Q.length)) := by
    rw [List.range_add]; exact List.Perm.append_right _ hP
  have hp2 : (List.range P.length ++ πQ.map (P.length + ·)).Perm (List.range (P.length + Q.length)) := by
    rw [List.range_add]; exact List.Perm.append_left _ (hQ.map _)
  have hc : compose (πP ++ (List.range Q.length).map (P.length + ·))
      (List.range P.length ++ πQ.map (P.length + ·)) = πP ++ πQ.map (P.length + ·) := by
    unfold compose
    have := permuted_append_id_shift πP ((List.range Q.length).map (P.length + ·)) πQ
    rw [hlP] at this
    rw [this, permuted_map, permuted_range_self _ _ (mem_lt_of_perm hQ)]
  have hco := koszul_cocycle' (P ++ Q) _ _ (P.length + Q.length) (by simp) hp1 hp2
  rw [hc] at hco
  rw [hco, koszul_id_block_right P Q πP hP]
  congr 1
  have e : permuted (P ++ Q) (πP ++ (List.range Q.length).map (P.length + ·)) = permuted P πP ++ Q :=
    permuted_append_low_id P Q πP (mem_lt_of_perm hP)
  rw [e]
  have hl : (permuted P πP).length = P.length := by
    rw [permuted_length _ _ (mem_lt_of_perm hP), hlP]
  have := koszul_id_block_left (permuted P πP) Q πQ hQ
  rw [hl] at this
  exact this

theorem oddCount_low (P Q : List Bool) (b : List Nat) (hb : ∀ i ∈ b, i < P.length) :
    oddCount (P ++ Q) b = oddCount P b := by
  unfold oddCount
  congr 1
  apply List.filter_congr
  intro j hj
  exact isOdd_append_left P Q j (hb j hj)

theorem oddCount_shift (P Q : List Bool) (c : List Nat) :
    oddCount (P ++ Q) (c.map (P.length + ·)) = oddCount Q c := by
  unfold oddCount
  rw [List.filter_map, List.length_map]
  congr 1
  apply List.filter_congr
  intro j _
  exact isOdd_append_right P Q j

/-- two blocks `P`, `Q`; target order `(a, c, b, e)` with `a, b` from `P` and `c, e` from `Q`:
    the block-diagonal sign times the sign of moving `b` across `c` -/
theorem koszul_two_cross (P Q : List Bool) (a b c e : List Nat)
    (hP : (a ++ b).Perm (List.range P.length)) (hQ : (c ++ e).Perm (List.range Q.length)) :
    koszul (P ++ Q) (some (a ++ c.map (P.length + ·) ++ (b ++ e.map (P.length + ·))))
      = koszul P (some (a ++ b)) * koszul Q (some (c ++ e)) * sgn (oddCount P b * oddCount Q c) := by
  have hperm : (a ++ b ++ c.map (P.length + ·) ++ e.map (P.length + ·)).Perm
      (List.range (P.length + Q.length)) := by
    rw [List.range_add, List.append_assoc, ← List.map_append]
    exact List.Perm.append hP (hQ.map _)
  have hm := koszul_block_move (P ++ Q) a b (c.map (P.length + ·)) (e.map (P.length + ·))
    (P.length + Q.length) hperm
  have e1 : a ++ c.map (P.length + ·) ++ (b ++ e.map (P.length + ·))
      = a ++ c.map (P.length + ·) ++ b ++ e.map (P.length + ·) := by simp [List.append_assoc]
  have e2 : a ++ b ++ c.map (P.length + ·) ++ e.map (P.length + ·)
      = (a ++ b) ++ (c ++ e).map (P.length + ·) := by simp [List.append_assoc]
  rw [e1, hm, e2, koszul_block_diag P Q _ _ hP hQ,
    oddCount_low P Q b (fun i hi => mem_lt_of_perm hP i (List.mem_append_right _ hi)),
    oddCount_shift]

end koszul2

/-! ### more Koszul identities for two disjoint axis sets -/

section mid2
variable {n : Nat} {ax1 ax2 : List Nat} (h : Mid n ax1 ax2)
include h

/-- left operand first contracted on `ax1` (moved last), then inside the result on `ax2` -/
theorem koszul_LL (par : List Bool) (hpar : par.length = n) :
    koszul par (some (freeAxes n ax1 ++ ax1))
        * koszul (permuted par (freeAxes n ax1))
            (some (freeAxes (freeAxes n ax1).length (positions (freeAxes n ax1) ax2)
              ++ positions (freeAxes n ax1) ax2))
      = koszul par (some (freeAxes n (ax1 ++ ax2) ++ ax2 ++ ax1)) := by
  have hq := perm_left h.pos_nodup h.pos_lt
  have := koszul_relist_free_left par n hpar ax1 _ h.n1 h.lt1 hq
  rw [ValidP.permuted_append, h.free_spec, h.pos_spec] at this
  rw [← this]

/-- right operand first contracted on `ax1` (moved first), then inside the result on `ax2` -/
theorem koszul_RR (par : List Bool) (hpar : par.length = n) :
    koszul par (some (ax1 ++ freeAxes n ax1))
        * koszul (permuted par (freeAxes n ax1))
            (some (positions (freeAxes n ax1) ax2
              ++ freeAxes (freeAxes n ax1).length (positions (freeAxes n ax1) ax2)))
      = koszul par (some (ax1 ++ ax2 ++ freeAxes n (ax1 ++ ax2))) := by
  have hq := perm_right h.pos_nodup h.pos_lt
  have := koszul_relist_free_right par n hpar ax1 _ h.n1 h.lt1 hq
  rw [ValidP.permuted_append, h.free_spec, h.pos_spec] at this
  rw [← this, List.append_assoc]

theorem perm3 : (freeAxes n (ax1 ++ ax2) ++ ax1 ++ ax2).Perm (List.range n) := by
  have := perm_left (n := n) (ax := ax1 ++ ax2)
    (List.nodup_append.mpr ⟨h.n1, h.n2, fun x hx y hy e => h.disj x hx (e ▸ hy)⟩)
    (by
      intro i hi
      rcases List.mem_append.mp hi with hi | hi
      · exact h.lt1 i hi
      · exact h.lt2 i hi)
  rwa [← List.append_assoc] at this

/-- the two contracted blocks of a left operand in the other order -/
theorem koszul_swap_last (par : List Bool) :
    koszul par (some (freeAxes n (ax1 ++ ax2) ++ ax2 ++ ax1))
      = koszul par (some (freeAxes n (ax1 ++ ax2) ++ ax1 ++ ax2))
        * sgn (oddCount par ax1 * oddCount par ax2) := by
  have := koszul_block_move par (freeAxes n (ax1 ++ ax2)) ax1 ax2 [] n (by
    rw [List.append_nil]; exact perm3 h)
  simpa using this

/-- the two contracted blocks of a right operand in the other order -/
theorem koszul_swap_first (par : List Bool) :
    koszul par (some (ax2 ++ ax1 ++ freeAxes n (ax1 ++ ax2)))
      = koszul par (some (ax1 ++ ax2 ++ freeAxes n (ax1 ++ ax2)))
        * sgn (oddCount par ax1 * oddCount par ax2) := by
  have hp : ([] ++ ax1 ++ ax2 ++ freeAxes n (ax1 ++ ax2)).Perm (List.range n) := by
    rw [List.nil_append]
    exact (List.perm_append_comm).trans (by rw [← List.append_assoc]; exact perm3 h)
  have := koszul_block_move par [] ax1 ax2 (freeAxes n (ax1 ++ ax2)) n hp
  simpa using this

end mid2

end Assoc2P
end SymmModel
