/-
  SymmModel.Proofs.DecompEigh — fermionic `eigh` reconstruction for an input carrying ANY sorted
  list of labels (dual ones included), through `@` and through `tensordot` in every mode:
      ev.multiply_diagonal(w, 1) · ev.dagger()  =  σ · a,
  `σ = NormNet.nestSign (oddposDag a.oddpos)` = `-1` per NON-dual label of `a` (their number is even
  with the number of dual ones, the charge being zero: `-1` per dual label).  With non-dual labels
  only, `σ = 1` (`ReconP.eigh_recon_fermi_labels`).  Proof by the graded semantics
  (`DecompP.graded_matmul_and_tensordot`, `GramPair`).  Namespace `SymmModel.DecompP`.
  Nothing here changes a model definition.
-/
import SymmModel.Proofs.DecompIso

namespace SymmModel
namespace DecompP
set_option linter.unusedSectionVars false
open LinalgLemmas ReconP Recon2P TdotP GradedP RoutesP OddposP
open Lazy (sgnI)

variable {R : Type}

section eigh
variable [AddCommMonoid R] [Mul R] [Neg R] [SignRing R] [Conj R]

theorem eigh_fermi_any_labels (hz1 : ∀ x : R, 0 * x = 0) (hz2 : ∀ x : R, x * 0 = 0)
    (hc0 : Conj.conj (0 : R) = 0) {K : Kernels R} (hK : K.ShapeOk) {a : Arr R} (H : EighInput a)
    (hf : a.fermi = true) (hlab : SortedLabels a.oddpos)
    (hE : ∀ p ∈ a.phaseSync.blocks, K.EighBlock p.2) :
    ∃ w ev, eighA K a = .ok (w, ev)
      ∧ (∃ y, (multiplyDiagonal ev w 1).matmulF ev.daggerF = .ok y ∧ y.oddpos = []
          ∧ ∀ s i j, inBox (Arr.blockShapeD a.indices s) [i, j] = true →
              y.elem s [i, j]
                = sgnI (NormNet.nestSign (Arr.oddposDag a.oddpos)) (a.elem s [i, j]))
      ∧ ∀ tm, ∃ c, (multiplyDiagonal ev w 1).tensordotF ev.daggerF (.pair [1] [0]) tm = .ok c
          ∧ c.oddpos = []
          ∧ ∀ s i j, inBox (Arr.blockShapeD a.indices s) [i, j] = true →
              c.elem s [i, j]
                = sgnI (NormNet.nestSign (Arr.oddposDag a.oddpos)) (a.elem s [i, j]) := by
  have HA := eighInput_syncIf H
  obtain ⟨f1, f2, f3, f4, f5, f6⟩ := syncIf_fields a
  obtain ⟨i0, i1, hi⟩ := ndim_two HA.h2
  have hia : a.indices = [i0, i1] := by rw [← f3]; exact hi
  have hi1 : (syncIf a).indices.getD 1 default = i1 := by rw [hi]; rfl
  have hAph : (syncIf a).phases = [] := syncIf_phases a H.hv
  have hfA : (syncIf a).fermi = true := f2.trans hf
  have hcm : i0.cm = i1.cm := by
    have := HA.hcm; rw [hi] at this; exact this
  have hcore := eighCore_eq K HA
  -- name the pieces
  generalize hW : (⟨let ev := (syncIf a).blocks.map (fun p => (colOf p.1, (K.eigh p.2).1))
        if (syncIf a).fermi && !((syncIf a).indices.getD 1 default).dual then
          ev.map (fun q => if (syncIf a).sym.parity q.1 then (q.1, q.2.negK) else (q.1, q.2))
        else ev⟩ : BVec R) = W at hcore
  generalize hEV : ({ syncIf a with blocks := (syncIf a).blocks.map (fun p => (p.1, (K.eigh p.2).2)) }
      : Arr R) = EV at hcore
  have he : eighA K a = .ok (W, EV) := by rw [eighA_eq_core]; exact hcore
  have hEVb : EV.blocks = (syncIf a).blocks.map (fun p => (p.1, (K.eigh p.2).2)) := by rw [← hEV]
  have hEVp : EV.phases = [] := by rw [← hEV]; exact hAph
  have hEVo : EV.oddpos = a.oddpos := by rw [← hEV]; exact f5
  have hEVi : EV.indices = [i0, i1] := by rw [← hEV]; exact hi
  have hEVn : EV.ndim = 2 := by simp [Arr.ndim, hEVi]
  have hEVs : EV.sym = (syncIf a).sym := by rw [← hEV]
  have hEVc : EV.charge = (syncIf a).sym.zero := by rw [← hEV]; exact HA.hc
  have hEVf : EV.fermi = true := by rw [← hEV]; exact hfA
  obtain ⟨_, _, hEVv, _⟩ := C11.eighA_valid K hK a H.hv W EV he
  have hWb : W.blocks = (syncIf a).blocks.map (fun p => (colOf p.1,
      if (!i1.dual && (syncIf a).sym.parity (colOf p.1)) then (K.eigh p.2).1.negK
      else (K.eigh p.2).1)) := by
    rw [← hW]
    simp only [hfA, hi1, Bool.true_and]
    by_cases hd : i1.dual = true
    · simp [hd]
    · simp only [hd, Bool.not_false, Bool.true_and, if_true, List.map_map, Function.comp_def]
      apply List.map_congr_left
      intro p _
      split <;> rfl
  have hLb := multiplyDiagonal_blocks' HA.hv HA.h2 (fun p => (K.eigh p.2).2)
    (fun p => if (!i1.dual && (syncIf a).sym.parity (colOf p.1)) then (K.eigh p.2).1.negK
      else (K.eigh p.2).1) EV W hEVb hWb
  -- the operands
  have hLv : (multiplyDiagonal EV W 1).validB = true :=
    (ValidP.validB_iff _).mpr (ValidP.multiplyDiagonal_valid EV W 1 ((ValidP.validB_iff EV).mp hEVv))
  have hLi : (multiplyDiagonal EV W 1).indices = [i0, i1] := hEVi
  have hLn : (multiplyDiagonal EV W 1).ndim = 2 := hEVn
  have hLp : (multiplyDiagonal EV W 1).phases = [] := hEVp
  obtain ⟨d1, d2, d3, d4, d5⟩ := daggerF_fields EV
  have hBv : EV.daggerF.validB = true :=
    (ValidP.validB_iff _).mpr (ValidP.daggerF_valid EV false ((ValidP.validB_iff EV).mp hEVv) hEVf)
  have hBi : EV.daggerF.indices = [i1.conj, i0.conj] := by rw [d3, hEVi]; rfl
  have hBn : EV.daggerF.ndim = 2 := by simp [Arr.ndim, hBi]
  have hAdm : Adm (multiplyDiagonal EV W 1) EV.daggerF [1] [0] := by
    refine ⟨hLv, hBv, hEVf, d2.trans hEVf, d1.symm, ?_, by decide, by decide, ?_, ?_⟩
    · unfold ValidP.contractibleB
      rw [hLi, hBi]
      simp
    · intro x hx; simp at hx; subst hx; rw [hLn]; decide
    · intro x hx; simp at hx; subst hx; rw [hBn]; decide
  have hsL : Lazy.SignOk (multiplyDiagonal EV W 1) := Lazy.SignOk.of_valid hLv hEVf
  have hsE : Lazy.SignOk EV := Lazy.SignOk.of_valid hEVv hEVf
  -- sectors
  have hin : ∀ p ∈ (syncIf a).blocks, p.1 ∈ (syncIf a).sectors :=
    fun p hp => List.mem_map.mpr ⟨p, hp, rfl⟩
  have hsec : ((syncIf a).blocks.map (fun p => p.1)).Nodup := sectors_nodup HA.hv
  have hcc : ∀ p ∈ (syncIf a).blocks, p.1 = [colOf p.1, colOf p.1] := by
    intro p hp
    obtain ⟨c, m, hs, _⟩ := eigh_block HA (s := p.1) (b := p.2) hp
    rw [hs]; rfl
  have G : GramPair (multiplyDiagonal EV W 1) EV.daggerF (syncIf a).blocks (fun p => colOf p.1)
      (fun p => colOf p.1) (fun p => colOf p.1) := by
    refine ⟨hLn, hBn, ?_, ?_, items_cols HA.hv HA.h2 hin hsec, items_diag HA.hv HA.h2 hin hsec⟩
    · simp only [Arr.sectors, hLb, List.map_map]
      apply List.map_congr_left
      intro p hp
      exact hcc p hp
    · rw [Lazy.daggerF_sectors]
      simp only [Arr.sectors, hEVb, List.map_map]
      apply List.map_congr_left
      intro p hp
      simp only [Function.comp]
      rw [hcc p hp]; rfl
  -- labels
  have hLpar : (multiplyDiagonal EV W 1).parity = false := by
    show EV.sym.parity EV.charge = false
    rw [hEVc, hEVs]
    cases (syncIf a).sym <;> decide
  have hm : mergeOddpos (multiplyDiagonal EV W 1).parity (multiplyDiagonal EV W 1).oddpos
      EV.daggerF.oddpos = .ok ([], 1 * NormNet.nestSign (Arr.oddposDag a.oddpos)) := by
    have hLo : (multiplyDiagonal EV W 1).oddpos = a.oddpos := hEVo
    rw [hLpar, d5, hEVo, hLo]
    have := merge_nested false (Arr.oddposDag a.oddpos)
      ⟨oddposDag_sorted _ hlab.1, NormNet.oddposDag_distinct _ hlab.2⟩
    rw [Lazy.oddposDag_involutive] at this
    rw [this]
    rfl
  -- values on a stored block
  have hidx : without (multiplyDiagonal EV W 1).indices [1] ++ without EV.daggerF.indices [0]
      = [i0, i0.conj] := by rw [hLi, hBi]; rfl
  have hbs : ∀ s, Arr.blockShapeD (without (multiplyDiagonal EV W 1).indices [1]
      ++ without EV.daggerF.indices [0]) s = Arr.blockShapeD a.indices s := by
    intro s
    rw [hidx, hia]
    exact blockShapeD_congr_cm _ _ s (by simp [hcm])
  have hval : ∀ s i j, inBox (Arr.blockShapeD a.indices s) [i, j] = true →
      gradedContract (multiplyDiagonal EV W 1) EV.daggerF [1] [0] s [i] [j] = a.elem s [i, j] := by
    intro s i j hbox
    rw [← syncIf_elem SignRing.neg_zero a s [i, j]]
    by_cases hs : s ∈ (syncIf a).sectors
    · obtain ⟨p, hp, e⟩ := List.mem_map.mp hs
      obtain ⟨c, m, hsc, hsh, hwf, _, hlk⟩ := eigh_block HA (s := p.1) (b := p.2) hp
      have e' : s = [c, c] := by rw [← e]; exact hsc
      subst e'
      have hcol : colOf p.1 = c := by rw [hsc]; rfl
      obtain ⟨a1, _, a3, _⟩ := hK.eigh p.2 m hsh hwf
      have hlk0 : alookup i0.cm c = some m := by rw [hcm]; rw [hi1] at hlk; exact hlk
      have hlk1 : alookup i1.cm c = some m := by rw [hi1] at hlk; exact hlk
      have hij : i < m ∧ j < m := by
        have hb : Arr.blockShapeD a.indices [c, c] = [m, m] := by
          unfold Arr.blockShapeD
          rw [hia, (blockShape?_pair _ _ c c [m, m]).mpr ⟨m, m, hlk0, hlk1, rfl⟩]; rfl
        rw [hb] at hbox
        exact (inBox_pair _ _ i j).mp hbox
      have hAsh : Arr.blockShapeD (multiplyDiagonal EV W 1).indices [c, c] = [m, m] := by
        unfold Arr.blockShapeD
        rw [hLi, (blockShape?_pair _ _ c c [m, m]).mpr ⟨m, m, hlk0, hlk1, rfl⟩]; rfl
      have hgc := G.gradedContract (p := p) hp m m (by simp only [hcol]; exact hAsh) i j
      simp only [hcol] at hgc
      rw [hgc]
      have hLm : ([c, c], (K.eigh p.2).2.mulAxisK
          (if (!i1.dual && (syncIf a).sym.parity (colOf p.1)) then (K.eigh p.2).1.negK
            else (K.eigh p.2).1) 1) ∈ (multiplyDiagonal EV W 1).blocks := by
        rw [hLb]; exact List.mem_map.mpr ⟨p, hp, by rw [hsc]⟩
      have hEm : ([c, c], (K.eigh p.2).2) ∈ EV.blocks := by
        rw [hEVb]; exact List.mem_map.mpr ⟨p, hp, by rw [hsc]⟩
      have hdgs : Lazy.dagSign EV false [c, c] = 1 := by
        unfold Lazy.dagSign Lazy.conjGlob
        have : EV.sym.parity (EV.sym.sign EV.charge true) = false := by
          rw [hEVc, hEVs]; cases (syncIf a).sym <;> decide
        simp [this]
      have hgs : (!((multiplyDiagonal EV W 1).indices.getD 1 default).dual
          && (multiplyDiagonal EV W 1).sym.parity c) = (!i1.dual && (syncIf a).sym.parity c) := by
        rw [hLi]
        show (!i1.dual && EV.sym.parity c) = _
        rw [hEVs]
      have hterm : ∀ t ∈ List.range m,
          (multiplyDiagonal EV W 1).elem [c, c] [i, t] * EV.daggerF.elem [c, c] [t, j]
            = sgnI (if (!i1.dual && (syncIf a).sym.parity c) then -1 else 1)
                (((K.eigh p.2).2.get [i, t] * (K.eigh p.2).1.get [t])
                  * Conj.conj ((K.eigh p.2).2.get [j, t])) := by
        intro t ht
        have ht' := List.mem_range.mp ht
        have hd : EV.daggerF.elem [c, c] [t, j]
            = sgnI (Lazy.dagSign EV false [c, c] * Lazy.phOf EV.phases [c, c])
                ((((K.eigh p.2).2.conjK).transposeK (Arr.reversedAxes EV.ndim)).get [t, j]) :=
          daggerF_elem hsE hEm [t, j]
        rw [hd, elem_sgn hsL hLm, hLp, hEVp, hdgs, hEVn]
        have hph : Lazy.phOf ([] : List (Sector × Int)) [c, c] = 1 := rfl
        rw [hph, Int.one_mul, Lazy.sgnI_one, Lazy.sgnI_one]
        have hrv : Arr.reversedAxes 2 = [1, 0] := rfl
        rw [hrv, transposeK10_get _ (by rw [conjK_shape]; exact a3) ht' hij.2, conjK_get hc0,
          mulAxisK_get _ _ a3 hij.1 ht', hcol]
        cases (!i1.dual && (syncIf a).sym.parity c)
        · simp only [Bool.false_eq_true, if_false, Lazy.sgnI_one]
        · simp only [if_true, Lazy.sgnI_neg_one]
          rw [negK_get SignRing.neg_zero, SignRing.mul_neg, SignRing.neg_mul]
      rw [List.map_congr_left hterm, sgnI_sum, hgs, sum_map_eq_foldl]
      have hEp : K.EighBlock p.2 := hE p (by rw [← syncIf_blocks_fermi a hf]; exact hp)
      rw [hEp m hsh i j hij.1 hij.2]
      have hpe : (syncIf a).elem [c, c] [i, j] = p.2.get [i, j] := by
        rw [elem_of_mem (sectors_nodup HA.hv) (show ([c, c], p.2) ∈ (syncIf a).blocks by
          rw [← hsc]; exact hp), hAph]
        rfl
      rw [hpe]
      cases (!i1.dual && (syncIf a).sym.parity c) <;> simp [sgnI, SignRing.neg_neg]
    · rw [G.gradedContract_miss s (fun p hp e => hs (by
        rw [← e, ← hcc p hp]; exact hin p hp)) [i] [j]]
      have h1' : alookup (syncIf a).blocks s = none := (LinalgLemmas.alookup_eq_none_iff _ _).mpr hs
      simp [Arr.elem, h1']
  obtain ⟨⟨y, hy, hyo, _, hye⟩, hT⟩ := graded_matmul_and_tensordot hz1 hz2 _ _ hAdm hLn hBn _ _ hm
  refine ⟨W, EV, he, ⟨y, hy, hyo, ?_⟩, ?_⟩
  · intro s i j hbox
    rw [hye s i j (by rw [hbs]; exact hbox), hval s i j hbox, Int.one_mul]
  · intro tm
    obtain ⟨c, hc, hco, _, hce⟩ := hT tm
    refine ⟨c, hc, hco, ?_⟩
    intro s i j hbox
    rw [hce s i j (by rw [hbs]; exact hbox), hval s i j hbox, Int.one_mul]

end eigh

end DecompP
end SymmModel
