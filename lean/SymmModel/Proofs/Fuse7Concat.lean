/-
  SymmModel.Proofs.Fuse7Concat — `fuseConcat` for arbitrary groups as a pure function: group the
  reshaped blocks by new sector and sub-sectors, then the nested concatenation per new sector.
-/
import SymmModel.Proofs.Fuse7Shape
namespace SymmModel
namespace FuseP
set_option linter.unusedSectionVars false

variable {R : Type} [Zero R]

section
variable (a : Arr R) (groups : List (List Nat))

def toGItemM (sb : Sector × Blk R) : GItem R :=
  ((planM a groups sb).newSector, (planM a groups sb).subsectors,
   (sb.2.transposeK (giM a groups).perm).reshapeK (planM a groups sb).newShape)

def groupedM : List (Sector × List (List Sector × Blk R)) := grpFold (a.blocks.map (toGItemM a groups))

/-- the shape of a missing sub-block -/
def zsM (ns : Sector) (key : List Sector) : List Nat :=
  (List.range (ndimM a groups)).map (fun ax =>
    if axMulti a groups ax then
      ((startOf (extM a groups ns (ax - (giM a groups).position)) (key.getD (ax - (giM a groups).position) [])).getD
        (0, 0)).2
    else (shapeOfM a groups ns).getD ax 0)

def concatBlocksM : List (Sector × Blk R) :=
  (groupedM a groups).map (fun p =>
    (p.1, nest (leafM p.2 (zsM a groups p.1)) (lvFrom a groups p.1 0 groups.length) []))

variable {a groups}

theorem blockShape?_getD {idx : List Index} {s : Sector} {shp : List Nat} (h : Arr.blockShape? idx s = some shp)
    {ax : Nat} (hax : ax < idx.length) :
    (idx.getD ax default).sizeOf? (s.getD ax (0, 0)) = some (shp.getD ax 0) := by
  obtain ⟨ix, c, _, _, h3, h4, h5⟩ := blockShape?_get h hax
  rw [h4, h5, h3]

/-- the choice at a multi-axis group is an entry of its extent -/
theorem choice_mem (ns : Sector) : ∀ (fuel g : Nat) (qs : List (Sector × Nat)),
    Choice (lvFrom a groups ns g fuel) qs → ∀ t, t < fuel → multiB groups (g + t) = true →
      qs.getD t ([], 0) ∈ extM a groups ns (g + t) := by
  intro fuel
  induction fuel with
  | zero => intro g qs _ t ht; omega
  | succ f ih =>
    intro g qs h t ht hm
    simp only [lvFrom, lvlM] at h
    cases t with
    | zero =>
      simp only [Nat.add_zero] at hm ⊢
      rw [hm] at h
      simp only [if_true] at h
      obtain ⟨q, qs', rfl, hq, _⟩ := h
      exact hq
    | succ t =>
      have hrest : ∃ q qs', qs = q :: qs' ∧ Choice (lvFrom a groups ns (g + 1) f) qs' := by
        split at h
        · obtain ⟨q, qs', h1, _, h3⟩ := h; exact ⟨q, qs', h1, h3⟩
        · obtain ⟨q, qs', h1, _, h3⟩ := h; exact ⟨q, qs', h1, h3⟩
      obtain ⟨q, qs', rfl, h'⟩ := hrest
      have := ih (g + 1) qs' h' t (by omega) (by rw [show g + 1 + t = g + (t + 1) by omega]; exact hm)
      rw [show g + 1 + t = g + (t + 1) by omega] at this
      simpa using this

theorem gitemsM_distinct (hv : ValidArr a) (hok : GroupsOk groups a.ndim) :
    (a.blocks.map (toGItemM a groups)).Pairwise GDistinct := by
  rw [List.pairwise_map]
  have hnd : a.blocks.Pairwise (fun x y => x.1 ≠ y.1) := by
    have := hv.nodup
    rwa [List.Nodup, List.pairwise_map] at this
  apply List.Pairwise.imp_of_mem _ hnd
  intro x y hx hy hne ⟨h1, h2⟩
  apply hne
  apply permM_sector_ext hv hok hx hy h1
  intro g _ _
  have h2' : (planM a groups x).subsectors = (planM a groups y).subsectors := h2
  simp only [ssM, h2']

theorem groupedM_inv (hv : ValidArr a) (hok : GroupsOk groups a.ndim) :
    GrpInv (a.blocks.map (toGItemM a groups)) (groupedM a groups) :=
  grpFold_inv _ (gitemsM_distinct hv hok)

variable (a groups) in
/-- the closure `zero_shape_of` of `_fuse_blocks_via_concat`, verbatim -/
def zeroShapeE (ns : Sector) (subkey : List Sector) : Except Err (List Nat) := do
  let sz (ax : Nat) (pos : Nat) : Except Err Nat :=
    match (a.indices.getD ax default).sizeOf? (ns.getD pos (0, 0)) with
    | some d => pure d
    | none => throw Err.key
  let before ← (fuseInfoOf a groups).gi.axesBefore.zipIdx.mapM (fun (ax, k) => sz ax k)
  let mid ← subkey.zipIdx.mapM (fun (ss, g) =>
    let ix := (fuseInfoOf a groups).newIndices.getD ((fuseInfoOf a groups).gi.position + g) default
    let c := ns.getD ((fuseInfoOf a groups).gi.position + g) (0, 0)
    if (fuseInfoOf a groups).gi.singlets.contains g then
      match ix.sizeOf? c with
      | some d => pure d
      | none => throw Err.key
    else match extentStart? ix c ss with
      | some (_, d) => pure d
      | none => throw Err.key)
  let after ← (fuseInfoOf a groups).gi.axesAfter.zipIdx.mapM (fun (ax, k) =>
    sz ax ((fuseInfoOf a groups).gi.position + (fuseInfoOf a groups).gi.numGroups + k))
  pure (before ++ mid ++ after)

theorem zeroShape_ok (hv : ValidArr a) (hok : GroupsOk groups a.ndim) {sb0 : Sector × Blk R} (hsb0 : sb0 ∈ a.blocks)
    (qs : List (Sector × Nat))
    (hqs : Choice (lvFrom a groups (planM a groups sb0).newSector 0 groups.length) qs) :
    zeroShapeE a groups (planM a groups sb0).newSector (qs.map (·.1))
      = .ok (zsM a groups (planM a groups sb0).newSector (qs.map (·.1))) := by
  have hbase := shape_storedM hv hok hsb0
  have hsh : shapeOfM a groups (planM a groups sb0).newSector = BshM a groups sb0 := by
    simp [shapeOfM, hbase]
  have hN : (newIdxM a groups).length = ndimM a groups := newIdxM_length hok
  have hgi : (fuseInfoOf a groups).gi = giM a groups := rfl
  have hni : (fuseInfoOf a groups).newIndices = newIdxM a groups := rfl
  have hql : qs.length = groups.length := choice_length _ _ _ _ hqs
  have hpl : (giM a groups).axesBefore.length = (giM a groups).position := axesBefore_length (hokD hok)
  unfold zeroShapeE
  simp only [hgi, hni, numGroups_eq]
  rw [mapM_ok_of_forall _ (fun p : Nat × Nat => (BshM a groups sb0).getD p.2 0) (giM a groups).axesBefore.zipIdx]
  · simp only [bind, Except.bind]
    rw [mapM_ok_of_forall _ (fun p : Sector × Nat =>
        if multiB groups p.2 then
          ((startOf (extM a groups (planM a groups sb0).newSector p.2) p.1).getD (0, 0)).2
        else (BshM a groups sb0).getD ((giM a groups).position + p.2) 0) (qs.map (·.1)).zipIdx]
    · simp only []
      rw [mapM_ok_of_forall _ (fun p : Nat × Nat =>
          (BshM a groups sb0).getD ((giM a groups).position + groups.length + p.2) 0) (giM a groups).axesAfter.zipIdx]
      · simp only [pure, Except.pure]
        congr 1
        have hzl : (zsM a groups (planM a groups sb0).newSector (qs.map (·.1))).length
            = (giM a groups).position + groups.length + (giM a groups).axesAfter.length := by
          simp [zsM, ndimM]
        rw [three_parts (zsM a groups (planM a groups sb0).newSector (qs.map (·.1))) 0 _ _ _ hzl]
        rw [zipIdx_map_eq_range_map _ 0, zipIdx_map_eq_range_map _ [], zipIdx_map_eq_range_map _ 0,
          hpl, List.length_map, hql]
        congr 1
        · congr 1
          · apply List.map_congr_left
            intro x hx
            simp only [List.mem_range] at hx
            simp only [zsM]
            rw [getD_range_map _ _ _ _ (by simp only [ndimM]; omega), axMulti_before hx]
            simp only [Bool.false_eq_true, if_false, hsh]
          · apply List.map_congr_left
            intro g hg
            simp only [List.mem_range] at hg
            simp only [zsM]
            rw [getD_range_map _ _ _ _ (by simp only [ndimM]; omega), axMulti_mid hg, Nat.add_sub_cancel_left]
            simp only [hsh]
        · apply List.map_congr_left
          intro j hj
          simp only [List.mem_range] at hj
          simp only [zsM]
          rw [getD_range_map _ _ _ _ (by simp only [ndimM]; omega), axMulti_after]
          simp only [Bool.false_eq_true, if_false, hsh]
      · intro p hp
        obtain ⟨ax, k⟩ := p
        have hm := List.mem_zipIdx hp
        simp only [Nat.zero_add, Nat.sub_zero] at hm
        simp only []
        have hlt : (giM a groups).position + groups.length + k < (newIdxM a groups).length := by
          rw [hN]; simp only [ndimM]; omega
        have h1 := blockShape?_getD hbase hlt
        rw [newIdxM_after hok hm.2.1] at h1
        have hax : (giM a groups).axesAfter.getD k 0 = ax := by
          rw [hm.2.2]; simp [List.getD_eq_getElem?_getD, List.getElem?_eq_getElem hm.2.1]
        rw [hax] at h1
        rw [h1]
        rfl
    · intro p hp
      obtain ⟨ss, g⟩ := p
      have hm := List.mem_zipIdx hp
      simp only [Nat.zero_add, Nat.sub_zero, List.length_map] at hm
      have hgl : g < groups.length := by rw [← hql]; exact hm.2.1
      have hsing : (giM a groups).singlets.contains g = !multiB groups g := by
        have := not_singlet_eq_multi (groups := groups) (duals := a.duals) hgl
        show (calcFuseGroupInfo groups a.duals).singlets.contains g = _
        rw [← this]; simp
      have hix : (newIdxM a groups).getD ((giM a groups).position + g) default = ixM a groups g := rfl
      simp only [hsing, hix]
      cases hmg : multiB groups g with
      | false =>
        simp only [Bool.not_false, if_true, Bool.false_eq_true, if_false]
        have hlt : (giM a groups).position + g < (newIdxM a groups).length := by
          rw [hN]; simp only [ndimM]; omega
        have h1 := blockShape?_getD hbase hlt
        rw [hix] at h1
        rw [h1]
        rfl
      | true =>
        simp only [Bool.not_true, Bool.false_eq_true, if_false, if_true]
        obtain ⟨gaxes, hgx, hlen⟩ := multiB_iff.1 hmg
        obtain ⟨e, D, _, he, _, _, _⟩ := stored_in_tableM hv hok hgx hlen hsb0
        have he' : alookup (extsM a groups g) ((planM a groups sb0).newSector.getD ((giM a groups).position + g) (0, 0))
            = some e := he
        rw [extentStart?_eq (ixM_sub hok hgx hlen) he']
        have hmem := choice_mem (planM a groups sb0).newSector groups.length 0 qs hqs g hgl (by rw [Nat.zero_add]; exact hmg)
        rw [Nat.zero_add] at hmem
        have hext : extM a groups (planM a groups sb0).newSector g = e := by simp only [extM, he', Option.getD_some]
        rw [hext] at hmem ⊢
        have hss : ss = (qs.getD g ([], 0)).1 := by
          have := hm.2.2
          simp only [List.getElem_map] at this
          rw [this]
          simp [List.getD_eq_getElem?_getD, List.getElem?_eq_getElem (hql ▸ hgl)]
        obtain ⟨st, d, hst⟩ := startOf_isSome_of_mem (ext := e) (ss := ss)
          (by rw [hss]; exact List.mem_map.2 ⟨_, hmem, rfl⟩)
        rw [hst]
        rfl
  · intro p hp
    obtain ⟨ax, k⟩ := p
    have hm := List.mem_zipIdx hp
    simp only [Nat.zero_add, Nat.sub_zero] at hm
    simp only []
    have hkp : k < (giM a groups).position := by
      have := hm.2.1; rwa [hpl] at this
    have hlt : k < (newIdxM a groups).length := by rw [hN]; simp only [ndimM]; omega
    have h1 := blockShape?_getD hbase hlt
    rw [newIdxM_before hok hkp] at h1
    have hax : ax = k := by
      rw [hm.2.2]
      simp [axesBefore_eq (hokD hok)]
    rw [hax, h1]
    rfl

theorem fuseConcat_multi_eq (hv : ValidArr a) (hok : GroupsOk groups a.ndim) (hne : groups ≠ []) :
    fuseConcat a.indices a.blocks (fuseInfoOf a groups) = .ok (concatBlocksM a groups) := by
  unfold fuseConcat
  have hfi : (fuseInfoOf a groups).blockmap = blockmapOf a groups := rfl
  have hgi : (fuseInfoOf a groups).gi = giM a groups := rfl
  have hni : (fuseInfoOf a groups).newIndices = newIdxM a groups := rfl
  obtain ⟨n', hn'⟩ : ∃ n', groups.length = n' + 1 := by
    cases groups with
    | nil => exact absurd rfl hne
    | cons g gs => exact ⟨gs.length, rfl⟩
  rw [foldlM_ok _ (fun acc sb => grpStep acc (toGItemM a groups sb))]
  · simp only [bind, Except.bind]
    rw [← List.foldl_map (f := toGItemM a groups) (g := grpStep)]
    show List.mapM _ (groupedM a groups) = _
    apply mapM_ok_of_forall
    intro p hp
    obtain ⟨ns, sub⟩ := p
    -- the new sector comes from a stored block
    show (do let b ← recurseConcat (fuseInfoOf a groups) sub ns (zeroShapeE a groups ns)
                (fuseInfoOf a groups).gi.numGroups 0 []
             pure (ns, b)) = _
    have hinv := groupedM_inv hv hok
    have hk : ns ∈ (a.blocks.map (toGItemM a groups)).map (·.1) :=
      (hinv.keys ns).1 (List.mem_map.2 ⟨_, hp, rfl⟩)
    simp only [List.map_map, List.mem_map, Function.comp] at hk
    obtain ⟨sb0, hsb0, hns⟩ := hk
    have hns' : (planM a groups sb0).newSector = ns := hns
    subst hns'
    have hext : ∀ g, g < groups.length → multiB groups g = true →
        (alookup (extsM a groups g) ((planM a groups sb0).newSector.getD ((giM a groups).position + g) (0, 0))).isSome
          = true := by
      intro g hg hm
      obtain ⟨gaxes, hgx, hlen⟩ := multiB_iff.1 hm
      obtain ⟨e, D, _, he, _, _, _⟩ := stored_in_tableM hv hok hgx hlen hsb0
      have he' : alookup (extsM a groups g)
          ((planM a groups sb0).newSector.getD ((giM a groups).position + g) (0, 0)) = some e := he
      rw [he']; rfl
    have hnum : (fuseInfoOf a groups).gi.numGroups = n' + 1 := hn'
    rw [hnum]
    have := recurse_eq hok sub (planM a groups sb0).newSector (zeroShapeE a groups (planM a groups sb0).newSector)
      (zsM a groups (planM a groups sb0).newSector) hext n' 0 [] (by omega) (by
        intro qs hqs
        rw [← hn'] at hqs
        simpa using zeroShape_ok hv hok hsb0 qs hqs)
    rw [this, hn']
    rfl
  · intro acc sb hsb
    obtain ⟨s, b⟩ := sb
    simp only []
    rw [hfi, alookup_blockmapM hv hsb, hgi]
    rfl

end

end FuseP
end SymmModel
