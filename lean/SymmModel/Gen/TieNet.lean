/-
  SymmModel.Gen.TieNet — translation tie (task S3) for `networks.parse_edges_to_site_info`.
  Not imported by SymmModel.lean; build with `lake build SymmModel.Gen.Tie`.
-/
import SymmModel.Gen.TieDict
import SymmModel.Model.Ham

namespace SymmModel.Gen
open SymmModel

/-! ### dicts with integer keys: keys, lookups, extensionality -/

abbrev keysOf {β : Type} (d : List (Int × β)) : List Int := d.map (·.1)

theorem get_none_of_not_mem {β : Type} (d : List (Int × β)) (k : Int) (h : k ∉ keysOf d) : pyDictGet d k = none := by
  induction d with
  | nil => rfl
  | cons p r ih =>
    obtain ⟨a, b⟩ := p
    simp only [keysOf, List.map_cons, List.mem_cons, not_or] at h
    have : (a == k) = false := by simpa using fun e => h.1 e.symm
    simp only [pyDictGet, this, Bool.false_eq_true, if_false]
    exact ih h.2

theorem get_isSome_of_mem {β : Type} (d : List (Int × β)) (k : Int) (h : k ∈ keysOf d) : (pyDictGet d k).isSome = true := by
  induction d with
  | nil => simp [keysOf] at h
  | cons p r ih =>
    obtain ⟨a, b⟩ := p
    by_cases e : (a == k) = true
    · simp [pyDictGet, e]
    · simp only [keysOf, List.map_cons, List.mem_cons] at h
      have e' : (a == k) = false := by simpa using e
      simp only [pyDictGet, e', Bool.false_eq_true, if_false]
      apply ih
      rcases h with h | h
      · exact absurd (by simpa using h.symm) e
      · exact h

theorem mem_keys_iff {β : Type} (d : List (Int × β)) (k : Int) : k ∈ keysOf d ↔ (pyDictGet d k).isSome = true := by
  constructor
  · exact get_isSome_of_mem d k
  · intro h
    by_cases m : k ∈ keysOf d
    · exact m
    · rw [get_none_of_not_mem d k m] at h; simp at h

theorem get_set {β : Type} (d : List (Int × β)) (k k' : Int) (v : β) :
    pyDictGet (pyDictSet d k v) k' = if k = k' then some v else pyDictGet d k' := by
  induction d with
  | nil => simp [pyDictSet, pyDictGet]
  | cons p r ih =>
    obtain ⟨a, b⟩ := p
    by_cases e : a = k
    · subst e
      by_cases e2 : a = k' <;> simp [pyDictSet, pyDictGet, e2]
    · have e' : (a == k) = false := by simpa using e
      simp only [pyDictSet, e', Bool.false_eq_true, if_false, pyDictGet, ih]
      by_cases e2 : a = k'
      · subst e2
        have : ¬ k = a := fun h => e h.symm
        simp [this]
      · have e2' : (a == k') = false := by simpa using e2
        simp [e2']

theorem keys_set {β : Type} (d : List (Int × β)) (k : Int) (v : β) :
    keysOf (pyDictSet d k v) = if k ∈ keysOf d then keysOf d else keysOf d ++ [k] := by
  induction d with
  | nil => simp [pyDictSet, keysOf]
  | cons p r ih =>
    obtain ⟨a, b⟩ := p
    by_cases e : a = k
    · subst e; simp [pyDictSet, keysOf]
    · have e' : (a == k) = false := by simpa using e
      have ne : ¬ k = a := fun h => e h.symm
      simp only [pyDictSet, e', Bool.false_eq_true, if_false, keysOf, List.map_cons, List.mem_cons, ne, false_or] at ih ⊢
      rw [ih]
      split <;> simp

theorem sd_eq {β : Type} (d : List (Int × β)) (k : Int) (v : β) :
    (pyDictSetdefault d k v).1 = if k ∈ keysOf d then d else pyDictSet d k v := by
  unfold pyDictSetdefault
  by_cases m : k ∈ keysOf d
  · have := get_isSome_of_mem d k m
    rw [if_pos m]
    cases h : pyDictGet d k with
    | none => rw [h] at this; simp at this
    | some x => rfl
  · rw [if_neg m, get_none_of_not_mem d k m]

theorem dict_ext {β : Type} : ∀ (d1 d2 : List (Int × β)), keysOf d1 = keysOf d2 → (keysOf d1).Nodup →
    (∀ k, pyDictGet d1 k = pyDictGet d2 k) → d1 = d2
  | [], [], _, _, _ => rfl
  | [], _ :: _, h, _, _ => by simp [keysOf] at h
  | _ :: _, [], h, _, _ => by simp [keysOf] at h
  | (a, b) :: r, (a', b') :: r', hk, hn, hg => by
    simp only [keysOf, List.map_cons, List.cons.injEq] at hk
    obtain ⟨ha, hr⟩ := hk
    subst ha
    simp only [keysOf, List.map_cons, List.nodup_cons] at hn
    have h0 := hg a
    simp only [pyDictGet, beq_self_eq_true, if_true, Option.some.injEq] at h0
    subst h0
    congr 1
    apply dict_ext r r' hr hn.2
    intro k
    by_cases e : a = k
    · subst e
      rw [get_none_of_not_mem r a hn.1, get_none_of_not_mem r' a (by rw [keysOf, ← hr]; exact hn.1)]
    · have := hg k
      have e' : (a == k) = false := by simpa using e
      simpa only [pyDictGet, e', Bool.false_eq_true, if_false] using this

theorem nodup_set {β : Type} (d : List (Int × β)) (k : Int) (v : β) (h : (keysOf d).Nodup) :
    (keysOf (pyDictSet d k v)).Nodup := by
  rw [keys_set]
  split
  · exact h
  · rename_i m
    rw [List.nodup_append]
    refine ⟨h, by simp, ?_⟩
    intro x hx y hy
    simp only [List.mem_singleton] at hy
    subst hy
    exact fun e => m (e ▸ hx)

theorem getItem_eq {β : Type} [Inhabited β] (d : List (Int × β)) (k : Int) :
    pyDictGetItem d k = (pyDictGet d k).getD default := rfl

/-! ### the bond loop -/

abbrev GD := List (Int × PySiteRec)

/-- `inds`, `duals`, `shape` each get one more entry (`setdefault(key, []).append(…)`, three times) -/
def appendLeg (r : PySiteRec) (n : PyName) (d s : Int) : PySiteRec :=
  { r with inds := some (r.inds.getD [] ++ [n]), duals := some (r.duals.getD [] ++ [d]),
           shape := some (r.shape.getD [] ++ [s]) }

/-- one end of a bond: the record of site `k` (created empty when absent) gets one more leg -/
def addLeg (G : GD) (k : Int) (n : PyName) (d s : Int) : GD :=
  pyDictSet G k (appendLeg ((pyDictGet G k).getD {}) n d s)

/-- the body of the generated bond loop (`for sitea, siteb in sorted(edges): …`), verbatim -/
def bondBody (bond_dim : Int) (bond_ind_id : String) (st0 : GD) (it0 : Int × Int) : GD :=
      let sites : (List (Int × PySiteRec)) := st0
      let (sitea, siteb) : (Int × Int) := it0
      let (sitea, siteb) : (Int × Int) :=
        if (decide (sitea > siteb)) then
          (let (sitea, siteb) : (Int × Int) := (siteb, sitea)
           (sitea, siteb))
        else
          ((sitea, siteb))
      let ind : PyName := (PyName.fmt bond_ind_id [sitea, siteb])
      let sites : (List (Int × PySiteRec)) := (pyDictSetdefault sites sitea ({} : PySiteRec)).1
      let sites : (List (Int × PySiteRec)) := (pyDictSetdefault sites siteb ({} : PySiteRec)).1
      let sites : (List (Int × PySiteRec)) := pyDictSet sites sitea (let r := pyDictGetItem sites sitea; { r with inds := some ((r.inds.getD []) ++ [ind]) })
      let sites : (List (Int × PySiteRec)) := pyDictSet sites siteb (let r := pyDictGetItem sites siteb; { r with inds := some ((r.inds.getD []) ++ [ind]) })
      let sites : (List (Int × PySiteRec)) := pyDictSet sites sitea (let r := pyDictGetItem sites sitea; { r with duals := some ((r.duals.getD []) ++ [(0 : Int)]) })
      let sites : (List (Int × PySiteRec)) := pyDictSet sites siteb (let r := pyDictGetItem sites siteb; { r with duals := some ((r.duals.getD []) ++ [(1 : Int)]) })
      let sites : (List (Int × PySiteRec)) := pyDictSet sites sitea (let r := pyDictGetItem sites sitea; { r with shape := some ((r.shape.getD []) ++ [bond_dim]) })
      let sites : (List (Int × PySiteRec)) := pyDictSet sites siteb (let r := pyDictGetItem sites siteb; { r with shape := some ((r.shape.getD []) ++ [bond_dim]) })
      sites

/-- the eight statements on the two (possibly equal) ends `A`, `B` -/
def bondCore (bond_dim : Int) (ind : PyName) (G : GD) (A B : Int) : GD :=
  let s1 := (pyDictSetdefault G A ({} : PySiteRec)).1
  let s2 := (pyDictSetdefault s1 B ({} : PySiteRec)).1
  let s3 := pyDictSet s2 A (let r := pyDictGetItem s2 A; { r with inds := some ((r.inds.getD []) ++ [ind]) })
  let s4 := pyDictSet s3 B (let r := pyDictGetItem s3 B; { r with inds := some ((r.inds.getD []) ++ [ind]) })
  let s5 := pyDictSet s4 A (let r := pyDictGetItem s4 A; { r with duals := some ((r.duals.getD []) ++ [(0 : Int)]) })
  let s6 := pyDictSet s5 B (let r := pyDictGetItem s5 B; { r with duals := some ((r.duals.getD []) ++ [(1 : Int)]) })
  let s7 := pyDictSet s6 A (let r := pyDictGetItem s6 A; { r with shape := some ((r.shape.getD []) ++ [bond_dim]) })
  pyDictSet s7 B (let r := pyDictGetItem s7 B; { r with shape := some ((r.shape.getD []) ++ [bond_dim]) })

theorem bondBody_core (bd : Int) (bid : String) (G : GD) (x y : Int) :
    bondBody bd bid G (x, y)
      = bondCore bd (PyName.fmt bid [if x > y then y else x, if x > y then x else y]) G
          (if x > y then y else x) (if x > y then x else y) := by
  unfold bondBody bondCore
  by_cases h : x > y <;> simp [h]

theorem default_rec : (default : PySiteRec) = {} := rfl

/-- `d[k] = f(d[k])` -/
def upd (d : GD) (k : Int) (f : PySiteRec → PySiteRec) : GD := pyDictSet d k (f (pyDictGetItem d k))

theorem keys_upd (d : GD) (k : Int) (f : PySiteRec → PySiteRec) (h : k ∈ keysOf d) : keysOf (upd d k f) = keysOf d := by
  unfold upd; rw [keys_set, if_pos h]

theorem get_upd (d : GD) (k k' : Int) (f : PySiteRec → PySiteRec) :
    pyDictGet (upd d k f) k' = if k = k' then some (f ((pyDictGet d k).getD {})) else pyDictGet d k' := by
  unfold upd; rw [get_set]; rfl

theorem mem_keys_sd (d : GD) (k k' : Int) (v : PySiteRec) :
    k' ∈ keysOf (pyDictSetdefault d k v).1 ↔ (k' = k ∨ k' ∈ keysOf d) := by
  rw [sd_eq]
  by_cases m : k ∈ keysOf d
  · rw [if_pos m]
    constructor
    · exact Or.inr
    · rintro (e | e)
      · exact e ▸ m
      · exact e
  · rw [if_neg m, keys_set, if_neg m]
    simp only [List.mem_append, List.mem_singleton]
    constructor
    · rintro (e | e)
      · exact Or.inr e
      · exact Or.inl e
    · rintro (e | e)
      · exact Or.inr e
      · exact Or.inl e

theorem nodup_sd (d : GD) (k : Int) (v : PySiteRec) (h : (keysOf d).Nodup) : (keysOf (pyDictSetdefault d k v).1).Nodup := by
  rw [sd_eq]
  split
  · exact h
  · exact nodup_set d k v h

theorem get_sd (d : GD) (k k' : Int) (v : PySiteRec) :
    pyDictGet (pyDictSetdefault d k v).1 k' = if k = k' ∧ k ∉ keysOf d then some v else pyDictGet d k' := by
  rw [sd_eq]
  by_cases m : k ∈ keysOf d
  · rw [if_pos m, if_neg (fun h => h.2 m)]
  · rw [if_neg m, get_set]
    by_cases e : k = k'
    · rw [if_pos e, if_pos ⟨e, m⟩]
    · rw [if_neg e, if_neg (fun h => e h.1)]

def fInds (ind : PyName) (r : PySiteRec) : PySiteRec := { r with inds := some ((r.inds.getD []) ++ [ind]) }
def fDuals (d : Int) (r : PySiteRec) : PySiteRec := { r with duals := some ((r.duals.getD []) ++ [d]) }
def fShape (s : Int) (r : PySiteRec) : PySiteRec := { r with shape := some ((r.shape.getD []) ++ [s]) }

/-- the six in-place statements after the two `setdefault`s, on a dict that has both keys -/
theorem chain_eq (bd : Int) (ind : PyName) (H : GD) (A B : Int) (hA : A ∈ keysOf H) (hB : B ∈ keysOf H)
    (hn : (keysOf H).Nodup) :
    upd (upd (upd (upd (upd (upd H A (fInds ind)) B (fInds ind)) A (fDuals 0)) B (fDuals 1)) A (fShape bd)) B (fShape bd)
      = upd (upd H A (fun r => appendLeg r ind 0 bd)) B (fun r => appendLeg r ind 1 bd) := by
  have k1 := keys_upd H A (fInds ind) hA
  have k2 := keys_upd _ B (fInds ind) (k1 ▸ hB)
  have k3 := keys_upd _ A (fDuals 0) (k2 ▸ k1 ▸ hA)
  have k4 := keys_upd _ B (fDuals 1) (k3 ▸ k2 ▸ k1 ▸ hB)
  have k5 := keys_upd _ A (fShape bd) (k4 ▸ k3 ▸ k2 ▸ k1 ▸ hA)
  have k6 := keys_upd _ B (fShape bd) (k5 ▸ k4 ▸ k3 ▸ k2 ▸ k1 ▸ hB)
  have j1 := keys_upd H A (fun r => appendLeg r ind 0 bd) hA
  have j2 := keys_upd _ B (fun r => appendLeg r ind 1 bd) (j1 ▸ hB)
  apply dict_ext
  · rw [k6, k5, k4, k3, k2, k1, j2, j1]
  · rw [k6, k5, k4, k3, k2, k1]; exact hn
  · intro k
    simp only [get_upd]
    by_cases hAB : A = B
    · subst hAB
      by_cases hk : A = k
      · subst hk
        simp only [if_true, Option.getD_some]
        cases h : pyDictGet H A with
        | none => simp [fInds, fDuals, fShape, appendLeg]
        | some r => simp [fInds, fDuals, fShape, appendLeg]
      · simp only [hk, if_false]
    · have hBA : ¬ B = A := fun e => hAB e.symm
      by_cases hk : A = k
      · subst hk
        simp only [hBA, hAB, if_true, if_false, Option.getD_some]
        cases h : pyDictGet H A with
        | none => simp [fInds, fDuals, fShape, appendLeg]
        | some r => simp [fInds, fDuals, fShape, appendLeg]
      · by_cases hk2 : B = k
        · subst hk2
          simp only [hBA, hAB, if_true, if_false, Option.getD_some]
          cases h : pyDictGet H B with
          | none => simp [fInds, fDuals, fShape, appendLeg]
          | some r => simp [fInds, fDuals, fShape, appendLeg]
        · simp only [hk, hk2, if_false]

theorem set_set_same {β : Type} (d : List (Int × β)) (k : Int) (v w : β) :
    pyDictSet (pyDictSet d k v) k w = pyDictSet d k w := by
  induction d with
  | nil => simp [pyDictSet]
  | cons p r ih =>
    obtain ⟨a, b⟩ := p
    by_cases e : (a == k) = true
    · simp [pyDictSet, e]
    · simp [pyDictSet, e, ih]

theorem get_set_same {β : Type} (d : List (Int × β)) (k : Int) (v : β) : pyDictGet (pyDictSet d k v) k = some v := by
  rw [get_set, if_pos rfl]

/-- `addLeg` = `setdefault(k, {})`, then the three appends on the record -/
theorem addLeg_eq (G : GD) (k : Int) (n : PyName) (d s : Int) :
    addLeg G k n d s = upd (pyDictSetdefault G k ({} : PySiteRec)).1 k (fun r => appendLeg r n d s) := by
  unfold addLeg upd
  rw [sd_eq, getItem_eq]
  by_cases m : k ∈ keysOf G
  · rw [if_pos m]; rfl
  · rw [if_neg m, get_set_same, set_set_same, get_none_of_not_mem G k m]; rfl

/-- a `setdefault` on another key commutes with an in-place update of a present key -/
theorem sd_upd_comm (d : GD) (A B : Int) (f : PySiteRec → PySiteRec) (hA : A ∈ keysOf d) (hn : (keysOf d).Nodup) :
    (pyDictSetdefault (upd d A f) B ({} : PySiteRec)).1 = upd (pyDictSetdefault d B ({} : PySiteRec)).1 A f := by
  have hA' : A ∈ keysOf (pyDictSetdefault d B ({} : PySiteRec)).1 := (mem_keys_sd d B A {}).2 (Or.inr hA)
  apply dict_ext
  · rw [keys_upd _ _ _ hA']
    rw [sd_eq, sd_eq, keys_upd _ _ _ hA]
    by_cases m : B ∈ keysOf d
    · rw [if_pos m, if_pos m, keys_upd _ _ _ hA]
    · rw [if_neg m, if_neg m, keys_set, keys_set, keys_upd _ _ _ hA]
  · apply nodup_sd
    rw [keys_upd _ _ _ hA]; exact hn
  · intro k
    rw [get_sd, get_upd, get_upd, get_sd, get_sd, keys_upd _ _ _ hA]
    by_cases e1 : A = k
    · subst e1
      by_cases e2 : B = A
      · subst e2; simp [hA]
      · simp [e2]
    · simp [e1]

theorem bondCore_chain (bd : Int) (ind : PyName) (G : GD) (A B : Int) :
    bondCore bd ind G A B
      = upd (upd (upd (upd (upd (upd (pyDictSetdefault (pyDictSetdefault G A ({} : PySiteRec)).1 B ({} : PySiteRec)).1
          A (fInds ind)) B (fInds ind)) A (fDuals 0)) B (fDuals 1)) A (fShape bd)) B (fShape bd) := rfl

/-- eight interleaved statements = one leg at `A`, then one leg at `B` (also when `A = B`: a self-loop) -/
theorem bondCore_eq (bd : Int) (ind : PyName) (G : GD) (A B : Int) (hn : (keysOf G).Nodup) :
    bondCore bd ind G A B = addLeg (addLeg G A ind 0 bd) B ind 1 bd := by
  have hA1 : A ∈ keysOf (pyDictSetdefault G A ({} : PySiteRec)).1 := (mem_keys_sd G A A {}).2 (Or.inl rfl)
  have hn1 := nodup_sd G A {} hn
  have hA2 : A ∈ keysOf (pyDictSetdefault (pyDictSetdefault G A ({} : PySiteRec)).1 B ({} : PySiteRec)).1 :=
    (mem_keys_sd _ B A {}).2 (Or.inr hA1)
  have hB2 : B ∈ keysOf (pyDictSetdefault (pyDictSetdefault G A ({} : PySiteRec)).1 B ({} : PySiteRec)).1 :=
    (mem_keys_sd _ B B {}).2 (Or.inl rfl)
  have hn2 := nodup_sd _ B {} hn1
  rw [bondCore_chain, chain_eq bd ind _ A B hA2 hB2 hn2, addLeg_eq, addLeg_eq, sd_upd_comm _ A B _ hA1 hn1]

theorem nodup_addLeg (G : GD) (k : Int) (n : PyName) (d s : Int) (h : (keysOf G).Nodup) :
    (keysOf (addLeg G k n d s)).Nodup := nodup_set _ _ _ h

/-! ### the model's bond table in the vocabulary of the translation -/

/-- the formatted name of a model leg -/
def legName (bid sid : String) : IndName → PyName
  | .bond a b => .fmt bid [Int.ofNat a, Int.ofNat b]
  | .phys v => .fmt sid [Int.ofNat v]

/-- the three parallel lists of a leg list -/
def recOfLegs (bid sid : String) (legs : List Leg) : PySiteRec :=
  { inds := some (legs.map (fun l => legName bid sid l.name)),
    duals := some (legs.map (fun l => Int.ofNat l.dual)),
    shape := some (legs.map (fun l => Int.ofNat l.dim)) }

def castBonds (bid sid : String) (acc : List (Site × List Leg)) : GD :=
  acc.map (fun p => (Int.ofNat p.1, recOfLegs bid sid p.2))

theorem appendLeg_rec (bid sid : String) (legs : List Leg) (l : Leg) :
    appendLeg (recOfLegs bid sid legs) (legName bid sid l.name) (Int.ofNat l.dual) (Int.ofNat l.dim)
      = recOfLegs bid sid (legs ++ [l]) := by
  simp [appendLeg, recOfLegs]

theorem appendLeg_empty (bid sid : String) (l : Leg) :
    appendLeg {} (legName bid sid l.name) (Int.ofNat l.dual) (Int.ofNat l.dim) = recOfLegs bid sid [l] := by
  simp [appendLeg, recOfLegs]

theorem addLeg_cast (bid sid : String) (acc : List (Site × List Leg)) (a : Site) (l : Leg) :
    addLeg (castBonds bid sid acc) (Int.ofNat a) (legName bid sid l.name) (Int.ofNat l.dual) (Int.ofNat l.dim)
      = castBonds bid sid (ainsert acc a ((alookup acc a).getD [] ++ [l])) := by
  unfold addLeg
  induction acc with
  | nil =>
    simp [castBonds, pyDictGet, pyDictSet, alookup, ainsert]
    exact appendLeg_empty bid sid l
  | cons p r ih =>
    obtain ⟨k, legs⟩ := p
    by_cases e : k = a
    · subst e
      simp [castBonds, pyDictGet, pyDictSet, alookup, ainsert]
      exact appendLeg_rec bid sid legs l
    · have e1 : (k == a) = false := by simpa using e
      have e2 : (Int.ofNat k == Int.ofNat a) = false := by
        simp only [beq_eq_false_iff_ne, ne_eq, Int.ofNat_eq_natCast, Int.natCast_inj]; exact e
      simp only [castBonds, List.map_cons, pyDictGet, e2, Bool.false_eq_true, if_false, pyDictSet, alookup, e1, ainsert,
        List.cons.injEq, true_and] at ih ⊢
      exact ih

theorem nodup_castBonds_step (bid sid : String) (G : GD) (h : (keysOf G).Nodup) (A B : Int) (n : PyName) (bd : Int) :
    (keysOf (addLeg (addLeg G A n 0 bd) B n 1 bd)).Nodup :=
  nodup_addLeg _ _ _ _ _ (nodup_addLeg _ _ _ _ _ h)

/-- one pass of the generated bond loop on the model's table = the model's `parseStep` -/
theorem bondBody_cast (bid sid : String) (bd : Nat) (acc : List (Site × List Leg)) (x y : Nat)
    (hn : (keysOf (castBonds bid sid acc)).Nodup) :
    bondBody (Int.ofNat bd) bid (castBonds bid sid acc) (Int.ofNat x, Int.ofNat y)
      = castBonds bid sid (parseStep bd acc (x, y)) := by
  rw [bondBody_core, bondCore_eq _ _ _ _ _ hn]
  have ha : (if Int.ofNat x > Int.ofNat y then Int.ofNat y else Int.ofNat x) = Int.ofNat (if x > y then y else x) := by
    by_cases h : x > y
    · have : Int.ofNat x > Int.ofNat y := by simp only [Int.ofNat_eq_natCast]; omega
      rw [if_pos h, if_pos this]
    · have : ¬ Int.ofNat x > Int.ofNat y := by simp only [Int.ofNat_eq_natCast]; omega
      rw [if_neg h, if_neg this]
  have hb : (if Int.ofNat x > Int.ofNat y then Int.ofNat x else Int.ofNat y) = Int.ofNat (if x > y then x else y) := by
    by_cases h : x > y
    · have : Int.ofNat x > Int.ofNat y := by simp only [Int.ofNat_eq_natCast]; omega
      rw [if_pos h, if_pos this]
    · have : ¬ Int.ofNat x > Int.ofNat y := by simp only [Int.ofNat_eq_natCast]; omega
      rw [if_neg h, if_neg this]
  rw [ha, hb]
  simp only [parseStep]
  generalize (if x > y then y else x) = a
  generalize (if x > y then x else y) = b
  have e1 := addLeg_cast bid sid acc a ⟨.bond a b, 0, bd⟩
  have e2 := addLeg_cast bid sid (ainsert acc a ((alookup acc a).getD [] ++ [⟨.bond a b, 0, bd⟩])) b ⟨.bond a b, 1, bd⟩
  simp only [legName] at e1 e2
  show addLeg (addLeg _ _ _ (Int.ofNat 0) _) _ _ (Int.ofNat 1) _ = _
  rw [e1, e2]

theorem bond_fold (bid sid : String) (bd : Nat) (es : List Edge) (acc : List (Site × List Leg))
    (hn : (keysOf (castBonds bid sid acc)).Nodup) :
    (es.map (fun (e : Edge) => (Int.ofNat e.1, Int.ofNat e.2))).foldl (bondBody (Int.ofNat bd) bid) (castBonds bid sid acc)
      = castBonds bid sid (es.foldl (parseStep bd) acc)
    ∧ (keysOf (castBonds bid sid (es.foldl (parseStep bd) acc))).Nodup := by
  induction es generalizing acc with
  | nil => exact ⟨rfl, hn⟩
  | cons e es ih =>
    obtain ⟨x, y⟩ := e
    rw [List.map_cons, List.foldl_cons, List.foldl_cons, bondBody_cast bid sid bd acc x y hn]
    apply ih
    rw [← bondBody_cast bid sid bd acc x y hn, bondBody_core, bondCore_eq _ _ _ _ _ hn]
    exact nodup_castBonds_step bid sid _ hn _ _ _ _

/-! ### `sorted(edges)` -/

theorem pyInsertByLex_map {α β : Type} (f : α → β) (key : β → Int × Int) (lt : α → α → Bool)
    (hk : ∀ i j, pyLexLt (key (f i)) (key (f j)) = lt i j) (a : α) (l : List α) :
    pyInsertByLex key (f a) (l.map f) = (insertSorted lt a l).map f := by
  induction l with
  | nil => rfl
  | cons b bs ih =>
    rw [List.map_cons, pyInsertByLex, insertSorted, hk b a]
    by_cases h : lt b a = true
    · rw [if_pos h, if_pos h, ih]; rfl
    · rw [if_neg h, if_neg h]; rfl

theorem pySortedByLex_map {α β : Type} (f : α → β) (key : β → Int × Int) (lt : α → α → Bool)
    (hk : ∀ i j, pyLexLt (key (f i)) (key (f j)) = lt i j) (l : List α) :
    pySortedByLex key (l.map f) = (isort lt l).map f := by
  induction l with
  | nil => rfl
  | cons a as ih => rw [List.map_cons, pySortedByLex, ih, pyInsertByLex_map f key lt hk, isort]

def castEdge (e : Edge) : Int × Int := (Int.ofNat e.1, Int.ofNat e.2)

theorem edge_key (x y : Edge) : pyLexLt (castEdge x) (castEdge y) = edgeLt x y := by
  unfold pyLexLt edgeLt castEdge
  simp only [Int.ofNat_eq_natCast]
  congr 1
  · simp only [decide_eq_decide]; exact Int.ofNat_lt
  · congr 1
    · by_cases h : x.1 = y.1
      · rw [h]; simp
      · have h1 : ((x.1 : Int) == (y.1 : Int)) = false := by
          simp only [beq_eq_false_iff_ne, ne_eq, Int.natCast_inj]; exact h
        have h2 : (x.1 == y.1) = false := by simpa using h
        rw [h1, h2]
    · simp only [decide_eq_decide]; exact Int.ofNat_lt

theorem sorted_edges (edges : List Edge) :
    pySortedByLex (fun (x : Int × Int) => x) (edges.map castEdge) = (isort edgeLt edges).map castEdge :=
  pySortedByLex_map castEdge (fun x => x) edgeLt edge_key edges

/-! ### the loop over the sites -/

theorem upd_upd (d : GD) (k : Int) (f g : PySiteRec → PySiteRec) :
    upd (upd d k f) k g = upd d k (fun r => g (f r)) := by
  unfold upd
  rw [set_set_same, getItem_eq, get_set_same]
  rfl

/-- the body of the generated loop `for site in sites:`, verbatim (the two `starmap` flags as parameters) -/
def physBody (phys_dim : Option Int) (site_ind_id site_tag_id : String) (starmap_ind starmap_tag : Bool)
    (st1 : GD) (it1 : Int) : GD :=
      let sites : (List (Int × PySiteRec)) := st1
      let site : Int := it1
      let sites : (List (Int × PySiteRec)) := pyDictSet sites site (let r := pyDictGetItem sites site; { r with coordination := some ((pyLen ((pyDictGetItem sites site).inds.getD default))) })
      let site_tag : PyName :=
        if starmap_tag then
          (let site_tag : PyName := (PyName.fmtStar site_tag_id site)
           site_tag)
        else
          (let site_tag : PyName := (PyName.fmt site_tag_id [site])
           site_tag)
      let sites : (List (Int × PySiteRec)) := pyDictSet sites site (let r := pyDictGetItem sites site; { r with tags := some ([site_tag]) })
      let sites : (List (Int × PySiteRec)) :=
        match phys_dim with
        | none => sites
        | some phys_dim =>
          (let site_ind : PyName :=
             if starmap_ind then
               (let site_ind : PyName := (PyName.fmtStar site_ind_id site)
                site_ind)
             else
               (let site_ind : PyName := (PyName.fmt site_ind_id [site])
                site_ind)
           let sites : (List (Int × PySiteRec)) := pyDictSet sites site (let r := pyDictGetItem sites site; { r with inds := some ((r.inds.getD default) ++ [site_ind]) })
           let sites : (List (Int × PySiteRec)) := pyDictSet sites site (let r := pyDictGetItem sites site; { r with duals := some ((r.duals.getD default) ++ [(0 : Int)]) })
           let sites : (List (Int × PySiteRec)) := pyDictSet sites site (let r := pyDictGetItem sites site; { r with shape := some ((r.shape.getD default) ++ [phys_dim]) })
           sites)
      sites

/-- what the loop over the sites does to the record of `site` -/
def finish (phys_dim : Option Int) (sid tid : String) (si st : Bool) (site : Int) (r : PySiteRec) : PySiteRec :=
  let r1 : PySiteRec := { r with coordination := some (pyLen (r.inds.getD default)) }
  let r2 : PySiteRec := { r1 with tags := some [if st then PyName.fmtStar tid site else PyName.fmt tid [site]] }
  match phys_dim with
  | none => r2
  | some p =>
    { r2 with inds := some ((r2.inds.getD default) ++ [if si then PyName.fmtStar sid site else PyName.fmt sid [site]]),
              duals := some ((r2.duals.getD default) ++ [(0 : Int)]),
              shape := some ((r2.shape.getD default) ++ [p]) }

def gC (r : PySiteRec) : PySiteRec := { r with coordination := some (pyLen (r.inds.getD default)) }
def gT (t : PyName) (r : PySiteRec) : PySiteRec := { r with tags := some [t] }
def gI (n : PyName) (r : PySiteRec) : PySiteRec := { r with inds := some ((r.inds.getD default) ++ [n]) }
def gD (r : PySiteRec) : PySiteRec := { r with duals := some ((r.duals.getD default) ++ [(0 : Int)]) }
def gS (p : Int) (r : PySiteRec) : PySiteRec := { r with shape := some ((r.shape.getD default) ++ [p]) }

theorem physBody_eq (pd : Option Int) (sid tid : String) (si st : Bool) (d : GD) (k : Int) :
    physBody pd sid tid si st d k = upd d k (finish pd sid tid si st k) := by
  cases pd with
  | none =>
    have e : physBody none sid tid si st d k
        = upd (upd d k gC) k (gT (if st then PyName.fmtStar tid k else PyName.fmt tid [k])) := by
      cases st <;> rfl
    rw [e, upd_upd]
    rfl
  | some p =>
    have e : physBody (some p) sid tid si st d k
        = upd (upd (upd (upd (upd d k gC) k (gT (if st then PyName.fmtStar tid k else PyName.fmt tid [k]))) k
            (gI (if si then PyName.fmtStar sid k else PyName.fmt sid [k]))) k gD) k (gS p) := by
      cases st <;> cases si <;> rfl
    rw [e, upd_upd, upd_upd, upd_upd, upd_upd]
    rfl

theorem upd_mid (pre rs : GD) (k : Int) (r : PySiteRec) (f : PySiteRec → PySiteRec) (h : k ∉ keysOf pre) :
    upd (pre ++ (k, r) :: rs) k f = pre ++ (k, f r) :: rs := by
  unfold upd
  induction pre with
  | nil => simp [pyDictSet, pyDictGetItem, pyDictGet]
  | cons p ps ih =>
    obtain ⟨a, b⟩ := p
    simp only [keysOf, List.map_cons, List.mem_cons, not_or] at h
    have e : (a == k) = false := by simpa using fun e => h.1 e.symm
    have ih' := ih h.2
    simp only [List.cons_append, pyDictSet, e, Bool.false_eq_true, if_false, pyDictGetItem, pyDictGet] at ih' ⊢
    rw [ih']

theorem site_fold (F : Int → PySiteRec → PySiteRec) : ∀ (rest pre : GD),
    (∀ k ∈ keysOf rest, k ∉ keysOf pre) → (keysOf rest).Nodup →
    (keysOf rest).foldl (fun d k => upd d k (F k)) (pre ++ rest) = pre ++ rest.map (fun p => (p.1, F p.1 p.2))
  | [], pre, _, _ => by simp [keysOf]
  | (k, r) :: rs, pre, hd, hn => by
    simp only [keysOf, List.map_cons, List.foldl_cons]
    rw [upd_mid pre rs k r (F k) (hd k (by simp [keysOf]))]
    simp only [keysOf, List.map_cons, List.nodup_cons] at hn
    have := site_fold F rs (pre ++ [(k, F k r)]) (by
      intro k' hk'
      simp only [keysOf, List.map_append, List.map_cons, List.map_nil, List.mem_append, List.mem_singleton, not_or]
      refine ⟨hd k' (by simp only [keysOf, List.map_cons, List.mem_cons]; exact Or.inr hk'), ?_⟩
      intro e
      exact hn.1 (e ▸ hk')) hn.2
    simp only [List.append_assoc, List.cons_append, List.nil_append] at this
    exact this

theorem site_loop (pd : Option Int) (sid tid : String) (si st : Bool) (d : GD) (hn : (keysOf d).Nodup) :
    (d.map (fun p => p.1)).foldl (physBody pd sid tid si st) d
      = d.map (fun p => (p.1, finish pd sid tid si st p.1 p.2)) := by
  have h := site_fold (finish pd sid tid si st) d [] (by simp [keysOf]) hn
  simp only [List.nil_append] at h
  rw [← h]
  congr 1
  funext d k
  exact physBody_eq pd sid tid si st d k

/-! ### the whole function -/

/-- the generated function IS: the two flags, the bond loop over `sorted(edges)`, the loop over the sites -/
theorem parse_unfold (edges : List (Int × Int)) (bd : Int) (pd : Option Int) (sid bid tid : String) :
    parse_edges_to_site_info edges bd pd sid bid tid
      = let G := (pySortedByLex (fun (x : Int × Int) => x) edges).foldl (bondBody bd bid) []
        (G.map (fun p => p.1)).foldl
          (physBody pd sid tid (decide (pyStrCount sid "{}" > 1)) (decide (pyStrCount tid "{}" > 1))) G := rfl

/-- the model's site record in the vocabulary of the translation -/
def recOfInfo (bid sid tid : String) (i : SiteInfo) : PySiteRec :=
  { inds := some (i.legs.map (fun l => legName bid sid l.name)),
    duals := some (i.legs.map (fun l => Int.ofNat l.dual)),
    shape := some (i.legs.map (fun l => Int.ofNat l.dim)),
    coordination := some (Int.ofNat i.coordination),
    tags := some [PyName.fmt tid [Int.ofNat i.tag]] }

theorem finish_rec (pd : Option Nat) (bid sid tid : String) (v : Site) (legs : List Leg) :
    finish (pd.map Int.ofNat) sid tid false false (Int.ofNat v) (recOfLegs bid sid legs)
      = recOfInfo bid sid tid { legs := legs ++ physLegs pd v, coordination := legs.length, tag := v } := by
  cases pd with
  | none => simp [finish, recOfLegs, recOfInfo, physLegs, pyLen]
  | some p => simp [finish, recOfLegs, recOfInfo, physLegs, pyLen, legName]

/-- THE TIE: `parse_edges_to_site_info(edges, bond_dim, phys_dim, site_ind_id, bond_ind_id, site_tag_id)` as generated =
    the model's `parseEdges`, for all edge lists over natural-number sites (self-loops and repeated edges included), every
    bond dimension, `phys_dim` an int or None, and all templates with at most one `{}` in the site templates (the
    defaults "k{}", "I{}": `example`s below); sites in dict order, the three parallel lists, coordination, tag -/
theorem parse_edges_to_site_info_eq (edges : List Edge) (bd : Nat) (pd : Option Nat) (sid bid tid : String)
    (h1 : ¬ pyStrCount sid "{}" > 1) (h2 : ¬ pyStrCount tid "{}" > 1) :
    parse_edges_to_site_info (edges.map castEdge) (Int.ofNat bd) (pd.map Int.ofNat) sid bid tid
      = (parseEdges edges bd pd).map (fun p => (Int.ofNat p.1, recOfInfo bid sid tid p.2)) := by
  rw [parse_unfold]
  have d1 : decide (pyStrCount sid "{}" > 1) = false := by simpa using h1
  have d2 : decide (pyStrCount tid "{}" > 1) = false := by simpa using h2
  simp only [d1, d2]
  rw [sorted_edges]
  have hb := bond_fold bid sid bd (isort edgeLt edges) [] (by simp [castBonds, keysOf])
  have hb1 : ((isort edgeLt edges).map castEdge).foldl (bondBody (Int.ofNat bd) bid) []
      = castBonds bid sid (parseBonds bd edges) := hb.1
  have hn : (keysOf (castBonds bid sid (parseBonds bd edges))).Nodup := hb.2
  simp only [hb1]
  rw [site_loop _ _ _ _ _ _ hn]
  unfold parseEdges castBonds
  simp only [List.map_map]
  apply List.map_congr_left
  intro p _
  simp only [Function.comp, finish_rec]

example : ¬ pyStrCount parse_edges_to_site_info.default_site_ind_id "{}" > 1 := by decide
example : ¬ pyStrCount parse_edges_to_site_info.default_site_tag_id "{}" > 1 := by decide

end SymmModel.Gen
