/-
  SymmModel.Gen.TieUtil — the translation tie for the small integer helpers
  (`linalg.argsort`, used by `calc_sub_max_bonds` of C13; `abelian_core.permuted`, `without`,
  `accum_for_split`).  The generated definitions (Gen/Src.lean, regenerated from the source on every
  run) equal the model functions `argsortNat` (Model/Trunc.lean), `permuted`, `without`, `offsets`
  (Model/Basic.lean) for ALL lists of naturals (positions / sizes are naturals in the model).

  `accum_for_split_eq`: the generated loop returns `[(a₀, a₀+d₀), (a₀+d₀, a₀+d₀+d₁), …]` from `a₀ = 0`
  (`accFrom`), whose starts are the model's `offsets` (`accum_for_split_starts`).

  `calc_sub_max_bonds` itself is NOT translated: it computes `max_bond / sum(sizes)` and
  `int(frac * sz)` in floating point (see the report of harness/translate.py).

  Not imported by SymmModel.lean; build with `lake build SymmModel.Gen.Tie`.
-/
import SymmModel.Gen.PyLemmas
import SymmModel.Model.Trunc

namespace SymmModel.Gen
open SymmModel

/-! ### `argsort` -/

theorem pyInsertBy_map {α β : Type} (f : α → β) (key : β → Int) (lt : α → α → Bool)
    (hk : ∀ i j, decide (key (f i) < key (f j)) = lt i j) (a : α) (l : List α) :
    pyInsertBy key (f a) (l.map f) = (insertSorted lt a l).map f := by
  induction l with
  | nil => rfl
  | cons b bs ih =>
    rw [List.map_cons, pyInsertBy, insertSorted, ← hk b a]
    by_cases h : key (f b) < key (f a)
    · rw [if_pos h, if_pos (by simpa using h), ih]; rfl
    · rw [if_neg h, if_neg (by simpa using h)]; rfl

theorem pySortedBy_map {α β : Type} (f : α → β) (key : β → Int) (lt : α → α → Bool)
    (hk : ∀ i j, decide (key (f i) < key (f j)) = lt i j) (l : List α) :
    pySortedBy key (l.map f) = (isort lt l).map f := by
  induction l with
  | nil => rfl
  | cons a as ih => rw [List.map_cons, pySortedBy, ih, pyInsertBy_map f key lt hk, isort]

/-- `argsort(seq)` (stable, by value) as generated = the model's `argsortNat` -/
theorem argsort_eq (l : List Nat) :
    argsort (l.map Int.ofNat) = (argsortNat l).map Int.ofNat := by
  unfold argsort argsortNat
  have hl : pyLen (l.map Int.ofNat) = Int.ofNat l.length := by simp [pyLen]
  rw [hl, pyRange_ofNat]
  apply pySortedBy_map
  intro i j
  rw [pyGet_ofNat, pyGet_ofNat]
  show decide ((l.map Int.ofNat).getD i 0 < (l.map Int.ofNat).getD j 0) = _
  rw [getD_map_ofNat, getD_map_ofNat]
  simp

example : argsort [3, 1, 2, 1] = [1, 3, 2, 0] := by decide

/-! ### `permuted`, `without` -/

/-- `permuted(it, perm)` for in-range positions (Python raises IndexError otherwise; the model drops) -/
theorem permuted_eq {α : Type} [Inhabited α] (l : List α) (perm : List Nat)
    (h : ∀ p ∈ perm, p < l.length) :
    Gen.permuted l (perm.map Int.ofNat) = SymmModel.permuted l perm := by
  unfold Gen.permuted SymmModel.permuted
  induction perm with
  | nil => rfl
  | cons p ps ih =>
    have hp : p < l.length := h p (List.mem_cons_self ..)
    rw [List.map_cons, List.map_cons, ih (fun q hq => h q (List.mem_cons_of_mem _ hq)),
      List.filterMap_cons, pyGet_ofNat]
    simp [List.getD_eq_getElem?_getD, List.getElem?_eq_getElem hp]

example : ∀ p ∈ [3, 1, 0, 2], p < ([10, 20, 30, 40] : List Int).length := by decide

/-- `without(it, remove)` -/
theorem without_eq {α : Type} [Inhabited α] (l : List α) (remove : List Nat) :
    Gen.without l (remove.map Int.ofNat) = SymmModel.without l remove := by
  unfold Gen.without SymmModel.without pyEnumerate
  rw [List.filter_map, List.map_map]
  have e1 : ((fun (x : Int × α) => match x with | (i, el) => !(remove.map Int.ofNat).contains i)
      ∘ fun (p : α × Nat) => (Int.ofNat p.2, p.1)) = fun p => !remove.contains p.2 := by
    funext p
    simp only [Function.comp]
    rw [contains_map_ofNat]
  have e2 : ((fun (x : Int × α) => match x with | (i, el) => el)
      ∘ fun (p : α × Nat) => (Int.ofNat p.2, p.1)) = fun p => p.1 := by
    funext p; rfl
  rw [e1, e2]

/-! ### `accum_for_split` (slices as pairs `(start, stop)`) -/

theorem pyGet_last (xs : List Int) (a : Int) : pyGet (xs ++ [a]) (-1) = a := by
  unfold pyGet
  have h1 : ¬ (0 : Int) ≤ -1 := by omega
  have h2 : (0 : Int) ≤ -1 + Int.ofNat (xs ++ [a]).length := by
    simp only [List.length_append, List.length_cons, List.length_nil, Int.ofNat_eq_natCast]; omega
  rw [if_neg h1, if_pos h2]
  have e : (-1 + Int.ofNat (xs ++ [a]).length).toNat = xs.length := by
    simp only [List.length_append, List.length_cons, List.length_nil, Int.ofNat_eq_natCast]; omega
  rw [e]
  simp [List.getD_eq_getElem?_getD]

theorem pyGet_last2 (xs : List Int) (a b : Int) : pyGet (xs ++ [a] ++ [b]) (-2) = a := by
  unfold pyGet
  have h1 : ¬ (0 : Int) ≤ -2 := by omega
  have h2 : (0 : Int) ≤ -2 + Int.ofNat (xs ++ [a] ++ [b]).length := by
    simp only [List.length_append, List.length_cons, List.length_nil, Int.ofNat_eq_natCast]; omega
  rw [if_neg h1, if_pos h2]
  have e : (-2 + Int.ofNat (xs ++ [a] ++ [b]).length).toNat = xs.length := by
    simp only [List.length_append, List.length_cons, List.length_nil, Int.ofNat_eq_natCast]; omega
  rw [e]
  simp [List.getD_eq_getElem?_getD]

/-- the partitions `[(a, a + d₀), (a + d₀, a + d₀ + d₁), …]` -/
def accFrom (a : Int) : List Int → List (Int × Int)
  | [] => []
  | d :: ds => (a, a + d) :: accFrom (a + d) ds

def stepA (st : List Int × List (Int × Int)) (size : Int) : List Int × List (Int × Int) :=
  (st.1 ++ [pyGet st.1 (-1) + size],
   st.2 ++ [(pyGet (st.1 ++ [pyGet st.1 (-1) + size]) (-2), pyGet (st.1 ++ [pyGet st.1 (-1) + size]) (-1))])

theorem accum_unfold (sizes : List Int) : accum_for_split sizes = (sizes.foldl stepA ([0], [])).2 := rfl

theorem fold_stepA (l : List Int) (xs : List Int) (a : Int) (s : List (Int × Int)) :
    (l.foldl stepA (xs ++ [a], s)).2 = s ++ accFrom a l := by
  induction l generalizing xs a s with
  | nil => simp [accFrom]
  | cons d ds ih =>
    rw [List.foldl_cons]
    have hs : stepA (xs ++ [a], s) d = ((xs ++ [a]) ++ [a + d], s ++ [(a, a + d)]) := by
      unfold stepA
      simp only [pyGet_last, pyGet_last2]
    rw [hs, ih, accFrom]
    simp

theorem accum_for_split_eq (sizes : List Int) : accum_for_split sizes = accFrom 0 sizes := by
  rw [accum_unfold, show ([0] : List Int) = [] ++ [0] from rfl, fold_stepA]; simp

theorem accFrom_fst (a : Int) (l : List Nat) :
    (accFrom a (l.map Int.ofNat)).map (·.1) = (offsets l).map (fun o => Int.ofNat o + a) := by
  induction l generalizing a with
  | nil => rfl
  | cons d ds ih =>
    rw [List.map_cons, accFrom, List.map_cons, ih, offsets, List.map_cons, List.map_map]
    congr 1
    · simp
    · apply List.map_congr_left; intro o _; simp only [Function.comp, Int.ofNat_eq_natCast]; omega

theorem accum_for_split_starts (sizes : List Nat) :
    (accum_for_split (sizes.map Int.ofNat)).map (·.1) = (offsets sizes).map Int.ofNat := by
  rw [accum_for_split_eq, accFrom_fst]; simp

example : accum_for_split [2, 3, 4] = [(0, 2), (2, 5), (5, 9)] := by decide

end SymmModel.Gen
