/-
  SymmModel.Gen.TieRand — translation tie (task R1) for `utils.get_u1_charges(ncharge)`:
  the generated definition (range, in-place stable sort with the key `(abs(x), -x)`, prefix) equals the
  model's `u1Charges` (Model/Rand.lean) for every natural `ncharge`.
  `get_u1u1_charges` (`int(ncharge ** 0.5)`: float), `choose_duals` (a parameter that is a str, None, a bool or a
  sequence) and the size formulas inside `rand_*_index` (not separate functions; they read the numpy
  Generator) are outside the translated subset — see the report of harness/translate.py.
  Not imported by SymmModel.lean; build with `lake build SymmModel.Gen.Tie`.
-/
import SymmModel.Gen.PyLemmas
import SymmModel.Model.Rand

namespace SymmModel.Gen
open SymmModel SymmModel.Rand

theorem pyInsertByLex_eq {α : Type} (key : α → Int × Int) (lt : α → α → Bool)
    (hk : ∀ x y, pyLexLt (key x) (key y) = lt x y) (a : α) (l : List α) :
    pyInsertByLex key a l = insertSorted lt a l := by
  induction l with
  | nil => rfl
  | cons b bs ih => rw [pyInsertByLex, insertSorted, hk, ih]

theorem pySortedByLex_eq {α : Type} (key : α → Int × Int) (lt : α → α → Bool)
    (hk : ∀ x y, pyLexLt (key x) (key y) = lt x y) (l : List α) :
    pySortedByLex key l = isort lt l := by
  induction l with
  | nil => rfl
  | cons a as ih => rw [pySortedByLex, isort, ih, pyInsertByLex_eq key lt hk]

theorem u1_key (x y : Int) :
    pyLexLt (Int.ofNat (Int.natAbs x), -x) (Int.ofNat (Int.natAbs y), -y) = u1KeyLt x y := by
  unfold pyLexLt u1KeyLt
  simp only [Int.ofNat_eq_natCast]
  congr 1
  · simp only [decide_eq_decide]; omega
  · congr 1
    by_cases h : x.natAbs = y.natAbs
    · rw [h]; simp
    · have h1 : ((x.natAbs : Int) == (y.natAbs : Int)) = false := by
        simp only [beq_eq_false_iff_ne, ne_eq]; omega
      have h2 : (x.natAbs == y.natAbs) = false := by simpa using h
      rw [h1, h2]

theorem pyClamp_ofNat' (n i : Nat) : pyClamp n (Int.ofNat i) = min i n := by
  unfold pyClamp
  have : ¬ (Int.ofNat i < 0) := by simp
  rw [if_neg this]; simp

theorem pyRange2_eq_intRange (a b : Int) : pyRange2 a b = intRange a b := rfl

theorem fdiv_two (x : Int) : Int.fdiv x 2 = x / 2 := by
  rw [Int.fdiv_eq_ediv_of_nonneg] ; omega

/-- `get_u1_charges(ncharge)` as generated = the model's `u1Charges` -/
theorem get_u1_charges_eq (n : Nat) : get_u1_charges (Int.ofNat n) = u1Charges n := by
  unfold get_u1_charges u1Charges pySlice
  simp only [fdiv_two, pyRange2_eq_intRange]
  rw [pySortedByLex_eq _ u1KeyLt u1_key]
  simp only [Int.ofNat_eq_natCast, List.drop_zero]
  generalize isort u1KeyLt (intRange (-(n : Int) / 2 + 1) ((n : Int) / 2 + 1)) = L
  rw [show ((n : Nat) : Int) = Int.ofNat n from rfl, pyClamp_ofNat']
  by_cases h : n ≤ L.length
  · rw [Nat.min_eq_left h]
  · rw [Nat.min_eq_right (by omega), List.take_length, List.take_of_length_le (by omega)]

example : get_u1_charges 5 = [0, 1, -1, 2, -2] := by decide
example : get_u1_charges 4 = [0, 1, -1, 2] := by decide

end SymmModel.Gen
