/-
  SymmModel.Gen.TieRand — translation tie (task R1) for `utils.get_u1_charges(ncharge)`:
  the generated definition (range, in-place stable sort with the key `(abs(x), -x)`, prefix) equals the
  model's `u1Charges` (Model/Rand.lean) for every natural `ncharge`.
  (S3) `get_u1u1_charges` = `u1u1Charges` — `int(ncharge ** 0.5)` is the DECLARED `pyIsqrtFloat` (= `Nat.sqrt`; that the
  float computation agrees is an assumption recorded by the translator, as it is in Model/Rand.lean) — and
  `choose_duals` = `chooseDuals`, its sum-typed parameter `duals` being a `PyArg (Option Bool)` (declared in
  translate.py; "equal" ↦ `.str "equal"`, None ↦ `.none`, True/False ↦ `.bool b`, a sequence ↦ `.seq l`), its
  `raise ValueError` the error `PyExc.raised "ValueError"`.
  The size formulas inside `rand_*_index` (not separate functions; they read the numpy Generator) are outside the
  translated subset.
  Not imported by SymmModel.lean; build with `lake build SymmModel.Gen.Tie`.
-/
import SymmModel.Gen.PyLemmas
import SymmModel.Model.Rand

namespace SymmModel.Gen
open SymmModel SymmModel.Rand

theorem pyInsertByLex_eq {α : Type} (key : α → Int × Int) (lt : α → α → Bool)
    (hk : ∀ x y, pyLexLt (key x) (key y) = lt x y) (a : α) (l : List α) :
    pyInsertByLex key a l = insertSorted lt a l := by
  induction l with
  | nil => rfl
  | cons b bs ih => rw [pyInsertByLex, insertSorted, hk, ih]

theorem pySortedByLex_eq {α : Type} (key : α → Int × Int) (lt : α → α → Bool)
    (hk : ∀ x y, pyLexLt (key x) (key y) = lt x y) (l : List α) :
    pySortedByLex key l = isort lt l := by
  induction l with
  | nil => rfl
  | cons a as ih => rw [pySortedByLex, isort, ih, pyInsertByLex_eq key lt hk]

theorem u1_key (x y : Int) :
    pyLexLt (Int.ofNat (Int.natAbs x), -x) (Int.ofNat (Int.natAbs y), -y) = u1KeyLt x y := by
  unfold pyLexLt u1KeyLt
  simp only [Int.ofNat_eq_natCast]
  congr 1
  · simp only [decide_eq_decide]; omega
  · congr 1
    by_cases h : x.natAbs = y.natAbs
    · rw [h]; simp
    · have h1 : ((x.natAbs : Int) == (y.natAbs : Int)) = false := by
        simp only [beq_eq_false_iff_ne, ne_eq]; omega
      have h2 : (x.natAbs == y.natAbs) = false := by simpa using h
      rw [h1, h2]

theorem pyClamp_ofNat' (n i : Nat) : pyClamp n (Int.ofNat i) = min i n := by
  unfold pyClamp
  have : ¬ (Int.ofNat i < 0) := by simp
  rw [if_neg this]; simp

theorem pyRange2_eq_intRange (a b : Int) : pyRange2 a b = intRange a b := rfl

theorem fdiv_two (x : Int) : Int.fdiv x 2 = x / 2 := by
  rw [Int.fdiv_eq_ediv_of_nonneg] ; omega

/-- `get_u1_charges(ncharge)` as generated = the model's `u1Charges` -/
theorem get_u1_charges_eq (n : Nat) : get_u1_charges (Int.ofNat n) = u1Charges n := by
  unfold get_u1_charges u1Charges pySlice
  simp only [fdiv_two, pyRange2_eq_intRange]
  rw [pySortedByLex_eq _ u1KeyLt u1_key]
  simp only [Int.ofNat_eq_natCast, List.drop_zero]
  generalize isort u1KeyLt (intRange (-(n : Int) / 2 + 1) ((n : Int) / 2 + 1)) = L
  rw [show ((n : Nat) : Int) = Int.ofNat n from rfl, pyClamp_ofNat']
  by_cases h : n ≤ L.length
  · rw [Nat.min_eq_left h]
  · rw [Nat.min_eq_right (by omega), List.take_length, List.take_of_length_le (by omega)]

example : get_u1_charges 5 = [0, 1, -1, 2, -2] := by decide
example : get_u1_charges 4 = [0, 1, -1, 2] := by decide

/-! ### (S3) `get_u1u1_charges` -/

theorem int_sq (x : Int) : x ^ (2 : Nat) = x * x := by
  rw [Int.pow_succ, Int.pow_succ, Int.pow_zero, Int.one_mul]

theorem u1u1_key (x y : Int × Int) :
    pyLexLt ((x.1 ^ (2 : Nat)) + (x.2 ^ (2 : Nat)), (-x.1) - x.2) ((y.1 ^ (2 : Nat)) + (y.2 ^ (2 : Nat)), (-y.1) - y.2)
      = u1u1KeyLt x y := by
  unfold pyLexLt u1u1KeyLt
  simp only [int_sq]

/-- `get_u1u1_charges(ncharge)` as generated = the model's `u1u1Charges`, for every natural `ncharge` (with
    `int(ncharge ** 0.5)` read as the declared integer square root) -/
theorem get_u1u1_charges_eq (n : Nat) : get_u1u1_charges (Int.ofNat n) = u1u1Charges n := by
  unfold get_u1u1_charges u1u1Charges
  simp only [pyRange2_eq_intRange]
  rw [foldl_append_item _ (fun st x => by rcases x with ⟨i, j⟩; rfl), List.nil_append,
    pySortedByLex_eq _ u1u1KeyLt u1u1_key, pySlice_take_ofNat]
  rfl

/- (`Nat.sqrt` is defined by well-founded recursion and does not reduce: its value is supplied) -/
example (h : pyIsqrtFloat 5 = 2) : get_u1u1_charges 5 = [(0, 0), (0, 1), (1, 0), (-1, 0), (0, -1)] := by
  unfold get_u1u1_charges
  rw [h]
  decide

/-! ### (S3) `choose_duals` -/

/-- the model's `duals` argument as the declared sum type of the translation -/
def dualsArg : DualsArg → PyArg (Option Bool)
  | .equal => .str "equal"
  | .none => .none
  | .all b => .bool b
  | .seq l => .seq l

/-- the model's outcome in the vocabulary of the translation (`chooseDuals` only throws `Err.value`) -/
def excOfErr {α : Type} : Except Err α → Except PyExc α
  | .ok x => .ok x
  | .error _ => .error (.raised "ValueError")

/-- `choose_duals(duals, ndim)` as generated = the model's `chooseDuals`, every alternative of `duals`, every
    natural `ndim`, including the error point -/
theorem choose_duals_eq (a : DualsArg) (ndim : Nat) :
    choose_duals (dualsArg a) (Int.ofNat ndim) = excOfErr (chooseDuals a ndim) := by
  cases a with
  | equal =>
    have h : PyArg.isStr (PyArg.str "equal" : PyArg (Option Bool)) "equal" = true := by decide
    unfold choose_duals chooseDuals dualsArg
    simp only [h, if_true, pyRange_ofNat, fdiv_two, List.map_map, excOfErr, pure, Except.pure]
    congr 1
    apply List.map_congr_left
    intro i _
    simp only [Function.comp, Int.ofNat_eq_natCast, Option.some.injEq, decide_eq_decide]
    omega
  | none =>
    unfold choose_duals chooseDuals dualsArg
    simp [PyArg.isStr, PyArg.isNone, PyArg.scalar, pyRepeat, excOfErr, pure, Except.pure]
  | all b =>
    unfold choose_duals chooseDuals dualsArg
    cases b <;> simp [PyArg.isStr, PyArg.isNone, PyArg.isBool, PyArg.scalar, pyRepeat, excOfErr, pure, Except.pure]
  | seq l =>
    unfold choose_duals chooseDuals dualsArg
    by_cases h : l.length = ndim
    · simp [PyArg.isStr, PyArg.isNone, PyArg.isBool, PyArg.asSeq, pyLen, excOfErr, pure, Except.pure, h]
    · simp [PyArg.isStr, PyArg.isNone, PyArg.isBool, PyArg.asSeq, pyLen, excOfErr, throw, throwThe,
        MonadExceptOf.throw, h]
      omega

example : choose_duals (.str "equal") 3 = .ok [some false, some true, some true] := by rfl
example : choose_duals (.seq [some true]) 2 = .error (.raised "ValueError") := by rfl

end SymmModel.Gen
