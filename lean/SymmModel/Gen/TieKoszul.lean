/-
  SymmModel.Gen.TieKoszul — the translation tie for property C03 (the Koszul sign).

  `SymmModel.Gen.calc_phase_permutation` (Gen/Src.lean) is REGENERATED from
  symmray/symmetries.py by harness/translate.py on every run.  This file (hand-written, fixed) proves

   * `calc_phase_permutation_some_eq` : on every input on which the Python function does not raise
     (`parities ≠ [] ∨ perm = []`; otherwise `ax % 0` raises ZeroDivisionError), for ARBITRARY integer
     parities (truthiness `≠ 0`) and ARBITRARY integer axes (negative axes wrap as in the code),
        calc_phase_permutation parities (some perm)
          = koszul (parities.map (· != 0)) (some (perm.map (normAx parities.length)))
     i.e. the generated double loop with its `moved` set is the model's `swapsLoop`;
   * `calc_phase_permutation_none_eq` : the `perm is None` shortcut equals the model's, for parities in {0,1};
   * the C03 theorems restated about the generated function:
     `calc_phase_permutation_eq_invOdd` (the loop = parity of the number of reversed pairs of odd
     entries, for every permutation of `range n`), `calc_phase_permutation_none_eq_reverse`
     (the shortcut = the loop on the full reversal), `calc_phase_permutation_id`,
     `calc_phase_permutation_negative_axes`.

  Not imported by SymmModel.lean; build with `lake build SymmModel.Gen.Tie`.
-/
import SymmModel.Gen.PyLemmas
import SymmModel.Props.C03

namespace SymmModel.Gen
open SymmModel SymmModel.KoszulP

/-- truthiness of the parity entries -/
def parB (parities : List Int) : List Bool := parities.map (· != 0)

/-- `ax % ndim` as a position (Python floor-mod; for `ndim > 0` it lies in `range(ndim)`) -/
def normAx (n : Nat) (ax : Int) : Nat := (Int.fmod ax n).toNat

/-! ### the generated loop in readable form -/

/-- the inner loop `for other_ax in range(ax): if other_ax not in moved and parities[other_ax]: swaps += 1` -/
def innerG (parities moved : List Int) (swaps ax : Int) : Int :=
  (pyRange ax).foldl
    (fun sw o => if (!(moved.contains o)) && (pyGet parities o != 0) then sw + 1 else sw) swaps

/-- one round of the outer loop on the state `(swaps, moved)` -/
def stepG (parities : List Int) (st : Int × List Int) (ax : Int) : Int × List Int :=
  ((if pyGet parities ax != 0 then innerG parities st.2 st.1 ax else st.1), pySetAdd st.2 ax)

theorem cpp_some_unfold (parities perm : List Int) :
    calc_phase_permutation parities (some perm)
      = if ((perm.map (fun ax => Int.fmod ax (pyLen parities))).foldl (stepG parities) (0, [])).1 % 2 != 0
        then -1 else 1 := by
  rfl

/-! ### built-ins on natural-number arguments -/

theorem parB_getD (parities : List Int) (i : Nat) :
    (pyGet parities (Int.ofNat i) != 0) = isOdd (parB parities) i := by
  rw [pyGet_ofNat]
  simp only [isOdd, parB, List.getD_eq_getElem?_getD, List.getElem?_map]
  cases parities[i]? <;> simp

theorem foldl_count {α : Type} (p : α → Bool) (l : List α) (sw : Int) :
    l.foldl (fun sw o => if p o then sw + 1 else sw) sw = sw + ((l.filter p).length : Nat) := by
  induction l generalizing sw with
  | nil => simp
  | cons x xs ih =>
    rw [List.foldl_cons, ih, List.filter_cons]
    cases p x <;> simp <;> omega

/-- the `moved` set (a list of ints) and the model's `moved` list (of naturals) have the same members -/
def SameMoved (mvG : List Int) (mvM : List Nat) : Prop :=
  ∀ o : Nat, mvG.contains (Int.ofNat o) = mvM.contains o

theorem sameMoved_nil : SameMoved [] [] := fun _ => rfl

theorem sameMoved_add {mvG : List Int} {mvM : List Nat} (h : SameMoved mvG mvM) (a : Nat) :
    SameMoved (pySetAdd mvG (Int.ofNat a)) (a :: mvM) := by
  intro o
  unfold pySetAdd
  by_cases hc : mvG.contains (Int.ofNat a) = true
  · rw [if_pos hc, List.contains_cons, h o]
    by_cases ho : o = a
    · subst ho; rw [← h o, hc]; simp
    · have : (o == a) = false := by simpa using ho
      rw [this]; simp
  · rw [if_neg hc, List.contains_cons, List.contains_cons, h o]
    congr 1
    by_cases ho : o = a
    · subst ho; simp
    · have h1 : (o == a) = false := by simpa using ho
      have h2 : (Int.ofNat o == Int.ofNat a) = false := by
        simp only [beq_eq_false_iff_ne, ne_eq, Int.ofNat_eq_natCast, Int.natCast_inj]; exact ho
      rw [h1, h2]

theorem innerG_eq (parities mvG : List Int) (mvM : List Nat) (h : SameMoved mvG mvM) (sw : Int)
    (a : Nat) :
    innerG parities mvG sw (Int.ofNat a) = sw + (crossed (parB parities) mvM a : Nat) := by
  unfold innerG crossed
  rw [pyRange_ofNat, List.foldl_map]
  rw [foldl_count (fun o : Nat => (!(mvG.contains (Int.ofNat o))) && (pyGet parities (Int.ofNat o) != 0))]
  have e : (fun o : Nat => (!(mvG.contains (Int.ofNat o))) && (pyGet parities (Int.ofNat o) != 0))
      = (fun o => !mvM.contains o && isOdd (parB parities) o) := by
    funext o
    rw [h o, parB_getD]
  rw [e]

/-- the generated outer loop is the model's `swapsLoop` -/
theorem fold_stepG (parities : List Int) (l : List Nat) (sw : Int) (mvG : List Int) (mvM : List Nat)
    (h : SameMoved mvG mvM) :
    ((l.map Int.ofNat).foldl (stepG parities) (sw, mvG)).1
      = sw + (swapsLoop (parB parities) l mvM : Nat) := by
  induction l generalizing sw mvG mvM with
  | nil => simp [swapsLoop]
  | cons a rest ih =>
    rw [List.map_cons, List.foldl_cons]
    have hstep : stepG parities (sw, mvG) (Int.ofNat a)
        = ((if pyGet parities (Int.ofNat a) != 0 then innerG parities mvG sw (Int.ofNat a) else sw),
            pySetAdd mvG (Int.ofNat a)) := rfl
    rw [hstep, ih _ _ (a :: mvM) (sameMoved_add h a), parB_getD, swapsLoop]
    by_cases ho : isOdd (parB parities) a = true
    · rw [if_pos ho, if_pos ho, innerG_eq parities mvG mvM h]
      push_cast; omega
    · rw [if_neg ho, if_neg ho]
      push_cast; omega

theorem fmod_pos_eq (ax : Int) (n : Nat) (hn : 0 < n) :
    Int.fmod ax n = Int.ofNat (normAx n ax) := by
  unfold normAx
  have h0 : (0 : Int) ≤ n := by omega
  rw [Int.fmod_eq_emod_of_nonneg ax h0]
  have : 0 ≤ ax % (n : Int) := Int.emod_nonneg ax (by omega)
  simp only [Int.ofNat_eq_natCast]
  omega

theorem koszul_some' (par : List Bool) (perm : List Nat) :
    koszul par (some perm) = if swapsLoop par perm [] % 2 = 1 then -1 else 1 := by
  simp [koszul, koszulNeg]

/-! ## generated `calc_phase_permutation` = model `koszul` -/

/-- the general branch, for arbitrary integer parities and arbitrary (also negative) integer axes, on
    the whole domain on which the Python function does not raise -/
theorem calc_phase_permutation_some_eq (parities perm : List Int) (h : parities ≠ [] ∨ perm = []) :
    calc_phase_permutation parities (some perm)
      = koszul (parB parities) (some (perm.map (normAx parities.length))) := by
  rw [cpp_some_unfold, koszul_some']
  rcases h with h | h
  · have hn : 0 < parities.length := List.length_pos_iff.mpr h
    have e : perm.map (fun ax => Int.fmod ax (pyLen parities))
        = (perm.map (normAx parities.length)).map Int.ofNat := by
      rw [List.map_map]
      apply List.map_congr_left
      intro ax _
      exact fmod_pos_eq ax parities.length hn
    rw [e, fold_stepG parities _ 0 [] [] sameMoved_nil]
    simp only [Int.zero_add]
    by_cases hs : swapsLoop (parB parities) (perm.map (normAx parities.length)) [] % 2 = 1
    · rw [if_pos hs, if_pos]
      simp only [bne_iff_ne, ne_eq]; omega
    · rw [if_neg hs, if_neg]
      simp only [bne_iff_ne, ne_eq, Decidable.not_not]; omega
  · subst h; rfl

example : ([1, 0, 1] : List Int) ≠ [] ∨ ([2, -3, 1] : List Int) = [] := Or.inl (by decide)

/-- a call that omits `perm` takes the `perm is None` branch -/
theorem calc_phase_permutation_default : calc_phase_permutation.default_perm = none := rfl

/-- number of odd entries, when all parities are 0/1 -/
theorem pySum_bits (parities : List Int) (h : ∀ p ∈ parities, p = 0 ∨ p = 1) (a : Int) :
    parities.foldl (· + ·) a = a + (((parB parities).filter id).length : Nat) := by
  induction parities generalizing a with
  | nil => simp [parB]
  | cons p ps ih =>
    rw [List.foldl_cons, ih (fun q hq => h q (List.mem_cons_of_mem _ hq))]
    rcases h p (List.mem_cons_self ..) with rfl | rfl <;> simp [parB] <;> omega

/-- the `perm is None` shortcut `sum(parities) // 2 % 2`, for parities in {0,1} -/
theorem calc_phase_permutation_none_eq (parities : List Int) (h : ∀ p ∈ parities, p = 0 ∨ p = 1) :
    calc_phase_permutation parities none = koszul (parB parities) none := by
  have hs : pySum parities = (((parB parities).filter id).length : Nat) := by
    unfold pySum; rw [pySum_bits parities h 0]; simp
  show (if ((Int.fdiv (pySum parities) 2) % 2 != 0) then (-1 : Int) else 1) = _
  rw [hs, Int.fdiv_eq_ediv_of_nonneg _ (by decide : (0 : Int) ≤ 2)]
  unfold koszul koszulNeg
  generalize ((parB parities).filter id).length = k
  by_cases hk : k / 2 % 2 = 1
  · rw [if_pos, if_pos]
    · simp only [beq_iff_eq]; exact hk
    · simp only [bne_iff_ne, ne_eq]; omega
  · rw [if_neg, if_neg]
    · simp only [beq_iff_eq]; exact hk
    · simp only [bne_iff_ne, ne_eq, Decidable.not_not]; omega

/-- the hypothesis of `calc_phase_permutation_none_eq` is needed: parities `(2,)` (truthy, one odd
    entry for the loop) make the shortcut `-1` -/
theorem calc_phase_permutation_none_eq_needs_bits :
    calc_phase_permutation [2] none ≠ koszul (parB [2]) none := by decide

/-! ## the C03 theorems about the generated function -/

theorem normAx_ofNat {n a : Nat} (h : a < n) : normAx n (Int.ofNat a) = a := by
  unfold normAx
  rw [Int.fmod_eq_emod_of_nonneg _ (by omega : (0 : Int) ≤ n)]
  simp only [Int.ofNat_eq_natCast]
  rw [Int.emod_eq_of_lt (by omega) (by omega)]
  simp

theorem map_normAx_perm {n : Nat} {perm : List Nat} (hp : perm.Perm (List.range n)) :
    (perm.map Int.ofNat).map (normAx n) = perm := by
  rw [List.map_map]
  conv => rhs; rw [← List.map_id perm]
  apply List.map_congr_left
  intro a ha
  have : a < n := by simpa using hp.mem_iff.mp ha
  show normAx n (Int.ofNat a) = a
  exact normAx_ofNat this

/-- C03 (`koszul_eq_invOdd`) for the literal translation: for every parity tuple and every permutation of
    its axes, the code's double loop with the `moved` set yields `(-1)^(number of pairs of odd entries
    whose order the permutation reverses)` -/
theorem calc_phase_permutation_eq_invOdd (parities : List Int) (perm : List Nat)
    (hperm : perm.Perm (List.range parities.length)) :
    calc_phase_permutation parities (some (perm.map Int.ofNat))
      = (-1 : Int) ^ (invOdd (parB parities) perm) := by
  have hd : parities ≠ [] ∨ perm.map Int.ofNat = [] := by
    cases parities with
    | nil => right; simpa using hperm
    | cons p ps => left; simp
  rw [calc_phase_permutation_some_eq parities _ hd, map_normAx_perm hperm]
  exact (C03.koszul_eq_invOdd (parB parities) perm parities.length hperm).2

example : [3, 0, 2, 1].Perm (List.range ([1, 1, 0, 1] : List Int).length) := perm_of_isPerm (by decide)
example : calc_phase_permutation [1, 1, 0, 1] (some [1, 0, 2, 3]) = -1 := by decide

/-- C03 (`koszul_none_eq_reverse`) for the literal translation: the `perm is None` shortcut is the general
    loop applied to the full reversal -/
theorem calc_phase_permutation_none_eq_reverse (parities : List Int)
    (h : ∀ p ∈ parities, p = 0 ∨ p = 1) :
    calc_phase_permutation parities none
      = calc_phase_permutation parities (some ((List.range parities.length).reverse.map Int.ofNat)) := by
  have hp : (List.range parities.length).reverse.Perm (List.range parities.length) :=
    List.reverse_perm _
  have hd : parities ≠ [] ∨ (List.range parities.length).reverse.map Int.ofNat = [] := by
    cases parities with
    | nil => right; rfl
    | cons p ps => left; simp
  rw [calc_phase_permutation_none_eq parities h, calc_phase_permutation_some_eq parities _ hd,
    map_normAx_perm hp]
  exact C03.koszul_none_eq_reverse (parB parities) parities.length (by simp [parB])

example : ∀ p ∈ ([1, 0, 1, 1] : List Int), p = 0 ∨ p = 1 := by decide

/-- the identity permutation gives `+1` -/
theorem calc_phase_permutation_id (parities : List Int) :
    calc_phase_permutation parities (some ((List.range parities.length).map Int.ofNat)) = 1 := by
  have hd : parities ≠ [] ∨ (List.range parities.length).map Int.ofNat = [] := by
    cases parities with
    | nil => right; rfl
    | cons p ps => left; simp
  rw [calc_phase_permutation_some_eq parities _ hd, map_normAx_perm (List.Perm.refl _)]
  exact C03.koszul_id _ _

/-- negative axes: only `ax % ndim` matters (the fixed finding `transpose-negative-axes` lived in
    the callers; the function itself normalises) -/
theorem calc_phase_permutation_negative_axes (parities perm : List Int) (h : parities ≠ []) :
    calc_phase_permutation parities (some perm)
      = calc_phase_permutation parities
          (some (perm.map (fun ax => Int.ofNat (normAx parities.length ax)))) := by
  rw [calc_phase_permutation_some_eq parities perm (Or.inl h),
    calc_phase_permutation_some_eq parities _ (Or.inl h), List.map_map]
  congr 2
  apply List.map_congr_left
  intro ax _
  have hn : 0 < parities.length := List.length_pos_iff.mpr h
  simp only [Function.comp]
  rw [normAx_ofNat]
  unfold normAx
  have := Int.emod_lt_of_pos ax (by omega : (0 : Int) < parities.length)
  rw [Int.fmod_eq_emod_of_nonneg _ (by omega : (0 : Int) ≤ parities.length)]
  have h0 : 0 ≤ ax % (parities.length : Int) := Int.emod_nonneg ax (by omega)
  omega

end SymmModel.Gen
