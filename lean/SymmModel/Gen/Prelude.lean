/-
  SymmModel.Gen.Prelude — the fixed meaning of the Python built-ins that the translator
  (harness/translate.py) may emit.  Hand-written, core Lean only.  Every definition here is the
  documented CPython meaning of the construct on the types the translator allows
  (`int` = unbounded `Int`, `bool` = `Bool`, tuples/lists = `List`, 2-tuples of ints = `Int × Int`).

  Partiality convention (recorded by the translator as an assumption): constructs that RAISE in
  Python are total here — `seq[i]` out of range yields `default`, `x % 0` is `Int.fmod x 0 = x`,
  `x // 0` is `Int.fdiv x 0 = 0`.  The Tie theorems only use these on in-range arguments or state
  the hypothesis that excludes them.
-/
namespace SymmModel.Gen

/-- Python `a ^ b` on ints: two's-complement xor of unbounded integers.  (The code only xors
    values in {0,1}; this is nevertheless the full CPython meaning.) -/
def pyXor : Int → Int → Int
  | .ofNat a, .ofNat b => .ofNat (a ^^^ b)
  | .ofNat a, .negSucc b => .negSucc (a ^^^ b)
  | .negSucc a, .ofNat b => .negSucc (a ^^^ b)
  | .negSucc a, .negSucc b => .ofNat (a ^^^ b)

/-- `sum(xs)` for a tuple/list of ints: left fold from `0` -/
def pySum (xs : List Int) : Int := xs.foldl (· + ·) 0

/-- `x in {a, b, …}` / `x in seq` for ints -/
def pyIn (x : Int) (s : List Int) : Bool := s.contains x

/-- `range(n)` (empty for `n ≤ 0`) -/
def pyRange (n : Int) : List Int := (List.range n.toNat).map Int.ofNat

/-- `len(seq)` -/
def pyLen {α : Type} (l : List α) : Int := Int.ofNat l.length

/-- `seq[i]` with Python's negative-index wrap-around; `default` where Python raises IndexError -/
def pyGet {α : Type} [Inhabited α] (l : List α) (i : Int) : α :=
  if 0 ≤ i then l.getD i.toNat default
  else if 0 ≤ i + Int.ofNat l.length then l.getD (i + Int.ofNat l.length).toNat default
  else default

/-- `s.add(x)` on a set of ints kept as a duplicate-free list (only `in`, `not in` and `add` are
    translated for sets, so the order of the list is unobservable) -/
def pySetAdd (s : List Int) (x : Int) : List Int := if s.contains x then s else x :: s

/-- `enumerate(seq)` -/
def pyEnumerate {α : Type} (l : List α) : List (Int × α) :=
  l.zipIdx.map (fun p => (Int.ofNat p.2, p.1))

/-- insertion before the first element with a strictly larger key, scanning from the left the
    already sorted suffix: the stable insertion used by `pySortedBy` -/
def pyInsertBy {α : Type} (key : α → Int) (a : α) : List α → List α
  | [] => [a]
  | b :: bs => if key b < key a then b :: pyInsertBy key a bs else a :: b :: bs

/-- `sorted(seq, key=key)` with integer keys: a STABLE sort (elements with equal keys keep their
    order), here as right-to-left insertion sort -/
def pySortedBy {α : Type} (key : α → Int) : List α → List α
  | [] => []
  | a :: as => pyInsertBy key a (pySortedBy key as)

/-! ### added for task R1 (dicts, early return, slices, `min`/`max`, lexicographic sort keys) -/

/-- `range(a, b)` (empty for `b ≤ a`) -/
def pyRange2 (a b : Int) : List Int := (List.range (b - a).toNat).map (fun (i : Nat) => a + Int.ofNat i)

/-- `min(xs)` of a non-empty iterable of ints; `0` where Python raises ValueError (empty) -/
def pyMin : List Int → Int
  | [] => 0
  | a :: as => as.foldl min a

/-- `max(xs)` of a non-empty iterable of ints; `0` where Python raises ValueError (empty) -/
def pyMax : List Int → Int
  | [] => 0
  | a :: as => as.foldl max a

/-- the clamping of one slice bound `i` against a length `n` (CPython `PySlice_AdjustIndices`, step 1) -/
def pyClamp (n : Nat) (i : Int) : Nat :=
  if i < 0 then (i + Int.ofNat n).toNat else min i.toNat n

/-- `l[a:b]`, `l[:b]`, `l[a:]` (no step): both bounds clamped, empty when `b ≤ a` -/
def pySlice {α : Type} (l : List α) (a b : Option Int) : List α :=
  let lo := match a with | none => 0 | some a => pyClamp l.length a
  let hi := match b with | none => l.length | some b => pyClamp l.length b
  (l.take hi).drop lo

/-- a dict is an association list with distinct keys in insertion order.  `d.get(k, None)`:
    the value of the first (only) entry with key `k` -/
def pyDictGet {κ β : Type} [BEq κ] : List (κ × β) → κ → Option β
  | [], _ => none
  | (k, v) :: rest, k0 => if k == k0 then some v else pyDictGet rest k0

/-- `d[k]`; `default` where Python raises KeyError -/
def pyDictGetItem {κ β : Type} [BEq κ] [Inhabited β] (d : List (κ × β)) (k : κ) : β :=
  (pyDictGet d k).getD default

/-- `d[k] = v`: overwrite in place (the key keeps its position) or append at the end -/
def pyDictSet {κ β : Type} [BEq κ] : List (κ × β) → κ → β → List (κ × β)
  | [], k0, v0 => [(k0, v0)]
  | (k, v) :: rest, k0, v0 => if k == k0 then (k, v0) :: rest else (k, v) :: pyDictSet rest k0 v0

/-- `d.setdefault(k, v)`: (the dict afterwards, the value returned) -/
def pyDictSetdefault {κ β : Type} [BEq κ] (d : List (κ × β)) (k : κ) (v : β) : List (κ × β) × β :=
  match pyDictGet d k with
  | some x => (d, x)
  | none => (pyDictSet d k v, v)

/-- `{k: v for …}` / `dict(pairs)`: the pairs are stored from left to right -/
def pyDictOfList {κ β : Type} [BEq κ] (ps : List (κ × β)) : List (κ × β) :=
  ps.foldl (fun d p => pyDictSet d p.1 p.2) []

/-- `for x in xs: body` where the body may `return v`: the state is threaded through the iterations until
    one returns; `.error v` is the early `return v`, `.ok st` the state when the loop ran to its end -/
def pyForReturn {α σ ρ : Type} (xs : List α) (init : σ) (body : σ → α → Except ρ σ) : Except ρ σ :=
  match xs with
  | [] => .ok init
  | x :: rest =>
    match body init x with
    | .error r => .error r
    | .ok st => pyForReturn rest st body

/-- tuple comparison `(a1, a2) < (b1, b2)` of int pairs -/
def pyLexLt (a b : Int × Int) : Bool := decide (a.1 < b.1) || (a.1 == b.1 && decide (a.2 < b.2))

/-- stable insertion for `pySortedByLex` -/
def pyInsertByLex {α : Type} (key : α → Int × Int) (a : α) : List α → List α
  | [] => [a]
  | b :: bs => if pyLexLt (key b) (key a) then b :: pyInsertByLex key a bs else a :: b :: bs

/-- `sorted(seq, key=key)` / `seq.sort(key=key)` with a pair of ints as key: STABLE, lexicographic -/
def pySortedByLex {α : Type} (key : α → Int × Int) : List α → List α
  | [] => []
  | a :: as => pyInsertByLex key a (pySortedByLex key as)

/-! ### added for task S3 (list stores, `pop`, `[x] * n`, `itertools.product`, the declared integer square root,
    sum-typed parameters, error points, `while` with explicit fuel) -/

/-- `l[i] = v` on a list (also the store of `l[i] += v`), with Python's negative-index wrap-around; the list is
    unchanged where Python raises IndexError -/
def pyListSet {α : Type} (l : List α) (i : Int) (v : α) : List α :=
  if 0 ≤ i then l.set i.toNat v
  else if 0 ≤ i + Int.ofNat l.length then l.set (i + Int.ofNat l.length).toNat v
  else l

/-- `l.pop(i)` used as a statement (the popped value is discarded), negative-index wrap-around; the list is
    unchanged where Python raises IndexError -/
def pyListPop {α : Type} (l : List α) (i : Int) : List α :=
  if 0 ≤ i then l.eraseIdx i.toNat
  else if 0 ≤ i + Int.ofNat l.length then l.eraseIdx (i + Int.ofNat l.length).toNat
  else l

/-- `[x] * n`: `n` copies of `x`, none for `n ≤ 0` -/
def pyRepeat {α : Type} (x : α) (n : Int) : List α := List.replicate n.toNat x

/-- `itertools.product(xs, repeat=2)`: all pairs, the first component varying slowest -/
def pyProduct2 {α : Type} (xs : List α) : List (α × α) := xs.flatMap (fun a => xs.map (fun b => (a, b)))

/-- `int(n ** 0.5)` for an int `n`: DECLARED to be the floor of the exact square root.  CPython computes the
    double `pow(float(n), 0.5)` and truncates; the two agree while `n < 2^52` (ASSUMPTION of the translation, recorded
    by the translator; not proved — IEEE arithmetic is outside the model).  `0` for negative `n` (Python: a
    complex number, `int(...)` raises TypeError). -/
def pyIsqrtFloat (n : Int) : Int := Int.ofNat (Nat.sqrt n.toNat)

/-- a parameter of SUM type `None | bool | str | sequence` (declared per function in translate.py, never inferred) -/
inductive PyArg (α : Type) where
  | none
  | bool (b : Bool)
  | str (s : String)
  | seq (l : List α)
  deriving Repr, Inhabited

/-- `x == "lit"`: true exactly for the str alternative with that text (a str never equals None, a bool or a list) -/
def PyArg.isStr {α : Type} (x : PyArg α) (lit : String) : Bool :=
  match x with | .str s => s == lit | _ => false

/-- `x is None` -/
def PyArg.isNone {α : Type} (x : PyArg α) : Bool := match x with | .none => true | _ => false

/-- `x is True` / `x is False` -/
def PyArg.isBool {α : Type} (x : PyArg α) (b : Bool) : Bool := match x with | .bool c => c == b | _ => false

/-- the value of the `None | bool` alternatives as an Optional bool (`none` for the other alternatives, where the
    translated code never reads it: the read is guarded by `x is None or x is False or x is True`) -/
def PyArg.scalar {α : Type} (x : PyArg α) : Option Bool := match x with | .bool b => some b | _ => Option.none

/-- the sequence alternative (`[]` for the other alternatives; a `str` that reaches `len(x)` / `return x` is outside
    the typed subset — recorded assumption: a str argument is one of the literals the function compares with) -/
def PyArg.asSeq {α : Type} (x : PyArg α) : List α := match x with | .seq l => l | _ => []

/-- error points: `raise Cls(…)` (the message is not translated), and a `while` loop that ran out of fuel -/
inductive PyExc where
  | raised (cls : String)
  | outOfFuel
  deriving Repr, DecidableEq, Inhabited

/-- `while cond: body` with explicit fuel: every evaluation of the loop test consumes one unit (also the last,
    failing one); `.error .outOfFuel` when none is left; the body may `raise` -/
def pyWhile {σ : Type} (fuel : Nat) (st : σ) (cond : σ → Bool) (body : σ → Except PyExc σ) : Except PyExc σ :=
  match fuel with
  | 0 => .error .outOfFuel
  | f + 1 =>
    if cond st then
      match body st with
      | .error e => .error e
      | .ok st' => pyWhile f st' cond body
    else .ok st

/-! ### added for task S3 (networks.py): format templates, formatted names, the declared record of a site -/

/-- non-overlapping occurrences of `sub` in `s`, scanning from the left (fuel = length of `s`) -/
def pyCountChars (sub : List Char) : Nat → List Char → Nat
  | 0, _ => 0
  | _, [] => 0
  | fuel + 1, c :: cs =>
    if sub.isPrefixOf (c :: cs) then 1 + pyCountChars sub fuel ((c :: cs).drop sub.length)
    else pyCountChars sub fuel cs

/-- `s.count(sub)` on strings (`len(s) + 1` for the empty `sub`, as in CPython) -/
def pyStrCount (s sub : String) : Int :=
  if sub.toList.isEmpty then Int.ofNat (s.toList.length + 1)
  else Int.ofNat (pyCountChars sub.toList s.toList.length s.toList)

/-- a formatted string.  `template.format(a, b, …)` and `template.format(*a)` are DECLARED opaque constructors: the
    translation never looks inside the produced text; two names are equal iff template and arguments are
    (recorded assumption — `str.format` itself is outside the subset; for an int `a`, `format(*a)` raises TypeError) -/
inductive PyName where
  | fmt (template : String) (args : List Int)
  | fmtStar (template : String) (arg : Int)
  deriving DecidableEq, Repr, Inhabited

/-- the heterogeneous dict `{"inds": […], "duals": […], "shape": […], "coordination": n, "tags": (t,)}` of
    `parse_edges_to_site_info` as a DECLARED record (translate.py RECORDS): a key is absent (`none`) until it is
    stored; the order of the keys inside this inner dict is not represented -/
structure PySiteRec where
  inds : Option (List PyName) := none
  duals : Option (List Int) := none
  shape : Option (List Int) := none
  coordination : Option Int := none
  tags : Option (List PyName) := none
  deriving DecidableEq, Repr, Inhabited

end SymmModel.Gen
