/-
  SymmModel.Gen.Prelude — the fixed meaning of the Python built-ins that the translator
  (harness/translate.py) may emit.  Hand-written, core Lean only.  Every definition here is the
  documented CPython meaning of the construct on the types the translator allows
  (`int` = unbounded `Int`, `bool` = `Bool`, tuples/lists = `List`, 2-tuples of ints = `Int × Int`).

  Partiality convention (recorded by the translator as an assumption): constructs that RAISE in
  Python are total here — `seq[i]` out of range yields `default`, `x % 0` is `Int.fmod x 0 = x`,
  `x // 0` is `Int.fdiv x 0 = 0`.  The Tie theorems only use these on in-range arguments or state
  the hypothesis that excludes them.
-/
namespace SymmModel.Gen

/-- Python `a ^ b` on ints: two's-complement xor of unbounded integers.  (The code only xors
    values in {0,1}; this is nevertheless the full CPython meaning.) -/
def pyXor : Int → Int → Int
  | .ofNat a, .ofNat b => .ofNat (a ^^^ b)
  | .ofNat a, .negSucc b => .negSucc (a ^^^ b)
  | .negSucc a, .ofNat b => .negSucc (a ^^^ b)
  | .negSucc a, .negSucc b => .ofNat (a ^^^ b)

/-- `sum(xs)` for a tuple/list of ints: left fold from `0` -/
def pySum (xs : List Int) : Int := xs.foldl (· + ·) 0

/-- `x in {a, b, …}` / `x in seq` for ints -/
def pyIn (x : Int) (s : List Int) : Bool := s.contains x

/-- `range(n)` (empty for `n ≤ 0`) -/
def pyRange (n : Int) : List Int := (List.range n.toNat).map Int.ofNat

/-- `len(seq)` -/
def pyLen {α : Type} (l : List α) : Int := Int.ofNat l.length

/-- `seq[i]` with Python's negative-index wrap-around; `default` where Python raises IndexError -/
def pyGet {α : Type} [Inhabited α] (l : List α) (i : Int) : α :=
  if 0 ≤ i then l.getD i.toNat default
  else if 0 ≤ i + Int.ofNat l.length then l.getD (i + Int.ofNat l.length).toNat default
  else default

/-- `s.add(x)` on a set of ints kept as a duplicate-free list (only `in`, `not in` and `add` are
    translated for sets, so the order of the list is unobservable) -/
def pySetAdd (s : List Int) (x : Int) : List Int := if s.contains x then s else x :: s

/-- `enumerate(seq)` -/
def pyEnumerate {α : Type} (l : List α) : List (Int × α) :=
  l.zipIdx.map (fun p => (Int.ofNat p.2, p.1))

/-- insertion before the first element with a strictly larger key, scanning from the left the
    already sorted suffix: the stable insertion used by `pySortedBy` -/
def pyInsertBy {α : Type} (key : α → Int) (a : α) : List α → List α
  | [] => [a]
  | b :: bs => if key b < key a then b :: pyInsertBy key a bs else a :: b :: bs

/-- `sorted(seq, key=key)` with integer keys: a STABLE sort (elements with equal keys keep their
    order), here as right-to-left insertion sort -/
def pySortedBy {α : Type} (key : α → Int) : List α → List α
  | [] => []
  | a :: as => pyInsertBy key a (pySortedBy key as)

end SymmModel.Gen
