/-
  SymmModel.Gen.TieSym — the translation tie for property C17.

  `SymmModel.Gen.Z2.valid … U1U1.parity`, `sign_scalar`, `sign_tuple` (Gen/Src.lean) are REGENERATED from
  symmray/symmetries.py by harness/translate.py on every run.  This file (hand-written, fixed) proves

   1. `…_eq` : each generated definition equals the model function (`Sym.valid/combine/sign/parity`,
      Model/Sym.lean) for ALL inputs — scalar symmetries through the embedding `c ↦ (c, 0)`, the
      parity through `p ↦ (p == 1)`.  Only `Z2Z2.combine` / `Z2Z2.parity` need the hypothesis that
      the charges are valid (Python `^` on ints outside {0,1} is not addition mod 2:
      `Z2Z2_parity_eq_needs_valid`).
   2. `Tied g s emb` : the four equalities packaged, one instance per symmetry (`tied_Z2` …).
   3. `Laws g` : the C17 group laws (identity, closure, n-ary associativity and commutativity, inverse,
      involution, parity homomorphism) stated ONLY about the generated functions, and
      `laws_of_tied`, which transfers them from the model theorems `SymmModel.C17.*`;
      `Z2_laws … U1U1_laws` are the five instances.

  Not imported by SymmModel.lean: a change of symmray's source that breaks this file must not break
  the main build.  Build with `lake build SymmModel.Gen.Tie`.
-/
import SymmModel.Gen.Src
import SymmModel.Props.C17

namespace SymmModel.Gen
open SymmModel SymmModel.Sym

/-- scalar charges `c` are the model charges `(c, 0)` -/
def emb1 (c : Int) : Charge := (c, 0)
/-- pair charges are the model charges -/
def emb2 (c : Int × Int) : Charge := c

theorem emb1_inj (a b : Int) (h : emb1 a = emb1 b) : a = b := by
  simpa [emb1] using h

theorem emb2_inj (a b : Int × Int) (h : emb2 a = emb2 b) : a = b := h

/-! ### built-ins -/

theorem pySum_eq_sum1 (cs : List Int) : pySum cs = Sym.sum1 (cs.map emb1) := by
  simp [pySum, Sym.sum1, emb1, List.foldl_map]

theorem pyXor_bit (a b : Int) (ha : a = 0 ∨ a = 1) (hb : b = 0 ∨ b = 1) :
    pyXor a b = (a + b) % 2 := by
  rcases ha with rfl | rfl <;> rcases hb with rfl | rfl <;> decide

theorem foldl_pair {α β γ : Type} (f : α → γ → α) (g : β → γ → β) (l : List γ) (a : α) (b : β) :
    l.foldl (fun (st : α × β) it => (f st.1 it, g st.2 it)) (a, b) = (l.foldl f a, l.foldl g b) := by
  induction l generalizing a b with
  | nil => rfl
  | cons x xs ih => simp only [List.foldl_cons, ih]

theorem foldl_add1 (cs : List Charge) (a : Int) :
    cs.foldl (fun acc c => acc + c.1) a = a + Sym.sum1 cs := by
  induction cs generalizing a with
  | nil => simp
  | cons c cs ih => rw [List.foldl_cons, ih, sum1_cons]; omega

theorem foldl_add2 (cs : List Charge) (a : Int) :
    cs.foldl (fun acc c => acc + c.2) a = a + Sym.sum2 cs := by
  induction cs generalizing a with
  | nil => simp
  | cons c cs ih => rw [List.foldl_cons, ih, sum2_cons]; omega

theorem foldl_xor1 (cs : List Charge) (a : Int) (ha : a = 0 ∨ a = 1)
    (h : ∀ c ∈ cs, c.1 = 0 ∨ c.1 = 1) :
    cs.foldl (fun acc c => pyXor acc c.1) a = (a + Sym.sum1 cs) % 2 := by
  induction cs generalizing a with
  | nil => rcases ha with rfl | rfl <;> rfl
  | cons c cs ih =>
    have hc := h c (List.mem_cons_self ..)
    rw [List.foldl_cons, pyXor_bit a c.1 ha hc, ih _ (by omega) (fun x hx => h x (List.mem_cons_of_mem _ hx)),
      sum1_cons]
    omega

theorem foldl_xor2 (cs : List Charge) (a : Int) (ha : a = 0 ∨ a = 1)
    (h : ∀ c ∈ cs, c.2 = 0 ∨ c.2 = 1) :
    cs.foldl (fun acc c => pyXor acc c.2) a = (a + Sym.sum2 cs) % 2 := by
  induction cs generalizing a with
  | nil => rcases ha with rfl | rfl <;> rfl
  | cons c cs ih =>
    have hc := h c (List.mem_cons_self ..)
    rw [List.foldl_cons, pyXor_bit a c.2 ha hc, ih _ (by omega) (fun x hx => h x (List.mem_cons_of_mem _ hx)),
      sum2_cons]
    omega

/-! ## 1. generated definition = model function -/

/-- `rfl` when the generated text is the model's expression; otherwise unfold and decide the linear
    integer arithmetic (so that e.g. `-charge % 4` for `(4 - charge) % 4` keeps the tie) -/
syntax "tie_arith" "[" Lean.Parser.Tactic.simpLemma,* "]" : tactic
macro_rules
  | `(tactic| tie_arith [$ls,*]) =>
    `(tactic| first
      | rfl
      | (simp only [$ls,*, emb1, emb2, Sym.sign, Sym.parity, Prod.mk.injEq, and_true, true_and, if_true, if_false,
          Bool.false_eq_true, beq_iff_eq, ite_true, ite_false, beq_eq_beq] <;> omega))

theorem sign_scalar_eq (c : Int) (d : Bool) : sign_scalar c d = if d then -c else c := by
  cases d <;> rfl

theorem sign_tuple_eq (c : Int × Int) (d : Bool) :
    sign_tuple c d = if d then (-c.1, -c.2) else c := by
  cases d <;> rfl

/-- a call that omits `dual` negates: every default is `dual=True` (the model's `Sym.sign c true`) -/
theorem sign_defaults :
    sign_scalar.default_dual = true ∧ sign_tuple.default_dual = true ∧ Z2.sign.default_dual = true
      ∧ Z4.sign.default_dual = true ∧ U1.sign.default_dual = true ∧ Z2Z2.sign.default_dual = true
      ∧ U1U1.sign.default_dual = true := by decide

/-! ### Z2 -/

theorem Z2_valid_eq (cs : List Int) : Z2.valid cs = cs.all (fun c => Sym.valid .Z2 (emb1 c)) := by
  unfold Z2.valid; congr 1; funext c; simp [Sym.valid, pyIn, emb1]; rfl

theorem Z2_combine_eq (cs : List Int) : emb1 (Z2.combine cs) = Sym.combine .Z2 (cs.map emb1) := by
  simp [Z2.combine, combine_Z2, pySum_eq_sum1, emb1]

theorem Z2_sign_eq (c : Int) (d : Bool) : emb1 (Z2.sign c d) = Sym.sign .Z2 (emb1 c) d := rfl

theorem Z2_parity_eq (c : Int) : (Z2.parity c == 1) = Sym.parity .Z2 (emb1 c) := rfl

/-! ### Z4 -/

theorem Z4_valid_eq (cs : List Int) : Z4.valid cs = cs.all (fun c => Sym.valid .Z4 (emb1 c)) := by
  unfold Z4.valid; congr 1; funext c; simp [Sym.valid, pyIn, emb1, Bool.or_assoc]; rfl

theorem Z4_combine_eq (cs : List Int) : emb1 (Z4.combine cs) = Sym.combine .Z4 (cs.map emb1) := by
  simp [Z4.combine, combine_Z4, pySum_eq_sum1, emb1]

theorem Z4_sign_eq (c : Int) (d : Bool) : emb1 (Z4.sign c d) = Sym.sign .Z4 (emb1 c) d := by
  cases d <;> tie_arith [Z4.sign]

theorem Z4_parity_eq (c : Int) : (Z4.parity c == 1) = Sym.parity .Z4 (emb1 c) := by
  tie_arith [Z4.parity]

/-! ### U1 -/

theorem U1_valid_eq (cs : List Int) : U1.valid cs = cs.all (fun c => Sym.valid .U1 (emb1 c)) := by
  simp [U1.valid, Sym.valid, emb1]

theorem U1_combine_eq (cs : List Int) : emb1 (U1.combine cs) = Sym.combine .U1 (cs.map emb1) := by
  simp [U1.combine, combine_U1, pySum_eq_sum1, emb1]

theorem U1_sign_eq (c : Int) (d : Bool) : emb1 (U1.sign c d) = Sym.sign .U1 (emb1 c) d := by
  cases d <;> tie_arith [U1.sign, sign_scalar]

theorem U1_parity_eq (c : Int) : (U1.parity c == 1) = Sym.parity .U1 (emb1 c) := rfl

/-! ### Z2Z2 -/

theorem Z2Z2_valid_eq (cs : List (Int × Int)) :
    Z2Z2.valid cs = cs.all (fun c => Sym.valid .Z2Z2 (emb2 c)) := by
  unfold Z2Z2.valid; congr 1; funext c; simp [Sym.valid, pyIn, emb2]; rfl

theorem Z2Z2_valid_mem {cs : List (Int × Int)} (h : Z2Z2.valid cs = true) :
    ∀ c ∈ cs, (c.1 = 0 ∨ c.1 = 1) ∧ (c.2 = 0 ∨ c.2 = 1) := by
  intro c hc
  have := (List.all_eq_true.mp h) c hc
  simpa [pyIn] using this

/-- the generated loop is the pair of the two component folds -/
theorem Z2Z2_combine_unfold (cs : List (Int × Int)) :
    Z2Z2.combine cs
      = (cs.foldl (fun acc c => pyXor acc c.1) 0, cs.foldl (fun acc c => pyXor acc c.2) 0) := by
  rw [← foldl_pair]; rfl

theorem Z2Z2_combine_eq (cs : List (Int × Int)) (h : Z2Z2.valid cs = true) :
    emb2 (Z2Z2.combine cs) = Sym.combine .Z2Z2 (cs.map emb2) := by
  have hm := Z2Z2_valid_mem h
  have e : cs.map emb2 = cs := by unfold emb2; simp
  rw [e, Z2Z2_combine_unfold, combine_Z2Z2,
    foldl_xor1 cs 0 (Or.inl rfl) (fun c hc => (hm c hc).1),
    foldl_xor2 cs 0 (Or.inl rfl) (fun c hc => (hm c hc).2)]
  simp [emb2]

theorem Z2Z2_sign_eq (c : Int × Int) (d : Bool) : emb2 (Z2Z2.sign c d) = Sym.sign .Z2Z2 (emb2 c) d :=
  rfl

theorem Z2Z2_parity_eq (c : Int × Int) (h : Z2Z2.valid [c] = true) :
    (Z2Z2.parity c == 1) = Sym.parity .Z2Z2 (emb2 c) := by
  have hm := Z2Z2_valid_mem h c (List.mem_singleton.mpr rfl)
  obtain ⟨a, b⟩ := c
  rcases hm.1 with h1 | h1 <;> rcases hm.2 with h2 | h2 <;> simp only at h1 h2 <;> subst h1 <;> subst h2 <;>
    decide

/-- the hypothesis is needed: `(2, 1)` has `2 ^ 1 = 3`, which is not `1`, while `(2 + 1) % 2 = 1` -/
theorem Z2Z2_parity_eq_needs_valid :
    (Z2Z2.parity (2, 1) == 1) ≠ Sym.parity .Z2Z2 (emb2 (2, 1)) := by decide

/-! ### U1U1 -/

theorem U1U1_valid_eq (cs : List (Int × Int)) :
    U1U1.valid cs = cs.all (fun c => Sym.valid .U1U1 (emb2 c)) := by
  simp [U1U1.valid, Sym.valid]

theorem U1U1_combine_unfold (cs : List (Int × Int)) :
    U1U1.combine cs = (cs.foldl (fun acc c => acc + c.1) 0, cs.foldl (fun acc c => acc + c.2) 0) := by
  rw [← foldl_pair]; rfl

theorem U1U1_combine_eq (cs : List (Int × Int)) :
    emb2 (U1U1.combine cs) = Sym.combine .U1U1 (cs.map emb2) := by
  have e : cs.map emb2 = cs := by unfold emb2; simp
  rw [e, U1U1_combine_unfold, combine_U1U1, foldl_add1, foldl_add2]
  simp [emb2]

theorem U1U1_sign_eq (c : Int × Int) (d : Bool) : emb2 (U1U1.sign c d) = Sym.sign .U1U1 (emb2 c) d := by
  cases d <;> tie_arith [U1U1.sign, sign_tuple, sign_scalar]

theorem U1U1_parity_eq (c : Int × Int) : (U1U1.parity c == 1) = Sym.parity .U1U1 (emb2 c) := rfl

/-! ## 2. the packaged tie -/

/-- the four functions of one symmetry class, as generated -/
structure GSym (α : Type) where
  valid : List α → Bool
  combine : List α → α
  sign : α → Bool → α
  parity : α → Int

@[reducible] def gZ2 : GSym Int := ⟨Z2.valid, Z2.combine, Z2.sign, Z2.parity⟩
@[reducible] def gZ4 : GSym Int := ⟨Z4.valid, Z4.combine, Z4.sign, Z4.parity⟩
@[reducible] def gU1 : GSym Int := ⟨U1.valid, U1.combine, U1.sign, U1.parity⟩
@[reducible] def gZ2Z2 : GSym (Int × Int) := ⟨Z2Z2.valid, Z2Z2.combine, Z2Z2.sign, Z2Z2.parity⟩
@[reducible] def gU1U1 : GSym (Int × Int) := ⟨U1U1.valid, U1U1.combine, U1U1.sign, U1U1.parity⟩

/-- `g` is the model symmetry `s` seen through the injective embedding `emb` (on valid charges) -/
structure Tied {α : Type} (g : GSym α) (s : Sym) (emb : α → Charge) : Prop where
  inj : ∀ a b, emb a = emb b → a = b
  valid_eq : ∀ cs, g.valid cs = cs.all (fun c => s.valid (emb c))
  combine_eq : ∀ cs, g.valid cs = true → emb (g.combine cs) = s.combine (cs.map emb)
  sign_eq : ∀ c d, g.valid [c] = true → emb (g.sign c d) = s.sign (emb c) d
  parity_eq : ∀ c, g.valid [c] = true → (g.parity c == 1) = s.parity (emb c)
  parity_bit : ∀ c, g.valid [c] = true → g.parity c = 0 ∨ g.parity c = 1

theorem tied_Z2 : Tied gZ2 .Z2 emb1 :=
  ⟨emb1_inj, Z2_valid_eq, fun cs _ => Z2_combine_eq cs, fun c d _ => Z2_sign_eq c d,
    fun c _ => Z2_parity_eq c, fun c _ => by simp only [Z2.parity]; omega⟩

theorem tied_Z4 : Tied gZ4 .Z4 emb1 :=
  ⟨emb1_inj, Z4_valid_eq, fun cs _ => Z4_combine_eq cs, fun c d _ => Z4_sign_eq c d,
    fun c _ => Z4_parity_eq c, fun c _ => by simp only [Z4.parity]; omega⟩

theorem tied_U1 : Tied gU1 .U1 emb1 :=
  ⟨emb1_inj, U1_valid_eq, fun cs _ => U1_combine_eq cs, fun c d _ => U1_sign_eq c d,
    fun c _ => U1_parity_eq c, fun c _ => by simp only [U1.parity]; omega⟩

theorem tied_Z2Z2 : Tied gZ2Z2 .Z2Z2 emb2 :=
  ⟨emb2_inj, Z2Z2_valid_eq, Z2Z2_combine_eq, fun c d _ => Z2Z2_sign_eq c d, Z2Z2_parity_eq,
    fun c h => by
      have hm := Z2Z2_valid_mem h c (List.mem_singleton.mpr rfl)
      obtain ⟨a, b⟩ := c
      rcases hm.1 with h1 | h1 <;> rcases hm.2 with h2 | h2 <;> simp only at h1 h2 <;> subst h1 <;>
        subst h2 <;> decide⟩

theorem tied_U1U1 : Tied gU1U1 .U1U1 emb2 :=
  ⟨emb2_inj, U1U1_valid_eq, fun cs _ => U1U1_combine_eq cs, fun c d _ => U1U1_sign_eq c d,
    fun c _ => U1U1_parity_eq c, fun c _ => by simp only [U1U1.parity]; omega⟩

/-! ## 3. the C17 laws, stated about the generated functions only -/

/-- the group-with-parity laws of C17 for the generated functions `g` -/
structure Laws {α : Type} (g : GSym α) : Prop where
  /-- `valid(*cs)` checks the charges one by one -/
  valid_nil : g.valid [] = true
  valid_append : ∀ xs ys, g.valid (xs ++ ys) = (g.valid xs && g.valid ys)
  valid_perm : ∀ xs ys, xs.Perm ys → g.valid xs = g.valid ys
  /-- identity: the empty combination is a valid charge and neutral -/
  zero_valid : g.valid [g.combine []] = true
  combine_zero_left : ∀ c, g.valid [c] = true → g.combine [g.combine [], c] = c
  combine_zero_right : ∀ c, g.valid [c] = true → g.combine [c, g.combine []] = c
  combine_singleton : ∀ c, g.valid [c] = true → g.combine [c] = c
  /-- closure -/
  combine_valid : ∀ cs, g.valid cs = true → g.valid [g.combine cs] = true
  /-- n-ary associativity -/
  combine_append : ∀ xs ys, g.valid xs = true → g.valid ys = true →
    g.combine (xs ++ ys) = g.combine [g.combine xs, g.combine ys]
  combine_assoc : ∀ a b c, g.valid [a, b, c] = true →
    g.combine [g.combine [a, b], c] = g.combine [a, g.combine [b, c]]
  /-- n-ary commutativity -/
  combine_perm : ∀ xs ys, xs.Perm ys → g.valid xs = true → g.combine xs = g.combine ys
  combine_comm : ∀ a b, g.valid [a, b] = true → g.combine [a, b] = g.combine [b, a]
  /-- inverse -/
  sign_valid : ∀ c d, g.valid [c] = true → g.valid [g.sign c d] = true
  combine_sign_cancel : ∀ c, g.valid [c] = true → g.combine [c, g.sign c true] = g.combine []
  sign_sign : ∀ c d, g.valid [c] = true → g.sign (g.sign c d) d = c
  sign_false : ∀ c, g.valid [c] = true → g.sign c false = c
  /-- parity is a homomorphism to Z2 with values 0/1 -/
  parity_bit : ∀ c, g.valid [c] = true → g.parity c = 0 ∨ g.parity c = 1
  parity_zero : g.parity (g.combine []) = 0
  parity_combine_pair : ∀ a b, g.valid [a, b] = true →
    g.parity (g.combine [a, b]) = (g.parity a + g.parity b) % 2
  parity_sign : ∀ c d, g.valid [c] = true → g.parity (g.sign c d) = g.parity c

section transfer
variable {α : Type} {g : GSym α} {s : Sym} {emb : α → Charge}

theorem Tied.valid_one (h : Tied g s emb) (c : α) : g.valid [c] = s.valid (emb c) := by
  rw [h.valid_eq]; simp

theorem Tied.valid_two (h : Tied g s emb) (a b : α) :
    g.valid [a, b] = (g.valid [a] && g.valid [b]) := by
  simp [h.valid_eq]

theorem Tied.parity_int (h : Tied g s emb) (x y : α) (hx : g.valid [x] = true) (hy : g.valid [y] = true)
    (hxy : s.parity (emb x) = s.parity (emb y)) : g.parity x = g.parity y := by
  have e1 := h.parity_eq x hx
  have e2 := h.parity_eq y hy
  rw [hxy, ← e2] at e1
  rcases h.parity_bit x hx with a | a <;> rcases h.parity_bit y hy with b | b <;> rw [a, b] at e1 ⊢ <;>
    first | rfl | (exact absurd e1 (by decide))

theorem laws_of_tied (h : Tied g s emb) : Laws g := by
  have v1 := h.valid_one
  have hzero : g.valid [g.combine []] = true := by
    rw [v1, h.combine_eq [] (by rw [h.valid_eq]; rfl)]
    exact (C17.combine_nil s).1 ▸ (C17.combine_nil s).2.2
  have hnil : g.valid [] = true := by rw [h.valid_eq]; rfl
  have hcv : ∀ cs, g.valid cs = true → g.valid [g.combine cs] = true := by
    intro cs hcs; rw [v1, h.combine_eq cs hcs]; exact C17.combine_valid s _
  have hvapp : ∀ xs ys, g.valid (xs ++ ys) = (g.valid xs && g.valid ys) := by
    intro xs ys; simp only [h.valid_eq, List.all_append]
  have hcons : ∀ a (l : List α), g.valid (a :: l) = (g.valid [a] && g.valid l) := fun a l =>
    hvapp [a] l
  have hsingle : ∀ c, g.valid [c] = true → g.combine [c] = c := by
    intro c hc
    apply h.inj
    rw [h.combine_eq [c] hc]
    exact C17.combine_singleton s (emb c) (by rw [← v1]; exact hc)
  have happ : ∀ xs ys, g.valid xs = true → g.valid ys = true →
      g.combine (xs ++ ys) = g.combine [g.combine xs, g.combine ys] := by
    intro xs ys hx hy
    apply h.inj
    have hv2 : g.valid [g.combine xs, g.combine ys] = true := by
      rw [hcons, hcv xs hx, hcv ys hy]; rfl
    rw [h.combine_eq _ (by rw [hvapp, hx, hy]; rfl), h.combine_eq _ hv2, List.map_append,
      C17.combine_append]
    simp only [List.map_cons, List.map_nil, h.combine_eq xs hx, h.combine_eq ys hy]
  have hperm : ∀ xs ys, xs.Perm ys → g.valid xs = true → g.combine xs = g.combine ys := by
    intro xs ys p hx
    have hy : g.valid ys = true := by rw [h.valid_eq] at hx ⊢; rw [← p.all_eq]; exact hx
    apply h.inj
    rw [h.combine_eq xs hx, h.combine_eq ys hy]
    exact C17.combine_perm s (p.map emb)
  have hsv : ∀ c d, g.valid [c] = true → g.valid [g.sign c d] = true := by
    intro c d hc
    rw [v1, h.sign_eq c d hc]
    exact C17.sign_valid s (emb c) d (by rw [← v1]; exact hc)
  have hsplit : ∀ a b, g.valid [a, b] = true → g.valid [a] = true ∧ g.valid [b] = true := by
    intro a b hab; rw [hcons] at hab; simpa using hab
  have hzl : ∀ c, g.valid [c] = true → g.combine [g.combine [], c] = c := by
    intro c hc
    have := happ [] [c] hnil hc
    rw [List.nil_append, hsingle c hc] at this
    exact this.symm
  have hcomm : ∀ a b, g.valid [a, b] = true → g.combine [a, b] = g.combine [b, a] := fun a b hab =>
    hperm _ _ (List.Perm.swap b a []) hab
  refine
    { valid_nil := hnil, valid_append := hvapp, zero_valid := hzero, combine_singleton := hsingle,
      combine_valid := hcv, combine_append := happ, combine_perm := hperm, combine_comm := hcomm,
      sign_valid := hsv, combine_zero_left := hzl, parity_bit := h.parity_bit,
      valid_perm := ?_, combine_zero_right := ?_, combine_assoc := ?_, combine_sign_cancel := ?_,
      sign_sign := ?_, sign_false := ?_, parity_zero := ?_, parity_combine_pair := ?_,
      parity_sign := ?_ }
  · -- valid_perm
    intro xs ys p; rw [h.valid_eq, h.valid_eq, p.all_eq]
  · -- combine_zero_right
    intro c hc
    have hv : g.valid [c, g.combine []] = true := by rw [hcons, hc, hzero]; rfl
    rw [hcomm _ _ hv, hzl c hc]
  · -- combine_assoc
    intro a b c habc
    rw [hcons] at habc
    have ha : g.valid [a] = true := by revert habc; cases g.valid [a] <;> simp
    have hbc : g.valid [b, c] = true := by revert habc; cases g.valid [b, c] <;> simp
    obtain ⟨hb, hc⟩ := hsplit b c hbc
    have hab : g.valid [a, b] = true := by rw [hcons, ha, hb]; rfl
    have h1 := happ [a, b] [c] hab hc
    have h2 := happ [a] [b, c] ha hbc
    rw [hsingle c hc] at h1
    rw [hsingle a ha] at h2
    exact h1.symm.trans h2
  · -- combine_sign_cancel
    intro c hc
    have hv : g.valid [c, g.sign c true] = true := by rw [hcons, hc, hsv c true hc]; rfl
    apply h.inj
    rw [h.combine_eq _ hv, h.combine_eq [] hnil]
    simp only [List.map_cons, List.map_nil, h.sign_eq c true hc]
    rw [C17.combine_sign_cancel, (C17.combine_nil s).1]
  · -- sign_sign
    intro c d hc
    apply h.inj
    rw [h.sign_eq _ d (hsv c d hc), h.sign_eq c d hc]
    exact C17.sign_sign s (emb c) d (by rw [← v1]; exact hc)
  · -- sign_false
    intro c hc
    apply h.inj
    rw [h.sign_eq c false hc, C17.sign_false]
  · -- parity_zero
    have e := h.parity_eq _ hzero
    rw [h.combine_eq [] hnil] at e
    have pz : s.parity (s.combine (List.map emb [])) = false := by
      have := C17.parity_zero s
      rwa [← (C17.combine_nil s).1] at this
    rw [pz] at e
    rcases h.parity_bit _ hzero with a | a
    · exact a
    · rw [a] at e; exact absurd e (by decide)
  · -- parity_combine_pair
    intro a b hab
    obtain ⟨ha, hb⟩ := hsplit a b hab
    have e := h.parity_eq _ (hcv _ hab)
    rw [h.combine_eq _ hab] at e
    simp only [List.map_cons, List.map_nil] at e
    rw [C17.parity_combine_pair, ← h.parity_eq a ha, ← h.parity_eq b hb] at e
    rcases h.parity_bit _ (hcv _ hab) with x | x <;> rcases h.parity_bit a ha with y | y <;>
      rcases h.parity_bit b hb with z | z <;> rw [x, y, z] at e ⊢ <;>
      first | rfl | (exact absurd e (by decide))
  · -- parity_sign
    intro c d hc
    apply h.parity_int _ _ (hsv c d hc) hc
    rw [h.sign_eq c d hc, C17.parity_sign]

end transfer

/-- the C17 laws hold of the literal translation of each of symmray's five symmetry classes -/
theorem Z2_laws : Laws gZ2 := laws_of_tied tied_Z2
theorem Z4_laws : Laws gZ4 := laws_of_tied tied_Z4
theorem U1_laws : Laws gU1 := laws_of_tied tied_U1
theorem Z2Z2_laws : Laws gZ2Z2 := laws_of_tied tied_Z2Z2
theorem U1U1_laws : Laws gU1U1 := laws_of_tied tied_U1U1

/-! ### the laws spelled out on two of the generated functions (readable instances) -/

theorem Z4_combine_append (xs ys : List Int) (hx : Z4.valid xs = true) (hy : Z4.valid ys = true) :
    Z4.combine (xs ++ ys) = Z4.combine [Z4.combine xs, Z4.combine ys] :=
  Z4_laws.combine_append xs ys hx hy

theorem Z4_combine_sign_cancel (c : Int) (h : Z4.valid [c] = true) :
    Z4.combine [c, Z4.sign c true] = Z4.combine [] :=
  Z4_laws.combine_sign_cancel c h

theorem Z2Z2_parity_combine_pair (a b : Int × Int) (h : Z2Z2.valid [a, b] = true) :
    Z2Z2.parity (Z2Z2.combine [a, b]) = (Z2Z2.parity a + Z2Z2.parity b) % 2 :=
  Z2Z2_laws.parity_combine_pair a b h

theorem U1U1_combine_perm (xs ys : List (Int × Int)) (p : xs.Perm ys) :
    U1U1.combine xs = U1U1.combine ys :=
  U1U1_laws.combine_perm xs ys p (by simp [U1U1.valid])

/-- the hypotheses are satisfiable -/
example : Z4.valid [3, 1, 2] = true ∧ Z2Z2.valid [(1, 0), (1, 1)] = true ∧ U1.valid [-7, 5] = true
    ∧ U1U1.valid [(5, -9)] = true ∧ Z2.valid [1, 0] = true := by decide

end SymmModel.Gen
