/-
  SymmModel.Gen.TieFuse — translation tie (task R1) for `abelian_core.calc_fuse_group_info(axes_groups, duals)`:
  the generated definition (Gen/Src.lean: the literal loops over the dicts `ax2group` / `new_axes`, regenerated
  from the source on every run) computes the model's fuse plan `calcFuseGroupInfo` (Model/Fuse.lean) —
  number of groups, singlet groups, new rank, permutation, insertion position, kept axes before / after and
  the dualness of every group — for ALL axis groups of natural numbers in which no group is empty
  (Python raises `ValueError: min() arg is an empty sequence` / IndexError otherwise).  No hypothesis that the
  axes are distinct or in range is needed.  The dict `ax2group` is characterised by its `None` entries
  (`ax2group[ax] is None` iff the axis is in no group); the dict `new_axes` has no counterpart in the model
  and is not tied.
  Not imported by SymmModel.lean; build with `lake build SymmModel.Gen.Tie`.
-/
import SymmModel.Gen.TieDict
import SymmModel.Model.Fuse

namespace SymmModel.Gen
open SymmModel

abbrev AxDict := List (Int × Option Int)

/-! ### dict facts -/

theorem pyDictGet_set {κ β : Type} [BEq κ] [LawfulBEq κ] (d : List (κ × β)) (k k' : κ) (v : β) :
    pyDictGet (pyDictSet d k v) k' = if k == k' then some v else pyDictGet d k' := by
  induction d with
  | nil => simp [pyDictSet, pyDictGet]
  | cons p rest ih =>
    obtain ⟨a, b⟩ := p
    by_cases h : a = k
    · subst h
      simp only [pyDictSet, beq_self_eq_true, if_true, pyDictGet]
      by_cases h2 : a = k' <;> simp [h2]
    · have h' : (a == k) = false := by simpa using h
      simp only [pyDictSet, h', Bool.false_eq_true, if_false, pyDictGet, ih]
      by_cases h2 : a = k'
      · subst h2
        have h3 : (k == a) = false := by simpa using (fun e : k = a => h e.symm)
        simp [h3]
      · have h3 : (a == k') = false := by simpa using h2
        simp [h3]

/-- `ax2group[k] is None` (a missing key counts as `None`: the totalised KeyError) -/
def isNoneAt (d : AxDict) (k : Int) : Bool := Option.isNone (pyDictGetItem d k)

theorem isNoneAt_nil (k : Int) : isNoneAt [] k = true := rfl

theorem isNoneAt_set (d : AxDict) (ax k g : Int) :
    isNoneAt (pyDictSet d ax (some g)) k = (!(ax == k) && isNoneAt d k) := by
  unfold isNoneAt pyDictGetItem
  rw [pyDictGet_set]
  by_cases h : (ax == k) = true
  · simp [h]
  · simp [h]

theorem isNoneAt_setdefault (d : AxDict) (i k : Int) :
    isNoneAt (pyDictSetdefault d i none).1 k = isNoneAt d k := by
  unfold pyDictSetdefault
  cases h : pyDictGet d i with
  | some x => rfl
  | none =>
    show isNoneAt (pyDictSet d i none) k = _
    unfold isNoneAt pyDictGetItem
    rw [pyDictGet_set]
    by_cases h2 : (i == k) = true
    · have : i = k := by simpa using h2
      subst this
      simp only [h, beq_self_eq_true, if_true, Option.getD_some, Option.getD_none]
      rfl
    · simp [h2]

/-! ### the loops of the generated definition -/

/-- `for ax in gaxes: ax2group[ax] = g` -/
def setGroup (g : Int) (d : AxDict) (gaxes : List Int) : AxDict :=
  gaxes.foldl (fun d ax => pyDictSet d ax (some g)) d

/-- body of the first loop on the state `(group_duals, ax2group, group_singlets)` -/
def step1 (duals : List Bool) (st : List Bool × AxDict × List Int) (it : Int × List Int) :
    List Bool × AxDict × List Int :=
  (st.1 ++ [pyGet duals (pyGet it.2 0)], setGroup it.1 st.2.1 it.2,
   if (pyLen it.2 == (1 : Int)) then st.2.2 ++ [it.1] else st.2.2)

/-- the generated definition, with the loop bodies named (definitional) -/
def cfgiClean (G : List (List Int)) (duals : List Bool) :
    (Int × (List Int) × Int × (List Int) × Int × (List Int) × (List Int) × AxDict × (List Bool) × (List (Int × Int))) :=
  let ndim := pyLen duals
  let s1 := (pyEnumerate G).foldl (step1 duals) ([], [], [])
  let ax2group := (pyRange ndim).foldl (fun (d : AxDict) (i : Int) => (pyDictSetdefault d i none).1) s1.2.1
  let position := pyMin (G.map pyMin)
  let before := (pyRange position).filter (fun ax => isNoneAt ax2group ax)
  let after := (pyRange2 position ndim).filter (fun ax => isNoneAt ax2group ax)
  let perm := before ++ G.flatMap (fun g => g) ++ after
  let num := pyLen G
  let na0 : List (Int × Int) := pyDictOfList (before.map (fun ax => (ax, ax)))
  let na1 := (pyEnumerate G).foldl (fun (d : List (Int × Int)) (it : Int × List Int) =>
      it.2.foldl (fun d ax => pyDictSet d ax (position + it.1)) d) na0
  let na2 := (pyEnumerate after).foldl (fun (d : List (Int × Int)) (it : Int × Int) =>
      pyDictSet d it.2 ((position + num) + it.1)) na1
  (num, s1.2.2, (pyLen before + num) + pyLen after, perm, position, before, after, ax2group, s1.1, na2)

theorem cfgi_unfold (G : List (List Int)) (duals : List Bool) :
    calc_fuse_group_info G duals = cfgiClean G duals := rfl

/-- the dict after the first loop, enumeration starting at `k` -/
def dict1 : AxDict → List (List Int) → Nat → AxDict
  | d, [], _ => d
  | d, g :: gs, k => dict1 (setGroup (Int.ofNat k) d g) gs (k + 1)

theorem loop1 (duals : List Bool) (l : List (List Int)) (k : Nat) (gd : List Bool) (d : AxDict) (gs : List Int) :
    ((l.zipIdx k).map (fun p => (Int.ofNat p.2, p.1))).foldl (step1 duals) (gd, d, gs)
      = (gd ++ l.map (fun g => pyGet duals (pyGet g 0)), dict1 d l k,
         gs ++ ((l.zipIdx k).filter (fun p => pyLen p.1 == (1 : Int))).map (fun p => Int.ofNat p.2)) := by
  induction l generalizing k gd d gs with
  | nil => simp [dict1]
  | cons g rest ih =>
    rw [List.zipIdx_cons, List.map_cons, List.foldl_cons]
    simp only [step1]
    by_cases h : (pyLen g == (1 : Int)) = true
    · rw [if_pos h, ih, dict1, List.filter_cons, if_pos h]; simp
    · rw [if_neg h, ih, dict1, List.filter_cons, if_neg h]; simp

theorem isNoneAt_setGroup (g : Int) (d : AxDict) (gaxes : List Int) (k : Int) :
    isNoneAt (setGroup g d gaxes) k = (!(gaxes.contains k) && isNoneAt d k) := by
  unfold setGroup
  induction gaxes generalizing d with
  | nil => simp
  | cons a as ih =>
    rw [List.foldl_cons, ih, isNoneAt_set, List.contains_cons, show (a == k) = (k == a) from BEq.comm]
    cases (k == a) <;> cases (as.contains k) <;> cases (isNoneAt d k) <;> rfl

theorem isNoneAt_dict1 (d : AxDict) (l : List (List Int)) (k0 : Nat) (k : Int) :
    isNoneAt (dict1 d l k0) k = (!(l.flatten.contains k) && isNoneAt d k) := by
  induction l generalizing d k0 with
  | nil => simp [dict1]
  | cons g rest ih =>
    rw [dict1, ih, isNoneAt_setGroup, List.flatten_cons, List.contains_append]
    cases (g.contains k) <;> cases (rest.flatten.contains k) <;> simp

theorem isNoneAt_loop2 (l : List Int) (d : AxDict) (k : Int) :
    isNoneAt (l.foldl (fun (d : AxDict) (i : Int) => (pyDictSetdefault d i none).1) d) k = isNoneAt d k := by
  induction l generalizing d with
  | nil => rfl
  | cons i is ih => rw [List.foldl_cons, ih, isNoneAt_setdefault]

/-! ### `min` -/

theorem fm_min (a b : Int) (l : List Int) : l.foldl min (min a b) = min a (l.foldl min b) := by
  induction l generalizing b with
  | nil => rfl
  | cons x xs ih => rw [List.foldl_cons, List.foldl_cons, Int.min_assoc, ih]

theorem fm_flatten (a : Int) (gs : List (List Int)) (h : ∀ g ∈ gs, g ≠ []) :
    gs.flatten.foldl min a = (gs.map pyMin).foldl min a := by
  induction gs generalizing a with
  | nil => rfl
  | cons g rest ih =>
    have hr : ∀ g ∈ rest, g ≠ [] := fun x hx => h x (List.mem_cons_of_mem _ hx)
    cases g with
    | nil => exact absurd rfl (h [] (List.mem_cons_self ..))
    | cons y ys =>
      rw [List.flatten_cons, List.foldl_append, ih _ hr, List.map_cons, List.foldl_cons, List.foldl_cons, fm_min]
      rfl

/-- `min((min(g) for g in groups))` is the minimum of all grouped axes when no group is empty -/
theorem pyMin_groups (gs : List (List Int)) (h : ∀ g ∈ gs, g ≠ []) :
    pyMin (gs.map pyMin) = pyMin gs.flatten := by
  cases gs with
  | nil => rfl
  | cons g rest =>
    have hr : ∀ g ∈ rest, g ≠ [] := fun x hx => h x (List.mem_cons_of_mem _ hx)
    cases g with
    | nil => exact absurd rfl (h [] (List.mem_cons_self ..))
    | cons y ys =>
      show (rest.map pyMin).foldl min (ys.foldl min y) = (ys ++ rest.flatten).foldl min y
      rw [List.foldl_append, fm_flatten _ _ hr]

theorem foldl_min_ofNat (a : Nat) (l : List Nat) :
    (l.map Int.ofNat).foldl min (Int.ofNat a) = Int.ofNat (l.foldl min a) := by
  induction l generalizing a with
  | nil => rfl
  | cons x xs ih =>
    rw [List.map_cons, List.foldl_cons, List.foldl_cons, ← ih]
    congr 1
    simp only [Int.ofNat_eq_natCast]
    omega

theorem pyMin_ofNat (l : List Nat) : pyMin (l.map Int.ofNat) = Int.ofNat (l.foldl min (l.headD 0)) := by
  cases l with
  | nil => rfl
  | cons a as =>
    show (as.map Int.ofNat).foldl min (Int.ofNat a) = Int.ofNat (as.foldl min (min a a))
    rw [Nat.min_self, foldl_min_ofNat]

/-! ### ranges -/

theorem range_filter_le (p n : Nat) :
    (List.range n).filter (fun ax => decide (p ≤ ax)) = (List.range (n - p)).map (fun i => p + i) := by
  induction n with
  | zero => simp
  | succ n ih =>
    rw [List.range_succ, List.filter_append, ih]
    by_cases h : p ≤ n
    · have e : n + 1 - p = (n - p) + 1 := by omega
      rw [e, List.range_succ, List.map_append]
      simp only [List.filter_cons, List.filter_nil, decide_eq_true_eq, h, if_true, List.map_cons, List.map_nil]
      congr 2; omega
    · have e : n + 1 - p = n - p := by omega
      rw [e]
      simp [h]

theorem pyRange2_ofNat (p n : Nat) :
    pyRange2 (Int.ofNat p) (Int.ofNat n) = ((List.range n).filter (fun ax => decide (p ≤ ax))).map Int.ofNat := by
  unfold pyRange2
  rw [range_filter_le, List.map_map]
  have e : (Int.ofNat n - Int.ofNat p).toNat = n - p := by simp only [Int.ofNat_eq_natCast]; omega
  rw [e]
  apply List.map_congr_left
  intro i _
  simp only [Function.comp, Int.ofNat_eq_natCast]; omega

/-! ### the tie -/

theorem flatten_map_ofNat (groups : List (List Nat)) :
    (groups.map (·.map Int.ofNat)).flatten = groups.flatten.map Int.ofNat := by
  rw [List.map_flatten]

theorem filter_isNone_ofNat (groups : List (List Nat)) (d : AxDict)
    (hd : ∀ k, isNoneAt d k = !((groups.map (·.map Int.ofNat)).flatten.contains k)) (l : List Nat) :
    (l.map Int.ofNat).filter (fun ax => isNoneAt d ax)
      = (l.filter (fun ax => !groups.flatten.contains ax)).map Int.ofNat := by
  rw [List.filter_map]
  congr 1
  apply List.filter_congr
  intro ax _
  simp only [Function.comp, hd, flatten_map_ofNat, contains_map_ofNat]

/-- **`calc_fuse_group_info` (generated from the source) computes the model's fuse plan.**  For all groups of
    natural axes without an empty group and all `duals`: the eight components the model has are equal, and
    `ax2group[k] is None` exactly for the axes that are in no group. -/
theorem calc_fuse_group_info_eq (groups : List (List Nat)) (duals : List Bool) (hg : ∀ g ∈ groups, g ≠ []) :
    let r := calc_fuse_group_info (groups.map (·.map Int.ofNat)) duals
    let m := calcFuseGroupInfo groups duals
    r.1 = Int.ofNat m.numGroups
    ∧ r.2.1 = m.singlets.map Int.ofNat
    ∧ r.2.2.1 = Int.ofNat m.newNdim
    ∧ r.2.2.2.1 = m.perm.map Int.ofNat
    ∧ r.2.2.2.2.1 = Int.ofNat m.position
    ∧ r.2.2.2.2.2.1 = m.axesBefore.map Int.ofNat
    ∧ r.2.2.2.2.2.2.1 = m.axesAfter.map Int.ofNat
    ∧ r.2.2.2.2.2.2.2.2.1 = m.groupDuals
    ∧ (∀ k : Int, Option.isNone (pyDictGetItem r.2.2.2.2.2.2.2.1 k)
          = !((groups.flatten.map Int.ofNat).contains k)) := by
  intro r m
  have hr : r = cfgiClean (groups.map (·.map Int.ofNat)) duals := cfgi_unfold _ _
  set G := groups.map (·.map Int.ofNat) with hG
  have hGne : ∀ g ∈ G, g ≠ [] := by
    intro g hgm
    rw [hG, List.mem_map] at hgm
    obtain ⟨g0, hg0, rfl⟩ := hgm
    intro e
    exact hg g0 hg0 (List.map_eq_nil_iff.mp e)
  -- first loop
  have hs1 : (pyEnumerate G).foldl (step1 duals) ([], [], [])
      = (G.map (fun g => pyGet duals (pyGet g 0)), dict1 [] G 0,
         ((G.zipIdx 0).filter (fun p => pyLen p.1 == (1 : Int))).map (fun p => Int.ofNat p.2)) := by
    have := loop1 duals G 0 [] [] []
    simpa [pyEnumerate] using this
  -- the dict
  have hdict : ∀ (l : List Int) k, isNoneAt (l.foldl
      (fun (d : AxDict) (i : Int) => (pyDictSetdefault d i none).1) (dict1 [] G 0)) k = !(G.flatten.contains k) := by
    intro l k
    rw [isNoneAt_loop2, isNoneAt_dict1, isNoneAt_nil, Bool.and_true]
  -- position
  have hpos : pyMin (G.map pyMin) = Int.ofNat (groups.flatten.foldl min (groups.flatten.headD 0)) := by
    rw [pyMin_groups G hGne, hG, flatten_map_ofNat, pyMin_ofNat]
  have hbefore := fun l => filter_isNone_ofNat groups _ (hdict l)
  have hlen : pyLen duals = Int.ofNat duals.length := rfl
  have hm : m = calcFuseGroupInfo groups duals := rfl
  rw [hr]
  unfold cfgiClean
  simp only [hs1, hpos, hlen, pyRange_ofNat, pyRange2_ofNat, hbefore]
  rw [hm]
  unfold calcFuseGroupInfo
  simp only []
  refine ⟨?_, ?_, ?_, ?_, trivial, trivial, trivial, ?_, ?_⟩
  · simp [pyLen, hG]
  · rw [hG, List.zipIdx_map, List.filter_map, List.map_map, List.map_map]
    congr 1
    apply List.filter_congr
    intro p _
    simp only [Function.comp, Prod.map, pyLen, List.length_map, id]
    by_cases h : p.1.length = 1
    · simp [h]
    · have : ¬ (Int.ofNat p.1.length = 1) := by simp only [Int.ofNat_eq_natCast]; omega
      simp [h, this]
  · simp only [pyLen, List.length_map, hG, Int.ofNat_eq_natCast]
    omega
  · rw [List.map_append, List.map_append, hG]
    congr 2
    rw [List.flatMap_id', ← hG, hG, flatten_map_ofNat]
  · rw [hG, List.map_map]
    apply List.map_congr_left
    intro g _
    simp only [Function.comp]
    have e0 : pyGet (g.map Int.ofNat) 0 = Int.ofNat (g.headD 0) := by
      cases g <;> rfl
    rw [e0, pyGet_ofNat]
    rfl
  · intro k
    have := hdict ((List.range duals.length).map Int.ofNat) k
    rw [hG, flatten_map_ofNat] at this
    exact this

example : ∀ g ∈ ([[2, 1], [4]] : List (List Nat)), g ≠ [] := by decide

example : calc_fuse_group_info [[2, 1], [4]] [true, false, false, true, true, false]
    = (2, [1], 5, [0, 2, 1, 4, 3, 5], 1, [0], [3, 5],
       [(2, some 0), (1, some 0), (4, some 1), (0, none), (3, none), (5, none)], [false, true],
       [(0, 0), (2, 1), (1, 1), (4, 2), (3, 3), (5, 4)]) := by rfl

/-- transfer of a C05 fuse-plan fact to the generated code: the permutation it computes is a permutation of
    the axes when the grouped axes are distinct and in range (proved for the model in Props/C05) — here the
    direct corollaries that need no further hypothesis: lengths -/
theorem calc_fuse_group_info_new_ndim (groups : List (List Nat)) (duals : List Bool) (hg : ∀ g ∈ groups, g ≠ []) :
    (calc_fuse_group_info (groups.map (·.map Int.ofNat)) duals).2.2.1
      = Int.ofNat ((calcFuseGroupInfo groups duals).axesBefore.length + groups.length
          + (calcFuseGroupInfo groups duals).axesAfter.length) :=
  (calc_fuse_group_info_eq groups duals hg).2.2.1

end SymmModel.Gen
