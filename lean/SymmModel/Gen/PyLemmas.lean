/-
  SymmModel.Gen.PyLemmas — facts about the built-ins of Gen/Prelude.lean on natural-number arguments
  (shared by the Tie files).  Hand-written; core Lean only.
-/
import SymmModel.Gen.Src

namespace SymmModel.Gen

theorem pyGet_ofNat {α : Type} [Inhabited α] (l : List α) (i : Nat) :
    pyGet l (Int.ofNat i) = l.getD i default := by
  simp [pyGet]

theorem pyRange_ofNat (a : Nat) : pyRange (Int.ofNat a) = (List.range a).map Int.ofNat := by
  simp [pyRange]

theorem getD_map_ofNat (l : List Nat) (i : Nat) :
    (l.map Int.ofNat).getD i 0 = Int.ofNat (l.getD i 0) := by
  simp only [List.getD_eq_getElem?_getD, List.getElem?_map]
  cases l[i]? <;> rfl

theorem contains_map_ofNat (l : List Nat) (o : Nat) :
    (l.map Int.ofNat).contains (Int.ofNat o) = l.contains o := by
  induction l with
  | nil => rfl
  | cons a as ih =>
    rw [List.map_cons, List.contains_cons, List.contains_cons, ih]
    congr 1
    by_cases h : o = a
    · subst h; simp
    · have h1 : (o == a) = false := by simpa using h
      have h2 : (Int.ofNat o == Int.ofNat a) = false := by
        simp only [beq_eq_false_iff_ne, ne_eq, Int.ofNat_eq_natCast, Int.natCast_inj]; exact h
      rw [h1, h2]

/-- (S3) `l[:r]` for a natural `r` -/
theorem pySlice_take_ofNat {α : Type} (l : List α) (r : Nat) : pySlice l none (some (Int.ofNat r)) = l.take r := by
  unfold pySlice pyClamp
  have : ¬ (Int.ofNat r < 0) := by simp
  simp only [this, if_false, List.drop_zero]
  show List.take (min r l.length) l = _
  by_cases h : r ≤ l.length
  · rw [Nat.min_eq_left h]
  · rw [Nat.min_eq_right (by omega), List.take_length, List.take_of_length_le (by omega)]

/-- (S3) a loop that only appends its item builds the list of the items -/
theorem foldl_append_item {α : Type} (f : List α → α → List α) (hf : ∀ st x, f st x = st ++ [x]) (l init : List α) :
    l.foldl f init = init ++ l := by
  induction l generalizing init with
  | nil => simp
  | cons a as ih => rw [List.foldl_cons, hf, ih]; simp

end SymmModel.Gen
