/-
  SymmModel.Gen.Tie — all translation ties (build target: `lake build SymmModel.Gen.Tie`).

    Gen/Prelude.lean    fixed meaning of the Python built-ins (hand-written, core Lean)
    Gen/Src.lean        GENERATED from symmray's current source by harness/translate.py
    Gen/PyLemmas.lean   facts about the built-ins
    Gen/TieSym.lean     C17: generated symmetry classes = `Sym.valid/combine/sign/parity`; the group laws
    Gen/TieKoszul.lean  C03: generated `calc_phase_permutation` = `koszul`; the inversion-parity theorem
    Gen/TieUtil.lean    C13 & helpers: `argsort`, `permuted`, `without`

  None of these is imported by SymmModel.lean (the main build must not depend on symmray's source text).
-/
import SymmModel.Gen.TieSym
import SymmModel.Gen.TieKoszul
import SymmModel.Gen.TieUtil
