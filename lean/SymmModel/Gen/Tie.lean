/-
  SymmModel.Gen.Tie — all translation ties (build target: `lake build SymmModel.Gen.Tie`).

    Gen/Prelude.lean    fixed meaning of the Python built-ins (hand-written, core Lean)
    Gen/Src.lean        GENERATED from symmray's current source by harness/translate.py
    Gen/PyLemmas.lean   facts about the built-ins
    Gen/TieSym.lean     C17: generated symmetry classes = `Sym.valid/combine/sign/parity`; the group laws
    Gen/TieKoszul.lean  C03: generated `calc_phase_permutation` = `koszul`; the inversion-parity theorem
    Gen/TieUtil.lean    C13 & helpers: `argsort`, `permuted`, `without`
    Gen/TieDict.lean    (R1) C01/C06/C19: `dicts_dont_conflict` = `dictsDontConflict` (= `cmAgree`), `replace_with_seq`,
                        `AbelianArray.is_valid_sector` = `isValidSector`, the coordination counting of
                        `ham_*_from_edges` = `coordTable`
    Gen/TieFuse.lean    (R1) C05: `calc_fuse_group_info` = the fuse plan `calcFuseGroupInfo`
    Gen/TieRand.lean    (R1) C16: `get_u1_charges` = `u1Charges`
    Gen/TieFermi.lean   (R1) C04: `oddpos_dag` = `oddposDag`; (S3) the label scan of `resolve_combined_oddpos` (a `while` loop with
                        explicit fuel) = `resolveScan` / `mergeOddpos`
    Gen/TieTrunc.lean   (S3) C13: the integer tail of `calc_sub_max_bonds` = the model's distribution of the remainder
    Gen/TieNet.lean     (S3) C19: `parse_edges_to_site_info` = `parseEdges` (format templates / formatted names as declared opaque
                        constructors, the heterogeneous inner dict as a declared record, aliases of records stored in a dict)
    (S3) in Gen/TieRand.lean: `get_u1u1_charges` = `u1u1Charges`, `choose_duals` = `chooseDuals`

  None of these is imported by SymmModel.lean (the main build must not depend on symmray's source text).
-/
import SymmModel.Gen.TieSym
import SymmModel.Gen.TieKoszul
import SymmModel.Gen.TieUtil
import SymmModel.Gen.TieDict
import SymmModel.Gen.TieFuse
import SymmModel.Gen.TieRand
import SymmModel.Gen.TieFermi
import SymmModel.Gen.TieTrunc
import SymmModel.Gen.TieNet
