/-
  SymmModel.Gen.TieTrunc — translation tie (task S3) for the INTEGER TAIL of `linalg.calc_sub_max_bonds`:

      rem = max_bond - sum(sub_max_bonds)
      for i in argsort(sub_max_bonds)[:rem]:
          sub_max_bonds[i] += 1
      return tuple(sub_max_bonds)

  translated as the fragment `calc_sub_max_bonds.tail (max_bond) (sub_max_bonds)` — the local list `sub_max_bonds`
  as it is AFTER the float step `[int(frac * sz) for sz in sizes]` is a parameter.  The float head (`max_bond /
  sum(sizes)`, `frac >= 1.0`, `int(frac * sz)`) stays OUTSIDE the translation tie: `calc_sub_max_bonds` as a whole
  is still reported untranslatable (float division); the model's `baseSplit` is tied to it only behaviourally (C13
  compares the two exhaustively for `sum(sizes) ≤ 24`).

  `calc_sub_max_bonds_tail_eq`: for EVERY list of naturals `base` and every `mb` with `sum base ≤ mb` (Python's
  `[:rem]` with a negative `rem` would drop from the end — excluded; the model's split satisfies it, `split_facts`)
  the generated tail is the model's `((argsortNat base).take (mb - sum base)).foldl bump base`.
  `calcSubMaxBonds_eq_tail`: the model's `calcSubMaxBonds` on its truncating branch is the generated tail applied
  to the model's `baseSplit`.
  Not imported by SymmModel.lean; build with `lake build SymmModel.Gen.Tie`.
-/
import SymmModel.Gen.TieUtil
import SymmModel.Proofs.TruncLemmas

namespace SymmModel.Gen
open SymmModel SymmModel.TruncLemmas

theorem pySum_map_ofNat (l : List Nat) : pySum (l.map Int.ofNat) = Int.ofNat (sumNat l) := by
  unfold pySum
  have h : ∀ (l : List Nat) (acc : Nat),
      (l.map Int.ofNat).foldl (· + ·) (Int.ofNat acc) = Int.ofNat (acc + sumNat l) := by
    intro l
    induction l with
    | nil => intro acc; simp [sumNat]
    | cons a as ih =>
      intro acc
      rw [List.map_cons, List.foldl_cons]
      have : Int.ofNat acc + Int.ofNat a = Int.ofNat (acc + a) := rfl
      rw [this, ih (acc + a)]
      simp only [sumNat, List.foldr_cons, Nat.add_assoc]
  simpa using h l 0

/-- `l[i] += 1` on a list of naturals = the model's `bump` (also out of range: both leave the list alone) -/
theorem pyListSet_bump (b : List Nat) (i : Nat) :
    pyListSet (b.map Int.ofNat) (Int.ofNat i) (pyGet (b.map Int.ofNat) (Int.ofNat i) + 1)
      = (bump b i).map Int.ofNat := by
  rw [pyGet_ofNat]
  unfold pyListSet bump
  have h0 : (0 : Int) ≤ Int.ofNat i := Int.natCast_nonneg i
  rw [if_pos h0]
  show (b.map Int.ofNat).set i _ = _
  induction b generalizing i with
  | nil => simp
  | cons x xs ih =>
    cases i with
    | zero => simp
    | succ j =>
      have := ih j (Int.natCast_nonneg j)
      simp only [List.map_cons, List.set_cons_succ, List.getD_cons_succ, List.modify_succ_cons] at this ⊢
      rw [this]

theorem tail_fold (idx b : List Nat) :
    (idx.map Int.ofNat).foldl (fun (st : List Int) (it : Int) => pyListSet st it (pyGet st it + 1)) (b.map Int.ofNat)
      = (idx.foldl bump b).map Int.ofNat := by
  induction idx generalizing b with
  | nil => rfl
  | cons i is ih => rw [List.map_cons, List.foldl_cons, List.foldl_cons, pyListSet_bump, ih]

/-- the generated integer tail of `calc_sub_max_bonds` = the model's distribution of the remainder, for all inputs
    with `sum base ≤ mb` -/
theorem calc_sub_max_bonds_tail_eq (base : List Nat) (mb : Nat) (h : sumNat base ≤ mb) :
    calc_sub_max_bonds.tail (Int.ofNat mb) (base.map Int.ofNat)
      = (((argsortNat base).take (mb - sumNat base)).foldl bump base).map Int.ofNat := by
  unfold calc_sub_max_bonds.tail
  rw [pySum_map_ofNat, argsort_eq]
  have hr : Int.ofNat mb - Int.ofNat (sumNat base) = Int.ofNat (mb - sumNat base) := by
    simp only [Int.ofNat_eq_natCast]; omega
  simp only [hr]
  rw [pySlice_take_ofNat, ← List.map_take]
  exact tail_fold _ _

example : sumNat [1, 0, 2] ≤ 5 := by decide
example : calc_sub_max_bonds.tail 5 [1, 0, 2] = [2, 1, 2] := by decide

/-- the model's `calc_sub_max_bonds` on its truncating branch (`0 ≤ max_bond < sum(sizes)`) is the generated tail
    applied to the model's float-free `baseSplit` (the part that is NOT translated) -/
theorem calcSubMaxBonds_eq_tail (sizes : List Nat) (mb : Nat) (h : mb < sumNat sizes) :
    (calcSubMaxBonds sizes (mb : Int)).map Int.ofNat
      = calc_sub_max_bonds.tail (Int.ofNat mb) ((baseSplit sizes mb).map Int.ofNat) := by
  rw [calc_sub_max_bonds_tail_eq _ _ (split_facts sizes mb h).1, calcSubMaxBonds_eq sizes mb h]

example : (2 : Nat) < sumNat [2, 3] := by decide

end SymmModel.Gen
