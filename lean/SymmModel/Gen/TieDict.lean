/-
  SymmModel.Gen.TieDict — translation tie (task R1) for the dict / tuple helpers:
    `abelian_core.dicts_dont_conflict`  = `dictsDontConflict` (Model/Check.lean)  (= `AssocP.cmAgree` on charge maps)
    `abelian_core.replace_with_seq`     = `replaceWithSeq`   (Model/Basic.lean)
    `AbelianArray.is_valid_sector`      = `Arr.isValidSector` / `RArr.isValidSector` (as a function of the
                                          symmetry's `sign` / `combine`, the indices' dualness and the charge)
    the coordination counting of `hamiltonians.ham_*_from_edges` = `coordTable` (Model/Ham.lean)
  The generated definitions are in Gen/Src.lean (regenerated from the source on every run).
  Not imported by SymmModel.lean; build with `lake build SymmModel.Gen.Tie`.
-/
import SymmModel.Gen.PyLemmas
import SymmModel.Model.Check
import SymmModel.Model.Ham
import SymmModel.Props.C01c

namespace SymmModel.Gen
open SymmModel SymmModel.Check SymmModel.CheckP

/-! ### the dict built-ins of the Prelude are the model's association-list functions -/

theorem pyDictGet_eq_alookup {κ β : Type} [BEq κ] (d : List (κ × β)) (k : κ) :
    pyDictGet d k = alookup d k := by
  induction d with
  | nil => rfl
  | cons p rest ih => obtain ⟨a, b⟩ := p; simp only [pyDictGet, alookup, ih]

theorem pyDictSet_eq_ainsert {κ β : Type} [BEq κ] (d : List (κ × β)) (k : κ) (v : β) :
    pyDictSet d k v = ainsert d k v := by
  induction d with
  | nil => rfl
  | cons p rest ih => obtain ⟨a, b⟩ := p; simp only [pyDictSet, ainsert, ih]

theorem pyDictOfList_eq_adict {κ β : Type} [BEq κ] (ps : List (κ × β)) : pyDictOfList ps = adict ps := by
  unfold pyDictOfList adict
  congr 1
  funext d p
  exact pyDictSet_eq_ainsert d p.1 p.2

/-! ### `dicts_dont_conflict` -/

/-- the generated loop with early `return False` = the model's `dictsDontConflict` (for ALL association
    lists; no key-distinctness needed) -/
theorem dicts_dont_conflict_eq {κ β : Type} [BEq κ] [BEq β] (da db : List (κ × β)) :
    dicts_dont_conflict da db = dictsDontConflict (fun (x y : β) => x != y) da db := by
  unfold dicts_dont_conflict dictsDontConflict
  induction da with
  | nil => rfl
  | cons p rest ih =>
    obtain ⟨k, va⟩ := p
    rw [List.all_cons, ← ih, pyForReturn]
    simp only [pyDictGet_eq_alookup]
    cases alookup db k with
    | none => simp
    | some vb => cases h : (va != vb) <;> simp [h]

/-- on charge maps `dicts_dont_conflict` is the model's `cmAgree` (the hypothesis of the contraction theorems) -/
theorem dicts_dont_conflict_eq_cmAgree (c1 c2 : List (Charge × Nat)) :
    dicts_dont_conflict (cmToRaw c1) (cmToRaw c2) = AssocP.cmAgree c1 c2 := by
  rw [dicts_dont_conflict_eq]; exact C01.ddc_raw_eq_cmAgree c1 c2

/-- symmetric on dicts (distinct keys), transferred from C01c -/
theorem dicts_dont_conflict_symm {da db : List (Charge × Int)}
    (ha : (da.map (·.1)).Nodup) (hb : (db.map (·.1)).Nodup) :
    dicts_dont_conflict da db = dicts_dont_conflict db da := by
  rw [dicts_dont_conflict_eq, dicts_dont_conflict_eq]; exact C01.dictsDontConflict_symm ha hb

example : (([((0, 0), 1), ((1, 0), 2)] : List (Charge × Int)).map (·.1)).Nodup := by decide

example : dicts_dont_conflict [((1 : Int), (2 : Int)), (3, 4)] [(3, 4), (5, 6)] = true
    ∧ dicts_dont_conflict [((1 : Int), (2 : Int)), (3, 4)] [(3, 5)] = false := by decide

/-! ### `replace_with_seq` -/

theorem pyClamp_ofNat (n i : Nat) : pyClamp n (Int.ofNat i) = min i n := by
  unfold pyClamp
  have : ¬ (Int.ofNat i < 0) := by simp
  rw [if_neg this]; simp

/-- `replace_with_seq(it, index, seq)` for every natural `index` (also beyond the end) -/
theorem replace_with_seq_eq {α : Type} [Inhabited α] (l : List α) (i : Nat) (seq : List α) :
    replace_with_seq l (Int.ofNat i) seq = replaceWithSeq l i seq := by
  unfold replace_with_seq replaceWithSeq pySlice
  have e : (Int.ofNat i + 1) = Int.ofNat (i + 1) := rfl
  simp only [e, pyClamp_ofNat, List.drop_zero, List.take_length]
  congr 1
  · congr 1
    by_cases h : i ≤ l.length
    · rw [Nat.min_eq_left h]
    · rw [Nat.min_eq_right (by omega), List.take_of_length_le (by omega), List.take_of_length_le (by omega)]
  · by_cases h : i + 1 ≤ l.length
    · rw [Nat.min_eq_left h]
    · rw [Nat.min_eq_right (by omega), List.drop_of_length_le (by omega), List.drop_of_length_le (by omega)]

example : replace_with_seq [10, 20, 30] 1 [7, 8] = [10, 7, 8, 30] := by decide

/-- Python's negative `index` is NOT the model's: `replace_with_seq(it, -1, seq)` keeps the whole of `it`
    after `seq` (`it[0:]`), documented here so that the natural-number hypothesis above is visible -/
example : replace_with_seq [10, 20, 30] (-1) [7] = [10, 20, 7, 10, 20, 30] := by decide

/-! ### `AbelianArray.is_valid_sector` -/

theorem zip_map_eq_zipWith {α β γ δ : Type} (f : α → δ → γ) (g : β → δ) (xs : List α) (ys : List β) :
    (List.zip xs ys).map (fun (p : α × β) => f p.1 (g p.2)) = List.zipWith f xs (ys.map g) := by
  induction xs generalizing ys with
  | nil => rfl
  | cons x xs ih =>
    cases ys with
    | nil => rfl
    | cons y ys => simp [ih]

/-- the generated method, as a function of the symmetry's `sign`/`combine`, the indices (through `.dual`) and
    the charge, is `sectorCharge … == charge` for ANY sign / combine -/
theorem is_valid_sector_generic {κ ι : Type} [BEq κ] (sign : κ → Bool → κ) (combine : List κ → κ)
    (indices : List ι) (charge : κ) (dual : ι → Bool) (sector : List κ) :
    AbelianArray.is_valid_sector sign combine indices charge dual sector
      = (combine (List.zipWith sign sector (indices.map dual)) == charge) := by
  unfold AbelianArray.is_valid_sector
  have := zip_map_eq_zipWith sign dual sector indices
  simp only [] at this ⊢
  rw [← this]

/-- `is_valid_sector` of the value model -/
theorem is_valid_sector_eq {R : Type} (a : Arr R) (sector : Sector) :
    AbelianArray.is_valid_sector (fun c d => a.sym.sign c d) (fun cs => a.sym.combine cs) a.indices a.charge
      Index.dual sector = a.isValidSector sector := by
  rw [is_valid_sector_generic]; rfl

/-- `is_valid_sector` of the raw audit model (Model/Check.lean) -/
theorem is_valid_sector_eq_raw (a : RArr) (sector : Sector) :
    AbelianArray.is_valid_sector (fun c d => a.sym.sign c d) (fun cs => a.sym.combine cs) a.indices a.charge
      RIndex.dual sector = a.isValidSector sector := by
  rw [is_valid_sector_generic]; rfl

/-! ### coordination counting of `ham_tfim_from_edges`, `ham_fermi_hubbard_from_edges`,
    `ham_fermi_hubbard_spinless_from_edges` -/

def castTable (t : List (Site × Nat)) : List (Site × Int) := t.map (fun p => (p.1, Int.ofNat p.2))

theorem alookup_castTable (t : List (Site × Nat)) (k : Site) :
    alookup (castTable t) k = (alookup t k).map Int.ofNat := by
  induction t with
  | nil => rfl
  | cons p rest ih =>
    obtain ⟨a, b⟩ := p
    show alookup ((a, Int.ofNat b) :: castTable rest) k = _
    simp only [alookup, ih]
    split <;> rfl

theorem ainsert_castTable (t : List (Site × Nat)) (k : Site) (v : Nat) :
    ainsert (castTable t) k (Int.ofNat v) = castTable (ainsert t k v) := by
  induction t with
  | nil => rfl
  | cons p rest ih =>
    obtain ⟨a, b⟩ := p
    show ainsert ((a, Int.ofNat b) :: castTable rest) k (Int.ofNat v) = _
    simp only [ainsert, ih]
    split <;> rfl

theorem ainsert_ainsert_same (t : List (Site × Nat)) (k : Site) (v w : Nat) :
    ainsert (ainsert t k v) k w = ainsert t k w := by
  induction t with
  | nil => simp [ainsert]
  | cons p rest ih =>
    obtain ⟨a, b⟩ := p
    by_cases h : (a == k) = true
    · simp [ainsert, h]
    · simp [ainsert, h, ih]

/-- one `coordinations[c] = coordinations.setdefault(c, 0) + 1` -/
theorem bump_eq (t : List (Site × Nat)) (k : Site) :
    pyDictSet (pyDictSetdefault (castTable t) k (0 : Int)).1 k ((pyDictSetdefault (castTable t) k (0 : Int)).2 + 1)
      = castTable (ainsert t k ((alookup t k).getD 0 + 1)) := by
  unfold pyDictSetdefault
  rw [pyDictGet_eq_alookup, alookup_castTable]
  cases h : alookup t k with
  | none =>
    simp only [Option.map_none, Option.getD_none, pyDictSet_eq_ainsert]
    rw [show (0 : Int) = Int.ofNat 0 from rfl, ainsert_castTable, show (Int.ofNat 0 + 1 : Int) = Int.ofNat (0 + 1) from rfl,
      ainsert_castTable, ainsert_ainsert_same]
  | some x =>
    simp only [Option.map_some, Option.getD_some, pyDictSet_eq_ainsert]
    rw [show (Int.ofNat x + 1 : Int) = Int.ofNat (x + 1) from rfl, ainsert_castTable]

theorem coord_fold (edges : List Edge) (t : List (Site × Nat)) :
    edges.foldl (fun (st0 : List (Site × Int)) (it0 : Site × Site) =>
        pyDictSet (pyDictSetdefault
            (pyDictSet (pyDictSetdefault st0 it0.1 (0 : Int)).1 it0.1 ((pyDictSetdefault st0 it0.1 (0 : Int)).2 + 1))
            it0.2 (0 : Int)).1 it0.2
          ((pyDictSetdefault
            (pyDictSet (pyDictSetdefault st0 it0.1 (0 : Int)).1 it0.1 ((pyDictSetdefault st0 it0.1 (0 : Int)).2 + 1))
            it0.2 (0 : Int)).2 + 1)) (castTable t)
      = castTable (edges.foldl coordStep t) := by
  induction edges generalizing t with
  | nil => rfl
  | cons e es ih =>
    rw [List.foldl_cons, List.foldl_cons, bump_eq, bump_eq]
    exact ih _

/-- the generated coordination table (a dict site ↦ count, in order of first appearance) = the model's
    `coordTable`, for all edge lists -/
theorem tfim_coordinations_eq (edges : List Edge) :
    ham_tfim_from_edges.coordinations edges = castTable (coordTable edges) := by
  unfold coordTable
  rw [← coord_fold]; rfl

theorem fermi_hubbard_coordinations_eq (edges : List Edge) :
    ham_fermi_hubbard_from_edges.coordinations edges = castTable (coordTable edges) :=
  tfim_coordinations_eq edges

theorem fermi_hubbard_spinless_coordinations_eq (edges : List Edge) :
    ham_fermi_hubbard_spinless_from_edges.coordinations edges = castTable (coordTable edges) :=
  tfim_coordinations_eq edges

/-- hence `coordinations[v]` of the code is the model's `coordination` (C19's degree theorems transfer) -/
theorem tfim_coordination_lookup (edges : List Edge) (v : Site) :
    pyDictGet (ham_tfim_from_edges.coordinations edges) v = (coordination edges v).map Int.ofNat := by
  rw [tfim_coordinations_eq, pyDictGet_eq_alookup, alookup_castTable]; rfl

example : ham_tfim_from_edges.coordinations [((0 : Nat), (1 : Nat)), (1, 2), (0, 2), (2, 2)]
    = [(0, 2), (1, 2), (2, 4)] := by decide

end SymmModel.Gen
