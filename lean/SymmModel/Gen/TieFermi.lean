/-
  SymmModel.Gen.TieFermi — translation tie (task R1) for `fermionic_core.oddpos_dag(oddpos)`:
  the generated definition (Gen/Src.lean) takes the attribute accessor `.dag` of the opaque operator objects as
  a parameter; instantiated with the model's conjugation of one operator `(label, dual) ↦ (label, not dual)`
  (symmray/fermionic_local_operators.py `FermionicOperator.dag`, which builds an object and is not itself
  translated: recorded assumption) it is the model's `oddposDag` (Model/Fermi.lean).
  (S3) the label scan of `resolve_combined_oddpos` (`i = 0; while i < len(oddpos) - 1: …`) is translated as the fragment
  `resolve_combined_oddpos.scan attr_label attr_dual obj_lt fuel oddpos phase` (`pyWhile` with explicit fuel; objects
  seen through `.label`, `.dual` and their `__lt__`; `list.pop(i)` = `eraseIdx`; `raise ValueError` an error point)
  and tied to the model's zipper scan `resolveScan` for EVERY fuel, list and phase (`scan_eq_resolveScan`): same labels,
  same phase, same error, and out of fuel exactly when the model is.  With the fuel `n² + 2n + 4` that C04 proves
  sufficient (`Proofs/Oddpos.lean resolveScan_fuel_ok`: measure 2·inversions + |post|) it never runs out
  (`scan_fuel_ok`) and equals `mergeOddpos` (`scan_eq_mergeOddpos`).  The rest of `resolve_combined_oddpos` (reading
  `left.oddpos`, `left.parity`, `new.phase_global(inplace=True)`, storing `new._oddpos`: object mutation) is not
  translated.
  Not imported by SymmModel.lean; build with `lake build SymmModel.Gen.Tie`.
-/
import SymmModel.Gen.PyLemmas
import SymmModel.Model.Fermi
import SymmModel.Proofs.Oddpos

namespace SymmModel.Gen
open SymmModel

/-- for ANY `.dag`: reverse, then conjugate each -/
theorem oddpos_dag_generic {ι : Type} (dag : ι → ι) (o : List ι) :
    oddpos_dag dag o = o.reverse.map dag := rfl

/-- with the model's operator conjugation: the model's `oddposDag` -/
theorem oddpos_dag_eq (o : List (Int × Bool)) :
    oddpos_dag (fun (p : Int × Bool) => (p.1, !p.2)) o = Arr.oddposDag o := rfl

/-- conjugating twice is the identity when `.dag` is an involution (true of the model's) -/
theorem oddpos_dag_involutive {ι : Type} (dag : ι → ι) (h : ∀ x, dag (dag x) = x) (o : List ι) :
    oddpos_dag dag (oddpos_dag dag o) = o := by
  rw [oddpos_dag_generic, oddpos_dag_generic, ← List.map_reverse, List.reverse_reverse, List.map_map]
  have : dag ∘ dag = id := funext h
  rw [this, List.map_id]

example : ∀ x : Int × Bool, (fun (p : Int × Bool) => (p.1, !p.2)) ((fun (p : Int × Bool) => (p.1, !p.2)) x) = x := by
  intro x; simp

example : oddpos_dag (fun (p : Int × Bool) => (p.1, !p.2)) [(1, true), (2, false)] = [(2, true), (1, false)] := by
  decide

/-! ### (S3) the label scan of `resolve_combined_oddpos` -/

abbrev Op := Int × Bool
abbrev ScanSt := Int × List Op × Int

/-- the loop test of the generated scan at the model's accessors -/
def scanCond (st0 : ScanSt) : Bool :=
  let (phase, oddpos, i) : ScanSt := st0
  (decide (i < ((pyLen oddpos) - (1 : Int))))

/-- the loop body of the generated scan at the model's accessors (`.label` = first component, `.dual` = second,
    `__lt__` = `oddLt`) -/
def scanBody (st0 : ScanSt) : Except PyExc ScanSt :=
  let (phase, oddpos, i) : ScanSt := st0
  let a : Op := (pyGet oddpos i)
  let b : Op := (pyGet oddpos (i + (1 : Int)))
  if (a.1 == b.1) then
    (if (a.2 != b.2) then
       (let phase : Int := if b.2 then (-phase) else phase
        let oddpos : List Op := pyListPop oddpos i
        let oddpos : List Op := pyListPop oddpos i
        let i : Int := (max (0 : Int) (i - (1 : Int)))
        (Except.ok (phase, oddpos, i)))
     else
       ((Except.error (PyExc.raised "ValueError"))))
  else
    (let (oddpos, i, phase) : (List Op × Int × Int) :=
       if (oddLt b a) then
         (pyListSet (pyListSet oddpos i b) (i + (1 : Int)) a, max (0 : Int) (i - (1 : Int)), -phase)
       else
         (oddpos, i + (1 : Int), phase)
     (Except.ok (phase, oddpos, i)))

/-- what the fragment returns from the final loop state -/
def scanOut : Except PyExc ScanSt → Except PyExc (List Op × Int)
  | .error e => .error e
  | .ok (phase, oddpos, _) => .ok (oddpos, phase)

/-- the generated fragment IS `i = 0`, the loop with this test and this body, then `(oddpos, phase)` -/
theorem scan_unfold (fuel : Nat) (l : List Op) (ph : Int) :
    resolve_combined_oddpos.scan (fun (p : Op) => p.1) (fun (p : Op) => p.2) oddLt fuel l ph
      = scanOut (pyWhile fuel (ph, l, 0) scanCond scanBody) := by
  unfold resolve_combined_oddpos.scan
  extract_lets i
  split
  · rename_i e h
    have h' : pyWhile fuel (ph, l, 0) scanCond scanBody = Except.error e := h
    rw [h']; rfl
  · rename_i p o i h
    have h' : pyWhile fuel (ph, l, 0) scanCond scanBody = Except.ok (p, o, i) := h
    rw [h']; rfl

/-- the model's errors in the vocabulary of the translation: `Err.value` is the `raise ValueError`, `Err.other` is
    the model's own "out of fuel" -/
def excOfScan : Except Err (List Op × Int) → Except PyExc (List Op × Int)
  | .ok r => .ok r
  | .error Err.value => .error (.raised "ValueError")
  | .error Err.other => .error .outOfFuel
  | .error _ => .error (.raised "unreachable")  -- `resolveScan` throws nothing else

theorem pyGet_at {α : Type} [Inhabited α] (P : List α) (x : α) (t : List α) :
    pyGet (P ++ x :: t) (Int.ofNat P.length) = x := by
  rw [pyGet_ofNat]; simp

theorem pyGet_at1 {α : Type} [Inhabited α] (P : List α) (x y : α) (t : List α) :
    pyGet (P ++ x :: y :: t) (Int.ofNat P.length + 1) = y := by
  have : Int.ofNat P.length + 1 = Int.ofNat (P.length + 1) := rfl
  rw [this, pyGet_ofNat]; simp

theorem pyListPop_at {α : Type} (P : List α) (x : α) (t : List α) :
    pyListPop (P ++ x :: t) (Int.ofNat P.length) = P ++ t := by
  unfold pyListPop
  have h0 : (0 : Int) ≤ Int.ofNat P.length := Int.natCast_nonneg _
  rw [if_pos h0]
  clear h0
  show (P ++ x :: t).eraseIdx P.length = _
  induction P with
  | nil => rfl
  | cons p ps ih => simp only [List.cons_append, List.length_cons, List.eraseIdx_cons_succ, ih]

theorem pyListSet_at {α : Type} (P : List α) (x v : α) (t : List α) :
    pyListSet (P ++ x :: t) (Int.ofNat P.length) v = P ++ v :: t := by
  unfold pyListSet
  have h0 : (0 : Int) ≤ Int.ofNat P.length := Int.natCast_nonneg _
  rw [if_pos h0]
  clear h0
  show (P ++ x :: t).set P.length v = _
  induction P with
  | nil => rfl
  | cons p ps ih => simp only [List.cons_append, List.length_cons, List.set_cons_succ, ih]

theorem pyListSet_at1 {α : Type} (P : List α) (x y v : α) (t : List α) :
    pyListSet (P ++ x :: y :: t) (Int.ofNat P.length + 1) v = P ++ x :: v :: t := by
  have h := pyListSet_at (P ++ [x]) y v t
  simp only [List.length_append, List.length_cons, List.length_nil, List.append_assoc, List.cons_append,
    List.nil_append] at h
  exact h

theorem scanCond_at (ph : Int) (P post : List Op) :
    scanCond (ph, P ++ post, Int.ofNat P.length) = decide (2 ≤ post.length) := by
  simp only [scanCond, pyLen, List.length_append, Int.ofNat_eq_natCast, decide_eq_decide]
  omega

/-- one iteration of the generated loop at a cursor: what it does to the zipper -/
theorem scanBody_at (ph : Int) (pre : List Op) (a b : Op) (rest : List Op) :
    scanBody (ph, pre.reverse ++ a :: b :: rest, Int.ofNat pre.length)
      = if a.1 == b.1 then
          (if a.2 != b.2 then
            .ok (if b.2 then -ph else ph, pre.tail.reverse ++ (pre.head?.toList ++ rest), Int.ofNat pre.tail.length)
           else .error (.raised "ValueError"))
        else if oddLt b a then
          .ok (-ph, pre.tail.reverse ++ (pre.head?.toList ++ b :: a :: rest), Int.ofNat pre.tail.length)
        else .ok (ph, (a :: pre).reverse ++ b :: rest, Int.ofNat (a :: pre).length) := by
  have hl : pre.length = pre.reverse.length := by simp
  have hmax : max (0 : Int) (Int.ofNat pre.length - 1) = Int.ofNat pre.tail.length := by
    cases pre with
    | nil => rfl
    | cons p ps => simp only [List.length_cons, List.tail_cons, Int.ofNat_eq_natCast]; omega
  have hzip : ∀ X : List Op, pre.reverse ++ X = pre.tail.reverse ++ (pre.head?.toList ++ X) := by
    intro X
    cases pre with
    | nil => rfl
    | cons p ps => simp
  simp only [scanBody]
  rw [hl, pyGet_at, pyGet_at1, pyListPop_at, pyListPop_at, pyListSet_at, pyListSet_at1, ← hl, hmax]
  by_cases h1 : (a.1 == b.1) = true
  · by_cases h2 : (a.2 != b.2) = true
    · simp only [h1, h2, if_true, hzip]
    · have h2' : (a.2 != b.2) = false := by simpa using h2
      simp only [h1, h2', if_true, Bool.false_eq_true, if_false]
  · have h1' : (a.1 == b.1) = false := by simpa using h1
    by_cases h3 : oddLt b a = true
    · simp only [h1', h3, if_true, Bool.false_eq_true, if_false, hzip]
    · have h3' : oddLt b a = false := by simpa using h3
      simp only [h1', h3', Bool.false_eq_true, if_false, List.reverse_cons, List.append_assoc, List.cons_append,
        List.nil_append, List.length_cons]
      rfl

/-- THE TIE: the generated loop, started at any cursor of any list with any fuel and phase, is the model's zipper
    scan — same result, same error, out of fuel exactly when the model is -/
theorem scan_zipper : ∀ (fuel : Nat) (pre post : List Op) (ph : Int),
    scanOut (pyWhile fuel (ph, pre.reverse ++ post, Int.ofNat pre.length) scanCond scanBody)
      = excOfScan (resolveScan fuel pre post ph) := by
  intro fuel
  induction fuel with
  | zero => intro pre post ph; rw [OddposP.resolveScan_zero]; rfl
  | succ f ih =>
    intro pre post ph
    have hl : pre.length = pre.reverse.length := by simp
    unfold pyWhile
    rw [hl, scanCond_at, ← hl]
    match post with
    | [] => simp [scanOut, excOfScan, OddposP.resolveScan_nil]
    | [a] => simp [scanOut, excOfScan, OddposP.resolveScan_single]
    | a :: b :: rest =>
      have h2 : decide (2 ≤ (a :: b :: rest).length) = true := by simp
      rw [h2, if_pos rfl, scanBody_at]
      by_cases h1 : (a.1 == b.1) = true
      · by_cases hd : (a.2 != b.2) = true
        · rw [OddposP.resolveScan_annihilate f pre a b rest ph h1 hd]
          simp only [h1, hd, if_true]
          exact ih pre.tail (pre.head?.toList ++ rest) _
        · have hd' : (a.2 != b.2) = false := by simpa using hd
          rw [OddposP.resolveScan_clash f pre a b rest ph h1 hd']
          simp only [h1, hd', if_true, Bool.false_eq_true, if_false]
          rfl
      · have h1' : (a.1 == b.1) = false := by simpa using h1
        by_cases h3 : oddLt b a = true
        · rw [OddposP.resolveScan_swap f pre a b rest ph h1' h3]
          simp only [h1', h3, if_true, Bool.false_eq_true, if_false]
          exact ih pre.tail (pre.head?.toList ++ b :: a :: rest) _
        · have h3' : oddLt b a = false := by simpa using h3
          rw [OddposP.resolveScan_fwd f pre a b rest ph h1' h3']
          simp only [h1', h3', Bool.false_eq_true, if_false]
          exact ih (a :: pre) (b :: rest) ph

/-- the generated fragment (which starts with `i = 0`) = the model's scan from the left end, for every fuel -/
theorem scan_eq_resolveScan (fuel : Nat) (l : List Op) (ph : Int) :
    resolve_combined_oddpos.scan (fun (p : Op) => p.1) (fun (p : Op) => p.2) oddLt fuel l ph
      = excOfScan (resolveScan fuel [] l ph) := by
  rw [scan_unfold]
  exact scan_zipper fuel [] l ph

/-- with the fuel of the model (`n² + 2n + 4`, proved sufficient in C04) the generated loop never runs out -/
theorem scan_fuel_ok (l : List Op) (ph : Int) :
    resolve_combined_oddpos.scan (fun (p : Op) => p.1) (fun (p : Op) => p.2) oddLt
      (l.length * l.length + 2 * l.length + 4) l ph ≠ .error .outOfFuel := by
  rw [scan_eq_resolveScan]
  have h := OddposP.resolveScan_fuel_ok l ph
  cases hr : resolveScan (l.length * l.length + 2 * l.length + 4) [] l ph with
  | ok r => simp [excOfScan]
  | error e =>
    rw [hr] at h
    cases e <;> simp_all [excOfScan]

/-- the generated scan on the concatenated labels with the model's fuel and starting phase = `mergeOddpos` -/
theorem scan_eq_mergeOddpos (pa : Bool) (la lb : List Op) :
    resolve_combined_oddpos.scan (fun (p : Op) => p.1) (fun (p : Op) => p.2) oddLt
      ((la ++ lb).length * (la ++ lb).length + 2 * (la ++ lb).length + 4) (la ++ lb)
      (if pa && lb.length % 2 == 1 then -1 else 1)
      = excOfScan (OddposP.mergeOddpos pa la lb) := by
  rw [scan_eq_resolveScan]; rfl

example : resolve_combined_oddpos.scan (fun (p : Op) => p.1) (fun (p : Op) => p.2) oddLt 20
    [(2, false), (1, false), (1, true)] 1 = .ok ([(2, false)], -1) := by
  rw [scan_eq_resolveScan]; simp [resolveScan, excOfScan, oddLt, pure, Except.pure, throw, throwThe, MonadExceptOf.throw]
example : resolve_combined_oddpos.scan (fun (p : Op) => p.1) (fun (p : Op) => p.2) oddLt 20
    [(1, false), (1, false)] 1 = .error (.raised "ValueError") := by
  rw [scan_eq_resolveScan]; simp [resolveScan, excOfScan, oddLt, pure, Except.pure, throw, throwThe, MonadExceptOf.throw]
example : resolve_combined_oddpos.scan (fun (p : Op) => p.1) (fun (p : Op) => p.2) oddLt 2
    [(2, false), (1, false)] 1 = .error .outOfFuel := by
  rw [scan_eq_resolveScan]; simp [resolveScan, excOfScan, oddLt, pure, Except.pure, throw, throwThe, MonadExceptOf.throw]

end SymmModel.Gen
