/-
  SymmModel.Gen.TieFermi — translation tie (task R1) for `fermionic_core.oddpos_dag(oddpos)`:
  the generated definition (Gen/Src.lean) takes the attribute accessor `.dag` of the opaque operator objects as
  a parameter; instantiated with the model's conjugation of one operator `(label, dual) ↦ (label, not dual)`
  (symmray/fermionic_local_operators.py `FermionicOperator.dag`, which builds an object and is not itself
  translated: recorded assumption) it is the model's `oddposDag` (Model/Fermi.lean).
  `resolve_combined_oddpos` (a `while` loop over objects, `list.pop`) is outside the translated subset.
  Not imported by SymmModel.lean; build with `lake build SymmModel.Gen.Tie`.
-/
import SymmModel.Gen.PyLemmas
import SymmModel.Model.Fermi

namespace SymmModel.Gen
open SymmModel

/-- for ANY `.dag`: reverse, then conjugate each -/
theorem oddpos_dag_generic {ι : Type} (dag : ι → ι) (o : List ι) :
    oddpos_dag dag o = o.reverse.map dag := rfl

/-- with the model's operator conjugation: the model's `oddposDag` -/
theorem oddpos_dag_eq (o : List (Int × Bool)) :
    oddpos_dag (fun (p : Int × Bool) => (p.1, !p.2)) o = Arr.oddposDag o := rfl

/-- conjugating twice is the identity when `.dag` is an involution (true of the model's) -/
theorem oddpos_dag_involutive {ι : Type} (dag : ι → ι) (h : ∀ x, dag (dag x) = x) (o : List ι) :
    oddpos_dag dag (oddpos_dag dag o) = o := by
  rw [oddpos_dag_generic, oddpos_dag_generic, ← List.map_reverse, List.reverse_reverse, List.map_map]
  have : dag ∘ dag = id := funext h
  rw [this, List.map_id]

example : ∀ x : Int × Bool, (fun (p : Int × Bool) => (p.1, !p.2)) ((fun (p : Int × Bool) => (p.1, !p.2)) x) = x := by
  intro x; simp

example : oddpos_dag (fun (p : Int × Bool) => (p.1, !p.2)) [(1, true), (2, false)] = [(2, true), (1, false)] := by
  decide

end SymmModel.Gen
