"""Direct oracles on the real code: independent dense calculations used to re-confirm a
model/implementation disagreement and to search for failing inputs when Lean is unavailable.
Nothing here uses symmray's own to_dense / tensordot / check."""

import itertools

import numpy as np

from . import gen, ser


def sym_of(x):
    return ser.sym_name(x.symmetry)


def axis_layout(ix):
    """sorted charges with start offsets: [(charge, start, size)]"""
    out = []
    st = 0
    for c in sorted(ix.chargemap):
        d = ix.chargemap[c]
        out.append((c, st, d))
        st += d
    return out


def dense(x, signs=True):
    """independent densification (value view: pending signs multiplied in)"""
    lay = [axis_layout(ix) for ix in x.indices]
    shape = tuple(sum(d for _, _, d in l) for l in lay)
    D = np.zeros(shape, dtype="complex128")
    look = [{c: (st, d) for c, st, d in l} for l in lay]
    phases = getattr(x, "phases", {}) if signs else {}
    for sector, blk in x.blocks.items():
        sl = tuple(slice(look[i][c][0], look[i][c][0] + look[i][c][1]) for i, c in enumerate(sector))
        D[sl] = np.asarray(blk) * phases.get(sector, 1)
    return D


def parity_vectors(x):
    sym = sym_of(x)
    out = []
    for ix in x.indices:
        v = []
        for c, _, d in axis_layout(ix):
            v += [gen.py_parity(sym, c)] * d
        out.append(np.array(v, dtype=int))
    return out


def pair_sign(shape, pa, a, pb, b):
    """tensor of (-1)^(pa[i_a] * pb[i_b]) broadcast to `shape`"""
    n = len(shape)
    sa = [1] * n
    sa[a] = shape[a]
    sb = [1] * n
    sb[b] = shape[b]
    return 1 - 2 * (pa.reshape(sa) * pb.reshape(sb))


def axis_sign(shape, p, a):
    n = len(shape)
    s = [1] * n
    s[a] = shape[a]
    return 1 - 2 * p.reshape(s)


def gtranspose(D, pars, perm):
    """graded transpose of a dense tensor: sign of the permutation restricted to odd positions"""
    D = D.copy()
    n = D.ndim
    pos = {ax: k for k, ax in enumerate(perm)}
    for a in range(n):
        for b in range(a + 1, n):
            if pos[a] > pos[b]:
                D = D * pair_sign(D.shape, pars[a], a, pars[b], b)
    return np.transpose(D, perm), [pars[p] for p in perm]


def label_lt(a, b):
    # FermionicOperator ordering: creation (dual) left of annihilation; duals reflected
    if a[1]:
        return (a[0] > b[0]) if b[1] else True
    return False if b[1] else (a[0] < b[0])


def resolve_labels(left_odd, left_labels, right_labels):
    """independent signed merge of odd-position labels: returns (labels, sign).
    Bubble the concatenation into order counting transpositions; adjacent equal labels of
    opposite dualness annihilate, with a sign when they meet as ket-then-bra."""
    if not left_labels and not right_labels:
        return [], 1
    sign = -1 if (left_odd and len(right_labels) % 2 == 1) else 1
    lab = list(left_labels) + list(right_labels)
    changed = True
    while changed:
        changed = False
        i = 0
        while i < len(lab) - 1:
            a, b = lab[i], lab[i + 1]
            if a[0] == b[0]:
                if a[1] == b[1]:
                    raise ValueError("duplicate labels")
                if b[1]:
                    sign = -sign
                del lab[i : i + 2]
                changed = True
                continue
            if label_lt(b, a):
                lab[i], lab[i + 1] = b, a
                sign = -sign
                changed = True
            i += 1
    return lab, sign


def graded_tensordot(a, b, axes_a, axes_b):
    """dense graded contraction of two fermionic arrays; returns (dense result over the full
    free index tables, labels)"""
    na, nb = a.ndim, b.ndim
    axes_a = [x % na for x in axes_a]
    axes_b = [x % nb for x in axes_b]
    left = [i for i in range(na) if i not in axes_a]
    right = [i for i in range(nb) if i not in axes_b]
    A, pa = gtranspose(dense(a), parity_vectors(a), left + axes_a)
    B, pb = gtranspose(dense(b), parity_vectors(b), axes_b + right)
    ncon = len(axes_a)
    # reverse the contracted block on the right operand (graded)
    B, pb2 = gtranspose(B, pb, list(range(ncon - 1, -1, -1)) + list(range(ncon, nb)))
    B = np.transpose(B, list(range(ncon - 1, -1, -1)) + list(range(ncon, nb)))
    # one sign per odd contracted index meeting as ket-then-bra
    for k in range(ncon):
        ax = len(left) + k
        if not a.indices[axes_a[k]].dual:
            A = A * axis_sign(A.shape, pa[ax], ax)
    C = np.tensordot(A, B, axes=(list(range(len(left), na)), list(range(ncon))))
    la = [(o.label, o.dual) for o in a.oddpos]
    lb = [(o.label, o.dual) for o in b.oddpos]
    labels, sign = resolve_labels(bool(a.parity), la, lb)
    return C * sign, labels


def embed_compare(result, expected_dense, full_indices):
    """Compare a block array with a dense expectation given over the *full* index tables
    `full_indices` (the result may have dropped unused charges): every stored block equals the
    corresponding slice, every sector absent from the result is zero in the expectation.
    Returns None if equal, else a description."""
    lay = [{c: (st, d) for c, st, d in axis_layout(ix)} for ix in full_indices]
    if result.ndim != len(full_indices):
        return f"rank {result.ndim} != {len(full_indices)}"
    seen = np.zeros(expected_dense.shape, dtype=bool)
    phases = getattr(result, "phases", {})
    for sector, blk in result.blocks.items():
        try:
            sl = tuple(slice(lay[i][c][0], lay[i][c][0] + lay[i][c][1]) for i, c in enumerate(sector))
        except KeyError:
            return f"sector {sector} uses a charge absent from the operands' tables"
        exp = expected_dense[sl]
        got = np.asarray(blk) * phases.get(sector, 1)
        if exp.shape != got.shape:
            return f"block {sector} has shape {got.shape}, expected {exp.shape}"
        if not np.array_equal(exp, got):
            return f"block {sector} differs"
        seen[sl] = True
    if np.any(expected_dense[~seen] != 0):
        return "a sector missing from the result is non-zero in the dense contraction"
    # the result's own tables must be sub-tables of the full ones
    for i, ix in enumerate(result.indices):
        for c, d in ix.chargemap.items():
            if full_indices[i].chargemap.get(c) != d:
                return f"index {i} charge {c} size {d} not in operand table"
        if ix.dual != full_indices[i].dual:
            return f"index {i} direction differs"
    return None


def py_valid(x):
    """Python re-implementation of the validity predicate (fallback search only; the verdict
    of C01 is Lean's validB)."""
    sym = sym_of(x)

    def ix_ok(ix):
        cs = list(ix.chargemap)
        if cs != sorted(cs) or len(set(cs)) != len(cs):
            return "chargemap unsorted"
        if any((not isinstance(d, int)) or d <= 0 for d in ix.chargemap.values()):
            return "non-positive size"
        if ix.subinfo is not None:
            ext = ix.subinfo.extents
            if set(ext) != set(ix.chargemap):
                return "extents keys != chargemap keys"
            for c, e in ext.items():
                if sum(e.values()) != ix.chargemap[c]:
                    return "extent sizes do not add up"
                for ss, d in e.items():
                    if len(ss) != len(ix.subinfo.indices):
                        return "subsector length"
                    try:
                        if int(np.prod([s.chargemap[q] for s, q in zip(ix.subinfo.indices, ss)])) != d:
                            return "subsector size"
                    except KeyError:
                        return "subsector charge not in sub-index"
                    comb = gen.py_combine(sym, [gen.py_sign(sym, q, s.dual != ix.dual)
                                                for s, q in zip(ix.subinfo.indices, ss)])
                    if comb != c:
                        return "subsector charge does not combine to fused charge"
            for s in ix.subinfo.indices:
                r = ix_ok(s)
                if r:
                    return r
        return None

    for ix in x.indices:
        r = ix_ok(ix)
        if r:
            return r
    duals = [ix.dual for ix in x.indices]
    for sector, blk in x.blocks.items():
        if len(sector) != x.ndim:
            return "sector length"
        if gen.py_sector_charge(sym, sector, duals) != x.charge:
            return "sector charge"
        try:
            shp = tuple(ix.chargemap[c] for ix, c in zip(x.indices, sector))
        except KeyError:
            return "sector charge not in table"
        if tuple(np.shape(blk)) != shp:
            return "block shape"
    if getattr(x, "fermionic", False):
        for s, p in x.phases.items():
            if p not in (1, -1):
                return "phase value"
            if len(s) != x.ndim or gen.py_sector_charge(sym, s, duals) != x.charge:
                return "phase sector"
        if len(x.oddpos) % 2 != gen.py_parity(sym, x.charge):
            return "oddpos parity"
    return None
