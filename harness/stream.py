"""Generic correspondence stream: workers generate cases from a seed, run the real code and
the property's direct oracle; the main process runs the Lean model on the same cases and
diffs canonical observations.

A *generator module function* has the signature
    gen_cases(seed, chunk, n, tier) -> list of dict(
        case   = protocol case {"kind": "prog", "env": {...}, "steps": [...]}   (no id yet)
        impl   = list of per-step results from impl.run_prog (with "_py" removed)
        oracle = None | str      direct-oracle verdict on the real code (None = property holds)
        meta   = dict            input distribution info
        nontrivial = bool
        op     = str             operation label for known-finding matching
        triggers = list[str]
    )
"""

import json

from . import ser


def strip_py(results):
    out = []
    for r in results:
        r = {k: v for k, v in r.items() if k != "_py"}
        out.append(r)
    return out


def canon_results(results, **kw):
    out = []
    for r in results:
        if "ok" in r:
            out.append(("ok", tuple(ser.canon_val(v, **kw) for v in r["ok"])))
        elif "raise" in r:
            out.append(("raise", r["raise"]))
        else:
            out.append(("skipped",))
    return out


def first_diff(ci, cm):
    for k, (a, b) in enumerate(zip(ci, cm)):
        if a != b:
            return k
    if len(ci) != len(cm):
        return min(len(ci), len(cm))
    return None


def run_stream(ctx, name, mod, fn, n_cases, per_chunk=60, canon_kw=None, raise_kinds=True,
               extra_args=()):
    """returns number of cases run"""
    canon_kw = canon_kw or {}
    nchunks = max(1, (n_cases + per_chunk - 1) // per_chunk)
    args = [(ctx.seed, k, min(per_chunk, n_cases - k * per_chunk), ctx.tier) + tuple(extra_args)
            for k in range(nchunks)]
    chunks = ctx.pmap(mod, fn, args)
    items = [it for ch in chunks for it in ch]
    for i, it in enumerate(items):
        it["case"]["id"] = i
    ctx.evaluations += len(items)
    model = ctx.model([it["case"] for it in items])
    for it in items:
        meta = it.get("meta", {})
        for k, v in meta.items():
            if isinstance(v, (str, bool, int)):
                ctx.stat(f"{name}.{k}={v}")
        if it.get("nontrivial"):
            ctx.mark_nontrivial(json.dumps(it["case"], sort_keys=True, default=str))
        ctx.sample({"stream": name, "steps": it["case"].get("steps"), "meta": meta}, limit=3)
        orc = it.get("oracle")
        mismatch = None
        if model is not None:
            m = model[it["case"]["id"]]
            if "bad" in m:
                ctx.correspondence_broken(f"{name}:driver-bad", m["bad"])
                continue
            ci = canon_results(it["impl"], **canon_kw)
            cm = canon_results(m["results"], **canon_kw)
            if not raise_kinds:
                ci = [("raise",) if c[0] == "raise" else c for c in ci]
                cm = [("raise",) if c[0] == "raise" else c for c in cm]
            k = first_diff(ci, cm)
            if k is not None:
                mismatch = dict(step=k, impl=_short(ci[k] if k < len(ci) else None),
                                model=_short(cm[k] if k < len(cm) else None))
                ctx.disagreements_checked += 1
        if orc is not None:
            ctx.violation(
                f"{name}: {orc}",
                dict(stream=name, case=it["case"], impl=it["impl"], oracle=orc, model_mismatch=mismatch,
                     meta=meta),
                triggers=it.get("triggers", ()),
                op=it.get("op"),
            )
        elif mismatch is not None:
            ctx.correspondence_broken(
                f"{name}:model-vs-implementation",
                json.dumps(dict(case=it["case"], mismatch=mismatch, meta=meta), default=str)[:6000],
            )
    return len(items)


def _short(x, n=1500):
    s = repr(x)
    return s if len(s) <= n else s[:n] + "…"
