"""Generic correspondence stream: workers generate cases from a seed, run the real code and
the property's direct oracle; the main process runs the Lean model on the same cases and
diffs canonical observations.

A *generator module function* has the signature
    gen_cases(seed, chunk, n, tier) -> list of dict(
        case   = protocol case {"kind": "prog", "env": {...}, "steps": [...]}   (no id yet)
        impl   = list of per-step results from impl.run_prog (with "_py" removed)
        oracle = None | str      direct-oracle verdict on the real code (None = property holds)
        meta   = dict            input distribution info
        nontrivial = bool
        op     = str             operation label for known-finding matching
        triggers = list[str]
    )
"""

import json

from . import ser


def strip_py(results):
    out = []
    for r in results:
        r = {k: v for k, v in r.items() if k != "_py"}
        out.append(r)
    return out


def canon_results(results, **kw):
    out = []
    for r in results:
        if "ok" in r:
            out.append(("ok", tuple(ser.canon_val(v, **kw) for v in r["ok"])))
        elif "raise" in r:
            out.append(("raise", r["raise"]))
        else:
            out.append(("skipped",))
    return out


def first_diff(ci, cm):
    for k, (a, b) in enumerate(zip(ci, cm)):
        if a != b:
            return k
    if len(ci) != len(cm):
        return min(len(ci), len(cm))
    return None


def run_stream(ctx, name, mod, fn, n_cases, per_chunk=60, canon_kw=None, raise_kinds=True,
               extra_args=(), chunk_ids=None, nchunks=None):
    """returns number of cases run.  With `chunk_ids`, the generator enumerates a fixed finite
    space split into `nchunks` slices and is called as fn(seed, chunk_id, nchunks, tier)."""
    canon_kw = canon_kw or {}
    if chunk_ids is not None:
        args = [(ctx.seed, k, nchunks, ctx.tier) + tuple(extra_args) for k in chunk_ids]
    else:
        nchunks = max(1, (n_cases + per_chunk - 1) // per_chunk)
        args = [(ctx.seed, k, min(per_chunk, n_cases - k * per_chunk), ctx.tier) + tuple(extra_args)
                for k in range(nchunks)]
    chunks = ctx.pmap(mod, fn, args)
    items = [it for ch in chunks for it in ch]
    for i, it in enumerate(items):
        it["case"]["id"] = i
    ctx.evaluations += len(items)
    model = ctx.model([it["case"] for it in items])
    for it in items:
        meta = it.get("meta", {})
        for k, v in meta.items():
            if isinstance(v, (str, bool, int)):
                ctx.stat(f"{name}.{k}={v}")
        if it.get("nontrivial"):
            ctx.mark_nontrivial(json.dumps(it["case"], sort_keys=True, default=str))
        ctx.sample({"stream": name, "steps": it["case"].get("steps"), "meta": meta}, limit=3)
        orc = it.get("oracle")
        mismatch = None
        if model is not None:
            m = model[it["case"]["id"]]
            if "bad" in m:
                ctx.correspondence_broken(f"{name}:driver-bad", m["bad"])
                continue
            ci = canon_results(it["impl"], **canon_kw)
            cm = canon_results(m["results"], **canon_kw)
            if not raise_kinds:
                ci = [("raise",) if c[0] == "raise" else c for c in ci]
                cm = [("raise",) if c[0] == "raise" else c for c in cm]
            k = first_diff(ci, cm)
            if k is not None:
                mismatch = dict(step=k, impl=_short(ci[k] if k < len(ci) else None),
                                model=_short(cm[k] if k < len(cm) else None))
                ctx.disagreements_checked += 1
        if orc is not None:
            ctx.violation(
                f"{name}: {orc}",
                dict(stream=name, case=it["case"], impl=it["impl"], oracle=orc, model_mismatch=mismatch,
                     meta=meta),
                triggers=it.get("triggers", ()),
                op=it.get("op"),
            )
        elif mismatch is not None:
            ctx.correspondence_broken(
                f"{name}:model-vs-implementation",
                json.dumps(dict(case=it["case"], mismatch=mismatch, meta=meta), default=str)[:6000],
            )
    return len(items)


def _short(x, n=1500):
    s = repr(x)
    return s if len(s) <= n else s[:n] + "…"


def replay(ctx, payload, canon_kw=None):
    """Re-run the case of a replay file against the current tree: implementation, Lean model and
    the implementation results recorded when the violation was found.  Exit 1 while the recorded
    behaviour persists or model and implementation disagree, 0 otherwise."""
    from . import impl

    canon_kw = canon_kw or {}
    case = payload.get("case", {})
    prog = case.get("case", case)
    if not isinstance(prog, dict) or "steps" not in prog:
        print("replay: this file carries no protocol program; see its 'what'/'detail' fields")
        print(json.dumps(payload, indent=1, default=str)[:3000])
        return 1
    env = {k: ser.dec_val(v) for k, v in prog["env"].items()}
    res, _ = impl.run_prog(env, prog["steps"])
    now = canon_results(strip_py(res), **canon_kw)
    then = canon_results(case.get("impl", []), **canon_kw) if case.get("impl") else None
    prog = dict(prog, id=0)
    ctx.lean.build()
    ctx.driver_ok = bool(ctx.lean.build_ok)
    m = ctx.model([prog])
    mod = canon_results(m[0]["results"], **canon_kw) if m and "results" in m[0] else None
    print("what:", payload.get("what"))
    for k, st in enumerate(prog["steps"]):
        a = now[k] if k < len(now) else None
        b = mod[k] if mod and k < len(mod) else None
        c = then[k] if then and k < len(then) else None
        tag = "agree" if a == b else "MODEL-DIFFERS"
        print(f"step {k} {st['op']} {st.get('params')}: implementation vs model: {tag}; "
              f"same as recorded: {c is None or a == c}")
        if a != b:
            print("  implementation:", _short(a, 800))
            print("  model         :", _short(b, 800))
    bad = (mod is not None and now[: len(mod)] != mod[: len(now)])
    persists = then is not None and now == then and payload.get("kind") == "violation"
    print("verdict:", "violation reproduces" if (bad or persists) else "not reproduced on this tree")
    return 1 if (bad or persists) else 0
