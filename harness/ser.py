"""Serialisation of symmray objects into the line protocol, and canonical observations.

Everything numeric is converted to exact rationals (the generators only produce small
Gaussian integers / dyadic rationals, on which numpy's float arithmetic is exact), so
no float is ever compared.
"""

from fractions import Fraction

import numpy as np

DTYPES = ("float32", "float64", "complex64", "complex128")


# ------------------------------------------------------------------ charges


def enc_charge(c):
    if isinstance(c, tuple):
        return [int(c[0]), int(c[1])]
    return [int(c), 0]


def dec_charge(c, sym):
    if sym in ("Z2Z2", "U1U1"):
        return (int(c[0]), int(c[1]))
    return int(c[0])


def enc_sector(s):
    return [enc_charge(c) for c in s]


def dec_sector(s, sym):
    return tuple(dec_charge(c, sym) for c in s)


def sym_name(symmetry):
    return symmetry.__class__.__name__


# ------------------------------------------------------------------ scalars


def enc_scalar(z):
    """Exact encoding of a numpy / python scalar."""
    z = complex(z)
    re = Fraction(z.real)
    im = Fraction(z.imag)
    if re.denominator == 1 and im.denominator == 1:
        if im == 0:
            return int(re)
        return [int(re), int(im)]
    return [re.numerator, re.denominator, im.numerator, im.denominator]


def scalar_to_frac(s):
    """decode an encoded scalar to (Fraction re, Fraction im)"""
    if isinstance(s, int):
        return (Fraction(s), Fraction(0))
    if len(s) == 2:
        return (Fraction(s[0]), Fraction(s[1]))
    return (Fraction(s[0], s[1]), Fraction(s[2], s[3]))


def canon_scalar(s):
    re, im = scalar_to_frac(s)
    return (str(re), str(im))


def enc_block(arr, data=True):
    arr = np.asarray(arr)
    if not data:
        return {"shape": [int(d) for d in arr.shape], "data": [0] * int(arr.size)}
    return {
        "shape": [int(d) for d in arr.shape],
        "data": [enc_scalar(v) for v in arr.reshape(-1).tolist()]
        if arr.dtype.kind != "c"
        else [enc_scalar(v) for v in arr.reshape(-1)],
    }


# ------------------------------------------------------------------ indices


def enc_index(ix):
    sub = None
    if ix.subinfo is not None:
        sub = {
            "indices": [enc_index(s) for s in ix.subinfo.indices],
            "extents": [
                [enc_charge(c), [[enc_sector(ss), int(d)] for ss, d in ext.items()]]
                for c, ext in ix.subinfo.extents.items()
            ],
        }
    return {
        "cm": [[enc_charge(c), int(d)] for c, d in ix.chargemap.items()],
        "dual": bool(ix.dual),
        "sub": sub,
    }


def dec_index(j, sym):
    import symmray as sr
    from symmray.abelian_core import SubIndexInfo

    sub = None
    if j.get("sub") is not None:
        sub = SubIndexInfo(
            indices=tuple(dec_index(s, sym) for s in j["sub"]["indices"]),
            extents={
                dec_charge(c, sym): {dec_sector(ss, sym): d for ss, d in ext}
                for c, ext in j["sub"]["extents"]
            },
        )
    return sr.BlockIndex(
        {dec_charge(c, sym): d for c, d in j["cm"]}, dual=j["dual"], subinfo=sub
    )


# ------------------------------------------------------------------ arrays


def enc_oddpos(oddpos):
    return [[int(o.label), bool(o.dual)] for o in oddpos]


def enc_array(x, data=True):
    """Raw serialisation: stored blocks, pending-sign table, labels, tables; dict order.
    `data=False` replaces the numbers by zeros (structure-only, for float-valued factors)."""
    fermi = bool(getattr(x, "fermionic", False))
    out = {
        "sym": sym_name(x.symmetry),
        "fermi": fermi,
        "indices": [enc_index(ix) for ix in x.indices],
        "charge": enc_charge(x.charge),
        "blocks": [
            dict(sector=enc_sector(s), **enc_block(b, data)) for s, b in x.blocks.items()
        ],
        "phases": [[enc_sector(s), int(p)] for s, p in x.phases.items()]
        if fermi
        else [],
        "oddpos": enc_oddpos(x.oddpos) if fermi else [],
        # harness-side only (ignored by the Lean decoder): how to rebuild the python object
        "dtype": str(x.dtype) if x.blocks else "float64",
        "static": bool(x.static_symmetry),
    }
    return out


def block_dtypes(x):
    return sorted({str(np.asarray(b).dtype) for b in x.blocks.values()})


def enc_vec(v, data=True):
    return {
        "vblocks": [
            dict(charge=enc_charge(c), **enc_block(b, data)) for c, b in v.blocks.items()
        ]
    }


def dec_block(j, dtype="float64"):
    def cv(s):
        re, im = scalar_to_frac(s)
        return complex(float(re), float(im))

    a = np.array([cv(s) for s in j["data"]], dtype="complex128").reshape(j["shape"])
    if not dtype.startswith("complex"):
        a = a.real
    return a.astype(dtype)


def dec_array(j, dtype="float64", static=True):
    """Build a real symmray array from the protocol form."""
    import symmray as sr

    sym = j["sym"]
    indices = tuple(dec_index(i, sym) for i in j["indices"])
    blocks = {dec_sector(b["sector"], sym): dec_block(b, dtype) for b in j["blocks"]}
    charge = dec_charge(j["charge"], sym)
    if j["fermi"]:
        cls = (
            getattr(sr, f"{sym}FermionicArray")
            if static and sym != "Z4"
            else sr.FermionicArray
        )
        kw = {} if (static and sym != "Z4") else {"symmetry": sym}
        odd = [sr.FermionicOperator(l, d) for l, d in j.get("oddpos", [])]
        x = cls(indices=indices, charge=charge, blocks=blocks, oddpos=odd, **kw)
        x._phases = {dec_sector(s, sym): p for s, p in j.get("phases", [])}
        return x
    cls = getattr(sr, f"{sym}Array") if static and sym != "Z4" else sr.AbelianArray
    kw = {} if (static and sym != "Z4") else {"symmetry": sym}
    return cls(indices=indices, charge=charge, blocks=blocks, **kw)


def dec_vec(j, dtype="float64", sym=None):
    import symmray as sr

    def ck(c):
        return int(c[0]) if (sym in (None, "Z2", "Z4", "U1")) else (int(c[0]), int(c[1]))

    return sr.BlockVector({ck(b["charge"]): dec_block(b, dtype).reshape(-1) for b in j["vblocks"]})


# ------------------------------------------------------------------ canonical observations


def canon_index(j):
    return (
        tuple((tuple(c), d) for c, d in j["cm"]),
        j["dual"],
        None
        if j.get("sub") is None
        else (
            tuple(canon_index(s) for s in j["sub"]["indices"]),
            tuple(
                sorted(
                    (
                        tuple(c),
                        tuple((tuple(map(tuple, ss)), d) for ss, d in ext),
                    )
                    for c, ext in j["sub"]["extents"]
                )
            ),
        ),
    )


def canon_structure(j, phases=True):
    """structure view: tables, charge, sectors with shapes, sign table (optional), labels; no data"""
    return (
        j["sym"], j["fermi"], tuple(canon_index(i) for i in j["indices"]), tuple(j["charge"]),
        tuple(sorted((tuple(map(tuple, b["sector"])), tuple(b["shape"])) for b in j["blocks"])),
        tuple(sorted((tuple(map(tuple, s)), p) for s, p in j.get("phases", []))) if phases else (),
        tuple((l, d) for l, d in j.get("oddpos", [])),
    )


def canon_array(j, drop_zero=True, tables=True, labels=True, structure=False, phases=True):
    if structure:
        return canon_structure(j, phases=phases)
    """Value view of an array in protocol form: pending signs multiplied in, blocks sorted
    by sector, all-zero blocks dropped (missing ≡ zero).  Hashable."""
    ph = {tuple(map(tuple, s)): p for s, p in j.get("phases", [])}
    blocks = []
    for b in j["blocks"]:
        sec = tuple(map(tuple, b["sector"]))
        sign = ph.get(sec, 1)
        data = tuple(
            (str(sign * re), str(sign * im))
            for re, im in (scalar_to_frac(s) for s in b["data"])
        )
        if drop_zero and all(d == ("0", "0") for d in data):
            continue
        blocks.append((sec, tuple(b["shape"]), data))
    blocks.sort()
    return (
        j["sym"],
        j["fermi"],
        tuple(canon_index(i) for i in j["indices"]) if tables else len(j["indices"]),
        tuple(j["charge"]),
        tuple(blocks),
        tuple((l, d) for l, d in j.get("oddpos", [])) if labels else None,
    )


def canon_vec(j, structure=False):
    if structure:
        return tuple(sorted((tuple(b["charge"]), tuple(b["shape"])) for b in j["vblocks"]))
    return tuple(
        sorted(
            (tuple(b["charge"]), tuple(b["shape"]), tuple(canon_scalar(s) for s in b["data"]))
            for b in j["vblocks"]
        )
    )


def canon_blk(j):
    return (tuple(j["shape"]), tuple(canon_scalar(s) for s in j["data"]))


def canon_val(v, **kw):
    if "arr" in v:
        return ("arr", canon_array(v["arr"], **kw))
    if "vec" in v:
        return ("vec", canon_vec(v["vec"], structure=kw.get("structure", False)))
    if "scalar" in v:
        return ("scalar", canon_scalar(v["scalar"]))
    if "blk" in v:
        return ("blk", canon_blk(v["blk"]))
    if "sectors" in v:
        return ("sectors", tuple(tuple(map(tuple, s)) for s in v["sectors"]))
    raise ValueError(f"unknown value kind: {list(v)}")


def enc_val(x, data=True):
    """Encode a python-side result (array / vector / scalar / ndarray) as a protocol value."""
    import symmray as sr

    if isinstance(x, sr.AbelianArray):
        return {"arr": enc_array(x, data)}
    if isinstance(x, sr.BlockVector):
        return {"vec": enc_vec(x, data)}
    if isinstance(x, np.ndarray) and x.ndim > 0:
        return {"blk": enc_block(x, data)}
    return {"scalar": enc_scalar(x) if data else 0}


def dec_val(v):
    """rebuild the python-side object of a protocol value (for replays)"""
    if "arr" in v:
        j = v["arr"]
        return dec_array(j, dtype=j.get("dtype", "float64"), static=j.get("static", True))
    if "vec" in v:
        return dec_vec(v["vec"])
    if "blk" in v:
        return dec_block(v["blk"], "complex128" if any(isinstance(s, list) for s in v["blk"]["data"]) else "float64")
    re, im = scalar_to_frac(v["scalar"])
    return complex(float(re), float(im)) if im else float(re)


EXC_KIND = [
    (NotImplementedError, "notimpl"),
    (KeyError, "key"),
    (IndexError, "index"),
    (AttributeError, "attr"),
    (AssertionError, "assertion"),
    (TypeError, "type"),
    (ValueError, "value"),
]


def exc_kind(e):
    for cls, name in EXC_KIND:
        if isinstance(e, cls):
            return name
    return "other"
