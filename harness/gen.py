"""Type-directed random generators of symmray objects (all choices from one random.Random)."""

import itertools

import numpy as np

SYMS = ["Z2", "U1", "Z2Z2", "U1U1", "Z4"]
STATIC_SYMS = ["Z2", "U1", "Z2Z2", "U1U1"]


# independent re-implementation of the group operations (harness-side oracle)
def py_combine(sym, charges):
    if sym == "Z2":
        return sum(charges) % 2
    if sym == "Z4":
        return sum(charges) % 4
    if sym == "U1":
        return sum(charges)
    if sym == "Z2Z2":
        return (sum(c[0] for c in charges) % 2, sum(c[1] for c in charges) % 2)
    if sym == "U1U1":
        return (sum(c[0] for c in charges), sum(c[1] for c in charges))
    raise ValueError(sym)


def py_neg(sym, c):
    if sym in ("Z2", "Z2Z2"):
        return c
    if sym == "Z4":
        return (-c) % 4
    if sym == "U1":
        return -c
    return (-c[0], -c[1])


def py_sign(sym, c, dual):
    return py_neg(sym, c) if dual else c


def py_parity(sym, c):
    if sym in ("Z2", "Z4", "U1"):
        return c % 2
    return (c[0] + c[1]) % 2


def py_valid(sym, c):
    """is `c` a legal charge label of `sym` (harness-side, independent of symmray)"""
    if sym in ("Z2", "Z4", "U1"):
        if not isinstance(c, int) or isinstance(c, bool):
            return False
        return c in (0, 1) if sym == "Z2" else (c in (0, 1, 2, 3) if sym == "Z4" else True)
    if not (isinstance(c, tuple) and len(c) == 2 and all(isinstance(q, int) for q in c)):
        return False
    return all(q in (0, 1) for q in c) if sym == "Z2Z2" else True


def py_sector_charge(sym, sector, duals):
    return py_combine(sym, [py_sign(sym, c, d) for c, d in zip(sector, duals)])


def charge_pool(sym):
    if sym == "Z2":
        return [0, 1]
    if sym == "Z4":
        return [0, 1, 2, 3]
    if sym == "U1":
        return [-2, -1, 0, 1, 2]
    if sym == "Z2Z2":
        return [(0, 0), (0, 1), (1, 0), (1, 1)]
    if sym == "U1U1":
        return [(a, b) for a in (-1, 0, 1) for b in (-1, 0, 1)]
    raise ValueError(sym)


def rand_index(rng, sym, max_charges=3, max_size=2, dual=None, min_charges=1):
    import symmray as sr

    pool = charge_pool(sym)
    k = rng.randint(min_charges, min(max_charges, len(pool)))
    charges = rng.sample(pool, k)
    cm = {c: rng.randint(1, max_size) for c in charges}
    if dual is None:
        dual = rng.random() < 0.5
    return sr.BlockIndex(cm, dual=dual)


def valid_sectors(sym, indices, charge):
    out = []
    duals = [ix.dual for ix in indices]
    for sector in itertools.product(*[sorted(ix.chargemap) for ix in indices]):
        if py_sector_charge(sym, sector, duals) == charge:
            out.append(sector)
    return out


def rand_block(rng, shape, dtype="float64", lo=-3, hi=3):
    n = int(np.prod(shape)) if len(shape) else 1
    re = np.array([rng.randint(lo, hi) for _ in range(n)], dtype="float64").reshape(shape)
    if dtype.startswith("complex"):
        im = np.array([rng.randint(lo, hi) for _ in range(n)], dtype="float64").reshape(shape)
        return (re + 1j * im).astype(dtype)
    return re.astype(dtype)


def array_class(sym, fermi, static):
    import symmray as sr

    if static and sym != "Z4":
        return getattr(sr, f"{sym}FermionicArray" if fermi else f"{sym}Array"), {}
    return (sr.FermionicArray if fermi else sr.AbelianArray), {"symmetry": sym}


def rand_array(
    rng,
    sym,
    ndim=None,
    indices=None,
    fermi=False,
    static=True,
    dtype="float64",
    keep=0.7,
    charge=None,
    label=None,
    max_charges=3,
    max_size=2,
    min_blocks=1,
    parity=None,
    pending=False,
):
    """Random valid array.  The total charge is that of a random sector (so at least one sector
    is valid) unless given.  Each valid sector is stored with probability `keep`."""
    if indices is None:
        if ndim is None:
            ndim = rng.randint(1, 4)
        indices = tuple(rand_index(rng, sym, max_charges, max_size) for _ in range(ndim))
    indices = tuple(indices)
    duals = [ix.dual for ix in indices]
    if charge is None:
        for _ in range(50):
            sector = tuple(rng.choice(sorted(ix.chargemap)) for ix in indices)
            charge = py_sector_charge(sym, sector, duals)
            if parity is None or py_parity(sym, charge) == parity:
                break
    secs = valid_sectors(sym, indices, charge)
    kept = [s for s in secs if rng.random() < keep]
    if len(kept) < min_blocks and secs:
        kept = rng.sample(secs, min(min_blocks, len(secs)))
    blocks = {
        s: rand_block(rng, tuple(ix.chargemap[c] for ix, c in zip(indices, s)), dtype)
        for s in kept
    }
    cls, kw = array_class(sym, fermi, static)
    if fermi:
        if py_parity(sym, charge):
            if label is None:
                label = rng.randint(1, 50)
            kw["oddpos"] = label
        x = cls(indices=indices, charge=charge, blocks=blocks, **kw)
        if pending:
            add_pending(rng, x)
        return x
    return cls(indices=indices, charge=charge, blocks=blocks, **kw)


def add_pending(rng, x):
    """put the array into a lazily-signed state through public phase operations"""
    for _ in range(rng.randint(1, 3)):
        k = rng.randint(0, 3)
        if k == 0 and x.ndim:
            axs = rng.sample(range(x.ndim), rng.randint(1, x.ndim))
            x.phase_flip(*axs, inplace=True)
        elif k == 1 and x.ndim:
            perm = list(range(x.ndim))
            rng.shuffle(perm)
            x.phase_transpose(tuple(perm), inplace=True)
        elif k == 2:
            x.phase_global(inplace=True)
        elif x.blocks:
            x.phase_sector(rng.choice(list(x.blocks)), inplace=True)
    if x.blocks and rng.random() < 0.2:
        # explicitly stored trivial signs are a legal state of the sign table ("trivial phases are not
        # necessarily stored"), although the library's own operations never leave them behind
        ph = dict(x.phases)
        for s in rng.sample(list(x.blocks), rng.randint(1, min(2, len(x.blocks)))):
            ph.setdefault(s, 1)
        x.modify(phases=ph)
    return x


def rand_contractible(rng, sym, fermi=False, static=True, dtype="float64", keep=0.7,
                      max_ndim=3, ncon=None, pending=False, parities=(None, None), max_size=2,
                      share_objects=False):
    """Pair (a, b, axes_a, axes_b): `ncon` index pairs match (same table, opposite direction),
    scattered over random axis positions of both operands."""
    na = rng.randint(1, max_ndim)
    nb = rng.randint(1, max_ndim)
    if ncon is None:
        ncon = rng.randint(0, min(na, nb))
    ncon = min(ncon, na, nb)
    shared = [rand_index(rng, sym, 3, max_size) for _ in range(ncon)]
    axes_a = rng.sample(range(na), ncon)
    axes_b = rng.sample(range(nb), ncon)
    ia = [None] * na
    ib = [None] * nb
    for k in range(ncon):
        ia[axes_a[k]] = shared[k]
        ib[axes_b[k]] = shared[k].conj()
    if share_objects and ncon:
        # the SAME BlockIndex object on a contracted axis and on a free axis of an operand (equal index
        # objects are interchangeable by value; anything keyed by object identity must not notice)
        for lst, axes in ((ia, axes_a), (ib, axes_b)):
            free = [q for q in range(len(lst)) if lst[q] is None]
            if free and rng.random() < 0.8:
                lst[rng.choice(free)] = lst[rng.choice(axes)]
    ia = [ix if ix is not None else rand_index(rng, sym, 3, max_size) for ix in ia]
    ib = [ix if ix is not None else rand_index(rng, sym, 3, max_size) for ix in ib]
    a = rand_array(rng, sym, indices=ia, fermi=fermi, static=static, dtype=dtype, keep=keep,
                   parity=parities[0], pending=pending, label=rng.randint(1, 20))
    b = rand_array(rng, sym, indices=ib, fermi=fermi, static=static, dtype=dtype, keep=keep,
                   parity=parities[1], pending=pending, label=rng.randint(21, 40))
    return a, b, axes_a, axes_b


def rand_vec(rng, ix, dtype="float64", keep=0.8):
    import symmray as sr

    return sr.BlockVector(
        {c: rand_block(rng, (d,), dtype) for c, d in ix.chargemap.items() if rng.random() < keep}
    )
