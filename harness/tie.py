"""Translation tie (second model-code tie, by TRANSLATION; properties C17, C03, C13 and — task R1 — C04 (`oddpos_dag`), C05
(`calc_fuse_group_info`, `replace_with_seq`, `AbelianArray.is_valid_sector`), C06 (`dicts_dont_conflict`), C16
(`get_u1_charges`), C19 (the coordination counting of `ham_*_from_edges`)).

Task S3 adds: C13 the INTEGER TAIL of `calc_sub_max_bonds` (fragment `calc_sub_max_bonds.tail`; the float head stays
outside), C16 `get_u1u1_charges` and `choose_duals`, C04 the label scan of `resolve_combined_oddpos` (fragment
`resolve_combined_oddpos.scan`, a `while` loop with explicit fuel), C19 `parse_edges_to_site_info`.

`run_tie(ctx, functions)`:
  1. regenerates lean/SymmModel/Gen/Src.lean from $SYMMRAY_REPO with harness/translate.py (rewritten on
     disk only when the text differs),
  2. builds the fixed Tie modules that speak about `functions` (`lake build SymmModel.Gen.TieSym` …; they
     are not reachable from the root module SymmModel, so the main build never depends on them),
  3. audits the Tie theorems with `#print axioms`,
  4. records the outcome in `ctx.notes` and returns
        {"generated": n, "untranslatable": {fn: why}, "tie_proved": bool, "changed": {fn: why}, "detail": str}.

Verdict rule.  The translation tie is an ADDITIONAL tie.  When it no longer holds (a function became
untranslatable, its translation changed and a Tie proof fails) this is not by itself a violation: the
behavioural correspondence of the same run still decides.  run_tie then records
`translation_tie: broken: <function> <why>` and searches a failing input for the changed functions on an
enumerated box (all charges in [-6,6], all parity tuples and permutations up to length 5): the regenerated
Gen definition and the model function are evaluated in Lean (`lake env lean --run`), the real Python function
is evaluated here; `ctx.violation` is raised only when an independent oracle of the PROPERTY confirms that
the real code is wrong on that input (C17: `valid/combine/sign/parity` against the group-law oracle of
harness/props/c17.py; C03: Koszul sign against the parity of the number of reversed odd pairs;
C13: `argsort` must list the positions by non-decreasing value; C05: the fuse plan stated with sets and
comprehensions, the replaced tuple, the signed charge sum; C06: no common key with different values; C16: the n
charges closest to the origin, positive first; C19: coordination = degree, observed through the coordinations the
real `ham_*_from_edges` hands to its local-term builder).
"""

import fcntl
import hashlib
import itertools
import json
import os
import subprocess
import tempfile
import time
from pathlib import Path

from . import core, translate

GEN_DIR = core.LEAN_DIR / "SymmModel" / "Gen"
SRC = GEN_DIR / "Src.lean"
BASELINE = GEN_DIR / "Baseline.json"
SYMS = ["Z2", "Z4", "U1", "Z2Z2", "U1U1"]
_G = "SymmModel.Gen."

GROUPS = {
    "C17": dict(
        module="SymmModel.Gen.TieSym",
        functions=["sign_scalar", "sign_tuple"] + [f"{s}.{m}" for s in SYMS for m in ("valid", "combine", "sign", "parity")],
        theorems=[_G + n for n in (
            ["sign_scalar_eq", "sign_tuple_eq"]
            + [f"{s}_{m}_eq" for s in SYMS for m in ("valid", "combine", "sign", "parity")]
            + [f"tied_{s}" for s in SYMS]
            + ["laws_of_tied", "sign_defaults"]
            + [f"{s}_laws" for s in SYMS]
            + ["Z4_combine_append", "Z4_combine_sign_cancel", "Z2Z2_parity_combine_pair", "U1U1_combine_perm",
               "Z2Z2_parity_eq_needs_valid"]
        )],
    ),
    "C03": dict(
        module="SymmModel.Gen.TieKoszul",
        functions=["calc_phase_permutation"],
        theorems=[_G + n for n in (
            "calc_phase_permutation_some_eq", "calc_phase_permutation_none_eq",
            "calc_phase_permutation_none_eq_needs_bits", "calc_phase_permutation_eq_invOdd",
            "calc_phase_permutation_none_eq_reverse", "calc_phase_permutation_id",
            "calc_phase_permutation_negative_axes", "calc_phase_permutation_default",
        )],
    ),
    "C13": dict(
        module="SymmModel.Gen.TieUtil",
        functions=["argsort", "permuted", "without", "accum_for_split"],
        theorems=[_G + n for n in ("argsort_eq", "permuted_eq", "without_eq", "accum_for_split_eq",
                                   "accum_for_split_starts")],
    ),
    # ---- task R1
    "C05": dict(
        module="SymmModel.Gen.TieFuse",
        functions=["calc_fuse_group_info"],
        theorems=[_G + n for n in ("calc_fuse_group_info_eq", "calc_fuse_group_info_new_ndim", "cfgi_unfold",
                                   "pyMin_groups", "pyRange2_ofNat", "isNoneAt_dict1", "isNoneAt_loop2")],
    ),
    "C05b": dict(
        module="SymmModel.Gen.TieDict",
        functions=["replace_with_seq", "AbelianArray.is_valid_sector"],
        theorems=[_G + n for n in ("replace_with_seq_eq", "is_valid_sector_generic", "is_valid_sector_eq",
                                   "is_valid_sector_eq_raw")],
    ),
    "C06": dict(
        module="SymmModel.Gen.TieDict",
        functions=["dicts_dont_conflict"],
        theorems=[_G + n for n in ("dicts_dont_conflict_eq", "dicts_dont_conflict_eq_cmAgree", "dicts_dont_conflict_symm",
                                   "pyDictGet_eq_alookup", "pyDictSet_eq_ainsert", "pyDictOfList_eq_adict")],
    ),
    "C19": dict(
        module="SymmModel.Gen.TieDict",
        functions=[f"{h}.coordinations" for h in ("ham_tfim_from_edges", "ham_fermi_hubbard_from_edges",
                                                  "ham_fermi_hubbard_spinless_from_edges")],
        theorems=[_G + n for n in ("tfim_coordinations_eq", "fermi_hubbard_coordinations_eq",
                                   "fermi_hubbard_spinless_coordinations_eq", "tfim_coordination_lookup")],
    ),
    "C04": dict(
        module="SymmModel.Gen.TieFermi",
        functions=["oddpos_dag"],
        theorems=[_G + n for n in ("oddpos_dag_generic", "oddpos_dag_eq", "oddpos_dag_involutive")],
    ),
    "C16": dict(
        module="SymmModel.Gen.TieRand",
        functions=["get_u1_charges", "get_u1u1_charges", "choose_duals"],
        theorems=[_G + n for n in ("get_u1_charges_eq", "pySortedByLex_eq", "u1_key",
                                   # task S3
                                   "get_u1u1_charges_eq", "u1u1_key", "choose_duals_eq")],
    ),
    # ---- task S3
    "C13b": dict(
        module="SymmModel.Gen.TieTrunc",
        functions=["calc_sub_max_bonds.tail"],
        theorems=[_G + n for n in ("calc_sub_max_bonds_tail_eq", "calcSubMaxBonds_eq_tail", "pySum_map_ofNat",
                                   "pyListSet_bump", "tail_fold")],
    ),
    "C19b": dict(
        module="SymmModel.Gen.TieNet",
        functions=["parse_edges_to_site_info"],
        theorems=[_G + n for n in ("parse_edges_to_site_info_eq", "parse_unfold", "bondBody_core", "bondCore_eq", "chain_eq",
                                   "bondBody_cast", "bond_fold", "sorted_edges", "physBody_eq", "site_loop", "finish_rec",
                                   "dict_ext")],
    ),
    "C04b": dict(
        module="SymmModel.Gen.TieFermi",
        functions=["resolve_combined_oddpos.scan"],
        theorems=[_G + n for n in ("scan_unfold", "scanBody_at", "scan_zipper", "scan_eq_resolveScan", "scan_fuel_ok",
                                   "scan_eq_mergeOddpos")],
    ),
}
FUNCTIONS = {k: list(v["functions"]) for k, v in GROUPS.items()}
FUNCTIONS["C05"] = FUNCTIONS["C05"] + FUNCTIONS.pop("C05b")  # run_tie selects every group that contains one of them
FUNCTIONS["C13"] = FUNCTIONS["C13"] + FUNCTIONS.pop("C13b")
FUNCTIONS["C04"] = FUNCTIONS["C04"] + FUNCTIONS.pop("C04b")
FUNCTIONS["C19"] = FUNCTIONS["C19"] + FUNCTIONS.pop("C19b")
# functions the translator is asked for but which are outside its subset on the reference tree (no Tie theorem)
# (S3: of `calc_sub_max_bonds` the integer tail, of `resolve_combined_oddpos` the label scan are tied as fragments; the
# float head / the object mutations around the scan stay outside)
NOT_TIED = ["calc_sub_max_bonds", "resolve_combined_oddpos"]
HAMS = ("ham_tfim_from_edges", "ham_fermi_hubbard_from_edges", "ham_fermi_hubbard_spinless_from_edges")


# ------------------------------------------------------------------------------------ build


def _lake(args, timeout):
    try:
        p = subprocess.run(["lake"] + args, cwd=core.LEAN_DIR, capture_output=True, text=True, timeout=timeout)
        return p.returncode == 0, p.stdout + p.stderr
    except subprocess.TimeoutExpired:
        return False, f"lake {' '.join(args)} timed out after {timeout}s"
    except OSError as e:
        return False, f"lake not runnable: {e}"


def _first_errors(log, n=3):
    errs = [l for l in log.splitlines() if l.startswith("error:") and "build failed" not in l and "Lean exited" not in l]
    return " | ".join(e[:300] for e in errs[:n]) or log[-400:]


def regenerate():
    """-> (report, rewritten: bool)"""
    text, rep = translate.generate(core.REPO)
    old = SRC.read_text() if SRC.exists() else None
    if old != text:
        GEN_DIR.mkdir(parents=True, exist_ok=True)
        tmp = SRC.with_suffix(f".tmp{os.getpid()}")
        tmp.write_text(text)
        os.replace(tmp, SRC)
        return rep, True
    return rep, False


def run_tie(ctx, functions, timeout=900):
    t0 = time.time()
    functions = list(functions)
    groups = [g for g in GROUPS.values() if set(g["functions"]) & set(functions)]
    lock = core.LEAN_DIR / ".lake" / "tie.lock"
    lock.parent.mkdir(parents=True, exist_ok=True)
    with open(lock, "w") as lf:
        fcntl.flock(lf, fcntl.LOCK_EX)  # several property checks may run at the same time
        try:
            status = _run_tie_locked(ctx, functions, groups, timeout)
        finally:
            fcntl.flock(lf, fcntl.LOCK_UN)
    status["wall_s"] = round(time.time() - t0, 2)
    ctx.stat("translation_tie_s", status["wall_s"])
    return status


def _run_tie_locked(ctx, functions, groups, timeout):
    try:
        rep, rewritten = regenerate()
    except Exception as e:  # noqa  (the translator must never take the check down)
        msg = f"translator failed: {type(e).__name__}: {e}"
        ctx.notes.append(f"translation_tie: broken: * {msg}")
        st = dict(generated=0, untranslatable={}, tie_proved=False, changed={f: msg for f in functions}, detail=msg)
        _search(ctx, functions, None, st)
        return st
    baseline = json.loads(BASELINE.read_text()) if BASELINE.exists() else {}
    funcs = rep["functions"]
    untrans = {f: w for f, w in funcs.items() if w != "ok"}
    tied = [f for g in groups for f in g["functions"]]
    changed = {}
    for f in tied:
        if funcs.get(f) != "ok":
            changed[f] = funcs.get(f, "untranslatable: not a translation target")
        elif baseline and rep["hashes"].get(f) != baseline.get(f):
            changed[f] = "the source changed: its translation differs from the one the Tie theorems were proved against"
    status = dict(
        generated=sum(1 for w in funcs.values() if w == "ok"),
        untranslatable=untrans,
        changed=dict(changed),
        rewritten=rewritten,
        tie_proved=False,
        detail="",
        assumptions=rep["assumptions"],
    )

    lean_ok = bool(ctx.lean.build_ok)
    logs, proved, src_ok = [], lean_ok, None
    if not lean_ok:
        status["detail"] = "Lean build unavailable: translation tie not checked"
    else:
        for g in groups:
            ok, log = _lake(["build", g["module"]], timeout)
            if not ok:
                proved = False
                logs.append(f"{g['module']}: {_first_errors(log)}")
                continue
            aud = core.LeanSide()
            res = aud.run_audit(g["module"], g["theorems"])
            if not aud.audit_ok:
                proved = False
                bad = {t: a for t, a in res.items() if a is None or not set(a) <= core.ALLOWED_AXIOMS}
                logs.append(f"{g['module']}: axiom audit failed: {json.dumps(bad)[:600]}")
        forb = ctx.lean.grep_forbidden([GEN_DIR / n for n in (
            "Prelude.lean", "PyLemmas.lean", "Src.lean", "Tie.lean", "TieSym.lean", "TieKoszul.lean", "TieUtil.lean",
            "TieDict.lean", "TieFuse.lean", "TieRand.lean", "TieFermi.lean", "TieTrunc.lean", "TieNet.lean")])
        if forb:
            proved = False
            logs.append("forbidden tokens: " + "; ".join(forb[:5]))
    status["tie_proved"] = bool(proved)
    nthm = sum(len(g["theorems"]) for g in groups)
    mods = ", ".join(g["module"] for g in groups)
    if proved:
        status["detail"] = (f"{len(tied)} generated definitions ({', '.join(tied)}) proved equal to the model functions; "
                            f"{nthm} theorems of {mods} audited")
        ctx.notes.append(
            f"translation_tie: proved: Gen/Src.lean regenerated from the current source ({status['generated']} functions "
            f"translated, {'rewritten' if rewritten else 'identical to the file on disk'}); {status['detail']}"
        )
        ctx.notes.append("translation_tie: assumptions of the translation: " + " // ".join(rep["assumptions"]))
        if changed:  # the text changed but the fixed proofs still go through
            ctx.notes.append("translation_tie: translation text changed, Tie proofs still hold: " + ", ".join(sorted(changed)))
        lim = {f: w for f, w in untrans.items() if f in NOT_TIED}
        if lim:
            ctx.notes.append("translation_tie: outside the translated subset (no translation tie, behavioural tie only): "
                             + "; ".join(f"{f}: {w}" for f, w in sorted(lim.items())))
        return status
    if not lean_ok:
        ctx.notes.append("translation_tie: not checked: " + status["detail"])
        if changed:
            _search(ctx, sorted(changed), rep, status)
        return status
    # broken
    status["detail"] = " || ".join(logs)[:3000]
    suspects = sorted(changed) if changed else [f for f in tied if f in functions]
    for f in suspects:
        why = changed.get(f, "translation unchanged, but the Tie module no longer builds / audits")
        ctx.notes.append(f"translation_tie: broken: {f} {why}")
    ctx.notes.append("translation_tie: lean: " + status["detail"][:1200])
    _search(ctx, suspects, rep, status)
    return status


# ------------------------------------------------------------------------------------ failing-input search

BOX = list(range(-6, 7))
SMALL = list(range(-3, 4))


def _dom(sym, valid_only=True, small=False):
    b = SMALL if small else BOX
    if sym == "Z2":
        return [0, 1] if valid_only else list(b)
    if sym == "Z4":
        return [0, 1, 2, 3] if valid_only else list(b)
    if sym == "U1":
        return list(b)
    if sym == "Z2Z2":
        return [(x, y) for x in (0, 1) for y in (0, 1)] if valid_only else [(x, y) for x in b for y in b]
    return [(x, y) for x in b for y in b]


def box_cases(func):
    """enumerated inputs for one function, smallest first; each is a JSON-able argument list"""
    if "." in func and func.split(".")[0] in SYMS:
        sym, m = func.split(".")
        if m == "valid":
            return [[[c]] for c in _dom(sym, valid_only=False)] + [[[]]]
        if m == "combine":
            out = [[[]]]
            out += [[[a]] for a in _dom(sym)]
            d2 = _dom(sym, small=(sym == "U1U1"))
            out += [[[a, b]] for a in d2 for b in d2]
            if sym != "U1U1":
                d3 = _dom(sym, small=(sym == "U1"))
                out += [[[a, b, c]] for a in d3 for b in d3 for c in d3]
            return out
        if m == "sign":  # one-element argument lists: `dual` omitted (default value)
            return [[c, d] for c in _dom(sym) for d in (True, False)] + [[c] for c in _dom(sym)]
        if m == "parity":
            return [[c] for c in _dom(sym)]
    if func == "sign_scalar":
        return [[c, d] for c in BOX for d in (True, False)] + [[c] for c in BOX]
    if func == "sign_tuple":
        return [[[a, b], d] for a in BOX for b in BOX for d in (True, False)] + [[[a, b]] for a in BOX for b in BOX]
    if func == "calc_phase_permutation":
        out = []
        for n in range(0, 6):
            for par in itertools.product((0, 1), repeat=n):
                out.append([list(par), None])
                out.append([list(par)])  # `perm` omitted
                for perm in itertools.permutations(range(n)):
                    out.append([list(par), list(perm)])
                    if n and n <= 4:
                        out.append([list(par), [ax - n for ax in perm]])
        return out
    if func == "argsort":
        return [[list(l)] for n in range(0, 5) for l in itertools.product(range(4), repeat=n)]
    if func == "dicts_dont_conflict":  # dicts as [[key, value], …] with distinct keys, keys in 0..2, values in 1..2
        ds = [[]]
        for n in (1, 2, 3):
            for ks in itertools.permutations(range(3), n):
                for vs in itertools.product((1, 2), repeat=n):
                    ds.append([[k, v] for k, v in zip(ks, vs)])
        return [[a, b] for a in ds for b in ds if len(a) + len(b) <= 4]
    if func == "replace_with_seq":
        out = []
        for n in range(1, 4):
            it = [10 * (j + 1) for j in range(n)]
            for i in range(n):
                for seq in ([], [7], [7, 8]):
                    out.append([it, i, seq])
        return out
    if func == "calc_fuse_group_info":
        out = []
        for ndim in range(1, 5):
            dual_pats = [[False] * ndim, [bool((j + 1) % 2) for j in range(ndim)], [j >= ndim // 2 for j in range(ndim)]]
            singles = [list(p) for n in range(1, ndim + 1) for p in itertools.permutations(range(ndim), n)]
            groupings = [[g] for g in singles]
            groupings += [[g, h] for g in singles for h in singles if not set(g) & set(h)]
            if ndim <= 3:
                groupings += [[g, h, k] for g in singles for h in singles for k in singles
                              if not set(g) & set(h) and not set(g) & set(k) and not set(h) & set(k)]
            for gr in groupings:
                for d in dual_pats[: (3 if ndim <= 3 else 2)]:
                    out.append([gr, d])
        return out
    if func == "AbelianArray.is_valid_sector":
        out = []
        for sym, dom, tot in (("Z2", [0, 1], [0, 1]), ("U1", [-1, 0, 2], [-1, 0, 1, 3])):
            for ndim in range(0, 4):
                for duals in itertools.product((False, True), repeat=ndim):
                    for sector in itertools.product(dom, repeat=ndim):
                        for ch in tot:
                            out.append([sym, list(duals), ch, list(sector)])
        return out
    if func.endswith(".coordinations") and func.split(".")[0] in HAMS:
        out = [[[]]]
        pairs = [(a, b) for a in range(4) for b in range(4) if a != b]
        for n in (1, 2, 3):
            for es in itertools.combinations(pairs, n):
                if n < 3 or es[0][0] == 0:
                    out.append([[list(e) for e in es]])
        return out[:1200]
    if func == "get_u1_charges":
        return [[n] for n in range(0, 14)]
    if func == "oddpos_dag":  # operators as [label, dual]
        ops = [[l, d] for l in (1, 2, 3) for d in (False, True)]
        return [[[]]] + [[list(c)] for n in (1, 2, 3) for c in itertools.product(ops, repeat=n)]
    # ---- task S3
    if func == "calc_sub_max_bonds.tail":  # [sizes, max_bond] with 0 <= max_bond < sum(sizes): the truncating branch
        out = []
        for n in range(1, 5):
            for sizes in itertools.product(range(1, 5 if n < 4 else 4), repeat=n):
                for mb in range(0, sum(sizes)):
                    out.append([list(sizes), mb])
        return out
    if func == "get_u1u1_charges":
        return [[n] for n in range(0, 27)]
    if func == "choose_duals":  # duals: "equal" | None | bool | sequence of None/bool
        alts = ["equal", None, True, False]
        alts += [list(c) for n in range(0, 4) for c in itertools.product((None, False, True), repeat=n)]
        return [[d, ndim] for d in alts for ndim in range(0, 4)]
    if func == "parse_edges_to_site_info":  # [edges, bond_dim, phys_dim]; sites 0..3, also reversed, repeated, self-loop
        pairs = [(a, b) for a in range(4) for b in range(4)]
        out = [[[], 3, 2], [[], 3, None]]
        for n in (1, 2, 3):
            for es in itertools.product(pairs, repeat=n):
                if n == 3 and not (es[0] <= es[1] <= es[2] and es[0][0] <= 1):
                    continue
                out.append([[list(e) for e in es], 3, 2])
                if n <= 2:
                    out.append([[list(e) for e in es], 2, None])
        return out[:1500]
    if func == "resolve_combined_oddpos.scan":  # operators as [label, dual]; a label at most twice
        ops = [[l, d] for l in (1, 2, 3) for d in (False, True)]
        out = [[[]]]
        for n in (1, 2, 3, 4):
            for c in itertools.product(ops, repeat=n):
                if all(sum(1 for o in c if o[0] == l) <= 2 for l in (1, 2, 3)):
                    out.append([list(c)])
        return out
    return []


def _tup(x):
    return tuple(_tup(v) for v in x) if isinstance(x, list) else x


def call_real(func, args):
    """the real symmray function on one box input (fresh call, caches bypassed where there are any)"""
    import symmray as sr
    from symmray import symmetries as sy

    if "." in func and func.split(".")[0] in SYMS:
        sym, m = func.split(".")
        S = sr.get_symmetry(sym)
        if m in ("valid", "combine"):
            return getattr(S, m)(*[_tup(c) for c in args[0]])
        if m == "sign":
            return S.sign(_tup(args[0]), *args[1:])
        return S.parity(_tup(args[0]))
    if func in ("sign_scalar", "sign_tuple"):
        f = getattr(sy, func)
        return getattr(f, "__wrapped__", f)(_tup(args[0]), *args[1:])
    if func == "calc_phase_permutation":
        f = sy.calc_phase_permutation
        f = getattr(f, "__wrapped__", f)
        return f(tuple(args[0]), *[None if a is None else tuple(a) for a in args[1:]])
    if func == "argsort":
        from symmray import linalg

        return list(linalg.argsort(tuple(args[0])))
    if func == "dicts_dont_conflict":
        from symmray import abelian_core as ac

        return bool(ac.dicts_dont_conflict({k: v for k, v in args[0]}, {k: v for k, v in args[1]}))
    if func == "replace_with_seq":
        from symmray import abelian_core as ac

        return list(ac.replace_with_seq(tuple(args[0]), args[1], tuple(args[2])))
    if func == "calc_fuse_group_info":
        from symmray import abelian_core as ac

        f = getattr(ac.calc_fuse_group_info, "__wrapped__", ac.calc_fuse_group_info)
        r = f(tuple(tuple(g) for g in args[0]), tuple(args[1]))
        # (num_groups, group_singlets, new_ndim, perm, position, axes_before, axes_after, ax2group, group_duals,
        #  new_axes): the components the fuse plan speaks about, container types normalised
        return (int(r[0]), sorted(int(x) for x in r[1]), int(r[2]), [int(x) for x in r[3]], int(r[4]),
                [int(x) for x in r[5]], [int(x) for x in r[6]], [bool(x) for x in r[8]])
    if func == "AbelianArray.is_valid_sector":
        import types

        sym, duals, ch, sector = args
        fake = types.SimpleNamespace(symmetry=sr.get_symmetry(sym), charge=ch,
                                     _indices=tuple(types.SimpleNamespace(dual=d) for d in duals))
        fake.indices = fake._indices
        return bool(sr.AbelianArray.is_valid_sector(fake, tuple(sector)))
    if func.endswith(".coordinations") and func.split(".")[0] in HAMS:
        return _real_coordinations(func.split(".")[0], [tuple(e) for e in args[0]])
    if func == "get_u1_charges":
        from symmray import utils

        return [int(c) for c in utils.get_u1_charges(args[0])]
    if func == "oddpos_dag":
        from symmray import fermionic_core as fc
        from symmray.fermionic_local_operators import FermionicOperator

        return [(r.label, bool(r.dual)) for r in fc.oddpos_dag(tuple(FermionicOperator(l, d) for l, d in args[0]))]
    # ---- task S3
    if func == "calc_sub_max_bonds.tail":  # observed through the whole function (its float head included)
        from symmray import linalg

        return [int(x) for x in linalg.calc_sub_max_bonds(tuple(args[0]), args[1])]
    if func == "get_u1u1_charges":
        from symmray import utils

        return [(int(a), int(b)) for a, b in utils.get_u1u1_charges(args[0])]
    if func == "choose_duals":
        from symmray import utils

        d = args[0]
        try:
            r = utils.choose_duals(tuple(d) if isinstance(d, list) else d, args[1])
        except ValueError:
            return "ValueError"
        return [-1 if x is None else int(bool(x)) for x in r]
    if func == "resolve_combined_oddpos.scan":
        return _real_scan(args[0])
    if func == "parse_edges_to_site_info":
        from symmray import networks

        r = networks.parse_edges_to_site_info([tuple(e) for e in args[0]], args[1], phys_dim=args[2])
        return [(k, [str(x) for x in v["inds"]], [int(x) for x in v["duals"]], [int(x) for x in v["shape"]],
                 int(v["coordination"]), [str(x) for x in v["tags"]]) for k, v in r.items()]
    raise KeyError(func)


def _real_scan(ops):
    """the real `resolve_combined_oddpos` on stand-in arrays: left carries the labels, right none; the global phase is
    observed through the calls of `new.phase_global` -> ([(label, dual)…], phase) or "ValueError" """
    import types

    from symmray import fermionic_core as fc
    from symmray.fermionic_local_operators import FermionicOperator

    flips = []
    new = types.SimpleNamespace(_oddpos=None, phase_global=lambda inplace=False: flips.append(1))
    left = types.SimpleNamespace(oddpos=tuple(FermionicOperator(l, d) for l, d in ops), parity=0)
    right = types.SimpleNamespace(oddpos=(), parity=0)
    try:
        fc.resolve_combined_oddpos(left, right, new)
    except ValueError:
        return "ValueError"
    return ([(r.label, bool(r.dual)) for r in new._oddpos], -1 if len(flips) % 2 else 1)


def _scan_oracle(ops):
    """independent statement of what C04 proves about the label scan (anticommuting operators): pairwise distinct
    labels -> the canonical order (bras by decreasing label, then kets by increasing label) with the sign of the
    permutation (`mergeOddpos_spec`); a conjugate pair that stands ADJACENT after a sorted prefix with distinct labels
    is contracted — sign -1 when the bra stands on the right — and the scan carries on with the remaining list
    (`resolveScan_annihilate_adjacent`).  `None`: the property does not speak about this input (a conjugate pair that
    the sort separates before the scan reaches it is kept by the code)."""
    ops = [tuple(o) for o in ops]
    key = lambda o: (0, -o[0]) if o[1] else (1, o[0])  # noqa
    labels = [o[0] for o in ops]
    if len(set(labels)) == len(labels):
        inv = sum(1 for i in range(len(ops)) for j in range(i + 1, len(ops)) if key(ops[i]) > key(ops[j]))
        return (sorted(ops, key=key), -1 if inv % 2 else 1)
    for p in range(len(ops) - 1):
        pre = ops[: p + 1]
        if len({o[0] for o in pre}) != len(pre) or any(key(pre[i]) > key(pre[i + 1]) for i in range(len(pre) - 1)):
            return None
        if ops[p][0] == ops[p + 1][0]:
            if ops[p][1] == ops[p + 1][1]:
                return "ValueError"  # reached by the scan: `oddpos` must be unique conjugate pairs
            rest = _scan_oracle(ops[:p] + ops[p + 2:])
            if rest is None or rest == "ValueError":
                return None
            return (rest[0], -rest[1] if ops[p + 1][1] else rest[1])
    return None


class _Term:
    """stand-in for a local Hamiltonian term: records the coordinations the builder was given"""

    def __init__(self, coordinations):
        self.coordinations = tuple(int(c) for c in coordinations)

    def copy(self, *a, **k):
        return _Term(self.coordinations)

    def apply_to_arrays(self, fn):
        pass


def _real_coordinations(ham, edges):
    """the coordinations the real `ham_*_from_edges` passes to its local-term builder, per edge: the builders are
    replaced by a recorder for the duration of the call (robust to every rewrite of the counting itself)"""
    import symmray.fermionic_local_operators as flo
    import symmray.hamiltonians as hm

    rec = lambda *a, coordinations=(1, 1), **k: _Term(coordinations)  # noqa
    saved = [(hm, "tfim_local_array", getattr(hm, "tfim_local_array", None)),
             (flo, "fermi_hubbard_local_array", getattr(flo, "fermi_hubbard_local_array", None)),
             (flo, "fermi_hubbard_spinless_local_array", getattr(flo, "fermi_hubbard_spinless_local_array", None))]
    try:
        for mod, name, old in saved:
            if old is not None:
                setattr(mod, name, rec)
        terms = getattr(hm, ham)("Z2", edges)
    finally:
        for mod, name, old in saved:
            if old is not None:
                setattr(mod, name, old)
    return sorted((tuple(e), tuple(t.coordinations)) for e, t in terms.items())


def _coord_obs(edges, table):
    """model / translation side: the table site -> count as the per-edge observation of `_real_coordinations`"""
    t = {k: v for k, v in table}
    return sorted({(tuple(e), (t.get(e[0]), t.get(e[1]))) for e in (tuple(x) for x in edges)})


def oracle(func, args):
    """independent statement of the property clause on this input -> expected value, or a predicate"""
    if "." in func and func.split(".")[0] in SYMS:
        from .props import c17

        sym, m = func.split(".")
        if m == "valid":
            return all(c17.o_valid(sym, _tup(c)) for c in args[0])
        if m == "combine":
            return c17.o_combine(sym, [_tup(c) for c in args[0]])
        if m == "sign":  # sign(c) without `dual` is the inverse charge
            return c17.o_sign(sym, _tup(args[0]), args[1] if len(args) > 1 else True)
        return c17.o_parity(sym, _tup(args[0]))
    if func == "sign_scalar":
        return -args[0] if (len(args) < 2 or args[1]) else args[0]
    if func == "sign_tuple":
        return tuple(-x for x in args[0]) if (len(args) < 2 or args[1]) else tuple(args[0])
    if func == "calc_phase_permutation":
        par, perm = args[0], (args[1] if len(args) > 1 else None)
        n = len(par)
        p = list(range(n - 1, -1, -1)) if perm is None else [ax % n for ax in perm]
        inv = sum(1 for i in range(n) for j in range(i + 1, n) if p[i] > p[j] and par[p[i]] and par[p[j]])
        return -1 if inv % 2 else 1
    if func == "argsort":
        l = args[0]
        return lambda r: sorted(r) == list(range(len(l))) and all(l[r[i]] <= l[r[i + 1]] for i in range(len(r) - 1))
    if func == "dicts_dont_conflict":  # no key in common with different values
        da, db = dict(map(tuple, args[0])), dict(map(tuple, args[1]))
        return not any(da[k] != db[k] for k in set(da) & set(db))
    if func == "replace_with_seq":
        it, i, seq = args
        return [x for j, x in enumerate(it) if j < i] + list(seq) + [x for j, x in enumerate(it) if j > i]
    if func == "calc_fuse_group_info":
        groups, duals = args
        ndim = len(duals)
        grouped = [ax for g in groups for ax in g]
        pos = min(grouped)
        before = [ax for ax in range(ndim) if ax < pos and ax not in grouped]
        after = [ax for ax in range(ndim) if ax >= pos and ax not in grouped]
        return (len(groups), [g for g, ga in enumerate(groups) if len(ga) == 1], ndim - len(grouped) + len(groups),
                before + grouped + after, pos, before, after, [bool(duals[ga[0]]) for ga in groups])
    if func == "AbelianArray.is_valid_sector":
        from .props import c17

        sym, duals, ch, sector = args
        return c17.o_combine(sym, [c17.o_sign(sym, c, d) for c, d in zip(sector, duals)]) == ch
    if func.endswith(".coordinations") and func.split(".")[0] in HAMS:
        edges = [tuple(e) for e in args[0]]
        deg = lambda v: sum((e[0] == v) + (e[1] == v) for e in edges)  # noqa
        return sorted({(e, (deg(e[0]), deg(e[1]))) for e in edges})
    if func == "get_u1_charges":  # the n charges closest to the origin, the positive one first
        return [((k + 1) // 2) * (1 if k % 2 else -1) for k in range(args[0])]
    if func == "oddpos_dag":  # the conjugate of a product of operators: reversed order, each one conjugated
        n = len(args[0])
        return [(args[0][n - 1 - j][0], not args[0][n - 1 - j][1]) for j in range(n)]
    # ---- task S3
    if func == "calc_sub_max_bonds.tail":  # C13: without cutoff the bond dimension equals the limit, split across charges
        sizes, mb = args
        f = lambda r: len(r) == len(sizes) and sum(r) == mb and all(0 <= x <= s for x, s in zip(r, sizes))  # noqa
        f.show = "a split of max_bond across the sectors: entries within [0, size] that sum to max_bond"
        return f
    if func == "get_u1u1_charges":  # the n lattice points closest to the origin, ties towards positive x + y
        import math

        k = math.isqrt(args[0])
        pts = [(i, j) for i in range(-k + 1, k + 1) for j in range(-k + 1, k + 1)]
        return sorted(pts, key=lambda p: (p[0] * p[0] + p[1] * p[1], -(p[0] + p[1])))[: args[0]]
    if func == "choose_duals":
        d, ndim = args
        enc = lambda x: -1 if x is None else int(x)  # noqa
        if d == "equal":
            return [int(i >= ndim // 2) for i in range(ndim)]
        if d is None or d is True or d is False:
            return [enc(d)] * ndim
        return [enc(x) for x in d] if len(d) == ndim else "ValueError"
    if func == "resolve_combined_oddpos.scan":
        return _scan_oracle(args[0])
    if func == "parse_edges_to_site_info":
        # C19: every edge is one bond between its two ends, named by the ordered pair, outgoing (0) at the smaller end and
        # incoming (1) at the larger one; sites in order of first appearance in the sorted edge list; coordination = number
        # of bonds at the site; the physical leg (dual 0) comes last
        edges, bd, pd = args
        canon = [(min(a, b), max(a, b)) for a, b in sorted(tuple(e) for e in edges)]
        order = []
        for a, b in canon:
            for v in (a, b):
                if v not in order:
                    order.append(v)
        out = []
        for v in order:
            legs = [(f"b{a}-{b}", d) for a, b in canon for d, w in ((0, a), (1, b)) if w == v]
            inds, duals, shape = [n for n, _ in legs], [d for _, d in legs], [bd] * len(legs)
            if pd is not None:
                inds, duals, shape = inds + [f"k{v}"], duals + [0], shape + [pd]
            out.append((v, inds, duals, shape, len(legs), [f"I{v}"]))
        return out
    raise KeyError(func)


BOOL_VALUED = ("dicts_dont_conflict", "AbelianArray.is_valid_sector")


def _post(func, args, v):
    """bring a value printed by Lean into the shape of the observation of the real code"""
    if v is None:
        return None
    if func.endswith(".coordinations") and func.split(".")[0] in HAMS:
        return _norm(_coord_obs(args[0], v))
    return v


def _same(func, real, exp):
    if func.endswith(".valid"):
        return isinstance(real, (bool, int)) and bool(real) == bool(exp)
    if func in BOOL_VALUED:
        return isinstance(real, bool) and isinstance(exp, bool) and real == exp
    if isinstance(real, bool) or isinstance(exp, bool):
        return False
    if isinstance(real, str) or isinstance(exp, str):
        return real == exp  # (S3) an error point, e.g. "ValueError"
    return isinstance(real, tuple) == isinstance(exp, tuple) and real == exp


# -- Lean side of the search: a generated script that evaluates model and Gen on JSON lines

_LEAN_HEAD = """import Lean.Data.Json
import SymmModel.Model.Sym
import SymmModel.Model.Trunc
import SymmModel.Model.Check
import SymmModel.Model.Fuse
import SymmModel.Model.Ham
import SymmModel.Model.Rand
import SymmModel.Model.Fermi
%(import_src)s
open Lean SymmModel

def gI (j : Json) : Int := (j.getInt?).toOption.getD 0
def gB (j : Json) : Bool := (j.getBool?).toOption.getD false
def gA (j : Json) : List Json := match j.getArr? with | .ok a => a.toList | _ => []
def gL (j : Json) : List Int := (gA j).map gI
def gP (j : Json) : Int × Int := match gL j with | [a, b] => (a, b) | _ => (0, 0)
def gLP (j : Json) : List (Int × Int) := (gA j).map gP
def e1 (c : Int) : Charge := (c, 0)
def b2i (b : Bool) : Int := if b then 1 else 0
def nAx (n : Nat) (ax : Int) : Nat := (Int.fmod ax n).toNat
def tup (l : List String) : String := "(" ++ ", ".intercalate l ++ ")"
def gOps (j : Json) : List (Int × Bool) := (gA j).map (fun p => (gI ((gA p).getD 0 Json.null), gB ((gA p).getD 1 Json.null)))
def gE (j : Json) : List (Nat × Nat) := (gLP j).map (fun p => (p.1.toNat, p.2.toNat))
def lst (l : List String) : String := "[" ++ ", ".intercalate l ++ "]"
def qlst (l : List String) : String := lst (l.map (fun s => "\\"" ++ s ++ "\\""))
def fillFmt : List String → List Int → String
  | [], _ => ""
  | [s], _ => s
  | s :: rest, [] => s ++ "{}" ++ fillFmt rest []
  | s :: rest, a :: as => s ++ toString a ++ fillFmt rest as
%(pyname)s

def evalOne (f : String) (a : List Json) : String × String :=
  let a0 := a.getD 0 Json.null
  let a1 := a.getD 1 Json.null
  let a2 := a.getD 2 Json.null
  let a3 := a.getD 3 Json.null
  match f with
%(cases)s
  | _ => ("?", "?")

def main : IO Unit := do
  let stdin ← IO.getStdin
  let mut i := 0
  repeat
    let line ← stdin.getLine
    if line.isEmpty then break
    match Json.parse line with
    | .ok j =>
      let f := (j.getObjValD "f").getStr?.toOption.getD ""
      let (m, g) := evalOne f (gA (j.getObjValD "a"))
      IO.println s!"{i}\\t{m}\\t{g}"
    | .error e => IO.println s!"{i}\\tbad\\t{e}"
    i := i + 1
"""


def _lean_case(func, gen_ok):
    """one `| "name" => (model, gen)` arm"""
    g = lambda s: s if gen_ok else '"-"'  # noqa
    if "." in func and func.split(".")[0] in SYMS:
        sym, m = func.split(".")
        pair = sym in ("Z2Z2", "U1U1")
        L, C, E = ("gLP", "gP", "") if pair else ("gL", "gI", ".map e1")
        emb = "" if pair else "e1 "
        proj = "" if pair else ".1"
        if m == "valid":
            return (f'  | "{func}" => (toString ((({L} a0){E}).all (fun c => Sym.valid .{sym} c)), '
                    + g(f"toString (Gen.{func} ({L} a0))") + ")")
        if m == "combine":
            return (f'  | "{func}" => (toString (Sym.combine .{sym} (({L} a0){E})){proj}, '
                    + g(f"toString (Gen.{func} ({L} a0))") + ")")
        if m == "sign":
            return (f'  | "{func}" => (toString (Sym.sign .{sym} ({emb}({C} a0)) (if a.length < 2 then true else gB a1)){proj}, '
                    + g(f"toString (Gen.{func} ({C} a0) (if a.length < 2 then Gen.{func}.default_dual else gB a1))") + ")")
        return (f'  | "{func}" => (toString (b2i (Sym.parity .{sym} ({emb}({C} a0)))), '
                + g(f"toString (Gen.{func} ({C} a0))") + ")")
    if func == "sign_scalar":
        return ('  | "sign_scalar" => (toString (Sym.sign .U1 (e1 (gI a0)) (if a.length < 2 then true else gB a1)).1, '
                + g("toString (Gen.sign_scalar (gI a0) (if a.length < 2 then Gen.sign_scalar.default_dual else gB a1))") + ")")
    if func == "sign_tuple":
        return ('  | "sign_tuple" => (toString (Sym.sign .U1U1 (gP a0) (if a.length < 2 then true else gB a1)), '
                + g("toString (Gen.sign_tuple (gP a0) (if a.length < 2 then Gen.sign_tuple.default_dual else gB a1))") + ")")
    if func == "calc_phase_permutation":
        return ('  | "calc_phase_permutation" =>\n'
                "    let par := gL a0\n"
                "    let perm : Option (List Int) := if a1.isNull then none else some (gL a1)\n"
                "    (toString (koszul (par.map (· != 0)) (perm.map (·.map (nAx par.length)))), "
                + g("toString (Gen.calc_phase_permutation par (if a.length < 2 then Gen.calc_phase_permutation.default_perm else perm))") + ")")
    if func == "argsort":
        return ('  | "argsort" => (toString (argsortNat ((gL a0).map Int.toNat)), '
                + g("toString (Gen.argsort (gL a0))") + ")")
    if func == "dicts_dont_conflict":
        return ('  | "dicts_dont_conflict" => (toString (Check.dictsDontConflict (fun (x y : Int) => x != y) (gLP a0) (gLP a1)), '
                + g("toString (Gen.dicts_dont_conflict (gLP a0) (gLP a1))") + ")")
    if func == "replace_with_seq":
        return ('  | "replace_with_seq" => (toString (replaceWithSeq (gL a0) (gI a1).toNat (gL a2)), '
                + g("toString (Gen.replace_with_seq (gL a0) (gI a1) (gL a2))") + ")")
    if func == "calc_fuse_group_info":
        return ('  | "calc_fuse_group_info" =>\n'
                "    let m := calcFuseGroupInfo ((gA a0).map (fun g => (gL g).map Int.toNat)) ((gA a1).map gB)\n"
                + ("    let r := Gen.calc_fuse_group_info ((gA a0).map gL) ((gA a1).map gB)\n" if gen_ok else "")
                + "    (tup [toString m.numGroups, toString m.singlets, toString m.newNdim, toString m.perm, "
                "toString m.position, toString m.axesBefore, toString m.axesAfter, toString m.groupDuals], "
                + g("tup [toString r.1, toString r.2.1, toString r.2.2.1, toString r.2.2.2.1, toString r.2.2.2.2.1, "
                    "toString r.2.2.2.2.2.1, toString r.2.2.2.2.2.2.1, toString r.2.2.2.2.2.2.2.2.1]") + ")")
    if func == "AbelianArray.is_valid_sector":
        return ('  | "AbelianArray.is_valid_sector" =>\n'
                '    let s : Sym := if (a0.getStr?.toOption.getD "") == "Z2" then .Z2 else .U1\n'
                "    let duals := (gA a1).map gB\n"
                "    let sec := (gL a3).map e1\n"
                "    (toString (Arr.sectorCharge s duals sec == e1 (gI a2)), "
                + g("toString (Gen.AbelianArray.is_valid_sector (fun c d => Sym.sign s c d) (fun cs => Sym.combine s cs) "
                    "duals (e1 (gI a2)) id sec)") + ")")
    if func.endswith(".coordinations") and func.split(".")[0] in HAMS:
        return (f'  | "{func}" => (toString (coordTable (gE a0)), ' + g(f"toString (Gen.{func} (gE a0))") + ")")
    if func == "oddpos_dag":
        return ('  | "oddpos_dag" => (toString (Arr.oddposDag (gOps a0)), '
                + g("toString (Gen.oddpos_dag (fun (p : Int × Bool) => (p.1, !p.2)) (gOps a0))") + ")")
    if func == "get_u1_charges":
        return ('  | "get_u1_charges" => (toString (Rand.u1Charges (gI a0).toNat), '
                + g("toString (Gen.get_u1_charges (gI a0))") + ")")
    # ---- task S3
    if func == "calc_sub_max_bonds.tail":
        return ('  | "calc_sub_max_bonds.tail" =>\n'
                "    let sizes := (gL a0).map Int.toNat\n"
                "    (toString (calcSubMaxBonds sizes (gI a1)), "
                + g("toString (Gen.calc_sub_max_bonds.tail (gI a1) ((baseSplit sizes (gI a1).toNat).map Int.ofNat))") + ")")
    if func == "get_u1u1_charges":
        return ('  | "get_u1u1_charges" => (toString (Rand.u1u1Charges (gI a0).toNat), '
                + g("toString (Gen.get_u1u1_charges (gI a0))") + ")")
    if func == "choose_duals":
        return ('  | "choose_duals" =>\n'
                "    let ob (j : Json) : Option Bool := if j.isNull then none else some (gB j)\n"
                "    let enc (l : List (Option Bool)) : String := toString (l.map (fun (o : Option Bool) => match o with | none => (-1 : Int) | some b => b2i b))\n"
                '    let m : String := match (match a0 with\n'
                '        | Json.str _ => Rand.chooseDuals .equal (gI a1).toNat\n'
                '        | Json.null => Rand.chooseDuals .none (gI a1).toNat\n'
                '        | Json.bool b => Rand.chooseDuals (.all b) (gI a1).toNat\n'
                '        | j => Rand.chooseDuals (.seq ((gA j).map ob)) (gI a1).toNat) with\n'
                '      | .ok l => enc l | .error _ => "\\"ValueError\\""\n'
                + ('    let gg : String := match Gen.choose_duals (match a0 with\n'
                   '        | Json.str s => Gen.PyArg.str s\n'
                   '        | Json.null => Gen.PyArg.none\n'
                   '        | Json.bool b => Gen.PyArg.bool b\n'
                   '        | j => Gen.PyArg.seq ((gA j).map ob)) (gI a1) with\n'
                   '      | .ok l => enc l | .error (.raised c) => "\\"" ++ c ++ "\\"" | .error .outOfFuel => "\\"outOfFuel\\""\n'
                   if gen_ok else "")
                + "    (m, " + g("gg") + ")")
    if func == "parse_edges_to_site_info":
        return ('  | "parse_edges_to_site_info" =>\n'
                "    let pdm : Option Nat := if a2.isNull then none else some (gI a2).toNat\n"
                "    let m := parseEdges (gE a0) (gI a1).toNat pdm\n"
                '    let nm (n : IndName) : String := match n with | .bond a b => s!"b{a}-{b}" | .phys v => s!"k{v}"\n'
                '    let ms := lst (m.map (fun p => tup [toString p.1, qlst (p.2.legs.map (fun l => nm l.name)), '
                'toString (p.2.legs.map (·.dual)), toString (p.2.legs.map (·.dim)), toString p.2.coordination, '
                'qlst [s!"I{p.2.tag}"]]))\n'
                + ('    let r := Gen.parse_edges_to_site_info (gLP a0) (gI a1) (if a2.isNull then none else some (gI a2)) '
                   'Gen.parse_edges_to_site_info.default_site_ind_id Gen.parse_edges_to_site_info.default_bond_ind_id '
                   'Gen.parse_edges_to_site_info.default_site_tag_id\n'
                   '    let gs := lst (r.map (fun p => tup [toString p.1, qlst ((p.2.inds.getD []).map pyNameStr), '
                   'toString (p.2.duals.getD []), toString (p.2.shape.getD []), toString (p.2.coordination.getD (-1)), '
                   'qlst ((p.2.tags.getD []).map pyNameStr)]))\n' if gen_ok else "")
                + "    (ms, " + g("gs") + ")")
    if func == "resolve_combined_oddpos.scan":
        return ('  | "resolve_combined_oddpos.scan" =>\n'
                "    let l := gOps a0\n"
                "    let fuel := l.length * l.length + 2 * l.length + 4\n"
                '    let m : String := match resolveScan fuel [] l 1 with\n'
                '      | .ok r => toString r | .error Err.value => "\\"ValueError\\"" | .error _ => "\\"outOfFuel\\""\n'
                + ('    let gg : String := match Gen.resolve_combined_oddpos.scan (fun (p : Int × Bool) => p.1) (fun (p : Int × Bool) => p.2) oddLt fuel l 1 with\n'
                   '      | .ok r => toString r | .error (.raised c) => "\\"" ++ c ++ "\\"" | .error .outOfFuel => "\\"outOfFuel\\""\n'
                   if gen_ok else "")
                + "    (m, " + g("gg") + ")")
    return None


def _parse(s):
    import ast

    s = s.strip()
    if s in ("-", "?", "bad"):
        return None
    try:
        return ast.literal_eval(s.replace("true", "True").replace("false", "False"))
    except Exception:  # noqa
        return None


def lean_box(funcs, cases, rep, timeout=300):
    """evaluate model (and Gen where translatable and Src builds) on the cases -> list of (model, gen) or None"""
    src_ok, _ = _lake(["build", "SymmModel.Gen.Src"], 300)
    arms = []
    for f in funcs:
        gen_ok = bool(src_ok and rep is not None and rep["functions"].get(f) == "ok")
        arm = _lean_case(f, gen_ok)
        if arm:
            arms.append(arm)
    if not arms:
        return None, "no Lean evaluator for these functions"
    pyname = ('def pyNameStr : Gen.PyName → String\n  | .fmt t args => fillFmt (t.splitOn "{}") args\n'
              '  | .fmtStar t a => fillFmt (t.splitOn "{}") [a]' if src_ok else "")
    script = _LEAN_HEAD % dict(import_src="import SymmModel.Gen.Src" if src_ok else "", cases="\n".join(arms),
                               pyname=pyname)
    adir = core.LEAN_DIR / ".lake" / "audit"
    adir.mkdir(parents=True, exist_ok=True)
    f = adir / f"TieBox_{os.getpid()}.lean"
    f.write_text(script)
    try:
        inp = "".join(json.dumps(dict(f=fn, a=a)) + "\n" for fn, a in cases)
        p = subprocess.run(["lake", "env", "lean", "--run", str(f)], cwd=core.LEAN_DIR, input=inp,
                           capture_output=True, text=True, timeout=timeout)
        if p.returncode != 0:
            return None, (p.stdout + p.stderr)[-600:]
        rows = {}
        for line in p.stdout.splitlines():
            parts = line.split("\t")
            if len(parts) == 3 and parts[0].isdigit():
                rows[int(parts[0])] = (_parse(parts[1]), _parse(parts[2]), parts[2].strip() != "-")
        if len(rows) != len(cases):
            return None, f"Lean answered {len(rows)} of {len(cases)} cases"
        return [rows[i] for i in range(len(cases))], ("Gen and model evaluated" if src_ok else "model evaluated (Gen/Src.lean does not build)")
    except subprocess.TimeoutExpired:
        return None, "lean --run timed out"
    finally:
        try:
            f.unlink()
        except OSError:
            pass


def _norm(v):
    """Lean prints tuples as (a, b) and lists as [..]; real code returns ints / tuples / lists"""
    if isinstance(v, (list, tuple)):
        return tuple(_norm(x) for x in v)
    if isinstance(v, bool):
        return v
    try:
        import numpy as np

        if isinstance(v, np.integer):
            return int(v)
    except Exception:  # noqa
        pass
    return v


def _search(ctx, suspects, rep, status):
    """failing-input search for the functions whose translation tie broke"""
    cases = [(f, a) for f in suspects for a in box_cases(f)]
    if not cases:
        status["search"] = "no enumerable box for " + ", ".join(suspects)
        return
    lean_rows, lean_msg = (None, "Lean unavailable")
    if ctx.lean.build_ok:
        lean_rows, lean_msg = lean_box(suspects, cases, rep)
    nviol, nreal_model, ngen_model, per_f = 0, 0, 0, {}
    for k, (f, a) in enumerate(cases):
        try:
            real = _norm(call_real(f, a))
            raised = None
        except Exception as e:  # noqa
            real, raised = None, f"{type(e).__name__}: {e}"
        exp = oracle(f, a)
        if exp is None:  # the property does not speak about this input
            good, exp_show = True, None
        elif callable(exp):
            good = raised is None and exp(list(real))
            exp_show = getattr(exp, "show", "positions sorted by non-decreasing value")
        else:
            exp = _norm(exp)
            good = raised is None and _same(f, real, exp)
            exp_show = exp
        model = gen = None
        if lean_rows is not None:
            model, gen, has_gen = lean_rows[k]
            model, gen = _post(f, a, _norm(model)), _post(f, a, _norm(gen))
            if raised is None and model is not None and not _same(f, real, model):
                nreal_model += 1
            if has_gen and gen != model:
                ngen_model += 1
                if per_f.setdefault(f, {}).get("gen_vs_model") is None:
                    per_f[f]["gen_vs_model"] = dict(args=a, gen=gen, model=model)
        ctx.stat("translation_tie_search_cases")
        if not good:
            nviol += 1
            if per_f.setdefault(f, {}).get("reported", 0) < 2:
                per_f[f]["reported"] = per_f[f].get("reported", 0) + 1
                ctx.violation(
                    f"{f}{tuple(a)!r} returned {raised or real!r}, the property requires {exp_show!r} "
                    "(found by the failing-input search after the translation tie broke)",
                    dict(function=f, args=a, got=raised or real, expected=exp_show, lean_model=model, lean_gen=gen),
                    triggers={"translation_tie", f},
                    detail=dict(translation=(rep or {}).get("functions", {}).get(f), lean=lean_msg),
                    op=f,
                )
    status["search"] = dict(
        functions=list(suspects), cases=len(cases), lean=lean_msg, real_fails_property=nviol,
        real_differs_from_model=nreal_model, translation_differs_from_model=ngen_model,
        first_translation_difference={f: v.get("gen_vs_model") for f, v in per_f.items() if v.get("gen_vs_model")},
    )
    ctx.notes.append(
        f"translation_tie: failing-input search on {len(cases)} box inputs of {', '.join(suspects)}: "
        f"{nviol} inputs where the real code fails the property, {nreal_model} where it differs from the model, "
        f"{ngen_model} where the regenerated translation differs from the model ({lean_msg})"
    )


if __name__ == "__main__":  # python -m harness.tie [C17|C03|C13 ...]: stand-alone run, prints the status
    import sys

    ids = [a for a in sys.argv[1:] if a in FUNCTIONS] or list(FUNCTIONS)
    ctx = core.Ctx("TIE", "quick", 0)
    sys.path.insert(0, str(core.REPO))
    ctx.lean.build_ok = core.DRV.exists()
    for i in ids:
        st = run_tie(ctx, FUNCTIONS[i])
        print(i, json.dumps({k: v for k, v in st.items() if k != "untranslatable"}, indent=1, default=str)[:3000])
    for n in ctx.notes:
        print("NOTE", n[:600])
    for v in ctx.violations:
        print("VIOLATION", json.dumps(v, default=str)[:600])
    sys.exit(1 if ctx.violations else 0)
