"""Exhaustive enumeration of small index structures (thorough tier of C03 / C05 / C02).

Scope (per the properties' quantifier texts): arrays with <= `max_ndim` indices, every index a
non-empty subset (of size <= `max_charges`) of a small charge pool with block sizes 1 (optionally 2
for the first charge), every dualness pattern, every total charge that admits a valid sector, and
sparsity patterns: all valid sectors stored, or exactly one of them missing.  Z2 and U1.
"""

import itertools
import random

import numpy as np

from . import gen


def index_choices(sym, max_charges):
    pool = {"Z2": [0, 1], "U1": [-1, 0, 1]}[sym]
    out = []
    for k in range(1, max_charges + 1):
        out += list(itertools.combinations(pool, k))
    return out


def structures(sym, ndim, max_charges=2):
    """all (chargesets, duals, charge) with at least one valid sector"""
    import symmray as sr

    ch = index_choices(sym, max_charges)
    for cs in itertools.product(ch, repeat=ndim):
        for duals in itertools.product([False, True], repeat=ndim):
            idx = [sr.BlockIndex({c: 1 for c in s}, dual=d) for s, d in zip(cs, duals)]
            charges = sorted({gen.py_sector_charge(sym, sec, duals) for sec in itertools.product(*cs)})
            for charge in charges:
                yield idx, charge


def arrays(sym, ndim, fermi, max_charges=2, seed=0, sparsity=True):
    """yield small arrays: full, and each single-missing-sector variant"""
    rng = random.Random(seed)
    for idx, charge in structures(sym, ndim, max_charges):
        secs = gen.valid_sectors(sym, idx, charge)
        variants = [secs]
        if sparsity and len(secs) > 1:
            variants += [secs[:k] + secs[k + 1:] for k in range(len(secs))]
        for kept in variants:
            blocks = {s: gen.rand_block(rng, (1,) * ndim, "float64", lo=1, hi=3) for s in kept}
            cls, kw = gen.array_class(sym, fermi, True)
            if fermi and gen.py_parity(sym, charge):
                kw = dict(kw, oddpos=7)
            yield cls(indices=idx, charge=charge, blocks=blocks, **kw)


def count(sym, ndim, max_charges=2):
    return sum(1 for _ in structures(sym, ndim, max_charges))
