"""Type-directed random programs over the public operations (used by C01, C09, C14, C20 …).

A program is a list of protocol steps over an environment of named values.  The generator
runs the real implementation while generating (it needs the intermediate results to pick an
applicable next operation), so it returns steps together with the implementation's results.
"""

from . import gen, impl, ser


def rand_groups(rng, ndim, allow_single=True, max_groups=2):
    """disjoint ordered axis groups"""
    axes = list(range(ndim))
    rng.shuffle(axes)
    groups = []
    ng = rng.randint(1, max_groups)
    for _ in range(ng):
        if not axes:
            break
        k = rng.randint(1 if allow_single else 2, max(1 if allow_single else 2, min(3, len(axes))))
        if k > len(axes):
            break
        groups.append([axes.pop() for _ in range(k)])
    return groups


def pick_step(rng, env, fermi, names, counter, ops=None):
    """choose an operation applicable to some array(s) in env; returns a protocol step or None"""
    import symmray as sr

    arrs = [n for n in names if isinstance(env[n], sr.AbelianArray)]
    if not arrs:
        return None
    n = rng.choice(arrs)
    x = env[n]
    out = f"v{counter}"
    menu = ["transpose", "conj", "dagger", "fuse", "unfuse_all", "tensordot", "squeeze_expand",
            "smul", "neg", "add", "einsum_trace", "multiply_diagonal", "sync_charges", "unfuse"]
    if fermi:
        menu += ["phase_flip", "phase_transpose", "phase_global", "phase_sync", "phase_sector"]
    if ops is not None:
        menu = [m for m in menu if m in ops]
    for _ in range(12):
        op = rng.choice(menu)
        if op == "transpose" and x.ndim >= 1:
            if rng.random() < 0.12:
                return {"out": [out], "op": "transpose", "in": [n], "params": {"prop": True}}  # the .T attribute
            perm = list(range(x.ndim))
            rng.shuffle(perm)
            if rng.random() < 0.25:
                perm = [q - x.ndim if rng.random() < 0.4 else q for q in perm]
            p = {"axes": perm}
            if fermi and rng.random() < 0.15:
                p["phase"] = False  # plain relabelling: pending signs travel with their sectors
            return {"out": [out], "op": "transpose", "in": [n], "params": p}
        if op == "conj":
            p = {}
            if fermi and rng.random() < 0.4:
                p = {"pp": rng.random() < 0.7, "pd": rng.random() < 0.5}
            return {"out": [out], "op": "conj", "in": [n], "params": p}
        if op == "dagger":
            p = {}
            if fermi and rng.random() < 0.3:
                p = {"pd": True}
            elif rng.random() < 0.3:
                p = {"prop": True}  # the .H attribute
            return {"out": [out], "op": "dagger", "in": [n], "params": p}
        if op == "fuse" and x.ndim >= 2 and x.blocks:
            groups = rand_groups(rng, x.ndim)
            if not any(len(g) > 1 for g in groups) and rng.random() < 0.7:
                continue
            if rng.random() < 0.12 and any(len(g) > 0 for g in groups):
                groups = list(groups)
                groups.insert(rng.randint(0, len(groups)), [])  # an empty group expands to a new size-one axis
            p = {"groups": groups}
            if not fermi:
                p["mode"] = rng.choice(["insert", "concat"])
            return {"out": [out], "op": "fuse", "in": [n], "params": p}
        if op == "unfuse_all" and any(ix.subinfo is not None for ix in x.indices):
            return {"out": [out], "op": "unfuse_all", "in": [n], "params": {}}
        if op == "unfuse":
            cands = [i for i, ix in enumerate(x.indices) if ix.subinfo is not None]
            if cands:
                return {"out": [out], "op": "unfuse", "in": [n], "params": {"axis": rng.choice(cands)}}
        if op == "tensordot":
            # contract with the conjugate of itself or of another array over matching axes
            m = rng.choice(arrs)
            y = env[m]
            pairs = []
            used = set()
            for i, ix in enumerate(x.indices):
                for j, iy in enumerate(y.indices):
                    if j in used:
                        continue
                    if ix.dual != iy.dual and ix.chargemap == iy.chargemap and _sub_eq(ix, iy):
                        if rng.random() < 0.6:
                            pairs.append((i, j))
                            used.add(j)
                        break
            if x.ndim + y.ndim - 2 * len(pairs) > 5:
                continue
            if not pairs and rng.random() < 0.8:
                continue
            rng.shuffle(pairs)
            return {"out": [out], "op": "tensordot", "in": [n, m],
                    "params": {"axes": [[a for a, _ in pairs], [b for _, b in pairs]],
                               "mode": rng.choice(["auto", "fused", "blockwise"])}}
        if op == "squeeze_expand":
            if rng.random() < 0.5 and x.ndim <= 4:
                prm = {"axis": rng.randint(0, x.ndim)}
                if rng.random() < 0.35:
                    # an explicit charge on the new axis (even parity for fermionic arrays: an odd one is the
                    # recorded finding expand-dims-odd-charge), direction given or inherited from the neighbour
                    sym_ = ser.sym_name(x.symmetry)
                    pool = [c for c in gen.charge_pool(sym_) if not (fermi and gen.py_parity(sym_, c))]
                    prm["c"] = ser.enc_charge(rng.choice(pool))
                    if rng.random() < 0.4:
                        prm["dual"] = rng.random() < 0.5
                return {"out": [out], "op": "expand_dims", "in": [n], "params": prm}
            ones = [i for i, ix in enumerate(x.indices)
                    if ix.size_total == 1 and list(ix.chargemap)[0] == x.symmetry.combine()]
            if ones:
                return {"out": [out], "op": "squeeze", "in": [n], "params": {"axis": [rng.choice(ones)]}}
        if op == "smul":
            return {"out": [out], "op": "smul", "in": [n], "params": {"scalar": rng.choice([2, -1, 3])}}
        if op == "neg":
            return {"out": [out], "op": "neg", "in": [n], "params": {}}
        if op == "add":
            for m in arrs:
                y = env[m]
                if m != n and _same_struct(x, y):
                    return {"out": [out], "op": "add", "in": [n, m], "params": {}}
            return {"out": [out], "op": "add", "in": [n, n], "params": {}}
        if op == "einsum_trace" and x.ndim >= 2:
            for i in range(x.ndim):
                for j in range(i + 1, x.ndim):
                    ix, iy = x.indices[i], x.indices[j]
                    if ix.dual != iy.dual and ix.chargemap == iy.chargemap and _sub_eq(ix, iy):
                        lhs = list(range(x.ndim))
                        lhs[j] = lhs[i]
                        rhs = [q for k, q in enumerate(lhs) if k not in (i, j)]
                        rng.shuffle(rhs)
                        return {"out": [out], "op": "einsum", "in": [n], "params": {"lhs": lhs, "rhs": rhs}}
        if op == "multiply_diagonal" and x.ndim >= 1:
            ax = rng.randrange(x.ndim)
            v = gen.rand_vec(rng, x.indices[ax], dtype=x.dtype if x.blocks else "float64")
            vn = f"w{counter}"
            env[vn] = v
            return {"out": [out], "op": "multiply_diagonal", "in": [n, vn], "params": {"axis": ax},
                    "_newvals": {vn: v}}
        if op == "sync_charges":
            return {"out": [out], "op": "sync_charges", "in": [n], "params": {}}
        if op == "phase_flip" and x.ndim:
            axs = rng.sample(range(x.ndim), rng.randint(1, x.ndim))
            return {"out": [out], "op": "phase_flip", "in": [n], "params": {"axs": axs}}
        if op == "phase_transpose" and x.ndim:
            if rng.random() < 0.3:
                return {"out": [out], "op": "phase_transpose", "in": [n], "params": {}}
            perm = list(range(x.ndim))
            rng.shuffle(perm)
            return {"out": [out], "op": "phase_transpose", "in": [n], "params": {"axes": perm}}
        if op == "phase_global":
            return {"out": [out], "op": "phase_global", "in": [n], "params": {}}
        if op == "phase_sync":
            return {"out": [out], "op": "phase_sync", "in": [n], "params": {}}
        if op == "phase_sector" and x.blocks:
            s = rng.choice(list(x.blocks))
            return {"out": [out], "op": "phase_sector", "in": [n], "params": {"sector": ser.enc_sector(s)}}
    return None


def _sub_eq(ix, iy):
    if (ix.subinfo is None) != (iy.subinfo is None):
        return False
    if ix.subinfo is None:
        return True
    try:
        return ix.matches(iy)
    except Exception:  # noqa
        return False


def _same_struct(x, y):
    if x.ndim != y.ndim or x.charge != y.charge:
        return False
    for ix, iy in zip(x.indices, y.indices):
        if ix.dual != iy.dual or ix.chargemap != iy.chargemap:
            return False
        if (ix.subinfo is None) != (iy.subinfo is None):
            return False
    return True


def rand_program(rng, sym=None, fermi=None, length=4, dtype=None, static=None, ops=None,
                 pending=None, keep=None):
    """returns (env_encoded, steps, impl_results, meta)"""
    sym = sym or rng.choice(gen.SYMS)
    fermi = rng.random() < 0.5 if fermi is None else fermi
    static = (rng.random() < 0.7) if static is None else static
    dtype = dtype or rng.choice(ser.DTYPES)
    keep = keep if keep is not None else rng.choice([0.4, 0.7, 1.0])
    pending = (rng.random() < 0.5) if pending is None else pending
    a, b, xa, xb = gen.rand_contractible(rng, sym, fermi=fermi, static=static, dtype=dtype,
                                         keep=keep, pending=fermi and pending)
    env = {"a": a, "b": b}
    env0 = {k: ser.enc_val(v) for k, v in env.items()}
    steps = []
    results = []
    names = ["a", "b"]
    for k in range(length):
        st = pick_step(rng, env, fermi, names, k, ops=ops)
        if st is None:
            break
        newvals = st.pop("_newvals", {})
        for vn, v in newvals.items():
            env0[vn] = ser.enc_val(v)
        res, env = impl.run_prog(env, [st])
        steps.append(st)
        results.append(res[0])
        if "raise" in res[0]:
            break
        names.extend(st["out"])
    meta = dict(sym=sym, fermi=fermi, static=static, dtype=dtype, keep=keep)
    return env0, steps, results, meta
