"""Shallow translator  Python (restricted integer subset)  ->  Lean 4 core definitions.

`generate(repo_dir) -> (lean_source, report)` parses the CURRENT source of symmray with `ast` and
re-emits, construct by construct, the functions listed in `TARGETS` as definitions in
`namespace SymmModel.Gen` (file lean/SymmModel/Gen/Src.lean).  The fixed theorems of
lean/SymmModel/Gen/Tie*.lean then state that these generated definitions equal the hand-written
model functions, so the model theorems hold of the literal translation of the code.

The translation is purely syntactic.  A construct outside the subset makes the whole function
`untranslatable: <why>`; it is then omitted (never approximated).  The meaning of each emitted
built-in is fixed in lean/SymmModel/Gen/Prelude.lean.

Subset
  types        int -> Int, bool -> Bool, tuple[int, int] -> Int × Int, tuple[int, ...] and `*args`
               -> List, `x = None` default -> Option, `set()` of ints -> duplicate-free List Int,
               `slice(a, b)` -> (a, b)
  statements   assignment (also `a, b = e1, e2`), augmented assignment, `if` (an `if` whose body always
               returns becomes if-then-else around the rest; otherwise the assigned variables are
               threaded), `if x is None: … return` on an Optional parameter -> `match`,
               `for t in it:` without break/continue/return -> `List.foldl` over the tuple of the
               variables assigned in the body, `s.add(x)`, `l.append(x)`, `return`
  expressions  + - * unary-, `%` (positive literal modulus: Int `%`; otherwise `Int.fmod`),
               `//` -> `Int.fdiv`, `^` -> `pyXor`, comparisons, `and`/`or`/`not` on Booleans (ints
               in a condition mean `!= 0`), `x in {…}`, `x [not] in s`, `seq[i]`, `pair[0]`/`[1]`,
               `sum`, `all`, `len`, `range`, `enumerate`, `tuple(<generator>)`, generators / list
               comprehensions with one `for` and optional `if`s, `isinstance(x, int|tuple)` (-> the typing
               assumption, i.e. `true`), `sorted(xs, key=seq.__getitem__)`, calls of other translated
               functions
  dicts        (R1) `dict` = association list `List (K × V)` with distinct keys in INSERTION ORDER: `{}`,
               `d[k] = v` (`pyDictSet`: overwrite in place or append), `d[k]` (`pyDictGetItem`, default where
               Python raises KeyError), `d.get(k, None)` -> Option, `d.get(k, c)`, `d.setdefault(k, v)` as a
               statement or ONCE inside the right-hand side of an assignment (hoisted: `pyDictSetdefault`
               returns the new dict and the value), `d.items()` as an iterable, `{k: v for …}`; a value type
               becomes `Option` when `None` is stored; `e is None` / `e is not None` on an Optional,
               `x is not None and …` refines `x` in the remaining conjuncts (`match`)
  more (R1)    `for` with `return` in its body -> `pyForReturn` (fold in `Except`, `.error` = early return),
               star-unpacking inside a tuple display -> `++`, slices `l[a:b]`, `l[:b]`, `l[a:]` (`pySlice`),
               generators with several `for`s -> `flatMap`, `min/max` of an iterable or of two ints, `abs`,
               `range(a, b)`, `list(...)`, `zip`, `reversed`, unary `+`, `l.sort(key=lambda x: <int or pair of
               ints>)` -> stable (lexicographic) insertion sort, a generator bound to a name that is
               consumed exactly once, calls of function-valued parameters
  methods      (R1) a method is translated as a function of the attributes of `self` it reads, each declared
               in SELF_SIGS with its type (`self.symmetry.sign` -> parameter `self_symmetry_sign`), and of
               attribute accessors of opaque objects (`ix.dual` -> `attr_dual ix`)
  fragments    (R1) a target `(file, None, function, var)` translates the run of top-level statements of
               `function` from the first to the last one that binds / mutates `var`, as a function of the
               parameters it reads, returning `var`
  (S3)         `l[i] = v` / `l[i] op= v` on lists (`pyListSet`), `l.pop(i)` as a statement (`pyListPop` = eraseIdx),
               `[x] * n` (`pyRepeat`), `x ** <non-negative int literal>`, `import itertools` in a body +
               `itertools.product(xs, repeat=2)` (`pyProduct2` = flatMap), `int(n ** 0.5)` -> the DECLARED
               `pyIsqrtFloat` (= Nat.sqrt; that the float computation agrees is a recorded assumption),
               a parameter of SUM type `None | bool | str | sequence` (`PyArg`, declared per function in
               FALLBACK_SIGS, never inferred; only `x == "lit"`, `x is None|True|False`, `[x] * n`, `len(x)`,
               `return x`), declared return types (RETURN_SIGS), `raise Cls(…)` as an error point for the functions
               of RAISES / fragments with `raises` (`Except PyExc …`; an `if` with a raising branch duplicates the
               statements that follow into both branches), `while` with explicit fuel (`pyWhile`, only in a fragment
               whose spec says `fuel`), `.label` / `.dual` / `<` of opaque objects as declared accessors
  fragments    (S3) declared by a spec in FRAGMENTS: start after the first binding of a variable, run to the end of the
               function, live locals as parameters, several returned variables, fuel, accessors
  strings /    (S3, networks.py) a `str` parameter (declared in PARAM_SIGS) is a FORMAT TEMPLATE: `t.count("{}")`
  records      (`pyStrCount`), `t.format(a, …)` / `t.format(*a)` -> the declared opaque constructors `PyName.fmt` /
               `PyName.fmtStar`; a heterogeneous dict with a fixed set of string keys is a DECLARED record (RECORDS;
               `sites = {}` gets its declared type from LOCAL_SIGS): `P["f"]`, `P["f"] = v`, `P["f"].append(v)`,
               `P.setdefault("f", []).append(v)` where the place `P` is `d[k]` or an ALIAS `x = d.setdefault(k, {})`
               of it (every mutation through `x` is a mutation of `d[k]`; `x`, `k`, `d` must not be re-bound
               afterwards); `for k in d:` (keys), `sorted(pairs)`, `(x,)`, `if x is not None: …` without else,
               a variable first bound in BOTH branches of an `if`
Not in the subset (examples): float arithmetic (`/`, other uses of `int(...)`, `**` with other exponents), bit operations
`& | ~ << >>`, `.bit_count()`, other string operations, dicts with heterogeneous values that are not declared records,
attribute access that is not declared, while without declared fuel, try, break/continue, lambda outside `sort(key=…)`.
"""

import ast
import hashlib
import json
import sys
from pathlib import Path

HEADER = "GENERATED by harness/translate.py — do not edit"

SYMS = ["Z2", "Z4", "U1", "Z2Z2", "U1U1"]
TARGETS = [
    ("symmetries.py", None, "sign_scalar"),
    ("symmetries.py", None, "sign_tuple"),
    *[("symmetries.py", s, m) for s in SYMS for m in ("valid", "combine", "sign", "parity")],
    ("symmetries.py", None, "calc_phase_permutation"),
    ("linalg.py", None, "argsort"),
    ("linalg.py", None, "calc_sub_max_bonds"),
    ("linalg.py", None, "calc_sub_max_bonds", "tail"),
    ("abelian_core.py", None, "permuted"),
    ("abelian_core.py", None, "without"),
    ("abelian_core.py", None, "accum_for_split"),
    ("abelian_core.py", None, "dicts_dont_conflict"),
    ("abelian_core.py", None, "replace_with_seq"),
    ("abelian_core.py", None, "calc_fuse_group_info"),
    ("abelian_core.py", "AbelianArray", "is_valid_sector"),
    ("utils.py", None, "get_u1_charges"),
    ("utils.py", None, "get_u1u1_charges"),
    ("utils.py", None, "choose_duals"),
    ("hamiltonians.py", None, "ham_tfim_from_edges", "coordinations"),
    ("hamiltonians.py", None, "ham_fermi_hubbard_from_edges", "coordinations"),
    ("hamiltonians.py", None, "ham_fermi_hubbard_spinless_from_edges", "coordinations"),
    ("networks.py", None, "parse_edges_to_site_info"),
    ("fermionic_core.py", None, "oddpos_dag"),
    ("fermionic_core.py", None, "resolve_combined_oddpos"),
    ("fermionic_core.py", None, "resolve_combined_oddpos", "scan"),
]

# (S3) fragments DECLARED by a spec (key = "<function>.<name>"); nothing here is inferred from the source:
#   var     the run of top-level statements goes from the first to the last one that binds / mutates `var`
#   start   "after_first": the run starts AFTER the first statement that binds `var` (that statement — here the float
#           step — stays out; `var` itself is then a parameter, see `locals`)
#   end     "function_end": the run goes on to the end of the function (and keeps the function's own `return`)
#   locals  local variables of the function that are live at the start of the run: they become parameters, with
#           the declared type
#   returns the variables returned by the fragment (default: `var`)
#   fuel    the fragment contains ONE `while` loop: it is translated by `pyWhile` with the extra parameter
#           `fuel : Nat` (running out of fuel is the distinguished error `PyExc.outOfFuel`)
#   attrs / lt   attribute accessors and the `__lt__` of the opaque objects (leading parameters)
#   raises  `raise Cls(...)` is an error point: the fragment returns `Except PyExc …`
FRAGMENTS = {
    "calc_sub_max_bonds.tail": dict(var="sub_max_bonds", start="after_first", end="function_end",
                                    locals=[("sub_max_bonds", ("list", ("int",)))]),
    "resolve_combined_oddpos.scan": dict(var="i", locals=[("oddpos", ("list", ("obj", "ι"))), ("phase", ("int",))],
                                         returns=["oddpos", "phase"], fuel=True, raises=True,
                                         attrs=[("ι", "label"), ("ι", "dual")], lt="ι"),
}


def target_key(t):
    fname, cls, name = t[:3]
    return (cls + "." if cls else "") + name + ("." + t[3] if len(t) > 3 else "")


# ------------------------------------------------------------------------------------ types

INT = ("int",)
BOOL = ("bool",)
PAIR = ("prod", INT, INT)
SET = ("set",)
UNK = ("unk",)
TV = ("tvar", "α")
KV = ("tvar", "κ")  # hashable keys / charges: only `==`, `!=` (BEq)
BV = ("tvar", "β")  # dict values compared with `!=` (BEq)
IV = ("obj", "ι")  # opaque objects: only declared attribute accessors
TV_CONSTRAINT = {"α": "[Inhabited α]", "κ": "[BEq κ]", "β": "[BEq β]", "ι": ""}
OBJ_ATTRS = {"ι": {"dual": BOOL, "dag": ("obj", "ι"), "label": KV}}
# (S3) a parameter of SUM type: `None | bool | str | sequence of <elt>` -> `PyArg <elt>` (Gen/Prelude.lean).  Declared per
# function in UNION_SIGS, never inferred.  Only these uses are translated: `x == "<literal>"`, `x is None|True|False`,
# `[x] * n` (x read as its None|bool alternative), `len(x)` / `return x` (x read as its sequence alternative).


def UNION(elt):
    return ("union", elt)


# (S3, networks.py) strings are seen only as FORMAT TEMPLATES: `t.count("{}")` (-> `pyStrCount`) and `t.format(a, …)` /
# `t.format(*a)` (-> the DECLARED opaque constructors `PyName.fmt t [a, …]` / `PyName.fmtStar t a`: two formatted names
# are equal iff template and arguments are); a heterogeneous dict with a fixed set of string keys is a DECLARED record
STR = ("str",)
NAME = ("name",)
REC = ("rec", "PySiteRec")
RECORDS = {"PySiteRec": {"inds": ("list", NAME), "duals": ("list", ("int",)), "shape": ("list", ("int",)),
                         "coordination": ("int",), "tags": ("list", NAME)}}
# declared types of LOCAL variables that start as an empty display (`sites = {}`), per function
LOCAL_SIGS = {"parse_edges_to_site_info": {"sites": ("dict", ("int",), REC)}}
# declared parameter types that override what the default value suggests (`phys_dim=2` may also be None)
PARAM_SIGS = {"parse_edges_to_site_info": {"phys_dim": ("opt", ("int",)), "site_ind_id": STR, "bond_ind_id": STR,
                                           "site_tag_id": STR}}

# (S3) declared return types (a value of a narrower type is injected: bool -> None|bool by `some`, the sum-typed
# parameter by its sequence alternative) and functions whose `raise` statements are error points (`Except PyExc …`)
RETURN_SIGS = {"choose_duals": ("list", ("opt", ("bool",)))}
RAISES = {"choose_duals"}
# attribute accessors a translated FUNCTION uses on its opaque objects (they become leading parameters)
FUNC_ATTRS = {"oddpos_dag": [("ι", "dag")]}


def DICT(k, v):
    return ("dict", k, v)


def FN(ret, *args):
    return ("fn", ret, *args)


def VFN(ret, elt):
    """a function called with star-arguments `f(*xs)`"""
    return ("vfn", ret, elt)


def LIST(t):
    return ("list", t)


def OPT(t):
    return ("opt", t)


def lty(t):
    k = t[0]
    if k == "int":
        return "Int"
    if k == "bool":
        return "Bool"
    if k == "prod":
        return "(" + " × ".join(lty(x) for x in t[1:]) + ")"
    if k == "list":
        return f"(List {lty(t[1])})"
    if k == "opt":
        return f"(Option {lty(t[1])})"
    if k == "set":
        return "(List Int)"
    if k in ("tvar", "obj"):
        return t[1]
    if k == "dict":
        return f"(List ({lty(t[1])} × {lty(t[2])}))"
    if k == "fn":
        return "(" + " → ".join(lty(x) for x in list(t[2:]) + [t[1]]) + ")"
    if k == "vfn":
        return f"(List {lty(t[2])} → {lty(t[1])})"
    if k == "unit":
        return "Unit"
    if k == "union":
        return f"(PyArg {lty(t[1])})"
    if k == "str":
        return "String"
    if k == "name":
        return "PyName"
    if k == "rec":
        return t[1]
    if k == "nat":
        return "Nat"
    if k == "except":
        return f"(Except PyExc {lty(t[1])})"
    if k == "unk":
        return "_"
    raise U(f"type {t}")


def has_unk(t):
    return t == UNK or any(isinstance(x, tuple) and has_unk(x) for x in t[1:])


def has_tv(t):
    return t[0] in ("tvar", "obj") or any(isinstance(x, tuple) and has_tv(x) for x in t[1:])


def tvars(t, out):
    if t[0] in ("tvar", "obj"):
        if t[1] not in out:
            out.append(t[1])
    for x in t[1:]:
        if isinstance(x, tuple):
            tvars(x, out)
    return out


def eq_ok(t):
    """types on which `==` / `!=` is translated (Lean `BEq` agrees with Python equality)"""
    return t in (INT, BOOL, PAIR, KV, BV)


def inhabited(t):
    """types with a `default` (needed where a raising lookup is made total)"""
    if t[0] in ("int", "bool", "list", "opt", "dict", "set", "rec", "name", "str"):
        return True
    if t[0] == "prod":
        return all(inhabited(x) for x in t[1:])
    return t == TV


class U(Exception):
    """construct outside the translated subset"""


# typing assumptions for parameters without annotation (recorded in the report)
FALLBACK_SIGS = {
    "sign_scalar": {"charge": INT, "dual": BOOL},
    "sign_tuple": {"charge": PAIR, "dual": BOOL},
    "argsort": {"seq": LIST(INT)},
    "calc_sub_max_bonds": {"sizes": LIST(INT), "max_bond": INT},
    "permuted": {"it": LIST(TV), "perm": LIST(INT)},
    "without": {"it": LIST(TV), "remove": LIST(INT)},
    "accum_for_split": {"sizes": LIST(INT)},
    "dicts_dont_conflict": {"da": DICT(KV, BV), "db": DICT(KV, BV)},
    "replace_with_seq": {"it": LIST(TV), "index": INT, "seq": LIST(TV)},
    "calc_fuse_group_info": {"axes_groups": LIST(LIST(INT)), "duals": LIST(BOOL)},
    "get_u1_charges": {"ncharge": INT},
    "get_u1u1_charges": {"ncharge": INT},
    "choose_duals": {"duals": UNION(OPT(BOOL)), "ndim": INT},
    "ham_tfim_from_edges": {"edges": LIST(("prod", KV, KV))},
    "ham_fermi_hubbard_from_edges": {"edges": LIST(("prod", KV, KV))},
    "ham_fermi_hubbard_spinless_from_edges": {"edges": LIST(("prod", KV, KV))},
    "parse_edges_to_site_info": {"edges": LIST(PAIR), "bond_dim": INT},
    "oddpos_dag": {"oddpos": LIST(IV)},
}

# attributes of `self` a translated METHOD may read: dotted name -> type (they become parameters, in this
# order, followed by the attribute accessors of opaque objects, followed by the method's own parameters)
SELF_SIGS = {
    "AbelianArray.is_valid_sector": {
        "params": {"sector": LIST(KV)},
        "self": [
            ("self.symmetry.sign", FN(KV, KV, BOOL)),
            ("self.symmetry.combine", VFN(KV, KV)),
            ("self._indices", LIST(IV)),
            ("self.charge", KV),
        ],
        "attrs": [("ι", "dual")],
    },
}


def dotted(e):
    """`self.a.b` -> "self.a.b" (None when the chain does not start at a name)"""
    parts = []
    while isinstance(e, ast.Attribute):
        parts.append(e.attr)
        e = e.value
    if isinstance(e, ast.Name):
        return ".".join([e.id] + parts[::-1])
    return None


def ann_type(a):
    """type annotation -> type, or None"""
    if a is None:
        return None
    s = ast.unparse(a).replace(" ", "")
    return {
        "int": INT,
        "bool": BOOL,
        "tuple[int,int]": PAIR,
        "tuple[int,...]": LIST(INT),
        "list[int]": LIST(INT),
    }.get(s)


def lit(n):
    return f"({n} : Int)"


# ------------------------------------------------------------------------------------ one function


def free_loads(stmts):
    """names read by the statements before being bound by them (comprehension / loop targets are scoped)"""
    out = []

    def expr(n, bound):
        if isinstance(n, ast.Name):
            if isinstance(n.ctx, ast.Load) and n.id not in bound:
                out.append(n.id)
            return
        if isinstance(n, (ast.GeneratorExp, ast.ListComp, ast.SetComp, ast.DictComp)):
            b = set(bound)
            for g in n.generators:
                expr(g.iter, b)
                b |= {x.id for x in ast.walk(g.target) if isinstance(x, ast.Name)}
                for c in g.ifs:
                    expr(c, b)
            for part in ([n.key, n.value] if isinstance(n, ast.DictComp) else [n.elt]):
                expr(part, b)
            return
        if isinstance(n, ast.Lambda):
            b = set(bound) | {a.arg for a in n.args.args}
            expr(n.body, b)
            return
        for ch in ast.iter_child_nodes(n):
            expr(ch, bound)

    def stmts_(ss, bound):
        for s in ss:
            if isinstance(s, ast.Assign):
                expr(s.value, bound)
                for tg in s.targets:
                    if isinstance(tg, (ast.Name, ast.Tuple)):
                        bound |= {x.id for x in ast.walk(tg) if isinstance(x, ast.Name)}
                    else:
                        expr(tg, bound)
            elif isinstance(s, ast.For):
                expr(s.iter, bound)
                b = set(bound) | {x.id for x in ast.walk(s.target) if isinstance(x, ast.Name)}
                stmts_(s.body, b)
                stmts_(s.orelse, set(bound))
            elif isinstance(s, ast.If):
                expr(s.test, bound)
                b1, b2 = set(bound), set(bound)
                stmts_(s.body, b1)
                stmts_(s.orelse, b2)
                bound |= (b1 & b2)  # (S3) bound on both paths
            else:
                for ch in ast.iter_child_nodes(s):
                    if isinstance(ch, ast.stmt):
                        stmts_([ch], set(bound))
                    else:
                        expr(ch, bound)

    stmts_(list(stmts), set())
    return out


class Fn:
    def __init__(self, node, cls, known, notes):
        self.node = node
        self.cls = cls
        self.pyname = (cls + "." if cls else "") + node.name
        self.known = known  # name -> (lean name, [param types], return type) of translated functions
        self.notes = notes
        self.shadowed = set()
        self.refined = {}  # variable -> element type found for an initially empty list
        self.ret_types = []
        self.fresh = 0
        self.selfsig = {}  # dotted attribute of self -> (parameter name, type)
        self.fragment = None  # (variable, [statements]) for a fragment target
        self.ret_depth = 0  # > 0 inside the body of a `for` that contains `return`
        self.dirty = False  # a type was refined during this pass: translate again
        self.gens = {}  # names bound to a generator expression (consumed once)
        self.spec = None  # (S3) the declared spec of a fragment target (FRAGMENTS)
        self.raises = False  # (S3) `raise` is an error point: the function returns `Except PyExc …`
        self.ret_decl = None  # (S3) declared return type (RETURN_SIGS)
        self.need_inh = set()  # (S3) opaque object types whose lists are indexed (`[Inhabited ι]`)
        self.new_in_branches = set()
        self.aliases = {}  # (S3) alias name -> (dict, key variable), registered where the alias statement is translated
        self.alias_map = {}  # (S3) alias name -> dict, found syntactically in the whole body

    # -- helpers
    def note(self, s):
        s = f"{self.pyname}: {s}"
        if s not in self.notes:
            self.notes.append(s)

    def signature(self):
        a = self.node.args
        if a.kwonlyargs or a.kwarg or a.posonlyargs:
            raise U("keyword-only / **kwargs parameters")
        params = list(a.args)
        sig = []
        fb = FALLBACK_SIGS.get(self.node.name, {}) if not self.cls else {}
        if self.cls:
            if not params or params[0].arg != "self":
                raise U("method without self")
            params = params[1:]
            ss = SELF_SIGS.get(self.pyname)
            if ss:
                fb = ss["params"]
                for dn, t in ss["self"]:
                    pn = dn.replace(".", "_")
                    self.selfsig[dn] = (pn, t)
                    sig.append((pn, t))
                    self.note(f"`{dn}` is read as the parameter `{pn} : {lty(t)}` (a pure function / value of the receiver)")
                for ov, at in ss["attrs"]:
                    sig.append((f"attr_{at}", FN(OBJ_ATTRS[ov][at], ("obj", ov))))
                    self.note(f"`<object>.{at}` of the opaque objects {ov} is the parameter `attr_{at}`")
        if self.spec:
            for ov, at in self.spec.get("attrs", []):
                sig.append((f"attr_{at}", FN(OBJ_ATTRS[ov][at], ("obj", ov))))
                self.note(f"`<object>.{at}` of the opaque objects {ov} is the parameter `attr_{at}`")
            if self.spec.get("lt"):
                ov = self.spec["lt"]
                sig.append(("obj_lt", FN(BOOL, ("obj", ov), ("obj", ov))))
                self.note(f"`x < y` on the opaque objects {ov} (their `__lt__`) is the parameter `obj_lt`")
            if self.spec.get("fuel"):
                sig.append(("fuel", ("nat",)))
                self.note("the `while` loop is translated by `pyWhile` with the explicit parameter `fuel : Nat`; running "
                          "out of fuel is the error `PyExc.outOfFuel` (the Tie theorem states the bound that suffices)")
        if not self.cls and not self.fragment:
            for ov, at in FUNC_ATTRS.get(self.node.name, []):
                sig.append((f"attr_{at}", FN(OBJ_ATTRS[ov][at], ("obj", ov))))
                self.note(f"`<object>.{at}` of the opaque objects {ov} is the parameter `attr_{at}`")
        defaults = [None] * (len(params) - len(a.defaults)) + list(a.defaults)
        if self.fragment:
            # a fragment is a function of the parameters its statements read
            used = {n.id for st in self.fragment[1] for n in ast.walk(st) if isinstance(n, ast.Name)}
            keep = [(p, d) for p, d in zip(params, defaults) if p.arg in used]
            params, defaults = [p for p, _ in keep], [None for _ in keep]
            if a.vararg and a.vararg.arg in used:
                raise U(f"fragment reads *{a.vararg.arg}")
        self.defaults = []  # (parameter, type, lean value): part of the meaning for callers that omit it
        psig = PARAM_SIGS.get(self.node.name, {}) if not self.cls and not self.fragment else {}
        for p, d in zip(params, defaults):
            t = ann_type(p.annotation)
            if p.arg in psig and t is None:
                # (S3) a DECLARED parameter type
                t = psig[p.arg]
                self.note(f"parameter `{p.arg}` is declared {lty(t)}")
                if d is not None:
                    if not isinstance(d, ast.Constant):
                        raise U(f"default value `{ast.unparse(d)}` of parameter {p.arg}")
                    v = d.value
                    if t == STR and isinstance(v, str):
                        dv = json.dumps(v, ensure_ascii=False)
                    elif t == OPT(INT) and v is None:
                        dv = "none"
                    elif t == OPT(INT) and isinstance(v, int) and not isinstance(v, bool):
                        dv = f"(some {lit(v)})"
                    else:
                        raise U(f"default value `{ast.unparse(d)}` does not have the declared type of parameter {p.arg}")
                    self.defaults.append((p.arg, t, dv))
                sig.append((p.arg, t))
                continue
            if d is not None and not (isinstance(d, ast.Constant) and (d.value is None or isinstance(d.value, (bool, int)))):
                raise U(f"default value `{ast.unparse(d)}` of parameter {p.arg}")
            if d is not None and isinstance(d, ast.Constant):
                if d.value is None:
                    if t is None:
                        raise U(f"parameter {p.arg}=None without a type annotation")
                    t = OPT(t)
                elif isinstance(d.value, bool):
                    t = t or BOOL
                elif isinstance(d.value, int):
                    t = t or INT
            if t is None and p.arg in fb:
                t = fb[p.arg]
                self.note(f"parameter `{p.arg}` has no annotation; assumed {lty(t)}")
            if t is None:
                raise U(f"parameter {p.arg}: no usable type annotation ({ast.unparse(p.annotation) if p.annotation else 'none'})")
            if d is not None:
                v = d.value
                dv = "none" if v is None else ("true" if v is True else "false" if v is False else lit(v))
                if (v is None) != (t[0] == "opt") or (isinstance(v, bool) != (t == BOOL)):
                    raise U(f"default value `{ast.unparse(d)}` does not have the type of parameter {p.arg}")
                self.defaults.append((p.arg, t, dv))
            sig.append((p.arg, t))
        if a.vararg and not self.fragment:
            t = ann_type(a.vararg.annotation)
            if t is None:
                raise U(f"*{a.vararg.arg}: no usable type annotation")
            sig.append((a.vararg.arg, LIST(t)))
        if self.spec:
            for ln, lt_ in self.spec.get("locals", []):
                sig.append((ln, lt_))
                self.note(f"the local variable `{ln}` (live at the start of the fragment) is the parameter `{ln} : {lty(lt_)}`")
        return sig

    # -- expressions: return (lean text, type)
    def truthy(self, e, env):
        if isinstance(e, ast.BoolOp):
            if isinstance(e.op, ast.And) and any(self.not_none_name(v, env) for v in e.values[:-1]):
                return self.conj(list(e.values), env)
            # in a condition `a and b` / `a or b` is true iff the connective of the truth values is
            j = " && " if isinstance(e.op, ast.And) else " || "
            return "(" + j.join(self.truthy(v, env) for v in e.values) + ")"
        s, t = self.expr(e, env)
        if t == BOOL:
            return s
        if t == INT:
            return f"({s} != 0)"
        raise U(f"truth value of a {t[0]} in `{ast.unparse(e)}`")

    @staticmethod
    def not_none_name(v, env):
        """`x is not None` for a local `x` of Optional type -> x"""
        if (
            isinstance(v, ast.Compare)
            and len(v.ops) == 1
            and isinstance(v.ops[0], ast.IsNot)
            and isinstance(v.comparators[0], ast.Constant)
            and v.comparators[0].value is None
            and isinstance(v.left, ast.Name)
            and env.get(v.left.id, ("?",))[0] == "opt"
        ):
            return v.left.id
        return None

    def conj(self, vals, env):
        """short-circuit `and` in a condition; `x is not None and rest` evaluates `rest` with x unwrapped"""
        v = vals[0]
        x = self.not_none_name(v, env)
        if x is not None and len(vals) > 1:
            env2 = dict(env)
            env2[x] = env[x][1]
            return f"(match {x} with | none => false | some {x} => {self.conj(vals[1:], env2)})"
        a = self.truthy(v, env)
        if len(vals) == 1:
            return a
        return f"({a} && {self.conj(vals[1:], env)})"

    def as_int(self, e, env):
        s, t = self.expr(e, env)
        if t != INT:
            raise U(f"integer expected in `{ast.unparse(e)}` (got {t[0]})")
        return s

    def expr(self, e, env):
        if isinstance(e, ast.Constant):
            if isinstance(e.value, bool):
                return ("true" if e.value else "false"), BOOL
            if isinstance(e.value, int):
                return lit(e.value), INT
            if isinstance(e.value, float):
                raise U("float constant")
            raise U(f"constant {e.value!r}")
        if isinstance(e, ast.Name):
            if e.id not in env:
                raise U(f"name `{e.id}` is not a local variable or parameter")
            return e.id, env[e.id]
        if isinstance(e, ast.UnaryOp):
            if isinstance(e.op, ast.USub):
                if isinstance(e.operand, ast.Constant) and isinstance(e.operand.value, int) and not isinstance(e.operand.value, bool):
                    return lit(-e.operand.value), INT
                return f"(-{self.as_int(e.operand, env)})", INT
            if isinstance(e.op, ast.Not):
                return f"(!{self.truthy(e.operand, env)})", BOOL
            if isinstance(e.op, ast.UAdd):
                return self.as_int(e.operand, env), INT  # `+x` on an int is `x`
            raise U(f"unary operator `{ast.unparse(e)}`")
        if isinstance(e, ast.BinOp):
            op = e.op
            if isinstance(op, ast.Div):
                raise U(f"float division `{ast.unparse(e)}`")
            if isinstance(op, ast.Mult) and isinstance(e.left, ast.List) and len(e.left.elts) == 1:
                # (S3) `[x] * n`: n copies (none for n <= 0)
                x, tx = self.expr(e.left.elts[0], env)
                if tx[0] == "union":
                    if tx[1] != OPT(BOOL):
                        raise U(f"`{ast.unparse(e)}`: the None|bool alternative of {lty(tx)}")
                    self.note(f"`{ast.unparse(e.left)}` reads the sum-typed `{x}` as its None|bool alternative (`PyArg.scalar`)")
                    x, tx = f"(PyArg.scalar {x})", OPT(BOOL)
                return f"(pyRepeat {x} {self.as_int(e.right, env)})", LIST(tx)
            if (isinstance(op, ast.Pow) and isinstance(e.right, ast.Constant) and isinstance(e.right.value, int)
                    and not isinstance(e.right.value, bool) and e.right.value >= 0):
                # (S3) `x ** <non-negative int literal>` on ints
                return f"({self.as_int(e.left, env)} ^ ({e.right.value} : Nat))", INT
            if isinstance(op, (ast.BitAnd, ast.BitOr, ast.Invert, ast.LShift, ast.RShift, ast.Pow, ast.MatMult)):
                raise U(f"operator `{type(op).__name__}` in `{ast.unparse(e)}`")
            a, b = self.as_int(e.left, env), self.as_int(e.right, env)
            if isinstance(op, ast.Add):
                return f"({a} + {b})", INT
            if isinstance(op, ast.Sub):
                return f"({a} - {b})", INT
            if isinstance(op, ast.Mult):
                return f"({a} * {b})", INT
            if isinstance(op, ast.Mod):
                r = e.right
                if isinstance(r, ast.Constant) and isinstance(r.value, int) and not isinstance(r.value, bool) and r.value > 0:
                    return f"({a} % {b})", INT
                return f"(Int.fmod {a} {b})", INT
            if isinstance(op, ast.FloorDiv):
                return f"(Int.fdiv {a} {b})", INT
            if isinstance(op, ast.BitXor):
                return f"(pyXor {a} {b})", INT
            raise U(f"operator in `{ast.unparse(e)}`")
        if isinstance(e, ast.BoolOp) and isinstance(e.op, ast.And) and any(
            self.not_none_name(v, env) for v in e.values[:-1]
        ):
            for v in e.values[1:]:
                if self.not_none_name(v, env) is None and not isinstance(v, (ast.Compare, ast.BoolOp, ast.UnaryOp)):
                    raise U(f"`and` on non-Boolean operands in `{ast.unparse(e)}`")
            return self.conj(list(e.values), env), BOOL
        if isinstance(e, ast.BoolOp):
            parts = [self.truthy(v, env) for v in e.values]
            # Python's and/or return an operand; on Booleans that is the Boolean connective
            for v in e.values:
                if self.expr(v, env)[1] != BOOL:
                    raise U(f"`and`/`or` on non-Boolean operands in `{ast.unparse(e)}`")
            j = " && " if isinstance(e.op, ast.And) else " || "
            return "(" + j.join(parts) + ")", BOOL
        if isinstance(e, ast.Compare):
            if len(e.ops) != 1:
                raise U(f"chained comparison `{ast.unparse(e)}`")
            op, l, r = e.ops[0], e.left, e.comparators[0]
            if isinstance(l, ast.Name) and env.get(l.id, ("?",))[0] == "union":
                # (S3) the tests on a sum-typed parameter
                if isinstance(op, ast.Eq) and isinstance(r, ast.Constant) and isinstance(r.value, str):
                    return f"(PyArg.isStr {l.id} {json.dumps(r.value)})", BOOL
                if isinstance(op, ast.Is) and isinstance(r, ast.Constant) and r.value is None:
                    return f"(PyArg.isNone {l.id})", BOOL
                if isinstance(op, ast.Is) and isinstance(r, ast.Constant) and isinstance(r.value, bool):
                    return f"(PyArg.isBool {l.id} {'true' if r.value else 'false'})", BOOL
                raise U(f"`{ast.unparse(e)}` on the sum-typed parameter `{l.id}`")
            if isinstance(op, (ast.Is, ast.IsNot)) and isinstance(r, ast.Constant) and r.value is None:
                a, ta = self.expr(l, env)
                if ta[0] != "opt":
                    raise U(f"`{ast.unparse(e)}` on a value that is not Optional ({lty(ta)})")
                return (f"(Option.isNone {a})" if isinstance(op, ast.Is) else f"(Option.isSome {a})"), BOOL
            if isinstance(op, (ast.In, ast.NotIn)):
                x = self.as_int(l, env)
                if isinstance(r, ast.Set):
                    elts = ", ".join(self.as_int(v, env) for v in r.elts)
                    s = f"(pyIn {x} [{elts}])"
                else:
                    c, t = self.expr(r, env)
                    if t not in (SET, LIST(INT)):
                        raise U(f"membership in a {t[0]} in `{ast.unparse(e)}`")
                    s = f"({c}.contains {x})"
                return (s if isinstance(op, ast.In) else f"(!{s})"), BOOL
            if isinstance(op, (ast.Is, ast.IsNot)):
                raise U(f"`is` outside the `if x is None:` statement form: `{ast.unparse(e)}`")
            a, ta = self.expr(l, env)
            b, tb = self.expr(r, env)
            if isinstance(op, ast.Lt) and ta == tb and ta[0] == "obj" and "obj_lt" in env:
                return f"(obj_lt {a} {b})", BOOL  # (S3) the declared `__lt__` of the opaque objects
            if ta != tb or not eq_ok(ta):
                raise U(f"comparison of {ta[0]} with {tb[0]} in `{ast.unparse(e)}`")
            if isinstance(op, ast.Eq):
                return f"({a} == {b})", BOOL
            if isinstance(op, ast.NotEq):
                return f"({a} != {b})", BOOL
            if ta != INT:
                raise U(f"ordering on {ta[0]} in `{ast.unparse(e)}`")
            sym = {ast.Lt: "<", ast.LtE: "≤", ast.Gt: ">", ast.GtE: "≥"}[type(op)]
            return f"(decide ({a} {sym} {b}))", BOOL
        if isinstance(e, ast.IfExp):
            c = self.truthy(e.test, env)
            a, ta = self.expr(e.body, env)
            b, tb = self.expr(e.orelse, env)
            if ta != tb:
                raise U(f"branches of different type in `{ast.unparse(e)}`")
            return f"(if {c} then {a} else {b})", ta
        if isinstance(e, (ast.Tuple, ast.List)) and any(isinstance(v, ast.Starred) for v in e.elts):
            # `(*a, x, *b)`: concatenation, left to right
            parts, et = [], None
            for v in e.elts:
                if isinstance(v, ast.Starred):
                    if isinstance(v.value, (ast.GeneratorExp, ast.ListComp)):
                        sv, tv = self.comp(v.value, env)
                    else:
                        sv, tv = self.expr(v.value, env)
                    if tv[0] != "list" or has_unk(tv):
                        raise U(f"star-unpacking of a {tv[0]} in `{ast.unparse(e)}`")
                    tv = tv[1]
                else:
                    sv, tv = self.expr(v, env)
                    sv = f"[{sv}]"
                if et is not None and tv != et:
                    raise U(f"star-unpacking of different element types in `{ast.unparse(e)}`")
                et = tv
                parts.append(sv)
            return "(" + " ++ ".join(parts) + ")", LIST(et)
        if isinstance(e, ast.Tuple) and len(e.elts) == 1:
            v, t = self.expr(e.elts[0], env)  # (S3) `(x,)`: tuples and lists are both List
            return f"[{v}]", LIST(t)
        if isinstance(e, ast.Tuple):
            if len(e.elts) < 2:
                raise U(f"tuple display `{ast.unparse(e)}`")
            parts = [self.expr(v, env) for v in e.elts]
            return "(" + ", ".join(p[0] for p in parts) + ")", ("prod", *[p[1] for p in parts])
        if isinstance(e, ast.List):
            if not e.elts:
                return "[]", LIST(UNK)
            parts = [self.expr(v, env) for v in e.elts]
            if any(p[1] != parts[0][1] for p in parts):
                raise U(f"heterogeneous list `{ast.unparse(e)}`")
            return "[" + ", ".join(p[0] for p in parts) + "]", LIST(parts[0][1])
        if isinstance(e, ast.Subscript):
            fld = self.rec_field(e, env)
            if fld is not None:
                (d, k), f, ft = fld  # (S3) `sites[k]["f"]`: the field of the declared record (KeyError -> default)
                return f"((pyDictGetItem {d} {k}).{f}.getD default)", ft
            v, t = self.expr(e.value, env)
            if isinstance(e.slice, ast.Slice):
                sl = e.slice
                if sl.step is not None or t[0] != "list" or has_unk(t):
                    raise U(f"slicing `{ast.unparse(e)}`")
                lo = "none" if sl.lower is None else f"(some {self.as_int(sl.lower, env)})"
                hi = "none" if sl.upper is None else f"(some {self.as_int(sl.upper, env)})"
                return f"(pySlice {v} {lo} {hi})", t
            if t[0] == "dict":
                if has_unk(t):
                    raise U(f"lookup in a dict of unknown type `{ast.unparse(e)}`")
                k, tk = self.expr(e.slice, env)
                if tk != t[1]:
                    raise U(f"key of type {lty(tk)} in a dict with keys {lty(t[1])}: `{ast.unparse(e)}`")
                if not inhabited(t[2]):
                    raise U(f"`{ast.unparse(e)}`: no default value for {lty(t[2])} where Python raises KeyError")
                return f"(pyDictGetItem {v} {k})", t[2]
            if t[0] == "prod":
                if len(t) == 3 and isinstance(e.slice, ast.Constant) and e.slice.value in (0, 1):
                    return f"{v}.{e.slice.value + 1}", t[1 + e.slice.value]
                raise U(f"tuple index `{ast.unparse(e)}`")
            if t[0] == "list":
                i = self.as_int(e.slice, env)
                if has_unk(t):
                    raise U(f"indexing a list of unknown element type `{ast.unparse(e)}`")
                if t[1][0] == "obj":
                    self.need_inh.add(t[1][1])
                return f"(pyGet {v} {i})", t[1]
            raise U(f"subscript of a {t[0]} in `{ast.unparse(e)}`")
        if isinstance(e, (ast.GeneratorExp, ast.ListComp)):
            return self.comp(e, env)
        if isinstance(e, ast.Call):
            return self.call(e, env)
        if isinstance(e, ast.Attribute):
            dn = dotted(e)
            if dn in self.selfsig:
                pn, t = self.selfsig[dn]
                if t[0] in ("fn", "vfn"):
                    raise U(f"`{dn}` is a function: only calls are translated")
                return pn, t
            if dn is None or not dn.startswith("self."):
                v, t = self.expr(e.value, env)
                if t[0] == "obj" and e.attr in OBJ_ATTRS.get(t[1], {}):
                    return f"(attr_{e.attr} {v})", OBJ_ATTRS[t[1]][e.attr]
            raise U(f"attribute access `{ast.unparse(e)}`")
        if isinstance(e, ast.Dict):
            if e.keys:
                raise U(f"dict display `{ast.unparse(e)}`")
            return "[]", DICT(UNK, UNK)
        if isinstance(e, ast.DictComp):
            if len(e.generators) != 1 or e.generators[0].is_async:
                raise U(f"dict comprehension `{ast.unparse(e)}`")
            g = e.generators[0]
            src, et = self.iterable(g.iter, env)
            pat, env2 = self.bind(g.target, et, env)
            for c in g.ifs:
                src = f"({src}.filter (fun {self.binder(pat, et)} => {self.truthy(c, env2)}))"
            k, tk = self.expr(e.key, env2)
            v, tv = self.expr(e.value, env2)
            if not eq_ok(tk):
                raise U(f"dict keys of type {lty(tk)}")
            return f"(pyDictOfList ({src}.map (fun {self.binder(pat, et)} => ({k}, {v}))))", DICT(tk, tv)
        raise U(f"expression `{ast.unparse(e)}` ({type(e).__name__})")

    def iterable(self, it, env):
        """-> (lean list expression, element type)"""
        if isinstance(it, ast.Call) and isinstance(it.func, ast.Name) and not it.keywords:
            if it.func.id in self.shadowed:
                raise U(f"`{it.func.id}` is re-bound at module level, it is not the built-in")
            if it.func.id == "range" and len(it.args) == 1:
                return f"(pyRange {self.as_int(it.args[0], env)})", INT
            if it.func.id == "enumerate" and len(it.args) == 1:
                s, t = self.iterable(it.args[0], env)
                return f"(pyEnumerate {s})", ("prod", INT, t)
            if it.func.id == "range" and len(it.args) == 2:
                return f"(pyRange2 {self.as_int(it.args[0], env)} {self.as_int(it.args[1], env)})", INT
            if it.func.id == "zip" and len(it.args) == 2:
                a, ta = self.iterable(it.args[0], env)
                b, tb = self.iterable(it.args[1], env)
                return f"(List.zip {a} {b})", ("prod", ta, tb)  # zip stops at the shorter one
            if it.func.id == "reversed" and len(it.args) == 1:
                a, ta = self.iterable(it.args[0], env)
                return f"(List.reverse {a})", ta
        if (isinstance(it, ast.Call) and dotted(it.func) == "itertools.product" and "itertools" in self.imported
                and len(it.args) == 1 and len(it.keywords) == 1 and it.keywords[0].arg == "repeat"
                and isinstance(it.keywords[0].value, ast.Constant) and it.keywords[0].value.value == 2
                and not isinstance(it.keywords[0].value.value, bool)):
            # (S3) `itertools.product(xs, repeat=2)`: all pairs, the first component varying slowest
            xs, t = self.iterable(it.args[0], env)
            return f"(pyProduct2 {xs})", ("prod", t, t)
        if (
            isinstance(it, ast.Call)
            and isinstance(it.func, ast.Attribute)
            and it.func.attr == "items"
            and not it.args
            and not it.keywords
        ):
            s, t = self.expr(it.func.value, env)
            if t[0] != "dict" or has_unk(t):
                raise U(f"`.items()` of a {t[0]}")
            return s, ("prod", t[1], t[2])
        if isinstance(it, (ast.GeneratorExp, ast.ListComp)):
            s, t = self.comp(it, env)
            return s, t[1]
        s, t = self.expr(it, env)
        if t[0] == "dict" and isinstance(it, ast.Name) and not has_unk(t):
            # (S3) `for k in d:` — the keys, in insertion order, as they are when the loop starts (the translated loops
            # only replace values, which CPython allows during iteration)
            return f"({s}.map (fun p => p.1))", t[1]
        if t[0] == "list":
            if has_unk(t):
                raise U(f"iteration over a list of unknown element type `{ast.unparse(it)}`")
            return s, t[1]
        if t == SET:
            raise U("iteration over a set (order is not defined)")
        raise U(f"iteration over a {t[0]} in `{ast.unparse(it)}`")

    def bind(self, target, t, env):
        """loop / comprehension target -> (lean binder pattern, new env)"""
        env = dict(env)
        if isinstance(target, ast.Name):
            env[target.id] = t
            return target.id, env
        if isinstance(target, ast.Tuple) and t[0] == "prod" and len(target.elts) == len(t) - 1 and all(
            isinstance(x, ast.Name) for x in target.elts
        ):
            for x, tx in zip(target.elts, t[1:]):
                env[x.id] = tx
            return "(" + ", ".join(x.id for x in target.elts) + ")", env
        raise U(f"loop target `{ast.unparse(target)}` over elements of type {lty(t)}")

    def comp(self, e, env):
        if len(e.generators) > 1:
            # `f(x) for a in A for x in g(a)`  =  A.flatMap (fun a => [f(x) for x in g(a)])
            g = e.generators[0]
            if g.is_async:
                raise U("async generator")
            src, et = self.iterable(g.iter, env)
            pat, env2 = self.bind(g.target, et, env)
            for c in g.ifs:
                src = f"({src}.filter (fun {self.binder(pat, et)} => {self.truthy(c, env2)}))"
            inner = type(e)(elt=e.elt, generators=e.generators[1:])
            body, bt = self.comp(inner, env2)
            return f"({src}.flatMap (fun {self.binder(pat, et)} => {body}))", bt
        g = e.generators[0]
        if g.is_async:
            raise U("async generator")
        # a generator over a 2-tuple of ints: handled by `tuple(...)` only
        src, et = self.iterable(g.iter, env)
        pat, env2 = self.bind(g.target, et, env)
        for c in g.ifs:
            src = f"({src}.filter (fun {self.binder(pat, et)} => {self.truthy(c, env2)}))"
        body, bt = self.expr(e.elt, env2)
        if isinstance(e.elt, ast.Name) and body == pat:
            return src, LIST(bt)
        return f"({src}.map (fun {self.binder(pat, et)} => {body}))", LIST(bt)

    @staticmethod
    def binder(pat, t):
        return pat if pat.startswith("(") else f"({pat} : {lty(t)})"

    def call(self, e, env):
        f = e.func
        if isinstance(f, ast.Attribute):
            return self.method_call(e, env)
        if not isinstance(f, ast.Name):
            raise U(f"call `{ast.unparse(e)}`")
        name, args = f.id, e.args
        if name in env and env[name][0] in ("fn", "vfn"):
            return self.fn_call(name, env[name], e, env)
        if name in self.shadowed:
            raise U(f"`{name}` is re-bound at module level, it is not the built-in")
        if any(isinstance(a, ast.Starred) for a in args):
            raise U(f"star-arguments in `{ast.unparse(e)}`")
        if name == "sorted" and len(args) == 1 and not e.keywords:
            xs, tx = self.iterable(args[0], env)  # (S3) `sorted(pairs)`: tuple order, stable
            if tx != PAIR:
                raise U(f"`sorted` without key on elements of type {lty(tx)}")
            return f"(pySortedByLex (fun (x : (Int × Int)) => x) {xs})", LIST(PAIR)
        if name == "sorted":
            if (
                len(args) == 1
                and len(e.keywords) == 1
                and e.keywords[0].arg == "key"
                and isinstance(e.keywords[0].value, ast.Attribute)
                and e.keywords[0].value.attr == "__getitem__"
            ):
                seq, ts = self.expr(e.keywords[0].value.value, env)
                xs, tx = self.iterable(args[0], env)
                if ts != LIST(INT) or tx != INT:
                    raise U(f"`sorted` with non-integer keys in `{ast.unparse(e)}`")
                return f"(pySortedBy (fun (i : Int) => pyGet {seq} i) {xs})", LIST(INT)
            raise U(f"`sorted` form `{ast.unparse(e)}`")
        if e.keywords:
            raise U(f"keyword arguments in `{ast.unparse(e)}`")
        if name == "sum" and len(args) == 1:
            s, t = self.expr(args[0], env)
            if t != LIST(INT):
                raise U(f"`sum` of a {lty(t)}")
            return f"(pySum {s})", INT
        if name == "all" and len(args) == 1 and isinstance(args[0], (ast.GeneratorExp, ast.ListComp)):
            g = args[0]
            if len(g.generators) != 1 or g.generators[0].ifs:
                raise U(f"`all` form `{ast.unparse(e)}`")
            src, et = self.iterable(g.generators[0].iter, env)
            pat, env2 = self.bind(g.generators[0].target, et, env)
            return f"({src}.all (fun {self.binder(pat, et)} => {self.truthy(g.elt, env2)}))", BOOL
        if (name == "int" and len(args) == 1 and isinstance(args[0], ast.BinOp) and isinstance(args[0].op, ast.Pow)
                and isinstance(args[0].right, ast.Constant) and type(args[0].right.value) is float
                and args[0].right.value == 0.5):
            # (S3) `int(n ** 0.5)` on an int n: the DECLARED integer square root (meaning fixed in Prelude as Nat.sqrt)
            self.note(f"`{ast.unparse(e)}` is the declared `pyIsqrtFloat` = floor of the exact square root (Nat.sqrt); the "
                      "float computation `n ** 0.5` agrees with it while n < 2^52 (every square up to 2^52 and its "
                      "predecessor are exactly representable and correctly rounded) — ASSUMED, not proved; the harness "
                      "compares the two on a range")
            return f"(pyIsqrtFloat {self.as_int(args[0].left, env)})", INT
        if name == "len" and len(args) == 1:
            s, t = self.expr(args[0], env)
            if t[0] == "union":
                self.note(f"`{ast.unparse(e)}` reads the sum-typed `{s}` as its sequence alternative (`PyArg.asSeq`)")
                return f"(pyLen (PyArg.asSeq {s}))", INT
            if t[0] != "list":
                raise U(f"`len` of a {t[0]}")
            return f"(pyLen {s})", INT
        if name == "set" and not args:
            return "([] : List Int)", SET
        if name == "slice" and len(args) == 2:
            self.note("`slice(a, b)` is represented by the pair (a, b)")
            return f"({self.as_int(args[0], env)}, {self.as_int(args[1], env)})", PAIR
        if name == "isinstance" and len(args) == 2 and isinstance(args[1], ast.Name):
            _, t = self.expr(args[0], env)
            want = {"int": INT, "tuple": PAIR}.get(args[1].id)
            if want is None or t != want:
                raise U(f"`{ast.unparse(e)}` on a value of type {lty(t)}")
            self.note(f"`{ast.unparse(e)}` is the typing assumption of the translation and becomes `true`")
            return "true", BOOL
        if name in ("min", "max") and len(args) == 1:
            xs, t = self.iterable(args[0], env)
            if t != INT:
                raise U(f"`{name}` over elements of type {lty(t)}")
            return f"(py{name.capitalize()} {xs})", INT
        if name in ("min", "max") and len(args) == 2:
            return f"({name} {self.as_int(args[0], env)} {self.as_int(args[1], env)})", INT
        if name == "abs" and len(args) == 1:
            return f"(Int.ofNat (Int.natAbs {self.as_int(args[0], env)}))", INT
        if name == "list" and len(args) == 1:
            xs, t = self.iterable(args[0], env)
            return xs, LIST(t)
        if name == "tuple" and len(args) == 1 and isinstance(args[0], ast.Call):
            xs, t = self.iterable(args[0], env)
            return xs, LIST(t)
        if name == "tuple" and len(args) == 1:
            a = args[0]
            if isinstance(a, ast.GeneratorExp) and len(a.generators) == 1 and not a.generators[0].ifs:
                g = a.generators[0]
                if isinstance(g.iter, ast.Name) and env.get(g.iter.id) == PAIR and isinstance(g.target, ast.Name):
                    # generator over a 2-tuple: both components, in order
                    outs = []
                    for k in (1, 2):
                        env2 = dict(env)
                        tmp = f"{g.iter.id}.{k}"
                        env2[g.target.id] = INT
                        body, bt = self.expr(a.elt, env2)
                        if bt != INT:
                            raise U(f"`{ast.unparse(e)}`")
                        outs.append(f"(let {g.target.id} : Int := {tmp}; {body})")
                    return "(" + ", ".join(outs) + ")", PAIR
            s, t = self.expr(a, env)
            if t[0] == "list":
                return s, t
            raise U(f"`tuple` of a {t[0]}")
        if name in ("int", "float", "round", "abs", "min", "max", "divmod", "pow"):
            raise U(f"built-in `{name}` is not in the subset (`{ast.unparse(e)}`)")
        if name in self.known:
            kn = self.known[name]
            if kn is None:
                raise U(f"calls `{name}`, which is untranslatable")
            lname, ptypes, rt = kn
            if len(args) != len(ptypes):
                raise U(f"`{ast.unparse(e)}`: {len(ptypes)} positional arguments expected")
            parts = []
            for a, pt in zip(args, ptypes):
                s, t = self.expr(a, env)
                if t != pt:
                    raise U(f"`{ast.unparse(e)}`: argument of type {lty(t)} where {lty(pt)} is expected")
                parts.append(s)
            return "(" + " ".join([lname] + parts) + ")", rt
        raise U(f"call of `{name}`")

    def fn_call(self, lname, ft, e, env):
        """call of a function-valued parameter"""
        if e.keywords:
            raise U(f"keyword arguments in `{ast.unparse(e)}`")
        if ft[0] == "vfn":
            if len(e.args) == 1 and isinstance(e.args[0], ast.Starred):
                v = e.args[0].value
                xs, t = self.iterable(v, env)
            elif not any(isinstance(a, ast.Starred) for a in e.args):
                parts = [self.expr(a, env) for a in e.args]
                if any(p[1] != ft[2] for p in parts):
                    raise U(f"`{ast.unparse(e)}`: arguments of the wrong type")
                xs, t = "[" + ", ".join(p[0] for p in parts) + "]", ft[2]
            else:
                raise U(f"star-arguments in `{ast.unparse(e)}`")
            if t != ft[2]:
                raise U(f"`{ast.unparse(e)}`: arguments of type {lty(t)} where {lty(ft[2])} is expected")
            return f"({lname} {xs})", ft[1]
        if any(isinstance(a, ast.Starred) for a in e.args) or len(e.args) != len(ft) - 2:
            raise U(f"`{ast.unparse(e)}`: {len(ft) - 2} positional arguments expected")
        parts = []
        for a, pt in zip(e.args, ft[2:]):
            sa, ta = self.expr(a, env)
            if ta != pt:
                raise U(f"`{ast.unparse(e)}`: argument of type {lty(ta)} where {lty(pt)} is expected")
            parts.append(sa)
        return "(" + " ".join([lname] + parts) + ")", ft[1]

    def method_call(self, e, env):
        f = e.func
        dn = dotted(f)
        if dn in self.selfsig:
            pn, t = self.selfsig[dn]
            if t[0] not in ("fn", "vfn"):
                raise U(f"`{dn}` is not declared as a function")
            return self.fn_call(pn, t, e, env)
        if e.keywords:
            raise U(f"method call `{ast.unparse(e)}`")
        if isinstance(f.value, ast.Name) and env.get(f.value.id) == STR:
            t_ = f.value.id
            if (f.attr == "count" and len(e.args) == 1 and isinstance(e.args[0], ast.Constant)
                    and isinstance(e.args[0].value, str)):
                return f"(pyStrCount {t_} {json.dumps(e.args[0].value)})", INT
            if f.attr == "format" and len(e.args) == 1 and isinstance(e.args[0], ast.Starred):
                self.note(f"`{ast.unparse(e)}` is the declared opaque constructor `PyName.fmtStar` (template, the unpacked argument)")
                return f"(PyName.fmtStar {t_} {self.as_int(e.args[0].value, env)})", NAME
            if f.attr == "format" and e.args and not any(isinstance(a, ast.Starred) for a in e.args):
                self.note(f"`{ast.unparse(e)}` is the declared opaque constructor `PyName.fmt` (template, arguments)")
                return f"(PyName.fmt {t_} [{', '.join(self.as_int(a, env) for a in e.args)}])", NAME
            raise U(f"string method `{ast.unparse(e)}`")
        if isinstance(f.value, ast.Name) and f.value.id in env and env[f.value.id][0] == "dict":
            d, t = f.value.id, env[f.value.id]
            if has_unk(t):
                raise U(f"method of a dict of unknown type `{ast.unparse(e)}`")
            if f.attr == "get" and len(e.args) == 2:
                k, tk = self.expr(e.args[0], env)
                if tk != t[1]:
                    raise U(f"key of type {lty(tk)} in `{ast.unparse(e)}`")
                dflt = e.args[1]
                if isinstance(dflt, ast.Constant) and dflt.value is None:
                    if t[2][0] == "opt":
                        raise U(f"`{ast.unparse(e)}`: the values may already be None")
                    return f"(pyDictGet {d} {k})", OPT(t[2])
                dv, tdv = self.expr(dflt, env)
                if tdv != t[2]:
                    raise U(f"default of type {lty(tdv)} in `{ast.unparse(e)}`")
                return f"((pyDictGet {d} {k}).getD {dv})", t[2]
            if f.attr == "setdefault":
                raise U(f"`{ast.unparse(e)}`: `setdefault` is translated as a statement or once on the right of an assignment")
        raise U(f"method call `{ast.unparse(e)}`")

    # -- (S3) declared records stored in a dict
    def rec_place(self, node, env):
        """`d[k]` for a dict `d` of declared records, or an alias `x = d.setdefault(k, {})` -> (d, lean key)"""
        if isinstance(node, ast.Name) and node.id in self.aliases:
            d, key = self.aliases[node.id]
            return d, key
        if (isinstance(node, ast.Subscript) and isinstance(node.value, ast.Name) and not isinstance(node.slice, ast.Slice)
                and env.get(node.value.id, ("?",))[0] == "dict" and env[node.value.id][2][0] == "rec"):
            k, tk = self.expr(node.slice, env)
            if tk != env[node.value.id][1]:
                raise U(f"key of type {lty(tk)} in `{ast.unparse(node)}`")
            return node.value.id, k
        return None

    def rec_field(self, node, env):
        """`P["f"]` with P a record place -> ((d, key), field, field type)"""
        if (isinstance(node, ast.Subscript) and isinstance(node.slice, ast.Constant) and isinstance(node.slice.value, str)):
            pl = self.rec_place(node.value, env)
            if pl is not None:
                fields = RECORDS[env[pl[0]][2][1]]
                if node.slice.value not in fields:
                    raise U(f"`{ast.unparse(node)}`: `{node.slice.value}` is not a declared key of the record")
                return pl, node.slice.value, fields[node.slice.value]
        return None

    def rec_store(self, pl, f, newval, env):
        d, k = pl
        return f"let {d} : {lty(env[d])} := pyDictSet {d} {k} (let r := pyDictGetItem {d} {k}; {{ r with {f} := some ({newval}) }})"

    def rec_stmt(self, s, env):
        """statements that mutate a declared record in place -> one `let` line, or None"""
        if isinstance(s, ast.Expr) and isinstance(s.value, ast.Call) and isinstance(s.value.func, ast.Attribute):
            c = s.value
            if c.func.attr == "append" and len(c.args) == 1 and not c.keywords:
                tgt = c.func.value
                # `P.setdefault("f", []).append(v)`
                if (isinstance(tgt, ast.Call) and isinstance(tgt.func, ast.Attribute) and tgt.func.attr == "setdefault"
                        and len(tgt.args) == 2 and not tgt.keywords and isinstance(tgt.args[0], ast.Constant)
                        and isinstance(tgt.args[0].value, str) and isinstance(tgt.args[1], ast.List) and not tgt.args[1].elts):
                    pl = self.rec_place(tgt.func.value, env)
                    if pl is not None:
                        f = tgt.args[0].value
                        fields = RECORDS[env[pl[0]][2][1]]
                        if f not in fields or fields[f][0] != "list":
                            raise U(f"`{ast.unparse(s)}`: `{f}` is not a declared list-valued key of the record")
                        v, tv = self.expr(c.args[0], env)
                        if tv != fields[f][1]:
                            raise U(f"`{ast.unparse(s)}`: item of type {lty(tv)} appended to {lty(fields[f])}")
                        return self.rec_store(pl, f, f"(r.{f}.getD []) ++ [{v}]", env)
                # `P["f"].append(v)`  (KeyError when the key is absent -> default)
                fld = self.rec_field(tgt, env)
                if fld is not None:
                    pl, f, ft = fld
                    v, tv = self.expr(c.args[0], env)
                    if ft[0] != "list" or tv != ft[1]:
                        raise U(f"`{ast.unparse(s)}`: item of type {lty(tv)} appended to {lty(ft)}")
                    return self.rec_store(pl, f, f"(r.{f}.getD default) ++ [{v}]", env)
        if isinstance(s, ast.Assign) and len(s.targets) == 1:
            fld = self.rec_field(s.targets[0], env)
            if fld is not None:  # `P["f"] = v`
                pl, f, ft = fld
                v, tv = self.expr(s.value, env)
                if tv != ft:
                    raise U(f"`{ast.unparse(s)}`: value of type {lty(tv)} stored under a key declared {lty(ft)}")
                return self.rec_store(pl, f, v, env)
        return None

    @staticmethod
    def root_name(node):
        """the variable at the root of `x.a(...)[...]...`"""
        while True:
            if isinstance(node, (ast.Subscript, ast.Attribute)):
                node = node.value
            elif isinstance(node, ast.Call):
                node = node.func
            else:
                break
        return node.id if isinstance(node, ast.Name) else None

    # -- statements
    @staticmethod
    def always_returns(stmts):
        for s in stmts:
            if isinstance(s, ast.Return):
                return True
            if isinstance(s, ast.If) and s.orelse and Fn.always_returns(s.body) and Fn.always_returns(s.orelse):
                return True
            if isinstance(s, ast.Raise):
                return True
        return False

    @staticmethod
    def contains(stmts, kinds):
        return any(isinstance(n, kinds) for s in stmts for n in ast.walk(s))

    def assigned(self, stmts):
        """variables (re)bound by the statements, in order of first occurrence"""
        out = []

        def add(n):
            if n not in out:
                out.append(n)

        amap = getattr(self, "alias_map", {})
        for s in stmts:
            if isinstance(s, ast.Assign):
                for c in ast.walk(s.value):
                    if (isinstance(c, ast.Call) and isinstance(c.func, ast.Attribute) and c.func.attr == "setdefault"
                            and isinstance(c.func.value, ast.Name)):
                        add(amap.get(c.func.value.id, c.func.value.id))
                if len(s.targets) == 1 and isinstance(s.targets[0], ast.Name) and s.targets[0].id in amap:
                    continue  # (S3) an alias is not a variable of the translation
                for tg in s.targets:
                    if isinstance(tg, ast.Subscript) and isinstance(tg.value, ast.Name):
                        add(amap.get(tg.value.id, tg.value.id))  # `d[k] = v` re-binds d
                        continue
                    if isinstance(tg, ast.Subscript) and self.root_name(tg) is not None:
                        add(amap.get(self.root_name(tg), self.root_name(tg)))  # (S3) `d[k]["f"] = v` re-binds d
                        continue
                    for n in ast.walk(tg):
                        if isinstance(n, ast.Name):
                            add(n.id)
                        elif not isinstance(n, (ast.Tuple, ast.Store, ast.Load)):
                            raise U(f"assignment target `{ast.unparse(tg)}`")
            elif isinstance(s, ast.AugAssign):
                if isinstance(s.target, ast.Subscript) and isinstance(s.target.value, ast.Name):
                    add(s.target.value.id)  # `l[i] += v` re-binds l
                    continue
                if not isinstance(s.target, ast.Name):
                    raise U(f"assignment target `{ast.unparse(s.target)}`")
                add(s.target.id)
            elif isinstance(s, ast.While):
                for n in self.assigned(s.body):
                    add(n)
            elif isinstance(s, ast.Expr) and isinstance(s.value, ast.Call) and isinstance(s.value.func, ast.Attribute):
                if isinstance(s.value.func.value, ast.Name):
                    add(amap.get(s.value.func.value.id, s.value.func.value.id))
                elif self.root_name(s.value) is not None:
                    add(amap.get(self.root_name(s.value), self.root_name(s.value)))  # (S3) `d[k]["f"].append(v)`
            elif isinstance(s, ast.If):
                for n in self.assigned(s.body) + self.assigned(s.orelse):
                    add(n)
            elif isinstance(s, ast.For):
                inner = set(n.id for n in ast.walk(s.target) if isinstance(n, ast.Name))
                for n in self.assigned(s.body):
                    if n not in inner:
                        add(n)
        return out

    def state(self, names, env):
        for n in names:
            if n not in env:
                raise U(f"variable `{n}` is assigned in a loop / branch before it is defined")
            if has_unk(env[n]):
                raise U(f"element type of `{n}` is not determined")
        if len(names) == 1:
            return names[0], env[names[0]]
        return "(" + ", ".join(names) + ")", ("prod", *[env[n] for n in names])

    def block(self, stmts, env, tail):
        """statements -> lines of ONE Lean term; `tail` is the value when control falls off the end"""
        if not stmts:
            if tail is None:
                raise U("control can fall off the end of the function (returns None)")
            return [tail]
        s, rest = stmts[0], stmts[1:]
        if isinstance(s, ast.Expr) and isinstance(s.value, ast.Constant) and isinstance(s.value.value, str):
            return self.block(rest, env, tail)  # docstring
        if isinstance(s, ast.Pass):
            return self.block(rest, env, tail)
        if isinstance(s, ast.Return):
            if tail is not None and not self.ret_depth:
                raise U("`return` inside a loop or a branch that does not end the function")
            if s.value is None:
                raise U("bare `return`")
            if (self.fragment and isinstance(s.value, ast.Tuple) and all(isinstance(x, ast.Name) for x in s.value.elts)
                    and len(s.value.elts) == 1):
                s = ast.Return(value=s.value.elts[0])
            v, t = self.expr(s.value, env)
            if self.ret_decl is not None and t != self.ret_decl:
                # (S3) injection into the DECLARED return type
                if t == LIST(BOOL) and self.ret_decl == LIST(OPT(BOOL)):
                    self.note(f"`{ast.unparse(s)}`: a list of bools returned where a list of None|bool is declared: each item is injected by `some`")
                    v, t = f"({v}.map some)", self.ret_decl
                elif t[0] == "union" and self.ret_decl == LIST(t[1]):
                    self.note(f"`{ast.unparse(s)}` reads the sum-typed `{v}` as its sequence alternative (`PyArg.asSeq`)")
                    v, t = f"(PyArg.asSeq {v})", self.ret_decl
                else:
                    raise U(f"`{ast.unparse(s)}` returns {lty(t)} where {lty(self.ret_decl)} is declared")
            self.ret_types.append(t)
            if self.raises:
                if self.ret_depth:
                    raise U("`return` inside a loop of a function with error points")
                return [f"(Except.ok {v})"]
            if self.ret_depth:
                return [f"(Except.error {v})"]  # leaves the enclosing `pyForReturn`
            return [v]
        if isinstance(s, ast.Raise):
            # (S3) `raise Cls(...)`: an error point (the message is not translated)
            if not self.raises:
                raise U(f"`{ast.unparse(s).splitlines()[0][:60]}`: the function is not declared to have error points (RAISES)")
            ex = s.exc
            cls = ex.func if isinstance(ex, ast.Call) else ex
            if s.cause is not None or not isinstance(cls, ast.Name) or not cls.id.endswith(("Error", "Exception")):
                raise U(f"`{ast.unparse(s).splitlines()[0][:60]}`")
            self.note(f"`raise {cls.id}(…)` is the error `PyExc.raised \"{cls.id}\"` (the message is not translated)")
            return [f'(Except.error (PyExc.raised "{cls.id}"))']
        if isinstance(s, (ast.Import,)) and all(a.name == "itertools" and a.asname is None for a in s.names):
            # (S3) `import itertools` inside the body: binds the standard module (no effect on the translated state)
            self.imported.add("itertools")
            return self.block(rest, env, tail)
        if isinstance(s, ast.While):
            return self.while_stmt(s, rest, env, tail)
        line = self.rec_stmt(s, env) if self.aliases or any(t[0] == "dict" and t[2][0] == "rec" for t in env.values() if len(t) == 3) else None
        if line is not None:
            return [line] + self.block(rest, env, tail)
        if (isinstance(s, ast.Assign) and len(s.targets) == 1 and isinstance(s.targets[0], ast.Name)
                and s.targets[0].id in self.alias_map):
            # (S3) `x = d.setdefault(k, {})`: x is an ALIAS of the record stored at d[k]; every later mutation through x
            # is a mutation of d[k] (the key variable and x are not re-bound afterwards; `{}` is fresh, so no other key
            # shares the object)
            x, c = s.targets[0].id, s.value
            d, kn = c.func.value.id, c.args[0].id
            if env.get(d, ("?",))[0] != "dict" or env[d][2][0] != "rec" or env.get(kn) != env[d][1]:
                raise U(f"`{ast.unparse(s)}`: not a dict of declared records")
            for st in rest:
                for n in ast.walk(st):
                    if isinstance(n, ast.Name) and isinstance(n.ctx, ast.Store) and n.id in (x, kn, d):
                        raise U(f"`{n.id}` is re-bound after the alias `{ast.unparse(s)}`")
            self.aliases[x] = (d, kn)
            self.note(f"`{ast.unparse(s)}`: `{x}` is an alias of the record `{d}[{kn}]`")
            return [f"let {d} : {lty(env[d])} := (pyDictSetdefault {d} {kn} ({{}} : {env[d][2][1]})).1"] + self.block(rest, env, tail)
        if (isinstance(s, ast.Assign) and len(s.targets) == 1 and isinstance(s.targets[0], ast.Name)
                and isinstance(s.value, ast.Dict) and not s.value.keys and not self.cls and not self.fragment
                and s.targets[0].id in LOCAL_SIGS.get(self.node.name, {})):
            x = s.targets[0].id  # (S3) an empty display with a DECLARED type
            t = LOCAL_SIGS[self.node.name][x]
            self.note(f"the local variable `{x}` is declared {lty(t)}")
            env2 = dict(env)
            env2[x] = t
            return [f"let {x} : {lty(t)} := []"] + self.block(rest, env2, tail)
        if isinstance(s, ast.Assign):
            if len(s.targets) != 1:
                raise U("chained assignment")
            tg = s.targets[0]
            env2 = dict(env)
            pre = []
            sds = [c for c in ast.walk(s.value) if isinstance(c, ast.Call) and isinstance(c.func, ast.Attribute)
                   and c.func.attr == "setdefault" and isinstance(c.func.value, ast.Name)
                   and env.get(c.func.value.id, ("?",))[0] == "dict"]
            if sds:
                # `… d.setdefault(k, v) …` on the right-hand side: the only effect of the expression; it is
                # evaluated before the store, every other sub-expression is pure and does not read `d`
                if len(sds) != 1:
                    raise U(f"several `setdefault` calls in `{ast.unparse(s)}`")
                c = sds[0]
                d = c.func.value.id
                reads = [n for n in ast.walk(s.value) if isinstance(n, ast.Name) and n.id == d]
                if len(reads) != 1:
                    raise U(f"`{ast.unparse(s)}`: the dict is read elsewhere in the expression that calls `setdefault`")
                line, tmp, tv = self.setdefault(c, env)
                pre = [line]
                env = dict(env)
                env[tmp] = tv
                env[d] = self.cur_dict_type
                env2 = dict(env)

                import copy

                pos = [i for i, n in enumerate(ast.walk(s.value)) if n is c][0]
                newv = copy.deepcopy(s.value)  # the source tree itself is never modified
                c2 = list(ast.walk(newv))[pos]

                class R(ast.NodeTransformer):
                    def visit_Call(self_, n):  # noqa
                        return ast.Name(id=tmp, ctx=ast.Load()) if n is c2 else self_.generic_visit(n)

                s = copy.copy(s)
                s.value = R().visit(newv)
            if isinstance(tg, ast.Subscript) and isinstance(tg.value, ast.Name) and not isinstance(tg.slice, ast.Slice):
                d = tg.value.id
                if d in env and env[d][0] == "list" and not has_unk(env[d]) and not pre:
                    # (S3) `l[i] = v` on a list
                    v, tv = self.expr(s.value, env)
                    if tv != env[d][1]:
                        raise U(f"`{ast.unparse(s)}`: value of type {lty(tv)} stored into {lty(env[d])}")
                    return [f"let {d} : {lty(env[d])} := pyListSet {d} {self.as_int(tg.slice, env)} {v}"] + self.block(rest, env, tail)
                if d not in env or env[d][0] != "dict":
                    raise U(f"assignment target `{ast.unparse(tg)}`")
                k, tk = self.expr(tg.slice, env)
                line = self.dict_store(d, k, tk, s.value, env, env2, "pyDictSet")
                return pre + [line] + self.block(rest, env2, tail)
            if isinstance(tg, ast.Name) and isinstance(s.value, ast.GeneratorExp):
                self.single_use(tg.id)
                v, t = self.comp(s.value, env)
                self.note(f"the generator bound to `{tg.id}` is consumed exactly once; it is translated as the list of its items")
                env2[tg.id] = t
                return pre + [f"let {tg.id} : {lty(t)} := {v}"] + self.block(rest, env2, tail)
            if pre:
                return pre + self.block([s] + list(rest), env, tail)
            if isinstance(tg, ast.Name):
                v, t = self.expr(s.value, env)
                if has_unk(t) and tg.id in self.refined:
                    t = self.refined[tg.id]
                env2[tg.id] = t
                return [f"let {tg.id} : {lty(t)} := {v}"] + self.block(rest, env2, tail)
            if isinstance(tg, ast.Tuple) and all(isinstance(x, ast.Name) for x in tg.elts):
                v, t = self.expr(s.value, env)
                if t[0] != "prod" or len(t) - 1 != len(tg.elts):
                    raise U(f"unpacking `{ast.unparse(s)}`")
                for x, tx in zip(tg.elts, t[1:]):
                    env2[x.id] = tx
                pat = "(" + ", ".join(x.id for x in tg.elts) + ")"
                return [f"let {pat} : {lty(t)} := {v}"] + self.block(rest, env2, tail)
            raise U(f"assignment target `{ast.unparse(tg)}`")
        if isinstance(s, ast.AugAssign):
            tg = s.target
            if (isinstance(tg, ast.Subscript) and isinstance(tg.value, ast.Name) and not isinstance(tg.slice, ast.Slice)
                    and env.get(tg.value.id) == LIST(INT)):
                # (S3) `l[i] op= v` on a list of ints: `l[i] = l[i] op v`, the index expression evaluated once (it is pure)
                d = tg.value.id
                i = self.as_int(tg.slice, env)
                b = ast.BinOp(left=ast.Subscript(value=tg.value, slice=tg.slice, ctx=ast.Load()), op=s.op, right=s.value)
                v = self.as_int(b, env)
                return [f"let {d} : {lty(env[d])} := pyListSet {d} {i} {v}"] + self.block(rest, env, tail)
            if not isinstance(s.target, ast.Name):
                raise U(f"assignment target `{ast.unparse(s.target)}`")
            b = ast.BinOp(left=ast.Name(id=s.target.id, ctx=ast.Load()), op=s.op, right=s.value)
            v, t = self.expr(b, env)
            if s.target.id not in env or env[s.target.id] != t:
                raise U(f"`{ast.unparse(s)}` changes the type of `{s.target.id}`")
            return [f"let {s.target.id} : {lty(t)} := {v}"] + self.block(rest, env, tail)
        if isinstance(s, ast.Expr) and isinstance(s.value, ast.Call) and isinstance(s.value.func, ast.Attribute):
            c = s.value
            recv = c.func.value
            if (isinstance(recv, ast.Name) and recv.id in env and env[recv.id][0] == "dict"
                    and c.func.attr == "setdefault" and not c.keywords and len(c.args) == 2):
                line, tmp, tv = self.setdefault(c, env, discard=True)
                env2 = dict(env)
                env2[recv.id] = self.cur_dict_type
                return [line] + self.block(rest, env2, tail)
            if (isinstance(recv, ast.Name) and recv.id in env and env[recv.id][0] == "list"
                    and c.func.attr == "sort" and not c.args and len(c.keywords) == 1 and c.keywords[0].arg == "key"
                    and isinstance(c.keywords[0].value, ast.Lambda)):
                t = env[recv.id]
                if has_unk(t):
                    raise U(f"`{ast.unparse(s)}`: element type not determined")
                srt = self.sort_key(c.keywords[0].value, t[1], env, recv.id)
                return [f"let {recv.id} : {lty(t)} := {srt}"] + self.block(rest, env, tail)
            if not isinstance(recv, ast.Name) or recv.id not in env or c.keywords or len(c.args) != 1:
                raise U(f"statement `{ast.unparse(s)}`")
            t = env[recv.id]
            env2 = dict(env)
            if c.func.attr == "add" and t == SET:
                x = self.as_int(c.args[0], env)
                return [f"let {recv.id} : {lty(t)} := pySetAdd {recv.id} {x}"] + self.block(rest, env2, tail)
            if c.func.attr == "pop" and t[0] == "list" and not has_unk(t):
                # (S3) `l.pop(i)` as a statement: the popped value is discarded
                return [f"let {recv.id} : {lty(t)} := pyListPop {recv.id} {self.as_int(c.args[0], env)}"] + self.block(rest, env2, tail)
            if c.func.attr == "append" and t[0] == "list":
                x, tx = self.expr(c.args[0], env)
                if has_unk(t):
                    self.refined[recv.id] = LIST(tx)
                    t = LIST(tx)
                    env2[recv.id] = t
                elif t[1] != tx:
                    raise U(f"`{ast.unparse(s)}`: element of type {lty(tx)} appended to {lty(t)}")
                return [f"let {recv.id} : {lty(t)} := {recv.id} ++ [{x}]"] + self.block(rest, env2, tail)
            raise U(f"method call `{ast.unparse(s)}` on a {t[0]}")
        if isinstance(s, ast.If):
            return self.if_stmt(s, rest, env, tail)
        if isinstance(s, ast.For):
            return self.for_stmt(s, rest, env, tail)
        raise U(f"statement `{ast.unparse(s).splitlines()[0]}` ({type(s).__name__})")

    def sort_key(self, lam, et, env, xs):
        """`sorted(xs, key=lambda x: k)` / `xs.sort(key=…)` with an int key or a pair of int keys: stable"""
        a = lam.args
        if len(a.args) != 1 or a.vararg or a.kwarg or a.kwonlyargs or a.defaults:
            raise U(f"sort key `{ast.unparse(lam)}`")
        x = a.args[0].arg
        env2 = dict(env)
        env2[x] = et
        k, tk = self.expr(lam.body, env2)
        if tk == INT:
            return f"(pySortedBy (fun ({x} : {lty(et)}) => {k}) {xs})"
        if tk == PAIR:
            return f"(pySortedByLex (fun ({x} : {lty(et)}) => {k}) {xs})"
        raise U(f"sort key of type {lty(tk)} in `{ast.unparse(lam)}`")

    def single_use(self, name):
        """a name bound to a generator must be consumed exactly once, outside loops"""
        uses = []

        def walk(n, in_loop):
            for ch in ast.iter_child_nodes(n):
                if isinstance(ch, ast.Name) and ch.id == name and isinstance(ch.ctx, ast.Load):
                    uses.append(in_loop)
                walk(ch, in_loop or isinstance(ch, (ast.For, ast.While, ast.GeneratorExp, ast.ListComp, ast.DictComp, ast.SetComp)))

        walk(self.node, False)
        if len(uses) != 1 or uses[0]:
            raise U(f"the generator bound to `{name}` is not consumed exactly once outside loops")

    def refine(self, name, t):
        if self.refined.get(name) != t:
            self.refined[name] = t
            self.dirty = True

    def dict_value(self, d, t, vnode, env):
        """value stored into dict `d` of type t -> (lean text, possibly refined dict type)"""
        if isinstance(vnode, ast.Constant) and vnode.value is None:
            if t[2] == UNK:
                raise U(f"`None` stored into the dict `{d}` before its value type is known")
            if t[2][0] != "opt":
                t = DICT(t[1], OPT(t[2]))
                self.refine(d, t)
            return "none", t
        v, tv = self.expr(vnode, env)
        if t[2] == UNK:
            t = DICT(t[1], tv)
            self.refine(d, t)
            return v, t
        if t[2] == tv:
            return v, t
        if t[2] == OPT(tv):
            return f"(some {v})", t
        raise U(f"value of type {lty(tv)} stored into the dict `{d}` : {lty(t)}")

    def dict_key(self, d, t, k, tk):
        if not eq_ok(tk):
            raise U(f"dict keys of type {lty(tk)}")
        if t[1] == UNK:
            t = DICT(tk, t[2])
        elif t[1] != tk:
            raise U(f"key of type {lty(tk)} in the dict `{d}` : {lty(t)}")
        return t

    def dict_store(self, d, k, tk, vnode, env, env2, op):
        t = self.dict_key(d, env[d], k, tk)
        v, t = self.dict_value(d, t, vnode, env)
        if t != env[d]:
            self.refine(d, t)
        env2[d] = t
        return f"let {d} : {lty(t)} := {op} {d} {k} {v}"

    def setdefault(self, c, env, discard=False):
        """`d.setdefault(k, v)` -> (let line, name of the returned value, its type)"""
        d = c.func.value.id
        if c.keywords or len(c.args) != 2:
            raise U(f"`{ast.unparse(c)}`")
        k, tk = self.expr(c.args[0], env)
        t = self.dict_key(d, env[d], k, tk)
        v, t = self.dict_value(d, t, c.args[1], env)
        if t != env[d]:
            self.refine(d, t)
        self.cur_dict_type = t
        if discard:
            return f"let {d} : {lty(t)} := (pyDictSetdefault {d} {k} {v}).1", None, None
        tmp = f"sd{self.fresh}"
        self.fresh += 1
        return f"let ({d}, {tmp}) : ({lty(t)} × {lty(t[2])}) := pyDictSetdefault {d} {k} {v}", tmp, t[2]

    def refine_env(self, names, env, dry):
        """variables whose element types are still unknown are refined by a dry run of the statements"""
        if any(has_unk(env.get(n, INT)) for n in names):
            try:
                dry()
            except U:
                pass
            env = dict(env)
            for n in names:
                if n in env and has_unk(env[n]) and n in self.refined:
                    env[n] = self.refined[n]
        return env

    @staticmethod
    def ind(lines, n=2):
        return [" " * n + l for l in lines]

    @staticmethod
    def paren(lines):
        if len(lines) == 1:
            return ["(" + lines[0] + ")"]
        out = ["(" + lines[0]] + [" " + l for l in lines[1:]]
        out[-1] += ")"
        return out

    def if_stmt(self, s, rest, env, tail):
        t = s.test
        # `if x is None:` on an Optional parameter
        if (
            isinstance(t, ast.Compare)
            and len(t.ops) == 1
            and isinstance(t.ops[0], (ast.Is, ast.IsNot))
            and isinstance(t.comparators[0], ast.Constant)
            and t.comparators[0].value is None
        ):
            if not (isinstance(t.left, ast.Name) and env.get(t.left.id, ("?",))[0] == "opt"):
                raise U(f"`{ast.unparse(t)}` on something that is not an Optional parameter")
            if (isinstance(t.ops[0], ast.IsNot) and not s.orelse
                    and not self.contains(s.body, (ast.Return, ast.Raise, ast.Break, ast.Continue))):
                # (S3) `if x is not None: body` (no else, no exit): the assigned variables are threaded; inside, x is unwrapped
                x = t.left.id
                if x in self.assigned(s.body):
                    raise U(f"`{x}` is assigned inside `if {ast.unparse(t)}:`")
                names = self.assigned(s.body)
                fl_rest = free_loads(rest)
                names = [n for n in names if n in env or n in fl_rest]
                if not names:
                    return self.block(rest, env, tail)
                envs = dict(env)
                envs[x] = env[x][1]
                env = self.refine_env(names, env, lambda: self.block(s.body, envs, "()"))
                envs = dict(env)
                envs[x] = env[x][1]
                pat, st = self.state(names, env)
                return (
                    [f"let {pat} : {lty(st)} :=", f"  match {x} with", f"  | none => {pat}", f"  | some {x} =>"]
                    + self.ind(self.paren(self.block(s.body, envs, pat)), 4)
                    + self.block(rest, env, tail)
                )
            if isinstance(t.ops[0], ast.IsNot) or s.orelse or not self.always_returns(s.body) or tail is not None:
                raise U(f"`if {ast.unparse(t)}:` is only translated in the form `if x is None: …return`")
            x = t.left.id
            envn = {k: v for k, v in env.items() if k != x}
            envs = dict(env)
            envs[x] = env[x][1]
            return (
                [f"match {x} with", "| none =>"]
                + self.ind(self.paren(self.block(s.body, envn, None)))
                + [f"| some {x} =>"]
                + self.ind(self.paren(self.block(rest, envs, None)))
            )
        c = self.truthy(t, env)
        if self.always_returns(s.body) and (tail is None or self.ret_depth):
            # early return: the rest of the function (of the loop body) is the else branch
            els = list(s.orelse) + list(rest)
            return (
                [f"if {c} then"]
                + self.ind(self.paren(self.block(s.body, env, None)))
                + ["else"]
                + self.ind(self.paren(self.block(els, env, tail)))
            )
        if self.contains(s.body + s.orelse, (ast.Return,)):
            raise U("`return` inside a branch that does not end the function / inside a loop")
        if self.contains(s.body + s.orelse, (ast.Raise,)):
            # (S3) a branch may raise: both branches are continued by the statements that follow (duplicated)
            return (
                [f"if {c} then"]
                + self.ind(self.paren(self.block(list(s.body) + list(rest), env, tail)))
                + ["else"]
                + self.ind(self.paren(self.block(list(s.orelse) + list(rest), env, tail)))
            )
        names = self.assigned(s.body + s.orelse)
        if not names:
            return self.block(rest, env, tail)
        # (S3) a variable first bound by a top-level assignment in BOTH branches is defined afterwards; its type is that
        # of the assigned expression (the same in both branches)
        for n in names:
            if n in env:
                continue
            ts = []
            for br in (s.body, s.orelse):
                for st_ in br:
                    if (isinstance(st_, ast.Assign) and len(st_.targets) == 1 and isinstance(st_.targets[0], ast.Name)
                            and st_.targets[0].id == n):
                        ts.append(self.expr(st_.value, env)[1])
                        break
                    if n in free_loads([st_]) or n in _safe_assigned(self, [st_]):
                        break
            if len(ts) == 2 and ts[0] == ts[1] and not has_unk(ts[0]):
                env = dict(env)
                env[n] = ts[0]
                self.new_in_branches.add(n)
        env = self.refine_env(names, env, lambda: (self.block(s.body, env, "()"), self.block(s.orelse, env, "()")))
        pat, st = self.state(names, env)
        thn = self.block(s.body, env, pat)
        els = self.block(s.orelse, env, pat)
        return (
            [f"let {pat} : {lty(st)} :=", f"  if {c} then"]
            + self.ind(self.paren(thn), 4)
            + ["  else"]
            + self.ind(self.paren(els), 4)
            + self.block(rest, env, tail)
        )

    def for_stmt(self, s, rest, env, tail):
        if s.orelse:
            raise U("for … else")
        has_ret = self.contains(s.body, (ast.Return,))
        if self.contains(s.body, (ast.Break, ast.Continue)):
            raise U("break / continue inside a for loop")
        if has_ret and tail is not None and not self.ret_depth:
            raise U("`return` inside a loop inside a branch that does not end the function")
        src, et = self.iterable(s.iter, env)
        pat_t, env_body = self.bind(s.target, et, env)
        tnames = [n.id for n in ast.walk(s.target) if isinstance(n, ast.Name)]
        for n in free_loads(rest):
            if n in tnames and n not in env:
                raise U(f"loop variable `{n}` is used after the loop")
        names = [n for n in self.assigned(s.body) if n not in tnames]
        # a variable that every iteration assigns before reading it and that is not read after the loop is local
        fl_body, fl_rest = free_loads(s.body), free_loads(rest)
        names = [n for n in names if n in env or n in fl_body or n in fl_rest]
        if not names and not has_ret:
            return self.block(rest, env, tail)  # a loop without effect on local state
        # lists / dicts that are still of unknown element type are refined by a dry run of the body
        env = self.refine_env(names, env, lambda: self.block(s.body, env_body, "()"))
        _, env_body = self.bind(s.target, et, env)
        if names:
            pat, st = self.state(names, env)
        else:
            pat, st = "()", ("unit",)
        k = self.fresh
        self.fresh += 1
        stv, itv = f"st{k}", f"it{k}"
        lets = ([f"let {pat} : {lty(st)} := {stv}"] if names else []) + [f"let {pat_t} : {lty(et)} := {itv}"]
        if not has_ret:
            body = self.block(s.body, env_body, pat)
            head = [f"let {pat} : {lty(st)} := {src}.foldl (fun (st{k} : {lty(st)}) ({itv} : {lty(et)}) =>"]
            blk = self.ind(lets + body, 4)
            blk[-1] += f") {pat}"
            return head + blk + self.block(rest, env, tail)
        # the body may `return`: fold in `Except` — `.error v` is `return v`, `.ok state` goes on
        self.ret_depth += 1
        try:
            body = self.block(s.body, env_body, f"(Except.ok {pat})")
        finally:
            self.ret_depth -= 1
        head = [f"match (pyForReturn {src} {pat} (fun (st{k} : {lty(st)}) ({itv} : {lty(et)}) =>"]
        blk = self.ind(lets + body, 4)
        blk[-1] += ")) with"
        r = f"r{k}"
        out = f"(Except.error {r})" if self.ret_depth else r
        return (
            head
            + blk
            + [f"| Except.error {r} => {out}", f"| Except.ok {pat if names else '_'} =>"]
            + self.ind(self.paren(self.block(rest, env, tail)))
        )

    def while_stmt(self, s, rest, env, tail):
        """(S3) `while c: body` -> `pyWhile fuel state (fun st => c) (fun st => body)`; the body may `raise`"""
        if not (self.spec and self.spec.get("fuel")) or "fuel" not in env:
            raise U(f"`{ast.unparse(s).splitlines()[0]}`: a while loop is translated only with declared fuel")
        if not self.raises:
            raise U("while loop in a function that is not declared to have error points")
        if s.orelse or self.contains(s.body, (ast.Break, ast.Continue, ast.Return, ast.While)) or self.ret_depth:
            raise U("while … else / break / continue / return / nested while")
        names = self.assigned(s.body)
        fl_body, fl_rest = free_loads(s.body), free_loads(rest)
        names = [n for n in names if n in env or n in fl_body or n in fl_rest]
        if not names:
            raise U("while loop without state")
        pat, st = self.state(names, env)
        k = self.fresh
        self.fresh += 1
        stv = f"st{k}"
        cond = self.truthy(s.test, env)
        self.ret_depth += 1
        try:
            body = self.block(s.body, env, f"(Except.ok {pat})")
        finally:
            self.ret_depth -= 1
        head = [f"match (pyWhile fuel {pat}",
                f"    (fun ({stv} : {lty(st)}) =>", f"      let {pat} : {lty(st)} := {stv}", f"      {cond})",
                f"    (fun ({stv} : {lty(st)}) =>"]
        blk = self.ind([f"let {pat} : {lty(st)} := {stv}"] + body, 6)
        blk[-1] += ")) with"
        return (head + blk + [f"| Except.error e{k} => (Except.error e{k})", f"| Except.ok {pat} =>"]
                + self.ind(self.paren(self.block(rest, env, tail))))

    # -- whole function
    def translate(self, lean_name):
        body_stmts = list(self.fragment[1]) if self.fragment else list(self.node.body)
        for st in body_stmts:
            for n in ast.walk(st):
                if isinstance(n, ast.While) and self.spec and self.spec.get("fuel"):
                    continue
                if isinstance(n, ast.Import) and n in body_stmts and all(a.name == "itertools" and not a.asname for a in n.names):
                    continue
                if isinstance(n, (ast.While, ast.Try, ast.With, ast.Yield, ast.YieldFrom, ast.Global, ast.Nonlocal,
                                  ast.FunctionDef, ast.ClassDef, ast.Import, ast.ImportFrom)):
                    raise U(f"`{ast.unparse(n).splitlines()[0]}` ({type(n).__name__} statement) in the body")
        okl = {id(k.value) for st in body_stmts for n in ast.walk(st) if isinstance(n, ast.Call)
               and isinstance(n.func, ast.Attribute) and n.func.attr == "sort" for k in n.keywords if k.arg == "key"}
        for st in body_stmts:
            for n in ast.walk(st):
                if isinstance(n, ast.Lambda) and id(n) not in okl:
                    raise U("lambda outside `list.sort(key=lambda …)`")
        for d in self.node.decorator_list:
            ds = ast.unparse(d)
            if "lru_cache" in ds or ds in ("functools.cache", "staticmethod"):
                if "cache" in ds:
                    self.note(f"decorator `@{ds}` ignored: the function is pure on the translated types (memoisation is unobservable)")
            else:
                raise U(f"decorator @{ds}")
        for st in body_stmts:
            for n in ast.walk(st):
                if (isinstance(n, ast.Assign) and len(n.targets) == 1 and isinstance(n.targets[0], ast.Name)
                        and isinstance(n.value, ast.Call) and isinstance(n.value.func, ast.Attribute)
                        and n.value.func.attr == "setdefault" and isinstance(n.value.func.value, ast.Name)
                        and len(n.value.args) == 2 and not n.value.keywords and isinstance(n.value.args[0], ast.Name)
                        and isinstance(n.value.args[1], ast.Dict) and not n.value.args[1].keys):
                    self.alias_map[n.targets[0].id] = n.value.func.value.id
        self.imported = set()
        if self.spec and self.spec.get("raises") or (not self.fragment and not self.cls and self.node.name in RAISES):
            self.raises = True
        if not self.fragment and not self.cls:
            self.ret_decl = RETURN_SIGS.get(self.node.name)
        sig = self.signature()
        env = dict(sig)
        lines = None
        for it in range(5):  # later passes use the element types refined in the earlier ones
            self.ret_types, self.fresh, self.dirty = [], 0, False
            self.imported = set()
            self.aliases = {}
            try:
                lines = self.block(body_stmts, env, None)
            except U:
                if self.dirty and it < 4:
                    continue  # a container type was refined on the way: translate again with it
                raise
            if it >= 1 and not self.dirty:
                break
        else:
            raise U("the types of the local containers do not stabilise")
        rts = self.ret_types
        if not rts or any(r != rts[0] for r in rts):
            raise U(f"return values of different types: {sorted(set(lty(r) for r in rts))}")
        rt = rts[0]
        if has_unk(rt):
            raise U("type of the returned list is not determined")
        ann = None if self.fragment else ann_type(self.node.returns)
        if ann is not None and ann != rt and not (ann == BOOL and rt == BOOL):
            raise U(f"declared return type {ast.unparse(self.node.returns)} but the body returns {lty(rt)}")
        if self.raises:
            rt = ("except", rt)
        tvs = []
        for _, t in sig:
            tvars(t, tvs)
        if self.need_inh:
            gen = "{" + " ".join(tvs) + " : Type} " + "".join(
                (TV_CONSTRAINT[v] or (f"[Inhabited {v}]" if v in self.need_inh else "")) + " " for v in tvs
                if TV_CONSTRAINT[v] or v in self.need_inh)
        elif tvs == ["α"]:
            gen = "{α : Type} [Inhabited α] "
        elif tvs:
            gen = "{" + " ".join(tvs) + " : Type} " + "".join(TV_CONSTRAINT[v] + " " for v in tvs if TV_CONSTRAINT[v])
        else:
            gen = ""
        binders = gen + " ".join(f"({n} : {lty(t)})" for n, t in sig)
        import textwrap

        if self.fragment:
            src = "\n".join(textwrap.dedent(ast.get_source_segment(self.src_text, st, padded=True) or "")
                            for st in self.fragment[1] if getattr(st, "lineno", None) is not None)
        else:
            src = textwrap.dedent(ast.get_source_segment(self.src_text, self.node, padded=True) or "")
        src = src.replace("/-", "/ -").replace("-/", "- /")
        comment = ["/- Python (" + self.where + "):"] + ["    " + l for l in src.splitlines()] + ["-/"]
        text = "\n".join(comment + [f"def {lean_name} {binders} : {lty(rt)} :="] + self.ind(lines)) + "\n"
        for pn, pt, dv in self.defaults:
            text += f"/-- default value of the parameter `{pn}` -/\ndef {lean_name}.default_{pn} : {lty(pt)} := {dv}\n"
        return text, [t for _, t in sig], rt


# ------------------------------------------------------------------------------------ driver


def find(tree, cls, name):
    scope = tree.body
    if cls:
        for n in tree.body:
            if isinstance(n, ast.ClassDef) and n.name == cls:
                scope = n.body
                break
        else:
            return None
    found = None
    for n in scope:
        if isinstance(n, (ast.FunctionDef, ast.AsyncFunctionDef, ast.ClassDef)) and n.name == name:
            found = n if isinstance(n, ast.FunctionDef) else None  # the last binding wins
        elif isinstance(n, (ast.Assign, ast.AnnAssign, ast.AugAssign)):
            for tg in (n.targets if isinstance(n, ast.Assign) else [n.target]):
                if isinstance(tg, ast.Name) and tg.id == name:
                    found = None  # re-bound to something that is not a plain `def`
    return found


BUILTINS = {"sum", "all", "len", "range", "enumerate", "tuple", "sorted", "set", "slice", "isinstance", "int",
            "min", "max", "abs", "list", "zip", "reversed"}


def _safe_assigned(fn, stmts):
    try:
        return fn.assigned(stmts)
    except U:
        return []


def module_names(tree):
    out = set()
    for n in tree.body:
        if isinstance(n, (ast.FunctionDef, ast.AsyncFunctionDef, ast.ClassDef)):
            out.add(n.name)
        elif isinstance(n, (ast.Import, ast.ImportFrom)):
            out.update((a.asname or a.name).split(".")[0] for a in n.names)
        elif isinstance(n, (ast.Assign, ast.AnnAssign, ast.AugAssign)):
            for tg in (n.targets if isinstance(n, ast.Assign) else [n.target]):
                out.update(x.id for x in ast.walk(tg) if isinstance(x, ast.Name))
    return out


def generate(repo_dir):
    """-> (text of Gen/Src.lean, report).  report = {"functions": {name: "ok" | "untranslatable: why"},
    "chunks": {name: lean text}, "hashes": {name: sha1 of the chunk}, "assumptions": [...]}"""
    repo_dir = Path(repo_dir)
    notes, funcs, chunks = [], {}, {}
    trees = {}
    known = {}  # python-level name -> signature (module-level functions only)
    for tgt in TARGETS:
        fname, cls, name = tgt[:3]
        frag = tgt[3] if len(tgt) > 3 else None
        key = target_key(tgt)
        if fname not in trees:
            try:
                txt = (repo_dir / "symmray" / fname).read_text()
                trees[fname] = (ast.parse(txt), txt)
            except Exception as ex:  # noqa
                trees[fname] = (None, f"{type(ex).__name__}: {ex}")
        tree, txt = trees[fname]
        if tree is None:
            funcs[key] = f"untranslatable: {fname} cannot be parsed ({txt})"
            continue
        node = find(tree, cls, name)
        if node is None:
            funcs[key] = f"untranslatable: no function `{(cls + '.' if cls else '') + name}` in symmray/{fname}"
            if not cls and not frag:
                known[name] = None
            continue
        fn = Fn(node, cls, known, notes)
        fn.shadowed = BUILTINS & module_names(tree)
        fn.src_text = txt
        fn.where = f"symmray/{fname}, `{key}`"
        spec = FRAGMENTS.get(key) if frag else None
        if spec:
            # (S3) a fragment declared by a spec
            var = spec["var"]
            idx = [i for i, st in enumerate(node.body) if var in _safe_assigned(fn, [st])]
            if not idx:
                funcs[key] = f"untranslatable: `{name}` has no top-level statement that binds `{var}`"
                continue
            lo = idx[0] + 1 if spec.get("start") == "after_first" else idx[0]
            hi = len(node.body) if spec.get("end") == "function_end" else idx[-1] + 1
            stmts = list(node.body[lo:hi])
            if spec.get("end") != "function_end":
                rets = spec.get("returns", [var])
                stmts.append(ast.Return(value=ast.Tuple(elts=[ast.Name(id=r, ctx=ast.Load()) for r in rets], ctx=ast.Load())))
            fn.fragment = (var, stmts)
            fn.spec = spec
            fn.pyname = key
            what = ("the statements after the one that first binds" if spec.get("start") == "after_first"
                    else "the statements that compute")
            fn.where = f"symmray/{fname}, `{name}`: {what} `{var}`" + (", to the end of the function" if spec.get("end") == "function_end" else "")
        elif frag:
            # the run of top-level statements from the first to the last one that binds / mutates `frag`
            idx = [i for i, st in enumerate(node.body) if frag in _safe_assigned(fn, [st])]
            if not idx:
                funcs[key] = f"untranslatable: `{name}` has no top-level statement that binds `{frag}`"
                continue
            stmts = list(node.body[idx[0]: idx[-1] + 1])
            fn.fragment = (frag, stmts + [ast.Return(value=ast.Name(id=frag, ctx=ast.Load()))])
            fn.pyname = key
            fn.where = f"symmray/{fname}, `{name}`: the statements that compute `{frag}`"
        try:
            text, ptypes, rt = fn.translate(key)
            funcs[key] = "ok"
            chunks[key] = text
            if not cls and not frag:
                known[name] = (name, ptypes, rt)
        except U as ex:
            funcs[key] = f"untranslatable: {ex}"
            if not cls and not frag:
                known[name] = None
        except Exception as ex:  # noqa  (never guess, never crash: anything unexpected is "outside the subset")
            funcs[key] = f"untranslatable: translator stopped with {type(ex).__name__}: {ex}"
            if not cls and not frag:
                known[name] = None
    general = [
        "ints are unbounded mathematical integers (Python int = Lean Int); bool parameters are Bool",
        "constructs that raise in Python (IndexError for seq[i] out of range, ZeroDivisionError for x % 0, x // 0) "
        "are total in the translation (default value / Int.fmod x 0 = x / Int.fdiv x 0 = 0); the Tie theorems carry the "
        "hypotheses that exclude them where they matter",
        "tuples and lists are both List; a set of ints is a duplicate-free List used only through in / not in / add",
        "2-tuples of ints are Int × Int; `*charges` is the List of the positional arguments",
        "a dict is an association list in insertion order (`d[k] = v` overwrites in place or appends, like CPython); "
        "dict PARAMETERS are assumed to have distinct keys (the Tie theorems state this hypothesis where it matters); "
        "`d[k]` on a missing key (KeyError) is `default`",
        "type variables: κ (hashable keys / charges, only ==, !=; Lean BEq is assumed to be Python equality), β (dict "
        "values compared with !=), α (any elements), ι (opaque objects seen only through declared attribute accessors)",
        "`min(())` / `max(())` (ValueError) are 0; a slice `l[a:b]` clamps like CPython; a `for` loop containing `return` "
        "is a fold in `Except` whose `.error` is the early return",
    ]
    parts = [
        f"/-\n  {HEADER}\n\n  Literal, construct-by-construct translation of the integer-valued functions of symmray\n"
        "  (current source tree) into Lean 4 core definitions.  Meaning of the `py…` helpers:\n"
        "  SymmModel/Gen/Prelude.lean.  Functions outside the translated subset are listed at the end and omitted.\n-/",
        "import SymmModel.Gen.Prelude",
        "set_option linter.unusedVariables false",
        "namespace SymmModel.Gen\n",
    ]
    for tgt in TARGETS:
        key = target_key(tgt)
        if key in chunks:
            parts.append(f"-- BEGIN {key}\n{chunks[key]}-- END {key}\n")
    parts.append("end SymmModel.Gen\n")
    tail = ["/- not translated:"]
    for k, v in funcs.items():
        if v != "ok":
            tail.append(f"  {k}: {v}".replace("/-", "/ -").replace("-/", "- /"))
    tail.append("-/")
    parts.append("\n".join(tail).replace("-/\n", "-/\n") + "\n")
    text = "\n".join(parts)
    hashes = {k: hashlib.sha1(v.encode()).hexdigest()[:16] for k, v in chunks.items()}
    report = dict(functions=funcs, chunks=chunks, hashes=hashes, assumptions=general + notes)
    return text, report


if __name__ == "__main__":
    import os

    repo = os.environ.get("SYMMRAY_REPO", "/repo")
    text, rep = generate(repo)
    verif = Path(__file__).resolve().parent.parent
    if "--write" in sys.argv:
        out = verif / "lean" / "SymmModel" / "Gen" / "Src.lean"
        out.parent.mkdir(parents=True, exist_ok=True)
        out.write_text(text)
        (out.parent / "Baseline.json").write_text(json.dumps(rep["hashes"], indent=1, sort_keys=True) + "\n")
        print(f"wrote {out} and Baseline.json")
    elif "--print" in sys.argv:
        print(text)
    for k, v in rep["functions"].items():
        print(f"{k:28s} {v}")
    for a in rep["assumptions"]:
        print("  *", a)
