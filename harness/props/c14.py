"""C14 — Operations never modify their operands unless asked to."""

import copy
import random

import numpy as np

from .. import gen, impl, oracle, progs, ser, stream

ID = "C14"
LEVEL = "proof"
PROPS_MODULE = "SymmModel.Props.C14All3"
THEOREMS = [
    "SymmModel.C14.op_safe",
    "SymmModel.C14.op_step",
    "SymmModel.C14.op_step_out",
    "SymmModel.C14.op_frame",
    "SymmModel.C14.op_frame_all",
    "SymmModel.C14.op_frame_inplace",
    "SymmModel.C14.result_objects_new",
    "SymmModel.C14.no_shared_dict",
    "SymmModel.C14.prog_step",
    "SymmModel.C14.prog_frame",
    "SymmModel.C14.prog_frame_later",
    "SymmModel.C14.call_inv",
    "SymmModel.C14.calls_inv",
    "SymmModel.C14.result_mutation_safe",
    "SymmModel.C14.viaCopy_same",
    "SymmModel.C14.viaCopyWith_same",
    "SymmModel.C14.inplace_same_value",
    "SymmModel.C14.viaCopy_same_other",
    "SymmModel.C14.inplace_same_value_multiply_diagonal",
    "SymmModel.C14.share_not_safe",
    "SymmModel.C14.shared_sign_dict_leaks",
    "SymmModel.C14.shared_block_dict_leaks",
    "SymmModel.Heap.safe_inv",
    "SymmModel.Heap.runAct_spec",
    "SymmModel.Heap.runAct_refines",
    "SymmModel.Heap.script_refines",
    "SymmModel.Heap.script_refines_others",
    "SymmModel.Heap.copyWithArr_refines",
    "SymmModel.C14.inplace_same_value_binaryA",
    "SymmModel.C14.inplace_same_value_binaryA_self",
    "SymmModel.C14.inplace_same_value_binaryF",
    "SymmModel.C14.inplace_same_value_binaryF_self",
    "SymmModel.C14.binaryF_self_pending_bufs_differ",
    "SymmModel.C14.binaryF_self_pending_same_provenance",
    "SymmModel.C14.inplace_same_value_align",
    "SymmModel.C14.align_inplace_self",
    "SymmModel.C14.align_self_loses_first_result",
    "SymmModel.C14.other_operand_untouched",
    "SymmModel.C14.binary_other_untouched",
    "SymmModel.C14.op_spec_ok",
    "SymmModel.C14.op2_spec_ok",
    "SymmModel.C14.op2_frame_all",
    "SymmModel.C14.op2_frame",
    "SymmModel.C14.op2_result_objects_new",
    "SymmModel.C14.op2_no_shared_dict",
    "SymmModel.C14.gprog_frame_all",
    "SymmModel.C14.result_mutation_safe2",
    "SymmModel.C14.copy_with_caller_blocks_aliases",
    "SymmModel.C14.copy_with_caller_phases_aliases",
    "SymmModel.Heap.binaryK_refines",
    "SymmModel.Heap.syncedK_refines",
    "SymmModel.Heap.muts_refines",
    "SymmModel.Heap.script_refines2",
    "SymmModel.Heap.bodyF_refines",
    "SymmModel.Heap.spec_step",
    "SymmModel.Heap.gcall_inv",
    "SymmModel.Heap.gcalls_inv",
    "SymmModel.Heap.op2_ok",
    "SymmModel.Heap.binaryA_runs",
    "SymmModel.Heap.binaryF_runs",
    "SymmModel.Heap.align_runs",
    "SymmModel.C14.inplace_same_value_binaryF_self_sem",
    "SymmModel.C14.inplace_same_value_binaryF_self_prov",
    "SymmModel.C14.binaryA_value",
    "SymmModel.C14.binaryF_value",
    "SymmModel.C14.binaryF_self_value",
    "SymmModel.Heap.sacts_abs",
    "SymmModel.Heap.phaseSync_abs",
    "SymmModel.Heap.binPure_abs",
    "SymmModel.Heap.bodyF_self_sem",
    "SymmModel.Heap.binaryF_self_runs",
    "SymmModel.Heap.binSem_outer",
    "SymmModel.Heap.binSem_inner",
    "SymmModel.Heap.binSem_strict",
    "SymmModel.Heap.binSem_value",
    "SymmModel.Heap.bodyF_value",
    "SymmModel.Heap.keysOf_psSem",
    "SymmModel.Heap.psActs_ph",
    "SymmModel.C14.spec_frame_denotation",
    "SymmModel.C14.op_frame_denotation",
    "SymmModel.C14.op2_frame_denotation",
    "SymmModel.C14.gprog_frame_denotation",
    "SymmModel.C14.binaryF_value'",
    "SymmModel.C14.binaryF_self_value'",
    "SymmModel.C14.phase_sync_value",
    "SymmModel.C14.multiply_diagonal_value",
    "SymmModel.Heap.prog_bufext",
    "SymmModel.Heap.psSem_eq_syncSD",
    "SymmModel.Heap.syncSD_enc",
    "SymmModel.Heap.psSem_rep",
    "SymmModel.Heap.binaryBlockwise_enc",
    "SymmModel.Heap.multiplyDiagonal_abs",
    "SymmModel.Heap.mdSem_enc",
    "SymmModel.Heap.multiplyDiagonal_pureV",
    "SymmModel.C14.map_blocks_value",
    "SymmModel.C14.squeeze_value",
    "SymmModel.C14.expand_dims_value"
]
LEAN_FILES = ["SymmModel.Model.Heap", "SymmModel.Proofs.HeapLemmas", "SymmModel.Proofs.HeapRefine", "SymmModel.Props.C14", "SymmModel.Driver.HeapH", "SymmModel.Model.Heap2", "SymmModel.Proofs.Heap2Binary", "SymmModel.Proofs.Heap2Inplace", "SymmModel.Proofs.Heap2Lemmas", "SymmModel.Props.C14b", "SymmModel.Props.C14All", "SymmModel.Driver.Heap2H", "SymmModel.Proofs.Heap3Sem", "SymmModel.Proofs.Heap3Prov", "SymmModel.Proofs.Heap3Value", "SymmModel.Props.C14c", "SymmModel.Props.C14All2", "SymmModel.Proofs.Heap4Frame", "SymmModel.Proofs.Heap4Sync", "SymmModel.Proofs.Heap4MulDiag", "SymmModel.Props.C14d", "SymmModel.Props.C14All3"]
PLANNED = []
RULE = ("random programs (length <= 4) over abelian and fermionic arrays incl. decompositions; deep snapshots "
        "(block bytes, dict orders, index tables, charge, pending signs, labels) of every live value before and after "
        "each step; afterwards every result is mutated through all in-place methods and dict writes and the operands "
        "are snapshotted again; every operation with an inplace flag is run in place on a copy and compared with the "
        "out-of-place result. non-trivial: the operation has an in-place code path (`self if inplace else copy`)"
        '; for in-place calls both the object the method was called on and the returned object are compared; fuse groups may be empty')
ANCHORS = {"abelian_core.py": ["copy", "copy_with", "modify", "transpose", "conj", "squeeze", "expand_dims", "fuse",
                               "unfuse", "reshape", "multiply_diagonal", "sync_charges", "drop_misaligned_sectors"],
           "fermionic_core.py": ["copy", "copy_with", "modify", "phase_flip", "phase_transpose", "phase_sector",
                                 "phase_global", "phase_sync", "conj", "dagger", "fuse", "unfuse", "_binary_blockwise_op"],
           "block_core.py": ["_binary_blockwise_op", "copy", "apply_to_arrays", "_map_blocks"],
           "linalg.py": ["svd_truncated", "qr", "svd", "eigh", "solve"]}
ASSUMPTIONS = ["aliasing of numpy buffers between operand and result is allowed; only observable state is compared"]

INPLACE_OPS = ["transpose", "conj", "dagger", "squeeze", "expand_dims", "fuse", "unfuse", "unfuse_all",
               "reshape", "multiply_diagonal", "sync_charges", "phase_flip", "phase_transpose", "phase_sector",
               "phase_global", "phase_sync"]


def snap(x):
    import symmray as sr

    if isinstance(x, sr.AbelianArray):
        return ("arr", ser.sym_name(x.symmetry), repr([ser.enc_index(ix) for ix in x.indices]), repr(x.charge),
                tuple((s, np.asarray(b).dtype.str, np.asarray(b).shape, np.asarray(b).tobytes())
                      for s, b in x.blocks.items()),
                tuple(x.phases.items()) if x.fermionic else None,
                tuple((o.label, o.dual) for o in x.oddpos) if x.fermionic else None)
    if isinstance(x, sr.BlockVector):
        return ("vec", tuple((c, np.asarray(b).dtype.str, np.asarray(b).tobytes()) for c, b in x.blocks.items()))
    if isinstance(x, np.ndarray):
        return ("nd", x.dtype.str, x.shape, x.tobytes())
    return ("other", repr(x))


def value(x):
    import symmray as sr

    if isinstance(x, sr.AbelianArray):
        return ("arr", ser.canon_array(ser.enc_array(x)))
    if isinstance(x, sr.BlockVector):
        return ("vec", ser.canon_vec(ser.enc_vec(x)))
    return ("other", repr(x))


def mutate_in_place(rng, r):
    """abuse a result through every in-place entry point"""
    import symmray as sr

    if isinstance(r, sr.BlockVector):
        for k in list(r.blocks):
            r.blocks[k] = r.blocks[k] * 3
        if r.blocks:
            r.blocks.pop(next(iter(r.blocks)))
        return
    if not isinstance(r, sr.AbelianArray):
        return
    try:
        # first of all, while the blocks are still the very buffers the operation produced (possibly views of or
        # shared with an operand's): augmented arithmetic with a block array must not write through them
        other = r.copy()
        which = rng.randrange(3)
        if which == 0:
            r += other
        elif which == 1:
            r -= other
        else:
            r *= other
    except Exception:  # noqa
        pass
    try:
        if r.fermionic:
            r.phase_global(inplace=True)
            if r.ndim:
                r.phase_flip(*range(r.ndim), inplace=True)
                r.phase_transpose(tuple(range(r.ndim))[::-1], inplace=True)
            if r.blocks:
                r.phase_sector(next(iter(r.blocks)), inplace=True)
            r.phase_sync(inplace=True)
            r.phase_global(inplace=True)
        r.conj(inplace=True)
        if r.ndim:
            r.transpose(inplace=True)
        r.apply_to_arrays(lambda b: b * 2)
        r *= 3

        for k in list(r.blocks):
            r.blocks[k] = r.blocks[k] + 1
        if r.blocks:
            r.blocks.pop(next(iter(r.blocks)))
        if r.fermionic:
            r.phases.clear()
            r.modify(oddpos=())
        if r.ndim >= 2 and r.blocks:
            r.fuse(tuple(range(r.ndim)), inplace=True)
            r.unfuse(0, inplace=True)
        r.sync_charges(inplace=True)
        r.drop_missing_blocks()
    except Exception:  # noqa  (abuse may legitimately raise; operands are what matters)
        pass


def inplace_variant(x_env, st):
    """run the same step in place on a copy of its first operand; returns (the object the method was called
    on, what the call returned) or None"""
    if st["op"] not in INPLACE_OPS:
        return None
    x = x_env[st["in"][0]].copy()
    ret = _inplace_call(x, x_env, st)
    return x, ret


def _inplace_call(x, x_env, st):
    op = st["op"]
    if op not in INPLACE_OPS:
        return None
    p = st.get("params", {})
    sym = ser.sym_name(x.symmetry)
    if op == "transpose":
        axes = p.get("axes")
        kw = {"phase": p["phase"]} if "phase" in p else {}
        return x.transpose(None if axes is None else tuple(axes), inplace=True, **kw)
    if op == "conj":
        kw = {}
        if "pp" in p:
            kw["phase_permutation"] = p["pp"]
        if "pd" in p:
            kw["phase_dual"] = p["pd"]
        return x.conj(inplace=True, **kw)
    if op == "dagger":
        kw = {"phase_dual": p["pd"]} if "pd" in p else {}
        return x.dagger(inplace=True, **kw)
    if op == "squeeze":
        ax = p.get("axis")
        return x.squeeze(None if ax is None else tuple(ax), inplace=True)
    if op == "expand_dims":
        kw = {}
        if p.get("c") is not None:
            kw["c"] = ser.dec_charge(p["c"], sym)
        if p.get("dual") is not None:
            kw["dual"] = p["dual"]
        return x.expand_dims(p["axis"], inplace=True, **kw)
    if op == "fuse":
        kw = {}
        if not x.fermionic and "mode" in p:
            kw["mode"] = p["mode"]
        return x.fuse(*[tuple(g) for g in p["groups"]], inplace=True, **kw)
    if op == "unfuse":
        return x.unfuse(p["axis"], inplace=True)
    if op == "unfuse_all":
        return x.unfuse_all(inplace=True)
    if op == "reshape":
        return x.reshape(tuple(p["newshape"]), inplace=True)
    if op == "multiply_diagonal":
        return x.multiply_diagonal(x_env[st["in"][1]], p["axis"], inplace=True)
    if op == "sync_charges":
        return x.sync_charges(inplace=True)
    if op == "phase_flip":
        return x.phase_flip(*p["axs"], inplace=True)
    if op == "phase_transpose":
        axes = p.get("axes")
        return x.phase_transpose(None if axes is None else tuple(axes), inplace=True)
    if op == "phase_sector":
        return x.phase_sector(ser.dec_sector(p["sector"], sym), inplace=True)
    if op == "phase_global":
        return x.phase_global(inplace=True)
    if op == "phase_sync":
        return x.phase_sync(inplace=True)
    return None


def linalg_step(rng, env):
    """decompositions on a matrix obtained from the environment (python-side only)"""
    import symmray as sr

    arrs = [v for v in env.values() if isinstance(v, sr.AbelianArray) and v.ndim >= 2 and v.blocks]
    if not arrs:
        return None
    x = rng.choice(arrs)
    if x.ndim > 2:
        k = rng.randint(1, x.ndim - 1)
        x = x.fuse(tuple(range(k)), tuple(range(k, x.ndim)))
    name = rng.choice(["qr", "svd", "svd_truncated", "norm", "to_dense", "allclose", "align", "add", "mul"])
    return name, x


def gen_cases(seed, chunk, n, tier):
    import symmray as sr

    rng = random.Random(seed * 7919 + chunk * 104729 + 14)
    out = []
    for _ in range(n):
        fermi = rng.random() < 0.55
        sym = rng.choice(gen.SYMS)
        static = rng.random() < 0.7
        dtype = rng.choice(ser.DTYPES)
        a, b, xa, xb = gen.rand_contractible(rng, sym, fermi=fermi, static=static, dtype=dtype,
                                             keep=rng.choice([0.5, 1.0]), pending=fermi and rng.random() < 0.6)
        env = {"a": a, "b": b}
        env0 = {k: ser.enc_val(v) for k, v in env.items()}
        names = ["a", "b"]
        steps = []
        results = []
        orc = None
        inplace_path = False
        for k in range(rng.randint(1, 4)):
            st = progs.pick_step(rng, env, fermi, names, k)
            if st is None:
                break
            newvals = st.pop("_newvals", {})
            for vn, v in newvals.items():
                env0[vn] = ser.enc_val(v)
            before = {nm: snap(v) for nm, v in env.items()}
            res, env2 = impl.run_prog(env, [st])
            steps.append(st)
            results.append(res[0])
            after = {nm: snap(env2[nm]) for nm in before}
            changed = [nm for nm in before if before[nm] != after[nm]]
            if changed:
                orc = f"{st['op']} modified its operand/another live value {changed} (inputs {st['in']})"
                break
            if "raise" in res[0]:
                break
            # in-place variant gives the out-of-place value
            if st["op"] in INPLACE_OPS:
                inplace_path = True
                try:
                    ip = inplace_variant(env, st)
                    if ip is not None:
                        target, ret = ip
                        want = value(env2[st["out"][0]])
                        if value(target) != want:
                            orc = (f"{st['op']}(inplace=True) left the array it was called on with a value that "
                                   f"differs from the out-of-place result")
                            break
                        if ret is not None and value(ret) != want:
                            orc = f"{st['op']}(inplace=True) returned a value that differs from the out-of-place result"
                            break
                except Exception as e:  # noqa
                    orc = f"{st['op']}(inplace=True) raised {type(e).__name__}: {e} but out-of-place succeeded"
                    break
                after2 = {nm: snap(env2[nm]) for nm in before}
                if after2 != before:
                    orc = f"{st['op']}(inplace=True) on a copy modified the original"
                    break
            env = env2
            names.extend(st["out"])
        # python-side extras: decompositions etc. leave their operands alone
        if orc is None:
            extra = linalg_step(rng, env)
            if extra is not None:
                name, x = extra
                others = dict(env, _x=x)
                before = {nm: snap(v) for nm, v in others.items()}
                produced = []
                try:
                    if name == "qr":
                        produced = list(sr.linalg.qr(x))
                    elif name == "svd":
                        produced = list(sr.linalg.svd(x))
                    elif name == "svd_truncated":
                        produced = [p for p in sr.linalg.svd_truncated(x, max_bond=rng.randint(1, 3),
                                                                       absorb=rng.choice([-1, 0, 1, None])) if p is not None]
                    elif name == "norm":
                        x.norm()
                    elif name == "to_dense":
                        if all(ix.chargemap for ix in x.indices):
                            x.to_dense()
                    elif name == "allclose":
                        x.allclose(x.copy())
                    elif name == "align":
                        produced = list(x.align_axes(x.conj(), ((0, 1), (0, 1))))
                    elif name == "add":
                        produced = [x + x, x - x]
                    elif name == "mul":
                        produced = [x * x, x * 2, 2 * x, x / 2, -x]
                except Exception:  # noqa
                    pass
                after = {nm: snap(v) for nm, v in others.items()}
                changed = [nm for nm in before if before[nm] != after[nm]]
                if changed:
                    orc = f"{name} modified its operand {changed}"
                else:
                    for r in produced:
                        mutate_in_place(rng, r)
                    after = {nm: snap(v) for nm, v in others.items()}
                    changed = [nm for nm in before if before[nm] != after[nm]]
                    if changed:
                        orc = f"mutating the results of {name} in place changed the operand {changed}"
        # finally: abuse every produced value in place, operands of earlier steps must survive
        if orc is None and steps:
            produced_names = [nm for st in steps for nm in st["out"] if nm in env]
            for victim in produced_names:
                keepers = {nm: v for nm, v in env.items() if nm != victim}
                before = {nm: snap(v) for nm, v in keepers.items()}
                mutate_in_place(rng, env[victim])
                after = {nm: snap(v) for nm, v in keepers.items()}
                changed = [nm for nm in before if before[nm] != after[nm]]
                if changed:
                    src = [st for st in steps if victim in st["out"]][0]
                    orc = (f"mutating the result of {src['op']} in place changed {changed} "
                           f"(result shares mutable state with them)")
                    break
        meta = dict(sym=sym, fermi=fermi, static=static, nsteps=len(steps),
                    ops=",".join(s["op"] for s in steps))
        case = {"kind": "prog", "env": env0, "steps": steps}
        out.append(dict(case=case, impl=stream.strip_py(results), oracle=orc, meta={k: v for k, v in meta.items() if k != "ops"},
                        nontrivial=bool(inplace_path), op=(steps[-1]["op"] if steps else "none"), triggers=[]))
    return out


def run(ctx):
    n = 3000 if ctx.tier == "quick" else 20000
    stream.run_stream(ctx, "frame", "harness.props.c14", "gen_cases", n, per_chunk=40,
                      canon_kw=dict(drop_zero=True))
    # heap model: object-identity correspondence (which dict objects a result shares with operands)
    from . import c14_heap
    c14_heap.check_sharing(ctx)


def replay(ctx, payload):
    return stream.replay(ctx, payload, canon_kw=dict(drop_zero=True))
