"""C14, object-identity correspondence between the Lean heap model and CPython.

`check_sharing(ctx)` runs every operation that `SymmModel.Model.Heap` transcribes on concrete
arrays (abelian and fermionic, with pending signs), with `inplace=False` and — where the method has
the switch — `inplace=True`, and compares with the model's prediction (driver kind "heapOp"):

  * which operand objects may be observed to change (none unless asked to modify them);
  * whether a returned object IS an operand (`res is x`);
  * whether the block dict / sign dict of a returned object IS a dict of an operand
    (`res.blocks is x.blocks`, `res.phases is x.phases`, also crosswise) — object identity;
  * (real code only) the in-place form of every operation, incl. `__iadd__/__isub__/__imul__` with a block
    array and `x += x`, yields the value the out-of-place form returns for copies of the same operands.

Only sharing with operands the call was NOT asked to modify is compared (whether an in-place method
rebinds or mutates its own dict is an implementation detail).  A disagreement is confirmed by a
direct oracle on the real code (snapshot of the operand before / after the call, and after
mutating the result through the shared dict) → violation; otherwise it is reported as a broken
correspondence.  Call from c14.run:   `from . import c14_heap; c14_heap.check_sharing(ctx)`.
"""

import numpy as np

from .. import gen, ser

# model operations exercised here (names of the Lean driver's "heapOp")
MODEL_OPS = [
    "copy", "copy_with", "copy_with_indices", "modify", "apply_to_arrays", "map_blocks", "set_params",
    "fill_missing_blocks", "drop_missing_blocks", "scalar", "unary", "conj", "transpose", "dagger",
    "squeeze", "expand_dims", "fuse_core", "fuse", "fuse_empty", "unfuse", "unfuse_all", "reshape",
    "multiply_diagonal", "sync_charges", "phase_flip", "phase_transpose", "phase_sector",
    "phase_global", "phase_sync", "add", "sub", "mul", "align_axes", "tensordot_blockwise",
    "tensordot_fused", "tensordot", "qr", "svd", "svd_truncated", "eigh", "solve",
]
# operations of the second table `SymmModel.Model.Heap2` (driver kind "heapOp2"); none has an in-place form
MODEL_OPS2 = [
    "observe1", "observe2", "get_params", "reduce", "to_dense", "allclose", "trace", "trace_flip", "clip",
    "einsum", "einsum_scalar", "matmul", "matmul_flip", "matmul_scalar", "matmul_flip_scalar", "construct",
    "from_fill",
]
ALWAYS_INPLACE = {"modify", "apply_to_arrays", "map_blocks", "set_params", "fill_missing_blocks",
                  "drop_missing_blocks"}
NO_FLAG = {"copy", "copy_with", "copy_with_indices", "tensordot_blockwise", "tensordot_fused",
           "tensordot", "qr", "svd", "svd_truncated", "eigh", "solve"} | set(MODEL_OPS2)


def _is_arr(x):
    import symmray as sr

    return isinstance(x, (sr.AbelianArray, sr.BlockVector))


def _dicts(x):
    """(block dict object, sign dict object or None) — the objects themselves, kept alive"""
    return (x.blocks, x.phases if getattr(x, "fermionic", False) else None)


def snap(x):
    """observable state: index tables, charge, ordered blocks with bytes, ordered signs, labels"""
    import symmray as sr

    if isinstance(x, sr.AbelianArray):
        return ("arr", repr([ser.enc_index(ix) for ix in x.indices]), repr(x.charge),
                tuple((s, np.asarray(b).dtype.str, np.asarray(b).shape, np.asarray(b).tobytes())
                      for s, b in x.blocks.items()),
                tuple(x.phases.items()) if x.fermionic else None,
                tuple((o.label, o.dual) for o in x.oddpos) if x.fermionic else None)
    return ("vec", tuple((c, np.asarray(b).dtype.str, np.asarray(b).tobytes()) for c, b in x.blocks.items()))


def describe(operands):
    """abstract operand description for the model"""
    out = []
    for i, o in enumerate(operands):
        prev = [j for j in range(i) if operands[j] is o]
        if prev:
            out.append({"alias": prev[0]})
            continue
        fermi = bool(getattr(o, "fermionic", False))
        keys = list(o.blocks)
        ph = [keys.index(s) for s in o.phases if s in o.blocks] if fermi else []
        out.append({"fermi": fermi, "nblocks": len(keys), "phases": ph})
    return out


def build_calls(rng, sym, fermi):
    """[(model op, label, operands, fn(inplace, *operands) -> result or tuple)]; fresh operands per entry"""
    import symmray as sr
    from symmray import abelian_core as ac

    static = rng.random() < 0.7

    def arr(ndim=None, **kw):
        return gen.rand_array(rng, sym, ndim=ndim if ndim is not None else rng.randint(2, 3), fermi=fermi,
                              static=static, keep=rng.choice([0.6, 1.0]), pending=fermi, **kw)

    calls = []

    def add(op, label, operands, fn):
        calls.append((op, label, list(operands), fn))

    add("copy", "copy", [arr()], lambda ip, x: x.copy())
    add("copy_with", "copy_with()", [arr()], lambda ip, x: x.copy_with())
    add("copy_with_indices", "copy_with(indices)", [arr()], lambda ip, x: x.copy_with(indices=x.indices))
    add("modify", "modify(indices)", [arr()], lambda ip, x: x.modify(indices=x.indices))
    add("apply_to_arrays", "apply_to_arrays", [arr()], lambda ip, x: (x.apply_to_arrays(lambda b: b * 2), x)[1])
    add("map_blocks", "_map_blocks", [arr()],
        lambda ip, x: (x._map_blocks(fn_block=lambda b: b + 0, fn_sector=lambda s: s), x)[1])
    add("set_params", "set_params", [arr()], lambda ip, x: (x.set_params(x.get_params()), x)[1])
    add("fill_missing_blocks", "fill_missing_blocks", [arr()], lambda ip, x: (x.fill_missing_blocks(), x)[1])
    add("drop_missing_blocks", "drop_missing_blocks", [arr()], lambda ip, x: (x.drop_missing_blocks(), x)[1])
    add("scalar", "*2", [arr()], lambda ip, x: x.__imul__(2) if ip else x * 2)
    add("scalar", "/2", [arr()], lambda ip, x: x.__itruediv__(2) if ip else x / 2)
    add("scalar", "neg", [arr()], lambda ip, x: -x)
    add("scalar", "2*", [arr()], lambda ip, x: 2 * x)
    add("unary", "_do_unary_op(abs)", [arr()], lambda ip, x: x._do_unary_op("abs", inplace=ip))
    add("conj", "conj", [arr()], lambda ip, x: x.conj(inplace=ip))
    if fermi:
        add("conj", "conj(phase_dual)", [arr()], lambda ip, x: x.conj(phase_dual=True, inplace=ip))
    x = arr()
    perm = list(range(x.ndim))
    rng.shuffle(perm)
    add("transpose", "transpose", [x], lambda ip, x, p=tuple(perm): x.transpose(p, inplace=ip))
    add("dagger", "dagger", [arr()], lambda ip, x: x.dagger(inplace=ip))
    add("squeeze", "squeeze", [arr().expand_dims(0)], lambda ip, x: x.squeeze(0, inplace=ip))
    x = arr()
    add("expand_dims", "expand_dims", [x], lambda ip, x, a=rng.randint(0, x.ndim): x.expand_dims(a, inplace=ip))
    if not fermi:
        add("fuse_core", "_fuse_core", [arr()], lambda ip, x: x._fuse_core((0, 1), inplace=ip))
    add("fuse", "fuse", [arr(3)], lambda ip, x: x.fuse((0, 2), inplace=ip))
    add("fuse", "fuse(two groups)", [arr(3)], lambda ip, x: x.fuse((1,), (2, 0), inplace=ip))
    add("fuse_empty", "fuse()", [arr()], lambda ip, x: x.fuse(inplace=ip))
    add("unfuse", "unfuse", [arr(3).fuse((0, 1))], lambda ip, x: x.unfuse(0, inplace=ip))
    add("unfuse_all", "unfuse_all", [arr(3).fuse((0, 1)).fuse((0, 1))], lambda ip, x: x.unfuse_all(inplace=ip))
    x0 = arr(3)
    add("reshape", "reshape(unfuse)", [x0.fuse((0, 1))], lambda ip, x, s=x0.shape: x.reshape(s, inplace=ip))
    x = arr(3)
    ax = rng.randrange(x.ndim)
    add("multiply_diagonal", "multiply_diagonal", [x, gen.rand_vec(rng, x.indices[ax])],
        lambda ip, x, v, ax=ax: x.multiply_diagonal(v, ax, inplace=ip))
    add("sync_charges", "sync_charges", [arr()], lambda ip, x: x.sync_charges(inplace=ip))
    if fermi:
        add("phase_flip", "phase_flip", [arr()], lambda ip, x: x.phase_flip(*range(x.ndim), inplace=ip))
        add("phase_transpose", "phase_transpose", [arr()], lambda ip, x: x.phase_transpose(inplace=ip))
        x = arr()
        sec = next(iter(x.blocks), None)
        if sec is not None:
            add("phase_sector", "phase_sector", [x], lambda ip, x, s=sec: x.phase_sector(s, inplace=ip))
        add("phase_global", "phase_global", [arr()], lambda ip, x: x.phase_global(inplace=ip))
        add("phase_sync", "phase_sync", [arr()], lambda ip, x: x.phase_sync(inplace=ip))
    # binary blockwise operations, also with the operand passed twice
    for op, label, f_out, f_in in [
        ("add", "+", lambda a, b: a + b, lambda a, b: a.__iadd__(b)),
        ("sub", "-", lambda a, b: a - b, lambda a, b: a.__isub__(b)),
        ("mul", "*", lambda a, b: a * b, lambda a, b: a.__imul__(b)),
    ]:
        x = arr()
        y = x.copy()
        y.apply_to_arrays(lambda b: b + 1)
        if fermi:
            gen.add_pending(rng, y)
        if op != "sub" and y.blocks and rng.random() < 0.5:
            y.blocks.pop(next(iter(y.blocks)))
        add(op, label, [x, y], lambda ip, x, y, f=f_out, g=f_in: g(x, y) if ip else f(x, y))
        x = arr()
        add(op, label + " (same object twice)", [x, x], lambda ip, x, y, f=f_out, g=f_in: g(x, y) if ip else f(x, y))
    a, b, xa, xb = gen.rand_contractible(rng, sym, fermi=fermi, static=static, pending=fermi)
    add("align_axes", "align_axes", [a, b],
        lambda ip, a, b, xa=tuple(xa), xb=tuple(xb): (ac.drop_misaligned_sectors(a, b, xa, xb, inplace=True)
                                                      if ip else a.align_axes(b, (xa, xb))))
    if not fermi:
        for mode in ("blockwise", "fused"):
            a, b, xa, xb = gen.rand_contractible(rng, sym, fermi=False, static=static)
            add("tensordot_" + mode, "tensordot " + mode, [a, b],
                lambda ip, a, b, xa=xa, xb=xb, m=mode: sr.tensordot(a, b, axes=(xa, xb), mode=m, preserve_array=True))
    a, b, xa, xb = gen.rand_contractible(rng, sym, fermi=fermi, static=static, pending=fermi)
    add("tensordot", "tensordot", [a, b],
        lambda ip, a, b, xa=xa, xb=xb: sr.tensordot(a, b, axes=(xa, xb), preserve_array=True))
    a = arr(2)
    add("tensordot", "tensordot (same object twice)", [a, a],
        lambda ip, a, b: sr.tensordot(a, b, axes=0, preserve_array=True))
    add("qr", "qr", [arr(2)], lambda ip, m: sr.linalg.qr(m))
    add("svd", "svd", [arr(2)], lambda ip, m: sr.linalg.svd(m))
    add("svd_truncated", "svd_truncated", [arr(2)],
        lambda ip, m, k=rng.randint(1, 3): sr.linalg.svd_truncated(m, max_bond=k, absorb=None))
    m = arr(2)
    try:
        hm = sr.tensordot(m, m.dagger(), axes=1, preserve_array=True)
        if fermi:
            gen.add_pending(rng, hm)
        add("eigh", "eigh", [hm], lambda ip, hm: sr.linalg.eigh(hm))
        bvec = gen.rand_array(rng, sym, indices=(hm.indices[0],), fermi=fermi, static=static, pending=fermi)
        add("solve", "solve", [hm.copy(), bvec], lambda ip, a, b: sr.linalg.solve(a, b))
    except Exception:  # noqa  (construction of a hermitian operand may fail for odd charges)
        pass
    build_calls2(rng, sym, fermi, static, arr, add)
    return calls


def build_calls2(rng, sym, fermi, static, arr, add):
    """second table (`Model/Heap2.lean`) and the public operations that are instances of an existing model
    operation but were not exercised: block-vector arithmetic (in place and reflected), `@`"""
    import symmray as sr

    def none(f):
        return lambda ip, *xs: (f(*xs), None)[1]

    # read-only methods: nothing may change, nothing is returned that could alias
    for label, f in [("norm", lambda x: x.norm()), ("linalg.norm", lambda x: sr.linalg.norm(x)),
                     ("check", lambda x: x.check()), ("sectors", lambda x: x.sectors),
                     ("get_sparsity", lambda x: x.get_sparsity()),
                     ("is_valid_sector", lambda x: [x.is_valid_sector(s) for s in x.sectors]),
                     ("gen_valid_sectors", lambda x: list(x.gen_valid_sectors())),
                     ("repr/str", lambda x: (repr(x), str(x))),
                     ("check_chargemaps_aligned", lambda x: x.sync_charges().check_chargemaps_aligned())]:
        add("observe1", label, [arr()], none(f))
    x = arr()
    add("observe1", "BlockVector.to_dense/check/size", [gen.rand_vec(rng, x.indices[0], keep=1.0)],
        none(lambda v: (v.check(), v.to_dense(), v.size, v.shape, v.norm())))
    for label, f in [("sum", lambda x: x.sum()), ("max", lambda x: x.max()), ("min", lambda x: x.min()),
                     ("any", lambda x: x.any()), ("all", lambda x: x.all())]:
        add("reduce", label, [arr()], none(f))
    add("to_dense", "to_dense", [arr()], none(lambda x: x.to_dense()))
    x = arr()
    y = x.copy()
    y.apply_to_arrays(lambda b: b + 1)
    if fermi:
        gen.add_pending(rng, y)
    add("allclose", "allclose", [x, y], none(lambda x, y: x.allclose(y)))
    x = arr()
    add("allclose", "allclose (same object twice)", [x, x], none(lambda x, y: x.allclose(y)))
    add("get_params", "get_params", [arr()], lambda ip, x: x.get_params())
    add("clip", "clip", [arr()], lambda ip, x: x.clip(-0.5, 0.5))
    x = arr(3)
    add("einsum", "einsum(permutation)", [x], lambda ip, x: x.einsum("abc->cab"))
    m = arr(2)
    try:
        hm = sr.tensordot(m, m.dagger(), axes=1, preserve_array=True)
        if fermi:
            gen.add_pending(rng, hm)
        flip = fermi and (not hm.indices[0].dual) and hm.indices[1].dual
        add("trace_flip" if flip else "trace", "trace", [hm], none(lambda a: a.trace()))
        add("einsum_scalar", "einsum(aa->)", [hm.copy()], none(lambda a: a.einsum("aa->")))
        x3 = sr.tensordot(hm, arr(1), axes=0, preserve_array=True)
        add("einsum", "einsum(aab->b)", [x3], lambda ip, a: a.einsum("aab->b"))
    except Exception:  # noqa
        pass
    # `@`: fermionic → `matmulF`; abelian → `_tensordot_blockwise`
    for na, nb in [(2, 2), (2, 1), (1, 2), (1, 1)]:
        a = arr(na)
        ixs = (a.indices[-1].conj(),) + tuple(gen.rand_index(rng, sym, 3, 2) for _ in range(nb - 1))
        b = gen.rand_array(rng, sym, indices=ixs, fermi=fermi, static=static, pending=fermi,
                           label=rng.randint(51, 90))
        scalar = na == 1 and nb == 1
        if fermi:
            op = "matmul" + ("_flip" if b.indices[0].dual else "") + ("_scalar" if scalar else "")
        elif scalar:
            op = "observe2"
        else:
            op = "tensordot_blockwise"
        add(op, f"matmul {na}D@{nb}D", [a, b], lambda ip, a, b: a @ b)
    if fermi:
        a = arr(2)
        if a.indices[0].dual != a.indices[1].dual:
            add("matmul_flip" if a.indices[0].dual else "matmul", "matmul (same object twice)", [a, a],
                lambda ip, a, b: a @ b)
    # constructors: no operand, a new object with new dicts
    x0 = arr()
    kw = {} if type(x0).static_symmetry else {"symmetry": x0.symmetry}
    d = dict(x0.blocks)
    add("construct", "cls(indices, charge, blocks=d)", [],
        lambda ip, cls=type(x0), ix=x0.indices, c=x0.charge, d=d, kw=kw: _not_the_callers_dict(
            cls(indices=ix, charge=c, blocks=d, **kw), d))
    add("from_fill", "from_fill_fn", [],
        lambda ip, cls=type(x0), ix=x0.indices, c=x0.charge, kw=kw: cls.from_fill_fn(
            lambda shape: np.ones(shape), ix, c, **kw))
    # block vectors: in-place and reflected arithmetic (instances of `binaryA` / `scalarOp`)
    x = arr()
    v = gen.rand_vec(rng, x.indices[0], keep=1.0)
    v.apply_to_arrays(lambda b: np.abs(b) + 1)  # no zeros: `/` and `**` stay finite
    w = v.copy()
    w.apply_to_arrays(lambda b: b + 2)
    for op, label, f_out, f_in in [
        ("add", "vec + vec", lambda a, b: a + b, lambda a, b: a.__iadd__(b)),
        ("sub", "vec - vec", lambda a, b: a - b, lambda a, b: a.__isub__(b)),
        ("sub", "vec / vec", lambda a, b: a / b, lambda a, b: a.__itruediv__(b)),
        ("sub", "vec ** vec", lambda a, b: a ** b, lambda a, b: a.__ipow__(b)),
    ]:
        add(op, label, [v.copy(), w.copy()], lambda ip, a, b, f=f_out, g=f_in: g(a, b) if ip else f(a, b))
        vv = v.copy()
        add(op, label + " (same object twice)", [vv, vv],
            lambda ip, a, b, f=f_out, g=f_in: g(a, b) if ip else f(a, b))
    w2 = v.copy()
    if w2.blocks:
        w2.blocks.pop(next(iter(w2.blocks)))
    add("add", "vec + vec (missing block)", [w2, w.copy()],
        lambda ip, a, b: a.__iadd__(b) if ip else a + b)
    for label, f_out, f_in in [
        ("vec + 2", lambda a: a + 2, lambda a: a.__iadd__(2)), ("vec - 2", lambda a: a - 2, lambda a: a.__isub__(2)),
        ("vec / 2", lambda a: a / 2, lambda a: a.__itruediv__(2)), ("vec ** 2", lambda a: a ** 2, lambda a: a.__ipow__(2)),
        ("vec * 2", lambda a: a * 2, lambda a: a.__imul__(2)),
    ]:
        add("scalar", label, [v.copy()], lambda ip, a, f=f_out, g=f_in: g(a) if ip else f(a))
    for label, f in [("2 + vec", lambda a: 2 + a), ("2 - vec", lambda a: 2 - a), ("2 / vec", lambda a: 2 / a),
                     ("2 ** vec", lambda a: 2 ** a), ("-vec", lambda a: -a), ("vec.clip", lambda a: a.clip(0, 1))]:
        add("scalar", "neg", [v.copy()], lambda ip, a, f=f: f(a))


def _not_the_callers_dict(x, d):
    """the constructors store `dict(d)`: mutating the caller's dict afterwards must not show in the array"""
    keys = list(x.blocks)
    d[("caller",)] = 0
    if list(x.blocks) != keys or x.blocks is d:
        raise AssertionError("constructor kept the caller's dict")
    return x


def value(x):
    import symmray as sr

    if isinstance(x, sr.AbelianArray):
        return ("arr", ser.canon_array(ser.enc_array(x)))
    if isinstance(x, sr.BlockVector):
        return ("vec", ser.canon_vec(ser.enc_vec(x)))
    return ("other", repr(x))


def copies(operands):
    """copies of the operands that keep their aliasing pattern"""
    seen = {}
    return [seen.setdefault(id(o), o.copy()) for o in operands]


def leak_oracle(res, operands, before):
    """mutate the result through every in-place entry point of its dicts; do operands change?"""
    try:
        for k in list(res.blocks):
            res.blocks[k] = res.blocks[k] * 3 + 1
        if res.blocks:
            res.blocks.pop(next(iter(res.blocks)))
        if getattr(res, "fermionic", False):
            for k in list(res.blocks):
                res.phases[k] = -res.phases.get(k, 1)
            res.phases[("leak",)] = -1
            res.phases.pop(("leak",))
            if not res.blocks:
                res.phases.clear()
    except Exception:  # noqa
        pass
    return [i for i, o in enumerate(operands) if snap(o) != before[i]]


def run_real(rng, rounds):
    """phase 1: run the real code; keep the live objects for the identity comparison"""
    recs = []
    for _ in range(rounds):
        for fermi in (False, True):
            sym = rng.choice(gen.SYMS)
            for flag in (False, True):
                for op, label, operands, fn in build_calls(rng, sym, fermi):
                    if flag and (op in NO_FLAG or op in ALWAYS_INPLACE):
                        continue
                    if flag and op == "scalar" and label in ("neg", "2*"):
                        continue  # no in-place form
                    flagm = True if op in ALWAYS_INPLACE else flag  # methods without a switch are in place
                    rec = dict(op=op, label=label, operands=operands, sym=sym, fermi=fermi, inplace=flagm,
                               case=dict(kind="heapOp2" if op in MODEL_OPS2 else "heapOp", op=op, inplace=flagm,
                                         fermi=fermi, operands=describe(operands)),
                               held=[_dicts(o) for o in operands],  # keeps identities unique
                               before=[snap(o) for o in operands])
                    rec["out_value"] = None
                    if flagm and op not in ALWAYS_INPLACE:
                        # the value the out-of-place call returns for the same operands
                        try:
                            ro = fn(False, *copies(operands))
                            rec["out_value"] = [value(r) for r in (ro if isinstance(ro, tuple) else (ro,))]
                        except Exception as e:  # noqa
                            rec["out_value"] = "raised " + type(e).__name__
                    try:
                        rec["res"] = fn(flagm, *operands)
                        rec["raised"] = None
                    except Exception as e:  # noqa
                        rec["res"] = None
                        rec["raised"] = type(e).__name__
                    rec["after"] = [snap(o) for o in operands]
                    recs.append(rec)
    return recs


def check_sharing(ctx, rounds=None):
    """object-identity correspondence heap model <-> CPython for every modelled operation"""
    if rounds is None:
        rounds = 3 if ctx.tier == "quick" else 40
    recs = run_real(ctx.rng, rounds)
    cases = [dict(r["case"], id=n) for n, r in enumerate(recs)]
    preds = ctx.model(cases)
    for n, rec in enumerate(recs):
        op, operands, flagm = rec["op"], rec["operands"], rec["inplace"]
        ctx.evaluations += 1
        ctx.stat("heap:" + op)
        if rec["raised"]:
            ctx.stat("heap:raised:" + rec["raised"])
        what = f"{rec['label']} [{'fermionic' if rec['fermi'] else 'abelian'}, inplace={flagm}]"
        case = dict(rec["case"], sym=rec["sym"])
        if flagm and op not in ALWAYS_INPLACE:
            ctx.mark_nontrivial("heap-inplace:" + op)
        pred = None if preds is None else preds.get(n)
        if pred is not None and "bad" in pred:
            ctx.correspondence_broken("heap-model", f"{op}: {pred['bad']}")
            pred = None
        if pred is not None:
            targets = set(pred["targets"])
            bad = [c for c in pred["changed"] if c[0] not in targets]
            if bad:
                ctx.correspondence_broken("heap-model", f"{op}: model writes outside the targets {bad}")
        else:  # Lean unavailable: the proved prediction
            targets = ({0, 1} if op == "align_axes" else {0}) if flagm else set()
        tobjs = [operands[i] for i in targets if i < len(operands)]

        def untargeted(i):
            return not any(operands[i] is t for t in tobjs)

        # (1) operands the call was not asked to modify are observably unchanged (also when it raises)
        changed = [i for i in range(len(operands)) if rec["before"][i] != rec["after"][i] and untargeted(i)]
        if changed:
            ctx.violation(f"{what} modified operand(s) {changed} it was not asked to modify", case, op=op)
            continue
        # (1b) the in-place form produces the value of the out-of-place form
        ov = rec["out_value"]
        if ov is not None:
            if isinstance(ov, str) != bool(rec["raised"]):
                ctx.violation(f"{what}: in-place call {'raised ' + rec['raised'] if rec['raised'] else 'succeeded'} "
                              f"but the out-of-place call {ov if isinstance(ov, str) else 'succeeded'}", case, op=op)
                continue
            if not rec["raised"]:
                res = rec["res"]
                iv = [value(r) for r in (res if isinstance(res, tuple) else (res,))]
                if iv != ov:
                    ctx.violation(f"{what}: the in-place result differs from the out-of-place result", case, op=op)
                    continue
        if rec["raised"]:
            continue
        res = rec["res"]
        results = [r for r in (res if isinstance(res, tuple) else (res,)) if _is_arr(r)]
        mres = None
        if pred is not None:
            mres = [r for r in pred["results"] if not r.get("not_an_array")]
            if len(mres) != len(results):
                ctx.correspondence_broken("heap-model", f"{op}: {len(results)} array results, model {len(mres)}")
                mres = None
        # (2a) a bare dict result (`get_params`): is it a dict object of an operand?
        if isinstance(res, dict):
            shared_d = [i for i, (b, p) in enumerate(rec["held"]) if res is b or (p is not None and res is p)]
            m_d = None
            if pred is not None:
                md = [r for r in pred["results"] if r.get("not_an_array")]
                if len(md) != 1:
                    ctx.correspondence_broken("heap-model", f"{op}: one dict result, model {len(md)}")
                else:
                    m_d = md[0]["dict_shared"]
            if shared_d != (m_d if m_d is not None else []):
                ctx.disagreements_checked += 1
                now = [snap(o) for o in operands]
                res.clear()
                leaked = [i for i, o in enumerate(operands) if snap(o) != now[i]]
                if leaked:
                    ctx.violation(f"{what}: the returned dict IS a dict of operand(s) {shared_d}; clearing it "
                                  f"changed them", case, op=op)
                else:
                    ctx.correspondence_broken("heap-identity", f"{what}: dict result shared with {shared_d}, "
                                              f"model {m_d}")
            continue
        # (2) identity of the returned objects and of their dicts
        for k, r in enumerate(results):
            is_op = next((i for i, o in enumerate(operands) if r is o), None)
            rb, rp = _dicts(r)
            shared_b = [i for i, (b, p) in enumerate(rec["held"])
                        if (rb is b or (p is not None and rb is p)) and untargeted(i)]
            shared_p = [i for i, (b, p) in enumerate(rec["held"])
                        if rp is not None and (rp is b or (p is not None and rp is p)) and untargeted(i)]
            if mres is not None:
                m_is = mres[k]["is_operand"]
                m_b = [i for i in mres[k]["blocks_shared"] if untargeted(i)]
                m_p = [i for i in mres[k]["phases_shared"] if untargeted(i)]
            else:
                m_is, m_b, m_p = (k if flagm else None), [], []
            same_is = (is_op is None and m_is is None) or (
                is_op is not None and m_is is not None and operands[is_op] is operands[m_is])
            if same_is and shared_b == m_b and shared_p == m_p:
                continue
            ctx.disagreements_checked += 1
            if flagm and m_is is not None and is_op is None:
                # asked to work in place but returned another object: was the operand updated at all?
                if snap(operands[m_is]) != snap(r):
                    ctx.violation(f"{what} did not act in place: returned a different object and left the "
                                  f"operand with another value", case, op=op)
                else:
                    ctx.correspondence_broken("heap-identity", f"{what}: result is a new object")
                continue
            now = [snap(o) for o in operands]
            leaked = [i for i in leak_oracle(r, operands, now) if untargeted(i)]
            if leaked:
                ctx.violation(
                    f"{what}: result #{k} shares mutable state with operand(s) {leaked} (result is operand: "
                    f"{is_op}, block dict shared with {shared_b}, sign dict shared with {shared_p}); mutating "
                    f"the result changed them", case, op=op)
            else:
                ctx.correspondence_broken(
                    "heap-identity",
                    f"{what}: identity of result #{k} differs from the model (is_operand {is_op} vs {m_is}, "
                    f"blocks {shared_b} vs {m_b}, phases {shared_p} vs {m_p}) but no leak was found")
