"""C08 (also C01 / C16 / C20), stream "sparse" — sparsity management and scalar extraction.

The real methods AbelianArray.fill_missing_blocks / drop_missing_blocks / get_sparsity / allclose,
FermionicArray.allclose / item, BlockBase.item / __float__ / __complex__ / __int__ / __bool__ /
get_params / set_params are run on random sparse arrays and diffed with their literal Lean model
(Model/Sparse.lean, driver kind "sparse", handler `handleSparse`): raw results including the dict
order of the filled array, exception classes, the untouched sign table.

Direct oracles on the real code (independent of the model and of symmray's to_dense / check):
  fill     the dense form (value view) is unchanged; afterwards exactly the valid sectors are stored
           (independent enumeration); blocks present before are unchanged; the created blocks are
           zero, have the prescribed shape and the dtype of the data they join (C20 clause); the
           method returns None and works on the object itself; an independent copy is untouched
  drop     the dense form is unchanged; no all-zero block remains; nothing else was removed
  sparsity stored / valid count
  allclose x.allclose(y) == y.allclose(x) == equality of the two value views (pending signs
           multiplied in, a missing block = a zero block); neither operand is modified
  item …   the single entry of the dense form with the pending sign, in the requested Python type
  params   set_params(get_params()) is the identity; get_params returns a copy; set_params overwrites
           in place / appends

Verdict rules: a failing direct oracle is a violation (with the case); a model / implementation
difference that no direct oracle confirms is a broken correspondence.

Call `run_c08_sparse(ctx)` from `harness.props.c08.run`.
"""

import json
import random

import numpy as np

from .. import gen, oracle, ser

STREAM = "sparse:model-vs-implementation"
RULE_SPARSE = ("random sparse arrays from harness.gen (all symmetries, abelian and fermionic with pending signs, "
               "ranks 0-4, float32/64 and complex64/128, static and generic classes, plain and fused indices; with NO "
               "stored block, already full, with explicitly stored (also negative-) zero blocks, with no valid sector at "
               "all); fill_missing_blocks, drop_missing_blocks, get_sparsity, allclose (both ways, against copies with "
               "another sparsity pattern / another pending-sign state / one changed entry), item, float, int, complex, "
               "bool (single-entry arrays and the error cases), get_params / set_params. non-trivial: a sector was "
               "missing (fill), a stored block was zero (drop), the two operands store different sectors or carry "
               "pending signs (allclose), every item / params case")
ASSUMPTIONS_SPARSE = [
    "sparse: numpy.allclose with the default tolerances is exact equality on the small Gaussian-integer / "
    "half-integer data used (|x - y| >= 1/2 > atol + rtol*|y|); blocks of different shapes (numpy broadcasting) "
    "are not compared: both operands of allclose have the same index tables",
]
ANCHORS_SPARSE = {"abelian_core.py": ["get_sparsity", "fill_missing_blocks", "drop_missing_blocks", "allclose",
                                      "gen_valid_sectors", "get_block_shape"],
                  "fermionic_core.py": ["allclose", "item", "phase_sync"],
                  "block_core.py": ["get_params", "set_params", "item", "__float__", "__complex__", "__int__",
                                    "__bool__", "get_any_array"]}

# the brief asks for the dict order of the filled array to be part of the raw comparison; a difference in
# order ALONE is reported as a broken correspondence (never as a violation).  Set to False to compare the
# filled / updated dict as a set of (sector, block) pairs instead.
COMPARE_DICT_ORDER = True

DTYPES = ["float64", "complex128", "float32", "complex64"]
FNS = [("fill", 0.24), ("drop", 0.18), ("sparsity", 0.08), ("allclose", 0.24), ("scalar", 0.14), ("params", 0.12)]


# ------------------------------------------------------------------ helpers


def call(fn, *a):
    try:
        return ("ok", fn(*a))
    except Exception as e:  # noqa
        return ("raise", ser.exc_kind(e))


def canon_blocks(blocks):
    """ordered raw observation of a protocol block list"""
    return [(json.dumps(b["sector"]), tuple(b["shape"]), tuple(ser.canon_scalar(v) for v in b["data"]))
            for b in blocks]


def canon_arr(j):
    """what the stream compares of an array: blocks in dict order, sign table (as a dict), labels,
    index tables, total charge"""
    return dict(
        blocks=canon_blocks(j["blocks"]),
        phases=sorted((json.dumps(s), int(p)) for s, p in j.get("phases", [])),
        oddpos=[(int(l), bool(d)) for l, d in j.get("oddpos", [])],
        indices=json.dumps([ser.canon_index(i) for i in j["indices"]], sort_keys=True),
        charge=list(j["charge"]),
    )


def same_arr(a, b, order=True):
    ca, cb = canon_arr(a), canon_arr(b)
    if not order:
        ca["blocks"], cb["blocks"] = sorted(ca["blocks"]), sorted(cb["blocks"])
    return ca == cb


def base_array(rng, want=None):
    """a valid array with a random sparsity pattern; returns (meta, x)"""
    sym = rng.choice(gen.SYMS)
    fermi = rng.random() < 0.5
    static = rng.random() < 0.7
    dtype = rng.choice(DTYPES)
    ndim = rng.choice([0, 1, 2, 2, 3, 3, 4])
    pattern = want or rng.choice(["sparse", "sparse", "half", "full", "empty", "zeros", "zeros", "novalid"])
    keep = {"sparse": 0.4, "half": 0.7, "full": 2.0, "empty": -1.0, "zeros": 0.8, "novalid": 0.5}[pattern]
    indices = tuple(gen.rand_index(rng, sym, 3, 2) for _ in range(ndim))
    charge = None
    if pattern == "novalid":
        # a total charge that no sector reaches (when there is one)
        duals = [ix.dual for ix in indices]
        import itertools
        reach = {gen.py_sector_charge(sym, s, duals) for s in itertools.product(*[list(ix.chargemap) for ix in indices])}
        pool = [c for c in gen.charge_pool(sym) if c not in reach]
        if pool:
            charge = rng.choice(pool)
        else:
            pattern = "sparse"
    x = gen.rand_array(rng, sym, indices=indices, fermi=fermi, static=static, dtype=dtype, keep=keep,
                       charge=charge, min_blocks=0)
    if pattern == "zeros" and x.blocks:
        for s in rng.sample(list(x.blocks), rng.randint(1, len(x.blocks))):
            z = np.zeros_like(x.blocks[s])
            if rng.random() < 0.3 and z.size:
                z = -z  # negative zeros are zeros
            x.blocks[s] = z
    fused = False
    if x.ndim >= 2 and x.blocks and rng.random() < 0.15:
        k = rng.randint(2, x.ndim)
        x = x.fuse(tuple(sorted(rng.sample(range(x.ndim), k))))
        fused = True
        if rng.random() < 0.7 and len(x.blocks) > 0:
            for s in rng.sample(list(x.blocks), rng.randint(0, len(x.blocks))):
                del x.blocks[s]
    if fermi and rng.random() < 0.6:
        gen.add_pending(rng, x)
    if x.blocks and rng.random() < 0.3:
        # stored order is not the enumeration order
        items = list(x.blocks.items())
        rng.shuffle(items)
        x.blocks.clear()
        x.blocks.update(items)
    meta = dict(sym=sym, fermi=fermi, static=static, dtype=dtype, ndim=x.ndim, pattern=pattern, fused=fused,
                pending=bool(fermi and x.phases), nblocks=len(x.blocks))
    return meta, x


def valid_sectors_of(x):
    sym = oracle.sym_of(x)
    return gen.valid_sectors(sym, x.indices, x.charge)


def is_zero(b):
    return bool(np.all(np.asarray(b) == 0))


def safe_dense(x):
    """independent dense form, or the exception text when the blocks do not fit the index tables"""
    try:
        return oracle.dense(x)
    except Exception as e:  # noqa
        return f"{type(e).__name__}: {e}"


def dense_changed(x, D0):
    """problem text when the dense form of `x` is not `D0` (None: unchanged)"""
    D = safe_dense(x)
    if isinstance(D, str):
        return "the blocks no longer fit the index tables (" + D[:200] + ")"
    return None if np.array_equal(D, D0) else "the dense form changed"


def values_equal(x, y):
    """equality of the two value views; None when an operand cannot be densified (its blocks do not fit
    its tables: a fault of the operation that built it, reported by that operation's own cases)"""
    Dx, Dy = safe_dense(x), safe_dense(y)
    if isinstance(Dx, str) or isinstance(Dy, str):
        return None
    return bool(np.array_equal(Dx, Dy))


# ------------------------------------------------------------------ case generators


def case_fill(rng):
    meta, x = base_array(rng)
    before = ser.enc_array(x)
    old = dict(x.blocks)
    had_dtype = str(x.dtype) if x.blocks else None
    D0 = oracle.dense(x) if all(len(ix.chargemap) for ix in x.indices) else None
    keepcopy = x.copy()
    y = x
    out = call(y.fill_missing_blocks)
    problems = []
    missing = None
    if out[0] == "ok":
        after = ser.enc_array(y)
        impl_obs = {"ok": after}
        valid = valid_sectors_of(y)
        missing = len([s for s in valid if s not in old])
        if out[1] is not None:
            problems.append("fill_missing_blocks returned a value (documented: in place)")
        if set(y.blocks) != set(valid) or len(y.blocks) != len(valid):
            problems.append(f"stored sectors after fill differ from the valid sectors: {sorted(set(y.blocks) ^ set(valid))}")
        for s, b in old.items():
            if s not in y.blocks or not (np.asarray(y.blocks[s]).shape == np.asarray(b).shape
                                         and np.array_equal(y.blocks[s], b)):
                problems.append(f"block {s} present before the fill was changed")
        for s, b in y.blocks.items():
            if s in old:
                continue
            b = np.asarray(b)
            shp = tuple(ix.chargemap[c] for ix, c in zip(y.indices, s))
            if b.shape != shp:
                problems.append(f"created block {s} has shape {b.shape}, index tables say {shp}")
            if not is_zero(b):
                problems.append(f"created block {s} is not zero")
            if had_dtype is not None and str(b.dtype) != had_dtype:
                problems.append(f"created block {s} has dtype {b.dtype}, the stored data are {had_dtype}")
        if D0 is not None and dense_changed(y, D0):
            problems.append(dense_changed(y, D0))
        if not same_arr(ser.enc_array(keepcopy), before):
            problems.append("a copy taken before the fill was modified")
        if getattr(y, "fermionic", False) and sorted(map(repr, y.phases.items())) != sorted(
                map(repr, keepcopy.phases.items())):
            problems.append("the pending-sign table was changed by the fill")
    else:
        impl_obs = {"raise": out[1]}
        problems.append(f"fill_missing_blocks raised {out[1]} on a valid array")
    return dict(fn="fill", req={"kind": "sparse", "fn": "fill", "arr": before}, impl=impl_obs, problems=problems,
                meta=meta, nontrivial=bool(missing), tag=f"missing={'0' if not missing else '>0'}")


def case_drop(rng):
    meta, x = base_array(rng, want=rng.choice([None, "zeros", "zeros"]))
    if rng.random() < 0.3:
        # fill first: explicitly stored zero blocks in every missing sector
        x.fill_missing_blocks()
    before = ser.enc_array(x)
    old = dict(x.blocks)
    D0 = safe_dense(x) if all(len(ix.chargemap) for ix in x.indices) else None
    if isinstance(D0, str):
        return None  # the preparing fill is at fault: reported by the fill cases
    keepcopy = x.copy()
    out = call(x.drop_missing_blocks)
    problems = []
    nzero = len([s for s, b in old.items() if is_zero(b)])
    if out[0] == "ok":
        impl_obs = {"ok": ser.enc_array(x)}
        if out[1] is not None:
            problems.append("drop_missing_blocks returned a value (documented: in place)")
        for s, b in x.blocks.items():
            if is_zero(b):
                problems.append(f"all-zero block {s} still stored")
            if s not in old or not np.array_equal(old[s], b):
                problems.append(f"block {s} was changed or created")
        for s, b in old.items():
            if s not in x.blocks and not is_zero(b):
                problems.append(f"non-zero block {s} was removed")
        if [s for s in old if s in x.blocks] != list(x.blocks):
            problems.append("the relative order of the remaining blocks changed")
        if D0 is not None and dense_changed(x, D0):
            problems.append(dense_changed(x, D0))
        if not same_arr(ser.enc_array(keepcopy), before):
            problems.append("a copy taken before the drop was modified")
    else:
        impl_obs = {"raise": out[1]}
        problems.append(f"drop_missing_blocks raised {out[1]} on a valid array")
    return dict(fn="drop", req={"kind": "sparse", "fn": "drop", "arr": before}, impl=impl_obs, problems=problems,
                meta=meta, nontrivial=nzero > 0, tag=f"zero_blocks={'0' if not nzero else '>0'}")


def case_sparsity(rng):
    meta, x = base_array(rng)
    before = ser.enc_array(x)
    out = call(x.get_sparsity)
    valid = valid_sectors_of(x)
    problems = []
    if out[0] == "ok":
        v = float(out[1])
        impl_obs = {"ok": v}
        if not valid or v != len(x.blocks) / len(valid):
            problems.append(f"get_sparsity = {v}, stored {len(x.blocks)} of {len(valid)} valid sectors")
    else:
        impl_obs = {"raise": out[1]}
        if valid:
            problems.append(f"get_sparsity raised {out[1]} although {len(valid)} sectors are valid")
    return dict(fn="sparsity", req={"kind": "sparse", "fn": "sparsity", "arr": before}, impl=impl_obs,
                problems=problems, meta=meta, nontrivial=len(x.blocks) != len(valid),
                tag="novalid" if not valid else "ok")


def variant(rng, x):
    """another array with the same tables: (kind, y, expected relation to x or None)"""
    kind = rng.choice(["copy", "filled", "dropped", "entry", "entry", "resync", "repending", "global", "pattern",
                       "zero_vs_missing", "rand"])
    y = x.copy()
    fermi = bool(getattr(x, "fermionic", False))
    if kind == "filled":
        y.fill_missing_blocks()
    elif kind == "dropped":
        y.drop_missing_blocks()
    elif kind == "entry":
        if not y.blocks:
            return None
        s = rng.choice(list(y.blocks))
        b = np.array(y.blocks[s], copy=True)
        if not b.size:
            return None
        flat = b.reshape(-1)
        flat[rng.randrange(b.size)] += rng.choice([1, -1, 2])
        y.blocks[s] = flat.reshape(b.shape)
    elif kind == "resync":
        if not fermi:
            return None
        y = x.phase_sync()
    elif kind == "repending":
        # the same value with another pending-sign state: move signs from the table into the data
        if not fermi or not y.blocks:
            return None
        for s in rng.sample(list(y.blocks), rng.randint(1, len(y.blocks))):
            y.blocks[s] = -y.blocks[s]
            y.phase_sector(s, inplace=True)
    elif kind == "global":
        if not fermi:
            return None
        y.phase_global(inplace=True)
    elif kind == "pattern":
        # same values, other stored sectors: fill, then drop a random subset of the zero blocks
        y.fill_missing_blocks()
        for s in list(y.blocks):
            if is_zero(y.blocks[s]) and rng.random() < 0.5:
                del y.blocks[s]
    elif kind == "zero_vs_missing":
        # a missing block against a stored NON-zero block
        valid = valid_sectors_of(y)
        free = [s for s in valid if s not in y.blocks]
        if not free:
            return None
        s = rng.choice(free)
        shp = tuple(ix.chargemap[c] for ix, c in zip(y.indices, s))
        b = np.zeros(shp, dtype=str(x.dtype))
        if b.size:
            b.reshape(-1)[rng.randrange(b.size)] = rng.choice([1, -2])
        y.blocks[s] = b
    elif kind == "rand":
        sym = oracle.sym_of(x)
        y = gen.rand_array(rng, sym, indices=x.indices, charge=x.charge, fermi=fermi, static=x.static_symmetry,
                           dtype=str(x.dtype) if x.blocks else "float64", keep=rng.choice([0.3, 0.8]), min_blocks=0,
                           label=(x.oddpos[0].label if fermi and x.oddpos else None))
        if fermi and rng.random() < 0.5:
            gen.add_pending(rng, y)
    if y.blocks and rng.random() < 0.3:
        items = list(y.blocks.items())
        rng.shuffle(items)
        y.blocks.clear()
        y.blocks.update(items)
    return kind, y


def case_allclose(rng):
    meta, x = base_array(rng, want=rng.choice([None, None, "zeros"]))
    if not all(len(ix.chargemap) for ix in x.indices):
        return None
    r = variant(rng, x)
    if r is None:
        return None
    kind, y = r
    ex, ey = ser.enc_array(x), ser.enc_array(y)
    a = call(x.allclose, y)
    b = call(y.allclose, x)
    expected = values_equal(x, y)
    if expected is None:
        return None
    problems = []
    if a[0] != "ok" or b[0] != "ok":
        problems.append(f"allclose raised: {a[1] if a[0] != 'ok' else b[1]}")
        impl_obs = {"raise": a[1] if a[0] != "ok" else b[1]}
    else:
        av, bv = bool(a[1]), bool(b[1])
        impl_obs = {"ok": av}
        if av != bv:
            problems.append(f"x.allclose(y) = {av} but y.allclose(x) = {bv}")
        if av != expected:
            problems.append(f"x.allclose(y) = {av} but the value views are {'equal' if expected else 'different'}")
    if not same_arr(ser.enc_array(x), ex) or not same_arr(ser.enc_array(y), ey):
        problems.append("allclose modified an operand")
    nontrivial = set(x.blocks) != set(y.blocks) or bool(getattr(x, "phases", None)) or bool(getattr(y, "phases", None))
    return dict(fn="allclose", req={"kind": "sparse", "fn": "allclose", "arr": ex, "other": ey}, impl=impl_obs,
                impl_rev=(b[1] if b[0] != "ok" else bool(b[1])), problems=problems, meta=dict(meta, variant=kind),
                nontrivial=nontrivial, tag=f"{kind}:{expected}")


def scalar_array(rng):
    """an array whose dense form has ONE entry (or nearly: the error cases)"""
    sym = rng.choice(gen.SYMS)
    fermi = rng.random() < 0.5
    static = rng.random() < 0.7
    dtype = rng.choice(DTYPES)
    shape_kind = rng.choice(["rank0", "ones", "ones", "two_blocks", "big_block", "empty", "rand"])
    if shape_kind == "rand":
        meta, x = base_array(rng)
        return dict(meta, shape_kind=shape_kind), x
    import symmray as sr

    ndim = 0 if shape_kind == "rank0" else rng.randint(1, 3)
    pool = gen.charge_pool(sym)
    if shape_kind == "two_blocks":
        ndim = max(ndim, 2)
        indices = tuple(sr.BlockIndex({c: 1 for c in rng.sample(pool, 2)}, dual=rng.random() < 0.5)
                        for _ in range(ndim))
    elif shape_kind == "big_block":
        indices = tuple(sr.BlockIndex({rng.choice(pool): 2 if k == 0 else rng.randint(1, 2)},
                                      dual=rng.random() < 0.5) for k in range(ndim))
    else:
        indices = tuple(sr.BlockIndex({rng.choice(pool): 1}, dual=rng.random() < 0.5) for _ in range(ndim))
    x = gen.rand_array(rng, sym, indices=indices, fermi=fermi, static=static, dtype=dtype,
                       keep=-1.0 if shape_kind == "empty" else 2.0, min_blocks=0)
    if x.blocks and rng.random() < 0.5:
        # half-integers (exact) to see the truncation of int(); zero to see bool()
        for s in list(x.blocks):
            x.blocks[s] = (x.blocks[s] + rng.choice([0.5, -0.5, 0.0]) * (rng.random() < 0.7)).astype(dtype)
            if rng.random() < 0.2:
                x.blocks[s] = np.zeros_like(x.blocks[s])
    if fermi and rng.random() < 0.7:
        gen.add_pending(rng, x)
    meta = dict(sym=sym, fermi=fermi, static=static, dtype=dtype, ndim=x.ndim, shape_kind=shape_kind,
                pending=bool(fermi and x.phases), nblocks=len(x.blocks))
    return meta, x


def case_scalar(rng):
    meta, x = scalar_array(rng)
    fn = rng.choice(["item", "float", "int", "complex", "bool"])
    ex = ser.enc_array(x)
    cplx = str(x.dtype).startswith("complex") if x.blocks else False
    f = {"item": x.item, "float": lambda: float(x), "int": lambda: int(x), "complex": lambda: complex(x),
         "bool": lambda: bool(x)}[fn]
    out = call(f)
    problems = []
    single = len(x.blocks) == 1 and np.asarray(next(iter(x.blocks.values()))).size == 1
    if out[0] == "ok":
        v = out[1]
        if fn == "bool":
            impl_obs = {"ok": bool(v)}
        elif fn == "int":
            impl_obs = {"ok": int(v)}
        else:
            impl_obs = {"ok": ser.canon_scalar(ser.enc_scalar(v))}
        if not single:
            problems.append(f"{fn}() of an array that is not a single stored entry returned {v!r}")
        else:
            # one stored entry: every other entry of the dense form is zero
            d = complex(oracle.dense(x).sum())
            want = {"item": d, "complex": d, "float": d.real, "int": int(d.real), "bool": d != 0}[fn]
            if fn in ("float", "int") and cplx:
                problems.append(f"{fn}() of a complex array returned {v!r}")
            elif complex(v) != complex(want):
                problems.append(f"{fn}() = {v!r}, the entry of the value view is {d!r}")
            py = {"item": (complex if cplx else float), "float": float, "int": int, "complex": complex,
                  "bool": bool}[fn]
            if type(v) is not py:
                problems.append(f"{fn}() returned a {type(v).__name__}, expected {py.__name__}")
    else:
        impl_obs = {"raise": out[1]}
        if single and not (fn in ("float", "int") and cplx):
            problems.append(f"{fn}() raised {out[1]} on a single-entry array")
    if not same_arr(ser.enc_array(x), ex):
        problems.append(f"{fn}() modified the array")
    return dict(fn=fn, req={"kind": "sparse", "fn": fn, "arr": ex, "cplx": bool(cplx)}, impl=impl_obs,
                problems=problems, meta=meta, nontrivial=True, tag=f"{meta['shape_kind']}:{out[0]}")


def case_params(rng):
    meta, x = base_array(rng)
    ex = ser.enc_array(x)
    problems = []
    p = x.get_params()
    if p is x.blocks:
        problems.append("get_params returned the block dict itself, not a copy")
    if list(p) != list(x.blocks) or any(p[s] is not x.blocks[s] for s in p):
        problems.append("get_params differs from the stored blocks")
    mode = rng.choice(["roundtrip", "update", "update"])
    if mode == "roundtrip":
        # mutate the returned dict first: the array must not see it
        q = dict(p)
        if p:
            p.pop(next(iter(p)))
        if not same_arr(ser.enc_array(x), ex):
            problems.append("mutating the dict returned by get_params changed the array")
        out = call(x.set_params, q)
        req = {"kind": "sparse", "fn": "roundtrip", "arr": ex}
        if out[0] == "ok" and not same_arr(ser.enc_array(x), ex):
            problems.append("set_params(get_params()) changed the array")
    else:
        keys = list(x.blocks)
        rng.shuffle(keys)
        keys = keys[: rng.randint(0, len(keys))]
        new = {s: (2 * np.asarray(x.blocks[s]) + 1).astype(np.asarray(x.blocks[s]).dtype) for s in keys}
        free = [s for s in valid_sectors_of(x) if s not in x.blocks]
        rng.shuffle(free)
        for s in free[: rng.randint(0, 2)]:
            shp = tuple(ix.chargemap[c] for ix, c in zip(x.indices, s))
            new[s] = gen.rand_block(rng, shp, meta["dtype"])
        items = list(new.items())
        rng.shuffle(items)
        new = dict(items)
        old = dict(x.blocks)
        out = call(x.set_params, new)
        req = {"kind": "sparse", "fn": "set_params", "arr": ex,
               "params": [dict(sector=ser.enc_sector(s), **ser.enc_block(b)) for s, b in new.items()]}
        if out[0] == "ok":
            want_keys = list(old) + [s for s in new if s not in old]
            if list(x.blocks) != want_keys:
                problems.append("set_params: keys / order are not those of dict.update")
            else:
                for s in want_keys:
                    w = new[s] if s in new else old[s]
                    if not np.array_equal(x.blocks[s], w):
                        problems.append(f"set_params: block {s} is neither the given nor the old one")
    if out[0] == "ok":
        impl_obs = {"ok": ser.enc_array(x)}
        if out[1] is not None:
            problems.append("set_params returned a value")
    else:
        impl_obs = {"raise": out[1]}
        problems.append(f"set_params raised {out[1]}")
    return dict(fn="params", req=req, impl=impl_obs, problems=problems, meta=dict(meta, mode=mode),
                nontrivial=True, tag=mode)


GENS = {"fill": case_fill, "drop": case_drop, "sparsity": case_sparsity, "allclose": case_allclose,
        "scalar": case_scalar, "params": case_params}


def gen_cases(seed, chunk, n):
    rng = random.Random(seed * 1000003 + chunk * 7919 + 90817)
    out = []
    while len(out) < n:
        u = rng.random()
        acc = 0.0
        for name, w in FNS:
            acc += w
            if u < acc:
                break
        c = GENS[name](rng)
        if c is not None:
            out.append(c)
    return out


# ------------------------------------------------------------------ comparison with the model


def agree(it, m):
    """does the model's answer `m` (the "r" object) equal the implementation's observation?"""
    impl = it["impl"]
    if "raise" in impl or "raise" in m:
        return impl.get("raise") == m.get("raise") and "raise" in impl and "raise" in m
    fn = it["req"]["fn"]
    if fn in ("fill", "drop", "set_params", "roundtrip"):
        return same_arr(impl["ok"], m["ok"], order=COMPARE_DICT_ORDER)
    if fn == "sparsity":
        num, den = m["ok"]
        return den != 0 and impl["ok"] == num / den
    if fn in ("allclose", "bool"):
        return bool(impl["ok"]) == bool(m["ok"])
    if fn == "int":
        return int(impl["ok"]) == int(m["ok"])
    return tuple(impl["ok"]) == tuple(ser.canon_scalar(m["ok"]))


def brief(obs):
    s = json.dumps(obs, default=str)
    return s if len(s) < 1500 else s[:1500] + "…"


def run_c08_sparse(ctx):
    n = 6400 if ctx.tier == "quick" else 64000
    per = 100
    chunks = ctx.pmap("harness.props.c08_sparse", "gen_cases",
                      [(ctx.seed, k, per) for k in range(max(1, n // per))])
    items = [it for ch in chunks for it in ch]
    ctx.evaluations += len(items)
    for i, it in enumerate(items):
        it["req"]["id"] = i
    model = ctx.model([it["req"] for it in items])
    for it in items:
        fn = it["req"]["fn"]
        ctx.stat(f"sparse.{it['fn']}.{it['tag']}")
        if it["nontrivial"]:
            ctx.mark_nontrivial("sparse:" + json.dumps(it["req"], sort_keys=True)[:4000])
        ctx.sample({"sparse": fn, "meta": it["meta"], "impl": brief(it["impl"])[:300]}, limit=6)
        m = None
        if model is not None:
            r = model[it["req"]["id"]]
            if "bad" in r:
                ctx.correspondence_broken("sparse:driver-bad", str(r["bad"])[:2000])
            else:
                m = r.get("r")
        if it["problems"]:
            # a direct oracle on the real code fails on this input
            ctx.violation(f"{fn}: " + "; ".join(it["problems"][:3]),
                          dict(it["req"], impl=it["impl"], model=m, meta=it["meta"]),
                          triggers=[it["fn"]] + [f"{k}={it['meta'][k]}" for k in
                                                 ("pattern", "variant", "shape_kind", "mode") if k in it["meta"]],
                          op=fn)
            continue
        if m is None:
            continue
        if agree(it, m):
            continue
        ctx.disagreements_checked += 1
        ctx.correspondence_broken(
            STREAM, json.dumps(dict(fn=fn, tag=it["tag"], meta=it["meta"], impl=brief(it["impl"]),
                                    model=brief(m), request=it["req"]), default=str)[:8000])


# ------------------------------------------------------------------ replay of a recorded case


def impl_of_request(req):
    """re-run the real method named by a protocol request; the raw observation"""
    j = req["arr"]
    x = ser.dec_array(j, dtype=j.get("dtype", "float64"), static=j.get("static", True))
    fn = req["fn"]
    if fn == "fill":
        out = call(x.fill_missing_blocks)
        return {"ok": ser.enc_array(x)} if out[0] == "ok" else {"raise": out[1]}
    if fn == "drop":
        out = call(x.drop_missing_blocks)
        return {"ok": ser.enc_array(x)} if out[0] == "ok" else {"raise": out[1]}
    if fn == "sparsity":
        out = call(x.get_sparsity)
        return {"ok": float(out[1])} if out[0] == "ok" else {"raise": out[1]}
    if fn == "allclose":
        k = req["other"]
        y = ser.dec_array(k, dtype=k.get("dtype", "float64"), static=k.get("static", True))
        out = call(x.allclose, y)
        return {"ok": bool(out[1])} if out[0] == "ok" else {"raise": out[1]}
    if fn in ("item", "float", "int", "complex", "bool"):
        f = {"item": x.item, "float": lambda: float(x), "int": lambda: int(x), "complex": lambda: complex(x),
             "bool": lambda: bool(x)}[fn]
        out = call(f)
        if out[0] != "ok":
            return {"raise": out[1]}
        return {"ok": bool(out[1]) if fn == "bool" else int(out[1]) if fn == "int"
                else ser.canon_scalar(ser.enc_scalar(out[1]))}
    if fn in ("set_params", "roundtrip"):
        sym = j["sym"]
        ps = x.get_params() if fn == "roundtrip" else {
            ser.dec_sector(b["sector"], sym): ser.dec_block(b, j.get("dtype", "float64")) for b in req["params"]}
        out = call(x.set_params, ps)
        return {"ok": ser.enc_array(x)} if out[0] == "ok" else {"raise": out[1]}
    return None


def replay_c08_sparse(ctx, payload):
    """replay of a violation / broken-correspondence case recorded by this stream"""
    case = payload.get("case", {})
    req = {k: v for k, v in case.items() if k not in ("impl", "model", "meta")}
    now = impl_of_request(req)
    ctx.lean.build()
    ctx.driver_ok = bool(ctx.lean.build_ok)
    m = ctx.model([dict(req, id=0)])
    mod = m[0].get("r") if m else None
    print("what:", payload.get("what"))
    print(f"sparse {req.get('fn')}: implementation now {brief(now)}, recorded {brief(case.get('impl'))}, "
          f"model {brief(mod)}")
    norm = lambda o: json.dumps(json.loads(json.dumps(o, default=str)), sort_keys=True)  # noqa: E731
    differs = now is not None and mod is not None and not agree(dict(impl=now, req=req), mod)
    if payload.get("kind") == "violation" or "what" in payload and not differs:
        # a direct-oracle failure: it reproduces when the real method still behaves as recorded
        bad = now is not None and case.get("impl") is not None and norm(now) == norm(case.get("impl"))
        print("verdict:", "the recorded behaviour reproduces" if bad else "not reproduced on this tree")
    else:
        bad = differs
        print("verdict:", "model and implementation differ" if bad else "model and implementation agree on this tree")
    return 1 if bad else 0
