"""C13 — Truncated SVD keeps exactly what its cutoff and bond limit prescribe.

Correspondence between `symmray.linalg.svd_truncated` (lines 274-393) / `calc_sub_max_bonds`
and the Lean model `SymmModel/Model/Trunc.lean`, plus direct oracles (Python `fractions`)
for every clause of the property on the real code.

Data: every block is `P . diag(d) . Q` with signed permutation matrices and small non-negative
integers `d`, so the singular values are exactly known integers (LAPACK returns them exactly;
this is read back from `sr.linalg.svd` and the matrix is skipped as "inexact" otherwise) and all
float arithmetic inside the selection logic (sort, squares, cumsum, `cutoff * total` with a
dyadic cutoff) is exact.  Cutoffs are dyadic: a *robust* stream stays >= 1e-6 away from every
decision boundary, a *tie* stream sits exactly on one.
"""

import itertools
import random
from fractions import Fraction

import numpy as np

from .. import gen
from ..ser import enc_charge

ID = "C13"
LEVEL = "proof"
PROPS_MODULE = "SymmModel.Props.C13All"
_T = "SymmModel.C13."
THEOREMS = [
    _T + n
    for n in [
        "keep_is_prefix",
        "prefix_is_largest",
        "keep_ge_discarded",
        "keep_rule_exact",
        "threshold_eq",
        "bond_threshold_char",
        "rule_threshold_abs",
        "rule_threshold_rel",
        "rule_threshold_cumulative",
        "keep_antitone_cutoff",
        "keep_antitone_cutoff_partial",
        "keep_antitone_cutoff_old_counterexample",
        "keep_antitone_cutoff_witness_fixed",
        "nowrap_of_cutoff_le_total",
        "keep_le_maxBond",
        "keep_le_maxBond_tie_counterexample",
        "nocutoff_total_eq_limit",
        "nocutoff_unlimited",
        "nocutoff_each_le_size",
        "absorb_same_product",
        "absorb_same_product_sum",
        "bondChargemap_perm",
    ]
] + [
    # array-level clauses (absorb options agree; squared error = discarded weight), proved with the
    # decomposition lemmas under explicit kernel contracts
    "SymmModel.C11." + n
    for n in ["absorb_products_agree", "absorb_products_agree_truncated", "truncation_error_block",
              "truncated_block_entries", "truncation_error", "applyCounts_valid"]
]
LEAN_FILES = [
    "SymmModel.Model.Trunc",
    "SymmModel.Proofs.TruncLemmas",
    "SymmModel.Props.C13",
    "SymmModel.Driver.TruncH",
    "SymmModel.Props.C13All",
    "SymmModel.Props.C11b",
    "SymmModel.Proofs.LinalgMore4",
    "SymmModel.Proofs.LinalgMore5",
    "SymmModel.Proofs.LinalgMore6",
]
RULE = (
    "random abelian/fermionic matrices over Z2, U1, Z2Z2, U1U1, Z4(generic) with 1..6 stored blocks "
    "P.diag(d).Q (exact integer singular values, rank-deficient and rectangular blocks, values shared "
    "between blocks); for every matrix all six cutoff modes x 2 bond limits (from -1, 1..N+2) x a chain of "
    "dyadic cutoffs from 0 to beyond the total weight (robust: >=1e-6 from every boundary; tie: exactly on "
    "one) x absorb in {None,-1,0,1}, plus the no-cutoff branch for every bond limit; calc_sub_max_bonds "
    "against the model for all size tuples up to a sum bound.  A case is non-trivial when something is "
    "truncated (0 < kept < N); distinct (values, mode, cutoff, max_bond) are counted."
)
ANCHORS = {"linalg.py": ["svd_truncated", "calc_sub_max_bonds", "argsort", "svd", "svd_fermionic"]}
ASSUMPTIONS = [
    "per-block singular values arrive non-increasing and non-negative (LAPACK contract; hypothesis "
    "SortedDesc/NonNeg of the theorems); checked on every generated block",
    "float rounding inside sort/cumsum/comparisons is outside the theorems; the generated data make these "
    "operations exact, robust cutoffs stay 1e-6 away from every decision boundary",
    "int(frac*sz) in calc_sub_max_bonds is modelled as the exact floor; Python's double rounding agrees for "
    "every (max_bond, total, size) with total <= 21 and changes only single-sector bases (compensated by the "
    "remainder loop) up to total <= 24 (checked exhaustively on every run); first differing split: sizes "
    "(1,21,22), max_bond 30 and sizes (11,55), max_bond 18 (total still equals the limit)",
    "orthonormality of LAPACK's factors (error identity) is validated numerically (1e-9), not proved",
    "max_bond = 0 is outside the quantifier of the property (bond limits from 1) and is not generated",
]
TRUSTED_EXTRA = [
    "harness/props/c13.py: generators of exactly-known spectra and the Fractions re-implementation of the clauses"
]

MODES = (1, 2, 3, 4, 5, 6)
TOL = 1e-9

# ------------------------------------------------------------------------------ generation


def _signed_perm(rng, n):
    p = list(range(n))
    rng.shuffle(p)
    m = [[0] * n for _ in range(n)]
    for i, j in enumerate(p):
        m[i][j] = rng.choice((-1, 1))
    return np.array(m, dtype="float64").reshape(n, n)


def _block(rng, m, n, d):
    k = min(m, n)
    dm = np.zeros((m, n))
    for i in range(k):
        dm[i, i] = d[i]
    b = _signed_perm(rng, m) @ dm @ _signed_perm(rng, n)
    return [[int(v) for v in row] for row in b]


def gen_matrix_spec(rng):
    """JSON-able description of a matrix: everything needed to rebuild it exactly."""
    sym = rng.choice(gen.SYMS)
    fermi = rng.random() < 0.5
    static = sym != "Z4" and rng.random() < 0.7
    pool = gen.charge_pool(sym)
    duals = [rng.random() < 0.5, rng.random() < 0.5]
    charge = rng.choice(pool)
    # a matrix sector (c0, c1) is valid iff sign(c0) + sign(c1) = charge: build the column charges
    # from the row charges so that several blocks exist, then add unpaired charges on both sides
    k = rng.choice((1, 2, 2, 3, 3, 4, 5, 6))
    c0s = rng.sample(pool, min(k, len(pool)))
    cms = [{}, {}]
    for c0 in c0s:
        c1 = gen.py_sign(sym, gen.py_combine(sym, [charge, gen.py_neg(sym, gen.py_sign(sym, c0, duals[0]))]), duals[1])
        cms[0][c0] = rng.randint(1, 4)
        cms[1][c1] = rng.randint(1, 4)
    for ax in range(2):
        for c in rng.sample(pool, rng.randint(0, 2)):
            cms[ax].setdefault(c, rng.randint(1, 3))
    secs = [
        s
        for s in itertools.product(*[sorted(cm) for cm in cms])
        if gen.py_sector_charge(sym, s, duals) == charge
    ]
    kept = [s for s in secs if rng.random() < 0.85] or [rng.choice(secs)]
    rng.shuffle(kept)  # dict order of x.blocks is not the sorted order
    vpool = rng.sample(range(1, 9), rng.randint(1, 4))  # few distinct values -> ties across blocks
    blocks = []
    for s in kept:
        m, n = cms[0][s[0]], cms[1][s[1]]
        k = min(m, n)
        d = [0 if rng.random() < 0.12 else rng.choice(vpool) for _ in range(k)]
        if rng.random() < 0.3:
            d = [rng.randint(0, 9) for _ in range(k)]
        blocks.append(dict(sector=[enc_charge(c) for c in s], data=_block(rng, m, n, d), d=sorted(d, reverse=True)))
    return dict(
        sym=sym, fermi=fermi, static=static, duals=duals, charge=enc_charge(charge),
        cms=[[[enc_charge(c), sz] for c, sz in sorted(cm.items())] for cm in cms],
        blocks=blocks, label=rng.randint(1, 30), pending=fermi and rng.random() < 0.3,
        pending_seed=rng.randint(0, 10**6),
    )


def _dec_charge(c, sym):
    return (int(c[0]), int(c[1])) if sym in ("Z2Z2", "U1U1") else int(c[0])


def build_matrix(spec):
    import symmray as sr

    sym = spec["sym"]
    idx = tuple(
        sr.BlockIndex({_dec_charge(c, sym): sz for c, sz in cm}, dual=d)
        for cm, d in zip(spec["cms"], spec["duals"])
    )
    blocks = {
        tuple(_dec_charge(c, sym) for c in b["sector"]): np.array(b["data"], dtype="float64").reshape(
            tuple(ix.chargemap[_dec_charge(c, sym)] for ix, c in zip(idx, b["sector"]))
        )
        for b in spec["blocks"]
    }
    charge = _dec_charge(spec["charge"], sym)
    cls, kw = gen.array_class(sym, spec["fermi"], spec["static"])
    if spec["fermi"] and gen.py_parity(sym, charge):
        kw["oddpos"] = spec["label"]
    x = cls(indices=idx, charge=charge, blocks=blocks, **kw)
    if spec["pending"]:
        gen.add_pending(random.Random(spec["pending_seed"]), x)
    return x


# ------------------------------------------------------------------------------ exact oracles


def spec_counts(secvals, cutoff, mode, mb):
    """The property's clause, written from the descending-order point of view (Fractions):
    kept = values >= max(rule threshold, bond threshold).  `secvals`: list of descending lists."""
    allv = sorted((v for vs in secvals for v in vs), reverse=True)
    n = len(allv)
    if mode == 1:
        thr = cutoff
    elif mode == 2:
        thr = cutoff * allv[0]
    else:
        p = 2 if mode in (3, 4) else 1
        w = [v**p for v in allv]
        budget = cutoff * sum(w) if mode in (4, 6) else cutoff
        acc, m = Fraction(0), 0
        for x in reversed(w):  # discard the longest tail whose weight stays below the budget
            if acc + x < budget:
                acc += x
                m += 1
            else:
                break
        thr = allv[max(n - m, 1) - 1]  # at least the largest value stays
    if 0 < mb < n:
        thr = max(thr, allv[mb - 1])
    return [sum(1 for v in vs if v >= thr) for vs in secvals], thr


def boundaries(allv_desc, mode):
    """cutoff values at which the decision of `mode` changes (Fractions)"""
    asc = sorted(allv_desc)
    if mode == 1:
        return sorted(set(Fraction(v) for v in asc))
    if mode == 2:
        top = asc[-1]
        return sorted(set(Fraction(v, top) for v in asc)) if top else []
    p = 2 if mode in (3, 4) else 1
    cum, acc = [], 0
    for v in asc:
        acc += v**p
        cum.append(acc)
    if mode in (4, 6):
        return sorted(set(Fraction(c, acc) for c in cum)) if acc else []
    return sorted(set(Fraction(c) for c in cum))


def _is_dyadic(fr, maxbits=20):
    d = fr.denominator
    return d & (d - 1) == 0 and d <= (1 << maxbits) and abs(fr.numerator) < (1 << 30)


def cutoff_chain(rng, allv_desc, mode, nrobust, nties):
    """ascending list of (cutoff as Fraction, stream) — dyadic, positive"""
    bnd = boundaries(allv_desc, mode)
    hi = (bnd[-1] if bnd else Fraction(1)) * Fraction(5, 4) + Fraction(1, 4)
    out = {}
    tries = 0
    while len([1 for s in out.values() if s == "robust"]) < nrobust and tries < 200:
        tries += 1
        q = rng.choice((2, 3, 4, 6, 10))
        c = Fraction(rng.randint(1, max(1, int(hi * (1 << q)))), 1 << q)
        scale = max(Fraction(1), bnd[-1] if bnd else Fraction(1))
        if all(abs(c - b) >= Fraction(1, 10**6) * scale for b in bnd):
            out[c] = "robust"
    # beyond the total weight / beyond 1 / beyond the largest value
    c = hi + Fraction(rng.randint(0, 8), 4)
    if all(c != b for b in bnd):
        out.setdefault(c, "robust")
    ties = [b for b in bnd if b > 0 and _is_dyadic(b)]
    rng.shuffle(ties)
    for b in ties[:nties]:
        out[b] = "tie"
    return sorted(out.items())


def py_split(sizes, mb):
    """exact proportional split (Fractions-free integer arithmetic)"""
    if mb < 0:
        return list(sizes)
    tot = sum(sizes)
    if mb >= tot:
        return list(sizes)
    base = [mb * sz // tot for sz in sizes]
    rem = mb - sum(base)
    for i in sorted(range(len(base)), key=lambda i: (base[i], i))[:rem]:
        base[i] += 1
    return base


# ------------------------------------------------------------------------------ real code


def _signed_blocks(x):
    """value view: blocks with pending fermionic signs multiplied in"""
    if hasattr(x, "phase_sync"):
        x = x.phase_sync()
    return {s: np.asarray(b) for s, b in x.blocks.items()}


def _blocks_close(a, b, tol=TOL):
    for s in set(a) | set(b):
        za = a.get(s)
        zb = b.get(s)
        if za is None:
            za = np.zeros_like(zb)
        if zb is None:
            zb = np.zeros_like(za)
        if za.shape != zb.shape or not np.all(np.abs(za - zb) <= tol):
            return False
    return True


def observe_call(x, sym, order, cutoff, mode, mb, absorb_list):
    """Run the real svd_truncated for every absorb option on copies of `x`.
    Returns (obs, problems): obs = canonical observation of the absorb=None call."""
    import symmray as sr

    problems = []
    kw = dict(cutoff=float(cutoff), cutoff_mode=mode, max_bond=mb)
    u, s, vh = sr.linalg.svd_truncated(x.copy(), absorb=None, **kw)
    cm_u = [[enc_charge(c), n] for c, n in u.indices[1].chargemap.items()]
    cm_v = [[enc_charge(c), n] for c, n in vh.indices[0].chargemap.items()]
    counts, kept = [], []
    for c1 in order:
        blk = s.blocks.get(c1)
        if blk is None:
            counts.append(0)
            kept.append([])
        else:
            counts.append(int(np.size(blk)))
            kept.append([float(v) for v in np.asarray(blk)])
    # truncated factors valid: bond table == block shapes on both factors, tables sorted, ints
    cmd = dict(u.indices[1].chargemap)
    valid = cm_u == cm_v and list(cmd) == sorted(cmd)
    valid &= all(isinstance(n, int) and not isinstance(n, bool) and n > 0 for n in cmd.values())
    valid &= u.indices[1].dual == x.indices[1].dual and vh.indices[0].dual == (not x.indices[1].dual)
    seen = set()
    for (c0, c1), b in u.blocks.items():
        seen.add(c1)
        valid &= tuple(b.shape) == (x.indices[0].chargemap[c0], cmd.get(c1, -1))
        vb = vh.blocks.get((c1, c1))
        valid &= vb is not None and tuple(vb.shape) == (cmd.get(c1, -1), x.indices[1].chargemap[c1])
        valid &= c1 in s.blocks and np.size(s.blocks[c1]) == cmd.get(c1, -1)
    valid &= seen == set(cmd) and set(k[0] for k in vh.blocks) == seen and set(s.blocks) == seen
    try:
        u.check()
        vh.check()
    except Exception as e:  # noqa
        valid = False
        problems.append(f"check() raised {type(e).__name__}: {e}")
    if not valid:
        problems.append("truncated factors invalid: bond chargemap does not match the blocks")
    shapes = sorted(
        [[enc_charge(c) for c in sec], list(b.shape), list(vh.blocks[(sec[1], sec[1])].shape)]
        for sec, b in u.blocks.items()
        if (sec[1], sec[1]) in vh.blocks
    )
    obs = dict(counts=counts, cm=cm_u, kept=kept, shapes=shapes)

    # reconstruction and absorb variants
    prods = {}
    if u.blocks:
        us = sr.multiply_diagonal(u, s, 1)
        prods[None] = _signed_blocks(sr.tensordot(us, vh, 1, mode="blockwise"))
        for ab in absorb_list:
            ua, sa, va = sr.linalg.svd_truncated(x.copy(), absorb=ab, **kw)
            if sa is not None:
                problems.append(f"absorb={ab} returned singular values")
            prods[ab] = _signed_blocks(sr.tensordot(ua, va, 1, mode="blockwise"))
            if [[enc_charge(c), n] for c, n in ua.indices[1].chargemap.items()] != cm_u:
                problems.append(f"absorb={ab} gives a different bond table than absorb=None")
        ref = prods[None]
        for ab in absorb_list:
            if not _blocks_close(ref, prods[ab]):
                problems.append(f"absorb={ab} product differs from U.diag(s).VH")
        xb = _signed_blocks(x)
        err2 = 0.0
        for sec in set(xb) | set(ref):
            a = xb.get(sec)
            b = ref.get(sec)
            dlt = (a if b is None else (a - b)) if a is not None else -b
            err2 += float(np.sum(np.abs(dlt) ** 2))
        obs["err2"] = err2
    else:
        obs["err2"] = float(sum(np.sum(np.abs(b) ** 2) for b in _signed_blocks(x).values()))
    return obs, problems


def work(seed, chunk, nmat, tier):
    """worker: generate `nmat` matrices, run all calls, return protocol cases + observations +
    direct-oracle failures"""
    import symmray as sr

    rng = random.Random(seed * 1_000_003 + chunk * 7919 + 13)
    out = dict(cases=[], viol=[], stats={}, nontrivial=[], samples=[], inexact=0, evals=0)

    def stat(k, n=1):
        out["stats"][k] = out["stats"].get(k, 0) + n

    nrob, nties = (2, 2) if tier == "quick" else (3, 3)
    for imat in range(nmat):
        spec = gen_matrix_spec(rng)
        x = build_matrix(spec)
        sym = spec["sym"]
        # read back LAPACK: exact integers, descending, non-negative
        want = {tuple(_dec_charge(c, sym) for c in b["sector"])[1]: b["d"] for b in spec["blocks"]}
        try:
            _, s0, _ = sr.linalg.svd(x.copy())
            order = list(s0.blocks)  # dict order of the sectors, as svd_truncated zips them
            if set(order) != set(want):
                raise KeyError(f"singular values keyed by {order}, expected the column charges {list(want)}")
            exact = all(
                [float(v) for v in np.asarray(s0.blocks[c])] == [float(v) for v in want[c]] for c in order
            ) and len(order) == len(want)
        except Exception as e:  # noqa
            out["viol"].append(dict(what=f"svd of a valid matrix failed or is mis-keyed: {type(e).__name__}: {e}",
                                    case=dict(matrix=spec), triggers=[], detail=None))
            continue
        if not exact:
            out["inexact"] += 1
            continue
        secvals = [[Fraction(v) for v in want[c]] for c in order]
        allv = sorted((v for vs in secvals for v in vs), reverse=True)
        ntot = len(allv)
        stat(f"sym={sym}")
        stat("fermionic" if spec["fermi"] else "abelian")
        stat(f"blocks={len(order)}")
        stat("rank_deficient_block", int(any(0 in b["d"] for b in spec["blocks"])))
        stat("rectangular_block", int(any(len(b["data"]) != len(b["data"][0]) for b in spec["blocks"])))
        stat("pending_signs", int(spec["pending"]))
        s_json = [[enc_charge(c), [int(v) for v in want[c]]] for c in order]
        mbs_all = [-1] + list(range(1, ntot + 3))

        def run_one(cutoff, mode, mb, stream, absorbs):
            case = dict(matrix=spec, cutoff=[cutoff.numerator, cutoff.denominator], mode=mode, max_bond=mb,
                        stream=stream, s=s_json)
            try:
                obs, problems = observe_call(x, sym, order, cutoff, mode, mb, absorbs)
            except Exception as e:  # noqa
                out["viol"].append(dict(what=f"svd_truncated raised {type(e).__name__}: {e}", case=case,
                                        triggers=[], detail=None))
                return None
            out["evals"] += 1
            counts = obs["counts"]
            kept_total = sum(counts)
            triggers = set()
            if 0 < mb < ntot and allv[mb - 1] == allv[mb]:
                triggers.add("tie_at_bond_limit")
            # ---- direct oracles (exact)
            bad = list(problems)
            kept_int = []
            for vs, kv, n in zip(secvals, obs["kept"], counts):
                r = [round(v) for v in kv]
                if any(abs(v - q) > TOL for v, q in zip(kv, r)):
                    bad.append("kept singular values are not the exact integers")
                kept_int.append(r)
                if r != [int(v) for v in vs[:n]]:
                    bad.append("kept values of a sector are not its largest ones")
            keptv = [v for vs, n in zip(secvals, counts) for v in vs[:n]]
            dropv = [v for vs, n in zip(secvals, counts) for v in vs[n:]]
            if cutoff > 0 and keptv and dropv and min(keptv) < max(dropv):
                bad.append("a discarded value is larger than a kept one")
            disc2 = float(sum(v * v for v in dropv))
            if abs(obs["err2"] - disc2) > TOL * max(1.0, disc2):
                bad.append(f"squared reconstruction error {obs['err2']} != discarded weight {disc2}")
            if cutoff > 0:
                want_counts, thr = spec_counts(secvals, cutoff, mode, mb)
                if counts != want_counts:
                    bad.append(f"kept counts {counts} != rule/limit prescription {want_counts}")
            else:
                if mb >= 0 and kept_total != min(mb, ntot):
                    bad.append(f"no cutoff: bond dimension {kept_total} != limit {min(mb, ntot)}")
                if mb < 0 and kept_total != ntot:
                    bad.append("no cutoff, no limit: something was truncated")
                if any(n > len(vs) for n, vs in zip(counts, secvals)):
                    bad.append("no cutoff: a sector keeps more than it has")
            for b in bad:  # never carries the known-finding trigger: only the clause below can be suppressed
                out["viol"].append(dict(what=b, case=case, triggers=[], detail=obs))
            # bond limit taken literally (known finding when there is a tie at the limit)
            if cutoff > 0 and mb > 0 and kept_total > mb:
                out["viol"].append(dict(what=f"bond dimension {kept_total} exceeds max_bond {mb}", case=case,
                                        triggers=sorted(triggers), detail=obs, bondlimit=True))
            obs["kept"] = kept_int
            out["cases"].append(dict(case=case, obs=obs, direct_bad=bool(bad)))
            stat(f"stream={stream}")
            stat(f"mode={mode}" if cutoff > 0 else "mode=nocutoff")
            stat("whole_charge_removed", int(any(n == 0 for n in counts)))
            stat("limit_binding", int(0 < mb < ntot))
            stat("tie_at_bond_limit", int(bool(triggers)))
            if 0 < kept_total < ntot:
                out["nontrivial"].append((tuple(map(tuple, (map(int, vs) for vs in secvals))), mode,
                                          str(cutoff), mb))
            if len(out["samples"]) < 1 and 0 < kept_total < ntot:
                out["samples"].append(dict(sym=sym, fermi=spec["fermi"], s=s_json, cutoff=str(cutoff), mode=mode,
                                           max_bond=mb, counts=counts))
            return counts

        all_abs = [-1, 0, 1]
        for mode in MODES:
            chain = cutoff_chain(rng, allv, mode, nrob, nties)
            for mb in rng.sample(mbs_all, min(2, len(mbs_all))):
                prev = None
                for cutoff, stream in chain:
                    absorbs = all_abs if rng.random() < 0.5 else [rng.choice(all_abs)]
                    counts = run_one(cutoff, mode, mb, stream, absorbs)
                    if counts is None:
                        continue
                    # keeping more is never the result of asking for a larger cutoff
                    if prev is not None and any(b > a for a, b in zip(prev[1], counts)):
                        out["viol"].append(dict(
                            what=f"larger cutoff keeps more: {prev[0]} -> {prev[1]}, {cutoff} -> {counts}",
                            case=dict(matrix=spec, mode=mode, max_bond=mb, s=s_json,
                                      cutoffs=[str(prev[0]), str(cutoff)]),
                            triggers=[], detail=None))
                    prev = (cutoff, counts)
        # no-cutoff branch: every bond limit (and cutoff = 0.0 / negative are the same branch)
        for mb in mbs_all:
            run_one(Fraction(rng.choice((0, -1))), rng.choice(MODES), mb, "nocutoff", [rng.choice(all_abs)])
    return out


# ------------------------------------------------------------------------------ split


def compositions(total):
    """all ordered tuples of positive ints with the given sum"""
    if total == 0:
        yield ()
        return
    for first in range(1, total + 1):
        for rest in compositions(total - first):
            yield (first,) + rest


def partitions(total, maxpart=None):
    maxpart = maxpart or total
    if total == 0:
        yield ()
        return
    for first in range(min(total, maxpart), 0, -1):
        for rest in partitions(total - first, first):
            yield (first,) + rest


def split_cases(rng, tier):
    bound = 10 if tier == "quick" else 15
    tuples = [c for t in range(1, bound + 1) for c in compositions(t)]
    extra = []
    for t in range(bound + 1, 25):
        for p in partitions(t):
            extra.append(p)
            extra.append(p[::-1])
            q = list(p)
            rng.shuffle(q)
            extra.append(tuple(q))
    if tier == "quick":
        extra = rng.sample(extra, 1500)
    tuples += extra
    # the tuples on which Python's float base differs from the exact floor are always included
    for mb, tot, sz in float_floor_differences(24):
        tuples.append((sz,) if sz == tot else (sz, tot - sz))
        tuples.append((sz,) if sz == tot else (tot - sz, sz))
    cases = []
    for sizes in tuples:
        tot = sum(sizes)
        mbs = range(-1, tot + 2) if (tier != "quick" or tot <= 8 or len(sizes) == 1) else sorted(
            set(rng.sample(range(0, tot), min(tot, 4))) | {-1, tot, tot + 1})
        for mb in mbs:
            cases.append((sizes, mb))
    return cases


def float_floor_differences(maxtotal=24):
    """(max_bond, total, size) where Python's int(frac*sz) differs from the exact floor"""
    out = []
    for tot in range(1, maxtotal + 1):
        for mb in range(tot):
            frac = mb / tot
            for sz in range(1, tot + 1):
                if int(frac * sz) != mb * sz // tot:
                    out.append((mb, tot, sz))
    return out


# ------------------------------------------------------------------------------ run


def dynrange_stream(ctx):
    """cumulative cutoffs on spectra with a wide dynamic range: one (or two) values 1 next to a tail of N
    values 2^-q spread over the sectors (all exactly representable; the tail's partial sums are exact in
    floating point).  The cutoff sits half-way between two tail sums, far below eps * total weight: the
    rule still prescribes an exact number of discarded values.  Real code only (exact Fraction oracle)."""
    import symmray as sr

    rng = random.Random(ctx.seed * 977 + 1313)
    for _ in range(12 if ctx.tier == "quick" else 80):
        sym = rng.choice(["Z2", "U1"])
        q = rng.choice([27, 30, 33])
        nsec = rng.randint(2, 3)
        charges = [0, 1, 2][:nsec] if sym == "U1" else [0, 1]
        nsec = len(charges)
        sizes = [rng.randint(8, 30) for _ in charges]
        big = rng.randrange(nsec)
        cm = {c: n for c, n in zip(charges, sizes)}
        i0, i1 = sr.BlockIndex(cm, dual=False), sr.BlockIndex(cm, dual=True)
        secvals, blocks = [], {}
        for k, c in enumerate(charges):
            d = [2.0 ** -q] * sizes[k]
            if k == big:
                d[0] = 1.0
            d.sort(reverse=True)
            secvals.append([Fraction(v) for v in d])
            blocks[(c, c)] = _signed_perm(rng, sizes[k]) @ np.diag(d) @ _signed_perm(rng, sizes[k])
        cls, kw = gen.array_class(sym, False, True)
        x = cls(indices=(i0, i1), charge=0, blocks=blocks, **kw)
        ntail = sum(sizes) - 1
        for mode in (3, 4, 5, 6):
            pw = 2 if mode in (3, 4) else 1
            w = Fraction(1, 2 ** (q * pw))
            m = rng.randint(1, ntail - 1)
            cutoff = (m + Fraction(1, 2)) * w
            ctx.evaluations += 1
            ctx.stat(f"dynrange:mode={mode}")
            case = dict(stream="dynrange", sym=sym, q=q, sizes=sizes, big_sector=big, mode=mode,
                        cutoff=[cutoff.numerator, cutoff.denominator])
            try:
                _, s_, _ = sr.linalg.svd_truncated(x.copy(), cutoff=float(cutoff), cutoff_mode=mode, max_bond=-1,
                                                   absorb=None)
                _, s0, _ = sr.linalg.svd(x.copy())
            except Exception as e:  # noqa
                ctx.violation(f"svd_truncated raised {type(e).__name__}: {e}", case, op="svd_truncated")
                return
            if any([float(v) for v in np.asarray(s0.blocks[c])] != [float(v) for v in vs]
                   for c, vs in zip(charges, secvals)):
                ctx.stat("dynrange:lapack_inexact_skipped")
                continue
            counts = [int(np.size(s_.blocks[c])) if c in s_.blocks else 0 for c in charges]
            want, _thr = spec_counts(secvals, cutoff, mode, -1)
            if sum(counts) != sum(want) or counts[big] < 1:
                ctx.violation(f"cumulative cutoff (mode {mode}) far below eps*total: keeps {sum(counts)} values, the rule "
                              f"prescribes {sum(want)} (discard the longest tail whose weight stays below the cutoff; "
                              f"tail of {ntail} values 2^-{q})", case, op="svd_truncated",
                              detail=dict(counts=counts, prescribed=want))
                return


def invalid_mode_stream(ctx):
    """a cutoff rule that does not exist is rejected, never silently replaced by another rule"""
    import symmray as sr

    rng = random.Random(ctx.seed * 31 + 13)
    spec = gen_matrix_spec(rng)
    x = build_matrix(spec)
    ref = {}
    for mode in MODES:
        try:
            _, s_, _ = sr.linalg.svd_truncated(x.copy(), cutoff=0.3, cutoff_mode=mode, absorb=None)
            ref[mode] = sorted((repr(c), int(np.size(b))) for c, b in s_.blocks.items())
        except Exception as e:  # noqa
            ctx.violation(f"svd_truncated(cutoff_mode={mode}) raised {type(e).__name__}: {e}", dict(matrix=spec, mode=mode),
                          op="svd_truncated")
            return
    for bad in (0, 7, -1, "no-such-rule", None, 2.5):
        ctx.evaluations += 1
        ctx.stat("invalid_cutoff_mode")
        try:
            _, s_, _ = sr.linalg.svd_truncated(x.copy(), cutoff=0.3, cutoff_mode=bad, absorb=None)
        except Exception:  # noqa
            continue
        got = sorted((repr(c), int(np.size(b))) for c, b in s_.blocks.items())
        ctx.violation(f"svd_truncated accepted the non-existent cutoff_mode={bad!r} and truncated by some other rule "
                      f"(kept {sum(n for _, n in got)} values; the six rules keep "
                      f"{[sum(n for _, n in ref[m]) for m in MODES]})", dict(matrix=spec, cutoff=0.3, mode=repr(bad)),
                      op="svd_truncated")
        return


def run(ctx):
    from .. import tie

    # translation tie: Lean definitions regenerated from /repo's source + equality theorems with the model
    ctx.tie = tie.run_tie(ctx, tie.FUNCTIONS["C13"])
    import symmray as sr  # noqa
    from symmray.linalg import calc_sub_max_bonds

    dynrange_stream(ctx)
    invalid_mode_stream(ctx)

    quick = ctx.tier == "quick"
    nchunks = 16
    nmat = 60 if quick else 700
    res = ctx.pmap("harness.props.c13", "work", [(ctx.seed, k, nmat, ctx.tier) for k in range(nchunks)])
    reqs, recs = [], []
    for r in res:
        for k, v in r["stats"].items():
            ctx.stat(k, v)
        ctx.stat("matrices_inexact_skipped", r["inexact"])
        ctx.evaluations += r["evals"]
        for key in r["nontrivial"]:
            ctx.mark_nontrivial(key)
        for s in r["samples"]:
            ctx.sample(s)
        for v in r["viol"]:
            ctx.violation(v["what"], v["case"], triggers=v["triggers"], detail=v["detail"], op="svd_truncated")
        for rec in r["cases"]:
            c = rec["case"]
            reqs.append(dict(id=len(reqs), kind="truncCounts", s=c["s"], cutoff=c["cutoff"], mode=c["mode"],
                             max_bond=c["max_bond"]))
            recs.append(rec)

    # ---- calc_sub_max_bonds: exhaustive small scope, real code vs exact Python vs Lean
    sc = split_cases(ctx.rng, ctx.tier)
    sreqs = [dict(id=len(reqs) + i, kind="subMaxBonds", sizes=list(sz), max_bond=mb) for i, (sz, mb) in enumerate(sc)]
    real_split = []
    for sizes, mb in sc:
        real = list(calc_sub_max_bonds(tuple(sizes), mb))
        real_split.append(real)
        ctx.evaluations += 1
        tot = sum(sizes)
        if 0 <= mb < tot:
            ctx.mark_nontrivial(("split", sizes, mb))
            if sum(real) != mb:
                ctx.violation(f"calc_sub_max_bonds{(sizes, mb)} = {real}: total != max_bond", dict(sizes=sizes, max_bond=mb),
                              op="calc_sub_max_bonds")
        elif real != list(sizes):
            ctx.violation(f"calc_sub_max_bonds{(sizes, mb)} = {real}: not all kept", dict(sizes=sizes, max_bond=mb),
                          op="calc_sub_max_bonds")
        if any(a > b for a, b in zip(real, sizes)) or len(real) != len(sizes):
            ctx.violation(f"calc_sub_max_bonds{(sizes, mb)} = {real}: a sector gets more than its size",
                          dict(sizes=sizes, max_bond=mb), op="calc_sub_max_bonds")
    ctx.stat("split_cases", len(sc))
    fd = float_floor_differences(24)
    ctx.stat("float_floor_differences_total_le_24", len(fd))
    ctx.notes.append(f"int(frac*sz) != exact floor for (max_bond,total,size) in {fd} (total <= 24); "
                     "final split identical to the exact model on every checked tuple unless reported")
    ctx.exhaustive = True

    ans = ctx.model(reqs + sreqs)
    if ans is None:
        ctx.notes.append("Lean driver unavailable: direct oracles only")
        return
    # ---- correspondence: svd_truncated
    for q, rec in zip(reqs, recs):
        a = ans[q["id"]]
        if "bad" in a:
            raise RuntimeError(f"driver rejected a case: {a}")
        obs = rec["obs"]
        if "raise" in a:
            ctx.disagreements_checked += 1
            ctx.correspondence_broken("C13 svd_truncated vs keepCounts", dict(case=rec["case"], model=a, impl=obs))
            continue
        model = dict(counts=a["counts"], cm=a["cm"],
                     kept=[[v if isinstance(v, int) else None for v in l] for l in a["kept"]])
        impl = dict(counts=obs["counts"], cm=obs["cm"], kept=obs["kept"])
        # block shapes implied by the model's counts
        if model != impl:
            ctx.disagreements_checked += 1
            if not rec["direct_bad"]:
                ctx.correspondence_broken("C13 svd_truncated vs keepCounts",
                                          dict(case=rec["case"], model=model, impl=impl))
            continue
        cmd = {tuple(c): n for c, n in a["cm"]}
        for sec, ush, vsh in obs["shapes"]:
            if ush[1] != cmd.get(tuple(sec[1])) or vsh[0] != cmd.get(tuple(sec[1])):
                ctx.disagreements_checked += 1
                ctx.correspondence_broken("C13 block shapes vs model bond table", dict(case=rec["case"], impl=obs))
                break
    # ---- correspondence: calc_sub_max_bonds
    for q, (sizes, mb), real in zip(sreqs, sc, real_split):
        a = ans[q["id"]]
        if "bad" in a:
            raise RuntimeError(f"driver rejected a case: {a}")
        if "raise" in a or a["counts"] != real:
            ctx.disagreements_checked += 1
            exact = py_split(sizes, mb)
            if exact == a.get("counts") and sum(real) == (mb if 0 <= mb < sum(sizes) else sum(sizes)):
                # float rounding of int(frac*sz): property still holds, model is the exact floor
                ctx.stat("split_float_rounding_differs")
                ctx.notes.append(f"float split differs from exact: sizes={sizes} max_bond={mb} real={real} exact={exact}")
                if sum(sizes) <= 24:
                    ctx.correspondence_broken("C13 calc_sub_max_bonds exact-floor assumption (sum<=24)",
                                              dict(sizes=sizes, max_bond=mb, real=real, model=a))
            else:
                ctx.correspondence_broken("C13 calc_sub_max_bonds vs calcSubMaxBonds",
                                          dict(sizes=sizes, max_bond=mb, real=real, model=a))


def replay(ctx, payload):
    """re-run one recorded case against the current tree and print the observations"""
    import json

    case = payload.get("case", {})
    if "matrix" not in case:
        print(json.dumps(payload, indent=1, default=str)[:2000])
        return 0
    import symmray as sr

    x = build_matrix(case["matrix"])
    sym = case["matrix"]["sym"]
    order = list(sr.linalg.svd(x.copy())[1].blocks)
    want = {_dec_charge(b["sector"][1], sym): b["d"] for b in case["matrix"]["blocks"]}
    secvals = [[Fraction(v) for v in want[c]] for c in order]
    cutoffs = [Fraction(*case["cutoff"])] if "cutoff" in case else [Fraction(c) for c in case["cutoffs"]]
    rc = 0
    for c in cutoffs:
        obs, problems = observe_call(x, sym, order, c, case["mode"], case["max_bond"], [-1, 0, 1])
        want = spec_counts(secvals, c, case["mode"], case["max_bond"])[0] if c > 0 else None
        print(json.dumps(dict(cutoff=str(c), impl=obs["counts"], cm=obs["cm"], oracle=want, problems=problems)))
        if problems or (want is not None and want != obs["counts"]):
            rc = 1
    return rc
