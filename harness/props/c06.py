"""C06 — Contraction commutes with fusing, and all contraction strategies agree."""

import random

from .. import gen, impl, oracle, progs, ser, stream
from .c05 import same_value

ID = "C06"
LEVEL = "proof"
PROPS_MODULE = "SymmModel.Props.C06All9"
THEOREMS = [
    "SymmModel.C06.dropMisaligned_blocks_fst",
    "SymmModel.C06.dropMisaligned_blocks_snd",
    "SymmModel.C06.dropMisaligned_sectors",
    "SymmModel.C06.dropMisaligned_rest",
    "SymmModel.C06.dropMisaligned_idempotent",
    "SymmModel.C06.align_irrelevant_blocks",
    "SymmModel.C06.align_irrelevant",
    "SymmModel.C06.align_irrelevant_tensordotA",
    "SymmModel.C06.dropMisaligned_keeps_sector_length",
    "SymmModel.C06.aligned_fused_tables_match",
    "SymmModel.C06.fused_tables_match_generic",
    "SymmModel.C06.tensordotFused_obs_eq_blockwise",
    "SymmModel.C06.tensordotFused_extra_blocks_zero",
    "SymmModel.C06.tensordotFused_matrix_elem",
    "SymmModel.C06.fused_product_elem",
    "SymmModel.C06.tensordotA_modes_agree",
    "SymmModel.C06.tensordotFused_empty_alignment",
    "SymmModel.C06.tensordotA_kind_blind",
    "SymmModel.C06.tensordotA_synced_modes",
    "SymmModel.C06.tensordotF_modes_agree",
    "SymmModel.C06.tensordotF_to_blockwise",
    "SymmModel.C06.tensordotF_refines_graded_any_mode",
    "SymmModel.C06.tdotF_axes_perm_any_mode",
    "SymmModel.C06.tdotF_pretranspose_any_mode",
    "SymmModel.C06.tdotF_swap_any_mode",
    "SymmModel.C06.tensordotF_modes_agree_shapes",
    "SymmModel.C06.ownBox_of_tableBox",
    "SymmModel.C06.tensordotF_to_blockwise'",
    "SymmModel.C06.tensordotF_refines_graded_any_mode'",
    "SymmModel.C06.tdotF_axes_perm_any_mode'",
    "SymmModel.C06.tdotF_pretranspose_any_mode'",
    "SymmModel.C06.tdotF_swap_any_mode'",
    "SymmModel.C06.tensordotFused_obs_eq_blockwise_all",
    "SymmModel.C06.tensordotA_modes_agree_all",
    "SymmModel.C06.tensordotF_modes_agree_weak",
    "SymmModel.C06.tensordotF_refines_graded_any_mode_weak",
    "SymmModel.C06.tdotF_assoc_any_mode",
    "SymmModel.C06.tdotF_assoc_any_mode_distinct",
    "SymmModel.C06.tdotF_assoc_any_mode_stored",
    "SymmModel.C06.fuse_commute_aligned",
    "SymmModel.C06.tensordot_fuse_commute",
    "SymmModel.C06.tensordot_fuse_free_commute",
    "SymmModel.C06.tensordot_fuse_free_commute_fermionic",
    "SymmModel.C06.tensordot_fuse_free_commute_fermionic_any_mode",
    "SymmModel.C06.fuseF_leading_elem",
    "SymmModel.C06.signAdj_leading",
    "SymmModel.C06.chain_bracketing_any_mode",
    "SymmModel.C06.chain_bracketings_agree_any_mode",
    "SymmModel.C06.tensordot_fuse_contracted_commute",
    "SymmModel.C06.tensordot_fuse_contracted_commute_any_mode",
    "SymmModel.C06.fuse_contracted_aligned",
    "SymmModel.C06.fuse_contracted_aligned_any_mode",
    "SymmModel.C06.aligned_ctx0",
    "SymmModel.C06.fuse_group_elem",
    "SymmModel.C06.fuse_elem_any_groups",
    "SymmModel.C06.tensordot_fuse_commute_concat",
    "SymmModel.C06.tensordot_fuse_free_commute_concat",
    "SymmModel.C06.tensordot_fuse_free_commute_fermionic_concat",
    "SymmModel.C06.fuse_contracted_aligned_every_mode",
    "SymmModel.C06.tensordot_fuse_contracted_commute_both_modes",
    "SymmModel.C06.newG_def",
    "SymmModel.C06.fuseF_group_sign",
    "SymmModel.C06.fuseF_group_operand",
    "SymmModel.C06.bondSign_def",
    "SymmModel.C06.gradedSign_single_pair",
    "SymmModel.C06.fuse_signs_contraction_compatible",
    "SymmModel.C06.adjacent_consecutive",
    "SymmModel.C06.adjOk_iff",
    "SymmModel.C06.fuseF_adjacent_operand",
    "SymmModel.C06.fuseF_adjacent_sign",
    "SymmModel.C06.fuse_signs_contraction_compatible_adjacent",
    "SymmModel.C06.fuse_contracted_aligned_fermionic_adjacent",
    "SymmModel.C06.fctxG_iff",
    "SymmModel.C06.aligned_fctxG",
    "SymmModel.C06.fuse_contracted_aligned_fermionic",
    "SymmModel.C06.fuseF_mode_aligned",
    "SymmModel.C06.tensordot_fuse_contracted_commute_fermionic",
    "SymmModel.C06.tensordot_fuse_contracted_commute_fermionic_any_mode",
    "SymmModel.C06.bondPos_spec",
    "SymmModel.C06.tensordot_fuse_group_commute",
    "SymmModel.C06.tensordot_fuse_group_pre",
    "SymmModel.C06.result_group_part",
    "SymmModel.C06.shiftAxes_indices",
    "SymmModel.C06.shiftAxes_read",
    "SymmModel.C06.shiftAxes_injective",
    "SymmModel.C06.tensordot_fuse_group_pre_right",
    "SymmModel.C06.result_group_part_right",
    "SymmModel.C06.tensordot_fuse_group_commute_right",
    "SymmModel.C06.tensordotA_any_mode_tableBox",
    "SymmModel.C06.tensordot_fuse_group_commute_any_mode",
    "SymmModel.C06.tensordot_fuse_group_commute_right_any_mode",
    "SymmModel.C06.shiftAxes_strictMono",
    "SymmModel.C06.shiftAxes_sides",
    "SymmModel.C06.tensordot_fuse_group_commute_layout",
    "SymmModel.C06.tensordot_fuse_group_commute_right_layout",
    "SymmModel.C06.fuseF_leading_fields",
    "SymmModel.C06.fuseF_leading_admissible",
    "SymmModel.C06.fuseF_leading_admissible_right",
    "SymmModel.C06.tensordot_fuse_free_commute_fermionic_right",
    "SymmModel.C06.tensordot_fuse_free_commute_fermionic_two_sided",
    "SymmModel.C06.tensordot_fuse_free_commute_fermionic_two_sided_any_mode",
    "SymmModel.C06.fuseSignT_leading_result",
    "SymmModel.C06.tensordot_fuse_free_commute_fermionic_two_sided_signs"
]
LEAN_FILES = ["SymmModel.Props.C06", "SymmModel.Proofs.TdotLemmas", "SymmModel.Proofs.Accum", "SymmModel.Proofs.BlkLemmas", "SymmModel.Props.C06b", "SymmModel.Props.C06All", "SymmModel.Proofs.TdotFused1", "SymmModel.Proofs.TdotFused2", "SymmModel.Proofs.TdotFused3", "SymmModel.Proofs.TdotFused4", "SymmModel.Proofs.TdotFused5", "SymmModel.Proofs.TdotFused6", "SymmModel.Proofs.TdotFused7", "SymmModel.Proofs.TdotFused8", "SymmModel.Proofs.TdotFused9", "SymmModel.Props.C06c", "SymmModel.Props.C06All2", "SymmModel.Proofs.TdotFused10", "SymmModel.Proofs.TdotFused11", "SymmModel.Proofs.TdotFused12", "SymmModel.Proofs.TdotFused13", "SymmModel.Proofs.TdotFused14", "SymmModel.Proofs.TdotFused15", "SymmModel.Proofs.TdotFused16", "SymmModel.Proofs.TdotFused17", "SymmModel.Proofs.TdotFused18", "SymmModel.Proofs.TdotFused19", "SymmModel.Proofs.TdotFused20", "SymmModel.Proofs.TdotFused21", "SymmModel.Proofs.TdotFused22", "SymmModel.Proofs.TdotFused23", "SymmModel.Proofs.TdotFusedAll", "SymmModel.Proofs.TdotFusedW1", "SymmModel.Proofs.TdotFusedW2", "SymmModel.Proofs.TdotFusedS1", "SymmModel.Proofs.TdotFusedS2", "SymmModel.Proofs.TdotFusedS3", "SymmModel.Proofs.TdotFusedS4", "SymmModel.Props.C06d", "SymmModel.Props.C06All3", "SymmModel.Proofs.TdotFuseC1", "SymmModel.Proofs.TdotFuseC2", "SymmModel.Proofs.TdotFuseC3", "SymmModel.Proofs.TdotFuseC4", "SymmModel.Proofs.TdotFuseC5", "SymmModel.Proofs.TdotFuseC6", "SymmModel.Proofs.TdotFuseC7", "SymmModel.Proofs.TdotChain1", "SymmModel.Proofs.TdotChain2", "SymmModel.Props.C06e", "SymmModel.Props.C06All4", "SymmModel.Props.C06f", "SymmModel.Proofs.FuseCommute1", "SymmModel.Proofs.FuseCommute2", "SymmModel.Proofs.FuseCommute3", "SymmModel.Proofs.FuseCommute4", "SymmModel.Props.C06g", "SymmModel.Proofs.FuseCommuteF1", "SymmModel.Proofs.FuseCommuteF2", "SymmModel.Proofs.FuseCommuteF3", "SymmModel.Proofs.FuseCommuteF4", "SymmModel.Proofs.FuseCommuteF5", "SymmModel.Proofs.FuseCommuteF6", "SymmModel.Proofs.FuseCommuteF7", "SymmModel.Proofs.FuseCommuteF8", "SymmModel.Proofs.FuseCommuteFM", "SymmModel.Proofs.FuseCommuteG1", "SymmModel.Proofs.FuseCommuteG2", "SymmModel.Proofs.FuseCommuteG3", "SymmModel.Proofs.FuseCommuteG4", "SymmModel.Proofs.FuseCommuteG5", "SymmModel.Props.C06h", "SymmModel.Proofs.FuseCommuteH1", "SymmModel.Proofs.FuseCommuteH2", "SymmModel.Props.C06i", "SymmModel.Proofs.FuseCommuteI1", "SymmModel.Proofs.FuseCommuteI2", "SymmModel.Proofs.FuseCommuteI3", "SymmModel.Proofs.FuseCommuteI4", "SymmModel.Proofs.FuseCommuteI5", "SymmModel.Props.C06j", "SymmModel.Proofs.FuseCommuteJ1", "SymmModel.Proofs.FuseCommuteJ2", "SymmModel.Proofs.FuseCommuteJ3", "SymmModel.Proofs.FuseCommuteJ4"]
PLANNED = ["the fermionic two-sided form with the post-fused side as ONE fuse call on the plain result (proved through the exchanged result and the S5 relation, and in closed form down to the plain contraction: tensordot_fuse_free_commute_fermionic_two_sided[_any_mode])", "fermionic free-leg groups at arbitrary positions without the preliminary transposition", "fuse applied to the result of the FUSED-mode plain contraction and the layout theorems in fused/auto mode", "literal coincidence of the two results on the fused leg itself is FALSE of the model and of the code (proved example lyA/lyB): statements are at decoded addresses on that leg and literal on every other leg"]
RULE = ("random contractible pairs (abelian and fermionic, even/odd parity, all symmetries, sparse operands whose "
        "present sectors differ, operands with a pre-fused free leg); modes fused/blockwise/auto compared with each "
        "other, with the Lean model, and with the explicit route align -> fuse contracted legs on both operands -> "
        "contract the single fused pair; fusing free legs before vs after. non-trivial: >=1 contracted axis and "
        "(operands' contracted sub-sectors differ or a leg is pre-fused)")
ANCHORS = {"abelian_core.py": ["drop_misaligned_sectors", "_tensordot_via_fused", "_tensordot_blockwise",
                               "tensordot_abelian", "calc_fuse_block_info"],
           "fermionic_core.py": ["tensordot_fermionic", "fuse", "unfuse"]}
ASSUMPTIONS = []


def _mk_case(env, steps):
    return {"kind": "prog", "env": {k: ser.enc_val(v) for k, v in env.items()}, "steps": steps}


def gen_cases(seed, chunk, n, tier):
    import symmray as sr

    rng = random.Random(seed * 7919 + chunk * 104729 + 6)
    out = []
    for _ in range(n):
        sym = rng.choice(gen.SYMS)
        fermi = rng.random() < 0.5
        static = rng.random() < 0.7
        dtype = rng.choice(["float64", "complex128"])
        keep = rng.choice([0.4, 0.7, 1.0])
        shared = rng.random() < 0.25
        a, b, xa, xb = gen.rand_contractible(rng, sym, fermi=fermi, static=static, dtype=dtype, keep=keep,
                                             max_ndim=4, pending=fermi and rng.random() < 0.4,
                                             share_objects=shared)
        prefuse = rng.random() < 0.4
        env = {"a": a, "b": b}
        steps = []
        an, bn = "a", "b"
        meta = dict(sym=sym, fermi=fermi, static=static, ncon=len(xa), prefuse=prefuse, shared_index_objects=shared)
        orc = None
        # optionally pre-fuse free legs of a (and of b)
        if prefuse:
            la = [i for i in range(a.ndim) if i not in xa]
            if len(la) >= 2 and a.blocks:
                g = la[:]
                rng.shuffle(g)
                g = g[: rng.randint(2, len(g))]
                pfm = None if fermi else rng.choice(["insert", "concat"])
                steps.append({"out": ["af"], "op": "fuse", "in": ["a"],
                              "params": {"groups": [g]} if fermi else {"groups": [g], "mode": pfm}})
                # new axis positions
                pos = min(g)
                rest = [i for i in range(a.ndim) if i not in g]
                newpos = {}
                k = 0
                for i in range(a.ndim):
                    if i in g:
                        continue
                newaxes = [i for i in range(pos) if i not in g] + ["G"] + [i for i in range(pos, a.ndim) if i not in g]
                xa = [newaxes.index(i) for i in xa]
                an = "af"
        if steps:
            r0, env = impl.run_prog(env, steps)
            if "ok" not in r0[0]:
                orc = f"pre-fuse raised {r0[0].get('msg')}"
            elif not fermi:
                # both fuse strategies must hand the contraction the same pre-fused operand, and a valid one
                try:
                    g_ = tuple(steps[0]["params"]["groups"][0])
                    alt = a.fuse(g_, mode="concat" if steps[0]["params"].get("mode") == "insert" else "insert")
                    if not same_value(env["af"], alt):
                        orc = "pre-fusing free legs: insert and concat strategies give different operands"
                    elif oracle.py_valid(env["af"]):
                        orc = "pre-fused operand is not a valid array: " + str(oracle.py_valid(env["af"]))
                except Exception as e:  # noqa
                    orc = f"pre-fusing free legs with the other strategy raised {type(e).__name__}: {e}"
        else:
            r0 = []
        res = list(r0)
        st = []
        if orc is None:
            for mode in ("blockwise", "fused", "auto"):
                st.append({"out": [f"c_{mode}"], "op": "tensordot", "in": [an, bn],
                           "params": {"axes": [xa, xb], "mode": mode}})
            r1, env2 = impl.run_prog(env, st[:1])
            r2, env2 = impl.run_prog(env2, st[1:2])
            r3, env2 = impl.run_prog(env2, st[2:3])
            res += r1 + r2 + r3
            if not all("ok" in r for r in (r1[0], r2[0], r3[0])):
                orc = "a contraction mode raised: " + "; ".join(str(r[0].get("msg")) for r in (r1, r2, r3))
            else:
                cb, cf, ca = env2["c_blockwise"], env2["c_fused"], env2["c_auto"]
                if not same_value(cb, cf):
                    orc = "fused and blockwise strategies differ (rank, indices or values)"
                elif not same_value(cb, ca):
                    orc = "auto and blockwise strategies differ"
                # call history: the conjugated operands contracted afterwards (fused vs blockwise)
                if orc is None and xa:
                    try:
                        xc, yc = env2[an].conj(), env2[bn].conj()
                        cfc = sr.tensordot(xc, yc, (tuple(xa), tuple(xb)), mode="fused", preserve_array=True)
                        cbc = sr.tensordot(xc, yc, (tuple(xa), tuple(xb)), mode="blockwise", preserve_array=True)
                        if not same_value(cbc, cfc):
                            orc = ("after contracting (a, b), the fused contraction of their conjugates differs from "
                                   "the blockwise one (rank, indices or values)")
                        elif oracle.py_valid(cfc):
                            orc = "fused contraction of the conjugated operands is invalid: " + str(oracle.py_valid(cfc))
                    except Exception as e:  # noqa
                        orc = f"contraction of the conjugated operands raised {type(e).__name__}: {e}"
                # explicit route: align, fuse contracted legs, contract the fused pair
                if orc is None and len(xa) >= 2:
                    try:
                        x, y = env2[an], env2[bn]
                        x2, y2 = x.align_axes(y, (tuple(xa), tuple(xb)))
                        if x2.blocks and y2.blocks:
                            fm = {} if fermi else {"mode": rng.choice(["insert", "concat"])}
                            xf = x2.fuse(tuple(xa), **fm)
                            yf = y2.fuse(tuple(xb), **fm)
                            pa = min(xa)
                            pb = min(xb)
                            ce = sr.tensordot(xf, yf, ((pa,), (pb,)), mode="blockwise", preserve_array=True)
                            if not same_value(ce, cb):
                                orc = "contracting the fused pair differs from contracting the pairs directly"
                    except Exception as e:  # noqa
                        orc = f"explicit fuse-then-contract route raised {type(e).__name__}: {e}"
                # fusing the free legs after contraction == contracting after fusing them on `a`
                if orc is None and not prefuse:
                    la = [i for i in range(env2[an].ndim) if i not in xa]
                    if len(la) >= 2 and cb.blocks and env2[an].blocks:
                        try:
                            x = env2[an]
                            xf = x.fuse(tuple(la), **({} if fermi else {"mode": rng.choice(["insert", "concat"])}))
                            pos = min(la)
                            newaxes = [i for i in range(pos) if i not in la] + ["G"] + \
                                      [i for i in range(pos, x.ndim) if i not in la]
                            xa3 = [newaxes.index(i) for i in xa]
                            c1 = sr.tensordot(xf, env2[bn], (tuple(xa3), tuple(xb)), mode=rng.choice(["fused", "blockwise"]),
                                              preserve_array=True)
                            # fused tables may legitimately differ (the contraction drops sub-sectors
                            # without a partner), so compare the stored values after unfusing again
                            c1u = c1.unfuse(0) if c1.indices[0].subinfo is not None else c1
                            c2u = cb.fuse(tuple(range(len(la)))).unfuse(0)
                            v1 = ser.canon_array(ser.enc_array(c1u), tables=False)
                            v2 = ser.canon_array(ser.enc_array(c2u), tables=False)
                            v0 = ser.canon_array(ser.enc_array(cb), tables=False)
                            if not (v1 == v0 == v2):
                                orc = "fusing free legs before and after contraction differ"
                        except Exception as e:  # noqa
                            orc = f"fuse-free-legs route raised {type(e).__name__}: {e}"
        steps = steps + st
        ka = {tuple(s[i] for i in xa) for s in env[an].blocks} if orc is None or True else set()
        kb = {tuple(s[i] for i in xb) for s in env[bn].blocks}
        nontrivial = len(xa) >= 1 and (ka != kb or prefuse)
        out.append(dict(case=_mk_case({"a": a, "b": b}, steps), impl=stream.strip_py(res), oracle=orc, meta=meta,
                        nontrivial=bool(nontrivial), op="tensordot", triggers=[]))
    return out


def run(ctx):
    from .. import tie

    # translation tie: Lean definitions regenerated from /repo's source + equality theorems with the model
    ctx.tie = tie.run_tie(ctx, tie.FUNCTIONS["C06"])
    n = 4000 if ctx.tier == "quick" else 30000
    stream.run_stream(ctx, "modes", "harness.props.c06", "gen_cases", n, per_chunk=50,
                      canon_kw=dict(drop_zero=True))


def replay(ctx, payload):
    return stream.replay(ctx, payload, canon_kw=dict(drop_zero=True))
