"""C10 — Conjugation gives the bra: norms are positive and adjoint laws hold."""

import random

import numpy as np

from .. import gen, impl, oracle, ser, stream

ID = "C10"
LEVEL = "proof"
PROPS_MODULE = "SymmModel.Props.C10All10"
THEOREMS = [
    "SymmModel.C10.oddposDag_involutive",
    "SymmModel.C10.Index.conj_conj",
    "SymmModel.C10.Index.conjList_conjList",
    "SymmModel.C10.Index.map_conj_conj",
    "SymmModel.C10.Index.conj_dual",
    "SymmModel.C10.hyps_of_valid",
    "SymmModel.C10.conjA_conjA",
    "SymmModel.C10.conjA_conjA_needs_valid",
    "SymmModel.C10.conjF_conjF",
    "SymmModel.C10.conjF_conjF_general",
    "SymmModel.C10.conjF_conjF_elem",
    "SymmModel.C10.conjT_conjT",
    "SymmModel.C10.koszul_none_eq_reverse",
    "SymmModel.C10.dagger_eq_conj_rev",
    "SymmModel.C10.daggerF_daggerF",
    "SymmModel.C10.daggerF_daggerF_general",
    "SymmModel.C10.daggerF_daggerF_blocks",
    "SymmModel.C10.normSq_eq",
    "SymmModel.C10.normSq'_def",
    "SymmModel.C10.allAxes_eq",
    "SymmModel.C10.tensordotF_full",
    "SymmModel.C10.norm_sector_sign_left",
    "SymmModel.C10.norm_sector_sign_right",
    "SymmModel.C10.norm_abelian",
    "SymmModel.C10.norm_conj",
    "SymmModel.C10.norm_conj_swapped",
    "SymmModel.C10.norm_conj_orders_agree",
    "SymmModel.C10.norm_conj_dual_label",
    "SymmModel.C10.norm_conj_needs_dual_option",
    "SymmModel.C10.norm_conj_needs_ket_label",
    "SymmModel.C10.braOf_def",
    "SymmModel.C10.dangling_eq",
    "SymmModel.C10.oneKet_iff",
    "SymmModel.C10.ketLabels_iff",
    "SymmModel.C10.ketLabels_of_oneKet",
    "SymmModel.C10.braOf_elem",
    "SymmModel.C10.bra_pair_sign",
    "SymmModel.C10.conj_tensordot",
    "SymmModel.C10.norm_conj_labels",
    "SymmModel.C10.norm_conj_swapped_labels",
    "SymmModel.C10.resolveScan_nested",
    "SymmModel.C10.network_norm_halves_partial",
    "SymmModel.C10.network_norm_halves_any_order_partial",
    "SymmModel.C10.halves_bond_order",
    "SymmModel.C10.network_norm_routes_agree_partial",
    "SymmModel.C10.network_norm_needs_flips",
    "SymmModel.C10.netFullB_def",
    "SymmModel.C10.netFull_indices",
    "SymmModel.C10.axesTW_def",
    "SymmModel.C10.assoc_scalar",
    "SymmModel.C10.labelRoutes_net",
    "SymmModel.C10.network_norm_bracketings_partial",
    "SymmModel.C10.network_norm_tensorwise",
    "SymmModel.C10.network_norm_bracketings_comm_partial",
    "SymmModel.C10.network_norm_bracketings_swapped_partial",
    "SymmModel.C10.bracketings_def",
    "SymmModel.C10.tensorwise_pruned_witness",
    "SymmModel.C10.netLabelsB_def",
    "SymmModel.C10.netLabelsB_of_oneKet",
    "SymmModel.C10.half_weak_guard",
    "SymmModel.C10.network_norm_bracketings",
    "SymmModel.C10.bracketings6_def",
    "SymmModel.C10.network_norm_bracketings_oneKet",
    "SymmModel.C10.network_norm_bracketings_swapped",
    "SymmModel.C10.network_norm_bracketings_comm",
    "SymmModel.C10.normSq_swap",
    "SymmModel.C10.network_norm_swapped_value",
    "SymmModel.C10.half_any_mode_guard",
    "SymmModel.C10.second_call_guard",
    "SymmModel.C10.pad_elem_nil",
    "SymmModel.C10.network_norm_bracketings_any_mode",
    "SymmModel.C10.network_norm_bracketings_any_mode_oneKet",
    "SymmModel.C10.network_norm_bracketings_auto",
    "SymmModel.C10.network_norm_halves_any_mode",
    "SymmModel.C10.crossAx_def",
    "SymmModel.C10.dropUnused_rot",
    "SymmModel.C10.swap_eqv",
    "SymmModel.C10.mixed_full",
    "SymmModel.C10.network_norm_mixed",
    "SymmModel.C10.network_norm_mixed_seq",
    "SymmModel.C10.network_norm_mixed_seq_oneKet",
    "SymmModel.C10.crossAx_eq_rotAx",
    "SymmModel.C10.cross_guard",
    "SymmModel.C10.cross_call_any_mode",
    "SymmModel.C10.network_norm_mixed_any_mode",
    "SymmModel.C10.network_norm_mixed_auto",
    "SymmModel.C10.tw_cross_any_mode",
    "SymmModel.C10.network_norm_mixed_seq_any_mode",
    "SymmModel.C10.network_norm_mixed_seq_any_mode_oneKet",
    "SymmModel.C10.conj_phase_dual_is_braOf",
    "SymmModel.C10.braOf_spare_ket",
    "SymmModel.C10.conj_tensordot_spared",
    "SymmModel.C10.chain_second_guard",
    "SymmModel.C10.network_norm_chain3",
    "SymmModel.C10.network_norm_chain3_strong",
    "SymmModel.C10.chain3_needs_sparing",
    "SymmModel.C10.chain_both",
    "SymmModel.C10.full_congr",
    "SymmModel.C10.network_norm_chain3_routes",
    "SymmModel.C10.full_guard_frames",
    "SymmModel.C10.network_norm_chain3_any_mode",
    "SymmModel.C10.network_norm_chain3_auto",
    "SymmModel.C10.chain_conj",
    "SymmModel.C10.network_norm_chain",
    "SymmModel.C10.network_norm_chain_bracketings",
    "SymmModel.C10.evalLM_blockwise",
    "SymmModel.C10.chain_conj_any_mode",
    "SymmModel.C10.network_norm_chain_any_mode",
    "SymmModel.C10.scalar_congr",
    "SymmModel.C10.scalar_pre",
    "SymmModel.C10.merge_nested",
    "SymmModel.C10.labelRoutes_ketbra_piece",
    "SymmModel.C10.ketBraLabelsB_oneKet",
    "SymmModel.C10.ketBraLabels_order",
    "SymmModel.C10.network_norm_ketbra_first",
    "SymmModel.C10.network_norm_ketbra_first_oneKet",
    "SymmModel.C10.network_norm_ketbra_first_lt",
    "SymmModel.C10.ketbra_vals_order",
    "SymmModel.C10.network_norm_ketbra_hub",
    "SymmModel.C10.network_norm_ketbra_all",
    "SymmModel.C10.network_norm_ketbra_pair",
    "SymmModel.C10.network_norm_ketbra_all_oneKet",
    "SymmModel.C10.network_norm_ketbra_all_ne",
    "SymmModel.C10.network_norm_ketbra_all_any_mode",
    "SymmModel.C10.network_norm_ketbra_all_any_mode_oneKet",
    "SymmModel.C10.network_norm_ketbra_all_auto_oneKet",
    "SymmModel.C10.hubHalf_bx_listing",
    "SymmModel.C10.ketbra_all_vals",
    "SymmModel.C10.tdotF_swap_eqv_merge",
    "SymmModel.C10.merge_ket_bra_labels",
    "SymmModel.C10.network_norm_ketfirst_piece",
    "SymmModel.C10.network_norm_mirror_hub",
    "SymmModel.C10.network_norm_mirror_all",
    "SymmModel.C10.network_norm_mirror_all_oneKet",
    "SymmModel.C10.network_norm_mirror_pair",
    "SymmModel.C10.network_norm_mirror_tri_hub",
    "SymmModel.C10.network_norm_mirror_tri",
    "SymmModel.C10.network_norm_mirror_tri_oneKet",
    "SymmModel.C10.mirror_vals",
    "SymmModel.C10.mirror_tri_vals",
    "SymmModel.C10.chain3_nested_vals"
]
LEAN_FILES = ["SymmModel.Props.C10", "SymmModel.Proofs.LazyLemmas", "SymmModel.Props.C10b", "SymmModel.Proofs.NormLemmas", "SymmModel.Props.C10c", "SymmModel.Props.C10All2", "SymmModel.Proofs.NormNet1", "SymmModel.Proofs.NormNet2", "SymmModel.Proofs.NormNet3", "SymmModel.Proofs.NormNet4", "SymmModel.Proofs.NormNet5", "SymmModel.Proofs.NormNet6", "SymmModel.Proofs.NormNetLabels", "SymmModel.Props.C10d", "SymmModel.Props.C10All3", "SymmModel.Proofs.NormNet7", "SymmModel.Proofs.NormNet8", "SymmModel.Proofs.NormNet9", "SymmModel.Proofs.NormNet10", "SymmModel.Proofs.NormNet11", "SymmModel.Proofs.NormNet12", "SymmModel.Props.C10e", "SymmModel.Props.C10All4", "SymmModel.Proofs.NormNet13", "SymmModel.Proofs.NormNet14", "SymmModel.Proofs.NormNet15", "SymmModel.Proofs.NormNet16", "SymmModel.Props.C10f", "SymmModel.Props.C10All5", "SymmModel.Proofs.NormNet17", "SymmModel.Proofs.NormNet18", "SymmModel.Proofs.NormNet19", "SymmModel.Proofs.NormNet20", "SymmModel.Props.C10g", "SymmModel.Props.C10All6", "SymmModel.Proofs.NormNet21", "SymmModel.Proofs.NormNet22", "SymmModel.Proofs.NormNet23", "SymmModel.Proofs.NormNet24", "SymmModel.Props.C10h", "SymmModel.Proofs.NetNorm1", "SymmModel.Proofs.NetNorm2", "SymmModel.Proofs.NetNorm3", "SymmModel.Proofs.NetNorm4", "SymmModel.Proofs.NetNorm5", "SymmModel.Proofs.NetNorm6", "SymmModel.Proofs.NetNorm7", "SymmModel.Proofs.NetNorm8", "SymmModel.Proofs.NetNorm9", "SymmModel.Proofs.NetNorm10", "SymmModel.Proofs.NetNorm11", "SymmModel.Proofs.NetNorm12", "SymmModel.Props.C10i", "SymmModel.Proofs.NetNormK1", "SymmModel.Proofs.NetNormK2", "SymmModel.Proofs.NetNormK3", "SymmModel.Props.C10j", "SymmModel.Proofs.NetNormL1", "SymmModel.Proofs.NetNormL2", "SymmModel.Proofs.NetNormL3", "SymmModel.Proofs.NetNormL4", "SymmModel.Props.C10k", "SymmModel.Proofs.NetNormM1", "SymmModel.Proofs.NetNormM2", "SymmModel.Proofs.NetNormM3"]
PLANNED = ["nested routes that absorb the bra tensors of a three-tensor chain one at a time (values checked by kernel evaluation: chain3_nested_vals", "a general proof needs an S7 up to label lists)", "the squared-norm value for more than one label per tensor without the decidable label checks netLabelsB / ketBraLabelsB (agreement of the hub routes is check-free", "<= 4 labels proved symbolically in C04i)", "fused/auto mode for the mirror routes and for chain bracketings other than left-nested"]
RULE = ("random fermionic arrays (all symmetries, every dualness pattern, even/odd charge with labels, pending signs, "
        "real/complex): <x|x> through conj (all-ket or phase_dual) in both operand orders equals the exact integer "
        "sum |x|^2; conj/dagger involutions; dagger == transpose(conj) for both settings of phase_dual; 2-3 tensor "
        "networks conjugated tensor by tensor with bra-like dangling legs flipped, along random contraction routes. "
        "non-trivial: mixed dualness or odd parity"
        '; arrays subsuming up to three labels; conj/dagger of twice-fused arrays')
ANCHORS = {"fermionic_core.py": ["conj", "dagger", "oddpos_dag", "phase_flip", "tensordot_fermionic",
                                 "resolve_combined_oddpos"]}
ASSUMPTIONS = []


def _mk_case(env, steps):
    return {"kind": "prog", "env": {k: ser.enc_val(v) for k, v in env.items()}, "steps": steps}


def norm2(x):
    tot = 0.0
    for b in x.blocks.values():
        b = np.asarray(b, dtype="complex128")
        tot += float((b.real ** 2 + b.imag ** 2).sum())
    return tot


def scalar_of(c):
    c = c.phase_sync()
    return complex(c.blocks[()]) if c.blocks else 0.0


def _val(x):
    return ser.canon_array(ser.enc_array(x))


def gen_cases(seed, chunk, n, tier):
    import symmray as sr

    rng = random.Random(seed * 7919 + chunk * 104729 + 10)
    out = []
    for _ in range(n):
        sym = rng.choice(gen.SYMS)
        static = rng.random() < 0.7
        dtype = rng.choice(["float64", "complex128"])
        keep = rng.choice([0.5, 1.0])
        kind = rng.choice(["norm", "norm", "invol", "net"])
        pending = rng.random() < 0.5
        orc = None
        dual_label = False
        meta = dict(sym=sym, static=static, kind=kind, dtype=dtype, pending=pending)
        if kind in ("norm", "invol"):
            allket = rng.random() < 0.35
            nd = rng.randint(1, 4)
            idx = [gen.rand_index(rng, sym, dual=False if allket else None) for _ in range(nd)]
            x = gen.rand_array(rng, sym, indices=idx, fermi=True, static=static, dtype=dtype, keep=keep,
                               pending=pending, parity=rng.choice([0, 1, None]))
            env = {"x": x}
            pre = []
            if rng.random() < 0.3 and nd >= 2:
                # x carrying several labels: outer product of two odd arrays
                k = rng.randint(1, nd - 1)
                y = gen.rand_array(rng, sym, indices=idx[:k], fermi=True, static=static, dtype=dtype, keep=keep,
                                   pending=pending, parity=1, label=rng.randint(1, 9))
                z = gen.rand_array(rng, sym, indices=idx[k:], fermi=True, static=static, dtype=dtype, keep=keep,
                                   pending=pending, parity=1, label=rng.randint(10, 19))
                if y.parity and z.parity:
                    env = {"y": y, "z": z}
                    pre = [{"out": ["x"], "op": "tensordot", "in": ["y", "z"], "params": {"axes": 0}}]
                    x = sr.tensordot(y, z, 0, preserve_array=True)
                    if nd >= 3 and k >= 2 and rng.random() < 0.5:
                        # three labels (odd total): split the first factor once more
                        y1 = gen.rand_array(rng, sym, indices=idx[:1], fermi=True, static=static, dtype=dtype,
                                            keep=keep, parity=1, label=rng.randint(20, 29))
                        y2 = gen.rand_array(rng, sym, indices=idx[1:k], fermi=True, static=static, dtype=dtype,
                                            keep=keep, parity=1, label=rng.randint(30, 39))
                        if y1.parity and y2.parity and y1.blocks and y2.blocks:
                            env = {"y1": y1, "y2": y2, "z": z}
                            pre = [{"out": ["y"], "op": "tensordot", "in": ["y1", "y2"], "params": {"axes": 0}},
                                   {"out": ["x"], "op": "tensordot", "in": ["y", "z"], "params": {"axes": 0}}]
                            x = sr.tensordot(sr.tensordot(y1, y2, 0, preserve_array=True), z, 0, preserve_array=True)
            bra_type = rng.random() < 0.2 and not pre
            if bra_type:
                # a bra-type array: the conjugate of a generated one (its label, if any, is a dual one)
                x = x.conj()
                env = {"x": x}
            mixed = len({ix.dual for ix in x.indices}) > 1
            dual_label = any(o.dual for o in x.oddpos)
            meta.update(parity=int(x.parity), allket=allket, mixed=mixed, bra_type=bra_type)
            nontrivial = mixed or bool(x.parity)
            if kind == "norm":
                pd = (not allket) or rng.random() < 0.5
                if all(not ix.dual for ix in x.indices) and rng.random() < 0.5:
                    pd = False
                ax = list(range(nd))
                steps = pre + [
                    {"out": ["c"], "op": "conj", "in": ["x"], "params": {"pd": pd}},
                    {"out": ["n1"], "op": "tensordot", "in": ["c", "x"], "params": {"axes": [ax, ax], "mode": rng.choice(["fused", "blockwise"])}},
                    {"out": ["n2"], "op": "tensordot", "in": ["x", "c"], "params": {"axes": [ax, ax], "mode": rng.choice(["fused", "blockwise"])}},
                    {"out": ["d"], "op": "dagger", "in": ["x"], "params": {"pd": pd}},
                    {"out": ["n3"], "op": "tensordot", "in": ["d", "x"], "params": {"axes": [ax[::-1], ax], "mode": "blockwise"}},
                ]
                res, env2 = impl.run_prog(env, steps)
                meta.update(pd=pd)
                if not all("ok" in r for r in res):
                    orc = "norm contraction raised: " + str([r.get("msg") for r in res if "raise" in r])
                else:
                    want = norm2(x)
                    applicable = pd or all(not ix.dual for ix in x.indices)
                    for nm in ("n1", "n2", "n3"):
                        got = scalar_of(env2[nm])
                        if applicable and got != want:
                            orc = f"<x|x> via {nm} = {got}, but sum |x|^2 = {want} (phase_dual={pd}, duals={[ix.dual for ix in x.indices]}, parity={x.parity})"
                            break
                        if env2[nm].oddpos:
                            orc = f"labels {env2[nm].oddpos} remain on the norm"
                            break
                    if orc is None and scalar_of(env2["n1"]) != scalar_of(env2["n2"]):
                        orc = "<x|x> depends on the operand order"
                    if orc is None and nd == 1 and applicable:
                        # the same inner product through the `@` entry point, both operand orders
                        for nm, val in (("c @ x", env2["c"] @ x), ("x @ c", x @ env2["c"]), ("d @ x", env2["d"] @ x)):
                            got = complex(val)
                            if got != want:
                                orc = f"<x|x> via {nm} = {got}, but sum |x|^2 = {want} (phase_dual={pd}, parity={x.parity})"
                                break
                    if orc is None:
                        # the in-place adjoint / conjugate with the same options equals the out-of-place one
                        for opn, ref in (("dagger", env2["d"]), ("conj", env2["c"])):
                            z = x.copy()
                            r = getattr(z, opn)(phase_dual=pd, inplace=True)
                            if _val(z) != _val(ref) or _val(r) != _val(ref):
                                orc = f"{opn}(phase_dual={pd}, inplace=True) differs from the out-of-place result"
                                break
            else:
                pd = rng.random() < 0.5
                rev = list(range(nd))[::-1]
                steps = pre + [
                    {"out": ["c1"], "op": "conj", "in": ["x"], "params": {}},
                    {"out": ["c2"], "op": "conj", "in": ["c1"], "params": {}},
                    {"out": ["d1"], "op": "dagger", "in": ["x"], "params": {}},
                    {"out": ["d2"], "op": "dagger", "in": ["d1"], "params": {}},
                    {"out": ["dp"], "op": "dagger", "in": ["x"], "params": {"pd": pd}},
                    {"out": ["cp"], "op": "conj", "in": ["x"], "params": {"pd": pd}},
                    {"out": ["ct"], "op": "transpose", "in": ["cp"], "params": {"axes": rev}},
                ]
                res, env2 = impl.run_prog(env, steps)
                meta.update(pd=pd)
                if not all("ok" in r for r in res):
                    orc = "conj/dagger raised: " + str([r.get("msg") for r in res if "raise" in r])
                elif _val(env2["c2"]) != _val(x):
                    orc = "conj(conj(x)) != x"
                elif _val(env2["d2"]) != _val(x):
                    orc = "dagger(dagger(x)) != x"
                elif _val(env2["dp"]) != _val(env2["ct"]):
                    orc = f"dagger(phase_dual={pd}) != transpose(conj(phase_dual={pd}))"
        else:
            # network of 2-3 tensors: chain with dangling legs
            nt = rng.choice([2, 3])
            bonds = [gen.rand_index(rng, sym) for _ in range(nt - 1)]
            tens = []
            legs = []
            for t in range(nt):
                idx = []
                names = []
                if t > 0:
                    idx.append(bonds[t - 1].conj())
                    names.append(f"b{t-1}")
                for d in range(rng.randint(0 if nt == 3 else 1, 2)):
                    idx.append(gen.rand_index(rng, sym))
                    names.append(f"p{t}_{d}")
                if t < nt - 1:
                    idx.append(bonds[t])
                    names.append(f"b{t}")
                order = list(range(len(idx)))
                rng.shuffle(order)
                idx = [idx[o] for o in order]
                names = [names[o] for o in order]
                x = gen.rand_array(rng, sym, indices=idx, fermi=True, static=static, dtype=dtype, keep=keep,
                                   pending=pending, label=10 * (t + 1) + rng.randint(0, 5),
                                   parity=rng.choice([0, 1, None]))
                tens.append(x)
                legs.append(names)
            env = {f"T{t}": x for t, x in enumerate(tens)}
            steps = []
            net = {}
            if rng.random() < 0.5:
                # call history: the ket network is contracted (fused mode) BEFORE the conjugates are taken, so the
                # conjugates' index objects derive from ones the fuse machinery has already seen
                wl, wn = list(legs[0]), "T0"
                for t in range(1, nt):
                    common = [nm for nm in wl if nm in legs[t]]
                    steps.append({"out": [f"W{t}"], "op": "tensordot", "in": [wn, f"T{t}"],
                                  "params": {"axes": [[wl.index(nm) for nm in common],
                                                      [legs[t].index(nm) for nm in common]], "mode": "fused"}})
                    wl = [nm for nm in wl if nm not in common] + [nm for nm in legs[t] if nm not in common]
                    wn = f"W{t}"
                meta["ket_first_history"] = True
            for t in range(nt):
                net[f"T{t}"] = list(legs[t])
                steps.append({"out": [f"C{t}"], "op": "conj", "in": [f"T{t}"], "params": {}})
                dang = [i for i, nm in enumerate(legs[t]) if nm.startswith("p") and tens[t].indices[i].dual]
                cname = f"C{t}"
                if dang:
                    steps.append({"out": [f"F{t}"], "op": "phase_flip", "in": [cname], "params": {"axs": dang}})
                    cname = f"F{t}"
                net[cname] = [nm if nm.startswith("p") else nm + "'" for nm in legs[t]]
            # the state norm by contracting psi first (reference, exact)
            k = 0
            live = dict(net)
            while len(live) > 1:
                names = sorted(live)
                cands = [(a, b) for i, a in enumerate(names) for b in names[i + 1:] if set(live[a]) & set(live[b])]
                if not cands:
                    cands = [(a, b) for i, a in enumerate(names) for b in names[i + 1:]]
                a, b = rng.choice(cands)
                if rng.random() < 0.5:
                    a, b = b, a
                common = [nm for nm in live[a] if nm in live[b]]
                rng.shuffle(common)
                xa = [live[a].index(nm) for nm in common]
                xb = [live[b].index(nm) for nm in common]
                outn = f"R{k}"
                k += 1
                steps.append({"out": [outn], "op": "tensordot", "in": [a, b],
                              "params": {"axes": [xa, xb], "mode": rng.choice(["fused", "blockwise", "auto"])}})
                newlegs = [nm for nm in live[a] if nm not in common] + [nm for nm in live[b] if nm not in common]
                del live[a], live[b]
                live[outn] = newlegs
            final = next(iter(live))
            res, env2 = impl.run_prog(env, steps)
            meta.update(nt=nt, parities=str([int(t.parity) for t in tens]))
            nontrivial = any(t.parity for t in tens) or any(ix.dual for t in tens for ix in t.indices)
            if not all("ok" in r for r in res):
                orc = "network contraction raised: " + str([r.get("msg") for r in res if "raise" in r])
            else:
                # reference: contract psi alone and take the exact sum of squares
                psi = tens[0]
                pl = list(legs[0])
                for t in range(1, nt):
                    common = [nm for nm in pl if nm in legs[t]]
                    psi = sr.tensordot(psi, tens[t], ([pl.index(nm) for nm in common],
                                                      [legs[t].index(nm) for nm in common]),
                                       mode="blockwise", preserve_array=True)
                    pl = [nm for nm in pl if nm not in common] + [nm for nm in legs[t] if nm not in common]
                want = norm2(psi)
                got = scalar_of(env2[final])
                if got != want:
                    orc = f"<psi|psi> along this route = {got}, sum |psi|^2 = {want}"
                elif env2[final].oddpos:
                    orc = f"labels {env2[final].oddpos} remain on the network norm"
        trig = []
        if kind == "norm" and orc and orc.startswith("<x|x> via") and x.parity and dual_label:
            trig = ["odd_dual_label"]
        out.append(dict(case=_mk_case(env, steps), impl=stream.strip_py(res), oracle=orc, meta=meta,
                        nontrivial=bool(nontrivial), op=kind, triggers=trig))
    return out


def probe_known(ctx):
    """deterministic probe of the recorded finding norm-odd-dual-label (replayed on every run)"""
    import symmray as sr

    ix = sr.BlockIndex({0: 2, 1: 1})
    x = sr.Z2FermionicArray(indices=(ix, ix), charge=1, oddpos=7,
                            blocks={(0, 1): np.array([[1.], [2.]]), (1, 0): np.array([[3., -1.]])})
    y = x.conj()
    ctx.evaluations += 1
    got = scalar_of(sr.tensordot(y.conj(phase_dual=True), y, 2, preserve_array=True))
    if got != norm2(y):
        ctx.violation(f"<y|y> = {got} but sum |y|^2 = {norm2(y)} for y = conj(x), x odd",
                      dict(probe="norm-odd-dual-label", x=ser.enc_array(x)), triggers={"odd_dual_label"}, op="norm")


def depth2_cases(seed, chunk, n, tier):
    """conjugate / adjoint of arrays with twice-fused legs (fermionic): model diff + validity"""
    from .c05 import depth2_case
    rng = random.Random(seed * 7919 + chunk * 104729 + 1010)
    return [depth2_case(rng, fermi=True, with_conj=True, dagger=rng.random() < 0.5)[0] for _ in range(n)]


def run(ctx):
    probe_known(ctx)
    stream.run_stream(ctx, "depth2", "harness.props.c10", "depth2_cases", 400 if ctx.tier == "quick" else 4000,
                      per_chunk=25, canon_kw=dict(drop_zero=True))
    n = 5000 if ctx.tier == "quick" else 40000
    stream.run_stream(ctx, "bra", "harness.props.c10", "gen_cases", n, per_chunk=50,
                      canon_kw=dict(drop_zero=True))


def replay(ctx, payload):
    return stream.replay(ctx, payload, canon_kw=dict(drop_zero=True))
