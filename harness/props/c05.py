"""C05 — Fusing is an exact, invertible re-indexing described by the fused index."""

import itertools
import random

import numpy as np

from .. import gen, impl, oracle, progs, ser, stream

ID = "C05"
LEVEL = "proof"
PROPS_MODULE = "SymmModel.Props.C05All7"
THEOREMS = [
    "SymmModel.C05.calcFuseGroupInfo_perm",
    "SymmModel.C05.fuseA_eq_fuseCore",
    "SymmModel.C05.fused_charge_spec",
    "SymmModel.C05.fused_dual_spec",
    "SymmModel.C05.fused_size_spec",
    "SymmModel.C05.table_wf",
    "SymmModel.C05.extents_sorted",
    "SymmModel.C05.splitOffset_joinOffset_inverse",
    "SymmModel.C05.extentStart?_spec",
    "SymmModel.C05.splitAddr_joinAddr_inverse",
    "SymmModel.C05.splitAddr_injective",
    "SymmModel.C05.unfuse_fuse_blocks_partial",
    "SymmModel.C05.unfuseAll_fuse_blocks_partial",
    "SymmModel.C05.fuseInsert_eq_fuseConcat_partial",
    "SymmModel.C05.fuse_elem_partial",
    "SymmModel.C05.fuse_elem_onto_partial",
    "SymmModel.C05.fuseA_noexpand",
    "SymmModel.C05.groupsOkB_filter",
    "SymmModel.C05.fuse_elem",
    "SymmModel.C05.fuse_elem_onto",
    "SymmModel.C05.unfuse_elem",
    "SymmModel.C05.unfuse_fuse_blocks",
    "SymmModel.C05.unfuseGroups_two",
    "SymmModel.C05.fuseF_struct",
    "SymmModel.C05.signAdj_elem",
    "SymmModel.C05.fuseF_elem",
    "SymmModel.C05.fuseSign_formula",
    "SymmModel.C05.unfuseF_elem",
    "SymmModel.C05.unfuseSign_def",
    "SymmModel.C05.koszul_vperm_groups",
    "SymmModel.C05.fuseSign_groups",
    "SymmModel.C05.newGroups_consecutive",
    "SymmModel.C05.unfuseSign_reversal",
    "SymmModel.C05.unfuseF_fuseF",
    "SymmModel.C05.unfuse_fuse_blocks_depth2",
    "SymmModel.C05.fuse_elem_depth2",
    "SymmModel.C05.fuse_conj_comm",
    "SymmModel.C05.conj_sub_table",
    "SymmModel.C05.unfuse_conj_comm",
    "SymmModel.C05.fuse_conj_comm_depth2",
    "SymmModel.C05.unfuseAllF_eq_unfuseGroupsF",
    "SymmModel.C05.unfuseAllF_fuseF",
    "SymmModel.C05.veq_of_obsEq",
    "SymmModel.C05.unfuseF_value",
    "SymmModel.C05.unfuseF_respects_veq",
    "SymmModel.C05.fuse_cache_irrelevant",
    "SymmModel.C05.fuse_cache_irrelevant_concurrent",
    "SymmModel.C05.fuse_key_complete",
    "SymmModel.C05.unfuseF_steps_commute",
    "SymmModel.C05.unfuseA_steps_commute",
    "SymmModel.C05.unfuse_order_irrelevantF",
    "SymmModel.C05.unfuse_order_irrelevantA",
    "SymmModel.C05.unfuseGroupsF_fuseF_veq",
    "SymmModel.C05.unfuseLeftToRight_fuse",
    "SymmModel.C05.unfuseLeftToRight_fuseA",
    "SymmModel.C05.fuseConcat_multi",
    "SymmModel.C05.concat_sectors_eq_insert",
    "SymmModel.C05.nest_get",
    "SymmModel.C05.pieceShape_explicit",
    "SymmModel.C05.insert_eq_concat_blocks",
    "SymmModel.C05.fuseInsert_eq_fuseConcat_multi",
    "SymmModel.C05.fuseA_concat_eq_insert",
    "SymmModel.C05.fuseF_concat_eq_insert",
    "SymmModel.C05.fuse_elem_concat",
    "SymmModel.C05.conj_fuse_relation",
    "SymmModel.C05.conj_fuse_sign",
    "SymmModel.C05.conj_fuse_same_direction"
]
LEAN_FILES = ["SymmModel.Props.C05", "SymmModel.Proofs.FuseLemmas", "SymmModel.Proofs.FuseBase", "SymmModel.Proofs.FuseAssoc", "SymmModel.Proofs.FuseTable", "SymmModel.Proofs.FusePlan", "SymmModel.Proofs.FuseWf", "SymmModel.Proofs.FuseSpec", "SymmModel.Proofs.FuseAddr", "SymmModel.Proofs.FuseIns", "SymmModel.Proofs.FuseOne", "SymmModel.Proofs.FuseInsert", "SymmModel.Proofs.FuseSem", "SymmModel.Proofs.FuseUnfuse", "SymmModel.Proofs.FuseRound", "SymmModel.Proofs.FuseAll", "SymmModel.Proofs.FuseElem", "SymmModel.Proofs.FuseConcat", "SymmModel.Proofs.FuseConcat2", "SymmModel.Proofs.FuseConcat3", "SymmModel.Props.C05b", "SymmModel.Props.C05c", "SymmModel.Props.C05All", "SymmModel.Proofs.FuseMultiAll", "SymmModel.Proofs.FuseMulti1", "SymmModel.Proofs.FuseMulti2", "SymmModel.Proofs.FuseMulti3", "SymmModel.Proofs.FuseMulti4", "SymmModel.Proofs.FuseMulti5", "SymmModel.Proofs.FuseMulti6", "SymmModel.Proofs.FuseMulti7", "SymmModel.Proofs.FuseMultiU", "SymmModel.Proofs.FuseMultiR1", "SymmModel.Proofs.FuseMultiR2", "SymmModel.Proofs.FuseMultiR3", "SymmModel.Proofs.FuseMultiR4", "SymmModel.Proofs.FuseMultiR5", "SymmModel.Proofs.FuseFermi1", "SymmModel.Proofs.FuseFermi2", "SymmModel.Proofs.FuseFermi3", "SymmModel.Proofs.FuseFermi4", "SymmModel.Proofs.FuseFermi5", "SymmModel.Proofs.FuseFermi6", "SymmModel.Proofs.FuseFermi7", "SymmModel.Props.C05d", "SymmModel.Props.C05All2", "SymmModel.Proofs.Fuse4Sign", "SymmModel.Proofs.Fuse4Sign2", "SymmModel.Proofs.Fuse4Round1", "SymmModel.Proofs.Fuse4Round2", "SymmModel.Proofs.Fuse4Round3", "SymmModel.Proofs.Fuse4Round4", "SymmModel.Proofs.Fuse4Round5", "SymmModel.Proofs.Fuse4Round6", "SymmModel.Proofs.Fuse5Cache", "SymmModel.Proofs.Fuse5Val", "SymmModel.Proofs.Fuse5Veq", "SymmModel.Proofs.Fuse5Conj1", "SymmModel.Proofs.Fuse5Conj2", "SymmModel.Proofs.Fuse5Conj3", "SymmModel.Proofs.Fuse5All", "SymmModel.Proofs.Fuse5All2", "SymmModel.Props.C05e", "SymmModel.Props.C05All3", "SymmModel.Proofs.Fuse6Parts", "SymmModel.Proofs.Fuse6Comm", "SymmModel.Proofs.Fuse6Sign", "SymmModel.Proofs.Fuse6Box", "SymmModel.Proofs.Fuse6Step", "SymmModel.Proofs.Fuse6Inst", "SymmModel.Proofs.Fuse6Order", "SymmModel.Proofs.Fuse6Fuse", "SymmModel.Proofs.Fuse6Fuse2", "SymmModel.Props.C05f", "SymmModel.Props.C05All4", "SymmModel.Proofs.Fuse7Nest", "SymmModel.Proofs.Fuse7Rec", "SymmModel.Proofs.Fuse7Shape", "SymmModel.Proofs.Fuse7Concat", "SymmModel.Props.C05g", "SymmModel.Props.C05All5", "SymmModel.Proofs.Fuse8Dec", "SymmModel.Proofs.Fuse8Link", "SymmModel.Proofs.Fuse8Region", "SymmModel.Proofs.Fuse8Eq", "SymmModel.Proofs.Fuse8Order", "SymmModel.Proofs.Fuse8ConjSign", "SymmModel.Props.C05h", "SymmModel.Props.C05All6", "SymmModel.Proofs.Fuse9Sign", "SymmModel.Proofs.Fuse9Step", "SymmModel.Proofs.Fuse9Rel", "SymmModel.Proofs.Fuse9Fold", "SymmModel.Proofs.Fuse9Main", "SymmModel.Proofs.Fuse9Cor", "SymmModel.Props.C05i", "SymmModel.Props.C05All7"]
PLANNED = []
RULE = ("random abelian and fermionic arrays (all symmetries, sparse, pending signs, odd charge), one or more "
        "disjoint ordered axis groups (single-axis, non-adjacent, permuted, empty, second-level fusing of already "
        "fused axes), strategies insert/concat; compared with the Lean model (value view + sub-index tables), and on "
        "the real code: address map read from the fused index's own table, strategies agree, unfuse_all(fuse) = "
        "transpose. non-trivial: a multi-axis group and (a missing valid sector or permuted axes)"
        '; fuse twice, conjugate, unfuse twice (abelian: equals conjugating first); twin histories incl. fuse(x) then fuse(x.conj()) compared with the cache disabled')
ANCHORS = {"abelian_core.py": ["calc_fuse_group_info", "calc_fuse_block_info", "_fuse_blocks_via_insert",
                               "_fuse_blocks_via_concat", "_fuse_core", "fuse", "unfuse", "unfuse_all"],
           "fermionic_core.py": ["fuse", "unfuse"]}
ASSUMPTIONS = ["numpy transpose/reshape/concatenate/slice-assignment are exact"]


def _mk_case(env, steps):
    return {"kind": "prog", "env": {k: ser.enc_val(v) for k, v in env.items()}, "steps": steps}


def fused_layout(groups, ndim):
    grouped = [ax for g in groups for ax in g]
    position = min(grouped)
    before = [ax for ax in range(position) if ax not in grouped]
    after = [ax for ax in range(position, ndim) if ax not in grouped]
    return position, before, after, before + grouped + after


def address_map_check(x, xf, groups):
    """Every element of abelian `x` appears exactly once in `xf`, at the position the fused
    index's own sub-index table assigns.  Returns None or a description."""
    sym = oracle.sym_of(x)
    groups = [list(g) for g in groups if len(g)]
    position, before, after, perm = fused_layout(groups, x.ndim)
    nnew = len(before) + len(groups) + len(after)
    if xf.ndim != nnew:
        return f"fused rank {xf.ndim} != {nnew}"
    seen = set()
    for new_sector, arr in xf.blocks.items():
        arr = np.asarray(arr)
        for pos in itertools.product(*[range(d) for d in arr.shape]):
            osec = [None] * x.ndim
            ooff = [None] * x.ndim
            for k, ax in enumerate(before):
                osec[ax], ooff[ax] = new_sector[k], pos[k]
            for k, ax in enumerate(after):
                kk = position + len(groups) + k
                osec[ax], ooff[ax] = new_sector[kk], pos[kk]
            for g, gaxes in enumerate(groups):
                kk = position + g
                c, o = new_sector[kk], pos[kk]
                if len(gaxes) == 1:
                    osec[gaxes[0]], ooff[gaxes[0]] = c, o
                    continue
                ix = xf.indices[kk]
                if ix.subinfo is None:
                    return f"fused axis {kk} has no sub-index info"
                ext = ix.subinfo.extents.get(c)
                if ext is None:
                    return f"fused charge {c} missing from extents"
                start = 0
                found = None
                for ss, d in ext.items():
                    if start <= o < start + d:
                        found = (ss, o - start)
                        break
                    start += d
                if found is None:
                    return f"offset {o} outside the extents of charge {c}"
                ss, inner = found
                sizes = [sub.chargemap[q] for sub, q in zip(ix.subinfo.indices, ss)]
                if int(np.prod(sizes)) != ext[ss]:
                    return f"subsector {ss} size {ext[ss]} != product of sub sizes {sizes}"
                offs = np.unravel_index(inner, sizes) if sizes else ()
                signed = [gen.py_sign(sym, q, sub.dual != ix.dual) for sub, q in zip(ix.subinfo.indices, ss)]
                if gen.py_combine(sym, signed) != c:
                    return f"subsector {ss} does not combine to fused charge {c}"
                if ix.dual != x.indices[gaxes[0]].dual:
                    return "fused direction is not that of the group's first axis"
                for ax, q, off in zip(gaxes, ss, offs):
                    osec[ax], ooff[ax] = q, int(off)
            key = (tuple(osec), tuple(ooff))
            if key in seen:
                return f"original element {key} appears twice in the fused array"
            seen.add(key)
            blk = x.blocks.get(tuple(osec))
            val = arr[pos]
            if blk is None:
                if val != 0:
                    return f"non-zero element at a position belonging to the missing sector {tuple(osec)}"
            else:
                try:
                    if np.asarray(blk)[tuple(ooff)] != val:
                        return f"element of sector {tuple(osec)} at {tuple(ooff)} relocated with a different value"
                except IndexError:
                    return f"address {key} outside the original block"
    for sector, blk in x.blocks.items():
        for off in itertools.product(*[range(d) for d in np.shape(blk)]):
            if (sector, off) not in seen and np.asarray(blk)[off] != 0:
                return f"element {sector}{off} of the original does not appear in the fused array"
    return None


def same_value(a, b):
    """exact equality of two block arrays as values (missing == zero), incl. tables"""
    ca = ser.canon_array(ser.enc_array(a))
    cb = ser.canon_array(ser.enc_array(b))
    return ca == cb


def twin_arrays(rng, dtype):
    """arrays over different symmetries sharing identical index tables, directions and stored
    sectors (charges 0/1 are valid for Z2, Z4 and U1): near-identical inputs for the fuse cache"""
    import symmray as sr

    nd = rng.randint(2, 4)
    idx = [sr.BlockIndex({c: rng.randint(1, 2) for c in rng.sample([0, 1], rng.randint(1, 2))},
                         dual=rng.random() < 0.5) for _ in range(nd)]
    out = {}
    # sectors valid under every symmetry of the family: chosen from those valid for U1 (hence Z2, Z4 with
    # the same total charge reduced) is not generally true, so each twin keeps the sectors valid for itself
    # among a common random candidate list; identical stored sectors arise whenever validity coincides.
    cands = [s for s in itertools.product(*[sorted(ix.chargemap) for ix in idx]) if rng.random() < 0.7]
    for sym in ("Z2", "U1", "Z4"):
        duals = [ix.dual for ix in idx]
        charge = gen.py_sector_charge(sym, cands[0], duals) if cands else gen.py_combine(sym, [])
        secs = [s for s in cands if gen.py_sector_charge(sym, s, duals) == charge]
        blocks = {s: gen.rand_block(rng, tuple(ix.chargemap[c] for ix, c in zip(idx, s)), dtype) for s in secs}
        cls, kw = gen.array_class(sym, False, sym != "Z4" and rng.random() < 0.5)
        out[sym] = cls(indices=idx, charge=charge, blocks=blocks, **kw)
    return out


def cache_off_fuse(x, groups, mode):
    import symmray.abelian_core as ac

    old = ac._fuseinfo_cache_maxsize
    ac._fuseinfo_cache_maxsize = 0
    try:
        return x.fuse(*groups, mode=mode)
    finally:
        ac._fuseinfo_cache_maxsize = old


def depth2_case(rng, fermi, with_conj=True, dagger=False):
    """fuse, fuse again (a group containing the already fused axis), optionally conjugate, then unfuse
    both levels.  Returns a stream item; the direct oracle: every intermediate is valid, and (abelian)
    conjugating after the two fuses equals conjugating before them."""
    sym = rng.choice(gen.SYMS)
    static = rng.random() < 0.6
    dtype = rng.choice(["float64", "complex128"])
    x = gen.rand_array(rng, sym, ndim=rng.randint(3, 4), fermi=fermi, static=static, dtype=dtype,
                       keep=rng.choice([0.5, 1.0]), pending=fermi and rng.random() < 0.4, max_charges=2, max_size=2)
    nd = x.ndim
    g1 = rng.sample(range(nd), 2)
    pos1 = min(g1)
    rest = [a for a in range(nd) if a not in g1]
    # axes of the once-fused array: before, fused (at pos1), after
    nd1 = nd - 1
    other = rng.choice([a for a in range(nd1) if a != pos1])
    g2 = [pos1, other] if rng.random() < 0.5 else [other, pos1]
    steps = [{"out": ["f1"], "op": "fuse", "in": ["x"], "params": {"groups": [g1]} if fermi else {"groups": [g1], "mode": rng.choice(["insert", "concat"])}},
             {"out": ["f2"], "op": "fuse", "in": ["f1"], "params": {"groups": [g2]} if fermi else {"groups": [g2], "mode": rng.choice(["insert", "concat"])}}]
    last = "f2"
    if with_conj:
        steps.append({"out": ["c"], "op": "dagger" if dagger else "conj", "in": ["f2"], "params": {}})
        last = "c"
    steps += [{"out": ["u1"], "op": "unfuse_all", "in": [last], "params": {}},
              {"out": ["u2"], "op": "unfuse_all", "in": ["u1"], "params": {}}]
    env = {"x": x}
    twin_hist = rng.random() < 0.6
    if twin_hist:
        # call history: an array over the SAME index objects with a different sparsity pattern goes through the same
        # two fuses first (its once-fused leg may have the same charge table but other sub-sector extents)
        try:
            secs = gen.valid_sectors(sym, x.indices, x.charge)
            keep2 = [s_ for s_ in secs if rng.random() < 0.5] or secs[:1]
            cls2, kw2 = gen.array_class(sym, fermi, static)
            if fermi and x.oddpos:
                kw2["oddpos"] = x.oddpos
            xt = cls2(indices=x.indices, charge=x.charge,
                      blocks={s_: gen.rand_block(rng, tuple(ix.chargemap[c] for ix, c in zip(x.indices, s_)), dtype)
                              for s_ in keep2}, **kw2)
            k1 = {} if fermi else {"mode": steps[0]["params"]["mode"]}
            k2 = {} if fermi else {"mode": steps[1]["params"]["mode"]}
            xt.fuse(tuple(g1), **k1).fuse(tuple(g2), **k2)
        except Exception:  # noqa
            twin_hist = False
    res, env2 = impl.run_prog(env, steps)
    orc = None
    if not all("ok" in r for r in res):
        orc = "depth-2 fuse/conj/unfuse raised: " + str([r.get("msg") for r in res if "raise" in r][:1])
    else:
        for st in steps:
            v = oracle.py_valid(env2[st["out"][0]])
            if v:
                orc = f"{st['op']} returned an invalid array after fusing twice: {v}"
                break
        if orc is None:
            # unfuse_all undoes ONE level: after the first call the axis fused first is still a fused axis
            f1, u1, u2 = env2["f1"], env2["u1"], env2["u2"]
            if u1.ndim != f1.ndim or not any(ix.subinfo is not None for ix in u1.indices):
                orc = (f"unfuse_all of a twice-fused array returned rank {u1.ndim} with "
                       f"{sum(ix.subinfo is not None for ix in u1.indices)} fused axes; expected rank {f1.ndim} with the "
                       f"first fused axis still fused")
            elif u2.ndim != x.ndim or any(ix.subinfo is not None for ix in u2.indices):
                orc = f"the second unfuse_all did not restore rank {x.ndim} with plain indices"
        if orc is None:
            # the same route with the fuse-info cache disabled (results must not depend on what was fused before)
            import symmray.abelian_core as ac
            old_ms = ac._fuseinfo_cache_maxsize
            ac._fuseinfo_cache_maxsize = 0
            try:
                k1 = {} if fermi else {"mode": steps[0]["params"]["mode"]}
                k2 = {} if fermi else {"mode": steps[1]["params"]["mode"]}
                r_ = x.fuse(tuple(g1), **k1).fuse(tuple(g2), **k2)
                if with_conj:
                    r_ = r_.dagger() if dagger else r_.conj()
                r_ = r_.unfuse_all().unfuse_all()
                if not same_value(env2["u2"], r_):
                    orc = ("fusing twice and unfusing twice with the fuse-info cache enabled"
                           + (" (after an array over the same legs with another sparsity pattern went through the same fuses)" if twin_hist else "")
                           + " differs from the result with the cache disabled")
            except Exception as e:  # noqa
                orc = f"cache-disabled reference route raised {type(e).__name__}: {e}"
            finally:
                ac._fuseinfo_cache_maxsize = old_ms
        if orc is None and not fermi and with_conj and not dagger:
            try:
                ref = x.conj().fuse(tuple(g1)).fuse(tuple(g2)).unfuse_all().unfuse_all()
                if not same_value(env2["u2"], ref):
                    orc = "conjugating a twice-fused array and unfusing both levels differs from conjugating first"
            except Exception as e:  # noqa
                orc = f"reference route raised {type(e).__name__}: {e}"
    meta = dict(sym=sym, fermi=fermi, static=static, kind="depth2", conj=with_conj, dagger=dagger)
    return dict(case=_mk_case(env, steps), impl=stream.strip_py(res), oracle=orc, meta=meta,
                nontrivial=True, op="fuse", triggers=[]), env2, steps


def conj_history_case(rng, fermi):
    """fuse x, then fuse its conjugate with the same groups (the index objects of the conjugate derive from ones
    that have been through the fuse machinery), unfuse again.  Oracle: every array valid; abelian: the second
    fuse equals the conjugate of the first."""
    sym = rng.choice(["U1", "Z4", "U1U1", "Z2", "Z2Z2"])
    static = rng.random() < 0.6
    dtype = rng.choice(["float64", "complex128"])
    x = gen.rand_array(rng, sym, ndim=rng.randint(2, 4), fermi=fermi, static=static, dtype=dtype, keep=rng.choice([0.6, 1.0]),
                       max_charges=3, max_size=2)
    g = rng.sample(range(x.ndim), rng.randint(2, x.ndim))
    p = {"groups": [g]} if fermi else {"groups": [g], "mode": rng.choice(["insert", "concat"])}
    steps = [{"out": ["f"], "op": "fuse", "in": ["x"], "params": p},
             {"out": ["xc"], "op": "conj", "in": ["x"], "params": {}},
             {"out": ["fc"], "op": "fuse", "in": ["xc"], "params": p},
             {"out": ["uc"], "op": "unfuse_all", "in": ["fc"], "params": {}}]
    env = {"x": x}
    res, env2 = impl.run_prog(env, steps)
    orc = None
    if not all("ok" in r for r in res):
        orc = "fuse / conj / fuse history raised: " + str([r.get("msg") for r in res if "raise" in r][:1])
    else:
        for st in steps:
            v = oracle.py_valid(env2[st["out"][0]])
            if v:
                orc = f"after fusing x, {st['op']} on the conjugate's side returned an invalid array: {v}"
                break
        if orc is None and not fermi and not same_value(env2["fc"], env2["f"].conj()):
            orc = "fuse(x.conj()) after fuse(x) differs from fuse(x).conj() (values or index tables)"
    meta = dict(sym=sym, fermi=fermi, static=static, kind="conj-history")
    return dict(case=_mk_case(env, steps), impl=stream.strip_py(res), oracle=orc, meta=meta,
                nontrivial=True, op="fuse", triggers=[]), env2, steps


def gen_cases(seed, chunk, n, tier):
    rng = random.Random(seed * 7919 + chunk * 104729 + 5)
    out = []
    for _ in range(max(1, n // 10)):
        out.append(depth2_case(rng, fermi=rng.random() < 0.4, with_conj=rng.random() < 0.7)[0])
        out.append(conj_history_case(rng, fermi=rng.random() < 0.4)[0])
    ntw = max(1, n // 6)
    for _ in range(ntw):
        # fuse cache on/off over near-identical arrays of different symmetry, in random order
        dtype = rng.choice(["float64", "complex128"])
        tw = twin_arrays(rng, dtype)
        nd = tw["Z2"].ndim
        groups = progs.rand_groups(rng, nd, max_groups=2)
        if not any(len(g) > 1 for g in groups):
            groups = [list(range(nd))[::-1][:2]] if nd >= 2 else groups
        mode = rng.choice(["insert", "concat"])
        order = rng.sample(sorted(tw), len(tw))
        env = {f"x_{sym}": tw[sym] for sym in tw}
        steps = [{"out": [f"f_{sym}"], "op": "fuse", "in": [f"x_{sym}"], "params": {"groups": groups, "mode": mode}}
                 for sym in order if tw[sym].blocks]
        res, env2 = impl.run_prog(env, steps)
        orc = None
        for st, r in zip(steps, res):
            if "ok" not in r:
                orc = f"fuse raised {r.get('msg')}"
                break
            x = env[st["in"][0]]
            ref = cache_off_fuse(x, [tuple(g) for g in groups], mode)
            if not same_value(env2[st["out"][0]], ref):
                orc = ("fuse with the fuse-info cache enabled differs from the result with the cache disabled "
                       f"(history: {order})")
                break
            orc = address_map_check(x, env2[st["out"][0]], groups)
            if orc:
                break
        if orc is None and tw["U1"].blocks:
            # history: an array, then its conjugate (same tables up to direction, same sectors)
            xu = tw["U1"]
            try:
                gl = [tuple(g) for g in groups]
                xu.fuse(*gl, mode=mode)
                xc = xu.conj()
                got = xc.fuse(*gl, mode=mode)
                ref = cache_off_fuse(xc, gl, mode)
                if not same_value(got, ref):
                    orc = "fuse(x.conj()) after fuse(x) differs from the result with the cache disabled"
                else:
                    orc = address_map_check(xc, got, groups)
            except Exception as e:  # noqa
                orc = f"fuse of a conjugate after its original raised {type(e).__name__}: {e}"
        same = len({tuple(tw[s].blocks) for s in tw}) < len(tw)
        out.append(dict(case=_mk_case(env, steps), impl=stream.strip_py(res), oracle=orc,
                        meta=dict(sym="twins", fermi=False, mode=mode, ngroups=len(groups), same_sectors=same),
                        nontrivial=bool(same), op="fuse", triggers=[]))
    for _ in range(n - ntw):
        sym = rng.choice(gen.SYMS)
        fermi = rng.random() < 0.45
        static = rng.random() < 0.7
        dtype = rng.choice(ser.DTYPES)
        keep = rng.choice([0.3, 0.6, 1.0])
        x = gen.rand_array(rng, sym, ndim=rng.randint(2, 4), fermi=fermi, static=static, dtype=dtype,
                           keep=keep, pending=fermi and rng.random() < 0.5, max_charges=3, max_size=2)
        groups = progs.rand_groups(rng, x.ndim, max_groups=2)
        if rng.random() < 0.1:
            groups.insert(rng.randint(0, len(groups)), [])
        mode = rng.choice(["insert", "concat"])
        steps = []
        if fermi:
            core = False  # `_fuse_core` is internal: on fermionic arrays it is only reached after a sync
            if core and all(groups):
                steps.append({"out": ["f"], "op": "fuse_core", "in": ["x"], "params": {"groups": groups, "mode": mode}})
            else:
                steps.append({"out": ["f"], "op": "fuse", "in": ["x"], "params": {"groups": groups}})
        else:
            steps.append({"out": ["f"], "op": "fuse", "in": ["x"], "params": {"groups": groups, "mode": mode}})
        second = rng.random() < 0.3
        steps.append({"out": ["u"], "op": "unfuse_all", "in": ["f"], "params": {}})
        env = {"x": x}
        res, env2 = impl.run_prog(env, steps, entry=rng.choice(["method", "function"]) if not fermi and mode == "insert" and False else "method")
        meta = dict(sym=sym, fermi=fermi, static=static, mode=mode, ngroups=len(groups), second=second,
                    multi=any(len(g) > 1 for g in groups))
        orc = None
        nonempty = [g for g in groups if g]
        if "ok" not in res[0]:
            orc = f"fuse raised {res[0].get('msg')}"
        elif "ok" not in res[1]:
            orc = f"unfuse_all raised {res[1].get('msg')}"
        else:
            f, u = env2["f"], env2["u"]
            if not fermi:
                try:
                    other = x.fuse(*[tuple(g) for g in groups], mode="concat" if mode == "insert" else "insert")
                except Exception as e:  # noqa
                    other = None
                    orc = f"the other fuse strategy raised {type(e).__name__}: {e}"
            if orc is None and all(groups) and rng.random() < 0.5:
                # the function-style and autoray entry points must do what the method does (group order included)
                import autoray as ar
                import symmray as sr
                gs_ = [tuple(g) for g in groups]
                try:
                    want_ = x.fuse(*gs_)
                    for nm_, alt_ in (("symmray.fuse", sr.fuse(x, *gs_)), ("autoray.do('fuse')", ar.do("fuse", x, *gs_))):
                        if not same_value(alt_, want_):
                            orc = f"{nm_}(x, *groups) differs from x.fuse(*groups) for groups {groups}"
                            break
                except Exception as e:  # noqa
                    orc = f"function-style fuse raised {type(e).__name__}: {e}"
            if not fermi and other is not None and orc is None:
                if not same_value(f, other):
                    orc = "insert and concat strategies give different results"
                if orc is None and all(groups):
                    orc = address_map_check(x, f, groups)
            elif steps[0]["op"] == "fuse_core":
                other = x._fuse_core(*[tuple(g) for g in groups], mode="concat" if mode == "insert" else "insert")
                if not same_value(f, other):
                    orc = "insert and concat strategies give different results"
            if orc is None and nonempty:
                # unfuse_all ∘ fuse = (fermionic) transpose
                _, _, _, perm = fused_layout(nonempty, x.ndim)
                if steps[0]["op"] == "fuse_core" and fermi:
                    from symmray.abelian_core import AbelianArray
                    xt = AbelianArray.transpose(x.copy(), tuple(perm), inplace=True)
                    xt.modify(phases={tuple(s[q] for q in perm): p for s, p in x.phases.items()})
                    uu = AbelianArray.unfuse_all(f)
                else:
                    xt = x.transpose(tuple(perm))
                    uu = u
                if not all(groups):
                    pass  # expanded singleton axes stay; covered by the model diff only
                elif not same_value(uu, xt):
                    orc = "unfuse_all(fuse(x)) differs from the transposed original"
        # second-level fusing of already fused axes (model diff + round trip)
        if orc is None and second and "ok" in res[0] and env2["f"].ndim >= 2 and all(groups):
            f = env2["f"]
            g2 = progs.rand_groups(rng, f.ndim, max_groups=1)
            st2 = [{"out": ["f2"], "op": "fuse", "in": ["f"], "params": {"groups": g2} if fermi else {"groups": g2, "mode": mode}},
                   {"out": ["u2"], "op": "unfuse_all", "in": ["f2"], "params": {}}]
            res2, env3 = impl.run_prog(env2, st2)
            steps = steps + st2
            res = res + res2
            if "ok" in res2[0] and "ok" in res2[1]:
                if not fermi and any(len(g) > 1 for g in g2):
                    orc = address_map_check(f, env3["f2"], g2)
            else:
                orc = f"second-level fuse/unfuse raised {res2[0].get('msg') or res2[1].get('msg')}"
        nontrivial = any(len(g) > 1 for g in groups) and (keep < 1.0 or any(sorted(g) != list(g) for g in groups))
        out.append(dict(case=_mk_case(env, steps), impl=stream.strip_py(res), oracle=orc, meta=meta,
                        nontrivial=bool(nontrivial), op="fuse", triggers=[]))
    return out


def all_groupings(ndim, max_groups=2):
    """every ordered list of <= max_groups disjoint non-empty ordered groups with a multi-axis group"""
    out = []
    axes = list(range(ndim))
    for r1 in range(1, ndim + 1):
        for g1 in itertools.permutations(axes, r1):
            if r1 >= 2:
                out.append([list(g1)])
            if max_groups >= 2:
                rest = [a for a in axes if a not in g1]
                for r2 in range(1, len(rest) + 1):
                    for g2 in itertools.permutations(rest, r2):
                        if r1 >= 2 or r2 >= 2:
                            out.append([list(g1), list(g2)])
    return out


def exh_cases(seed, chunk, nchunks, tier):
    """exhaustive small structures: every grouping of every small array, both strategies"""
    from .. import small

    out = []
    k = -1
    for sym, ndims in (("Z2", (2, 3)), ("U1", (2, 3))):
        for ndim in ndims:
            for fermi in (False, True):
                if sym == "U1" and ndim == 3 and fermi:
                    continue
                for x in small.arrays(sym, ndim, fermi, max_charges=2, seed=seed):
                    if not x.blocks:
                        continue
                    k += 1
                    if k % nchunks != chunk:
                        continue
                    for groups in all_groupings(ndim):
                        modes = ["insert"] if fermi else ["insert", "concat"]
                        steps = []
                        for m in modes:
                            prm = {"groups": groups} if fermi else {"groups": groups, "mode": m}
                            steps.append({"out": [f"f_{m}"], "op": "fuse", "in": ["x"], "params": prm})
                            steps.append({"out": [f"u_{m}"], "op": "unfuse_all", "in": [f"f_{m}"], "params": {}})
                        env = {"x": x}
                        res, env2 = impl.run_prog(env, steps)
                        orc = None
                        if not all("ok" in r for r in res):
                            orc = "fuse/unfuse raised: " + str([r.get("msg") for r in res if "raise" in r][:1])
                        else:
                            _, _, _, perm = fused_layout(groups, ndim)
                            xt = x.transpose(tuple(perm))
                            for m in modes:
                                if not fermi:
                                    orc = address_map_check(x, env2[f"f_{m}"], groups)
                                if orc is None and not same_value(env2[f"u_{m}"], xt):
                                    orc = "unfuse_all(fuse(x)) differs from the transposed original"
                                if orc:
                                    orc = f"mode {m}: {orc}"
                                    break
                            if orc is None and not fermi and not same_value(env2["f_insert"], env2["f_concat"]):
                                orc = "insert and concat strategies give different results"
                        out.append(dict(case=_mk_case(env, steps), impl=stream.strip_py(res), oracle=orc,
                                        meta=dict(sym=sym, fermi=fermi, kind="exh-fuse", ndim=ndim),
                                        nontrivial=True, op="fuse", triggers=[]))
    return out


def run(ctx):
    from .. import tie

    # translation tie: Lean definitions regenerated from /repo's source + equality theorems with the model
    ctx.tie = tie.run_tie(ctx, tie.FUNCTIONS["C05"])
    n = 5000 if ctx.tier == "quick" else 40000
    stream.run_stream(ctx, "fuse", "harness.props.c05", "gen_cases", n, per_chunk=60,
                      canon_kw=dict(drop_zero=True))
    nch = 256
    chunks = list(range(nch)) if ctx.tier == "thorough" else [(ctx.seed + 37 * j) % nch for j in range(4)]
    stream.run_stream(ctx, "small", "harness.props.c05", "exh_cases", len(chunks), per_chunk=1,
                      canon_kw=dict(drop_zero=True), chunk_ids=chunks, nchunks=nch)
    if ctx.tier == "thorough":
        ctx.exhaustive = True
        ctx.notes.append("exhaustive sub-scope completed: all Z2/U1 arrays with 2-3 indices of <= 2 charges (size 1), all "
                         "dualness patterns, charges, full / one-missing sparsity (fermionic: Z2 up to 3, U1 up to 2 indices): "
                         "every ordered choice of <= 2 disjoint groups containing a multi-axis group, both strategies")


def replay(ctx, payload):
    return stream.replay(ctx, payload, canon_kw=dict(drop_zero=True))
